(* C01 - per-root EVENT TRACES of the real solver and their acceptor.  Definitions only (executable; extracted to
   ocaml/trc.ml by Extract/Extract_trc.v, driver ocaml/trc_driver.ml, run by checks/C01.py on the traces printed by
   harness/c01_trace.c).

   An observation is the disc (centre, radius) that one approximation s->root[i] holds at the ENTRY or at the EXIT of a
   Newton call (mps_polynomial_{f,d,m}newton, mps_secular_{f,d,m}newton: classic workers, improve_root, Jacobi-Aberth
   packets, secular iteration), or the disc that is finally RETURNED for it.  All numbers the C code stores (double,
   DPE, mpf) are dyadic rationals, so an observation is exact: centre in Q x Q, radius in Q, or "no finite radius"
   (DBL_MAX / RDPE_BIG / huge: no claim).

   The acceptor walks the observations of one root in program order and compares each disc with the one held before:
     - the new disc CONTAINS the previous one (decided exactly on squares: r <= r' and |c-c'|^2 <= (r'-r)^2):
       this is the net effect of the skeleton steps SAberth (z -= c; rad += |c|) and SEnlarge (rad += e, e >= 0)
       - "move-and-enlarge" - and of a Newton call that keeps or enlarges the radius at an unchanged centre; no new
       claim is made (Skel/SkelIncl.v: incl_is_skeleton_run);
     - otherwise the radius is FRESH (a Newton radius smaller than what was held, a restart, a phase change that
       rewrites the radius ...): the disc becomes an OBLIGATION, to be validated against the roots of the input.
   Soundness (Skel/TraceProofs.v): if every obligation contains a root, every disc observed along the trace does. *)
Require Import QArith List Bool.
Import ListNotations.
Local Open Scope Q_scope.

Record disc := Disc { cre : Q; cim : Q; crad : Q }.

(* where the observation was taken *)
Inductive okind := KEntry | KExit | KFinal.

Record obs := Obs { okd : okind; ore : Q; oim : Q; orad : option Q }.

Definition sq (x : Q) : Q := x * x.
Definition dist2 (d d' : disc) : Q := sq (cre d' - cre d) + sq (cim d' - cim d).

(* d' contains d:  |c - c'| + r <= r'  decided without square roots *)
Definition incl (d d' : disc) : bool :=
  Qle_bool (crad d) (crad d') && Qle_bool (dist2 d d') (sq (crad d' - crad d)).

Definition same_centre (d d' : disc) : bool := Qeq_bool (cre d) (cre d') && Qeq_bool (cim d) (cim d').

Inductive cls :=
| CNoClaim       (* no finite radius: nothing is claimed *)
| CFirst         (* a finite radius where none was held: fresh *)
| CSame          (* same disc *)
| CEnlarge       (* same centre, larger radius *)
| CMoveEnlarge   (* centre moved, new disc contains the old one *)
| CFresh.        (* anything else: fresh radius *)

Definition disc_of (o : obs) : option disc :=
  match orad o with Some r => Some (Disc (ore o) (oim o) r) | None => None end.

Definition classify (prev : option disc) (o : obs) : cls :=
  match disc_of o with
  | None => CNoClaim
  | Some d =>
      match prev with
      | None => CFirst
      | Some p =>
          if incl p d then
            (if same_centre p d then (if Qeq_bool (crad p) (crad d) then CSame else CEnlarge) else CMoveEnlarge)
          else CFresh
      end
  end.

Definition is_fresh (c : cls) : bool := match c with CFirst | CFresh => true | _ => false end.

(* one pass over the observations of a root: classification of every observation and, when fresh, its obligation *)
Fixpoint walk (prev : option disc) (tr : list obs) : list (cls * option disc) :=
  match tr with
  | [] => []
  | o :: t =>
      let c := classify prev o in
      (c, if is_fresh c then disc_of o else None) :: walk (disc_of o) t
  end.

Definition obligations (prev : option disc) (tr : list obs) : list disc :=
  flat_map (fun x => match snd x with Some d => [d] | None => [] end) (walk prev tr).

(* every disc claimed along the trace *)
Definition claims (tr : list obs) : list disc :=
  flat_map (fun o => match disc_of o with Some d => [d] | None => [] end) tr.

(* improve_root (common/improve.c): dN = Newton disc at the old point (exit of its mps_polynomial_mnewton call),
   dF = the disc held after `value -= corr; rad += |corr|; rad += 4 * 2^-prec * |value|`.  The step is
   move-and-enlarge of dN iff dF contains dN. *)
Definition improve_step_ok (dN dF : disc) : bool := incl dN dF.
