(* C01 - the "move-and-enlarge" class of the event-trace acceptor (Skel/TraceDefs.v: the new disc contains the one held
   before) is the net effect of two contract-free skeleton steps, SAberth and SEnlarge.  MathComp side. *)
From mathcomp Require Import all_ssreflect all_algebra.
From mathcomp Require Import ring.
Require Import MPSV.Skel.SkelDefs MPSV.Skel.SkelProofs.
Set Implicit Arguments. Unset Strict Implicit. Unset Printing Implicit Defensive.
Import Order.TTheory GRing.Theory Num.Theory.
Local Open Scope ring_scope.

Section SkelIncl.
Variable C : numClosedFieldType.
Implicit Types (p : {poly C}) (z w c r e : C) (st : state C) (a : approx C).

(* general form of move-and-enlarge: a disc that contains D(z, r) contains every point of D(z, r) *)
Lemma disc_incl z z' w r r' : `|z - w| <= r -> `|z - z'| + r <= r' -> `|z' - w| <= r'.
Proof.
move=> Hw Hincl; apply: le_trans Hincl.
have -> : z' - w = (z - w) - (z - z') by ring.
apply: le_trans (ler_norm_sub _ _) _.
by rewrite addrC ler_add2l.
Qed.

(* the two steps *)
Definition incl_steps (i : nat) z z' r r' : seq (step C) :=
  [:: SAberth i (z - z'); SEnlarge i (r' - r - `|z - z'|)].

(* they are enabled for EVERY polynomial (no Newton contract involved) exactly because the new disc contains the old
   one, and they turn the disc (z, r) of root i into (z', r'), leaving status and the other roots alone *)
Lemma incl_is_skeleton_run p st i z z' r r' s :
  (i < size st)%N -> nth (dflt C) st i = Approx z (Some r) s -> `|z - z'| + r <= r' ->
  valid_run p st (incl_steps i z z' r r') /\
  foldl (@apply_step C) st (incl_steps i z z' r r') = set_nth (dflt C) st i (Approx z' (Some r') s).
Proof.
move=> lt_i Hi Hincl; split.
  rewrite /= andbT subr_ge0.
  by have -> : (`|z - z'| <= r' - r) = (`|z - z'| + r <= r') by rewrite ler_subr_addr.
rewrite /= /upd lt_i Hi /= size_set_nth (maxn_idPr lt_i) lt_i nth_set_nth /= eqxx /=.
rewrite set_set_nth eqxx; congr (set_nth _ _ _ (Approx _ _ _)).
  by ring.
by congr Some; ring.
Qed.

(* hence (disc invariant) the claim of the old disc is carried over: direct corollary of disc_invariant *)
Corollary incl_keeps_inv p st i z z' r r' s :
  p != 0 -> inv p st ->
  (i < size st)%N -> nth (dflt C) st i = Approx z (Some r) s -> `|z - z'| + r <= r' ->
  inv p (set_nth (dflt C) st i (Approx z' (Some r') s)).
Proof.
move=> pn0 Hinv lt_i Hi Hincl.
have [Hv <-] := incl_is_skeleton_run p lt_i Hi Hincl.
exact: disc_invariant.
Qed.

End SkelIncl.
