(* C03 - theorems about the extended secular skeleton (SecExtDefs.xstep). *)
Require Import Arith Bool List Lia String ZifyBool.
Require Import MPSV.Total.SkelDefs MPSV.Total.SecExtDefs.

(* ------------------------------------------------------------------ generic lemmas *)
Section XInv.
  Variables (A St : Type) (step : A -> St -> St) (terminal : St -> bool) (inv : St -> Prop).
  Hypothesis Hinv : forall a s, inv s -> terminal s = false -> inv (step a s).
  Lemma xrun_inv : forall k orc t s, inv s -> inv (xrun A St step terminal k orc t s).
  Proof.
    induction k as [|k IH]; intros orc t s Hi; simpl; [exact Hi|].
    destruct (terminal s) eqn:Ht; [exact Hi|]. apply IH. apply Hinv; assumption.
  Qed.
End XInv.

(* a measure that decreases on every step between two states that both satisfy P; P is assumed along the run *)
Section XGenI.
  Variables (A St : Type) (step : A -> St -> St) (terminal : St -> bool) (good : St -> Prop) (mu : St -> nat) (P : St -> Prop).
  Hypothesis Hdec : forall a s, good s -> terminal s = false -> P s -> P (step a s) -> good (step a s) /\ mu (step a s) < mu s.
  Lemma xrun_terminates_I : forall k orc t s, good s -> mu s <= k ->
    (forall j, P (xrun A St step terminal j orc t s)) ->
    terminal (xrun A St step terminal k orc t s) = true /\ xsteps A St step terminal k orc t s <= mu s.
  Proof.
    induction k as [|k IH]; intros orc t s Hg Hk HP; simpl.
    - destruct (terminal s) eqn:Ht; [split; [reflexivity|lia]|].
      pose proof (HP 0) as H0. pose proof (HP 1) as H1. simpl in H0, H1. rewrite Ht in H1.
      destruct (Hdec (orc t) s Hg Ht H0 H1) as [_ Hlt]. lia.
    - destruct (terminal s) eqn:Ht; [split; [exact Ht|lia]|].
      pose proof (HP 0) as H0. pose proof (HP 1) as H1. simpl in H0, H1. rewrite Ht in H1.
      destruct (Hdec (orc t) s Hg Ht H0 H1) as [Hg' Hlt].
      assert (HP' : forall j, P (xrun A St step terminal j orc (S t) (step (orc t) s))).
      { intro j. pose proof (HP (S j)) as Hj. simpl in Hj. rewrite Ht in Hj. exact Hj. }
      destruct (IH orc (S t) (step (orc t) s) Hg' ltac:(lia) HP') as [H2 H3].
      split; [exact H2|lia].
  Qed.
End XGenI.

Arguments xileft : simpl never.
Arguments mp_start : simpl never.

Ltac xbrk :=
  repeat match goal with
         | |- context [if ?b then _ else _] => destruct b eqn:?
         | |- context [match ?x with _ => _ end] => is_var x; destruct x
         end.

(* ------------------------------------------------------------------ how a run ends *)
Definition xhas_msg (e : option string) : Prop := exists m, e = Some m /\ m <> ""%string.
Definition xresult (s : xst) : Prop := xroots s = true /\ xlast s <> NoPhase.

Definition xinv (s : xst) : Prop :=
  match xpc_ s with
  | X_start => True
  | X_prelim _ | X_starts => xlast s <> NoPhase
  | X_return => xhas_msg (xerr s) \/ xresult s
  | _ => xresult s
  end.

Lemma xmsg_ok : forall m : string, m <> ""%string -> xhas_msg (Some m).
Proof. intros m H. exists m. split; [reflexivity|exact H]. Qed.

Ltac xfin := simpl in *; try tauto; try discriminate; try (left; apply xmsg_ok; discriminate);
             try (split; [tauto|discriminate]); try (split; [reflexivity|discriminate]);
             try (right; split; [tauto|discriminate]); try (right; split; [reflexivity|discriminate]);
             try (right; tauto).

Lemma xinv_step : forall c g a s, xinv s -> xterminal s = false -> xinv (xstep c g a s).
Proof.
  intros c g a s Hs Ht.
  destruct s as [p lp pk jr m er rt]; unfold xinv, xresult, xterminal in *; simpl in *.
  destruct p; simpl in *; try discriminate; unfold xstep; simpl.
  - (* X_start *) destruct (kind g); destruct (start_phase g); xbrk; xfin.
  - (* X_prelim *) destruct ph; xbrk; xfin.
  - (* X_post *) xbrk; xfin.
  - (* X_regen0 *) xbrk; xfin.
  - (* X_starts *) xbrk; xfin.
  - (* X_loop *)
    assert (H1 : xresult (xafter_packet g a {| xpc_ := X_loop; xlast := lp; xpacket := pk; xjr := jr; xmpwp := m; xerr := er; xroots := rt |})).
    { unfold xafter_packet, xresult; simpl. destruct (is_float lp && negb (jacobi g) && x_fpe a); simpl; [split; [tauto|discriminate]|exact Hs]. }
    revert H1. generalize (xafter_packet g a {| xpc_ := X_loop; xlast := lp; xpacket := pk; xjr := jr; xmpwp := m; xerr := er; xroots := rt |}).
    intros s1 [Hr Hl]. unfold xloop_rest, xraise, xresult in *.
    destruct (max_pack c <? xpacket s1); [simpl; left; apply xmsg_ok; discriminate|].
    destruct (negb (xjr s1) && x_stop a); [simpl; tauto|].
    destruct (x_best a && xavoid_mp g); [simpl; tauto|].
    destruct (x_best a); destruct (x_regen1 a); destruct (x_regen a); destruct (x_stop2 a); simpl;
      try tauto; (split; [assumption|discriminate]).
  - (* X_cleanup *) unfold xraise; simpl. xbrk; xfin.
  - (* X_improve *) xbrk; xfin.
Qed.

Theorem secx_ends_in_result_or_error : forall c g orc k,
  let s := xrun xans xst (xstep c g) xterminal k orc 0 xinit in
  xterminal s = true -> xhas_msg (xerr s) \/ xresult s.
Proof.
  intros c g orc k s Ht.
  assert (H : xinv s).
  { apply (xrun_inv xans xst (xstep c g) xterminal xinv); [intros; apply xinv_step; assumption|unfold xinv, xinit; simpl; trivial]. }
  unfold xinv, xterminal in *. destruct (xpc_ s); try discriminate. exact H.
Qed.

(* ------------------------------------------------------------------ the phase is never lowered once the do/while has been entered *)
Definition prk (p : phase) : nat := match p with NoPhase => 0 | FloatP => 1 | DpeP => 2 | MpP => 3 end.
Definition in_loop_or_after (s : xst) : Prop := match xpc_ s with X_loop | X_cleanup | X_improve _ | X_return => True | _ => False end.

Lemma prk_le3 : forall p, prk p <= 3.
Proof. destruct p; simpl; lia. Qed.

Lemma xloop_rest_phase : forall c g a s1,
  in_loop_or_after (xloop_rest c g a s1) /\ prk (xlast s1) <= prk (xlast (xloop_rest c g a s1)).
Proof.
  intros c g a s1. pose proof (prk_le3 (xlast s1)) as H3. unfold xloop_rest, in_loop_or_after, xraise.
  destruct (max_pack c <? xpacket s1); [simpl; split; [trivial|lia]|].
  destruct (negb (xjr s1) && x_stop a); [simpl; split; [trivial|lia]|].
  destruct (x_best a && xavoid_mp g); [simpl; split; [trivial|lia]|].
  destruct (x_best a); destruct (x_regen1 a); destruct (x_regen a); destruct (x_stop2 a); simpl; split; trivial; lia.
Qed.

Lemma secx_phase_step : forall c g a s, in_loop_or_after s ->
  in_loop_or_after (xstep c g a s) /\ prk (xlast s) <= prk (xlast (xstep c g a s)).
Proof.
  intros c g a s Hs.
  destruct s as [p lp pk jr m er rt]; unfold in_loop_or_after in Hs; simpl in Hs.
  destruct p; try contradiction; unfold xstep; cbn [xpc_].
  - destruct (xloop_rest_phase c g a (xafter_packet g a {| xpc_ := X_loop; xlast := lp; xpacket := pk; xjr := jr; xmpwp := m; xerr := er; xroots := rt |})) as [H1 H2].
    split; [exact H1|].
    assert (H0 : prk lp <= prk (xlast (xafter_packet g a {| xpc_ := X_loop; xlast := lp; xpacket := pk; xjr := jr; xmpwp := m; xerr := er; xroots := rt |}))).
    { unfold xafter_packet; simpl. destruct lp; simpl; destruct (negb (jacobi g) && x_fpe a); simpl; lia. }
    simpl in *. lia.
  - unfold in_loop_or_after, xraise; simpl. pose proof (prk_le3 lp) as H3.
    destruct (negb (xin_prec g =? 0) && negb (is_mp lp) && can_improve g); destruct (is_approx (xgoal g) && can_improve g); simpl; split; trivial; lia.
  - unfold in_loop_or_after; simpl.
    destruct (x_allapprox a); simpl; [split; trivial; lia|].
    destruct ((xin_prec g <? cur + (cur + 0)) && negb (xin_prec g =? 0)); simpl; split; trivial; lia.
  - unfold in_loop_or_after; simpl. split; trivial; lia.
Qed.

Theorem secx_phase_monotone : forall c g orc k t s, in_loop_or_after s ->
  prk (xlast s) <= prk (xlast (xrun xans xst (xstep c g) xterminal k orc t s)).
Proof.
  intros c g orc. induction k as [|k IH]; intros t s Hs; simpl; [lia|].
  destruct (xterminal s); [lia|].
  destruct (secx_phase_step c g (orc t) s Hs) as [H1 H2].
  specialize (IH (S t) _ H1). lia.
Qed.

(* ------------------------------------------------------------------ bounded while the working precision stays below W *)
Definition D0 (W : nat) : nat := Nat.log2 W - (Nat.log2 mp_start - 1).
Definition xdl (W : nat) (s : xst) : nat := Nat.log2 W - prank s.
Definition xT (g : xcfg) : nat := xileft g (xwp_min g) + 2.

Definition xmu (c : caps) (g : xcfg) (W : nat) (s : xst) : nat :=
  match xpc_ s with
  | X_return => 0
  | X_improve cur => xileft g cur
  | X_cleanup => xileft g (xwp_min g) + 1
  | X_loop => xdl W s * (max_pack c + 2) + (max_pack c + 1 - xpacket s) + xT g
  | X_starts => D0 W * (max_pack c + 2) + (max_pack c + 1) + xT g + 1
  | X_regen0 => D0 W * (max_pack c + 2) + (max_pack c + 1) + xT g + 2
  | X_post => D0 W * (max_pack c + 2) + (max_pack c + 1) + xT g + 3
  | X_prelim SF => D0 W * (max_pack c + 2) + (max_pack c + 1) + xT g + 5
  | X_prelim _ => D0 W * (max_pack c + 2) + (max_pack c + 1) + xT g + 4
  | X_start => D0 W * (max_pack c + 2) + (max_pack c + 1) + xT g + 6
  end.

Definition xgood (g : xcfg) (s : xst) : Prop :=
  match xpc_ s with
  | X_start => xpacket s = 0 /\ xlast s = NoPhase
  | X_prelim _ | X_post | X_regen0 | X_starts => xpacket s = 0 /\ (is_mp (xlast s) = true -> xpc_ s = X_prelim SM)
  | X_loop | X_cleanup => is_mp (xlast s) = true -> mp_start <= xmpwp s
  | X_improve cur => xin_prec g <> 0 /\ 1 <= cur
  | X_return => True
  end.

Definition xcfg_ok (g : xcfg) : Prop := 1 <= xwp_min g.
Definition ximprove_capped (g : xcfg) : Prop := xin_prec g <> 0 \/ xgoal g <> Approximate \/ can_improve g = false.

Lemma xileft_step : forall g cur, 1 <= cur -> 2 * cur <= xin_prec g -> S (xileft g (2 * cur)) <= xileft g cur.
Proof.
  intros g cur Hc Hle. unfold xileft.
  assert (H1 : Nat.log2 (2 * cur) = S (Nat.log2 cur)) by (apply Nat.log2_double; lia).
  assert (H2 : Nat.log2 (2 * cur) <= Nat.log2 (xin_prec g)) by (apply Nat.log2_le_mono; exact Hle).
  lia.
Qed.

Lemma xileft_pos : forall g cur, 1 <= xileft g cur.
Proof. intros. unfold xileft. lia. Qed.

Opaque xileft.

Lemma log2_mp_start : Nat.log2 mp_start = 7.
Proof. reflexivity. Qed.

(* a raise of the precision that stays below W uses up one of the doublings *)
Lemma xraise_rank : forall W s, (is_mp (xlast s) = true -> mp_start <= xmpwp s) -> xmpwp (xraise s) <= W ->
  S (xdl W (xraise s)) <= xdl W s /\ mp_start <= xmpwp (xraise s) /\ is_mp (xlast (xraise s)) = true.
Proof.
  intros W s Hmp HW. unfold xdl, prank, xraise in *; simpl in *.
  destruct (is_mp (xlast s)) eqn:E.
  - specialize (Hmp eq_refl).
    assert (H1 : Nat.log2 (2 * xmpwp s) = S (Nat.log2 (xmpwp s))) by (apply Nat.log2_double; unfold mp_start in Hmp; lia).
    assert (H2 : Nat.log2 (2 * xmpwp s) <= Nat.log2 W) by (apply Nat.log2_le_mono; exact HW).
    replace (xmpwp s + (xmpwp s + 0)) with (2 * xmpwp s) in * by lia.
    rewrite H1 in *. unfold mp_start in *. repeat split; lia.
  - assert (H2 : Nat.log2 mp_start <= Nat.log2 W) by (apply Nat.log2_le_mono; exact HW).
    rewrite log2_mp_start in *. repeat split; lia.
Qed.

Lemma xdl_le_D0 : forall W s, (is_mp (xlast s) = true -> mp_start <= xmpwp s) -> xdl W s <= D0 W.
Proof.
  intros W s H. unfold xdl, D0, prank. rewrite log2_mp_start.
  destruct (is_mp (xlast s)); [|lia].
  assert (Nat.log2 mp_start <= Nat.log2 (xmpwp s)) by (apply Nat.log2_le_mono; apply H; reflexivity).
  rewrite log2_mp_start in *. lia.
Qed.

Lemma mul_drop : forall d' d C, S d' <= d -> d' * C + C <= d * C.
Proof. intros. nia. Qed.

Lemma xstep_decreases : forall c g W, xcfg_ok g -> ximprove_capped g ->
  forall a s, xgood g s -> xterminal s = false -> xmpwp s <= W -> xmpwp (xstep c g a s) <= W ->
  xgood g (xstep c g a s) /\ xmu c g W (xstep c g a s) < xmu c g W s.
Proof.
  intros c g W Hok Hcap a s Hg Ht HP HP'.
  pose proof (xileft_pos g (xwp_min g)) as HI.
  destruct s as [p lp pk jr m er rt]. destruct p; unfold xterminal in Ht; simpl in Ht; try discriminate.
  - (* X_start *)
    unfold xgood in Hg; simpl in Hg. destruct Hg as [Hpk Hlp]. subst pk lp.
    unfold xstep, xgood, xmu, xT; simpl.
    destruct (kind g); destruct (start_phase g); xbrk; simpl; (split; [try tauto; try (split; [reflexivity|intro; try discriminate; try reflexivity])|lia]).
  - (* X_prelim *)
    unfold xgood in Hg; simpl in Hg. destruct Hg as [Hpk Hlp]. subst pk.
    unfold xstep, xgood, xmu, xT; simpl.
    destruct ph; xbrk; simpl; (split; [try tauto; try (split; [reflexivity|intro; discriminate])|lia]).
    + split; [reflexivity|]. intro H. specialize (Hlp H). discriminate.
    + split; [reflexivity|]. intro H. specialize (Hlp H). discriminate.
  - (* X_post *)
    unfold xgood in Hg; simpl in Hg. destruct Hg as [Hpk Hlp]. subst pk.
    assert (Hn : is_mp lp = false) by (destruct (is_mp lp); [specialize (Hlp eq_refl); discriminate|reflexivity]).
    unfold xstep, xgood, xmu, xT; simpl.
    xbrk; simpl; rewrite ?Hn; (split; [try (intro; discriminate); try (split; [reflexivity|intro; discriminate])|lia]).
  - (* X_regen0 *)
    unfold xgood in Hg; simpl in Hg. destruct Hg as [Hpk Hlp]. subst pk.
    assert (Hn : is_mp lp = false) by (destruct (is_mp lp); [specialize (Hlp eq_refl); discriminate|reflexivity]).
    unfold xstep, xgood, xmu, xT; simpl.
    xbrk; simpl; rewrite ?Hn; (split; [try tauto; try (split; [reflexivity|intro; discriminate])|lia]).
  - (* X_starts *)
    unfold xgood in Hg; simpl in Hg. destruct Hg as [Hpk Hlp]. subst pk.
    assert (Hn : is_mp lp = false) by (destruct (is_mp lp); [specialize (Hlp eq_refl); discriminate|reflexivity]).
    unfold xstep, xgood, xmu, xT; simpl.
    destruct (x_err a); simpl; [split; [trivial|lia]|].
    split; [rewrite Hn; intro; discriminate|].
    unfold xdl, prank, D0; simpl. rewrite Hn. generalize (Nat.log2 W - (Nat.log2 mp_start - 1)). intro d. lia.
  - (* X_loop *)
    unfold xgood in Hg; simpl in Hg.
    (* the state after the packet: only the phase float -> dpe and the packet counter change *)
    set (lp0 := if is_float lp && negb (jacobi g) && x_fpe a then DpeP else lp).
    assert (Hlp0 : is_mp lp0 = is_mp lp) by (unfold lp0; destruct lp; simpl; destruct (negb (jacobi g) && x_fpe a); reflexivity).
    set (s1 := {| xpc_ := X_loop; xlast := lp0; xpacket := S pk; xjr := jr; xmpwp := m; xerr := er; xroots := rt |}).
    assert (Hs1 : is_mp (xlast s1) = true -> mp_start <= xmpwp s1) by (simpl; rewrite Hlp0; exact Hg).
    assert (Hd1 : xdl W s1 = xdl W {| xpc_ := X_loop; xlast := lp; xpacket := pk; xjr := jr; xmpwp := m; xerr := er; xroots := rt |})
      by (unfold xdl, prank; simpl; rewrite Hlp0; reflexivity).
    assert (Hap : xafter_packet g a {| xpc_ := X_loop; xlast := lp; xpacket := pk; xjr := jr; xmpwp := m; xerr := er; xroots := rt |} = s1).
    { unfold xafter_packet, s1, lp0; simpl. destruct (is_float lp && negb (jacobi g) && x_fpe a); reflexivity. }
    assert (Hstep : xstep c g a {| xpc_ := X_loop; xlast := lp; xpacket := pk; xjr := jr; xmpwp := m; xerr := er; xroots := rt |} = xloop_rest c g a s1).
    { unfold xstep; cbn [xpc_]. rewrite Hap. reflexivity. }
    rewrite Hstep in *. clear Hstep Hap. unfold xloop_rest in *. change (xpacket s1) with (S pk) in *. change (xjr s1) with jr in *.
    assert (Hrhs : xmu c g W {| xpc_ := X_loop; xlast := lp; xpacket := pk; xjr := jr; xmpwp := m; xerr := er; xroots := rt |}
                   = xdl W s1 * (max_pack c + 2) + (max_pack c + 1 - pk) + xT g)
      by (unfold xmu; cbn [xpc_ xpacket]; rewrite Hd1; reflexivity).
    rewrite Hrhs. clear Hrhs.
    destruct (max_pack c <? S pk) eqn:E1.
    { split; [exact I|]. change (xmu c g W (xfail s1 msg_maxit)) with 0. unfold xT; lia. }
    apply Nat.ltb_ge in E1.
    destruct (negb jr && x_stop a).
    { split; [exact Hs1|]. change (xmu c g W (xset_pc s1 X_cleanup)) with (xileft g (xwp_min g) + 1). unfold xT; lia. }
    destruct (x_best a && xavoid_mp g).
    { split; [exact Hs1|]. change (xmu c g W (xset_pc s1 X_cleanup)) with (xileft g (xwp_min g) + 1). unfold xT; lia. }
    cbv zeta in *.
    assert (Htail : forall s3, (is_mp (xlast s3) = true -> mp_start <= xmpwp s3) ->
              (xpacket s3 = S pk /\ xdl W s3 = xdl W s1) \/ (xpacket s3 = 0 /\ S (xdl W s3) <= xdl W s1) ->
              xgood g (if x_stop2 a then xset_pc s3 X_cleanup else xset_pc s3 X_loop) /\
              xmu c g W (if x_stop2 a then xset_pc s3 X_cleanup else xset_pc s3 X_loop)
              < xdl W s1 * (max_pack c + 2) + (max_pack c + 1 - pk) + xT g).
    { intros s3 Hmp3 Hcase. destruct (x_stop2 a).
      - split; [exact Hmp3|]. change (xmu c g W (xset_pc s3 X_cleanup)) with (xileft g (xwp_min g) + 1). unfold xT; lia.
      - split; [exact Hmp3|].
        change (xmu c g W (xset_pc s3 X_loop)) with (xdl W s3 * (max_pack c + 2) + (max_pack c + 1 - xpacket s3) + xT g).
        destruct Hcase as [[Hp Hd]|[Hp Hd]]; rewrite Hp.
        + rewrite Hd. lia.
        + pose proof (mul_drop _ _ (max_pack c + 2) Hd). lia. }
    assert (HW3 : forall s3, xmpwp (if x_stop2 a then xset_pc s3 X_cleanup else xset_pc s3 X_loop) = xmpwp s3)
      by (intros; destruct (x_stop2 a); reflexivity).
    rewrite HW3 in HP'.
    destruct (x_best a) eqn:Eb.
    + (* best_approx: first raise *)
      set (s2 := if x_regen1 a then xset_jr (xraise s1) true else xraise s1) in *.
      assert (Hs2 : xdl W s2 = xdl W (xraise s1) /\ xmpwp s2 = xmpwp (xraise s1) /\ xlast s2 = MpP /\ xpacket s2 = 0)
        by (unfold s2; destruct (x_regen1 a); repeat split; reflexivity).
      destruct Hs2 as [Hd2 [Hm2 [Hl2 Hp2]]].
      destruct (x_regen a) eqn:Er.
      * change (xmpwp (xset_jr s2 true)) with (xmpwp s2) in HP'. rewrite Hm2 in HP'.
        destruct (xraise_rank W s1 Hs1 HP') as [Hk1 [Hm1 Hp1]].
        apply Htail.
        -- change (xmpwp (xset_jr s2 true)) with (xmpwp s2). rewrite Hm2. intros _; exact Hm1.
        -- right. split; [exact Hp2|]. change (xdl W (xset_jr s2 true)) with (xdl W s2). rewrite Hd2. exact Hk1.
      * (* second raise *)
        assert (Hx : xmpwp (xraise s2) = 2 * xmpwp (xraise s1)).
        { unfold xraise at 1. cbn [xmpwp]. rewrite Hl2. cbn [is_mp]. rewrite Hm2. reflexivity. }
        assert (Hr1W : xmpwp (xraise s1) <= W) by lia.
        destruct (xraise_rank W s1 Hs1 Hr1W) as [Hk1 [Hm1 Hp1]].
        assert (Hs2mp : is_mp (xlast s2) = true -> mp_start <= xmpwp s2) by (rewrite Hm2; intros _; exact Hm1).
        destruct (xraise_rank W s2 Hs2mp HP') as [Hk2 [Hm2' Hp2']].
        rewrite Hd2 in Hk2.
        apply Htail.
        -- intros _; exact Hm2'.
        -- right. split; [reflexivity|lia].
    + destruct (x_regen a) eqn:Er.
      * (* no raise: the packet counter *)
        apply Htail; [exact Hs1|]. left. split; reflexivity.
      * destruct (xraise_rank W s1 Hs1 HP') as [Hk1 [Hm1 Hp1]].
        apply Htail; [intros _; exact Hm1|]. right. split; [reflexivity|exact Hk1].
  - (* X_cleanup *)
    unfold xstep, xgood, xmu; simpl.
    destruct (is_approx (xgoal g) && can_improve g) eqn:E; simpl.
    + split; [|lia]. split; [|exact Hok].
      destruct Hcap as [H|[H|H]]; [exact H| |rewrite H in E; lia].
      destruct (xgoal g); simpl in E; try discriminate. congruence.
    + split; [trivial|lia].
  - (* X_improve *)
    unfold xgood in Hg; simpl in Hg. destruct Hg as [Hp Hc].
    unfold xstep, xgood, xmu; simpl.
    destruct (x_allapprox a); simpl; [split; [trivial|pose proof (xileft_pos g cur); lia]|].
    destruct ((xin_prec g <? cur + (cur + 0)) && negb (xin_prec g =? 0)) eqn:E; simpl.
    + split; [trivial|pose proof (xileft_pos g cur); lia].
    + assert (Hle : 2 * cur <= xin_prec g) by lia.
      pose proof (xileft_step g cur Hc Hle) as Hi.
      replace (2 * cur) with (cur + (cur + 0)) in Hi by lia.
      split; [split; [exact Hp|lia]|lia].
Qed.

Lemma xmu_init : forall c g W, xmu c g W xinit = XBound c g W.
Proof. intros. unfold xmu, xinit, XBound, xT, D0; simpl. lia. Qed.

Theorem secx_bounded_under_cap : forall c g W, xcfg_ok g -> ximprove_capped g -> forall orc,
  (forall j, xmpwp (xrun xans xst (xstep c g) xterminal j orc 0 xinit) <= W) ->
  xterminal (xrun xans xst (xstep c g) xterminal (XBound c g W) orc 0 xinit) = true /\
  xsteps xans xst (xstep c g) xterminal (XBound c g W) orc 0 xinit <= XBound c g W.
Proof.
  intros c g W Hok Hcap orc HP.
  pose proof (xrun_terminates_I xans xst (xstep c g) xterminal (xgood g) (xmu c g W) (fun s => xmpwp s <= W)
                (fun a s => xstep_decreases c g W Hok Hcap a s) (XBound c g W) orc 0 xinit) as H.
  rewrite xmu_init in H. apply H; [unfold xgood, xinit; simpl; tauto|lia|exact HP].
Qed.

(* ------------------------------------------------------------------ as the code stands there is no cap *)
Definition xadv_inv (s : xst) : Prop :=
  match xpc_ s with
  | X_start => xpacket s = 0
  | X_prelim SF | X_prelim SD => xpacket s = 0
  | X_post | X_regen0 | X_starts => xpacket s = 0
  | X_loop => xpacket s = 0
  | _ => False
  end.

Lemma xadv_step : forall c g, 1 <= max_pack c -> xavoid_mp g = false -> crude g = false -> start_phase g <> MpP ->
  forall s, xadv_inv s -> xadv_inv (xstep c g xans_adv s) /\ xterminal s = false.
Proof.
  intros c g HP Hav Hcr Hsp s Hs.
  destruct s as [p lp pk jr m er rt]; unfold xadv_inv, xterminal in *; simpl in *.
  destruct p; simpl in *; try contradiction; (split; [|reflexivity]); unfold xstep; simpl.
  - destruct (kind g); destruct (start_phase g); simpl; try exact Hs; congruence.
  - destruct ph; simpl; try contradiction; exact Hs.
  - rewrite Hcr. simpl. destruct (negb (is_float lp) && false); exact Hs.
  - exact Hs.
  - exact Hs.
  - subst pk. unfold xloop_rest, xafter_packet; simpl.
    replace (is_float lp && negb (jacobi g) && false) with false by (destruct (is_float lp); destruct (jacobi g); reflexivity).
    simpl. rewrite Hav. destruct (max_pack c <? 1) eqn:E; [apply Nat.ltb_lt in E; lia|].
    rewrite andb_false_r. simpl. reflexivity.
Qed.

Theorem secx_unbounded : forall c g, 1 <= max_pack c -> xavoid_mp g = false -> crude g = false -> start_phase g <> MpP ->
  forall k, xterminal (xrun xans xst (xstep c g) xterminal k (fun _ => xans_adv) 0 xinit) = false.
Proof.
  intros c g HP Hav Hcr Hsp k.
  assert (H : forall k t s, xadv_inv s -> xadv_inv (xrun xans xst (xstep c g) xterminal k (fun _ => xans_adv) t s)).
  { induction k0 as [|k0 IH]; intros t s Hs; simpl; [exact Hs|].
    destruct (xadv_step c g HP Hav Hcr Hsp s Hs) as [H1 H2]. rewrite H2. apply IH. exact H1. }
  assert (Hi : xadv_inv xinit) by (unfold xadv_inv, xinit; simpl; reflexivity).
  specialize (H k 0 xinit Hi).
  destruct (xadv_step c g HP Hav Hcr Hsp _ H) as [_ H2]. exact H2.
Qed.

Transparent xileft.
