(* C03 - soundness of the acceptor for the extended secular skeleton: an accepted trace is the trace of a run of [xstep]. *)
Require Import Arith Bool List Lia String.
Require Import MPSV.Total.SkelDefs MPSV.Total.SecExtDefs MPSV.Total.SecExtAccept.
Import ListNotations.
Open Scope list_scope.

Lemma phase_eqb_eq : forall a b, phase_eqb a b = true -> a = b.
Proof. intros a b H; destruct a, b; simpl in H; try discriminate; reflexivity. Qed.

Lemma xev_eqb_eq : forall a b, xev_eqb a b = true -> a = b.
Proof.
  intros a b H; destruct a, b; simpl in H; try discriminate; try reflexivity.
  - apply Bool.eqb_prop in H. subst. reflexivity.
  - apply phase_eqb_eq in H. subst. reflexivity.
  - apply Nat.eqb_eq in H. subst. reflexivity.
Qed.

Lemma xstrip_app : forall out evs evs', xstrip out evs = Some evs' -> evs = out ++ evs'.
Proof.
  induction out as [|o out IH]; intros evs evs' H; simpl in *.
  - inversion H. reflexivity.
  - destruct evs as [|e evs]; [discriminate|].
    destruct (xev_eqb o e) eqn:E; [|discriminate].
    apply xev_eqb_eq in E. subst. simpl. f_equal. apply IH. exact H.
Qed.

Definition lp_ok (lp : phase) (s : xst) : Prop := lp = NoPhase \/ lp = xlast s.

Lemma accept_x_sound : forall fuel c g ferr lp s evs n n' l,
  accept_x fuel c g ferr lp s evs n = (true, n', l) ->
  exists answers, n' = n + List.length answers /\
    fst (xtrace answers c g s) = evs /\ xterminal (snd (xtrace answers c g s)) = true /\
    xis_some (xerr (snd (xtrace answers c g s))) = ferr /\ lp_ok lp (snd (xtrace answers c g s)).
Proof.
  induction fuel as [|f IH]; intros c g ferr lp s evs n n' l H; simpl in H; [inversion H|].
  destruct (xterminal s) eqn:Ht.
  - destruct evs; [|discriminate H]. injection H as H1 H2 H3. exists []. simpl.
    apply andb_prop in H1. destruct H1 as [He Hl].
    split; [lia|]. split; [reflexivity|]. split; [exact Ht|]. split; [apply Bool.eqb_prop; exact He|].
    unfold lp_ok. apply orb_prop in Hl. destruct Hl as [Hl|Hl]; apply phase_eqb_eq in Hl; [left|right]; exact Hl.
  - destruct (xstrip (xemit c g (xguide c g s evs) s) evs) as [evs'|] eqn:Es; [|discriminate H].
    destruct (IH _ _ _ _ _ _ _ _ _ H) as [r [Hn [Ht' [Hterm [Herr Hlp]]]]].
    exists (xguide c g s evs :: r). simpl.
    destruct (xtrace r c g (xstep c g (xguide c g s evs) s)) as [t s'] eqn:Eu. simpl in *.
    repeat split; try lia; try assumption.
    subst t. symmetry. apply xstrip_app. exact Es.
Qed.

Theorem check_x_sound : forall c g ferr lp evs n l,
  check_x c g ferr lp evs = (true, n, l) ->
  exists answers, List.length answers = n /\
    fst (xtrace answers c g xinit) = evs /\ xterminal (snd (xtrace answers c g xinit)) = true /\
    xis_some (xerr (snd (xtrace answers c g xinit))) = ferr /\
    (lp = NoPhase \/ lp = xlast (snd (xtrace answers c g xinit))).
Proof.
  intros c g ferr lp evs n l H. unfold check_x in H.
  destruct (accept_x_sound _ _ _ _ _ _ _ _ _ _ H) as [r [Hn [H2 [H3 [H4 H5]]]]].
  exists r. repeat split; try assumption; lia.
Qed.
