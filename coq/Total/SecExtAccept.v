(* C03 - acceptor for the event traces of the extended secular skeleton (SecExtDefs.xstep).

   [xemit] gives every step its observable events (lines of the library's own debug log, filtered by harness/c03_solve.c);
   [accept_x] runs the SAME [xstep] the theorems are about, with answers chosen by a guide that looks at the upcoming events,
   and accepts iff the run emits exactly the given trace, ends in a terminal state with the same error flag as the real
   solve and -- when the real solve returned roots -- with the same s->lastphase.  Soundness: SecExtAcceptProofs.v. *)
Require Import Arith Bool List Lia String.
Require Import MPSV.Total.SkelDefs MPSV.Total.SecExtDefs.
Import ListNotations.
Open Scope list_scope.

Inductive xev :=
| VSecEq                 (* "Generated initial coefficients for the secular equation" *)
| VCd (d : bool)         (* "Check data suggests starting phase should be floating point | DPE phase" *)
| VPre                   (* "Computing starting points and performing first Aberth packet" *)
| VPreFpe                (* "Aberth has failed due to floating point exceptions" *)
| VBack                  (* "Going back to float_phase because all the approximations ..." *)
| VSwD                   (* "Switching to DPE phase since initial regeneration of the coefficients did not succeed." *)
| VRegFail               (* "Initial generation of the secular equation coefficients did not succeed" *)
| VStarts                (* "Computing starting points" *)
| VCleanErr              (* "Returning since some errors have been detected" *)
| VIt (p : phase)        (* "Starting floating point | DPE | MP iterations" *)
| VItFpe                 (* "Switching to DPE arithmetic since there are roots not representable ..." *)
| VStop                  (* "Stop conditions were satisfied" *)
| VAvoid                 (* "Multiprecision has been manually disabled, jumping to the exit stage" *)
| VSwitch                (* "Called mps_secular_switch_phase" *)
| VRaise                 (* "Called mps_secular_raise_precision" *)
| VReg1Fail              (* "Regeneration failed" *)
| VRegRaise              (* "Raising precision because regeneration failed" *)
| VCleanup               (* "Validating the inclusions" *)
| VImp (cur : nat).      (* "Step of improvement, precision = cur bits" *)

Definition phase_eqb (a b : phase) : bool :=
  match a, b with NoPhase, NoPhase | FloatP, FloatP | DpeP, DpeP | MpP, MpP => true | _, _ => false end.

Definition xev_eqb (a b : xev) : bool :=
  match a, b with
  | VSecEq, VSecEq | VPre, VPre | VPreFpe, VPreFpe | VBack, VBack | VSwD, VSwD | VRegFail, VRegFail | VStarts, VStarts
  | VCleanErr, VCleanErr | VItFpe, VItFpe | VStop, VStop | VAvoid, VAvoid | VSwitch, VSwitch | VRaise, VRaise
  | VReg1Fail, VReg1Fail | VRegRaise, VRegRaise | VCleanup, VCleanup => true
  | VCd x, VCd y => Bool.eqb x y
  | VIt p, VIt q => phase_eqb p q
  | VImp m, VImp n => m =? n
  | _, _ => false
  end.

Fixpoint xstrip (out evs : list xev) : option (list xev) :=
  match out with
  | [] => Some evs
  | o :: out' => match evs with
                 | e :: evs' => if xev_eqb o e then xstrip out' evs' else None
                 | [] => None
                 end
  end.

(* events of mps_secular_switch_phase / mps_secular_raise_precision, by the phase the driver is in *)
Definition raise_evs (p : phase) : list xev := if is_mp p then [VRaise] else [VSwitch; VRaise].

Definition xemit (c : caps) (g : xcfg) (a : xans) (s : xst) : list xev :=
  match xpc_ s with
  | X_start =>
      match kind g with
      | KSecular => [VSecEq]
      | _ => match start_phase g with
             | NoPhase => if x_err a then [] else [VCd (x_whichd a)]
             | _ => []
             end
      end
  | X_prelim SF => VPre :: (if x_err a then [VCleanErr] else if x_fpe a then [VPreFpe] else [])
  | X_prelim SD => VPre :: (if x_err a then [VCleanErr] else [])
  | X_prelim SM => [VPre]
  | X_post =>
      if crude g then []
      else if x_pre a then [VStop]
      else if negb (is_float (xlast s)) && x_back a then [VBack]
      else []
  | X_regen0 =>
      if x_regen1 a then []
      else if is_float (xlast s) then VSwD :: (if x_regen a then [] else [VRegFail])
      else [VRegFail]
  | X_starts => (if xjr s then [] else [VStarts]) ++ (if x_err a then [VCleanErr] else [])
  | X_loop =>
      let fpe := is_float (xlast s) && negb (jacobi g) && x_fpe a in
      let p0 := if fpe then DpeP else xlast s in
      VIt (xlast s) :: (if fpe then [VItFpe] else []) ++
      (if max_pack c <? S (xpacket s) then []
       else if negb (xjr s) && x_stop a then [VStop]
       else if x_best a && xavoid_mp g then [VAvoid]
       else (if x_best a then raise_evs p0 ++ (if x_regen1 a then [] else [VReg1Fail]) else []) ++
            (if x_regen a then [] else VRegRaise :: raise_evs (if x_best a then MpP else p0)) ++
            (if x_stop2 a then [VStop] else []))
  | X_cleanup => VCleanup :: (if negb (xin_prec g =? 0) && negb (is_mp (xlast s)) && can_improve g then [VSwitch; VRaise] else [])
  | X_improve cur => if x_allapprox a then [] else [VImp cur]
  | X_return => []
  end.

Definition xans0 : xans :=
  {| x_err := false; x_whichd := false; x_lc0 := false; x_fpe := false; x_pre := false; x_back := false; x_regen1 := true; x_regen := true;
     x_stop := false; x_best := false; x_stop2 := false; x_allapprox := false |}.

Definition mkx (e wd fpe pre back r1 r stop best stop2 allap : bool) : xans :=
  {| x_err := e; x_whichd := wd; x_lc0 := false; x_fpe := fpe; x_pre := pre; x_back := back; x_regen1 := r1; x_regen := r;
     x_stop := stop; x_best := best; x_stop2 := stop2; x_allapprox := allap |}.

Definition skip_raise (evs : list xev) : list xev :=
  match evs with VSwitch :: VRaise :: r => r | VRaise :: r => r | _ => evs end.
Definition is_VStop (evs : list xev) : bool := match evs with VStop :: _ => true | _ => false end.

(* the part of a do/while iteration after the packet: which of best_approx / regeneration failure / stop produced the events *)
Definition loop_guide (fpe : bool) (r : list xev) : xans :=
  match r with
  | VStop :: _ => mkx false false fpe false false true true true false true false
  | VAvoid :: _ => mkx false false fpe false false true true false true false false
  | VRegRaise :: r' => mkx false false fpe false false true false false false (is_VStop (skip_raise r')) false
  | VSwitch :: _ | VRaise :: _ =>
      let r1 := skip_raise r in
      let reg1 := match r1 with VReg1Fail :: _ => false | _ => true end in
      let r2 := match r1 with VReg1Fail :: q => q | _ => r1 end in
      (match r2 with
       | VRegRaise :: r3 => mkx false false fpe false false reg1 false false true (is_VStop (skip_raise r3)) false
       | _ => mkx false false fpe false false reg1 true false true (is_VStop r2) false
       end)
  | _ => mkx false false fpe false false true true false false false false
  end.

Definition xguide (c : caps) (g : xcfg) (s : xst) (evs : list xev) : xans :=
  match xpc_ s with
  | X_start =>
      let with_lc0 (a : xans) (b : bool) : xans :=
        {| x_err := x_err a; x_whichd := x_whichd a; x_lc0 := b; x_fpe := x_fpe a; x_pre := x_pre a; x_back := x_back a;
           x_regen1 := x_regen1 a; x_regen := x_regen a; x_stop := x_stop a; x_best := x_best a; x_stop2 := x_stop2 a;
           x_allapprox := x_allapprox a |} in
      let no_pre (r : list xev) : bool := match r with VPre :: _ => false | _ => true end in
      match start_phase g with
      | NoPhase => match evs with
                   | VCd d :: r => with_lc0 (mkx false d false false false true true false false false false) (no_pre r)
                   | _ => mkx true false false false false true true false false false false
                   end
      | _ => with_lc0 xans0 (no_pre evs)
      end
  | X_prelim _ => match evs with
                  | VPre :: VCleanErr :: _ => mkx true false false false false true true false false false false
                  | VPre :: VPreFpe :: _ => mkx false false true false false true true false false false false
                  | _ => xans0
                  end
  | X_post => match evs with
              | VStop :: _ => mkx false false false true false true true false false false false
              | VBack :: _ => mkx false false false false true true true false false false false
              | _ => xans0
              end
  | X_regen0 => match evs with
                | VSwD :: VRegFail :: _ => mkx false false false false false false false false false false false
                | VSwD :: _ => mkx false false false false false false true false false false false
                | VRegFail :: _ => mkx false false false false false false false false false false false
                | _ => xans0
                end
  | X_starts => match (if xjr s then evs else match evs with VStarts :: r => r | _ => evs end) with
                | VCleanErr :: _ => mkx true false false false false true true false false false false
                | _ => xans0
                end
  | X_loop => match evs with
              | VIt _ :: VItFpe :: r => loop_guide true r
              | VIt _ :: r => loop_guide false r
              | _ => xans0
              end
  | X_improve _ => mkx false false false false false true true false false false (match evs with VImp _ :: _ => false | _ => true end)
  | _ => xans0
  end.

Definition xis_some {A} (o : option A) : bool := match o with Some _ => true | None => false end.

(* lp: the real s->lastphase of a solve that returned roots (NoPhase = not known / error: not compared) *)
Fixpoint accept_x (fuel : nat) (c : caps) (g : xcfg) (ferr : bool) (lp : phase) (s : xst) (evs : list xev) (n : nat) : bool * nat * nat :=
  match fuel with
  | 0 => (false, n, List.length evs)
  | S f =>
      if xterminal s then
        (match evs with
         | [] => Bool.eqb (xis_some (xerr s)) ferr && (phase_eqb lp NoPhase || phase_eqb lp (xlast s))
         | _ => false
         end, n, List.length evs)
      else
        let a := xguide c g s evs in
        match xstrip (xemit c g a s) evs with
        | None => (false, n, List.length evs)
        | Some evs' => accept_x f c g ferr lp (xstep c g a s) evs' (S n)
        end
  end.

Definition check_x (c : caps) (g : xcfg) (ferr : bool) (lp : phase) (evs : list xev) : bool * nat * nat :=
  accept_x (List.length evs + 12) c g ferr lp xinit evs 0.

Fixpoint xtrace (answers : list xans) (c : caps) (g : xcfg) (s : xst) : list xev * xst :=
  match answers with
  | [] => ([], s)
  | a :: r => let '(t, s') := xtrace r c g (xstep c g a s) in (xemit c g a s ++ t, s')
  end.
