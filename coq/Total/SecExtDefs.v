(* C03 - the secular driver mps_secular_ga_mpsolve (secsolve/secular-ga.c) in more detail than SkelDefs.sstep.
   Definitions only.  SkelDefs.v is left as it is (it is shared with the abort model of C18).

   What this skeleton adds to [sstep], branch by branch as in the C code:
     * the set-up before the do/while: secular-equation input versus polynomial input; mps_check_data only when no
       starting phase was requested, with its early exit when it raises an error; the preliminary Aberth packet in the
       float or DPE phase ("Unrecognized starting phase" for any other requested phase);
     * the floating point exception detection that SWITCHES PHASE INSTEAD OF FAILING:
         - after the preliminary float packet (mps_context_has_floating_point_exceptions): cluster reset, lastphase = dpe,
           goto preliminary_aberth_packet -- the DPE branch has no such test, so this happens at most once;
         - inside mps_secular_ga_fiterate (flag excep, a root with status NOT_FLOAT): lastphase = dpe_phase, the next
           iteration of the do/while runs mps_secular_ga_diterate; the Jacobi packets (-b) have no such test;
     * crude approximation mode (goto cleanup after the preliminary packet), the check_stop after the first cluster
       analysis, the step back from DPE to float when every approximation is representable as a double;
     * the initial regeneration with its fallback (float: switch to DPE, new starting points, regenerate again;
       DPE, or a second failure: error "Unable to perform initial regeneration" and return);
     * EXIT_ON_ERRORS after the starting point routines (goto cleanup, where the error flag makes the driver return);
     * the phase of every do/while iteration (float / DPE / MP), mps_secular_switch_phase (precision := 128) versus
       mps_secular_raise_precision (2 * mpwp);
     * cleanup: mps_validate_inclusions for an input precision > 0 (switches to the MP phase), mps_improve only for goal
       approximate and only when the polynomial type has a Newton correction (otherwise improve returns at once).
   The numerics are an arbitrary oracle [xans], one answer per step.  Not modelled: s->exit_required (abort: C18). *)
Require Import Arith Bool List Lia String.
Require Import MPSV.Total.SkelDefs.
Open Scope string_scope.
Open Scope nat_scope.

Inductive pkind := KMonomial | KOther | KSecular.      (* monomial polynomial / other polynomial type (Chebyshev, user) / secular equation *)

Record xcfg := { xgoal : goal;
                 xin_prec : nat;        (* p->prec, 0 = exact *)
                 xwp_min : nat;         (* min_i root[i]->wp when improve starts *)
                 xavoid_mp : bool;      (* -m *)
                 kind : pkind;
                 start_phase : phase;   (* input_config->starting_phase: NoPhase unless mps_context_set_starting_phase / -t *)
                 crude : bool;          (* -c *)
                 jacobi : bool;         (* -b *)
                 can_improve : bool }.  (* p->mnewton <> NULL || density == USER : else mps_improve returns at once *)

Record xans := { x_err : bool;        (* the routine called in this step raised mps_error (check_data, fstart/dstart, secular_*start) *)
                 x_whichd : bool;     (* check_data: which_case = 'd' *)
                 x_lc0 : bool;        (* the leading coefficient of the polynomial is (still) zero after check_data; see X_start *)
                 x_fpe : bool;        (* a floating point exception was detected (preliminary packet / fiterate's excep) *)
                 x_pre : bool;        (* check_stop after the preliminary packet *)
                 x_back : bool;       (* DPE start, all approximations representable as doubles: back to float_phase *)
                 x_regen1 : bool;     (* first regeneration of the step succeeded *)
                 x_regen : bool;      (* second regeneration of the step succeeded *)
                 x_stop : bool;       (* check_stop after the packet *)
                 x_best : bool;       (* s->best_approx after the packet *)
                 x_stop2 : bool;      (* check_stop in the while condition *)
                 x_allapprox : bool }.   (* improve: approximated_roots == n at the loop head *)

(* generic oracle machine (SkelDefs.run is fixed to SkelDefs.ans) *)
Section XMachine.
  Variables (A St : Type) (step : A -> St -> St) (terminal : St -> bool).
  Fixpoint xrun (k : nat) (orc : nat -> A) (t : nat) (s : St) : St :=
    match k with
    | 0 => s
    | S k' => if terminal s then s else xrun k' orc (S t) (step (orc t) s)
    end.
  Fixpoint xsteps (k : nat) (orc : nat -> A) (t : nat) (s : St) : nat :=
    match k with
    | 0 => 0
    | S k' => if terminal s then 0 else S (xsteps k' orc (S t) (step (orc t) s))
    end.
End XMachine.

Inductive xpc :=
| X_start                      (* deflation, allocation, secular-equation copy or check_data *)
| X_prelim (ph : sphase)       (* label preliminary_aberth_packet with lastphase = ph *)
| X_post                       (* after the preliminary packet: crude mode, cluster analysis, check_stop, DPE -> float *)
| X_regen0                     (* initial regeneration *)
| X_starts                     (* starting points of the secular equation, EXIT_ON_ERRORS *)
| X_loop                       (* one iteration of the do/while *)
| X_cleanup
| X_improve (cur : nat)
| X_return.

Record xst := { xpc_ : xpc; xlast : phase; xpacket : nat; xjr : bool; xmpwp : nat; xerr : option string; xroots : bool }.

Definition xset_pc (s : xst) (p : xpc) : xst :=
  {| xpc_ := p; xlast := xlast s; xpacket := xpacket s; xjr := xjr s; xmpwp := xmpwp s; xerr := xerr s; xroots := xroots s |}.
Definition xset_last (s : xst) (p : phase) : xst :=
  {| xpc_ := xpc_ s; xlast := p; xpacket := xpacket s; xjr := xjr s; xmpwp := xmpwp s; xerr := xerr s; xroots := xroots s |}.
Definition xset_packet (s : xst) (k : nat) : xst :=
  {| xpc_ := xpc_ s; xlast := xlast s; xpacket := k; xjr := xjr s; xmpwp := xmpwp s; xerr := xerr s; xroots := xroots s |}.
Definition xset_jr (s : xst) (b : bool) : xst :=
  {| xpc_ := xpc_ s; xlast := xlast s; xpacket := xpacket s; xjr := b; xmpwp := xmpwp s; xerr := xerr s; xroots := xroots s |}.
Definition xset_roots (s : xst) : xst :=
  {| xpc_ := xpc_ s; xlast := xlast s; xpacket := xpacket s; xjr := xjr s; xmpwp := xmpwp s; xerr := xerr s; xroots := true |}.
(* mps_error + return (directly, or through `goto cleanup` where the error flag makes the driver return) *)
Definition xfail (s : xst) (m : string) : xst :=
  {| xpc_ := X_return; xlast := xlast s; xpacket := xpacket s; xjr := xjr s; xmpwp := xmpwp s; xerr := Some m; xroots := xroots s |}.

Definition mp_start : nat := 128.      (* MPS_SECULAR_STARTING_MP_PRECISION *)

Definition is_mp (p : phase) : bool := match p with MpP => true | _ => false end.
Definition is_float (p : phase) : bool := match p with FloatP => true | _ => false end.
Definition phase_of (ph : sphase) : phase := match ph with SF => FloatP | SD => DpeP | SM => MpP end.

(* mps_secular_switch_phase (s, mp_phase) when not in the MP phase yet, mps_secular_raise_precision (s, 2 * mpwp) otherwise;
   both call sites then set packet = 0 *)
Definition xraise (s : xst) : xst :=
  {| xpc_ := xpc_ s; xlast := MpP; xpacket := 0; xjr := xjr s;
     xmpwp := if is_mp (xlast s) then 2 * xmpwp s else mp_start; xerr := xerr s; xroots := xroots s |}.

Definition xinit : xst :=
  {| xpc_ := X_start; xlast := NoPhase; xpacket := 0; xjr := false; xmpwp := 64; xerr := None; xroots := false |}.

Definition msg_check_data := "check_data: unsupported option for this input".
Definition msg_lc0 := "The leading coefficient of the polynomial is zero".
Definition msg_start := "error raised while computing the starting points".
Definition msg_phase := "Unrecognized starting phase".
Definition msg_regen0 := "Unable to perform initial regeneration of the secular equation.".
Definition msg_maxit := "Maximum number of iteration passed. Aborting.".

(* the packet of a do/while iteration: fiterate's exception flag moves the driver to the DPE phase (Gauss-Seidel iterations
   only: the Jacobi packets have no such test), then packet++ *)
Definition xafter_packet (g : xcfg) (a : xans) (s : xst) : xst :=
  let s0 := if is_float (xlast s) && negb (jacobi g) && x_fpe a then xset_last s DpeP else s in
  xset_packet s0 (S (xpacket s0)).

(* the rest of the iteration, from `if (packet > s->max_pack)` to the while condition *)
Definition xloop_rest (c : caps) (g : xcfg) (a : xans) (s1 : xst) : xst :=
  if max_pack c <? xpacket s1 then xfail s1 msg_maxit
  else if negb (xjr s1) && x_stop a then xset_pc s1 X_cleanup
  else if x_best a && xavoid_mp g then xset_pc s1 X_cleanup
  else
    let s2 := if x_best a then (let r := xraise s1 in if x_regen1 a then xset_jr r true else r) else s1 in
    let s3 := if x_regen a then xset_jr s2 true else xraise s2 in
    if x_stop2 a then xset_pc s3 X_cleanup else xset_pc s3 X_loop.

Definition xstep (c : caps) (g : xcfg) (a : xans) (s : xst) : xst :=
  match xpc_ s with
  | X_start =>
      match kind g with
      | KSecular => xset_pc (xset_last s FloatP) X_starts
      | _ =>
          (* after check_data (if it is called at all): fixes/C03_secular_zero_leading_coefficient.patch reports a leading
             coefficient that is still zero instead of dividing by it in the regeneration (at HEAD that division kills the
             process or the solve runs away: known findings, no run to model) *)
          match start_phase g with
          | NoPhase => if x_err a then xfail s msg_check_data
                       else if x_lc0 a then xfail s msg_lc0
                       else if x_whichd a then xset_pc (xset_last s DpeP) (X_prelim SD)
                       else xset_pc (xset_last s FloatP) (X_prelim SF)
          | FloatP => if x_lc0 a then xfail s msg_lc0 else xset_pc (xset_last s FloatP) (X_prelim SF)
          | DpeP => if x_lc0 a then xfail s msg_lc0 else xset_pc (xset_last s DpeP) (X_prelim SD)
          | MpP => if x_lc0 a then xfail s msg_lc0 else xset_pc (xset_last s MpP) (X_prelim SM)
          end
      end
  | X_prelim SF =>
      if x_err a then xfail s msg_start
      else if x_fpe a then xset_pc (xset_last (xset_roots s) DpeP) (X_prelim SD)     (* restart in DPE, no error *)
      else xset_pc (xset_roots s) X_post
  | X_prelim SD =>
      if x_err a then xfail s msg_start else xset_pc (xset_roots s) X_post
  | X_prelim SM => xfail s msg_phase
  | X_post =>
      if crude g then xset_pc s X_cleanup
      else if x_pre a then xset_pc s X_cleanup
      else if negb (is_float (xlast s)) && x_back a then xset_pc (xset_last s FloatP) X_regen0
      else xset_pc s X_regen0
  | X_regen0 =>
      if x_regen1 a then xset_pc s X_starts
      else if is_float (xlast s) then
             (if x_regen a then xset_pc (xset_jr (xset_last s DpeP) true) X_starts else xfail (xset_last s DpeP) msg_regen0)
           else xfail s msg_regen0
  | X_starts =>
      if x_err a then xfail s msg_start else xset_pc (xset_roots s) X_loop
  | X_loop => xloop_rest c g a (xafter_packet g a s)
  | X_cleanup =>
      (* no error flag here.  p->prec > 0: mps_validate_inclusions, which switches to the MP phase first.  It needs the Newton
         correction of the polynomial type: without it (Chebyshev) the code at HEAD calls a NULL method (known finding, no run
         to model); with fixes/C03_validate_inclusions_needs_newton.patch it warns and returns before the switch, which is what
         is modelled here *)
      let s1 := if negb (xin_prec g =? 0) && negb (is_mp (xlast s)) && can_improve g then xraise s else s in
      if is_approx (xgoal g) && can_improve g then xset_pc (xset_last s1 MpP) (X_improve (xwp_min g)) else xset_pc s1 X_return
  | X_improve cur =>
      if x_allapprox a then xset_pc s X_return
      else let c2 := 2 * cur in
           if (xin_prec g <? c2) && negb (xin_prec g =? 0) then xset_pc s X_return
           else xset_pc s (X_improve c2)
  | X_return => s
  end.

Definition xterminal (s : xst) : bool := match xpc_ s with X_return => true | _ => false end.

(* doublings of the working precision still possible below a cap W (the code has no such cap: W is a hypothesis of the
   theorem, see SecExtProofs.v) *)
Definition prank (s : xst) : nat := if is_mp (xlast s) then Nat.log2 (xmpwp s) else Nat.log2 mp_start - 1.
Definition xileft (g : xcfg) (cur : nat) : nat := S (Nat.log2 (xin_prec g) - Nat.log2 cur).
Definition XBound (c : caps) (g : xcfg) (W : nat) : nat :=
  (Nat.log2 W - (Nat.log2 mp_start - 1)) * (max_pack c + 2) + max_pack c + xileft g (xwp_min g) + 9.

(* the oracle that never lets the loop stop: every packet ends with best_approx *)
Definition xans_adv : xans :=
  {| x_err := false; x_whichd := false; x_lc0 := false; x_fpe := false; x_pre := false; x_back := false; x_regen1 := true; x_regen := true;
     x_stop := false; x_best := true; x_stop2 := false; x_allapprox := false |}.
