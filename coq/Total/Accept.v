(* C03 - tie of the control skeletons to the real solver: an acceptor for the event traces (`vf_solve -T`).

   The skeleton steps are given their observable events ([uemit], [semit]: phase changes, precision changes,
   packets, improve iterations, the "not computed" exit of the mp loop; iterations and precision raises of the
   secular loop).  [accept_u] / [accept_s] run the SAME step functions [ustep] / [sstep] that the theorems are about,
   with oracle answers chosen by a guide that looks at the upcoming events, and accept iff the skeleton run emits
   exactly the given trace, ends in a terminal state with the same error flag as the real solve, and (classic driver)
   uses no more steps than the proved bound.  Soundness (an accepted trace IS the trace of a skeleton run for some
   oracle) is [accept_u_sound] / [accept_s_sound]; the guide is only a search heuristic. *)
Require Import Arith Bool List Lia String.
Require Import MPSV.Total.SkelDefs.
Import ListNotations.
Open Scope list_scope.

Inductive ev :=
| EPh (ph : sphase)      (* "Float phase ..." / "DPE phase ..." / "Starting MP phase" *)
| EW (m : nat)           (* "MAIN: mp_loop: mpwp=m" *)
| EK                     (* "Packet k iterations= .." printed after a packet of f/d/msolve *)
| EI (cur : nat)         (* "Step of improvement, precision = cur bits" *)
| ENC                    (* "Reached the maximum working precision" / "Reached the input precision" *)
| EIter                  (* secular-ga: "Starting ... iterations" (one do/while iteration) *)
| ERaise.                (* secular-ga: switch to mp / raise of the precision *)

Definition sphase_eqb (a b : sphase) : bool :=
  match a, b with SF, SF | SD, SD | SM, SM => true | _, _ => false end.

Definition ev_eqb (a b : ev) : bool :=
  match a, b with
  | EPh p, EPh q => sphase_eqb p q
  | EW m, EW n => m =? n
  | EK, EK | ENC, ENC | EIter, EIter | ERaise, ERaise => true
  | EI m, EI n => m =? n
  | _, _ => false
  end.

Fixpoint strip (out evs : list ev) : option (list ev) :=
  match out with
  | [] => Some evs
  | o :: out' => match evs with
                 | e :: evs' => if ev_eqb o e then strip out' evs' else None
                 | [] => None
                 end
  end.

(* ------------------------------------------------------------------ classic driver: events of a step *)
Definition uemit (c : caps) (g : cfg) (a : ans) (s : ust) : list ev :=
  match pc s with
  | U_start => if resume g then [] else if o_err a then [] else if o_whichd a then [] else [EPh SF]
  | U_dpe_gate => if whichd s || d_after_f s then [EPh SD] else []
  | U_mp_init => [EPh SM]
  | U_mp_head =>
      if negb (computed s) && (mpwp s <? mpwp_max c)
      then [EW (if mpwp_max c <? 2 * mpwp s then mpwp_max c else 2 * mpwp s)]
      else if computed s then [] else [ENC]
  | U_polzer ph pl sl =>
      let fin := match o_pk a, ph with PkFpe, SF => [] | _, _ => [EK] end in
      match sl with S _ => if o_more a then [] else fin | 0 => fin end
  | U_improve cur => if o_allapprox a then [] else [EI cur]
  | _ => []
  end.

Definition ans_default : ans :=
  {| o_err := false; o_whichd := false; o_more := false; o_pk := PkNoExcep; o_dafter := false; o_stop := false; o_pre := false;
     o_incl := false; o_allapprox := false; o_best := false; o_regen1 := true; o_regen := true; o_stop2 := false; o_round := 0 |}.

Definition with_pk (p : pkres) : ans :=
  {| o_err := false; o_whichd := false; o_more := false; o_pk := p; o_dafter := false; o_stop := false; o_pre := false;
     o_incl := false; o_allapprox := false; o_best := false; o_regen1 := true; o_regen := true; o_stop2 := false; o_round := 0 |}.

Definition mk_round (pre : bool) (r : nat) : ans :=
  {| o_err := false; o_whichd := false; o_more := false; o_pk := PkNoExcep; o_dafter := false; o_stop := false; o_pre := pre;
     o_incl := false; o_allapprox := false; o_best := false; o_regen1 := true; o_regen := true; o_stop2 := false; o_round := r |}.

(* the next precision announced after the current one *)
Fixpoint next_W (evs : list ev) : option nat :=
  match evs with [] => None | EW w :: _ => Some w | _ :: r => next_W r end.

Definition mk_ans (e wd daf stop pre incl allap : bool) : ans :=
  {| o_err := e; o_whichd := wd; o_more := false; o_pk := PkNoExcep; o_dafter := daf; o_stop := stop; o_pre := pre;
     o_incl := incl; o_allapprox := allap; o_best := false; o_regen1 := true; o_regen := true; o_stop2 := false; o_round := 0 |}.

(* after a float / dpe phase: does the trace go on with an mp loop that still has work to do? *)
Definition stop_after (evs : list ev) : bool :=
  match evs with
  | EPh SD :: _ => false
  | EPh SM :: EW _ :: _ => false
  | EPh SM :: ENC :: _ => false
  | _ => true
  end.

(* ferr: the real solve ended with the error flag; finc: its message is the inclusion-disc failure *)
Definition uguide (c : caps) (g : cfg) (ferr finc : bool) (s : ust) (evs : list ev) : ans :=
  match pc s with
  | U_start =>
      mk_ans (match evs with [] => ferr | _ => false end) (match evs with EPh SF :: _ => false | _ => true end) false false false false false
  | U_polzer ph pl sl =>
      match evs with
      | EK :: EK :: _ => with_pk PkCycle
      | EK :: _ => if (pl =? 0) && ferr then with_pk PkCycle else with_pk PkNoExcep
      | _ => with_pk PkFpe
      end
  | U_phase_end SF =>
      mk_ans false false (match evs with EPh SD :: _ => true | _ => false end) (stop_after evs) false false false
  | U_phase_end SD => mk_ans false false false (stop_after evs) false false false
  | U_phase_end SM =>
      mk_ans false false false (match evs with EW _ :: _ => false | ENC :: _ => false | _ => true end) false false false
  | U_mp_head =>
      match evs with
      | EW w :: r =>
          mk_round (match r with EK :: _ => false | _ => true end)
                   (match next_W r with Some w2 => Nat.div2 (S w2) - w | None => 0 end)
      | _ => mk_round true 0
      end
  | U_exit_sub => mk_ans finc false false false false finc false
  | U_improve _ => mk_ans false false false false false false (match evs with EI _ :: _ => false | _ => true end)
  | _ => ans_default
  end.

Definition is_some {A} (o : option A) : bool := match o with Some _ => true | None => false end.

(* result: (accepted, steps taken, events left over) *)
Fixpoint accept_u (fuel : nat) (c : caps) (g : cfg) (ferr finc : bool) (s : ust) (evs : list ev) (n : nat) : bool * nat * nat :=
  match fuel with
  | 0 => (false, n, List.length evs)
  | S f =>
      if uterminal s then
        (match evs with [] => Bool.eqb (is_some (err s)) ferr | _ => false end, n, List.length evs)
      else
        let a := uguide c g ferr finc s evs in
        match strip (uemit c g a s) evs with
        | None => (false, n, List.length evs)
        | Some evs' => accept_u f c g ferr finc (ustep c g a s) evs' (S n)
        end
  end.

Fixpoint count_EI (evs : list ev) : nat :=
  match evs with [] => 0 | EI _ :: r => S (count_EI r) | _ :: r => count_EI r end.

(* the bound that applies to a trace: [Bound] when improve has a cap (theorem C03_unisolve_bounded); for exact input
   with goal approximate improve has none (C03_unisolve_exact_approximate_unbounded_refuted), its iterations are
   then allowed on top *)
Definition trace_bound (c : caps) (g : cfg) (evs : list ev) : nat :=
  Bound c g + (if (in_prec g =? 0) && is_approx (cgoal g) then count_EI evs else 0).

Definition check_u (c : caps) (g : cfg) (ferr finc : bool) (evs : list ev) : bool * nat * nat * nat :=
  let b := trace_bound c g evs in
  let '(ok, n, lft) := accept_u (S b) c g ferr finc uinit evs 0 in
  (ok && (n <=? b), n, lft, b).

(* ------------------------------------------------------------------ secular driver *)
Definition semit (c : caps) (g : cfg) (a : ans) (s : sst) : list ev :=
  match spc_ s with
  | S_loop =>
      if max_pack c <? S (packet s) then [EIter]
      else if negb (just_regen s) && o_stop a then [EIter]
      else if o_best a && avoid_mp g then [EIter]
      else EIter :: (if o_best a then [ERaise] else []) ++ (if o_regen a then [] else [ERaise])
  | S_cleanup => if negb (in_prec g =? 0) && negb (sphase_mp s) then [ERaise] else []
  | S_improve cur => if o_allapprox a then [] else [EI cur]
  | _ => []
  end.

Fixpoint raises (evs : list ev) : nat * list ev :=
  match evs with
  | ERaise :: r => let '(k, rest) := raises r in (S k, rest)
  | _ => (0, evs)
  end.

Definition more_iters (evs : list ev) : bool := match evs with EIter :: _ => true | _ => false end.

Definition mk_sans (e pre stop best regen stop2 allap : bool) : ans :=
  {| o_err := e; o_whichd := false; o_more := false; o_pk := PkNoExcep; o_dafter := false; o_stop := stop; o_pre := pre;
     o_incl := false; o_allapprox := allap; o_best := best; o_regen1 := true; o_regen := regen; o_stop2 := stop2; o_round := 0 |}.

Definition sguide (c : caps) (g : cfg) (ferr : bool) (s : sst) (evs : list ev) : ans :=
  match spc_ s with
  | S_start => mk_sans (match evs with [] => ferr | _ => false end) (negb (more_iters evs)) false false true false false
  | S_loop =>
      match evs with
      | EIter :: r =>
          let '(k, rest) := raises r in
          let last := negb (more_iters rest) in
          let best := match k with 0 => false | 1 => negb (avoid_mp g) | _ => true end in
          let regen := match k with 0 => true | 1 => best | _ => false end in
          mk_sans false false (last && (k =? 0)) best regen last false
      | _ => mk_sans false false true false true true false
      end
  | S_improve _ => mk_sans false false false false true false (match evs with EI _ :: _ => false | _ => true end)
  | _ => ans_default
  end.

Fixpoint accept_s (fuel : nat) (c : caps) (g : cfg) (ferr : bool) (s : sst) (evs : list ev) (n : nat) : bool * nat * nat :=
  match fuel with
  | 0 => (false, n, List.length evs)
  | S f =>
      if sterminal s then
        (match evs with [] => Bool.eqb (is_some (serr s)) ferr | _ => false end, n, List.length evs)
      else
        let a := sguide c g ferr s evs in
        match strip (semit c g a s) evs with
        | None => (false, n, List.length evs)
        | Some evs' => accept_s f c g ferr (sstep c g a s) evs' (S n)
        end
  end.

Definition check_s (c : caps) (g : cfg) (ferr : bool) (evs : list ev) : bool * nat * nat :=
  accept_s (List.length evs + 8) c g ferr sinit evs 0.

(* ------------------------------------------------------------------ traces of skeleton runs, for the soundness statements *)
Fixpoint utrace (answers : list ans) (c : caps) (g : cfg) (s : ust) : list ev * ust :=
  match answers with
  | [] => ([], s)
  | a :: r => let '(t, s') := utrace r c g (ustep c g a s) in (uemit c g a s ++ t, s')
  end.

Fixpoint strace (answers : list ans) (c : caps) (g : cfg) (s : sst) : list ev * sst :=
  match answers with
  | [] => ([], s)
  | a :: r => let '(t, s') := strace r c g (sstep c g a s) in (semit c g a s ++ t, s')
  end.
