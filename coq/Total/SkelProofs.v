(* C03 - bounds for the control skeletons (proofs). *)
Require Import Arith Bool List Lia String ZifyBool.
Require Import MPSV.Total.SkelDefs.

(* ------------------------------------------------------------------ generic: a decreasing measure bounds every run *)
Section Gen.
  Variables (St : Type) (step : ans -> St -> St) (terminal : St -> bool) (good : St -> Prop) (mu : St -> nat).
  Hypothesis Hdec : forall a s, good s -> terminal s = false -> good (step a s) /\ mu (step a s) < mu s.

  Lemma run_terminates : forall k orc t s, good s -> mu s <= k ->
    terminal (run St step terminal k orc t s) = true /\ steps St step terminal k orc t s <= mu s.
  Proof.
    induction k as [|k IH]; intros orc t s Hg Hk; simpl.
    - destruct (terminal s) eqn:Ht; [split; [reflexivity|lia]|].
      destruct (Hdec (orc t) s Hg Ht) as [_ Hlt]. lia.
    - destruct (terminal s) eqn:Ht; [split; [exact Ht|lia]|].
      destruct (Hdec (orc t) s Hg Ht) as [Hg' Hlt].
      destruct (IH orc (S t) (step (orc t) s) Hg') as [H1 H2]; [lia|].
      split; [exact H1|lia].
  Qed.

  Lemma run_good : forall k orc t s, good s -> good (run St step terminal k orc t s).
  Proof.
    induction k as [|k IH]; intros orc t s Hg; simpl; [exact Hg|].
    destruct (terminal s) eqn:Ht; [exact Hg|].
    apply IH. exact (proj1 (Hdec (orc t) s Hg Ht)).
  Qed.
End Gen.

(* invariants without a measure *)
Section Inv.
  Variables (St : Type) (step : ans -> St -> St) (terminal : St -> bool) (inv : St -> Prop).
  Hypothesis Hinv : forall a s, inv s -> terminal s = false -> inv (step a s).
  Lemma run_inv : forall k orc t s, inv s -> inv (run St step terminal k orc t s).
  Proof.
    induction k as [|k IH]; intros orc t s Hi; simpl; [exact Hi|].
    destruct (terminal s) eqn:Ht; [exact Hi|]. apply IH. apply Hinv; assumption.
  Qed.
End Inv.

(* ------------------------------------------------------------------ arithmetic of the doublings *)
Lemma dleft_step : forall c m, 1 <= m -> m < mpwp_max c ->
  S (dleft c (if mpwp_max c <? 2 * m then mpwp_max c else 2 * m)) <= dleft c m.
Proof.
  intros c m Hm Hlt. unfold dleft.
  destruct (mpwp_max c <=? m) eqn:E1; [apply Nat.leb_le in E1; lia|].
  destruct (mpwp_max c <? 2 * m) eqn:E2.
  - rewrite Nat.leb_refl. lia.
  - apply Nat.ltb_ge in E2.
    destruct (mpwp_max c <=? 2 * m) eqn:E3; [lia|].
    assert (H1 : Nat.log2 (2 * m) = S (Nat.log2 m)) by (apply Nat.log2_double; lia).
    assert (H2 : Nat.log2 (2 * m) <= Nat.log2 (mpwp_max c)) by (apply Nat.log2_le_mono; exact E2).
    lia.
Qed.

Lemma dleft_antitone : forall c m m', m <= m' -> dleft c m' <= dleft c m.
Proof.
  intros c m m' H. unfold dleft.
  destruct (mpwp_max c <=? m') eqn:E1; [lia|].
  destruct (mpwp_max c <=? m) eqn:E2; [apply Nat.leb_le in E2; apply Nat.leb_gt in E1; lia|].
  assert (Nat.log2 m <= Nat.log2 m') by (apply Nat.log2_le_mono; exact H). lia.
Qed.

Lemma dleft_step_round : forall c m r, 1 <= m -> m < mpwp_max c ->
  S (dleft c ((if mpwp_max c <? 2 * m then mpwp_max c else 2 * m) + r)) <= dleft c m.
Proof.
  intros c m r Hm Hlt. pose proof (dleft_step c m Hm Hlt) as H.
  pose proof (dleft_antitone c (if mpwp_max c <? 2 * m then mpwp_max c else 2 * m)
                ((if mpwp_max c <? 2 * m then mpwp_max c else 2 * m) + r)) as H2.
  assert (H3 : (if mpwp_max c <? 2 * m then mpwp_max c else 2 * m) <= (if mpwp_max c <? 2 * m then mpwp_max c else 2 * m) + r) by lia.
  specialize (H2 H3). lia.
Qed.

Lemma ileft_step : forall g cur, 1 <= cur -> 2 * cur <= in_prec g -> S (ileft g (2 * cur)) <= ileft g cur.
Proof.
  intros g cur Hc Hle. unfold ileft.
  assert (H1 : Nat.log2 (2 * cur) = S (Nat.log2 cur)) by (apply Nat.log2_double; lia).
  assert (H2 : Nat.log2 (2 * cur) <= Nat.log2 (in_prec g)) by (apply Nat.log2_le_mono; exact Hle).
  lia.
Qed.

Lemma mul_step : forall d' d C, S d' <= d -> d' * C + C <= d * C.
Proof. intros. nia. Qed.

(* ------------------------------------------------------------------ the measure of the classic driver *)
Definition Cc (c : caps) : nat := Wpk c + 3.
Definition Tl (g : cfg) : nat := ileft g (wp_min g) + 4.
Definition mu_mp_init (c : caps) (g : cfg) : nat := Tl g + 2 + dleft c (mpwp0 g) * Cc c.
Definition mu_dpe_gate (c : caps) (g : cfg) : nat := mu_mp_init c g + 3 + Wpk c.
Definition ubase (c : caps) (g : cfg) (ph : sphase) (m : nat) : nat :=
  match ph with SF => mu_dpe_gate c g | SD => mu_mp_init c g | SM => Tl g + 1 + dleft c m * Cc c end.

Definition umu (c : caps) (g : cfg) (s : ust) : nat :=
  match pc s with
  | U_return => 0
  | U_finish => 1
  | U_improve cur => ileft g cur + 1
  | U_improve_gate => ileft g (wp_min g) + 3
  | U_exit_sub => Tl g
  | U_mp_head => Tl g + 1 + dleft c (mpwp s) * Cc c
  | U_mp_init => mu_mp_init c g
  | U_dpe_gate => mu_dpe_gate c g
  | U_phase_end ph => ubase c g ph (mpwp s) + 1
  | U_head ph pl => ubase c g ph (mpwp s) + 2 + (pl * (max_it c + 2) + 1)
  | U_polzer ph pl sl => ubase c g ph (mpwp s) + 2 + (pl * (max_it c + 2) + sl + 2)
  | U_start => mu_dpe_gate c g + 3 + Wpk c
  end.

Definition ugood (g : cfg) (s : ust) : Prop :=
  1 <= mpwp s /\ match pc s with U_improve cur => in_prec g <> 0 /\ 1 <= cur | _ => True end.

Definition cfg_ok (g : cfg) : Prop := 1 <= mpwp0 g /\ 1 <= wp_min g.
Definition improve_capped (g : cfg) : Prop := in_prec g <> 0 \/ cgoal g <> Approximate.

Lemma umu_init : forall c g, umu c g uinit = Bound c g.
Proof.
  intros. unfold umu, uinit, Bound, mu_dpe_gate, mu_mp_init, Tl, Cc. cbn [pc].
  generalize (dleft c (mpwp0 g)) (Wpk c) (ileft g (wp_min g)). intros d W i. ring.
Qed.

Arguments Cc : simpl never.
Arguments Wpk : simpl never.
Arguments ileft : simpl never.
Arguments dleft : simpl never.

Ltac brk :=
  repeat match goal with
         | |- context [if ?b then _ else _] => destruct b eqn:?
         | |- context [match ?x with _ => _ end] => is_var x; destruct x
         end.

Ltac ul := unfold ileft in *; lia.

Lemma ustep_decreases : forall c g, cfg_ok g -> improve_capped g ->
  forall a s, ugood g s -> uterminal s = false -> ugood g (ustep c g a s) /\ umu c g (ustep c g a s) < umu c g s.
Proof.
  intros c g [Hm0 Hw0] Hcap a s [Hmp Himp] Hterm.
  destruct s as [p cmp om daf wd m lp er rs cp]; unfold uterminal, ugood, umu in *; simpl in *.
  assert (HI : 1 <= ileft g (wp_min g)) by (unfold ileft; lia).
  assert (HW : Wpk c = max_pack c * (max_it c + 2) + 1) by reflexivity.
  assert (HC : Cc c = Wpk c + 3) by reflexivity.
  destruct p; simpl in *; try discriminate.
  - (* U_start *)
    unfold ustep; simpl. brk; simpl; unfold mu_dpe_gate, mu_mp_init, Tl, ubase; split; try (split; trivial; ul); ul.
  - (* U_head *)
    unfold ustep; simpl. destruct pl; simpl; split; try (split; trivial; ul); ul.
  - (* U_polzer *)
    unfold ustep, after_packet; simpl.
    destruct sl; simpl; [|destruct (o_more a); simpl]; destruct (o_pk a); destruct ph; simpl;
      split; try (split; trivial; ul); ul.
  - (* U_phase_end *)
    unfold ustep; simpl. destruct ph; simpl; brk; simpl; unfold mu_dpe_gate, mu_mp_init, Tl, ubase; split; try (split; trivial; ul); ul.
  - (* U_dpe_gate *)
    unfold ustep; simpl. brk; simpl; unfold mu_dpe_gate, mu_mp_init, Tl, ubase; split; try (split; trivial; ul); ul.
  - (* U_mp_init *)
    unfold ustep; simpl. brk; simpl; unfold mu_mp_init, Tl; split; try (split; trivial; ul); ul.
  - (* U_mp_head *)
    unfold ustep; simpl.
    destruct (negb cmp && (m <? mpwp_max c)) eqn:Hgo; simpl.
    + assert (Hlt : m < mpwp_max c) by ul.
      pose proof (dleft_step_round c m (o_round a) Hmp Hlt) as Hd.
      destruct (mpwp_max c <? m + (m + 0)) eqn:E2; simpl in *.
      * rewrite E2 in Hd.
        pose proof (mul_step _ _ (Cc c) Hd) as Hmul.
        destruct (o_pre a); simpl; unfold ubase in *; split; try (split; trivial; ul); ul.
      * rewrite E2 in Hd.
        pose proof (mul_step _ _ (Cc c) Hd) as Hmul.
        destruct (o_pre a); simpl; unfold ubase in *; split; try (split; trivial; ul); ul.
    + unfold Tl. split; [split; trivial; ul|ul].
  - (* U_exit_sub *)
    unfold ustep; simpl. brk; simpl; unfold Tl; split; try (split; trivial; ul); ul.
  - (* U_improve_gate *)
    unfold ustep; simpl.
    destruct (cmp && negb om && is_approx (cgoal g)) eqn:E; simpl.
    + split; [|ul]. split; [ul|]. split; [|ul].
      destruct Hcap as [H|H]; [exact H|]. destruct (cgoal g); simpl in E; try ul. congruence.
    + split; [split; trivial; ul|ul].
  - (* U_improve *)
    destruct Himp as [Hp Hc].
    unfold ustep; simpl.
    destruct (o_allapprox a); simpl; [split; [split; trivial; ul|ul]|].
    destruct ((in_prec g <? cur + (cur + 0)) && negb (in_prec g =? 0)) eqn:E; simpl.
    + split; [split; trivial; ul|ul].
    + assert (Hle : 2 * cur <= in_prec g) by ul.
      pose proof (ileft_step g cur Hc Hle) as Hi.
      replace (2 * cur) with (cur + (cur + 0)) in Hi by ul.
      split; [split; [ul|split; [exact Hp|ul]]|ul].
  - (* U_finish *)
    unfold ustep; simpl. split; [split; trivial; ul|ul].
Qed.

Lemma ugood_init : forall g, ugood g uinit.
Proof. intros. unfold ugood, uinit; simpl. split; [lia|trivial]. Qed.

Theorem unisolve_bounded : forall c g, cfg_ok g -> improve_capped g -> forall orc,
  uterminal (run ust (ustep c g) uterminal (Bound c g) orc 0 uinit) = true /\
  steps ust (ustep c g) uterminal (Bound c g) orc 0 uinit <= Bound c g.
Proof.
  intros c g Hok Hcap orc.
  pose proof (run_terminates ust (ustep c g) uterminal (ugood g) (umu c g)
                (fun a s => ustep_decreases c g Hok Hcap a s) (Bound c g) orc 0 uinit (ugood_init g)) as H.
  rewrite umu_init in H. apply H. lia.
Qed.

(* ------------------------------------------------------------------ oracles restricted by a predicate *)
Section GenP.
  Variables (St : Type) (step : ans -> St -> St) (terminal : St -> bool) (okans : ans -> Prop) (good : St -> Prop) (mu : St -> nat).
  Hypothesis Hdec : forall a s, okans a -> good s -> terminal s = false -> good (step a s) /\ mu (step a s) < mu s.
  Lemma run_terminates_P : forall k orc t s, (forall u, okans (orc u)) -> good s -> mu s <= k ->
    terminal (run St step terminal k orc t s) = true /\ steps St step terminal k orc t s <= mu s.
  Proof.
    induction k as [|k IH]; intros orc t s Ho Hg Hk; simpl.
    - destruct (terminal s) eqn:Ht; [split; [reflexivity|lia]|].
      destruct (Hdec (orc t) s (Ho t) Hg Ht) as [_ Hlt]. lia.
    - destruct (terminal s) eqn:Ht; [split; [exact Ht|lia]|].
      destruct (Hdec (orc t) s (Ho t) Hg Ht) as [Hg' Hlt].
      destruct (IH orc (S t) (step (orc t) s) Ho Hg') as [H1 H2]; [lia|].
      split; [exact H1|lia].
  Qed.
End GenP.

(* ------------------------------------------------------------------ improve alone *)
Definition igood (g : cfg) (s : ust) : Prop :=
  match pc s with U_improve cur => in_prec g <> 0 /\ 1 <= cur | U_finish | U_return => True | _ => False end.
Definition imu (g : cfg) (s : ust) : nat := match pc s with U_improve cur => ileft g cur | _ => 0 end.

Lemma improve_decreases : forall c g a s, igood g s -> improve_done s = false ->
  igood g (ustep c g a s) /\ imu g (ustep c g a s) < imu g s.
Proof.
  intros c g a s Hg Hd.
  destruct s as [p cmp om daf wd m lp er rs cp]; unfold improve_done, igood, imu in *; simpl in *.
  destruct p; simpl in *; try discriminate; try contradiction.
  destruct Hg as [Hp Hc]. unfold ustep; simpl.
  destruct (o_allapprox a); simpl; [split; [trivial|unfold ileft; lia]|].
  destruct ((in_prec g <? cur + (cur + 0)) && negb (in_prec g =? 0)) eqn:E; simpl.
  - split; [trivial|unfold ileft; lia].
  - assert (Hle : 2 * cur <= in_prec g) by lia.
    pose proof (ileft_step g cur Hc Hle) as Hi.
    replace (2 * cur) with (cur + (cur + 0)) in Hi by lia.
    split; [split; [exact Hp|lia]|lia].
Qed.

Theorem improve_bounded : forall c g cur0 orc, in_prec g <> 0 -> 1 <= cur0 ->
  improve_done (run ust (ustep c g) improve_done (ileft g cur0) orc 0 (improve_state cur0)) = true /\
  steps ust (ustep c g) improve_done (ileft g cur0) orc 0 (improve_state cur0) <= S (Nat.log2 (in_prec g) - Nat.log2 cur0).
Proof.
  intros c g cur0 orc Hp Hc.
  pose proof (run_terminates ust (ustep c g) improve_done (igood g) (imu g)
                (fun a s => improve_decreases c g a s) (ileft g cur0) orc 0 (improve_state cur0)) as H.
  unfold improve_state, imu, igood in H; simpl in H. apply H; [split; assumption|lia].
Qed.

(* exact input (p->prec = 0): the loop has no cap; the oracle that never reports a root as approximated keeps it running *)
Definition improving (s : ust) : Prop := match pc s with U_improve _ => True | _ => False end.

Lemma improve_exact_stays : forall c g, in_prec g = 0 -> forall s, improving s -> improving (ustep c g ans0 s).
Proof.
  intros c g Hp s Hs. destruct s as [p cmp om daf wd m lp er rs cp]; unfold improving in *; simpl in *.
  destruct p; try contradiction. unfold ustep; simpl. rewrite Hp. simpl.
  rewrite andb_false_r. simpl. trivial.
Qed.

Definition adv_inv (s : ust) : Prop :=
  match pc s with
  | U_start => d_after_f s = false /\ over_max s = false
  | U_head SF _ | U_polzer SF _ _ | U_phase_end SF => d_after_f s = false /\ whichd s = false /\ over_max s = false
  | U_dpe_gate => d_after_f s = false /\ whichd s = false /\ over_max s = false /\ computed s = true
  | U_mp_init | U_exit_sub | U_improve_gate => over_max s = false /\ computed s = true
  | U_improve _ => True
  | _ => False
  end.

Lemma adv_inv_step : forall c g, in_prec g = 0 -> cgoal g = Approximate -> resume g = false ->
  forall s, adv_inv s -> adv_inv (ustep c g ans0 s) /\ uterminal s = false.
Proof.
  intros c g Hp Hgoal Hres s Hs.
  destruct s as [p cmp om daf wd m lp er rs cp]; unfold adv_inv, uterminal in *; simpl in *.
  destruct p; simpl in *; try contradiction; (split; [|reflexivity]); unfold ustep, after_packet; simpl;
    rewrite ?Hres, ?Hgoal, ?Hp; simpl.
  - tauto.
  - destruct ph; try contradiction. destruct pl; simpl; tauto.
  - destruct ph; try contradiction. destruct sl; simpl; tauto.
  - destruct ph; try contradiction. simpl. destruct Hs as [H1 [H2 H3]]. subst. simpl. tauto.
  - destruct Hs as [H1 [H2 [H3 H4]]]. subst. simpl. tauto.
  - destruct Hs as [H1 H2]. subst. simpl. tauto.
  - destruct Hs as [H1 H2]. subst. simpl. tauto.
  - destruct Hs as [H1 H2]. subst. simpl. trivial.
  - rewrite andb_false_r. simpl. trivial.
Qed.

Theorem unisolve_exact_approximate_unbounded : forall c g, in_prec g = 0 -> cgoal g = Approximate -> resume g = false ->
  forall k, uterminal (run ust (ustep c g) uterminal k adversary 0 uinit) = false.
Proof.
  intros c g Hp Hgoal Hres k.
  assert (H : forall k t s, adv_inv s -> adv_inv (run ust (ustep c g) uterminal k adversary t s)).
  { induction k0 as [|k0 IH]; intros t s Hs; simpl; [exact Hs|].
    destruct (adv_inv_step c g Hp Hgoal Hres s Hs) as [H1 H2]. rewrite H2. apply IH. exact H1. }
  assert (Hi : adv_inv uinit) by (unfold adv_inv, uinit; simpl; tauto).
  specialize (H k 0 uinit Hi).
  destruct (adv_inv_step c g Hp Hgoal Hres _ H) as [_ H2]. exact H2.
Qed.

(* ------------------------------------------------------------------ secular driver *)
Definition sadv_inv (s : sst) : Prop :=
  match spc_ s with
  | S_start => packet s = 0
  | S_loop => packet s = 0 /\ just_regen s = true
  | _ => False
  end.

Lemma sadv_step : forall c g, 1 <= max_pack c -> avoid_mp g = false ->
  forall s, sadv_inv s -> sadv_inv (sstep c g ans0 s) /\ sterminal s = false.
Proof.
  intros c g HP Hav s Hs.
  destruct s as [p pk jr ph m er rt lp]; unfold sadv_inv, sterminal in *; simpl in *.
  destruct p; simpl in *; try contradiction; (split; [|reflexivity]); unfold sstep; simpl.
  - tauto.
  - destruct Hs as [H1 H2]. subst. simpl. rewrite Hav. simpl.
    destruct (max_pack c <? 1) eqn:E; [apply Nat.ltb_lt in E; lia|]. simpl. tauto.
Qed.

Theorem secular_unbounded : forall c g, 1 <= max_pack c -> avoid_mp g = false ->
  forall k, sterminal (run sst (sstep c g) sterminal k adversary 0 sinit) = false.
Proof.
  intros c g HP Hav k.
  assert (H : forall k t s, sadv_inv s -> sadv_inv (run sst (sstep c g) sterminal k adversary t s)).
  { induction k0 as [|k0 IH]; intros t s Hs; simpl; [exact Hs|].
    destruct (sadv_step c g HP Hav s Hs) as [H1 H2]. rewrite H2. apply IH. exact H1. }
  assert (Hi : sadv_inv sinit) by (unfold sadv_inv, sinit; simpl; reflexivity).
  specialize (H k 0 sinit Hi).
  destruct (sadv_step c g HP Hav _ H) as [_ H2]. exact H2.
Qed.

(* what IS bounded: as long as the precision is not raised the packet counter is a real cap *)
Definition no_raise (a : ans) : Prop := o_best a = false /\ o_regen a = true.
Definition sgood (g : cfg) (s : sst) : Prop :=
  match spc_ s with S_improve cur => in_prec g <> 0 /\ 1 <= cur | _ => True end.
Definition smu (c : caps) (g : cfg) (s : sst) : nat :=
  match spc_ s with
  | S_return => 0
  | S_improve cur => ileft g cur
  | S_cleanup => ileft g (wp_min g) + 1
  | S_loop => (max_pack c + 1 - packet s) + ileft g (wp_min g) + 2
  | S_start => max_pack c + 1 + ileft g (wp_min g) + 3
  end.
Definition SBound (c : caps) (g : cfg) : nat := max_pack c + ileft g (wp_min g) + 4.

Lemma sstep_decreases : forall c g, cfg_ok g -> improve_capped g ->
  forall a s, no_raise a -> sgood g s -> sterminal s = false -> sgood g (sstep c g a s) /\ smu c g (sstep c g a s) < smu c g s.
Proof.
  intros c g [Hm0 Hw0] Hcap a s [Hb Hr] Hg Ht.
  destruct s as [p pk jr ph m er rt lp]; unfold sgood, sterminal, smu in *; simpl in *.
  assert (HI : 1 <= ileft g (wp_min g)) by (unfold ileft; lia).
  destruct p; simpl in *; try discriminate; unfold sstep; simpl.
  - (* S_start *) brk; simpl; split; trivial; ul.
  - (* S_loop *) rewrite Hb, Hr. simpl.
    destruct (max_pack c <? S pk) eqn:E1; simpl; [split; trivial; ul|].
    apply Nat.ltb_ge in E1.
    destruct (negb jr && o_stop a); simpl; [split; trivial; ul|].
    destruct (o_stop2 a); simpl; split; trivial; ul.
  - (* S_cleanup *)
    destruct (is_approx (cgoal g)) eqn:E; simpl; [|split; trivial; ul].
    split; [|ul]. split; [|ul].
    destruct Hcap as [H|H]; [exact H|]. destruct (cgoal g); simpl in E; try discriminate. congruence.
  - (* S_improve *)
    destruct Hg as [Hp Hc].
    destruct (o_allapprox a); simpl; [split; [trivial|ul]|].
    destruct ((in_prec g <? cur + (cur + 0)) && negb (in_prec g =? 0)) eqn:E; simpl.
    + split; [trivial|ul].
    + assert (Hle : 2 * cur <= in_prec g) by ul.
      pose proof (ileft_step g cur Hc Hle) as Hi.
      replace (2 * cur) with (cur + (cur + 0)) in Hi by ul.
      split; [split; [exact Hp|ul]|ul].
Qed.

Theorem secular_bounded_without_raise : forall c g, cfg_ok g -> improve_capped g -> forall orc,
  (forall t, no_raise (orc t)) ->
  sterminal (run sst (sstep c g) sterminal (SBound c g) orc 0 sinit) = true /\
  steps sst (sstep c g) sterminal (SBound c g) orc 0 sinit <= SBound c g.
Proof.
  intros c g Hok Hcap orc Ho.
  pose proof (run_terminates_P sst (sstep c g) sterminal no_raise (sgood g) (smu c g)
                (fun a s => sstep_decreases c g Hok Hcap a s) (SBound c g) orc 0 sinit Ho) as H.
  assert (E : smu c g sinit = SBound c g) by (unfold smu, sinit, SBound; simpl; lia).
  rewrite E in H. apply H; [unfold sgood, sinit; simpl; trivial|lia].
Qed.

(* ------------------------------------------------------------------ how a run ends *)
Definition has_msg (e : option string) : Prop := exists m, e = Some m /\ m <> ""%string.
Definition uresult (s : ust) : Prop := roots_set s = true /\ lastphase s <> NoPhase.

Definition uinv (s : ust) : Prop :=
  match pc s with
  | U_start => True
  | U_dpe_gate => whichd s = true \/ roots_set s = true
  | U_return => has_msg (err s) \/ uresult s
  | U_head SF _ | U_polzer SF _ _ | U_phase_end SF | U_mp_init => roots_set s = true
  | _ => uresult s
  end.

Lemma msg_ok : forall m : string, m <> ""%string -> has_msg (Some m).
Proof. intros m H. exists m. split; [reflexivity|exact H]. Qed.

Ltac fin := simpl in *; try tauto; try (intuition congruence); try (left; apply msg_ok; discriminate); try (right; tauto);
            try (split; [tauto|discriminate]); try (split; [reflexivity|discriminate]);
            try (right; split; [tauto|discriminate]).

Lemma uinv_step : forall c g a s, uinv s -> uterminal s = false -> uinv (ustep c g a s).
Proof.
  intros c g a s Hs Ht.
  destruct s as [p cmp om daf wd m lp er rs cp]; unfold uinv, uresult, uterminal in *; simpl in *.
  destruct p; simpl in *; try discriminate; unfold ustep, after_packet; simpl.
  - brk; fin.
  - destruct ph; destruct pl; fin.
  - destruct sl; simpl; [|destruct (o_more a); simpl]; destruct (o_pk a); destruct ph; fin.
  - destruct ph; simpl; brk; fin.
  - destruct wd; simpl; [fin|]. destruct daf; simpl; [|fin].
    destruct Hs as [H|H]; [discriminate|]. fin.
  - brk; fin.
  - brk; fin.
  - brk; fin.
  - brk; fin.
  - brk; fin.
  - fin.
Qed.

Theorem unisolve_ends_in_result_or_error : forall c g orc k,
  let s := run ust (ustep c g) uterminal k orc 0 uinit in
  uterminal s = true -> has_msg (err s) \/ uresult s.
Proof.
  intros c g orc k s Ht.
  assert (H : uinv s).
  { apply (run_inv ust (ustep c g) uterminal uinv); [intros; apply uinv_step; assumption|unfold uinv, uinit; simpl; trivial]. }
  unfold uinv, uterminal in *. destruct (pc s); try discriminate. exact H.
Qed.

Definition sresult (s : sst) : Prop := sroots s = true /\ slast s <> NoPhase.
Definition sinv (s : sst) : Prop :=
  match spc_ s with
  | S_start => True
  | S_return => has_msg (serr s) \/ sresult s
  | _ => sresult s
  end.

Lemma sinv_step : forall c g a s, sinv s -> sterminal s = false -> sinv (sstep c g a s).
Proof.
  intros c g a s Hs Ht.
  destruct s as [p pk jr ph m er rt lp]; unfold sinv, sresult, sterminal in *; simpl in *.
  destruct p; simpl in *; try discriminate; unfold sstep; simpl.
  - brk; fin.
  - brk; fin.
  - brk; fin.
  - brk; fin.
Qed.

Theorem secular_ends_in_result_or_error : forall c g orc k,
  let s := run sst (sstep c g) sterminal k orc 0 sinit in
  sterminal s = true -> has_msg (serr s) \/ sresult s.
Proof.
  intros c g orc k s Ht.
  assert (H : sinv s).
  { apply (run_inv sst (sstep c g) sterminal sinv); [intros; apply sinv_step; assumption|unfold sinv, sinit; simpl; trivial]. }
  unfold sinv, sterminal in *. destruct (spc_ s); try discriminate. exact H.
Qed.
