(* C03 - soundness of the trace acceptors: an accepted trace is the trace of a run of the skeleton. *)
Require Import Arith Bool List Lia String.
Require Import MPSV.Total.SkelDefs MPSV.Total.Accept.
Import ListNotations.
Open Scope list_scope.

Lemma ev_eqb_eq : forall a b, ev_eqb a b = true -> a = b.
Proof.
  intros a b H; destruct a, b; simpl in H; try discriminate; try reflexivity.
  - destruct ph, ph0; simpl in H; try discriminate; reflexivity.
  - apply Nat.eqb_eq in H. subst. reflexivity.
  - apply Nat.eqb_eq in H. subst. reflexivity.
Qed.

Lemma strip_app : forall out evs evs', strip out evs = Some evs' -> evs = out ++ evs'.
Proof.
  induction out as [|o out IH]; intros evs evs' H; simpl in *.
  - inversion H. reflexivity.
  - destruct evs as [|e evs]; [discriminate|].
    destruct (ev_eqb o e) eqn:E; [|discriminate].
    apply ev_eqb_eq in E. subst. simpl. f_equal. apply IH. exact H.
Qed.

Lemma accept_u_sound : forall fuel c g ferr finc s evs n n' l,
  accept_u fuel c g ferr finc s evs n = (true, n', l) ->
  exists answers, n' = n + List.length answers /\
    fst (utrace answers c g s) = evs /\ uterminal (snd (utrace answers c g s)) = true /\
    is_some (err (snd (utrace answers c g s))) = ferr.
Proof.
  induction fuel as [|f IH]; intros c g ferr finc s evs n n' l H; simpl in H; [inversion H|].
  destruct (uterminal s) eqn:Ht.
  - destruct evs; [|discriminate H]. injection H as H1 H2 H3. exists []. simpl.
    split; [lia|]. split; [reflexivity|]. split; [exact Ht|]. apply Bool.eqb_prop. exact H1.
  - destruct (strip (uemit c g (uguide c g ferr finc s evs) s) evs) as [evs'|] eqn:Es; [|discriminate H].
    destruct (IH _ _ _ _ _ _ _ _ _ H) as [r [Hn [Ht' [Hterm Herr]]]].
    exists (uguide c g ferr finc s evs :: r). simpl.
    destruct (utrace r c g (ustep c g (uguide c g ferr finc s evs) s)) as [t s'] eqn:Eu. simpl in *.
    repeat split; try lia; try assumption.
    subst t. symmetry. apply strip_app. exact Es.
Qed.

Lemma accept_s_sound : forall fuel c g ferr s evs n n' l,
  accept_s fuel c g ferr s evs n = (true, n', l) ->
  exists answers, n' = n + List.length answers /\
    fst (strace answers c g s) = evs /\ sterminal (snd (strace answers c g s)) = true /\
    is_some (serr (snd (strace answers c g s))) = ferr.
Proof.
  induction fuel as [|f IH]; intros c g ferr s evs n n' l H; simpl in H; [inversion H|].
  destruct (sterminal s) eqn:Ht.
  - destruct evs; [|discriminate H]. injection H as H1 H2 H3. exists []. simpl.
    split; [lia|]. split; [reflexivity|]. split; [exact Ht|]. apply Bool.eqb_prop. exact H1.
  - destruct (strip (semit c g (sguide c g ferr s evs) s) evs) as [evs'|] eqn:Es; [|discriminate H].
    destruct (IH _ _ _ _ _ _ _ _ H) as [r [Hn [Ht' [Hterm Herr]]]].
    exists (sguide c g ferr s evs :: r). simpl.
    destruct (strace r c g (sstep c g (sguide c g ferr s evs) s)) as [t s'] eqn:Eu. simpl in *.
    repeat split; try lia; try assumption.
    subst t. symmetry. apply strip_app. exact Es.
Qed.

Theorem check_u_sound : forall c g ferr finc evs n l b,
  check_u c g ferr finc evs = (true, n, l, b) ->
  exists answers, List.length answers = n /\ n <= trace_bound c g evs /\
    fst (utrace answers c g uinit) = evs /\ uterminal (snd (utrace answers c g uinit)) = true /\
    is_some (err (snd (utrace answers c g uinit))) = ferr.
Proof.
  intros c g ferr finc evs n l b H. unfold check_u in H.
  destruct (accept_u (S (trace_bound c g evs)) c g ferr finc uinit evs 0) as [[ok n0] l0] eqn:E.
  injection H as H1 Hn Hl Hb. subst n0 l0.
  apply andb_prop in H1. destruct H1 as [Hok Hle]. subst ok.
  destruct (accept_u_sound _ _ _ _ _ _ _ _ _ _ E) as [r [Hr [H2 [H3 H4]]]].
  exists r. split; [lia|]. split; [apply Nat.leb_le in Hle; exact Hle|].
  split; [exact H2|]. split; [exact H3|exact H4].
Qed.

Theorem check_s_sound : forall c g ferr evs n l,
  check_s c g ferr evs = (true, n, l) ->
  exists answers, List.length answers = n /\
    fst (strace answers c g sinit) = evs /\ sterminal (snd (strace answers c g sinit)) = true /\
    is_some (serr (snd (strace answers c g sinit))) = ferr.
Proof.
  intros c g ferr evs n l H. unfold check_s in H.
  destruct (accept_s_sound _ _ _ _ _ _ _ _ _ H) as [r [Hn [H2 [H3 H4]]]].
  exists r. repeat split; try assumption; lia.
Qed.
