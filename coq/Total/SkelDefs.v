(* C03 - control skeletons of the MPSolve drivers with explicit caps.  Definitions only.

   The numerics (Aberth sweeps, cluster analysis, stop tests, regeneration of the secular coefficients,
   Newton refinement) are NOT modelled: every decision they take is read from an arbitrary oracle
   (a stream of answers, one per skeleton step).  What is modelled, branch by branch, is the control
   flow that decides how long a solve runs and how it ends:
     unisolve/main.c   mps_standard_mpsolve     (phases float -> dpe -> mp, precision doubling up to mpwp_max)
     unisolve/solve.c  mps_fsolve/dsolve/msolve (<= max_pack packets of <= max_it sweeps, error when exhausted;
                                                 the driver goes on after that error: mps_error only sets the flag)
     common/improve.c  mps_improve              (precision doubling until all roots are approximated or
                                                 2*precision > p->prec, the latter test only when p->prec <> 0)
     secsolve/secular-ga.c mps_secular_ga_mpsolve (do/while over packets; packet = 0 on every precision raise;
                                                 no cap on the precision)                                        *)
Require Import Arith Bool List Lia String.
Open Scope string_scope.
Open Scope nat_scope.

Inductive phase := NoPhase | FloatP | DpeP | MpP.
Inductive sphase := SF | SD | SM.                       (* which of fsolve / dsolve / msolve *)
Inductive goal := Isolate | Approximate | Count.

Record caps := { max_pack : nat; max_it : nat; mpwp_max : nat }.

Record cfg := { cgoal : goal;
                resume : bool;
                in_prec : nat;      (* p->prec : bits of the input coefficients, 0 = exact *)
                mpwp0 : nat;        (* working precision the mp loop starts from (main.c step 7: in [53,106]) *)
                wp_min : nat;       (* min_i root[i]->wp when improve starts (>= 53 in the code) *)
                avoid_mp : bool }.  (* -m *)

(* what a packet of Aberth iterations and the analysis after it decided *)
Inductive pkres :=
| PkFpe        (* fsolve: floating point exception -> d_after_f, goto cleanup *)
| PkAllDone    (* msolve: nzc == n -> cleanup *)
| PkNoExcep    (* excep = false -> break *)
| PkCycle      (* excep, number of clusters unchanged -> continue *)
| PkNewStop    (* excep, new clusters, check_stop -> goto cleanup *)
| PkNewGo.     (* excep, new clusters, go on with the next packet *)

Record ans := { o_err : bool;        (* the routine called in this step raised mps_error (check_data, inclusion) *)
                o_whichd : bool;     (* check_data: which_case = 'd' *)
                o_more : bool;       (* polzer: another sweep over the roots is needed *)
                o_pk : pkres;
                o_dafter : bool;     (* fsolve's final status scan found a NOT_FLOAT root *)
                o_stop : bool;       (* mps_check_stop *)
                o_pre : bool;        (* msolve prelude: check_stop or nzc == n before the first packet *)
                o_incl : bool;       (* clusterization->n < n : mps_inclusion is called *)
                o_allapprox : bool;  (* improve: approximated_roots == n at the loop head *)
                o_best : bool;       (* secular-ga: s->best_approx after the packet *)
                o_regen1 : bool;     (* secular-ga: regeneration inside the best_approx branch succeeded *)
                o_regen : bool;      (* secular-ga: regeneration at the end of the iteration succeeded *)
                o_stop2 : bool;      (* secular-ga: check_stop in the while condition *)
                o_round : nat }.     (* mps_mp_set_prec: s->mpwp = (prec / min_prec + 1) * min_prec, i.e. prec + o_round *)

(* ------------------------------------------------------------------ generic oracle machine *)
Section Machine.
  Variables (St : Type) (step : ans -> St -> St) (terminal : St -> bool).
  (* state after at most k steps; the oracle is consulted at times t, t+1, ... *)
  Fixpoint run (k : nat) (orc : nat -> ans) (t : nat) (s : St) : St :=
    match k with
    | 0 => s
    | S k' => if terminal s then s else run k' orc (S t) (step (orc t) s)
    end.
  (* number of steps actually taken by [run k] *)
  Fixpoint steps (k : nat) (orc : nat -> ans) (t : nat) (s : St) : nat :=
    match k with
    | 0 => 0
    | S k' => if terminal s then 0 else S (steps k' orc (S t) (step (orc t) s))
    end.
End Machine.

(* ------------------------------------------------------------------ classic driver (unisolve) *)
Inductive upc :=
| U_start                                  (* setup, resume test, check_data *)
| U_head (ph : sphase) (pl : nat)          (* packet loop test `iter < max_pack`; pl = packets left *)
| U_polzer (ph : sphase) (pl sl : nat)     (* inside a packet: sl sweeps left *)
| U_phase_end (ph : sphase)                (* back in the driver after f/d/msolve *)
| U_dpe_gate | U_mp_init | U_mp_head | U_exit_sub | U_improve_gate
| U_improve (cur : nat)                    (* improve loop head, current_precision = cur *)
| U_finish | U_return.

Record ust := { pc : upc; computed : bool; over_max : bool; d_after_f : bool; whichd : bool; mpwp : nat;
                lastphase : phase; err : option string; roots_set : bool; copied : bool }.

Definition set_pc (s : ust) (p : upc) : ust :=
  {| pc := p; computed := computed s; over_max := over_max s; d_after_f := d_after_f s; whichd := whichd s; mpwp := mpwp s;
     lastphase := lastphase s; err := err s; roots_set := roots_set s; copied := copied s |}.
Definition set_computed (s : ust) (b : bool) : ust :=
  {| pc := pc s; computed := b; over_max := over_max s; d_after_f := d_after_f s; whichd := whichd s; mpwp := mpwp s;
     lastphase := lastphase s; err := err s; roots_set := roots_set s; copied := copied s |}.
Definition set_over_max (s : ust) (b : bool) : ust :=
  {| pc := pc s; computed := computed s; over_max := b; d_after_f := d_after_f s; whichd := whichd s; mpwp := mpwp s;
     lastphase := lastphase s; err := err s; roots_set := roots_set s; copied := copied s |}.
Definition set_dafter (s : ust) (b : bool) : ust :=
  {| pc := pc s; computed := computed s; over_max := over_max s; d_after_f := b; whichd := whichd s; mpwp := mpwp s;
     lastphase := lastphase s; err := err s; roots_set := roots_set s; copied := copied s |}.
Definition set_whichd (s : ust) (b : bool) : ust :=
  {| pc := pc s; computed := computed s; over_max := over_max s; d_after_f := d_after_f s; whichd := b; mpwp := mpwp s;
     lastphase := lastphase s; err := err s; roots_set := roots_set s; copied := copied s |}.
Definition set_mpwp (s : ust) (m : nat) : ust :=
  {| pc := pc s; computed := computed s; over_max := over_max s; d_after_f := d_after_f s; whichd := whichd s; mpwp := m;
     lastphase := lastphase s; err := err s; roots_set := roots_set s; copied := copied s |}.
Definition set_lastphase (s : ust) (p : phase) : ust :=
  {| pc := pc s; computed := computed s; over_max := over_max s; d_after_f := d_after_f s; whichd := whichd s; mpwp := mpwp s;
     lastphase := p; err := err s; roots_set := roots_set s; copied := copied s |}.
Definition raise (s : ust) (m : string) : ust :=
  {| pc := pc s; computed := computed s; over_max := over_max s; d_after_f := d_after_f s; whichd := whichd s; mpwp := mpwp s;
     lastphase := lastphase s; err := Some m; roots_set := roots_set s; copied := copied s |}.
Definition set_roots (s : ust) : ust :=
  {| pc := pc s; computed := computed s; over_max := over_max s; d_after_f := d_after_f s; whichd := whichd s; mpwp := mpwp s;
     lastphase := lastphase s; err := err s; roots_set := true; copied := copied s |}.
Definition set_copied (s : ust) : ust :=
  {| pc := pc s; computed := computed s; over_max := over_max s; d_after_f := d_after_f s; whichd := whichd s; mpwp := mpwp s;
     lastphase := lastphase s; err := err s; roots_set := roots_set s; copied := true |}.

Definition is_approx (g : goal) : bool := match g with Approximate => true | _ => false end.

Definition pack_msg (ph : sphase) : string :=
  match ph with
  | SF => "Float: reached the maximum number of packet iterations"
  | SD => "DPE: reached the maximum number of packet iterations"
  | SM => "MP: reached the maximum number of packet iteration"
  end.

Definition uinit : ust :=
  {| pc := U_start; computed := false; over_max := false; d_after_f := false; whichd := false; mpwp := 53;
     lastphase := NoPhase; err := None; roots_set := false; copied := false |}.

Definition after_packet (ph : sphase) (pl : nat) (a : ans) (s : ust) : ust :=
  match o_pk a with
  | PkFpe => match ph with
             | SF => set_pc (set_dafter s true) (U_phase_end ph)
             | _ => set_pc s (U_phase_end ph)
             end
  | PkAllDone | PkNoExcep | PkNewStop => set_pc s (U_phase_end ph)
  | PkCycle | PkNewGo => set_pc s (U_head ph pl)
  end.

Definition ustep (c : caps) (g : cfg) (a : ans) (s : ust) : ust :=
  match pc s with
  | U_start =>
      if resume g then set_pc (raise s "Resume not supported yet") U_return
      else if o_err a then set_pc (raise s "check_data: inconsistent data or unsupported option") U_return
      else if o_whichd a then set_pc (set_whichd s true) U_dpe_gate
      else set_pc (set_roots (set_whichd s false)) (U_head SF (max_pack c))
  | U_head ph pl =>
      match pl with
      | 0 => set_pc (raise s (pack_msg ph)) (U_phase_end ph)
      | S pl' => set_pc s (U_polzer ph pl' (max_it c))
      end
  | U_polzer ph pl sl =>
      match sl with
      | S sl' => if o_more a then set_pc s (U_polzer ph pl sl') else after_packet ph pl a s
      | 0 => after_packet ph pl a s
      end
  | U_phase_end SF =>
      let s1 := set_computed (set_dafter (set_lastphase s FloatP) (d_after_f s || o_dafter a)) (o_stop a) in
      if o_stop a && negb (is_approx (cgoal g)) then set_pc s1 U_exit_sub else set_pc s1 U_dpe_gate
  | U_phase_end SD =>
      let s1 := set_computed s (o_stop a) in
      if o_stop a && negb (is_approx (cgoal g)) then set_pc s1 U_exit_sub else set_pc s1 U_mp_init
  | U_phase_end SM =>
      set_pc (set_computed (set_lastphase s MpP) (o_stop a)) U_mp_head
  | U_dpe_gate =>
      if whichd s || d_after_f s then set_pc (set_roots (set_lastphase s DpeP)) (U_head SD (max_pack c))
      else set_pc s U_mp_init
  | U_mp_init =>
      let s1 := set_lastphase s MpP in
      if computed s && is_approx (cgoal g) then set_pc s1 U_exit_sub
      else set_pc (set_mpwp s1 (mpwp0 g)) U_mp_head
  | U_mp_head =>
      if negb (computed s) && (mpwp s <? mpwp_max c) then
        let m2 := 2 * mpwp s in
        (* mps_mp_set_prec rounds the requested precision up to the next multiple of the GMP granularity *)
        let s1 := if mpwp_max c <? m2 then set_over_max (set_mpwp s (mpwp_max c + o_round a)) true else set_mpwp s (m2 + o_round a) in
        if o_pre a then set_pc s1 (U_phase_end SM) else set_pc s1 (U_head SM (max_pack c))
      else set_pc s U_exit_sub
  | U_exit_sub =>
      if computed s && o_incl a then
        if o_err a then set_pc (raise s "Unable to compute inclusion disks") U_return
        else set_pc s U_improve_gate
      else set_pc s U_improve_gate
  | U_improve_gate =>
      if computed s && negb (over_max s) && is_approx (cgoal g)
      then set_pc (set_lastphase s MpP) (U_improve (wp_min g))
      else set_pc s U_finish
  | U_improve cur =>
      if o_allapprox a then set_pc s U_finish
      else let c2 := 2 * cur in
           if (in_prec g <? c2) && negb (in_prec g =? 0) then set_pc (set_over_max s true) U_finish
           else set_pc s (U_improve c2)
  | U_finish => set_pc (set_copied s) U_return
  | U_return => s
  end.

Definition uterminal (s : ust) : bool := match pc s with U_return => true | _ => false end.

(* explicit bound *)
Definition Wpk (c : caps) : nat := max_pack c * (max_it c + 2) + 1.          (* one packet loop *)
Definition dleft (c : caps) (m : nat) : nat :=                                 (* precision doublings left *)
  if mpwp_max c <=? m then 0 else S (Nat.log2 (mpwp_max c) - Nat.log2 m).
Definition ileft (g : cfg) (cur : nat) : nat := S (Nat.log2 (in_prec g) - Nat.log2 cur).   (* improve doublings left *)
Definition Bound (c : caps) (g : cfg) : nat :=
  (dleft c (mpwp0 g) + 2) * (Wpk c + 3) + ileft g (wp_min g) + 6.

(* ------------------------------------------------------------------ improve alone *)
Definition improve_state (cur : nat) : ust := set_pc uinit (U_improve cur).
Definition improve_done (s : ust) : bool := match pc s with U_finish | U_return => true | _ => false end.

(* ------------------------------------------------------------------ secular driver (secular-ga) *)
Inductive spc := S_start | S_loop | S_cleanup | S_improve (cur : nat) | S_return.

Record sst := { spc_ : spc; packet : nat; just_regen : bool; sphase_mp : bool; smpwp : nat; serr : option string;
                sroots : bool; slast : phase }.

Definition sset_pc (s : sst) (p : spc) : sst :=
  {| spc_ := p; packet := packet s; just_regen := just_regen s; sphase_mp := sphase_mp s; smpwp := smpwp s; serr := serr s;
     sroots := sroots s; slast := slast s |}.
Definition sraise (s : sst) (m : string) : sst :=
  {| spc_ := spc_ s; packet := packet s; just_regen := just_regen s; sphase_mp := sphase_mp s; smpwp := smpwp s; serr := Some m;
     sroots := sroots s; slast := slast s |}.
Definition sinit : sst :=
  {| spc_ := S_start; packet := 0; just_regen := false; sphase_mp := false; smpwp := 64; serr := None; sroots := false; slast := NoPhase |}.

(* raise of the working precision: switch to mp if not there yet, else double mpwp; in both cases packet := 0 *)
Definition sraise_prec (s : sst) : sst :=
  {| spc_ := spc_ s; packet := 0; just_regen := just_regen s; sphase_mp := true;
     smpwp := if sphase_mp s then 2 * smpwp s else smpwp s; serr := serr s; sroots := sroots s; slast := MpP |}.
Definition sset_regen (s : sst) (b : bool) : sst :=
  {| spc_ := spc_ s; packet := packet s; just_regen := b; sphase_mp := sphase_mp s; smpwp := smpwp s; serr := serr s;
     sroots := sroots s; slast := slast s |}.
Definition sset_packet (s : sst) (k : nat) : sst :=
  {| spc_ := spc_ s; packet := k; just_regen := just_regen s; sphase_mp := sphase_mp s; smpwp := smpwp s; serr := serr s;
     sroots := sroots s; slast := slast s |}.
Definition sstarted (s : sst) : sst :=
  {| spc_ := spc_ s; packet := packet s; just_regen := just_regen s; sphase_mp := sphase_mp s; smpwp := smpwp s; serr := serr s;
     sroots := true; slast := FloatP |}.

Definition sstep (c : caps) (g : cfg) (a : ans) (s : sst) : sst :=
  match spc_ s with
  | S_start =>
      (* deflation, check_data, starting points + preliminary Aberth packet, first regeneration *)
      if o_err a then sset_pc (sraise s "Unable to perform initial regeneration of the secular equation.") S_return
      else if o_pre a then sset_pc (sstarted s) S_cleanup          (* check_stop after the preliminary packet / crude mode *)
      else sset_pc (sset_regen (sstarted s) (o_regen1 a)) S_loop
  | S_loop =>
      (* one iteration of the do/while: a packet of <= max_it iterations, then the bookkeeping *)
      let s1 := sset_packet s (S (packet s)) in
      if max_pack c <? packet s1 then sset_pc (sraise s1 "Maximum number of iteration passed. Aborting.") S_return
      else if negb (just_regen s1) && o_stop a then sset_pc s1 S_cleanup
      else
        let skip := negb (just_regen s1) in                   (* skip_check_stop = true when the test above failed *)
        if o_best a && avoid_mp g then sset_pc s1 S_cleanup
        else
          let s2 := if o_best a then (let r := sraise_prec s1 in if o_regen1 a then sset_regen r true else r) else s1 in
          let skip2 := if o_best a then false else skip in
          let s3 := if o_regen a then sset_regen s2 true else sraise_prec s2 in
          (* both outcomes of the last regeneration reset skip_check_stop *)
          if o_stop2 a then sset_pc s3 S_cleanup else sset_pc s3 S_loop
  | S_cleanup =>
      (* no errors here (they return directly).  if (p->prec > 0) mps_validate_inclusions: switches to the mp phase when
         the loop ended before reaching it *)
      let s1 := if negb (in_prec g =? 0) && negb (sphase_mp s) then sraise_prec s else s in
      if is_approx (cgoal g) then sset_pc s1 (S_improve (wp_min g)) else sset_pc s1 S_return
  | S_improve cur =>
      if o_allapprox a then sset_pc s S_return
      else let c2 := 2 * cur in
           if (in_prec g <? c2) && negb (in_prec g =? 0) then sset_pc s S_return
           else sset_pc s (S_improve c2)
  | S_return => s
  end.

Definition sterminal (s : sst) : bool := match spc_ s with S_return => true | _ => false end.

(* constant oracles used as witnesses *)
Definition ans0 : ans :=
  {| o_err := false; o_whichd := false; o_more := false; o_pk := PkNoExcep; o_dafter := false; o_stop := true; o_pre := false;
     o_incl := false; o_allapprox := false; o_best := true; o_regen1 := true; o_regen := true; o_stop2 := false; o_round := 0 |}.
Definition adversary : nat -> ans := fun _ => ans0.
