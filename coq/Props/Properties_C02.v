(* C02 - goal contract and status honesty.  Statements only; model in Goal/GoalModel.v (executable on Q,
   extracted to bin/goalq and evaluated on the exact export of every run), proofs in Goal/GoalProps.v.
   Second layer (end of this file): the control flow that decides the statuses - stop tests, every exit of the classic
   driver, the refinement loop, the status writes of mps_*modify - transcribed in Goal/StopModel.v as functions that
   consume the outcomes of the opaque calls as events; proofs in Goal/StopProps.v; extracted to bin/stopq and replayed
   against the real calls on every run.
   What is NOT modelled: the solver's iteration (what a phase does to values, radii and clusters: event payloads). *)
From Coq Require Import QArith Qreals Reals List ZArith Lra Lia.
Require Import MPSV.Goal.GoalModel MPSV.Goal.GoalProps MPSV.Goal.StopModel MPSV.Goal.StopProps MPSV.Goal.StopExtra.
Import ListNotations.
Local Open Scope R_scope.

(* the boolean test the check evaluates is exactly   0 <= r  and  r <= 2^-d * |z|   over the reals *)
Theorem C02_approx_ok_spec :
  forall (d : Z) (zr zi r : Q), (0 <= d)%Z ->
  (approx_ok d zr zi r = true <->
   0 <= Q2R r /\ Q2R r <= Rpower 2 (- IZR d) * sqrt (Q2R zr * Q2R zr + Q2R zi * Q2R zi)).
Proof. exact approx_ok_spec. Qed.
Print Assumptions C02_approx_ok_spec.

Example C02_approx_ok_accepts : approx_ok 53 (-2) 0 (1 # 4503599627370496) = true.   (* r = 2^-52 = 2^-53 * 2 *)
Proof. vm_compute. reflexivity. Qed.
Example C02_approx_ok_rejects : approx_ok 53 (-2) 0 (1 # 2251799813685248) = false.  (* r = 2^-51 *)
Proof. vm_compute. reflexivity. Qed.

(* the disjointness test: true exactly when both radii are >= 0 and the CLOSED discs have no common point
   (so a reported overlap is a real common point, and an accepted pair really is disjoint) *)
Theorem C02_disjoint_spec :
  forall a b : disc,
  disjoint a b = true <->
  0 <= Q2R (rad a) /\ 0 <= Q2R (rad b) /\
  ~ (exists x y : R,
       (x - Q2R (cre a)) * (x - Q2R (cre a)) + (y - Q2R (cim a)) * (y - Q2R (cim a)) <= Q2R (rad a) * Q2R (rad a) /\
       (x - Q2R (cre b)) * (x - Q2R (cre b)) + (y - Q2R (cim b)) * (y - Q2R (cim b)) <= Q2R (rad b) * Q2R (rad b)).
Proof. exact disjoint_spec. Qed.
Print Assumptions C02_disjoint_spec.

(* the squared form of "closed disc" used above is the usual one *)
Theorem C02_in_disc_is_distance :
  forall (x y : R) (a : disc), 0 <= Q2R (rad a) ->
  ((x - Q2R (cre a)) * (x - Q2R (cre a)) + (y - Q2R (cim a)) * (y - Q2R (cim a)) <= Q2R (rad a) * Q2R (rad a) <->
   sqrt ((x - Q2R (cre a)) * (x - Q2R (cre a)) + (y - Q2R (cim a)) * (y - Q2R (cim a))) <= Q2R (rad a)).
Proof. exact in_disc_sqrt. Qed.
Print Assumptions C02_in_disc_is_distance.

Example C02_disjoint_tangent_discs_meet : disjoint (mkDisc 0 0 1) (mkDisc 2 0 1) = false.
Proof. vm_compute. reflexivity. Qed.
Example C02_disjoint_separated : disjoint (mkDisc 0 0 1) (mkDisc (21 # 10) 0 1) = true.
Proof. vm_compute. reflexivity. Qed.

Theorem C02_all_pairwise_disjoint_spec :
  forall ds : list disc,
  all_pairwise_disjoint ds = true <->
  ForallOrdPairs (fun a b => 0 <= Q2R (rad a) /\ 0 <= Q2R (rad b) /\ ~ discs_meet a b) ds.
Proof. exact all_pairwise_disjoint_R. Qed.
Print Assumptions C02_all_pairwise_disjoint_spec.

(* improve.c, get_approximated_bits:  (int)((rdpe_log(|z|) - rdpe_log(drad)) / LOG2 - 1)  and the test
   `get_approximated_bits (root) >= output_config->prec` that marks a root APPROXIMATED.
   Lz, Lr: the logarithms as computed; v: the value of the double expression; each within delta <= 1/8
   (in particular 2^-40) of what it approximates; Rtrunc = C's conversion double -> int.
   For d >= 1 the test implies the bound: the "- 1" absorbs the three errors.
   (Not covered: d <= 0, and drad = 0 where rdpe_log gives -inf and the conversion is undefined.) *)
Theorem C02_bits_imply_radius :
  forall (z r Lz Lr v delta : R) (d : Z),
  0 < z -> 0 < r -> 0 <= delta -> delta <= / 8 ->
  Rabs (Lz - ln z) <= delta -> Rabs (Lr - ln r) <= delta ->
  Rabs (v - ((Lz - Lr) / ln 2 - 1)) <= delta ->
  (1 <= d)%Z -> (d <= Rtrunc v)%Z ->
  r <= Rpower 2 (- IZR d) * z.
Proof. exact bits_imply_radius. Qed.
Print Assumptions C02_bits_imply_radius.

(* modify.c, mps_fmodify, singleton cluster: `frad < cplx_mod (fvalue) * eps_out` in double arithmetic.
   M = cplx_mod as computed, P = the product as computed, u = relative rounding slack of each step:
   the bound holds up to (1+u)^2. *)
Theorem C02_modify_marks_within_bound :
  forall (frad M P zmod eps u : R),
  0 <= u -> 0 <= eps -> 0 <= zmod ->
  M <= zmod * (1 + u) -> P <= M * eps * (1 + u) ->
  frad < P ->
  frad <= eps * zmod * ((1 + u) * (1 + u)).
Proof. exact fmodify_marks_within_bound. Qed.
Print Assumptions C02_modify_marks_within_bound.

(* modify.c, cluster branch of mps_fmodify / mps_dmodify / mps_mmodify:  tmp = rad / |z|; rdpe_le (tmp, eps_out) *)
Theorem C02_modify_cluster_marks_within_bound :
  forall (rad_ M Qc zmod eps u : R),
  0 <= u -> u < 1 -> 0 <= eps -> 0 <= rad_ -> 0 < M ->
  M <= zmod * (1 + u) -> (rad_ / M) * (1 - u) <= Qc ->
  Qc <= eps ->
  rad_ <= eps * zmod * ((1 + u) / (1 - u)).
Proof. exact cluster_marks_within_bound. Qed.
Print Assumptions C02_modify_cluster_marks_within_bound.

(* which calls of *modify leave a root "approximated in a cluster": either this call's test passed, or
   (track_new_cluster = true) the root already had that status - the stale path *)
Theorem C02_modify_status_in_cluster :
  forall v track csize old within,
  modify_status v track csize old within = ST_APPROXIMATED_IN_CLUSTER ->
  csize <> 1%nat /\ (within = true \/ (track = true /\ old = ST_APPROXIMATED_IN_CLUSTER)).
Proof. exact modify_status_in_cluster. Qed.
Print Assumptions C02_modify_status_in_cluster.

Theorem C02_modify_status_approximated :
  forall v track csize old within,
  modify_status v track csize old within = ST_APPROXIMATED ->
  csize = 1%nat /\ (retag track old = ST_APPROXIMATED \/ (v = VFloat /\ within = true))
  \/ (csize <> 1%nat /\ within = false /\ track = true /\ old = ST_APPROXIMATED).
Proof. exact modify_status_approximated. Qed.
Print Assumptions C02_modify_status_approximated.

(* "a root marked approximated stays within the bound" fails for the faithful model: after mps_mrestart
   enlarged the radius, mps_mmodify (s, true) keeps APPROXIMATED_IN_CLUSTER although the test fails.
   The witness is the state of the real solver on known/replays/C02_stale_status4.json; the check replays
   that input on every run. *)
Theorem C02_status_monotone_refuted :
  exists (r : root) (d : Z),
  st r = ST_APPROXIMATED_IN_CLUSTER /\ within_exact d r = false /\
  modify_status VMp true 2 (st r) (within_exact d r) = ST_APPROXIMATED_IN_CLUSTER /\
  honest d (mkRoot (modify_status VMp true 2 (st r) (within_exact d r)) (zre r) (zim r) (zrad r)) = false.
Proof. exact status_stale_refuted. Qed.
Print Assumptions C02_status_monotone_refuted.

(* with fixes/C02_stale_approx_in_cluster.patch the status follows this call's test *)
Theorem C02_modify_status_fixed_in_cluster :
  forall v track csize old within,
  modify_status_fixed v track csize old within = ST_APPROXIMATED_IN_CLUSTER ->
  csize <> 1%nat /\ within = true.
Proof. exact modify_status_fixed_in_cluster. Qed.
Print Assumptions C02_modify_status_fixed_in_cluster.

(* isolation: roots that are singleton clusters w.r.t. the touch predicate with factor nf >= 1
   (touch.c: nf * (Ri + Rj) >= |zi - zj|, evaluated exactly) have pairwise disjoint inclusion discs,
   PROVIDED each handed-out radius r_i is at most the radius R_i the cluster analysis used.
   l : list of ((centre, R_i), r_i). *)
Theorem C02_isolated_disjoint :
  forall (nf : Q) (l : list (disc * Q)),
  (1 <= nf)%Q ->
  Forall (fun p => (0 <= snd p)%Q /\ (snd p <= rad (fst p))%Q) l ->
  ForallOrdPairs (fun p q => touch nf (fst p) (fst q) = false) l ->
  all_pairwise_disjoint (map (fun p => mkDisc (cre (fst p)) (cim (fst p)) (snd p)) l) = true.
Proof. exact isolated_disjoint. Qed.
Print Assumptions C02_isolated_disjoint.

Example C02_isolated_disjoint_nonvacuous :
  let l := [ (mkDisc 0 0 (1 # 10), (1 # 20)%Q); (mkDisc 1 0 (1 # 10), (1 # 10)%Q); (mkDisc 0 1 (1 # 100), 0%Q) ] in
  (1 <= 2)%Q /\ forallb (fun p => Qle_bool 0 (snd p) && Qle_bool (snd p) (rad (fst p))) l = true /\
  touch 2 (fst (nth 0 l (mkDisc 0 0 0, 0%Q))) (fst (nth 1 l (mkDisc 0 0 0, 0%Q))) = false /\
  touch 2 (fst (nth 0 l (mkDisc 0 0 0, 0%Q))) (fst (nth 2 l (mkDisc 0 0 0, 0%Q))) = false /\
  touch 2 (fst (nth 1 l (mkDisc 0 0 0, 0%Q))) (fst (nth 2 l (mkDisc 0 0 0, 0%Q))) = false /\
  all_pairwise_disjoint (map (fun p => mkDisc (cre (fst p)) (cim (fst p)) (snd p)) l) = true.
Proof. vm_compute. repeat split; try reflexivity; discriminate. Qed.

(* without the hypothesis r_i <= R_i the conclusion fails *)
Example C02_isolated_needs_radius_hypothesis :
  touch 2 (mkDisc 0 0 (1 # 10)) (mkDisc 1 0 (1 # 10)) = false /\
  disjoint (mkDisc 0 0 (6 # 10)) (mkDisc 1 0 (6 # 10)) = false.
Proof. vm_compute. split; reflexivity. Qed.

(* the verdict of one run, as evaluated by the extracted [run_ok], is the property's predicate on the
   exported values: goal clause (unless over_max; approximate goal: unless crude / avoid-multiprecision),
   status honesty in every run, pairwise disjointness of the reported (isolated or approximated) discs *)
Theorem C02_run_ok_spec :
  forall (g : goal) (over_max exempt : bool) (d : Z) (rs : list root), (0 <= d)%Z ->
  (run_ok g over_max exempt d rs = true <->
   (over_max = false ->
      match g with
      | GIsolate => Forall (fun r => is_computed (st r) = true) rs
      | GApproximate => exempt = false -> Forall (fun r => is_approximated (st r) = true /\ bound_R d r) rs
      | GCount => True
      end) /\
   Forall (fun r => is_approximated (st r) = true -> bound_R d r) rs /\
   ForallOrdPairs (fun a b => 0 <= Q2R (rad a) /\ 0 <= Q2R (rad b) /\ ~ discs_meet a b) (map disc_of (reported rs))).
Proof. exact run_ok_spec. Qed.
Print Assumptions C02_run_ok_spec.

Example C02_run_ok_accepts :
  run_ok GApproximate false false 10
    [mkRoot 3 1 0 (1 # 2048); mkRoot 3 (-1) 0 (1 # 1024); mkRoot 4 0 (1 # 2) (1 # 4096)] = true.
Proof. vm_compute. reflexivity. Qed.
Example C02_run_ok_rejects_status : run_ok GIsolate false false 10 [mkRoot 2 1 0 (1 # 2048); mkRoot 1 (-1) 0 (1 # 1024)] = false.
Proof. vm_compute. reflexivity. Qed.
Example C02_run_ok_rejects_radius : run_ok GIsolate false false 10 [mkRoot 3 1 0 (1 # 1000)] = false.
Proof. vm_compute. reflexivity. Qed.
Example C02_run_ok_rejects_overlap : run_ok GIsolate false false 10 [mkRoot 2 1 0 (1 # 2); mkRoot 2 2 0 (1 # 2)] = false.
Proof. vm_compute. reflexivity. Qed.
Example C02_run_ok_over_max_exempts_goal_only :
  run_ok GApproximate true false 10 [mkRoot 2 1 0 (1 # 4)] = true /\
  run_ok GApproximate true false 10 [mkRoot 3 1 0 (1 # 4)] = false.
Proof. vm_compute. split; reflexivity. Qed.

(* the status tables are those of include/mps/types.h (compared with the header text on every run) *)
Theorem C02_status_tables :
  forall s : nat,
  (is_approximated s = true <-> s = ST_APPROXIMATED \/ s = ST_APPROXIMATED_IN_CLUSTER) /\
  (is_computed s = true <-> s = ST_ISOLATED \/ s = ST_APPROXIMATED \/ s = ST_APPROXIMATED_IN_CLUSTER).
Proof. exact status_tables. Qed.
Print Assumptions C02_status_tables.

Theorem C02_goal_ok_spec :
  forall (g : goal) (sts : list nat),
  goal_ok g sts = true <->
  match g with
  | GIsolate => Forall (fun s => is_computed s = true) sts
  | GApproximate => Forall (fun s => is_approximated s = true) sts
  | GCount => True
  end.
Proof. exact goal_ok_spec. Qed.
Print Assumptions C02_goal_ok_spec.

(* the check multiplies all numbers of one run by one power of two (so that they are integers) before it calls
   the extracted run_ok: the verdict does not change *)
Theorem C02_run_ok_scale :
  forall (s : Q) (g : goal) (over_max exempt : bool) (d : Z) (rs : list root), (0 < s)%Q ->
  run_ok g over_max exempt d (map (fun r => mkRoot (st r) (s * zre r) (s * zim r) (s * zrad r)) rs) = run_ok g over_max exempt d rs.
Proof. exact run_ok_scale. Qed.
Print Assumptions C02_run_ok_scale.

Theorem C02_approx_ok_scale :
  forall (s : Q) (d : Z) (zr zi r : Q), (0 < s)%Q ->
  approx_ok d (s * zr) (s * zi) (s * r) = approx_ok d zr zi r.
Proof. exact approx_ok_scale. Qed.
Print Assumptions C02_approx_ok_scale.

Theorem C02_disjoint_scale :
  forall (s : Q) (a b : disc), (0 < s)%Q ->
  disjoint (mkDisc (s * cre a) (s * cim a) (s * rad a)) (mkDisc (s * cre b) (s * cim b) (s * rad b)) = disjoint a b.
Proof. exact disjoint_scale. Qed.
Print Assumptions C02_disjoint_scale.

(* the hypotheses of C02_bits_imply_radius are satisfiable: z = 4, r = 1, exact logarithms, d = 1 *)
Example C02_bits_hypotheses_satisfiable :
  exists (z r Lz Lr v delta : R) (d : Z),
  0 < z /\ 0 < r /\ 0 <= delta /\ delta <= / 8 /\
  Rabs (Lz - ln z) <= delta /\ Rabs (Lr - ln r) <= delta /\
  Rabs (v - ((Lz - Lr) / ln 2 - 1)) <= delta /\ (1 <= d)%Z /\ (d <= Rtrunc v)%Z.
Proof.
  exists 4, 1, (ln 4), (ln 1), 1, 0, 1%Z.
  assert (L2 : 0 < ln 2) by (pose proof ln_lt_2; lra).
  assert (E4 : ln 4 = ln 2 + ln 2) by (replace 4 with (2 * 2) by lra; apply ln_mult; lra).
  assert (Ev : (ln 4 - ln 1) / ln 2 - 1 = 1) by (rewrite ln_1, E4; field; lra).
  repeat split; try lra; try lia.
  - rewrite Rminus_diag_eq by reflexivity. rewrite Rabs_R0. lra.
  - rewrite Rminus_diag_eq by reflexivity. rewrite Rabs_R0. lra.
  - rewrite Ev. rewrite Rminus_diag_eq by reflexivity. rewrite Rabs_R0. lra.
  - unfold Rtrunc. destruct (Rle_dec 0 1) as [_|N]; [|exfalso; lra].
    replace 1 with (INR 1) by reflexivity. rewrite Int_part_INR. simpl. lia.
Qed.


(* ====================================================================================================================
   CONTROL FLOW (Goal/StopModel.v).  All theorems below are closed under the global context. *)
Local Close Scope R_scope.
Local Open Scope nat_scope.

(* mps_check_stop (unisolve/solve.c) returning true under the isolate / approximate goal: every root whose inclusion is
   UNKNOWN or IN (i.e. not OUT) has a computed status (ISOLATED, APPROXIMATED, APPROXIMATED_IN_CLUSTER) *)
Theorem C02_check_stop_true_computed :
  forall (g : goal) (mult props : bool) (rs : list rt),
  g <> GCount -> check_stop g mult props rs = true ->
  Forall (fun r => rinc r = INC_UNKNOWN \/ rinc r = INC_IN -> is_computed (rst r) = true) rs.
Proof. exact check_stop_true_computed. Qed.
Print Assumptions C02_check_stop_true_computed.

Example C02_check_stop_accepts :
  check_stop GIsolate false false [mkRt ST_ISOLATED INC_IN true; mkRt ST_CLUSTERED INC_OUT true; mkRt ST_APPROXIMATED_IN_CLUSTER INC_UNKNOWN true] = true.
Proof. reflexivity. Qed.
Example C02_check_stop_rejects_clustered :
  check_stop GApproximate false false [mkRt ST_ISOLATED INC_IN true; mkRt ST_CLUSTERED INC_IN true] = false.
Proof. reflexivity. Qed.
(* the count goal is different: a stop does not mean computed *)
Example C02_check_stop_count_goal_differs :
  check_stop GCount false false [mkRt ST_CLUSTERED INC_IN true] = true.
Proof. reflexivity. Qed.

(* mps_secular_ga_check_stop (secsolve/secular-ga.c), when no exit was requested and a phase is set *)
Theorem C02_sec_check_stop_true_computed :
  forall (ph : phase) (sts : list nat),
  ph <> NoPhase -> sec_check_stop false ph sts = true -> forallb is_computed sts = true.
Proof. exact sec_check_stop_true_computed. Qed.
Print Assumptions C02_sec_check_stop_true_computed.

(* both hypotheses are needed: exit_required, or lastphase == no_phase (the `default: break`), make the test true *)
Example C02_sec_check_stop_exit_required : sec_check_stop true MpPhase [ST_CLUSTERED] = true.
Proof. reflexivity. Qed.
Example C02_sec_check_stop_no_phase : sec_check_stop false NoPhase [ST_CLUSTERED] = true.
Proof. reflexivity. Qed.
Example C02_sec_check_stop_rejects : sec_check_stop false FloatPhase [ST_ISOLATED; ST_CLUSTERED] = false.
Proof. reflexivity. Qed.

(* the status writes of mps_fmodify / mps_dmodify / mps_mmodify over the whole array (clusters walked as the code walks
   them) act on every root as the per-root function modify_status of the first layer; a root in no cluster is only retagged *)
Theorem C02_modify_roots_pointwise :
  forall (v : variant) (track : bool) (cls : list cluster) (w : list bool) (sts : list nat) (i : nat),
  clusters_wf (length sts) cls -> i < length sts ->
  nth i (modify_roots v track cls w sts) 0 =
  match cluster_of i cls with
  | Some c => modify_status v track (cn c) (nth i sts 0) (nth i w false)
  | None => retag track (nth i sts 0)
  end.
Proof. exact modify_roots_pointwise. Qed.
Print Assumptions C02_modify_roots_pointwise.

Example C02_modify_roots_example :
  modify_roots VMp true [mkCl 2 [0; 2]; mkCl 1 [1]] [false; false; true] [ST_CLUSTERED; ST_CLUSTERED; ST_ISOLATED]
  = [ST_NEW_CLUSTERED; ST_ISOLATED; ST_APPROXIMATED_IN_CLUSTER]
  /\ clusters_wf 3 [mkCl 2 [0; 2]; mkCl 1 [1]].
Proof.
  split; [reflexivity|]. split.
  - simpl. repeat constructor; simpl; intuition discriminate.
  - repeat constructor.
Qed.

(* mps_mmodify (s, true) followed by the reset loop, called a second time with the same clusters and the same outcomes
   of the radius tests, changes no status (the classic driver does this after every mps_msolve) *)
Theorem C02_modify_step_idempotent :
  forall (v : variant) (cls : list cluster) (w : list bool) (sts : list nat),
  clusters_wf (length sts) cls ->
  reset_new (modify_roots v true cls w (reset_new (modify_roots v true cls w sts))) = reset_new (modify_roots v true cls w sts).
Proof. exact modify_step_idempotent. Qed.
Print Assumptions C02_modify_step_idempotent.

(* the refinement loop of mps_improve that ends normally (neither `goto cleanup` with over_max nor the early return)
   leaves every root approximated - provided no root is OUT of the search set *)
Theorem C02_improve_normal_all_approximated :
  forall (nonewton user : bool) (pprec cp0 : Z) (rounds : list (list bool)) (rs : list rt) (io : imp_out),
  improve nonewton user pprec cp0 rounds rs = Some io ->
  Forall (fun r => rinc r <> INC_OUT) rs ->
  io_over io = false -> io_skipped io = false ->
  forallb is_approximated (io_sts io) = true /\ length (io_sts io) = length rs.
Proof. exact improve_normal_all_approximated. Qed.
Print Assumptions C02_improve_normal_all_approximated.

Example C02_improve_two_rounds :
  improve false false 0 64 [[true; false]; [false; true]] [mkRt ST_ISOLATED INC_IN true; mkRt ST_ISOLATED INC_IN true]
  = Some (mkImp [ST_APPROXIMATED; ST_APPROXIMATED] false 2 false).
Proof. reflexivity. Qed.
(* the hypothesis on OUT is needed: approximated_roots counts a root that is OUT at the start AND again when its bits
   test succeeds, so the loop can end while a root IN the set is still only isolated (outside C02's quantifier) *)
Example C02_improve_out_is_counted_twice :
  improve false false 0 64 [[true; false]] [mkRt ST_ISOLATED INC_OUT true; mkRt ST_ISOLATED INC_IN true]
  = Some (mkImp [ST_APPROXIMATED; ST_ISOLATED] false 1 false).
Proof. reflexivity. Qed.
(* the early return: a polynomial type without mnewton (Chebyshev) is not refined at all *)
Example C02_improve_skips_without_mnewton :
  improve true false 0 64 [] [mkRt ST_ISOLATED INC_IN true] = Some (mkImp [ST_ISOLATED] false 0 true).
Proof. reflexivity. Qed.

(* mps_standard_mpsolve, isolate goal: a run that reaches mps_copy_roots without over_max, and not through the silent
   branch, had a last stop test that returned true on roots all computed; the roots it returns are those roots, or
   (exit from the MP loop) those roots after the driver's own mps_mmodify (s, true) + reset; mps_improve is not run *)
Theorem C02_std_isolate :
  forall (cfg : scfg) (evs : list sev) (o : sout) (h : how),
  std_run cfg evs = Some o -> so_exit o = XDone h -> c_goal cfg = GIsolate ->
  so_over_max o = false -> (h <> HSilent \/ c_fixed cfg = true) ->
  Forall (fun r => rinc r = INC_UNKNOWN \/ rinc r = INC_IN -> is_computed (rst r) = true) (so_seen o) /\
  (exists tl, so_stops o = true :: tl) /\ so_improve o = None /\
  (so_lastmod o = None -> so_roots o = so_seen o) /\
  (forall cls w, so_lastmod o = Some (cls, w) ->
     map rst (so_roots o) = reset_new (modify_roots VMp true cls w (map rst (so_seen o))) /\ length (so_roots o) = length (so_seen o)).
Proof. exact std_isolate. Qed.
Print Assumptions C02_std_isolate.

(* ... and when that mps_mmodify has the operands of the one mps_msolve ended with (checked on every real trace), the
   statuses returned are exactly the statuses the last stop test saw *)
Theorem C02_std_isolate_returns_seen :
  forall (cfg : scfg) (evs : list sev) (o : sout) (h : how),
  std_run cfg evs = Some o -> so_exit o = XDone h -> c_goal cfg = GIsolate ->
  so_over_max o = false -> (h <> HSilent \/ c_fixed cfg = true) ->
  (forall cls w, so_lastmod o = Some (cls, w) ->
     clusters_wf (length (so_seen o)) cls /\
     exists s0, length s0 = length (so_seen o) /\ map rst (so_seen o) = reset_new (modify_roots VMp true cls w s0)) ->
  map rst (so_roots o) = map rst (so_seen o) /\
  Forall (fun r => rinc r = INC_UNKNOWN \/ rinc r = INC_IN -> is_computed (rst r) = true) (so_seen o).
Proof. exact std_isolate_returns_seen. Qed.
Print Assumptions C02_std_isolate_returns_seen.

(* approximate goal: without over_max (neither from the MP loop nor from mps_improve) and with no root OUT, every
   returned root is approximated *)
Theorem C02_std_approximate :
  forall (cfg : scfg) (evs : list sev) (o : sout) (h : how),
  std_run cfg evs = Some o -> so_exit o = XDone h -> c_goal cfg = GApproximate ->
  so_over_max o = false -> (h <> HSilent \/ c_fixed cfg = true) ->
  Forall (fun r => rinc r <> INC_OUT) (so_roots o) ->
  Forall (fun r => rinc r = INC_UNKNOWN \/ rinc r = INC_IN -> is_computed (rst r) = true) (so_seen o) /\
  forallb is_approximated (map rst (so_roots o)) = true.
Proof. exact std_approximate. Qed.
Print Assumptions C02_std_approximate.

(* non-vacuity: a float-phase stop (isolate), an MP-loop stop (isolate), an early exit with two refinement rounds (approximate) *)
Definition ex_cfg (g : goal) : scfg := mkScfg g false false false true false 100000000 64 0 false false.
Definition ex_r (s : nat) : rt := mkRt s INC_IN true.
Example C02_std_run_float_stop :
  exists o, std_run (ex_cfg GIsolate) [SvCheckData false false; SvFSolve false [ex_r ST_ISOLATED; ex_r ST_APPROXIMATED]; SvExitSub 2] = Some o /\
            so_exit o = XDone HFloatStop /\ so_over_max o = false /\ so_roots o = [ex_r ST_ISOLATED; ex_r ST_APPROXIMATED].
Proof. eexists; split; [vm_compute; reflexivity|]. simpl; auto. Qed.
Example C02_std_run_loop_stop :
  exists o, std_run (ex_cfg GIsolate)
      [SvCheckData false false; SvFSolve false [ex_r ST_CLUSTERED; ex_r ST_CLUSTERED];
       SvMSolve [ex_r ST_CLUSTERED; ex_r ST_CLUSTERED]; SvMModify [mkCl 2 [0; 1]] [false; false] [(INC_IN, true); (INC_IN, true)];
       SvMSolve [ex_r ST_ISOLATED; ex_r ST_ISOLATED]; SvMModify [mkCl 1 [0]; mkCl 1 [1]] [false; false] [(INC_IN, true); (INC_IN, true)];
       SvExitSub 2] = Some o /\
    so_exit o = XDone HLoopComputed /\ so_over_max o = false /\ so_mpwp o = 448%Z /\ so_stops o = [true; false; false] /\
    map rst (so_roots o) = [ST_ISOLATED; ST_ISOLATED].
Proof. eexists; split; [vm_compute; reflexivity|]. simpl; auto 10. Qed.
Example C02_std_run_approximate :
  exists o, std_run (ex_cfg GApproximate)
      [SvCheckData false false; SvFSolve false [ex_r ST_ISOLATED; ex_r ST_APPROXIMATED]; SvExitSub 2;
       SvImprove 64 [[false; false]; [true; false]]] = Some o /\
    so_exit o = XDone HApproxEarly /\ so_over_max o = false /\ map rst (so_roots o) = [ST_APPROXIMATED; ST_APPROXIMATED].
Proof. eexists; split; [vm_compute; reflexivity|]. simpl; auto. Qed.

(* REFUTED for the code as it was before /repo commit 6608fee8 (c_fixed = false): when mpwp_max falls into a gap of the precision sequence (here 128 <= 150 <= 192) the
   loop `while (!computed && mpwp < mpwp_max)` ends without the branch that sets over_max; == 8 == only logs; the driver
   returns with over_max = false and a CLUSTERED root that is IN.  The witness is re-run on the real solver on every run
   (-W 150): a tree without the repair must reproduce it (a violation of C02), a repaired tree must leave through the same
   branch with over_max reported (next theorem). *)
Theorem C02_std_silent_cap_refuted :
  exists (cfg : scfg) (evs : list sev) (o : sout),
  c_fixed cfg = false /\ c_goal cfg = GIsolate /\ std_run cfg evs = Some o /\
  so_exit o = XDone HSilent /\ so_over_max o = false /\ so_mpwp o = 192%Z /\
  exists r, In r (so_roots o) /\ rst r = ST_CLUSTERED /\ rinc r = INC_IN.
Proof. exact std_silent_cap_refuted. Qed.
Print Assumptions C02_std_silent_cap_refuted.

(* with fixes/C02_silent_precision_cap.patch (over_max recorded in that branch; in /repo since commit 6608fee8, the
   transcription the check now replays the real traces through) it cannot happen *)
Theorem C02_std_fixed_not_silent :
  forall (cfg : scfg) (evs : list sev) (o : sout) (h : how),
  c_fixed cfg = true -> std_run cfg evs = Some o -> so_exit o = XDone h -> so_over_max o = false ->
  so_computed o = true /\
  Forall (fun r => rinc r = INC_UNKNOWN \/ rinc r = INC_IN -> is_computed (rst r) = true) (so_seen o) \/ c_goal cfg = GCount.
Proof. exact std_fixed_not_silent. Qed.
Print Assumptions C02_std_fixed_not_silent.

(* and it cannot happen with the default cap mpwp_max = 100000000 and 64-bit limbs: the sequence 64 (2^k - 1) jumps over it *)
Theorem C02_std_default_cap_not_silent :
  forall (cfg : scfg) (evs : list sev) (o : sout),
  c_mpwp_max cfg = 100000000%Z -> c_minprec cfg = 64%Z -> std_run cfg evs = Some o -> so_exit o <> XDone HSilent.
Proof. exact std_default_cap_not_silent. Qed.
Print Assumptions C02_std_default_cap_not_silent.

(* mps_secular_ga_mpsolve: every exit transcribed (sec_run).  For EVERY event list: the driver passes `cleanup:` and copies
   roots only in crude mode, in avoid-multiprecision mode, or after a stop test that returned true in a phase that is set;
   when mps_improve ran, the statuses returned are those it left *)
Theorem C02_sec_run_cleanup_reasons :
  forall (cfg : gcfg) (evs : list gev) (o : gout),
  sec_run cfg evs = Some o ->
  match go_exit o with
  | GDone w _ | GExitAfterCopy w =>
    match w with
    | WErrors => False
    | WCrude => g_crude cfg = true
    | WAvoidMp => g_avoid_mp cfg = true
    | WStop ex ph sts => sec_check_stop ex ph sts = true /\ ph <> NoPhase
    end
  | _ => True
  end /\
  (forall w io, go_exit o = GDone w (Some io) ->
     exists cp0 rounds, improve (g_nonewton cfg) (g_user cfg) (g_pprec cfg) cp0 rounds (go_from o) = Some io /\
                        go_final o = Some (io_sts io)).
Proof. exact sec_run_cleanup_reasons. Qed.
Print Assumptions C02_sec_run_cleanup_reasons.

(* isolate clause: a normal end that is neither crude nor avoid-multiprecision had a true stop test on statuses all computed
   (unless an exit was requested).  NOT covered: mps_validate_inclusions (finite input precision) runs after that test *)
Theorem C02_sec_run_stop_computed :
  forall (cfg : gcfg) (evs : list gev) (o : gout) (w : gwhy) (imp : option imp_out),
  sec_run cfg evs = Some o -> go_exit o = GDone w imp ->
  match w with
  | WStop ex ph sts => ex = false -> forallb is_computed sts = true
  | WCrude => g_crude cfg = true
  | WAvoidMp => g_avoid_mp cfg = true
  | WErrors => False
  end.
Proof. exact sec_run_stop_computed. Qed.
Print Assumptions C02_sec_run_stop_computed.

(* approximate clause: mps_improve runs last; not skipped, ended normally, no root OUT: all approximated *)
Theorem C02_sec_run_approximate :
  forall (cfg : gcfg) (evs : list gev) (o : gout) (w : gwhy) (io : imp_out),
  sec_run cfg evs = Some o -> go_exit o = GDone w (Some io) ->
  io_over io = false -> io_skipped io = false -> Forall (fun r => rinc r <> INC_OUT) (go_from o) ->
  exists sts, go_final o = Some sts /\ forallb is_approximated sts = true /\ length sts = length (go_from o).
Proof. exact sec_run_approximate. Qed.
Print Assumptions C02_sec_run_approximate.

Example C02_sec_run_loop_stop :
  exists o, sec_run (mkGcfg GIsolate false FloatPhase false false 100000 0 false false)
     [GvStart false; GvFpe false; GvErr false; GvStop false [ST_CLUSTERED; ST_CLUSTERED]; GvRegen true; GvErr false; GvExitReq false;
      GvIter false false; GvExitReq false; GvStop false [ST_CLUSTERED; ST_ISOLATED]; GvExitReq false; GvRegen true; GvExitReq false;
      GvStop false [ST_ISOLATED; ST_ISOLATED]; GvErr false; GvExitReq false] = Some o /\
    go_exit o = GDone (WStop false FloatPhase [ST_ISOLATED; ST_ISOLATED]) None.
Proof. eexists; split; [vm_compute; reflexivity | reflexivity]. Qed.
Example C02_sec_run_avoid_mp_returns_clustered :
  exists o, sec_run (mkGcfg GIsolate false FloatPhase false true 100000 0 false false)
     [GvStart false; GvFpe false; GvErr false; GvStop false [ST_CLUSTERED; ST_CLUSTERED]; GvRegen true; GvErr false; GvExitReq false;
      GvIter false true; GvExitReq false; GvStop false [ST_CLUSTERED; ST_ISOLATED]; GvErr false; GvExitReq false] = Some o /\
    go_exit o = GDone WAvoidMp None.
Proof. eexists; split; [vm_compute; reflexivity | reflexivity]. Qed.

(* REFUTED (replayed on the real solver on every run: Chebyshev input, approximate goal, known finding): the secular driver
   ends normally under the approximate goal, no over_max, with roots that are only ISOLATED: mps_improve returned at once *)
Theorem C02_sec_approximate_without_mnewton_refuted :
  exists (cfg : gcfg) (evs : list gev) (o : gout) (io : imp_out),
  g_goal cfg = GApproximate /\ sec_run cfg evs = Some o /\
  go_exit o = GDone (WStop false FloatPhase [ST_ISOLATED; ST_ISOLATED]) (Some io) /\
  io_over io = false /\ io_skipped io = true /\ go_final o = Some [ST_ISOLATED; ST_ISOLATED] /\
  Forall (fun r => rinc r <> INC_OUT) (go_from o).
Proof. exact sec_approximate_without_mnewton_refuted. Qed.
Print Assumptions C02_sec_approximate_without_mnewton_refuted.


(* status honesty at the level of the control flow: which array calls leave a root "approximated" *)
Theorem C02_modify_roots_in_cluster :
  forall (v : variant) (track : bool) (cls : list cluster) (w : list bool) (sts : list nat) (i : nat),
  clusters_wf (length sts) cls -> i < length sts ->
  nth i (modify_roots v track cls w sts) 0 = ST_APPROXIMATED_IN_CLUSTER ->
  nth i w false = true \/ nth i sts 0 = ST_APPROXIMATED_IN_CLUSTER.
Proof. exact modify_roots_in_cluster. Qed.
Print Assumptions C02_modify_roots_in_cluster.

(* a root mps_improve returns approximated was approximated when it started, or its test get_approximated_bits >= prec
   succeeded in one of the rounds (C02_bits_imply_radius turns that test into the radius bound) *)
Theorem C02_improve_marks_only_tested :
  forall (nonewton user : bool) (pprec cp0 : Z) (rounds : list (list bool)) (rs : list rt) (io : imp_out) (i : nat),
  improve nonewton user pprec cp0 rounds rs = Some io ->
  is_approximated (nth i (io_sts io) 0) = true ->
  is_approximated (nth i (map rst rs) 0) = true \/ exists bits, In bits rounds /\ nth i bits false = true.
Proof. exact improve_marks_only_tested. Qed.
Print Assumptions C02_improve_marks_only_tested.

Example C02_start_prec_64 : start_prec 64 = 64%Z /\ set_prec 64 128 = 192%Z /\ set_prec 64 384 = 448%Z /\ set_prec 64 106 = 128%Z.
Proof. vm_compute; auto. Qed.
