(* C11 -- inline expressions: statements only; proofs are in the MPSV.Inline files. *)
Require Import List Ascii String ZArith NArith QArith Qcanon Lia.
Require Import MPSV.Inline.InlineModel MPSV.Inline.InlineDecl MPSV.Inline.InlineAlgebra
               MPSV.Inline.InlineParse MPSV.Inline.InlineParseMin MPSV.Inline.InlineSound MPSV.Inline.InlineFormal MPSV.Inline.InlineFormalInv
               MPSV.Inline.InlineGrammar MPSV.Inline.Gen.GrammarGen MPSV.Inline.InlineGrammarShape
               MPSV.Inline.InlineLR MPSV.Inline.Gen.AutomatonGen MPSV.Inline.InlineLRCheck
               MPSV.Inline.InlineFormalMul MPSV.Inline.InlineFormalCoeff MPSV.Inline.InlineLRSound MPSV.Inline.InlineLRComplete
               MPSV.Inline.InlineLRAll
               MPSV.Inline.LexModel MPSV.Inline.LexSpec MPSV.Inline.Gen.LexerGen MPSV.Inline.LexPipeline MPSV.Inline.LexPipelineProofs
               MPSV.Inline.LexAgree MPSV.Inline.LexLiteralModel MPSV.Inline.LexLiteral MPSV.Inline.LexLiteralScan.
Require MPSV.PolFile.Chars MPSV.PolFile.DecRatModel.
Import ListNotations.

(* The reference semantics is ordinary algebra over the Gaussian rationals (a commutative ring
   with i*i = -1): evaluating the denoted polynomial equals evaluating the expression, and the
   denoted polynomial is in normal form (no trailing zero coefficient). *)
Theorem C11_denote_is_algebra :
  Cmul Ci Ci = Copp C1 /\
  forall e, normalised (denote e) /\ forall x, eval (denote e) x = eval_expr e x.
Proof. split; [exact Ci_square | intros e; split; [exact (denote_normalised e) | exact (denote_is_algebra e)]]. Qed.
Print Assumptions C11_denote_is_algebra.
Example C11_denote_example :
  option_map denote (match lex "-x^2+4" with Some ts => parse_ref ts | None => None end)
  = Some [CofQ 4 1; C0; Copp C1].
Proof. vm_compute. reflexivity. Qed.

(* mps::formal::Polynomial as coded, linear part: += Monomial (overwrite of a zero entry / merge of equal
   degrees / resize, then trimming of leading zeros), += and -= of polynomials and the action of unary
   minus are evaluation homomorphisms.  (This theorem was called C11_formal_linear_eval_hom while the
   product was missing; the product, the power and the whole action chain are C11_formal_mul_eval_hom and
   C11_actions_denote below.) *)
Theorem C11_formal_linear_eval_hom :
  (forall p m x, p <> [] -> fp_eval (fp_add_mono p m) x = Cadd (fp_eval p x) (Cmul (mc m) (Cpow x (md m)))) /\
  (forall p m, p <> [] -> fp_add_mono p m <> []) /\
  (forall p q x, p <> [] -> fp_ok q -> fp_eval (fp_add p q) x = Cadd (fp_eval p x) (fp_eval q x)) /\
  (forall p q x, p <> [] -> fp_ok q -> fp_eval (fp_sub p q) x = Csub (fp_eval p x) (fp_eval q x)) /\
  (forall p x, fp_ok p -> fp_eval (fp_neg p) x = Copp (fp_eval p x)).
Proof. exact (conj fp_add_mono_eval (conj fp_add_mono_nonempty (conj fp_add_eval (conj fp_sub_eval fp_neg_eval)))). Qed.
Print Assumptions C11_formal_linear_eval_hom.
Example C11_formal_example :   (* x - x is trimmed back to the constant polynomial [0] *)
  fp_coeffs (fp_sub (fp_of_mono (mkM C1 1)) (fp_of_mono (mkM C1 1))) = [C0]
  /\ fp_ok (fp_of_mono (mkM C1 1)).
Proof. split; [vm_compute; reflexivity|]. split; [discriminate|]. intros [|[|i]] Hi Hz; simpl in *; try reflexivity; try discriminate; lia. Qed.

(* operator* as coded in formal-polynomial.cpp -- result = [0]; for every diagonal i = 0..deg+deg' and every
   j = max(0,i-deg)..min(deg',i): result += mMonomials[i-j] * other.mMonomials[j], each addition going
   through `+= Monomial` with its merge / overwrite / resize / trim branches, Monomial::operator* multiplying
   the coefficients and ADDING THE DEGREE FIELDS (stale on zero entries) -- is an evaluation homomorphism on
   polynomials that satisfy the class invariant; so is the '^' action (p = 1; k times p *= base), for
   every k.  At the level of coefficients: the stored vector is the normal form of the Cauchy product. *)
Theorem C11_formal_mul_eval_hom :
  (forall p q x, fp_ok p -> fp_ok q -> fp_eval (fp_mul p q) x = Cmul (fp_eval p x) (fp_eval q x)) /\
  (forall b k x, fp_ok b -> fp_eval (fp_pow b k) x = Cpow (fp_eval b x) k) /\
  (forall p q, fp_ok p -> fp_ok q -> fp_coeffs (fp_mul p q) = stored (strip (pmul (fp_coeffs p) (fp_coeffs q)))).
Proof. exact (conj fp_mul_eval (conj fp_pow_eval fp_mul_coeffs)). Qed.
Print Assumptions C11_formal_mul_eval_hom.
Example C11_formal_mul_example :   (* (x+1)*(x-1): the middle terms cancel through the merge branch; (x-x)*x is trimmed to [0] *)
  fp_coeffs (fp_mul (fp_add (fp_of_mono (mkM C1 1)) (fp_of_mono (mkM C1 0))) (fp_sub (fp_of_mono (mkM C1 1)) (fp_of_mono (mkM C1 0))))
    = [Copp C1; C0; C1] /\
  fp_coeffs (fp_mul (fp_sub (fp_of_mono (mkM C1 1)) (fp_of_mono (mkM C1 1))) (fp_of_mono (mkM C1 1))) = [C0] /\
  fp_ok (fp_add (fp_of_mono (mkM C1 1)) (fp_of_mono (mkM C1 0))).
Proof. split; [vm_compute; reflexivity|]. split; [vm_compute; reflexivity|]. apply (proj1 (fp_add_inv _ _ fp_inv_x)). Qed.

(* Polynomials over the Gaussian rationals are determined by their values (integral domain with infinitely
   many points; factor theorem): equal values everywhere -> equal normal forms. *)
Theorem C11_values_determine_coefficients : forall p q, (forall x, eval p x = eval q x) -> strip p = strip q.
Proof. exact eval_eq_strip_eq. Qed.
Print Assumptions C11_values_determine_coefficients.

(* END TO END for the semantic actions: for EVERY expression the mps::formal::Polynomial built by the grammar
   actions along it (fp_denote: new_with_monomial, sum_eq_p, sub_eq_p, mul_eq, 0 - p, repeated mul_eq) has
   the value of the expression at every point, and the coefficient vector it holds -- what createMonomialPoly
   copies out -- is exactly the polynomial the expression denotes (the zero polynomial being stored as the
   single coefficient 0).  In particular for every token list accepted by the reference parser. *)
Theorem C11_actions_denote :
  (forall e x, fp_eval (fp_denote e) x = eval_expr e x) /\
  (forall e, fp_coeffs (fp_denote e) = stored (denote e)) /\
  (forall ts e, parse_ref ts = Some e -> d_sum ts e /\ fp_coeffs (fp_denote e) = stored (denote e)).
Proof.
  split; [exact fp_denote_eval|]. split; [exact fp_denote_coeffs|].
  intros ts e H. split; [apply parse_ref_sound; exact H | apply fp_denote_coeffs].
Qed.
Print Assumptions C11_actions_denote.
(* the two coefficient lists the extracted driver prints for a string are always related in this way
   (the driver's FPDIFF branch is unreachable) *)
Theorem C11_run_string_consistent : forall s a b, run_string s = Some (a, b) ->
  exists e, a = map coeff_out (denote e) /\ b = map coeff_out (stored (denote e)).
Proof.
  intros s a b H. unfold run_string in H. destruct (lex s); [|discriminate]. destruct (parse_ref l) as [e|]; [|discriminate].
  inversion H; subst. exists e. split; [reflexivity | rewrite fp_denote_coeffs; reflexivity].
Qed.
Print Assumptions C11_run_string_consistent.
Example C11_actions_example :   (* (x+1)^2-(x^2+2*x+1) cancels to zero: denote gives [], the class holds [0] *)
  option_map (fun e => (denote e, fp_coeffs (fp_denote e)))
     (match lex "(x+1)^2-(x^2+2*x+1)" with Some ts => parse_ref ts | None => None end) = Some ([], [C0]).
Proof. vm_compute. reflexivity. Qed.

(* The class invariant of mps::formal::Polynomial -- vector never empty, a non-zero entry carries its index
   as degree, no trailing zero except in the constant polynomial -- is established by `+= Monomial` from
   any non-empty polynomial with consistent degrees, is preserved by +=, -=, operator* (double loop), ^k and
   unary minus, and therefore holds for the polynomial the grammar actions build along ANY expression. *)
Theorem C11_formal_invariant :
  (forall p m, p <> [] -> entries_ok p -> fp_ok (fp_add_mono p m) /\ fp_normal (fp_add_mono p m)) /\
  (forall p q, fp_inv p -> fp_inv (fp_add p q) /\ fp_inv (fp_sub p q)) /\
  (forall p q, fp_inv (fp_mul p q)) /\ (forall b k, fp_inv (fp_pow b k)) /\ (forall p, fp_inv (fp_neg p)) /\
  (forall e, fp_ok (fp_denote e) /\ fp_normal (fp_denote e)).
Proof.
  split; [exact fp_add_mono_inv|]. split; [intros p q H; split; [apply fp_add_inv | apply fp_sub_inv]; exact H|].
  split; [exact fp_mul_inv|]. split; [exact fp_pow_inv|]. split; [exact fp_neg_inv | exact fp_denote_inv].
Qed.
Print Assumptions C11_formal_invariant.
Example C11_formal_invariant_example :   (* (x+1)*(x-1) = x^2-1: the zero entry at index 1 keeps a stale degree field 0, non-zero entries carry their index *)
  map md (fp_mul (fp_add (fp_of_mono (mkM C1 1)) (fp_of_mono (mkM C1 0))) (fp_sub (fp_of_mono (mkM C1 1)) (fp_of_mono (mkM C1 0)))) = [0; 0; 2]%nat.
Proof. vm_compute. reflexivity. Qed.

(* The reference parser inverts the fully parenthesised printer exactly, for every AST. *)
Theorem C11_parse_ref_print_full : forall e, parse_ref (print_full e) = Some e.
Proof. exact parse_ref_print_full. Qed.
Print Assumptions C11_parse_ref_print_full.
(* ... and the minimal-parentheses printer (the one the generator of the correspondence check mostly
   uses), exactly, for every AST: all placements of unary minus, nested and repeated powers, left/right
   nested sums and products. *)
Theorem C11_parse_ref_print_min : forall e, parse_ref (print e) = Some e /\ (forall e', parse_ref (print e) = Some e' -> denote e' = denote e).
Proof. intros e. split; [exact (parse_ref_print_min e) | intros e' H; rewrite parse_ref_print_min in H; inversion H; reflexivity]. Qed.
Print Assumptions C11_parse_ref_print_min.
Example C11_print_minimal_example :
  let e := Sub (Mul (Neg (Pow X 2)) (Add X (Num 3 4 false))) (Neg (Pow (Neg (Num 2 1 true)) 3)) in
  parse_ref (print e) = Some e /\ parse_ref (print_full e) = Some e /\ length (print e) = 19%nat.
Proof. vm_compute. repeat split. Qed.

(* Whatever the reference parser accepts is a well-formed expression of the declarative grammar
   of the property, with that reading; everything else is rejected. *)
Theorem C11_parse_ref_sound : forall ts e, parse_ref ts = Some e -> d_sum ts e.
Proof. exact parse_ref_sound. Qed.
Print Assumptions C11_parse_ref_sound.
Theorem C11_illformed_rejected : forall ts, ~ well_formed ts -> parse_ref ts = None.
Proof. exact illformed_rejected. Qed.
Print Assumptions C11_illformed_rejected.
(* non-vacuity: a dangling operator / open parenthesis at the end, and the empty input *)
Theorem C11_dangling_rejected : forall ts t, closer t = false -> parse_ref (ts ++ [t]) = None.
Proof. exact dangling_rejected. Qed.
Print Assumptions C11_dangling_rejected.
Example C11_illformed_examples :
  parse_ref [] = None /\
  option_map parse_ref (lex "x^1/2-3") = Some None /\ option_map parse_ref (lex "x^2i+1") = Some None /\
  option_map parse_ref (lex "2ii") = Some None /\ lex "x#+1" = None /\ lex "1/0" = None /\
  option_map parse_ref (lex "x^-2") = Some None /\ option_map parse_ref (lex "2x") = Some None.
Proof. vm_compute. repeat split. Qed.

(* The grammar file read from the source tree is the grammar this development is about, and it
   encodes the precedence clause: PLUS/MINUS < TIMES < unary MINUS (%prec) < SUPERSCRIPT, binary
   operators left associative, exponent a bare RATIONAL token. *)
Theorem C11_grammar_shape : grammar_gen = expected_grammar.
Proof. exact grammar_shape. Qed.
Print Assumptions C11_grammar_shape.
Theorem C11_grammar_precedence : grammar_encodes_precedence grammar_gen = true.
Proof. exact gen_precedence. Qed.
Print Assumptions C11_grammar_precedence.

(* The parser bison generates.  [automaton_gen] is bison's own LALR(1) table for the grammar file
   (read from `bison -y --xml` on every run); [lr_run] is the table-driven driver of the yacc skeleton
   with the semantic actions of yacc-parser.y lifted to ASTs.
   For ALL inputs (by computation on the table): bison's rules are the productions of GrammarGen, every
   shift/reduce conflict was resolved as yacc's precedence rule prescribes for the %left/%right/%prec
   table of GrammarGen, and no (state, lookahead) pair was left to bison's defaults. *)
Theorem C11_yacc_table_from_precedence :
  rules_match grammar_gen automaton_gen = true /\
  solved_by_precedence grammar_gen automaton_gen = true /\
  deterministic automaton_gen = true.
Proof. exact table_from_precedence. Qed.
Print Assumptions C11_yacc_table_from_precedence.
(* ALL LENGTHS, soundness direction.  [lr_check] is a boolean check of bison's table alone (shifts and gotos
   enter states of the right kind; every path into a state where a rule is reduced spells its right-hand
   side; Mul/Add/Sub/Neg are reduced only over a tight enough right operand and never when the lookahead
   binds tighter; a polynomial state that shifts '*' ('+','-') accepts products (sums); accept only after
   $end over a lone complete polynomial).  The state annotation is computed from the table.  The theorem
   proved from it (InlineLRSound.lr_sound, generic in the automaton, by an LR-stack typing invariant) says:
   for token lists of ANY length and ANY fuel, if the table-driven parser accepts with AST e then the token
   list is a well-formed expression of the declarative grammar of the property and e is its reading. *)
Theorem C11_yacc_table_checked :
  a_rules automaton_gen = rules0 /\ lr_check automaton_gen (infer_kinds automaton_gen) = true.
Proof. exact (conj gen_rules gen_check). Qed.
Print Assumptions C11_yacc_table_checked.
Theorem C11_yacc_sound_all_lengths : forall f ys e, Forall ytok_ok ys ->
  lr_loop automaton_gen f [] ys = LAccept e -> d_sum (map snd ys) e.
Proof. exact yacc_sound. Qed.
Print Assumptions C11_yacc_sound_all_lengths.
(* the same for any automaton that passes the check with any annotation (what the re-check uses when the
   grammar file is edited and bison produces another table) *)
Theorem C11_lr_check_sound : forall a kinds, a_rules a = rules0 -> lr_check a kinds = true ->
  forall f ys e, Forall ytok_ok ys -> lr_loop a f [] ys = LAccept e -> d_sum (map snd ys) e.
Proof. exact lr_sound. Qed.
Print Assumptions C11_lr_check_sound.

(* ALL LENGTHS, completeness direction (for the imported table, by following the derivation through the states
   that expect an operand; InlineLRComplete): every well-formed expression is accepted with exactly its AST,
   within the fuel of [lr_run].  Hence: the generated parser accepts e  <=>  the declarative grammar derives e;
   it accepts whatever the reference parser accepts, with the same AST; and the declarative grammar of the
   property is unambiguous. *)
Theorem C11_yacc_sound_and_complete : forall ys e, Forall ytok_ok ys ->
  (lr_run automaton_gen ys = LAccept e <-> d_sum (map snd ys) e).
Proof. exact yacc_iff. Qed.
Print Assumptions C11_yacc_sound_and_complete.
Theorem C11_yacc_agrees_ref : forall ys e, Forall ytok_ok ys ->
  parse_ref (map snd ys) = Some e -> lr_run automaton_gen ys = LAccept e.
Proof. exact yacc_agrees_ref_all. Qed.
Print Assumptions C11_yacc_agrees_ref.
Theorem C11_grammar_unambiguous : forall ts e e', d_sum ts e -> d_sum ts e' -> e = e'.
Proof. exact d_sum_unambiguous. Qed.
Print Assumptions C11_grammar_unambiguous.

(* THE PROPERTY for the modelled pipeline as generated (flex token names -> bison's table -> grammar actions on the
   formal-polynomial model -> stored coefficients), strings of any length: a string is accepted IF AND ONLY IF its
   token list is a well-formed expression, and then the coefficients are those of the polynomial it denotes under
   the usual precedence; what is not a well-formed expression (or not even a token sequence) is rejected.  The
   extracted [run_yacc] is run against mps_parse_inline_poly_from_string on every input of the correspondence stage. *)
Theorem C11_pipeline_property :
  (forall s cs, run_yacc automaton_gen s = Some cs -> exists ts e, lex s = Some ts /\ d_sum ts e /\ cs = stored (denote e)) /\
  (forall s ts e, lex s = Some ts -> d_sum ts e -> run_yacc automaton_gen s = Some (stored (denote e))) /\
  (forall s ts, lex s = Some ts -> ~ well_formed ts -> run_yacc automaton_gen s = None) /\
  (forall s, lex s = None -> run_yacc automaton_gen s = None).
Proof. exact (conj run_yacc_property (conj run_yacc_complete (conj run_yacc_rejects_illformed run_yacc_rejects_unlexable))). Qed.
Print Assumptions C11_pipeline_property.
Example C11_pipeline_example :
  run_yacc automaton_gen "-x^2*(x+1.5i) - 3/4" = Some [Copp (CofQ 3 4); C0; Copp (Cmul Ci (CofQ 3 2)); Copp C1] /\
  run_yacc automaton_gen "x^1/2-3" = None /\ run_yacc automaton_gen "2ii" = None /\ run_yacc automaton_gen "x#" = None /\
  run_yacc automaton_gen "x-x" = Some [C0] /\
  option_map (Forall ytok_ok) (ylex "2*x^3+1e2i") = Some (Forall ytok_ok
     [("RATIONAL", TNum 2 1 true); ("TIMES", TTimes); ("MONOMIAL", TX); ("SUPERSCRIPT", TPow); ("RATIONAL", TNum 3 1 true);
      ("PLUS", TPlus); ("FLOATING_POINT", TNum 100 1 false); ("IMAGINARY_UNIT", TI)])%string.
Proof. vm_compute. repeat split. Qed.

(* BOUNDED (kept from the earlier round; now a corollary-by-computation of the two theorems above together with a
   proof that parse_ref is complete, which is NOT formalised: the only direction this adds is "parse_ref rejects =>
   the table rejects" for short lists): on every token list of length <= 6 over one representative of each kind of token the
   lexer can deliver (x, integer literal, rational with '/', decimal, i, + - * ^ ( )) the generated
   parser accepts exactly what the reference parser accepts and builds the same AST.  (1 948 717
   token lists, decided by the kernel's VM.)  For longer inputs "the table accepts e => parse_ref accepts e" is not proved (it
   would follow from completeness of parse_ref for d_sum); both are proved equivalent to d_sum in the directions
   stated above, and the two extracted parsers are compared on every input of the correspondence run. *)
Theorem C11_yacc_agrees_ref_bounded : forall ys : list ytoken,
  (List.length ys <= 6)%nat -> Forall (fun y => In y alphabet) ys ->
  match lr_run automaton_gen ys, parse_ref (map snd ys) with
  | LAccept e, Some e' => expr_eqb e e' = true
  | LReject, None => True
  | _, _ => False
  end.
Proof.
  intros ys H1 H2. pose proof (yacc_agrees_ref_bounded ys H1 H2) as H. unfold agree in H.
  destruct (lr_run automaton_gen ys); destruct (parse_ref (map snd ys)); try discriminate; auto.
Qed.
Print Assumptions C11_yacc_agrees_ref_bounded.
Example C11_yacc_example :
  lr_run automaton_gen [("MINUS", TMinus); ("MONOMIAL", TX); ("SUPERSCRIPT", TPow); ("RATIONAL", TNum 2 1 true);
                        ("TIMES", TTimes); ("LEFT_BRACKET", TLP); ("MONOMIAL", TX); ("PLUS", TPlus);
                        ("FLOATING_POINT", TNum 3 2 false); ("IMAGINARY_UNIT", TI); ("RIGHT_BRACKET", TRP)]%string
  = LAccept (Mul (Neg (Pow X 2)) (Add X (Num 3 2 true))).
Proof. vm_compute. reflexivity. Qed.

(* ==================================================================================================================
   ROUND 6: the scanner is no longer modelled by hand.  The rules section of src/libmps/monomial/tokenizer.l is read
   on every run into Gen/LexerGen.v (patterns as regular expressions over bytes, the token each action returns); a
   generic executable flex model (Brzozowski derivatives, longest match, first rule wins, default rule) gives it its
   meaning, and is proved to compute exactly the declarative semantics of flex. *)

(* Derivative-based matching decides membership in the language of a regular expression. *)
Theorem C11_regex_matcher_correct : forall r s, matchb r s = true <-> matches r s.
Proof. intros r s. apply matchb_spec. Qed.
Print Assumptions C11_regex_matcher_correct.
Example C11_regex_example :   (* the FLOATING_POINT pattern: "12.5e-3" yes, "12.5e-" no, "12." yes *)
  matchb rx_floating (list_ascii_of_string "12.5e-3") = true /\ matchb rx_floating (list_ascii_of_string "12.5e-") = false /\
  matchb rx_floating (list_ascii_of_string "12.") = true /\ matchb rx_rational (list_ascii_of_string "3/4") = true /\
  matchb rx_rational (list_ascii_of_string "3/") = false.
Proof. vm_compute. repeat split. Qed.

(* flex's rule selection, for ANY list of rules and ANY input: [lm] returns (i, n) exactly when n >= 1 is the length of
   the longest prefix matched by any rule and i is the first rule among those matching that prefix; it returns None
   exactly when no rule matches a non-empty prefix. *)
Theorem C11_flex_longest_match_first_rule :
  (forall rs s i n, lm rs s = Some (i, n) <->
     ((1 <= n <= length s)%nat /\ (exists r, nth_error rs i = Some r /\ matches r (firstn n s)) /\
      (forall j, (j < i)%nat -> ~ exists r, nth_error rs j = Some r /\ matches r (firstn n s)) /\
      (forall j m, (n < m <= length s)%nat -> ~ exists r, nth_error rs j = Some r /\ matches r (firstn m s)))) /\
  (forall rs s, lm rs s = None <-> forall j m, (1 <= m <= length s)%nat -> ~ exists r, nth_error rs j = Some r /\ matches r (firstn m s)).
Proof. split; [exact lm_some_iff | exact lm_none_iff]. Qed.
Print Assumptions C11_flex_longest_match_first_rule.
Example C11_flex_choice_example :   (* "12" RATIONAL by the first-rule tie break, "12.5" FLOATING_POINT by the longest match, "12/x": the '/' is left *)
  lm (map fst lexer_gen) (list_ascii_of_string "12+x") = Some (0, 2)%nat /\ lm (map fst lexer_gen) (list_ascii_of_string "12.5+x") = Some (1, 4)%nat /\
  lm (map fst lexer_gen) (list_ascii_of_string "12/x") = Some (0, 2)%nat /\ lm (map fst lexer_gen) (list_ascii_of_string "1e5/3") = Some (1, 3)%nat /\
  lm (map fst lexer_gen) (list_ascii_of_string "1e+x") = Some (0, 1)%nat /\ lm (map fst lexer_gen) [] = None.
Proof. vm_compute. repeat split. Qed.

(* The scanner loop computes exactly the token sequence flex's semantics prescribes (choose, run the action on the lexeme,
   go on behind it); with flex's default rule it is total. *)
Theorem C11_flex_scanner_loop :
  (forall rules s out, tokenize rules s = Some out <-> flex_tokens rules s out) /\
  (forall rules s, exists out, tokenize (with_default rules) s = Some out).
Proof. split; [exact tokenize_iff | exact tokenize_total]. Qed.
Print Assumptions C11_flex_scanner_loop.

Example C11_flex_scanner_example :   (* "2x #": RATIONAL "2", MONOMIAL "x", the blank is skipped, '#' comes back as its own character code *)
  tokenize (with_default lexer_gen) (list_ascii_of_string "2x #") =
    Some [RTok "RATIONAL" true ["2"%char]; RTok "MONOMIAL" true ["x"%char]; RChr "#"%char] /\
  flex_tokens (with_default lexer_gen) (list_ascii_of_string "2x #") [RTok "RATIONAL" true ["2"%char]; RTok "MONOMIAL" true ["x"%char]; RChr "#"%char].
Proof. split; [vm_compute; reflexivity | apply tokenize_iff; vm_compute; reflexivity]. Qed.

(* The rules read from tokenizer.l are the rules the proofs below are about (tokenizer.l with fixes/C11_newline.patch). *)
Theorem C11_lexer_shape : lexer_gen = expected_lexer.
Proof. exact lexer_shape. Qed.
Print Assumptions C11_lexer_shape.

(* THE HAND-WRITTEN SCANNER MODEL AGREES WITH THE GENERATED ONE ON EVERY STRING: the tokens (name and payload) that the
   generated scanner -- flex semantics over the rules of tokenizer.l, default rule included, literal payloads computed from
   the lexeme alone -- hands to the parser are those of InlineLR.ylex, and it rejects (a byte outside the token set, a zero
   denominator) exactly when ylex does.  Proof: the derivative automaton of the generated rules is computed in the kernel
   (11 states, every transition checked for all 256 bytes) and the hand-written scanner is shown to follow it.  Hence the
   two pipelines are the same function and every theorem about [lex] / [ylex] / [run_yacc] above is a theorem about the
   scanner flex generates from tokenizer.l. *)
Theorem C11_generated_lexer_agrees :
  (forall s, glex s = ylex s) /\ (forall s, run_gen automaton_gen s = run_yacc automaton_gen s).
Proof. split; [exact glex_agrees | intro s; unfold run_gen, run_yacc; rewrite glex_agrees; reflexivity]. Qed.
Print Assumptions C11_generated_lexer_agrees.
Example C11_generated_lexer_example :
  glex "2*X^3 +1e2i" = Some [("RATIONAL", TNum 2 1 true); ("TIMES", TTimes); ("MONOMIAL", TX); ("SUPERSCRIPT", TPow); ("RATIONAL", TNum 3 1 true);
                             ("PLUS", TPlus); ("FLOATING_POINT", TNum 100 1 false); ("IMAGINARY_UNIT", TI)]%string /\
  glex "1/0" = None /\ glex "x#" = None /\ raw_tokens_string "1e5/3" <> None.
Proof. vm_compute. repeat split; discriminate. Qed.

(* THE PROPERTY for the pipeline as generated, scanner included (rules of tokenizer.l under flex semantics -> bison's table ->
   grammar actions on the formal-polynomial model -> stored coefficients), strings of any length.  What is still trusted:
   that flex implements its documented semantics (longest match, first rule, default rule) and YY_INPUT feeds it the bytes of
   the string; that the yacc skeleton behaves like InlineLR.lr_loop and bison's XML report describes the compiled tables;
   the readers of tokenizer.l / yacc-parser.y / the XML report (outputs pinned by C11_lexer_shape, C11_grammar_shape,
   C11_yacc_table_checked). *)
Theorem C11_pipeline_generated_lexer :
  (forall s cs, run_gen automaton_gen s = Some cs -> exists ys e, glex s = Some ys /\ d_sum (map snd ys) e /\ cs = stored (denote e)) /\
  (forall s ys e, glex s = Some ys -> d_sum (map snd ys) e -> run_gen automaton_gen s = Some (stored (denote e))) /\
  (forall s ys, glex s = Some ys -> ~ well_formed (map snd ys) -> run_gen automaton_gen s = None) /\
  (forall s, glex s = None -> run_gen automaton_gen s = None).
Proof. exact (conj run_gen_sound (conj run_gen_complete (conj run_gen_rejects_illformed run_gen_rejects_unlexable))). Qed.
Print Assumptions C11_pipeline_generated_lexer.
Example C11_pipeline_generated_example :
  run_gen automaton_gen "-x^2*(Y+1.5i) - 3/4" = Some [Copp (CofQ 3 4); C0; Copp (Cmul Ci (CofQ 3 2)); Copp C1] /\
  run_gen automaton_gen "x^1/2-3" = None /\ run_gen automaton_gen "x#" = None /\ run_gen automaton_gen "1/0+x" = None.
Proof. vm_compute. repeat split. Qed.

(* With the catch-all rule `.|\n` flex's default rule (ECHO to stdout) is unreachable: the scanner never writes to yyout. *)
Theorem C11_scanner_never_echoes : forall s, echoed_with lexer_gen s = [].
Proof.
  intro s. rewrite lexer_shape. unfold echoed_with. destruct (tokenize (with_default expected_lexer) s) as [out|] eqn:E; [|reflexivity].
  pose proof (expected_never_echoes s out E) as H. clear E. induction out as [|t out IH]; [reflexivity|].
  simpl. destruct t; try (apply IH; intros t' Hin; apply (H t'); right; exact Hin).
  exfalso. apply (H text). left. reflexivity.
Qed.
Print Assumptions C11_scanner_never_echoes.
(* REFUTED for tokenizer.l as it is in /repo before fixes/C11_newline.patch (catch-all rule `.`, which does not match a newline):
   a newline -- not a character of the language -- falls through to the default rule, is copied to stdout and skipped, and the
   string is accepted.  The witness is replayed on the real code by the check (known finding illformed-accepted:stray-newline). *)
Theorem C11_newline_rejected_refuted :
  exists s, In "010"%char s /\ echoed_with unfixed_lexer s = ["010"%char] /\
            glex_with unfixed_lexer s = Some [("MONOMIAL", TX); ("PLUS", TPlus); ("RATIONAL", TNum 1 1 true)]%string.
Proof. exists ["x"; "010"; "+"; "1"]%char. vm_compute. repeat split. right; left; reflexivity. Qed.
Print Assumptions C11_newline_rejected_refuted.

(* NUMERIC LITERALS.  [monomial_coeff] is Monomial::Monomial (const char *, long) of formal-monomial.cpp as coded --
   mps_utils_build_equivalent_rational_string (sign scan, truncation scan, copy loop with the "/10..0" denominator, leading-zero
   stripping, exponent insertion), mpq_class::set_str (.., 10), canonicalize () -- in the character-level model written for C10
   (PolFile/DecRatModel.v).  For every text the hand model reads as ONE literal (digits; digits '/' digits with a non-zero
   denominator; digits ['.' digits*] [e|E [+|-] digits]) the payload (n, d) of the token is the value of the text -- the rational
   N/D as written, resp. the decimal value (-1)^0 * int.frac * 10^exp of the literal ([text_value]) -- and the C conversion
   stores exactly that rational. *)
Theorem C11_literal_value : forall p n d b,
  (exists c p', p = c :: p' /\ is_digit c = true) -> lex_number p = Some (TNum n d b, []) ->
  monomial_coeff p = Some (Qred (Z.of_N n # d)) /\ text_value p (Qred (Z.of_N n # d)).
Proof. exact literal_value. Qed.
Print Assumptions C11_literal_value.
Example C11_literal_examples :   (* decimal with exponent; leading zeros in a denominator are decimal, not octal; zero denominators refused *)
  monomial_coeff (list_ascii_of_string "2.50E-2") = Some (1 # 40)%Q /\ monomial_coeff (list_ascii_of_string "3/010") = Some (3 # 10)%Q /\
  monomial_coeff (list_ascii_of_string "1/0") = None /\ monomial_coeff (list_ascii_of_string "0007e2") = Some (700 # 1)%Q /\
  lex_number (list_ascii_of_string "2.50E-2") = Some (TNum 250 10000 false, []).
Proof. vm_compute. repeat split. Qed.

(* ... and these are ALL the literals there are: every RATIONAL / FLOATING_POINT token that the scanner generated from tokenizer.l
   hands to the parser (on any input) has a lexeme of that form, so its payload is the value of its text and what the grammar
   action stores.  (A RATIONAL lexeme with a zero denominator never reaches the parser model: conv_token fails, as the action
   of `real_number: RATIONAL` calls yyerror and YYABORTs; [C11_zero_denominator_test] is the equivalence of the two tests.) *)
Theorem C11_scanner_literal_values : forall l rts, tokenize (with_default lexer_gen) l = Some rts ->
  forall nm k text t, In (RTok nm k text) rts -> (nm = "RATIONAL" \/ nm = "FLOATING_POINT")%string ->
  conv_token (RTok nm k text) = Some (Some (nm, t)) ->
  exists n d b, t = TNum n d b /\ monomial_coeff text = Some (Qred (Z.of_N n # d)) /\ text_value text (Qred (Z.of_N n # d)).
Proof. rewrite lexer_shape. exact scanner_literal_values. Qed.
Print Assumptions C11_scanner_literal_values.
Example C11_scanner_literal_example :   (* the FLOATING_POINT token of "x+12.50e-1i": payload 1250/1000 = 5/4 = value of the text = what the action stores *)
  raw_tokens_string "x+12.50e-1i" = Some [RTok "MONOMIAL" true ["x"%char]; RTok "PLUS" false ["+"%char];
                                           RTok "FLOATING_POINT" true (list_ascii_of_string "12.50e-1"); RTok "IMAGINARY_UNIT" false ["i"%char]] /\
  conv_token (RTok "FLOATING_POINT" true (list_ascii_of_string "12.50e-1")) = Some (Some ("FLOATING_POINT"%string, TNum 1250 1000 false)) /\
  monomial_coeff (list_ascii_of_string "12.50e-1") = Some (5 # 4)%Q.
Proof. vm_compute. repeat split. Qed.
Theorem C11_zero_denominator_test : forall d2, MPSV.PolFile.DecRatModel.all_digits d2 ->
  (MPSV.PolFile.Chars.digits_val d2 = 0%N <-> forallb (fun c => Ascii.eqb c "0"%char) d2 = true).
Proof. exact zero_denominator_iff. Qed.
Print Assumptions C11_zero_denominator_test.
