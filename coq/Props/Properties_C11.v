(* C11 -- inline expressions: statements only; proofs are in the MPSV.Inline files. *)
Require Import List String ZArith NArith QArith Qcanon Lia.
Require Import MPSV.Inline.InlineModel MPSV.Inline.InlineDecl MPSV.Inline.InlineAlgebra
               MPSV.Inline.InlineParse MPSV.Inline.InlineSound MPSV.Inline.InlineFormal
               MPSV.Inline.InlineGrammar MPSV.Inline.Gen.GrammarGen MPSV.Inline.InlineGrammarShape.
Import ListNotations.

(* The reference semantics is ordinary algebra over the Gaussian rationals (a commutative ring
   with i*i = -1): evaluating the denoted polynomial equals evaluating the expression, and the
   denoted polynomial is in normal form (no trailing zero coefficient). *)
Theorem C11_denote_is_algebra :
  Cmul Ci Ci = Copp C1 /\
  forall e, normalised (denote e) /\ forall x, eval (denote e) x = eval_expr e x.
Proof. split; [exact Ci_square | intros e; split; [exact (denote_normalised e) | exact (denote_is_algebra e)]]. Qed.
Print Assumptions C11_denote_is_algebra.
Example C11_denote_example :
  option_map denote (match lex "-x^2+4" with Some ts => parse_ref ts | None => None end)
  = Some [CofQ 4 1; C0; Copp C1].
Proof. vm_compute. reflexivity. Qed.

(* mps::formal::Polynomial as coded.  PARTIAL: the linear operations (+= Monomial with overwrite /
   add / resize and trimming, += and -= of polynomials, the action of unary minus) are evaluation
   homomorphisms.  Missing: the same for operator* (double loop, [fp_mul]) and preservation of the
   normal form [fp_normal]; both are exercised, not proved: the extracted driver compares
   [fp_denote] with [denote] on every input of the correspondence run (output FPDIFF otherwise). *)
Theorem C11_formal_ring_hom_partial :
  (forall p m x, p <> [] -> fp_eval (fp_add_mono p m) x = Cadd (fp_eval p x) (Cmul (mc m) (Cpow x (md m)))) /\
  (forall p m, p <> [] -> fp_add_mono p m <> []) /\
  (forall p q x, p <> [] -> fp_ok q -> fp_eval (fp_add p q) x = Cadd (fp_eval p x) (fp_eval q x)) /\
  (forall p q x, p <> [] -> fp_ok q -> fp_eval (fp_sub p q) x = Csub (fp_eval p x) (fp_eval q x)) /\
  (forall p x, fp_ok p -> fp_eval (fp_neg p) x = Copp (fp_eval p x)).
Proof. exact (conj fp_add_mono_eval (conj fp_add_mono_nonempty (conj fp_add_eval (conj fp_sub_eval fp_neg_eval)))). Qed.
Print Assumptions C11_formal_ring_hom_partial.
Example C11_formal_example :   (* x - x is trimmed back to the constant polynomial [0] *)
  fp_coeffs (fp_sub (fp_of_mono (mkM C1 1)) (fp_of_mono (mkM C1 1))) = [C0]
  /\ fp_ok (fp_of_mono (mkM C1 1)).
Proof. split; [vm_compute; reflexivity|]. split; [discriminate|]. intros [|[|i]] Hi Hz; simpl in *; try reflexivity; try discriminate; lia. Qed.

(* The reference parser inverts the fully parenthesised printer exactly, for every AST. *)
Theorem C11_parse_ref_print_full : forall e, parse_ref (print_full e) = Some e.
Proof. exact parse_ref_print_full. Qed.
Print Assumptions C11_parse_ref_print_full.
(* minimal parentheses: no general theorem (covered by the exhaustive depth-3 + random differential);
   instances only *)
Example C11_print_minimal_example :
  let e := Sub (Mul (Neg (Pow X 2)) (Add X (Num 3 4 false))) (Neg (Pow (Neg (Num 2 1 true)) 3)) in
  parse_ref (print e) = Some e /\ parse_ref (print_full e) = Some e /\ length (print e) = 19%nat.
Proof. vm_compute. repeat split. Qed.

(* Whatever the reference parser accepts is a well-formed expression of the declarative grammar
   of the property, with that reading; everything else is rejected. *)
Theorem C11_parse_ref_sound : forall ts e, parse_ref ts = Some e -> d_sum ts e.
Proof. exact parse_ref_sound. Qed.
Print Assumptions C11_parse_ref_sound.
Theorem C11_illformed_rejected : forall ts, ~ well_formed ts -> parse_ref ts = None.
Proof. exact illformed_rejected. Qed.
Print Assumptions C11_illformed_rejected.
(* non-vacuity: a dangling operator / open parenthesis at the end, and the empty input *)
Theorem C11_dangling_rejected : forall ts t, closer t = false -> parse_ref (ts ++ [t]) = None.
Proof. exact dangling_rejected. Qed.
Print Assumptions C11_dangling_rejected.
Example C11_illformed_examples :
  parse_ref [] = None /\
  option_map parse_ref (lex "x^1/2-3") = Some None /\ option_map parse_ref (lex "x^2i+1") = Some None /\
  option_map parse_ref (lex "2ii") = Some None /\ lex "x#+1" = None /\ lex "1/0" = None /\
  option_map parse_ref (lex "x^-2") = Some None /\ option_map parse_ref (lex "2x") = Some None.
Proof. vm_compute. repeat split. Qed.

(* The grammar file read from the source tree is the grammar this development is about, and it
   encodes the precedence clause: PLUS/MINUS < TIMES < unary MINUS (%prec) < SUPERSCRIPT, binary
   operators left associative, exponent a bare RATIONAL token. *)
Theorem C11_grammar_shape : grammar_gen = expected_grammar.
Proof. exact grammar_shape. Qed.
Print Assumptions C11_grammar_shape.
Theorem C11_grammar_precedence : grammar_encodes_precedence grammar_gen = true.
Proof. exact gen_precedence. Qed.
Print Assumptions C11_grammar_precedence.
