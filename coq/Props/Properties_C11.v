(* C11 -- inline expressions: statements only; proofs are in the MPSV.Inline files. *)
Require Import List String ZArith NArith QArith Qcanon Lia.
Require Import MPSV.Inline.InlineModel MPSV.Inline.InlineDecl MPSV.Inline.InlineAlgebra
               MPSV.Inline.InlineParse MPSV.Inline.InlineParseMin MPSV.Inline.InlineSound MPSV.Inline.InlineFormal MPSV.Inline.InlineFormalInv
               MPSV.Inline.InlineGrammar MPSV.Inline.Gen.GrammarGen MPSV.Inline.InlineGrammarShape
               MPSV.Inline.InlineLR MPSV.Inline.Gen.AutomatonGen MPSV.Inline.InlineLRCheck.
Import ListNotations.

(* The reference semantics is ordinary algebra over the Gaussian rationals (a commutative ring
   with i*i = -1): evaluating the denoted polynomial equals evaluating the expression, and the
   denoted polynomial is in normal form (no trailing zero coefficient). *)
Theorem C11_denote_is_algebra :
  Cmul Ci Ci = Copp C1 /\
  forall e, normalised (denote e) /\ forall x, eval (denote e) x = eval_expr e x.
Proof. split; [exact Ci_square | intros e; split; [exact (denote_normalised e) | exact (denote_is_algebra e)]]. Qed.
Print Assumptions C11_denote_is_algebra.
Example C11_denote_example :
  option_map denote (match lex "-x^2+4" with Some ts => parse_ref ts | None => None end)
  = Some [CofQ 4 1; C0; Copp C1].
Proof. vm_compute. reflexivity. Qed.

(* mps::formal::Polynomial as coded, evaluation part.  PARTIAL: the linear operations (+= Monomial with
   overwrite / add / resize and trimming, += and -= of polynomials, the action of unary minus) are
   evaluation homomorphisms.  Still missing: the same for operator* (double loop, [fp_mul]) and hence
   for ^k; this is exercised, not proved: the extracted driver compares [fp_denote] with [denote] on
   every input of the correspondence run (output FPDIFF otherwise).  The normal form and the class
   invariant ARE proved for all operations including * and ^k: see C11_formal_invariant below. *)
Theorem C11_formal_ring_hom_partial :
  (forall p m x, p <> [] -> fp_eval (fp_add_mono p m) x = Cadd (fp_eval p x) (Cmul (mc m) (Cpow x (md m)))) /\
  (forall p m, p <> [] -> fp_add_mono p m <> []) /\
  (forall p q x, p <> [] -> fp_ok q -> fp_eval (fp_add p q) x = Cadd (fp_eval p x) (fp_eval q x)) /\
  (forall p q x, p <> [] -> fp_ok q -> fp_eval (fp_sub p q) x = Csub (fp_eval p x) (fp_eval q x)) /\
  (forall p x, fp_ok p -> fp_eval (fp_neg p) x = Copp (fp_eval p x)).
Proof. exact (conj fp_add_mono_eval (conj fp_add_mono_nonempty (conj fp_add_eval (conj fp_sub_eval fp_neg_eval)))). Qed.
Print Assumptions C11_formal_ring_hom_partial.
Example C11_formal_example :   (* x - x is trimmed back to the constant polynomial [0] *)
  fp_coeffs (fp_sub (fp_of_mono (mkM C1 1)) (fp_of_mono (mkM C1 1))) = [C0]
  /\ fp_ok (fp_of_mono (mkM C1 1)).
Proof. split; [vm_compute; reflexivity|]. split; [discriminate|]. intros [|[|i]] Hi Hz; simpl in *; try reflexivity; try discriminate; lia. Qed.

(* The class invariant of mps::formal::Polynomial -- vector never empty, a non-zero entry carries its index
   as degree, no trailing zero except in the constant polynomial -- is established by `+= Monomial` from
   any non-empty polynomial with consistent degrees, is preserved by +=, -=, operator* (double loop), ^k and
   unary minus, and therefore holds for the polynomial the grammar actions build along ANY expression. *)
Theorem C11_formal_invariant :
  (forall p m, p <> [] -> entries_ok p -> fp_ok (fp_add_mono p m) /\ fp_normal (fp_add_mono p m)) /\
  (forall p q, fp_inv p -> fp_inv (fp_add p q) /\ fp_inv (fp_sub p q)) /\
  (forall p q, fp_inv (fp_mul p q)) /\ (forall b k, fp_inv (fp_pow b k)) /\ (forall p, fp_inv (fp_neg p)) /\
  (forall e, fp_ok (fp_denote e) /\ fp_normal (fp_denote e)).
Proof.
  split; [exact fp_add_mono_inv|]. split; [intros p q H; split; [apply fp_add_inv | apply fp_sub_inv]; exact H|].
  split; [exact fp_mul_inv|]. split; [exact fp_pow_inv|]. split; [exact fp_neg_inv | exact fp_denote_inv].
Qed.
Print Assumptions C11_formal_invariant.
Example C11_formal_invariant_example :   (* (x+1)*(x-1) = x^2-1: the zero entry at index 1 keeps a stale degree field 0, non-zero entries carry their index *)
  map md (fp_mul (fp_add (fp_of_mono (mkM C1 1)) (fp_of_mono (mkM C1 0))) (fp_sub (fp_of_mono (mkM C1 1)) (fp_of_mono (mkM C1 0)))) = [0; 0; 2]%nat.
Proof. vm_compute. reflexivity. Qed.

(* The reference parser inverts the fully parenthesised printer exactly, for every AST. *)
Theorem C11_parse_ref_print_full : forall e, parse_ref (print_full e) = Some e.
Proof. exact parse_ref_print_full. Qed.
Print Assumptions C11_parse_ref_print_full.
(* ... and the minimal-parentheses printer (the one the generator of the correspondence check mostly
   uses), exactly, for every AST: all placements of unary minus, nested and repeated powers, left/right
   nested sums and products. *)
Theorem C11_parse_ref_print_min : forall e, parse_ref (print e) = Some e /\ (forall e', parse_ref (print e) = Some e' -> denote e' = denote e).
Proof. intros e. split; [exact (parse_ref_print_min e) | intros e' H; rewrite parse_ref_print_min in H; inversion H; reflexivity]. Qed.
Print Assumptions C11_parse_ref_print_min.
Example C11_print_minimal_example :
  let e := Sub (Mul (Neg (Pow X 2)) (Add X (Num 3 4 false))) (Neg (Pow (Neg (Num 2 1 true)) 3)) in
  parse_ref (print e) = Some e /\ parse_ref (print_full e) = Some e /\ length (print e) = 19%nat.
Proof. vm_compute. repeat split. Qed.

(* Whatever the reference parser accepts is a well-formed expression of the declarative grammar
   of the property, with that reading; everything else is rejected. *)
Theorem C11_parse_ref_sound : forall ts e, parse_ref ts = Some e -> d_sum ts e.
Proof. exact parse_ref_sound. Qed.
Print Assumptions C11_parse_ref_sound.
Theorem C11_illformed_rejected : forall ts, ~ well_formed ts -> parse_ref ts = None.
Proof. exact illformed_rejected. Qed.
Print Assumptions C11_illformed_rejected.
(* non-vacuity: a dangling operator / open parenthesis at the end, and the empty input *)
Theorem C11_dangling_rejected : forall ts t, closer t = false -> parse_ref (ts ++ [t]) = None.
Proof. exact dangling_rejected. Qed.
Print Assumptions C11_dangling_rejected.
Example C11_illformed_examples :
  parse_ref [] = None /\
  option_map parse_ref (lex "x^1/2-3") = Some None /\ option_map parse_ref (lex "x^2i+1") = Some None /\
  option_map parse_ref (lex "2ii") = Some None /\ lex "x#+1" = None /\ lex "1/0" = None /\
  option_map parse_ref (lex "x^-2") = Some None /\ option_map parse_ref (lex "2x") = Some None.
Proof. vm_compute. repeat split. Qed.

(* The grammar file read from the source tree is the grammar this development is about, and it
   encodes the precedence clause: PLUS/MINUS < TIMES < unary MINUS (%prec) < SUPERSCRIPT, binary
   operators left associative, exponent a bare RATIONAL token. *)
Theorem C11_grammar_shape : grammar_gen = expected_grammar.
Proof. exact grammar_shape. Qed.
Print Assumptions C11_grammar_shape.
Theorem C11_grammar_precedence : grammar_encodes_precedence grammar_gen = true.
Proof. exact gen_precedence. Qed.
Print Assumptions C11_grammar_precedence.

(* The parser bison generates.  [automaton_gen] is bison's own LALR(1) table for the grammar file
   (read from `bison -y --xml` on every run); [lr_run] is the table-driven driver of the yacc skeleton
   with the semantic actions of yacc-parser.y lifted to ASTs.
   For ALL inputs (by computation on the table): bison's rules are the productions of GrammarGen, every
   shift/reduce conflict was resolved as yacc's precedence rule prescribes for the %left/%right/%prec
   table of GrammarGen, and no (state, lookahead) pair was left to bison's defaults. *)
Theorem C11_yacc_table_from_precedence :
  rules_match grammar_gen automaton_gen = true /\
  solved_by_precedence grammar_gen automaton_gen = true /\
  deterministic automaton_gen = true.
Proof. exact table_from_precedence. Qed.
Print Assumptions C11_yacc_table_from_precedence.
(* BOUNDED: on every token list of length <= 6 over one representative of each kind of token the
   lexer can deliver (x, integer literal, rational with '/', decimal, i, + - * ^ ( )) the generated
   parser accepts exactly what the reference parser accepts and builds the same AST.  (1 948 717
   token lists, decided by the kernel's VM.)  Longer inputs: differential testing only. *)
Theorem C11_yacc_agrees_ref_bounded : forall ys : list ytoken,
  (List.length ys <= 6)%nat -> Forall (fun y => In y alphabet) ys ->
  match lr_run automaton_gen ys, parse_ref (map snd ys) with
  | LAccept e, Some e' => expr_eqb e e' = true
  | LReject, None => True
  | _, _ => False
  end.
Proof.
  intros ys H1 H2. pose proof (yacc_agrees_ref_bounded ys H1 H2) as H. unfold agree in H.
  destruct (lr_run automaton_gen ys); destruct (parse_ref (map snd ys)); try discriminate; auto.
Qed.
Print Assumptions C11_yacc_agrees_ref_bounded.
Example C11_yacc_example :
  lr_run automaton_gen [("MINUS", TMinus); ("MONOMIAL", TX); ("SUPERSCRIPT", TPow); ("RATIONAL", TNum 2 1 true);
                        ("TIMES", TTimes); ("LEFT_BRACKET", TLP); ("MONOMIAL", TX); ("PLUS", TPlus);
                        ("FLOATING_POINT", TNum 3 2 false); ("IMAGINARY_UNIT", TI); ("RIGHT_BRACKET", TRP)]%string
  = LAccept (Mul (Neg (Pow X 2)) (Add X (Num 3 2 true))).
Proof. vm_compute. reflexivity. Qed.
