(* C08 - search set, counting and root-attribute classification is sound.
   Statements only; models in Incl/InclModel.v (classification) and Incl/TouchModel.v (the touch tests in binary64 / DPE /
   truncated multiprecision arithmetic, run against the real functions on every check), proofs in Incl/InclGeom.v,
   Incl/InclProps.v, Incl/TouchProps.v (axis tests, f and d), Incl/TouchMp.v (mpf_get_rdpe, multiprecision axis tests),
   Incl/TouchUnitReal.v + Incl/TouchUnitD.v / Incl/TouchUnitF.v (unit-circle test, DPE / binary64 incl. cplx_mod; shipped and
   repaired), Incl/InclPhase.v (one root through mps_{f,d}update_inclusions, from the stored numbers to geometry). *)
From Coq Require Import ZArith Reals Lra Lia List Bool Arith.
From Flocq Require Import Core BinarySingleNaN.
Require Import MPSV.Dpe.DpeDefs MPSV.Dpe.DpeModel.
Require Import MPSV.Incl.InclModel MPSV.Incl.InclGeom MPSV.Incl.InclProps MPSV.Incl.TouchModel MPSV.Incl.TouchExch MPSV.Incl.TouchProps.
Require Import MPSV.Incl.TouchMp MPSV.Incl.TouchUnitReal MPSV.Incl.TouchUnitD MPSV.Incl.TouchUnitF MPSV.Incl.InclPhase.
Import ListNotations.
Local Open Scope R_scope.

(* --- the exact touch predicates: "nf * r < distance of the centre to the boundary" puts the whole disc
       strictly on the side of the centre *)
Theorem C08_touch_axis_sound : forall c r nf v : R,
  1 <= nf -> 0 <= r -> nf * r < Rabs c -> Rabs (v - c) <= r ->
  (0 < c -> 0 < v) /\ (c < 0 -> v < 0) /\ c <> 0.
Proof. exact touch_axis_sound. Qed.
Print Assumptions C08_touch_axis_sound.

Example C08_touch_axis_nonvacuous :
  1 <= 4 /\ 0 <= / 16 /\ 4 * / 16 < Rabs (- / 2) /\ Rabs (- 9 / 16 - - / 2) <= / 16.
Proof. repeat split; try lra; unfold Rabs; repeat destruct (Rcase_abs _); lra. Qed.

Theorem C08_touch_unit_sound : forall zr zi r nf x y : R,
  1 <= nf -> 0 <= r -> in_disc zr zi r x y ->
  ((nf * r + 1) * (nf * r + 1) < zr * zr + zi * zi -> 1 < x * x + y * y) /\
  (nf * r < 1 -> zr * zr + zi * zi < (1 - nf * r) * (1 - nf * r) -> x * x + y * y < 1).
Proof.
  intros zr zi r nf x y Hnf Hr Hd. split; intros.
  - eapply touch_unit_out_sound; eauto.
  - eapply touch_unit_in_sound; eauto.
Qed.
Print Assumptions C08_touch_unit_sound.

Example C08_touch_unit_nonvacuous :
  in_disc 2 0 (/ 8) (15 / 8) 0 /\ (4 * / 8 + 1) * (4 * / 8 + 1) < 2 * 2 + 0 * 0 /\
  in_disc (/ 2) 0 (/ 16) (9 / 16) 0 /\ 4 * / 16 < 1 /\ / 2 * / 2 + 0 * 0 < (1 - 4 * / 16) * (1 - 4 * / 16).
Proof. unfold in_disc. repeat split; lra. Qed.

(* --- the model of mps_{f,d,m}update_inclusions on one cluster: whatever the outcomes of the coded tests, as
       long as they are justified by exact geometry (obs_sound), a root (any point (x, y)) of a member's disc that
       comes out IN lies strictly inside the set, one that comes out OUT strictly outside - for all eight sets
       (and the whole plane).  For the two line sets the IN verdict needs the reality witness of member_ok, which
       C08_real_flag_sound provides for real input, and C08_sep_branch_partial under the root-bound hypothesis. *)
Theorem C08_inclusion_sound : forall st rs nf (c : list member), 1 <= nf ->
  Forall (member_ok st rs nf (length c)) c ->
  Forall2 (fun m s => forall x y, in_disc (m_zr m) (m_zi m) (m_r m) x y ->
                      (fst s = IN -> in_set st x y) /\ (fst s = OUT -> out_set st x y))
          c (update_cluster st rs (map proj c)).
Proof. exact update_cluster_sound. Qed.
Print Assumptions C08_inclusion_sound.

Definition ex_obs_in : obs := mkObs false true true true true true true true false false true false true false.
Definition ex_member : member := mkMember (/ 2) 0 (/ 16) ex_obs_in (UNKNOWN, A_NONE).

Example C08_inclusion_nonvacuous :
  Forall (member_ok S_UNIT false 4 1) [ex_member] /\
  update_cluster S_UNIT false (map proj [ex_member]) = [(IN, A_NONE)].
Proof.
  split; [|reflexivity]. constructor; [|constructor].
  unfold member_ok, ex_member; simpl. split; [lra|]. split.
  - constructor; simpl; intros; try discriminate; try lra.
  - intros x y Hd. split; [split; simpl; intro; discriminate|]. split; intros H1 H2; simpl in *; discriminate.
Qed.

Theorem C08_cluster_all_or_nothing : forall st rs c,
  (forall s, In s (update_cluster st rs c) -> fst s = UNKNOWN) \/
  (forall s, In s (update_cluster st rs c) -> fst s <> UNKNOWN).
Proof. exact update_cluster_all_or_nothing. Qed.
Print Assumptions C08_cluster_all_or_nothing.

(* --- the IMAG branch as shipped (else attached to the radius test): a disc that touches the imaginary axis,
       is isolated, contains the purely imaginary point i, but is not yet below the separation bound is
       classified OUT.  Replayed on the real code by the check (x^2+1 and (x^2+1)(x-2) with -S I). *)
Theorem C08_imag_branch_as_shipped_refuted :
  exists (o : obs) (zr zi r x y : R),
    obs_sound 4 zr zi r o /\ 0 <= r /\ in_disc zr zi r x y /\ x = 0 /\
    fst (classify_imag_as_shipped 1 o A_NONE) = OUT.
Proof.
  exists (mkObs true true false false true false true false true false true false true false), (/ 1024), 1, (/ 16), 0, 1.
  split; [|unfold in_disc; repeat split; try reflexivity; try lra].
  constructor; simpl; intros; try discriminate; try lra;
    unfold Rabs; destruct (Rcase_abs _); lra.
Qed.
Print Assumptions C08_imag_branch_as_shipped_refuted.

(* --- mps_countroots and the filter of mps_output *)
Theorem C08_count_sums_to_degree : forall st zero_roots (l : list inclusion),
  (let '(c0, c1, c2) := countroots st zero_roots l in
   c0 + c1 + c2 = length l + zero_roots /\
   c2 = count_incl UNKNOWN l /\
   (is_compl st = true -> c0 = count_incl IN l /\ c1 = count_incl OUT l + zero_roots) /\
   (is_compl st = false -> c0 = count_incl IN l + zero_roots /\ c1 = count_incl OUT l))%nat.
Proof.
  intros st zr l. pose proof (countroots_sum st zr l) as H1. pose proof (countroots_zero_roots st zr l) as H2.
  destruct (countroots st zr l) as [[c0 c1] c2]. tauto.
Qed.
Print Assumptions C08_count_sums_to_degree.

Theorem C08_listing_omits_exactly_out : forall st zero_roots incl order,
  (forall i, In (Some i) (listing st zero_roots incl order) <-> In i order /\ incl i <> OUT) /\
  (length (listing st zero_roots incl order) + count_incl OUT (map incl order)
   = (if is_compl st then 0 else zero_roots) + length order)%nat.
Proof. intros. split; [intro; apply listing_omits_exactly_out | apply listing_length]. Qed.
Print Assumptions C08_listing_omits_exactly_out.

Example C08_count_listing_nonvacuous :
  countroots S_UNIT_COMPL 2 [IN; OUT; UNKNOWN; OUT] = (1, 4, 1)%nat /\
  countroots S_POS_RE 2 [IN; OUT; UNKNOWN; OUT] = (3, 2, 1)%nat /\
  listing S_POS_RE 1 (fun i => nth i [IN; OUT; UNKNOWN; OUT] UNKNOWN) [2; 0; 3; 1]%nat = [None; Some 2; Some 0]%nat /\
  listing S_UNIT_COMPL 1 (fun i => nth i [IN; OUT; UNKNOWN; OUT] UNKNOWN) [2; 0; 3; 1]%nat = [Some 2; Some 0]%nat.
Proof. repeat split. Qed.

(* --- reality of a flagged root: real coefficients (Horner evaluation ceval of a list of reals at x + iy), the
       disc contains the root, touches the real axis with factor f (|Im z| <= f r: f = 1 in the search-set branch,
       f = n in mps_cluster_detect_properties) and the root is the only root in D(z, (1 + 2f) r): then it is real.
       NB: uniqueness in D(z, r) alone is NOT enough (x^2 + 1, z = 2i/3, r = 1/3 contains only the root i and
       touches the axis with factor 2); Newton isolation of the cluster analysis gives uniqueness in D(z, 2n r),
       which covers f = 1 (3r <= 2n r for n >= 2) but not f = n ((2n + 1) r > 2n r). *)
Theorem C08_real_flag_sound : forall (p : list R) zr zi r f x y,
  0 <= r -> 0 <= f -> Rabs zi <= f * r ->
  is_root p x y -> in_disc zr zi r x y ->
  (forall x' y', is_root p x' y' -> in_disc zr zi ((1 + 2 * f) * r) x' y' -> x' = x /\ y' = y) ->
  y = 0.
Proof. exact real_flag_sound. Qed.
Print Assumptions C08_real_flag_sound.

(* x^2 - 4 = [-4; 0; 1]: root 2 in D(2 + i/32, 1/16), which meets the real axis; -2 is far away *)
Example C08_real_flag_nonvacuous :
  is_root [-4; 0; 1] 2 0 /\ in_disc 2 (/ 32) (/ 16) 2 0 /\ Rabs (/ 32) <= 1 * / 16 /\
  (forall x' y', is_root [-4; 0; 1] x' y' -> in_disc 2 (/ 32) ((1 + 2 * 1) * / 16) x' y' -> x' = 2 /\ y' = 0).
Proof.
  unfold is_root, in_disc; simpl. repeat split.
  - f_equal; ring.
  - lra.
  - unfold Rabs; destruct (Rcase_abs _); lra.
  - injection H as H1 H2. nra.
  - injection H as H1 H2. nra.
Qed.

(* the sufficiency margin above is needed: the hypotheses of the theorem with uniqueness in D(z, r) only are
   satisfiable by a non-real root *)
Example C08_real_flag_needs_wider_isolation :
  is_root [1; 0; 1] 0 1 /\ in_disc 0 (2 / 3) (/ 3) 0 1 /\ Rabs (2 / 3) <= 2 * / 3 /\
  (forall x' y', is_root [1; 0; 1] x' y' -> in_disc 0 (2 / 3) (/ 3) x' y' -> x' = 0 /\ y' = 1) /\ 1 <> 0.
Proof.
  unfold is_root, in_disc; simpl. repeat split; try lra.
  - f_equal; ring.
  - unfold Rabs; destruct (Rcase_abs _); lra.
  - injection H as H1 H2. nra.
  - injection H as H1 H2. nra.
Qed.

(* --- attributes set by mps_cluster_detect_properties *)
Theorem C08_detect_properties_sound : forall dr di rs cn o a n zr zi r x y,
  1 <= n -> 0 <= r -> in_disc zr zi r x y ->
  (t_realn o = false -> n * r < Rabs zi) ->
  attrs_sound a x y ->
  (t_realn o = true -> (rs || small o) = true -> cn = 1%nat -> y = 0) ->
  (t_imagn o = true -> small o = true -> x = 0) ->
  attrs_sound (detect_properties dr di rs cn o a) x y.
Proof. exact detect_properties_sound. Qed.
Print Assumptions C08_detect_properties_sound.

(* --- PARTIAL: the separation-bound branch (log r < sep - n lmax_coeff).  The bound is a hypothesis: every
       non-real root has |Im| > B and the radius test implies (f + 1) r <= B.  Not proved: that the coded
       threshold sep - n*lmax_coeff = -2n*lmax - n(1 + log n)/log 2 is such a B for integer input (a
       Mahler/Mignotte-type root bound), and nothing of the kind holds under -a s where sep = lmax_coeff = 0
       (known finding).  The imaginary case is the same statement with the coordinates swapped. *)
Theorem C08_sep_branch_partial : forall zr zi r f B x y,
  0 <= r -> in_disc zr zi r x y -> Rabs zi <= f * r -> (f + 1) * r <= B ->
  (y <> 0 -> B < Rabs y) -> y = 0.
Proof. exact sep_branch_real. Qed.
Print Assumptions C08_sep_branch_partial.

Example C08_sep_branch_nonvacuous :
  in_disc 3 (/ 64) (/ 32) 3 0 /\ Rabs (/ 64) <= 1 * / 32 /\ (1 + 1) * / 32 <= / 8 /\ ((0:R) <> 0 -> / 8 < Rabs 0).
Proof.
  unfold in_disc. repeat split; try lra.
  - unfold Rabs; destruct (Rcase_abs _); lra.
Qed.

(* ============================================================================================================
   The coded touch tests (Incl/TouchModel.v, bit for bit the functions of common/touch.c; tied by harness/c08_incl.c)
   ============================================================================================================ *)

(* --- mps_ftouchreal / mps_ftouchimag in IEEE binary64 (Flocq): `no touch' implies n * r < |c| EXACTLY, for every factor
       n the code uses (1, n, 2n), every finite centre coordinate and every finite radius >= 0.  No margin is lost: the
       product is rounded to nearest, rounding is monotone and |c| is a double; an overflowing product compares as
       +infinity (touch), the DBL_MAX / n guard only answers `touch'.  Together with C08_touch_axis_sound this discharges
       obs_sound's os_real / os_imag / os_real1 / os_imag1 for the floating point phase. *)
Theorem C08_ftouch_axis_sound : forall (n : Z) (r c : b64),
  (1 <= n < 2 ^ 31)%Z -> is_finite r = true -> is_finite c = true -> 0 <= B2R r ->
  ftouch_axis n r c = false -> IZR n * B2R r < Rabs (B2R c).
Proof. exact ftouch_axis_sound. Qed.
Print Assumptions C08_ftouch_axis_sound.

(* non-vacuity: r = 1/2, c = -2, n = 3: clear; and the tangent case n * r = |c| (r = 1/2, c = 1, n = 2) touches *)
Example C08_ftouch_axis_nonvacuous :
  ftouch_axis 3 fhalf (Bopp ftwo) = false /\ ftouch_axis 2 fhalf fone = true /\ ftouch_axis 2 fhalf (Bopp fone) = true.
Proof. vm_compute. repeat split. Qed.

(* --- mps_dtouchreal / mps_dtouchimag in DPE arithmetic (the executable C12 model: rdpe_mul_d, rdpe_abs, rdpe_ge): `no touch'
       implies n * r < |c| EXACTLY for normalised operands whose exponents are not within 2000 of the ends of `long'
       (where rdpe_mul_d saturates).  Uses C12's norm_exact and order_correct and the monotonicity of the rounding. *)
Theorem C08_dtouch_axis_sound : forall (n : Z) (r c : rdpe),
  (1 <= n < 2 ^ 31)%Z -> normalised r -> normalised c -> 0 <= rval r ->
  (LONG_MIN + 2000 <= esp r <= LONG_MAX - 2000)%Z -> in_long (esp c) ->
  dtouch_axis n r c = false -> IZR n * rval r < Rabs (rval c).
Proof. exact dtouch_axis_sound. Qed.
Print Assumptions C08_dtouch_axis_sound.

(* r = 1/2, c = -2, n = 3 clear; tangent n r = |c| (r = 1/2, c = 1, n = 2) touches *)
Example C08_dtouch_axis_nonvacuous :
  dtouch_axis 3 (Rdpe fhalf 0) (Rdpe fmhalf 2) = false /\ dtouch_axis 2 (Rdpe fhalf 0) (Rdpe fhalf 1) = true /\
  normalised (Rdpe fhalf 0) /\ normalised (Rdpe fmhalf 2).
Proof.
  split; [vm_compute; reflexivity|]. split; [vm_compute; reflexivity|].
  split; [apply MPSV.Dpe.DpeProps.normalised_half|apply MPSV.Dpe.DpeProps.normalised_mhalf].
Qed.

(* --- mpf_get_rdpe (floating-point/link.c: zero the limb exponent, mpf_get_d, rdpe_set_2dl) on the exact dyadic cm * 2^ce an
       mpf holds, concretely: a normalised DPE whose exponent stays inside `long', whose value is the significand truncated
       towards zero to 53 bits (TouchModel.trunc53) times the same power of two: never larger in magnitude than the exact
       number, within 2^-52 of it relatively, same sign.  (dy m e = m * 2^e.) *)
Theorem C08_mpf_get_rdpe_spec : forall cm ce : Z,
  (LONG_MIN + 2000 <= ce)%Z -> (ce + Z.log2 (Z.abs cm) <= LONG_MAX - 2000)%Z ->
  let d := mpf_get_rdpe cm ce in
  normalised d /\ in_long (esp d) /\
  rval d = dy (fst (trunc53 cm)) (ce + snd (trunc53 cm)) /\
  Rabs (rval d) <= Rabs (dy cm ce) /\
  Rabs (dy cm ce - rval d) <= bpow radix2 (-52) * Rabs (dy cm ce) /\
  (0 < rval d <-> 0 < dy cm ce) /\ (rval d < 0 <-> dy cm ce < 0).
Proof. exact mpf_get_rdpe_spec. Qed.
Print Assumptions C08_mpf_get_rdpe_spec.

(* --- mps_mtouchreal / mps_mtouchimag (rdpe_mul_d, mpf_get_rdpe, rdpe_abs_eq, rdpe_ge): `no touch' implies n * r < |c| EXACTLY
       for the exact multiprecision coordinate c = cm * 2^ce of ANY precision (the truncation to 53 bits only shrinks |c|),
       every factor and every normalised radius; exponents not within 2000 of the ends of `long'.  This was
       C08_mtouch_axis_sound_partial / C08_dm_touch_axis_sound_partial (truncation step abstract) before. *)
Theorem C08_mtouch_axis_sound : forall (n : Z) (r : rdpe) (cm ce : Z),
  (1 <= n < 2 ^ 31)%Z -> normalised r -> 0 <= rval r ->
  (LONG_MIN + 2000 <= esp r <= LONG_MAX - 2000)%Z ->
  (LONG_MIN + 2000 <= ce)%Z -> (ce + Z.log2 (Z.abs cm) <= LONG_MAX - 2000)%Z ->
  mtouch_axis n r cm ce = false -> IZR n * rval r < Rabs (dy cm ce).
Proof. exact mtouch_axis_sound. Qed.
Print Assumptions C08_mtouch_axis_sound.

(* the half-plane side tests of mps_mupdate_inclusions (rdpe_le / rdpe_ge against zero on the truncated coordinate) read
   the sign of the exact coordinate *)
Theorem C08_mside_axis_sound : forall cm ce : Z,
  (LONG_MIN + 2000 <= ce)%Z -> (ce + Z.log2 (Z.abs cm) <= LONG_MAX - 2000)%Z ->
  let d := mpf_get_rdpe cm ce in
  (rdpe_le d rdpe_zero = true <-> dy cm ce <= 0) /\ (rdpe_ge d rdpe_zero = true <-> 0 <= dy cm ce).
Proof. exact mside_axis_sound. Qed.
Print Assumptions C08_mside_axis_sound.

(* a 54-bit coordinate -(2^53 + 1) * 2^-52 (truncated by mpf_get_rdpe), r = 1/2, n = 3: clear; n = 5: touch *)
Example C08_mtouch_axis_nonvacuous :
  mtouch_axis 3 (Rdpe fhalf 0) (-9007199254740993) (-52) = false /\ mtouch_axis 5 (Rdpe fhalf 0) (-9007199254740993) (-52) = true /\
  trunc53 (-9007199254740993) = (-4503599627370496, 1)%Z /\ normalised (Rdpe fhalf 0) /\
  (LONG_MIN + 2000 <= -52)%Z /\ (-52 + Z.log2 (Z.abs (-9007199254740993)) <= LONG_MAX - 2000)%Z.
Proof.
  split; [vm_compute; reflexivity|]. split; [vm_compute; reflexivity|]. split; [vm_compute; reflexivity|].
  split; [apply MPSV.Dpe.DpeProps.normalised_half|]. split; vm_compute; discriminate.
Qed.

(* --- mps_dtouchunit as coded (cdpe_mod, rdpe_mul_d, rdpe_add_d, rdpe_lt, rdpe_add, rdpe_ge): for every factor n >= 2 (the
       code passes 2 * degree) `no touch' puts the closed disc D(z, r) strictly on one side of the unit circle AND the side
       tests of mps_dupdate_inclusions (rdpe_le / rdpe_ge of the same computed modulus against 1) name that side - under the
       weakest hypothesis that is true of the code: NOT (r < 2^-49 and | |z| - 1 | < 2^-48).  In that corner the rounding of
       cdpe_mod decides (C08_dtouchunit_refuted below: r = 2^-56, |z| within 2^-53 of 1).  zmod z = |z| exactly.
       Uses C12's cmod_rel, add_rel, order_correct. *)
Theorem C08_dtouch_unit_sound : forall (n : Z) (r : rdpe) (z : cdpe),
  (2 <= n < 2 ^ 31)%Z -> normalised r -> 0 <= rval r -> (Z.abs (esp r) <= 2 ^ 60)%Z ->
  cnormalised z -> csmall z ->
  bpow radix2 (-49) <= rval r \/ bpow radix2 (-48) <= Rabs (zmod z - 1) ->
  dtouch_unit n r z = false ->
  (rval r + 1 < zmod z /\ rdpe_le (cdpe_mod z) rdpe_one = false /\ rdpe_ge (cdpe_mod z) rdpe_one = true) \/
  (zmod z + rval r < 1 /\ rdpe_le (cdpe_mod z) rdpe_one = true /\ rdpe_ge (cdpe_mod z) rdpe_one = false).
Proof. exact dtouch_unit_sound. Qed.
Print Assumptions C08_dtouch_unit_sound.

(* for radii not below 2^-49 the margin survives: the disc scaled by n - 1 is clear of the circle *)
Theorem C08_dtouch_unit_sound_scaled : forall (n : Z) (r : rdpe) (z : cdpe),
  (2 <= n < 2 ^ 31)%Z -> normalised r -> (Z.abs (esp r) <= 2 ^ 60)%Z ->
  cnormalised z -> csmall z ->
  bpow radix2 (-49) <= rval r ->
  dtouch_unit n r z = false ->
  (IZR (n - 1) * rval r + 1 < zmod z /\ rdpe_le (cdpe_mod z) rdpe_one = false /\ rdpe_ge (cdpe_mod z) rdpe_one = true) \/
  (zmod z + IZR (n - 1) * rval r < 1 /\ rdpe_le (cdpe_mod z) rdpe_one = true /\ rdpe_ge (cdpe_mod z) rdpe_one = false).
Proof. exact dtouch_unit_sound_scaled. Qed.
Print Assumptions C08_dtouch_unit_sound_scaled.

(* z = 4, r = 1/2, n = 4: clear, outside;  z = 1/2, r = 1/16, n = 2: clear, inside;  z = 1/2, r = 1/4, n = 2: tangent, touch *)
Example C08_dtouch_unit_nonvacuous :
  dtouch_unit 4 (Rdpe fhalf 0) (Cdpe (Rdpe fhalf 3) rdpe_zero) = false /\
  dtouch_unit 2 (Rdpe fhalf (-3)) (Cdpe (Rdpe fhalf 0) rdpe_zero) = false /\
  dtouch_unit 2 (Rdpe fhalf (-1)) (Cdpe (Rdpe fhalf 0) rdpe_zero) = true /\
  cnormalised (Cdpe (Rdpe fhalf 3) rdpe_zero) /\ csmall (Cdpe (Rdpe fhalf 3) rdpe_zero) /\
  bpow radix2 (-49) <= rval (Rdpe fhalf (-3)).
Proof.
  split; [vm_compute; reflexivity|]. split; [vm_compute; reflexivity|]. split; [vm_compute; reflexivity|].
  split. { split; [apply MPSV.Dpe.DpeProps.normalised_half|]. split; [reflexivity|left; split; reflexivity]. }
  split. { split; unfold esp_small; simpl; lia. }
  unfold rval. cbn [mnt esp]. rewrite MPSV.Dpe.DpeProps.B2R_fhalf. change (/ 2) with (bpow radix2 (-1)). rewrite <- bpow_plus.
  apply bpow_le. lia.
Qed.

(* --- cplx_mod (floating-point/mt.c, the MPS_USE_BUILTIN_COMPLEX version mt.h always selects) in IEEE binary64: for finite
       parts, whenever the result does not overflow, it is within 6 u |z| + 2^-1075 of |z| (u = 2^-53; five roundings; underflow of
       the quotient and of its square included).  fmod2 x y = sqrt (x^2 + y^2), eta64 = 2^-1075. *)
Theorem C08_cplx_mod_error : forall x y : b64, is_finite x = true -> is_finite y = true ->
  is_finite (cplx_mod_f x y) = true ->
  0 <= B2R (cplx_mod_f x y) /\ Rabs (B2R (cplx_mod_f x y) - fmod2 x y) <= 6 * u53 * fmod2 x y + eta64.
Proof. exact cplx_mod_f_spec. Qed.
Print Assumptions C08_cplx_mod_error.

(* the hypothesis `cplx_mod does not overflow' of the theorems below holds whenever both parts are at most 2^1022 in magnitude *)
Theorem C08_cplx_mod_finite : forall x y : b64, is_finite x = true -> is_finite y = true ->
  Rabs (B2R x) <= bpow radix2 1022 -> Rabs (B2R y) <= bpow radix2 1022 ->
  is_finite (cplx_mod_f x y) = true.
Proof. exact cplx_mod_f_finite. Qed.
Print Assumptions C08_cplx_mod_finite.

(* --- mps_ftouchunit as coded (DBL_MAX / n guard, n * frad, cplx_mod, the two rounded sums): for every factor n >= 2 (the code
       passes 2 * degree), finite centre and radius >= 0 and a modulus that does not overflow, `no touch' puts the closed disc
       D(z, r) strictly on one side of the unit circle AND the side tests of mps_fupdate_inclusions (cplx_mod (z) < 1, > 1) name
       that side - under the weakest hypothesis that is true of the code: NOT (r < 2^-49 and | |z| - 1 | < 2^-48).  Inside that
       corner C08_ftouchunit_refuted below (r = 2^-56).  An overflowing n * frad or sum compares as +infinity (touch). *)
Theorem C08_ftouch_unit_sound : forall (n : Z) (r x y : b64),
  (2 <= n < 2 ^ 31)%Z -> is_finite r = true -> is_finite x = true -> is_finite y = true -> 0 <= B2R r ->
  is_finite (cplx_mod_f x y) = true ->
  bpow radix2 (-49) <= B2R r \/ bpow radix2 (-48) <= Rabs (fmod2 x y - 1) ->
  ftouch_unit n r x y = false ->
  (B2R r + 1 < fmod2 x y /\ flt (cplx_mod_f x y) fone = false /\ fgt (cplx_mod_f x y) fone = true) \/
  (fmod2 x y + B2R r < 1 /\ flt (cplx_mod_f x y) fone = true /\ fgt (cplx_mod_f x y) fone = false).
Proof. exact ftouch_unit_sound. Qed.
Print Assumptions C08_ftouch_unit_sound.

Theorem C08_ftouch_unit_sound_scaled : forall (n : Z) (r x y : b64),
  (2 <= n < 2 ^ 31)%Z -> is_finite r = true -> is_finite x = true -> is_finite y = true ->
  is_finite (cplx_mod_f x y) = true ->
  bpow radix2 (-49) <= B2R r ->
  ftouch_unit n r x y = false ->
  (IZR (n - 1) * B2R r + 1 < fmod2 x y /\ flt (cplx_mod_f x y) fone = false /\ fgt (cplx_mod_f x y) fone = true) \/
  (fmod2 x y + IZR (n - 1) * B2R r < 1 /\ flt (cplx_mod_f x y) fone = true /\ fgt (cplx_mod_f x y) fone = false).
Proof. exact ftouch_unit_sound_scaled. Qed.
Print Assumptions C08_ftouch_unit_sound_scaled.

(* z = 2 + 2i, r = 1/2, n = 2: clear (outside);  z = 0, r = 1/8, n = 2: clear (inside);  z = 2, r = 1/2, n = 2: tangent, touch *)
Example C08_ftouch_unit_nonvacuous :
  ftouch_unit 2 fhalf ftwo ftwo = false /\ ftouch_unit 2 (f_of_dyadic 1 (-3)) fzero fzero = false /\
  ftouch_unit 2 fhalf ftwo fzero = true /\ is_finite (cplx_mod_f ftwo ftwo) = true /\ bpow radix2 (-49) <= B2R fhalf.
Proof.
  split; [vm_compute; reflexivity|]. split; [vm_compute; reflexivity|]. split; [vm_compute; reflexivity|].
  split; [vm_compute; reflexivity|]. rewrite MPSV.Dpe.DpeProps.B2R_fhalf. change (/ 2) with (bpow radix2 (-1)). apply bpow_le. lia.
Qed.

(* --- REPAIRED tests (fixes/C08_funit_allowance.patch, fixes/C08_dunit_allowance.patch: the scaled radius is inflated by
       8 DBL_EPSILON (ab + 1) before the two comparisons; TouchModel.ftouch_unit_fixed / dtouch_unit_fixed, run against the real
       functions whenever the tree has the patches).  `no touch' implies n * r < | |z| - 1 | EXACTLY - the full factor, every n >= 1,
       every radius, no corner - and the side tests name the side. *)
Theorem C08_ftouch_unit_fixed_sound : forall (n : Z) (r x y : b64),
  (1 <= n < 2 ^ 31)%Z -> is_finite r = true -> is_finite x = true -> is_finite y = true -> 0 <= B2R r ->
  is_finite (cplx_mod_f x y) = true ->
  ftouch_unit_fixed n r x y = false ->
  (IZR n * B2R r + 1 < fmod2 x y /\ flt (cplx_mod_f x y) fone = false /\ fgt (cplx_mod_f x y) fone = true) \/
  (fmod2 x y + IZR n * B2R r < 1 /\ flt (cplx_mod_f x y) fone = true /\ fgt (cplx_mod_f x y) fone = false).
Proof. exact ftouch_unit_fixed_sound. Qed.
Print Assumptions C08_ftouch_unit_fixed_sound.

Theorem C08_dtouch_unit_fixed_sound : forall (n : Z) (r : rdpe) (z : cdpe),
  (1 <= n < 2 ^ 31)%Z -> normalised r -> 0 <= rval r -> (Z.abs (esp r) <= 2 ^ 60)%Z ->
  cnormalised z -> csmall z ->
  dtouch_unit_fixed n r z = false ->
  (IZR n * rval r + 1 < zmod z /\ rdpe_le (cdpe_mod z) rdpe_one = false /\ rdpe_ge (cdpe_mod z) rdpe_one = true) \/
  (zmod z + IZR n * rval r < 1 /\ rdpe_le (cdpe_mod z) rdpe_one = true /\ rdpe_ge (cdpe_mod z) rdpe_one = false).
Proof. exact dtouch_unit_fixed_sound. Qed.
Print Assumptions C08_dtouch_unit_fixed_sound.

(* the repaired tests answer `touch' on the witnesses of the refutations below, and still `clear' well away from the circle *)
Example C08_touch_unit_fixed_nonvacuous :
  ftouch_unit_fixed 2 wit_fr wit_fx wit_fy = true /\ dtouch_unit_fixed 2 (dpe_of_dyadic 1 (-56)) wit_dz = true /\
  ftouch_unit_fixed 2 fhalf ftwo ftwo = false /\ ftouch_unit_fixed 2 (f_of_dyadic 1 (-3)) fzero fzero = false /\
  dtouch_unit_fixed 4 (Rdpe fhalf 0) (Cdpe (Rdpe fhalf 3) rdpe_zero) = false /\
  dtouch_unit_fixed 2 (Rdpe fhalf (-3)) (Cdpe (Rdpe fhalf 0) rdpe_zero) = false.
Proof. repeat split; vm_compute; reflexivity. Qed.

(* --- ONE ROOT THROUGH mps_fupdate_inclusions / mps_dupdate_inclusions, from the numbers the code holds to geometry: the record
       of outcomes is computed by TouchModel.f_obs / d_obs from the stored centre and radius in the arithmetic of the phase
       (all touch tests and side expressions), the decision is InclModel.classify, the conclusion is about every point of the
       closed disc D(z, r): IN -> strictly inside the set, OUT -> strictly outside, for the seven geometric search sets
       (geometric_set: all but the two lines, whose IN verdict rests on the separation bound).  This discharges the hypothesis
       obs_sound of C08_inclusion_sound for the float and DPE phases outside the rounding corner of the unit-circle test, and
       everywhere with the repaired tests. *)
Theorem C08_fclassify_sound : forall (n : Z) (x y r : b64),
  (1 <= n)%Z -> (2 * n < 2 ^ 31)%Z -> is_finite x = true -> is_finite y = true -> is_finite r = true -> 0 <= B2R r ->
  forall (small rs : bool) (cn : nat) (a : attrs) (st : search_set),
  is_finite (cplx_mod_f x y) = true ->
  bpow radix2 (-49) <= B2R r \/ bpow radix2 (-48) <= Rabs (fmod2 x y - 1) ->
  geometric_set st ->
  forall px py : R, in_disc (B2R x) (B2R y) (B2R r) px py ->
  claim_ok st (classify st rs cn (f_obs n x y r small) a) px py.
Proof. exact f_classify_sound. Qed.
Print Assumptions C08_fclassify_sound.

Theorem C08_fclassify_fixed_sound : forall (n : Z) (x y r : b64),
  (1 <= n)%Z -> (2 * n < 2 ^ 31)%Z -> is_finite x = true -> is_finite y = true -> is_finite r = true -> 0 <= B2R r ->
  forall (small rs : bool) (cn : nat) (a : attrs) (st : search_set),
  is_finite (cplx_mod_f x y) = true ->
  geometric_set st ->
  forall px py : R, in_disc (B2R x) (B2R y) (B2R r) px py ->
  claim_ok st (classify st rs cn (f_obs_fixed n x y r small) a) px py.
Proof. exact f_classify_fixed_sound. Qed.
Print Assumptions C08_fclassify_fixed_sound.

Theorem C08_dclassify_sound : forall (n : Z) (z : cdpe) (r : rdpe),
  (1 <= n)%Z -> (2 * n < 2 ^ 31)%Z -> cnormalised z -> csmall z -> normalised r -> 0 <= rval r -> (Z.abs (esp r) <= 2 ^ 60)%Z ->
  forall (small rs : bool) (cn : nat) (a : attrs) (st : search_set),
  bpow radix2 (-49) <= rval r \/ bpow radix2 (-48) <= Rabs (zmod z - 1) ->
  geometric_set st ->
  forall px py : R, in_disc (rval (cre z)) (rval (cim z)) (rval r) px py ->
  claim_ok st (classify st rs cn (d_obs n z r small) a) px py.
Proof. exact d_classify_sound. Qed.
Print Assumptions C08_dclassify_sound.

Theorem C08_dclassify_fixed_sound : forall (n : Z) (z : cdpe) (r : rdpe),
  (1 <= n)%Z -> (2 * n < 2 ^ 31)%Z -> cnormalised z -> csmall z -> normalised r -> 0 <= rval r -> (Z.abs (esp r) <= 2 ^ 60)%Z ->
  forall (small rs : bool) (cn : nat) (a : attrs) (st : search_set),
  geometric_set st ->
  forall px py : R, in_disc (rval (cre z)) (rval (cim z)) (rval r) px py ->
  claim_ok st (classify st rs cn (d_obs_fixed n z r small) a) px py.
Proof. exact d_classify_fixed_sound. Qed.
Print Assumptions C08_dclassify_fixed_sound.

(* the same in the multiprecision phase for the four half planes: exact coordinates xm * 2^xe, ym * 2^ye of any precision
   (mps_mtouchreal/imag and the side tests see them through mpf_get_rdpe), DPE radius; the unit-circle outcomes of m_obs come
   from mpc_mod (C08_mtouch_unit_sound_partial) *)
Theorem C08_mclassify_halfplane_sound : forall (n xm xe ym ye : Z) (r : rdpe),
  (1 <= n)%Z -> (2 * n < 2 ^ 31)%Z -> normalised r -> 0 <= rval r -> (LONG_MIN + 2000 <= esp r <= LONG_MAX - 2000)%Z ->
  (LONG_MIN + 2000 <= xe)%Z -> (xe + Z.log2 (Z.abs xm) <= LONG_MAX - 2000)%Z ->
  (LONG_MIN + 2000 <= ye)%Z -> (ye + Z.log2 (Z.abs ym) <= LONG_MAX - 2000)%Z ->
  forall (tu iu ic small rs : bool) (cn : nat) (a : attrs) (st : search_set),
  half_plane st ->
  forall px py : R, in_disc (dy xm xe) (dy ym ye) (rval r) px py ->
  claim_ok st (classify st rs cn (m_obs n xm xe ym ye r tu iu ic small) a) px py.
Proof. exact m_classify_halfplane_sound. Qed.
Print Assumptions C08_mclassify_halfplane_sound.

(* z = 2 + 2i, r = 1/2, degree 1: OUT for the open unit disc, IN for its complement, IN for the right half plane and the upper
   half plane, OUT for the left one; z = 0, r = 1/8: IN for the unit disc and UNKNOWN for every half plane *)
Example C08_fclassify_nonvacuous :
  fst (classify S_UNIT false 1 (f_obs 1 ftwo ftwo fhalf false) A_NONE) = OUT /\
  fst (classify S_UNIT_COMPL false 1 (f_obs 1 ftwo ftwo fhalf false) A_NONE) = IN /\
  fst (classify S_POS_RE false 1 (f_obs 1 ftwo ftwo fhalf false) A_NONE) = IN /\
  fst (classify S_NEG_RE false 1 (f_obs 1 ftwo ftwo fhalf false) A_NONE) = OUT /\
  fst (classify S_POS_IM false 1 (f_obs 1 ftwo ftwo fhalf false) A_NONE) = IN /\
  fst (classify S_UNIT false 1 (f_obs 1 fzero fzero (f_of_dyadic 1 (-3)) false) A_NONE) = IN /\
  fst (classify S_POS_RE false 1 (f_obs 1 fzero fzero (f_of_dyadic 1 (-3)) false) A_NONE) = UNKNOWN /\
  fst (classify S_UNIT_COMPL false 1 (d_obs 1 (Cdpe (Rdpe fhalf 3) rdpe_zero) (Rdpe fhalf 0) false) A_NONE) = IN /\
  fst (classify S_NEG_IM false 1 (d_obs 1 (Cdpe (Rdpe fhalf 3) (Rdpe fmhalf 3)) (Rdpe fhalf 0) false) A_NONE) = IN /\
  fst (classify S_NEG_RE false 1 (m_obs 1 (-9007199254740993) (-52) 1 0 (Rdpe fhalf (-1)) true false false false) A_NONE) = IN.
Proof. repeat split; vm_compute; reflexivity. Qed.

(* --- PARTIAL: mps_mtouchunit.  The decision on the DPE ab ~ |z| - 1 (rdpe_mul_d, rdpe_lt, rdpe_neg_eq, rdpe_ge: the code of
       /repo after fixes/C08_munit_tangent.patch) is proved: if ab is within delta of |z| - 1 and delta <= (n (1 - u) - 1) r,
       `no touch' is right for the disc D(z, r) itself and the sign of ab names the side.  Missing: a bound for delta, the error
       of mpc_mod (two products, a sum, a square root truncated at max (mpwp, precision of the number)), mpf_sub_ui and the 53-bit
       truncation of mpf_get_rdpe (C08_mpf_get_rdpe_spec): about 4 * 2^-precision * |z| + 2^-52 * | |z| - 1 |; for radii below
       that the answer is wrong (known finding C08_munit_modulus_truncation, r = 0). *)
Theorem C08_mtouch_unit_sound_partial : forall (n : Z) (r ab : rdpe) (Zm delta : R),
  (2 <= n < 2 ^ 31)%Z -> normalised r -> 0 <= rval r -> (LONG_MIN + 3000 <= esp r <= LONG_MAX - 3000)%Z ->
  normalised ab -> in_long (esp ab) ->
  Rabs (rval ab - (Zm - 1)) <= delta -> delta <= (IZR n * (1 - u53) - 1) * rval r ->
  mtouch_unit_ab_ge n r ab = false ->
  (rval r + 1 < Zm /\ 0 < rval ab) \/ (Zm + rval r < 1 /\ rval ab < 0).
Proof. exact mtouch_unit_decision_sound. Qed.
Print Assumptions C08_mtouch_unit_sound_partial.

(* |z| = 3/2 exactly (ab = 1/2, delta = 0), r = 1/8, n = 2: clear;  r = 1/4: tangent, touch *)
Example C08_mtouch_unit_nonvacuous :
  mtouch_unit_ab_ge 2 (Rdpe fhalf (-2)) (Rdpe fhalf 0) = false /\ mtouch_unit_ab_ge 2 (Rdpe fhalf (-1)) (Rdpe fhalf 0) = true /\
  mtouch_unit_ab_ge 2 (Rdpe fhalf (-1)) (Rdpe fmhalf 0) = true /\ mtouch_unit_ab_ge 2 (Rdpe fhalf (-2)) (Rdpe fmhalf 0) = false.
Proof. repeat split; vm_compute; reflexivity. Qed.

(* --- REFUTED at the boundary: mps_mtouchunit is strict where the other two variants are not.  Radius 0 with the centre
       on the circle, and a disc tangent from inside, are declared clear (first four conjuncts / last four); with rdpe_ge
       (fixes/C08_munit_tangent.patch) they touch.  Replayed on the real function on every run (T lines w-m-unit-...). *)
Theorem C08_mtouchunit_tangent_refuted :
  exists r ab r' ab' : rdpe,
    rval r = 0 /\ rval ab = 0 /\ mtouch_unit_ab 2 r ab = false /\ mtouch_unit_ab_ge 2 r ab = true /\
    rval r' = / 4 /\ rval ab' = - / 2 /\ mtouch_unit_ab 2 r' ab' = false /\ mtouch_unit_ab_ge 2 r' ab' = true.
Proof. exact mtouchunit_tangent_refuted. Qed.
Print Assumptions C08_mtouchunit_tangent_refuted.

(* --- REFUTED within an ulp of the circle: mps_ftouchunit (and the side test of mps_fupdate_inclusions) trust the rounded
       modulus.  A centre strictly outside the circle whose disc meets it: `no touch', side `inside'.  Replayed on the
       real function (T line w-f-unit-modulus-rounding).  Known finding, open (function level). *)
Theorem C08_ftouchunit_refuted :
  exists x y r : b64, is_finite x = true /\ is_finite y = true /\ is_finite r = true /\ 0 <= B2R r /\
    ftouch_unit 2 r x y = false /\ flt (cplx_mod_f x y) fone = true /\
    1 < B2R x * B2R x + B2R y * B2R y <= (1 + B2R r) * (1 + B2R r).
Proof. exact ftouchunit_refuted. Qed.
Print Assumptions C08_ftouchunit_refuted.

(* --- the same for mps_dtouchunit in DPE arithmetic (exact geometry over Z: x = X / S, y = Y / S, r = 1 / S) *)
Theorem C08_dtouchunit_refuted :
  exists X Y S : Z, (X = 8783257514563430 * 8)%Z /\ (Y = -7984009867200034 * 2)%Z /\ (S = 2 ^ 56)%Z /\
    (dtouch_unit 2 (dpe_of_dyadic 1 (-56)) wit_dz = false) /\ wit_geom X Y S.
Proof. exact dtouchunit_refuted. Qed.
Print Assumptions C08_dtouchunit_refuted.
