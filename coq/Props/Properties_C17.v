(* C17 - printed output is a faithful rendering of the computed results.
   Statements only; proofs in OutFmt/OutProps.v, model in OutFmt/OutModel.v (extracted to bin/outfmt and
   run against the real mps_output on every check).
   Trusted / modelled, not verified: libm (logarithms enter as bracketed rationals), GMP's mpf_out_str
   (round_sig and gmp_digit_cap are its stated specification, compared with the code by the check). *)
Require Import ZArith QArith Qabs String Ascii List Permutation Reals Qreals Lia.
Require Import MPSV.OutFmt.OutModel MPSV.OutFmt.OutProps MPSV.OutFmt.DpeModel MPSV.OutFmt.DpeProps MPSV.OutFmt.DpeReal.
Import ListNotations.
Open Scope Q_scope.

(* reading a printed number back: sign, digits, optional fraction, optional e/E/x exponent mean
   +-(digits) * 10^(exponent - number of fraction digits); decimal_parse inverts the printer *)
Theorem C17_decimal_value_spec : forall r : rendering, rendering_wf r ->
  decimal_parse (render r) =
    Some {| p_mant := (let m := val_from 0 (r_ip r ++ frac_digits r) in if r_neg r then - m else m)%Z;
            p_exp := (exp_value r - Z.of_nat (length (frac_digits r)))%Z;
            p_ndigits := (length (r_ip r) + length (frac_digits r))%nat;
            p_neg := r_neg r |}
  /\ exists q, decimal_value (render r) = Some q /\ q == rendering_value r.
Proof. intros r H; split; [exact (decimal_parse_render r H) | exact (decimal_value_render r H)]. Qed.
Print Assumptions C17_decimal_value_spec.

Example C17_decimal_value_ex_gmp :      (* GMP's layout, negative exponent *)
  decimal_parse "-0.7115983611e-80" = Some {| p_mant := -7115983611; p_exp := -90; p_ndigits := 11; p_neg := true |}
  /\ render {| r_neg := true; r_ip := [D0]; r_fp := Some [D7; D1; D1; D5; D9; D8; D3; D6; D1; D1];
               r_exp := Some (Ee, EMinus, [D8; D0]) |} = "-0.7115983611e-80"%string.
Proof. split; reflexivity. Qed.
Example C17_decimal_value_ex_dpe :      (* the radius line of format full *)
  decimal_parse "0.60771633573360x-063" = Some {| p_mant := 60771633573360; p_exp := -77; p_ndigits := 15; p_neg := false |}.
Proof. reflexivity. Qed.
Example C17_decimal_value_ex_bad : decimal_parse "0.5e" = None /\ decimal_parse "." = None /\ decimal_parse "1.2.3" = None.
Proof. repeat split; reflexivity. Qed.

(* rounding to d significant digits (specification of mpf_out_str): error at most half a unit of the
   d-th digit, in particular at most one unit *)
Theorem C17_round_sig_error : forall (d e : Z) (x : Q),
  Qabs (round_sig d e x - x) <= (1 # 2) * p10 (e - d) /\ Qabs (round_sig d e x - x) <= p10 (e - d).
Proof. intros; split; [apply round_sig_error | apply round_sig_error_unit]. Qed.
Print Assumptions C17_round_sig_error.

Example C17_round_sig_ex_carry :        (* 0.99996 to 4 digits rounds up across a power of ten: 1.000 *)
  is_dexp_b 0 (99996 # 100000) = true /\ round_sig 4 0 (99996 # 100000) == 1 /\
  round_sig 4 0 (99994 # 100000) == 9999 # 10000 /\ round_sig 3 2 (- (12345 # 1000)) == - (123 # 10).
Proof. repeat split; vm_compute; reflexivity. Qed.

(* the printed string is the d-digit rounding of the stored component and shows no digit below the
   rounding position  ==>  printed and stored differ by at most one unit of the last printed digit, and the
   printed value is within radius + unit of anything the stored value is within radius of.
   close_b is the predicate the check evaluates on every printed component. *)
Theorem C17_printed_component_close : forall (s : string) (p : parsed) (d e : Z) (x : Q),
  decimal_parse s = Some p ->
  parsed_value p == round_sig d e x -> (e - d <= p_exp p)%Z ->
  Qabs (parsed_value p - x) <= parsed_unit p /\ close_b p x = true /\
  forall root r, Qabs (x - root) <= r -> Qabs (parsed_value p - root) <= r + parsed_unit p.
Proof.
  intros s p d e x _ Hv He. destruct (printed_component_close p d e x Hv He) as [H1 H2].
  split; [exact H1 | split; [apply close_b_spec; exact H1 | exact H2]].
Qed.
Print Assumptions C17_printed_component_close.

Example C17_printed_component_close_ex :   (* "0.1e1" is what GMP shows for 0.99996 at 4 digits: unit 1, not 10^-4 *)
  exists p, decimal_parse "0.1e1" = Some p /\ parsed_value p == round_sig 4 0 (99996 # 100000) /\
            (0 - 4 <= p_exp p)%Z /\ parsed_unit p == 1.
Proof. eexists; split; [reflexivity |]. repeat split; vm_compute; try reflexivity; discriminate. Qed.

Theorem C17_close_b_spec : forall p x, close_b p x = true <-> Qabs (parsed_value p - x) <= parsed_unit p.
Proof. exact close_b_spec. Qed.
Print Assumptions C17_close_b_spec.

(* the digit count mps_outfloat asks for, and GMP grants, never exceeds any of its four bounds; with
   mpsolve -o D the bound out_digit is D + 10: the "fixed margin" is 10 digits (compact, bare, verbose) *)
Theorem C17_printed_digits_bounded : forall (lg : Q) (precf prec_out : Z),
  (printed_digits lg precf prec_out <= out_digit prec_out)%Z /\
  (printed_digits lg precf prec_out <= prec_digits precf)%Z /\
  (printed_digits lg precf prec_out <= digit_count lg)%Z /\
  (printed_digits lg precf prec_out <= gmp_digit_cap prec_out)%Z.
Proof. exact printed_digits_bounded. Qed.
Print Assumptions C17_printed_digits_bounded.

Theorem C17_requested_digits_margin : forall (lg : Q) (precf D : Z), (0 <= D <= 1000000000)%Z ->
  (printed_digits lg precf (prec_of_digits D) <= D + 10)%Z.
Proof.
  intros lg precf D HD. pose proof (out_digit_requested D HD) as Hreq.
  destruct (printed_digits_bounded lg precf (prec_of_digits D)) as [Hb _]. eapply Z.le_trans; eassumption.
Qed.
Print Assumptions C17_requested_digits_margin.

Example C17_printed_digits_ex :   (* -o 15, radius 1e-31 relative, 896-bit value: GMP's cap (21) binds, not out_digit (25) *)
  prec_of_digits 15 = 50%Z /\ out_digit 50 = 25%Z /\ gmp_digit_cap 50 = 21%Z /\
  outfloat_plan (- (3076 # 100)) 0 896 50 = PSig 21 /\
  outfloat_plan (- (15 # 1)) 0 64 50 = PSig 16 /\ outfloat_plan (6 # 10) (7 # 10) 64 50 = PZeroExp 1 /\ outfloat_plan (6 # 10) (- (7 # 10)) 64 50 = PZeroExp 0.
Proof. repeat split; vm_compute; reflexivity. Qed.

(* mps_output's loop: zero roots first (none when the set is the outside of the unit disc), then exactly the
   roots whose inclusion is not OUT, each once, in s->order[] order *)
Theorem C17_printed_count : forall (zero_roots : nat) (outside : bool) (order : list nat) (incl_of : nat -> incl) (n : nat),
  Permutation order (seq 0 n) ->
  let lines := printed_lines zero_roots outside order incl_of in
  let z := if outside then 0%nat else zero_roots in
  length lines = (z + length (filter (shown incl_of) (seq 0 n)))%nat /\
  firstn z lines = repeat None z /\
  Permutation (skipn z lines) (map Some (filter (shown incl_of) (seq 0 n))) /\
  (forall i, In (Some i) lines <-> (i < n)%nat /\ incl_of i <> IncOut).
Proof. intros; apply printed_count; assumption. Qed.
Print Assumptions C17_printed_count.

Example C17_printed_count_ex :
  printed_lines 2 false [2; 0; 1]%nat (fun i => match i with 0%nat => IncOut | 1%nat => IncIn | _ => IncUnknown end)
    = [None; None; Some 2%nat; Some 1%nat]
  /\ printed_lines 2 true [2; 0; 1]%nat (fun _ => IncIn) = [Some 2%nat; Some 0%nat; Some 1%nat].
Proof. split; reflexivity. Qed.

(* goal count: inside + outside + uncertain = degree *)
Theorem C17_count_goal_sum : forall zero_roots outside incls,
  let '(a, b, c) := count_roots zero_roots outside incls in (a + b + c = zero_roots + length incls)%nat.
Proof. exact count_roots_sum. Qed.
Print Assumptions C17_count_goal_sum.

(* radius: soundness of the predicate the check evaluates on every printed radius (the clause itself: C17_printed_radius_ge below) *)
Theorem C17_printed_radius_ge_partial : forall p r slack,
  radius_ge_b p r slack = true <-> r * (1 - slack) <= parsed_value p.
Proof. exact radius_ge_b_spec. Qed.
Print Assumptions C17_printed_radius_ge_partial.

Example C17_printed_radius_ex : exists p, decimal_parse "0.18917529268385x-043" = Some p /\
  radius_ge_b p (189175292683851 # 10 ^ 58) (1 # 10 ^ 13) = true /\ radius_ge_b p (1892 # 10 ^ 47) (1 # 10 ^ 13) = false.
Proof. eexists; split; [reflexivity |]; split; vm_compute; reflexivity. Qed.

(* the "0.e<l>" branch (radius > 3.16 |x|).  Partial: with an exact logarithm it is within one unit when |x| <= 1;
   libm's error is not covered. *)
Theorem C17_zero_branch_close_partial : forall (x lgabs : Q),
  lgabs <= 0 -> (forall k : Z, lgabs <= inject_Z k -> Qabs x <= p10 k) ->
  Qabs (0 - x) <= p10 (trunc lgabs).
Proof. exact zero_branch_close_small. Qed.
Print Assumptions C17_zero_branch_close_partial.

Example C17_zero_branch_close_ex : trunc (- (15911 # 100)) = (-159)%Z /\ trunc (- (1 # 2)) = 0%Z.
Proof. split; reflexivity. Qed.

(* Refuted for |x| > 1 FOR THE CODE BEFORE /repo commit 0b5aaff1 (outfloat_plan_prefix): rdpe_get_dl's exponent is the
   truncated logarithm, i.e. the exponent of d.ddd * 10^l, not of GMP's 0.ddd * 10^l.  A component 5 with radius 20
   printed "0.e0" and |0 - 5| > 10^0.  The defect was fixed (`if (d >= 1.0) l++;`); the check replays the witness on
   every run (state "zero-branch-abs-ge-1") and now sees "0.e1", which the model of the code as it is (outfloat_plan,
   DpeModel.zero_exp_code) renders too: see C17_zero_branch_code_covers. *)
Theorem C17_zero_branch_prefix_refuted :
  exists (x rad lg lgabs : Q) (p : parsed),
    lg_within (rad / x) lg 1000 /\ lg_within x lgabs 1000 /\
    outfloat_plan_prefix lg lgabs 64 53 = PZeroExp 0 /\
    decimal_parse "0.e0" = Some p /\ parsed_unit p == p10 0 /\ close_b p x = false.
Proof. exact zero_branch_unit_refuted. Qed.
Print Assumptions C17_zero_branch_prefix_refuted.

(* with the exponent of the repaired code (logarithm as a rational: outfloat_plan) the branch is within one unit for every x
   (exact logarithm assumed: partial in the same sense) *)
Theorem C17_zero_branch_fixed_close_partial : forall (x lgabs : Q),
  (forall k : Z, lgabs <= inject_Z k -> Qabs x <= p10 k) ->
  Qabs (0 - x) <= p10 (zero_exp_fixed lgabs).
Proof. exact zero_branch_fixed_close. Qed.
Print Assumptions C17_zero_branch_fixed_close_partial.

Example C17_zero_branch_fixed_ex : zero_exp_fixed (699 # 1000) = 1%Z /\ zero_exp_fixed (- (15911 # 100)) = (-159)%Z /\ zero_exp_fixed 0 = 1%Z.
Proof. repeat split; reflexivity. Qed.

(* layout: which numeric fields a line has; a zero root in gnuplot-full is four literal zeros (since /repo commit c368997d) *)
Example C17_layout_ex :
  line_fields Verbose (Some ANone) = [FRe true; FIm false] /\
  line_fields Compact (Some AReal) = [FRe true; FLitZero] /\
  line_fields Full None = [FLitZero; FLitZero; FLitZero] /\
  line_fields GnuplotFull (Some AImag) = [FLitZero; FIm true; FRad; FRad] /\
  line_fields GnuplotFull None = [FLitZero; FLitZero; FLitZero; FLitZero].
Proof. repeat split; reflexivity. Qed.

(* ====================================================================== the DPE printing path (DpeModel.v)
   rdpe_get_dl / rdpe_out_str / rdpe_out_str_u / rdpe_outln_str / mpf_get_rdpe and the gnuplot and 0.e<l> branches of mps_outfloat,
   branch by branch; binary64 = rn53 (nearest even, 53 bits, unbounded exponent); libm's log10 and pow (10, .) are the
   parameters flog10, fpow10 of the model. *)

(* rounding a real result to binary64: relative error 2^-53 *)
Theorem C17_double_rounding : forall x : Q, Qabs (rn53 x - x) <= pow2 (- 53) * Qabs x.
Proof. exact rn53_error. Qed.
Print Assumptions C17_double_rounding.

Example C17_double_rounding_ex :     (* 1/3 -> 0x1.5555555555555p-2; a tie goes to the even neighbour *)
  rn53 (1 # 3) == 6004799503160661 # 18014398509481984 /\ rn53 ((2 ^ 53 + 1) # 1) == 2 ^ 53 # 1 /\ rn53 ((2 ^ 53 + 3) # 1) == (2 ^ 53 + 4) # 1.
Proof. repeat split; vm_compute; reflexivity. Qed.

(* "% 16.14f" [xe] "%+04li": the text is a blank (or '-') followed by a rendering that decimal_parse reads back as exactly
   out_value d l, whose last digit has the unit 10^(l-14), and out_value is d * 10^l with the mantissa rounded to 14 decimals
   (half a unit); for every mantissa d and exponent l *)
Theorem C17_rdpe_print_rounding : forall (c : echar) (d : Q) (l : Z),
  out_text c d l = (if Qle_bool 0 d then String " "%char (render (out_rendering c d l)) else render (out_rendering c d l)) /\
  (exists p, decimal_parse (render (out_rendering c d l)) = Some p /\
             parsed_value p == out_value d l /\ p_exp p = (l - 14)%Z /\ (14 < p_ndigits p)%nat) /\
  Qabs (out_value d l - d * p10 l) <= (1 # 2) * p10 (l - 14).
Proof. intros c d l. split; [apply out_text_shape | split; [apply out_rendering_parse | apply out_value_rounding]]. Qed.
Print Assumptions C17_rdpe_print_rounding.

Example C17_rdpe_print_rounding_ex :    (* the carry to 10.00000000000000, a negative mantissa, exponent padding *)
  out_text Ex (99999999999999996 # 10 ^ 16) 5 = " 10.00000000000000x+005"%string /\
  out_text Ee (- (5 # 4)) (- 63) = "-1.25000000000000e-063"%string /\
  out_text Ex (1 # 8) 12345 = " 0.12500000000000x+12345"%string /\ out_text Ee 0 0 = " 0.00000000000000e+000"%string /\
  zero_text (- 12) = "0.e-12"%string /\ zero_text 1 = "0.e1"%string.
Proof. repeat split; vm_compute; reflexivity. Qed.

(* THE RADIUS CLAUSE.  For every normalised positive DPE (mantissa in [1/2, 1)), ANY exponent, and every libm whose log10 is
   within ulog (absolute) on [1/2, 1) and whose pow (10, y) is within upow (relative) for |y| < 1: what rdpe_out_str /
   rdpe_out_str_u print (out_value of rdpe_get_dl's result, see C17_rdpe_print_rounding) is at least
     stored * (1 - ln 10 * D - upow - 5e-14),   D = (1 + 2^-53) ulog + (|esp| + 1) * 5/4 * 2^-53
   (D: the error of the double-precision log10 (m) + esp * LOG10_2; 5e-14: the 14-decimal rounding of a mantissa >= 0.1). *)
Theorem C17_printed_radius_ge : forall (flog10 fpow10 : Q -> Q) (ulog upow : R),
  (0 <= ulog)%R -> (0 <= upow <= / 2)%R ->
  (forall m : Q, 1 # 2 <= m -> m < 1 -> (Rabs (Q2R (flog10 m) - log10R (Q2R m)) <= ulog)%R) ->
  (forall y : Q, Qabs y < 1 -> (Rabs (Q2R (fpow10 y) - pow10R (Q2R y)) <= upow * pow10R (Q2R y))%R) ->
  forall (m : Q) (esp : Z), 1 # 2 <= m -> m < 1 ->
  let '(d, l) := get_dl flog10 fpow10 m esp in
  (Q2R m * Q2R (pow2 esp) * (1 - ln 10 * Derr ulog esp - upow - 5 / 10 ^ 14) <= Q2R (out_value d l))%R.
Proof. exact printed_radius_ge. Qed.
Print Assumptions C17_printed_radius_ge.

(* with a libm good to one ulp (log10 on [1/2,1) within 2^-53 absolute, pow within 2^-52 relative): never below
   stored * (1 - 1e-13) when |esp| <= 150, and stored * (1 - 4.1e-13) over the whole double range *)
Theorem C17_printed_radius_ge_1ulp : forall (flog10 fpow10 : Q -> Q),
  (forall m : Q, 1 # 2 <= m -> m < 1 -> (Rabs (Q2R (flog10 m) - log10R (Q2R m)) <= / 2 ^ 53)%R) ->
  (forall y : Q, Qabs y < 1 -> (Rabs (Q2R (fpow10 y) - pow10R (Q2R y)) <= / 2 ^ 52 * pow10R (Q2R y))%R) ->
  forall (m : Q) (esp : Z), 1 # 2 <= m -> m < 1 ->
  let '(d, l) := get_dl flog10 fpow10 m esp in
  ((Z.abs esp <= 150)%Z -> (Q2R m * Q2R (pow2 esp) * (1 - 1 / 10 ^ 13) <= Q2R (out_value d l))%R) /\
  ((Z.abs esp <= 1100)%Z -> (Q2R m * Q2R (pow2 esp) * (1 - 41 / 10 ^ 14) <= Q2R (out_value d l))%R).
Proof. exact printed_radius_ge_1ulp. Qed.
Print Assumptions C17_printed_radius_ge_1ulp.

Example C17_printed_radius_ex2 :      (* the hypotheses are met by a concrete DPE; the model prints 0.75 * 2^-143 as 0.67262326287591x-043 *)
  (1 # 2 <= 3 # 4) /\ (3 # 4 < 1) /\
  rdpe_out_str (fun _ => - (4501392381066241 # 36028797018963968)) (fun _ => 3029225876048677 # 4503599627370496) (3 # 4) (- 143)
  = " 0.67262326287591x-043"%string.
Proof. repeat split; vm_compute; solve [reflexivity | discriminate]. Qed.

(* REFUTED: the 1e-13 print-rounding allowance of the property does not hold over the double range, even with a libm within
   half an ulp at the two points used.  Witness m = 0x1.ddc72d40a34e9p-1, esp = -1003: printed 0.10886056081147x-301, 1.68e-13
   short.  The check replays it on the real rdpe_out_str on every run (known finding radius:rdpe_out_str-log10-pow-inexact). *)
Theorem C17_printed_radius_1e13_refuted :
  exists (m : Q) (esp : Z) (lgv pwv fr : Q),
    1 # 2 <= m /\ m < 1 /\
    (Rabs (Q2R lgv - log10R (Q2R m)) <= / 2 ^ 54)%R /\
    Qabs fr < 1 /\ (Rabs (Q2R pwv - pow10R (Q2R fr)) <= / 2 ^ 53 * pow10R (Q2R fr))%R /\
    forall flog10 fpow10 : Q -> Q, flog10 m = lgv -> fpow10 fr = pwv ->
      let '(d, l) := get_dl flog10 fpow10 m esp in
      out_value d l < m * pow2 esp * (1 - (1 # 10 ^ 13)).
Proof. exact printed_radius_1e13_refuted. Qed.
Print Assumptions C17_printed_radius_1e13_refuted.

(* REFUTED: the one-unit clause for the gnuplot formats.  A stored component 623399332000000040000000 goes through
   mpf_get_rdpe and rdpe_out_str_u and is printed " 6.23399332000003e+023", more than two units of its last digit away
   (libm within half an ulp at the two points used).  Replayed by the check (known finding close:gnuplot:rdpe_out_str_u-last-digits-inexact). *)
Theorem C17_gnuplot_unit_refuted :
  exists (x m : Q) (esp : Z) (lgv pwv fr : Q),
    mpf_get_rdpe x = (m, esp) /\
    (Rabs (Q2R lgv - log10R (Q2R m)) <= / 2 ^ 54)%R /\
    Qabs fr < 1 /\ (Rabs (Q2R pwv - pow10R (Q2R fr)) <= / 2 ^ 53 * pow10R (Q2R fr))%R /\
    forall flog10 fpow10 : Q -> Q, flog10 m = lgv -> fpow10 fr = pwv ->
      gnuplot_component flog10 fpow10 x = " 6.23399332000003e+023"%string /\
      let '(d, l) := get_dl flog10 fpow10 m esp in
      2 * p10 (l - 14) < Qabs (out_value d l - x).
Proof. exact gnuplot_unit_refuted. Qed.
Print Assumptions C17_gnuplot_unit_refuted.

(* the "0.e<l>" branch as now coded (rdpe_get_dl of the magnitude; l++ when d >= 1): the printed power of ten covers the
   stored magnitude of the DPE up to the error of the computed logarithm and of pow, for every libm as above *)
Theorem C17_zero_branch_code_covers : forall (flog10 fpow10 : Q -> Q) (ulog upow : R),
  (0 <= ulog)%R -> (0 <= upow <= / 2)%R ->
  (forall m : Q, 1 # 2 <= m -> m < 1 -> (Rabs (Q2R (flog10 m) - log10R (Q2R m)) <= ulog)%R) ->
  (forall y : Q, Qabs y < 1 -> (Rabs (Q2R (fpow10 y) - pow10R (Q2R y)) <= upow * pow10R (Q2R y))%R) ->
  forall (m : Q) (esp : Z), 1 # 2 <= m -> m < 1 ->
  let '(d, l) := get_dl flog10 fpow10 m esp in
  let l' := if Qle_bool 1 d then (l + 1)%Z else l in
  (Q2R m * Q2R (pow2 esp) <= pow10R (IZR l') * pow10R (Derr ulog esp) * (1 + 2 * upow))%R.
Proof. exact zero_branch_code_covers. Qed.
Print Assumptions C17_zero_branch_code_covers.

Example C17_zero_branch_code_ex :    (* 5 = 0.625 * 2^3 -> "0.e1" (d = 5 >= 1: l + 1), with glibc's log10 (0.625) and pow (10, .) = 5 *)
  zero_text (zero_exp_code (fun _ => - (919274677828095 # 4503599627370496)) (fun _ => 5 # 1) (5 # 1)) = "0.e1"%string.
Proof. vm_compute. reflexivity. Qed.

(* digits: a radius / gnuplot component shows at most 16 significant digits (|d| <= 10 whenever pow is within upow <= 1e-16..);
   per format: requested + 10 (compact, bare, verbose), 16 (gnuplot formats), GMP's cap of the stored precision (full) *)
Theorem C17_digits_every_format : forall (f : fmt) (lg : Q) (precf D : Z), (0 <= D <= 1000000000)%Z ->
  (max_digits f lg precf (prec_of_digits D) <=
     match f with Compact | Bare | Verbose => D + 10 | Gnuplot | GnuplotFull => 16 | Full => gmp_digit_cap precf end)%Z /\
  forall (c : echar) (d : Q) (l : Z), Qabs d <= 10 ->
    exists p, decimal_parse (render (out_rendering c d l)) = Some p /\ (sig_digits p <= 16)%nat.
Proof.
  intros f lg precf D HD. split; [| apply out_rendering_digits].
  destruct f; simpl max_digits; try lia; apply C17_requested_digits_margin; exact HD.
Qed.
Print Assumptions C17_digits_every_format.

(* mpf_get_rdpe (mpf_get_d of the fraction, rdpe_set_2dl with its frexp) is the normalised 53-bit TRUNCATION of the stored value:
   mantissa in [1/2, 1), same sign, magnitude not above and less than 2^-52 (relative) below the stored one *)
Theorem C17_mpf_get_rdpe_truncation : forall x : Q, ~ x == 0 ->
  let '(m, e) := mpf_get_rdpe x in
  1 # 2 <= Qabs m /\ Qabs m < 1 /\
  Qabs (m * pow2 e) <= Qabs x /\ Qabs x - Qabs (m * pow2 e) < pow2 (- 52) * Qabs x /\
  (0 <= x -> 0 <= m) /\ (x <= 0 -> m <= 0).
Proof. exact mpf_get_rdpe_spec. Qed.
Print Assumptions C17_mpf_get_rdpe_truncation.

Example C17_mpf_get_rdpe_ex :     (* 2^64 - 1 (all ones) truncates to 1 - 2^-53, it does not round up to 1 *)
  mpf_get_rdpe ((2 ^ 64 - 1) # 1) = ((2 ^ 53 - 1) * 1 # 2 ^ 53, 64%Z) /\ mpf_get_rdpe 0 = (0, 0%Z) /\
  fst (mpf_get_rdpe (- (5 # 1))) == - (5 # 8).
Proof. repeat split; vm_compute; reflexivity. Qed.

(* the other side of the radius clause: printed <= stored * 10^D * (1 + upow + 5e-14) *)
Theorem C17_printed_radius_le : forall (flog10 fpow10 : Q -> Q) (ulog upow : R),
  (0 <= ulog)%R -> (0 <= upow <= / 2)%R ->
  (forall m : Q, 1 # 2 <= m -> m < 1 -> (Rabs (Q2R (flog10 m) - log10R (Q2R m)) <= ulog)%R) ->
  (forall y : Q, Qabs y < 1 -> (Rabs (Q2R (fpow10 y) - pow10R (Q2R y)) <= upow * pow10R (Q2R y))%R) ->
  forall (m : Q) (esp : Z), 1 # 2 <= m -> m < 1 ->
  let '(d, l) := get_dl flog10 fpow10 m esp in
  (Q2R (out_value d l) <= Q2R m * Q2R (pow2 esp) * pow10R (Derr ulog esp) * (1 + upow + 5 / 10 ^ 14))%R.
Proof. intros fl fp ul up H1 H2 H3 H4. exact (printed_radius_le fl fp ul up H1 H2 H3 H4). Qed.
Print Assumptions C17_printed_radius_le.

(* a gnuplot component (mps_outfloat: mpf_get_rdpe, rdpe_out_str_u) of a positive stored value x: two-sided bound in terms of x.
   Partial: positive x only (the negative branch of rdpe_get_dl mirrors it, not proved); a bound relative to x, not the
   one-unit clause, which is refuted (C17_gnuplot_unit_refuted) *)
Theorem C17_gnuplot_component_partial : forall (flog10 fpow10 : Q -> Q) (ulog upow : R),
  (0 <= ulog)%R -> (0 <= upow <= / 2)%R ->
  (forall m : Q, 1 # 2 <= m -> m < 1 -> (Rabs (Q2R (flog10 m) - log10R (Q2R m)) <= ulog)%R) ->
  (forall y : Q, Qabs y < 1 -> (Rabs (Q2R (fpow10 y) - pow10R (Q2R y)) <= upow * pow10R (Q2R y))%R) ->
  forall x : Q, 0 < x ->
  let '(m, esp) := mpf_get_rdpe x in
  let '(d, l) := get_dl flog10 fpow10 m esp in
  ((0 <= 1 - ln 10 * Derr ulog esp - upow - 5 / 10 ^ 14)%R ->
   (Q2R x * (1 - / 2 ^ 52) * (1 - ln 10 * Derr ulog esp - upow - 5 / 10 ^ 14) <= Q2R (out_value d l))%R) /\
  (Q2R (out_value d l) <= Q2R x * pow10R (Derr ulog esp) * (1 + upow + 5 / 10 ^ 14))%R.
Proof. intros fl fp ul up H1 H2 H3 H4. exact (gnuplot_component_bounds fl fp ul up H1 H2 H3 H4). Qed.
Print Assumptions C17_gnuplot_component_partial.

(* REFUTED: "no more digits than requested plus a fixed margin" for format full: mps_outfloat prints with mpf_out_str (.., 0, t),
   i.e. GMP's cap for the STORED precision, which exceeds requested + margin for every margin (known finding
   digits:full-format-prints-all-stored-digits, replayed by the check) *)
Theorem C17_full_digits_refuted : forall margin D : Z, exists precf : Z, (D + margin < max_digits Full 0 precf (prec_of_digits D))%Z.
Proof. exact full_digits_unbounded. Qed.
Print Assumptions C17_full_digits_refuted.
