(* C17 - printed output is a faithful rendering of the computed results.
   Statements only; proofs in OutFmt/OutProps.v, model in OutFmt/OutModel.v (extracted to bin/outfmt and
   run against the real mps_output on every check).
   Trusted / modelled, not verified: libm (logarithms enter as bracketed rationals), GMP's mpf_out_str
   (round_sig and gmp_digit_cap are its stated specification, compared with the code by the check). *)
Require Import ZArith QArith Qabs String List Permutation.
Require Import MPSV.OutFmt.OutModel MPSV.OutFmt.OutProps.
Import ListNotations.
Open Scope Q_scope.

(* reading a printed number back: sign, digits, optional fraction, optional e/E/x exponent mean
   +-(digits) * 10^(exponent - number of fraction digits); decimal_parse inverts the printer *)
Theorem C17_decimal_value_spec : forall r : rendering, rendering_wf r ->
  decimal_parse (render r) =
    Some {| p_mant := (let m := val_from 0 (r_ip r ++ frac_digits r) in if r_neg r then - m else m)%Z;
            p_exp := (exp_value r - Z.of_nat (length (frac_digits r)))%Z;
            p_ndigits := (length (r_ip r) + length (frac_digits r))%nat;
            p_neg := r_neg r |}
  /\ exists q, decimal_value (render r) = Some q /\ q == rendering_value r.
Proof. intros r H; split; [exact (decimal_parse_render r H) | exact (decimal_value_render r H)]. Qed.
Print Assumptions C17_decimal_value_spec.

Example C17_decimal_value_ex_gmp :      (* GMP's layout, negative exponent *)
  decimal_parse "-0.7115983611e-80" = Some {| p_mant := -7115983611; p_exp := -90; p_ndigits := 11; p_neg := true |}
  /\ render {| r_neg := true; r_ip := [D0]; r_fp := Some [D7; D1; D1; D5; D9; D8; D3; D6; D1; D1];
               r_exp := Some (Ee, EMinus, [D8; D0]) |} = "-0.7115983611e-80"%string.
Proof. split; reflexivity. Qed.
Example C17_decimal_value_ex_dpe :      (* the radius line of format full *)
  decimal_parse "0.60771633573360x-063" = Some {| p_mant := 60771633573360; p_exp := -77; p_ndigits := 15; p_neg := false |}.
Proof. reflexivity. Qed.
Example C17_decimal_value_ex_bad : decimal_parse "0.5e" = None /\ decimal_parse "." = None /\ decimal_parse "1.2.3" = None.
Proof. repeat split; reflexivity. Qed.

(* rounding to d significant digits (specification of mpf_out_str): error at most half a unit of the
   d-th digit, in particular at most one unit *)
Theorem C17_round_sig_error : forall (d e : Z) (x : Q),
  Qabs (round_sig d e x - x) <= (1 # 2) * p10 (e - d) /\ Qabs (round_sig d e x - x) <= p10 (e - d).
Proof. intros; split; [apply round_sig_error | apply round_sig_error_unit]. Qed.
Print Assumptions C17_round_sig_error.

Example C17_round_sig_ex_carry :        (* 0.99996 to 4 digits rounds up across a power of ten: 1.000 *)
  is_dexp_b 0 (99996 # 100000) = true /\ round_sig 4 0 (99996 # 100000) == 1 /\
  round_sig 4 0 (99994 # 100000) == 9999 # 10000 /\ round_sig 3 2 (- (12345 # 1000)) == - (123 # 10).
Proof. repeat split; vm_compute; reflexivity. Qed.

(* the printed string is the d-digit rounding of the stored component and shows no digit below the
   rounding position  ==>  printed and stored differ by at most one unit of the last printed digit, and the
   printed value is within radius + unit of anything the stored value is within radius of.
   close_b is the predicate the check evaluates on every printed component. *)
Theorem C17_printed_component_close : forall (s : string) (p : parsed) (d e : Z) (x : Q),
  decimal_parse s = Some p ->
  parsed_value p == round_sig d e x -> (e - d <= p_exp p)%Z ->
  Qabs (parsed_value p - x) <= parsed_unit p /\ close_b p x = true /\
  forall root r, Qabs (x - root) <= r -> Qabs (parsed_value p - root) <= r + parsed_unit p.
Proof.
  intros s p d e x _ Hv He. destruct (printed_component_close p d e x Hv He) as [H1 H2].
  split; [exact H1 | split; [apply close_b_spec; exact H1 | exact H2]].
Qed.
Print Assumptions C17_printed_component_close.

Example C17_printed_component_close_ex :   (* "0.1e1" is what GMP shows for 0.99996 at 4 digits: unit 1, not 10^-4 *)
  exists p, decimal_parse "0.1e1" = Some p /\ parsed_value p == round_sig 4 0 (99996 # 100000) /\
            (0 - 4 <= p_exp p)%Z /\ parsed_unit p == 1.
Proof. eexists; split; [reflexivity |]. repeat split; vm_compute; try reflexivity; discriminate. Qed.

Theorem C17_close_b_spec : forall p x, close_b p x = true <-> Qabs (parsed_value p - x) <= parsed_unit p.
Proof. exact close_b_spec. Qed.
Print Assumptions C17_close_b_spec.

(* the digit count mps_outfloat asks for, and GMP grants, never exceeds any of its four bounds; with
   mpsolve -o D the bound out_digit is D + 10: the "fixed margin" is 10 digits (compact, bare, verbose) *)
Theorem C17_printed_digits_bounded : forall (lg : Q) (precf prec_out : Z),
  (printed_digits lg precf prec_out <= out_digit prec_out)%Z /\
  (printed_digits lg precf prec_out <= prec_digits precf)%Z /\
  (printed_digits lg precf prec_out <= digit_count lg)%Z /\
  (printed_digits lg precf prec_out <= gmp_digit_cap prec_out)%Z.
Proof. exact printed_digits_bounded. Qed.
Print Assumptions C17_printed_digits_bounded.

Theorem C17_requested_digits_margin : forall (lg : Q) (precf D : Z), (0 <= D <= 1000000000)%Z ->
  (printed_digits lg precf (prec_of_digits D) <= D + 10)%Z.
Proof.
  intros lg precf D HD. pose proof (out_digit_requested D HD) as Hreq.
  destruct (printed_digits_bounded lg precf (prec_of_digits D)) as [Hb _]. eapply Z.le_trans; eassumption.
Qed.
Print Assumptions C17_requested_digits_margin.

Example C17_printed_digits_ex :   (* -o 15, radius 1e-31 relative, 896-bit value: GMP's cap (21) binds, not out_digit (25) *)
  prec_of_digits 15 = 50%Z /\ out_digit 50 = 25%Z /\ gmp_digit_cap 50 = 21%Z /\
  outfloat_plan (- (3076 # 100)) 0 896 50 = PSig 21 /\
  outfloat_plan (- (15 # 1)) 0 64 50 = PSig 16 /\ outfloat_plan (6 # 10) (7 # 10) 64 50 = PZeroExp 1 /\ outfloat_plan (6 # 10) (- (7 # 10)) 64 50 = PZeroExp 0.
Proof. repeat split; vm_compute; reflexivity. Qed.

(* mps_output's loop: zero roots first (none when the set is the outside of the unit disc), then exactly the
   roots whose inclusion is not OUT, each once, in s->order[] order *)
Theorem C17_printed_count : forall (zero_roots : nat) (outside : bool) (order : list nat) (incl_of : nat -> incl) (n : nat),
  Permutation order (seq 0 n) ->
  let lines := printed_lines zero_roots outside order incl_of in
  let z := if outside then 0%nat else zero_roots in
  length lines = (z + length (filter (shown incl_of) (seq 0 n)))%nat /\
  firstn z lines = repeat None z /\
  Permutation (skipn z lines) (map Some (filter (shown incl_of) (seq 0 n))) /\
  (forall i, In (Some i) lines <-> (i < n)%nat /\ incl_of i <> IncOut).
Proof. intros; apply printed_count; assumption. Qed.
Print Assumptions C17_printed_count.

Example C17_printed_count_ex :
  printed_lines 2 false [2; 0; 1]%nat (fun i => match i with 0%nat => IncOut | 1%nat => IncIn | _ => IncUnknown end)
    = [None; None; Some 2%nat; Some 1%nat]
  /\ printed_lines 2 true [2; 0; 1]%nat (fun _ => IncIn) = [Some 2%nat; Some 0%nat; Some 1%nat].
Proof. split; reflexivity. Qed.

(* goal count: inside + outside + uncertain = degree *)
Theorem C17_count_goal_sum : forall zero_roots outside incls,
  let '(a, b, c) := count_roots zero_roots outside incls in (a + b + c = zero_roots + length incls)%nat.
Proof. exact count_roots_sum. Qed.
Print Assumptions C17_count_goal_sum.

(* radius: only the soundness of the checked predicate is proved.  Missing: rdpe_get_dl computes the 15 printed
   digits through log10/pow (libm) and printf rounds them, so "printed >= stored * (1 - 1e-13)" is established
   per run by the check, not here. *)
Theorem C17_printed_radius_ge_partial : forall p r slack,
  radius_ge_b p r slack = true <-> r * (1 - slack) <= parsed_value p.
Proof. exact radius_ge_b_spec. Qed.
Print Assumptions C17_printed_radius_ge_partial.

Example C17_printed_radius_ex : exists p, decimal_parse "0.18917529268385x-043" = Some p /\
  radius_ge_b p (189175292683851 # 10 ^ 58) (1 # 10 ^ 13) = true /\ radius_ge_b p (1892 # 10 ^ 47) (1 # 10 ^ 13) = false.
Proof. eexists; split; [reflexivity |]; split; vm_compute; reflexivity. Qed.

(* the "0.e<l>" branch (radius > 3.16 |x|).  Partial: with an exact logarithm it is within one unit when |x| <= 1;
   libm's error is not covered. *)
Theorem C17_zero_branch_close_partial : forall (x lgabs : Q),
  lgabs <= 0 -> (forall k : Z, lgabs <= inject_Z k -> Qabs x <= p10 k) ->
  Qabs (0 - x) <= p10 (trunc lgabs).
Proof. exact zero_branch_close_small. Qed.
Print Assumptions C17_zero_branch_close_partial.

Example C17_zero_branch_close_ex : trunc (- (15911 # 100)) = (-159)%Z /\ trunc (- (1 # 2)) = 0%Z.
Proof. split; reflexivity. Qed.

(* Refuted for |x| > 1 FOR THE CODE BEFORE /repo commit 0b5aaff1 (outfloat_plan_prefix): rdpe_get_dl's exponent is the
   truncated logarithm, i.e. the exponent of d.ddd * 10^l, not of GMP's 0.ddd * 10^l.  A component 5 with radius 20
   printed "0.e0" and |0 - 5| > 10^0.  The defect was fixed (`if (d >= 1.0) l++;`); the check replays the witness on
   every run (state "zero-branch-abs-ge-1") and now sees "0.e1", which the model of the code as it is (outfloat_plan,
   DpeModel.zero_exp_code) renders too: see C17_zero_branch_code_covers. *)
Theorem C17_zero_branch_prefix_refuted :
  exists (x rad lg lgabs : Q) (p : parsed),
    lg_within (rad / x) lg 1000 /\ lg_within x lgabs 1000 /\
    outfloat_plan_prefix lg lgabs 64 53 = PZeroExp 0 /\
    decimal_parse "0.e0" = Some p /\ parsed_unit p == p10 0 /\ close_b p x = false.
Proof. exact zero_branch_unit_refuted. Qed.
Print Assumptions C17_zero_branch_prefix_refuted.

(* with the exponent of the repaired code (logarithm as a rational: outfloat_plan) the branch is within one unit for every x
   (exact logarithm assumed: partial in the same sense) *)
Theorem C17_zero_branch_fixed_close_partial : forall (x lgabs : Q),
  (forall k : Z, lgabs <= inject_Z k -> Qabs x <= p10 k) ->
  Qabs (0 - x) <= p10 (zero_exp_fixed lgabs).
Proof. exact zero_branch_fixed_close. Qed.
Print Assumptions C17_zero_branch_fixed_close_partial.

Example C17_zero_branch_fixed_ex : zero_exp_fixed (699 # 1000) = 1%Z /\ zero_exp_fixed (- (15911 # 100)) = (-159)%Z /\ zero_exp_fixed 0 = 1%Z.
Proof. repeat split; reflexivity. Qed.

(* layout: which numeric fields a line has; a zero root in gnuplot-full is four literal zeros (since /repo commit c368997d) *)
Example C17_layout_ex :
  line_fields Verbose (Some ANone) = [FRe true; FIm false] /\
  line_fields Compact (Some AReal) = [FRe true; FLitZero] /\
  line_fields Full None = [FLitZero; FLitZero; FLitZero] /\
  line_fields GnuplotFull (Some AImag) = [FLitZero; FIm true; FRad; FRad] /\
  line_fields GnuplotFull None = [FLitZero; FLitZero; FLitZero; FLitZero].
Proof. repeat split; reflexivity. Qed.
