(* C05 -- the solver's guarantees do not depend on the number of worker threads or on the interleaving.
   Statements only.  Models: MPSV.Conc.JobQueue (mps_thread_job_queue_next), MPSV.Conc.WorkerModel
   (one iteration packet: k worker tasks over the job queue, the root / Aberth / global Aberth / gs
   mutexes and the non-atomic counter nzeros; `run p s0 tr = Some s` = s is reached by the interleaving
   tr), MPSV.Conc.LockOrder (generic lock semantics with wait-for graph).
   Tie to the C code: the real solver runs under the deterministic scheduler shim; every trace is
   replayed through the extracted `step` (checks/C05.py, ocaml/worker_driver.ml), the observed lock
   edges regenerate Conc/Gen/LockGen.v and LockGen_acyclic below is re-checked. *)
From Coq Require Import List Arith Bool String Relations Reals.
From MPSV Require Import Conc.JobQueue Conc.WorkerModel Conc.WorkerProps Conc.LockOrder Conc.Gen.LockGen.
Import ListNotations.
Local Close Scope R_scope.
Local Open Scope nat_scope.

(* job queue: sweep a < max_it hands out the roots in clusterisation order with iter = a; each
   (root, iter) pair with iter < max_it is returned by exactly one call; from call n*max_it on only
   iter = max_it jobs or EXCEP come out, and from call n*(max_it+1) on only EXCEP *)
Theorem C05_jobqueue_each_once : forall cl max_it,
  wf_cl cl -> NoDup (List.concat cl) ->
  let n := List.length (List.concat cl) in
  (forall a b, a < max_it -> b < n -> q_nth cl max_it (a * n + b) = Job (nth b (List.concat cl) 0) a) /\
  (forall k1 k2 x it, it < max_it -> q_nth cl max_it k1 = Job x it -> q_nth cl max_it k2 = Job x it -> k1 = k2) /\
  (forall x it, In x (List.concat cl) -> it < max_it -> exists k, k < n * max_it /\ q_nth cl max_it k = Job x it) /\
  (forall k, n * (max_it + 1) <= k -> q_nth cl max_it k = JExcep).
Proof.
  intros cl max_it Hcl Hnd n. split; [intros; apply q_nth_sweep; assumption|].
  destruct (q_each_once cl max_it Hcl Hnd) as [H1 H2].
  split; [exact H1|]. split; [exact H2|]. intros k Hk. apply q_nth_excep; assumption.
Qed.
Print Assumptions C05_jobqueue_each_once.

Example C05_jobqueue_example :
  map (q_nth [[2; 0]; [1]; [3]] 2) (seq 0 11) =
  [Job 2 0; Job 0 0; Job 1 0; Job 3 0;  Job 2 1; Job 0 1; Job 1 1; Job 3 1;  Job 2 2; JExcep; JExcep].
Proof. reflexivity. Qed.

(* at most one worker is between lock root i and unlock root i, in every reachable state *)
Theorem C05_workers_mutex : forall p again0 nz0 tr s,
  run p (w_init p again0 nz0) tr = Some s ->
  forall i t1 t2, holds_root (w_pc s t1) i = true -> holds_root (w_pc s t2) i = true -> t1 = t2.
Proof. exact workers_mutex. Qed.
Print Assumptions C05_workers_mutex.

(* ... and only that worker writes the root's state: any step either leaves all `again` flags alone or is
   the flip of again[i] by the worker that holds roots_mutex[i] *)
Theorem C05_workers_single_writer : forall p again0 nz0 tr s l s',
  run p (w_init p again0 nz0) tr = Some s -> step p s l = Some s' ->
  (forall j, w_again s' j = w_again s j) \/
  (exists t i, l = LFlip t /\ w_rlock s i = Some t /\ holds_root (w_pc s t) i = true /\
               w_again s i = true /\ w_again s' i = false /\ forall j, j <> i -> w_again s' j = w_again s j).
Proof. exact workers_single_writer. Qed.
Print Assumptions C05_workers_single_writer.

(* the non-atomic nzeros++ can lose updates but never overshoots: nzeros is at most its initial value
   plus the number of DISTINCT roots whose flag really went from set to clear; so the exit test
   `nzeros >= required_zeros` never fires while fewer roots than that are done.  (A lost update only
   delays the exit: the packet then ends through EXCEP, see C05_workers_terminate.) *)
Theorem C05_workers_nzeros_never_overshoots : forall p again0 nz0 tr s,
  run p (w_init p again0 nz0) tr = Some s ->
  w_nzeros s <= nz0 + List.length (w_flipped s) /\ NoDup (w_flipped s) /\
  (forall i, In i (w_flipped s) -> again0 i = true /\ w_again s i = false).
Proof. exact workers_nzeros_never_overshoots. Qed.
Print Assumptions C05_workers_nzeros_never_overshoots.

(* the lost update is real in the model: two workers, both flags cleared, nzeros = 1 at the end *)
Definition ex_p : params := {| p_k := 2; p_max_it := 3; p_cl := [[0; 1]]; p_B := 10 |}.
Definition ex_lost_update : list label :=
  [LBegin 0; LBegin 1; LLockQ 0; LUnlockQ 0; LLockQ 1; LUnlockQ 1; LLockR 0 0; LLockR 1 1;
   LFlip 0; LFlip 1; LRead 0; LRead 1; LWrite 0; LWrite 1; LUnlockR 0 0; LUnlockR 1 1; LRet 0; LRet 1].
Example C05_workers_nzeros_lost_update_possible :
  exists s, run ex_p (w_init ex_p (fun _ => true) 0) ex_lost_update = Some s /\
            w_nzeros s = 1 /\ w_again s 0 = false /\ w_again s 1 = false /\ w_flipped s = [1; 0].
Proof. eexists. split; [vm_compute; reflexivity|]. repeat split. Qed.

(* every interleaving is finite (explicit bound on its length) and contains at most n*(max_it+1)+k
   fetches; a worker that was handed EXCEP can only return *)
Theorem C05_workers_terminate : forall p again0 nz0 tr s,
  wf_cl (p_cl p) ->
  run p (w_init p again0 nz0) tr = Some s ->
  let n := List.length (List.concat (p_cl p)) in
  List.length tr <= (p_B p + 9) * (n * (p_max_it p + 1)) + 4 * p_k p /\
  list_sum (map is_fetch tr) <= n * (p_max_it p + 1) + p_k p.
Proof. intros p again0 nz0 tr s Hcl Hr. exact (workers_terminate p Hcl again0 nz0 tr s Hr). Qed.
Print Assumptions C05_workers_terminate.

Theorem C05_workers_after_excep_only_return : forall p s t l s',
  w_pc s t = Got JExcep -> step p s l = Some s' -> actor l = t -> l = LRet t /\ w_pc s' t = Done.
Proof. exact workers_after_excep. Qed.
Print Assumptions C05_workers_after_excep_only_return.

(* data side: whatever values the Aberth correction is computed from, move-and-enlarge (and replacing a
   disc by a certified Newton disc, C01) keeps a root in every disc, for every interleaving *)
Theorem C05_workers_inclusion_invariant :
  forall (X : Type) (dist : X -> X -> R),
  (forall a b c, (dist a c <= dist a b + dist b c)%R) -> (forall a b, dist a b = dist b a) ->
  forall (is_root : X -> Prop) d d',
  clos_refl_trans _ (dstep X dist is_root) d d' ->
  (forall i, contains X dist is_root (d i)) -> forall i, contains X dist is_root (d' i).
Proof. exact workers_inclusion_invariant. Qed.
Print Assumptions C05_workers_inclusion_invariant.

(* lock order: threads that request a lock only while all the locks they own are strictly below it
   never form a cycle in the wait-for graph *)
Theorem C05_lock_order_no_deadlock :
  forall (L : Type) (L_eq_dec : forall a b : L, {a = b} + {a <> b}) (lt_l : L -> L -> Prop),
  (forall a, ~ lt_l a a) -> (forall a b c, lt_l a b -> lt_l b c -> lt_l a c) ->
  forall s, reachable L L_eq_dec lt_l s -> forall t, ~ clos_trans _ (waits_for L s) t t.
Proof. exact lock_order_no_deadlock. Qed.
Print Assumptions C05_lock_order_no_deadlock.

(* the order exists for the solver: the observed class relation is acyclic (executable test, sound by
   acyclic_sound), same-class locks are only nested by increasing index; every (held, acquired) pair
   of every explored trace is then strictly increasing in lock_lt *)
Theorem LockGen_acyclic :
  acyclic lock_edges = true /\ forallb (fun x => fst (snd x) <? snd (snd x)) same_class_pairs = true.
Proof. vm_compute. split; reflexivity. Qed.
Print Assumptions LockGen_acyclic.

Theorem C05_lock_order_exists :
  exists rank : lock_class -> nat,
    (forall a, ~ lock_lt rank a a) /\ (forall a b c, lock_lt rank a b -> lock_lt rank b c -> lock_lt rank a c) /\
    forall h a, pair_allowed lock_edges h a -> lock_lt rank h a.
Proof.
  destruct (acyclic_sound lock_edges (proj1 LockGen_acyclic)) as (rank & Hr).
  exists rank. split; [apply lock_lt_irrefl|]. split; [apply lock_lt_trans|]. apply allowed_lt. exact Hr.
Qed.
Print Assumptions C05_lock_order_exists.

Example C05_lock_order_cycle_detected :
  acyclic (("aberth", "root")%string :: lock_edges) = false \/ ~ In ("root", "aberth")%string lock_edges.
Proof. vm_compute. left. reflexivity. Qed.
