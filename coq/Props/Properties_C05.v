(* C05 -- the solver's guarantees do not depend on the number of worker threads or on the interleaving.
   Statements only.  Models: MPSV.Conc.JobQueue (mps_thread_job_queue_next), MPSV.Conc.WorkerModel
   (one iteration packet: k worker tasks over the job queue, the root / Aberth / global Aberth / gs
   mutexes and the non-atomic counter nzeros; `run p s0 tr = Some s` = s is reached by the interleaving
   tr), MPSV.Conc.LockOrder (generic lock semantics with wait-for graph).
   Tie to the C code: the real solver runs under the deterministic scheduler shim; every trace is
   replayed through the extracted `step` (checks/C05.py, ocaml/worker_driver.ml), the observed lock
   edges regenerate Conc/Gen/LockGen.v and LockGen_acyclic below is re-checked. *)
From Coq Require Import List Arith Bool String Relations Reals.
From MPSV Require Import Conc.JobQueue Conc.WorkerModel Conc.WorkerProps Conc.LockOrder Conc.Gen.LockGen.
From MPSV Require Import Conc.WorkerRefined Conc.WorkerRefinedProps.
Import ListNotations.
Local Close Scope R_scope.
Local Open Scope nat_scope.

(* job queue: sweep a < max_it hands out the roots in clusterisation order with iter = a; each
   (root, iter) pair with iter < max_it is returned by exactly one call; from call n*max_it on only
   iter = max_it jobs or EXCEP come out, and from call n*(max_it+1) on only EXCEP *)
Theorem C05_jobqueue_each_once : forall cl max_it,
  wf_cl cl -> NoDup (List.concat cl) ->
  let n := List.length (List.concat cl) in
  (forall a b, a < max_it -> b < n -> q_nth cl max_it (a * n + b) = Job (nth b (List.concat cl) 0) a) /\
  (forall k1 k2 x it, it < max_it -> q_nth cl max_it k1 = Job x it -> q_nth cl max_it k2 = Job x it -> k1 = k2) /\
  (forall x it, In x (List.concat cl) -> it < max_it -> exists k, k < n * max_it /\ q_nth cl max_it k = Job x it) /\
  (forall k, n * (max_it + 1) <= k -> q_nth cl max_it k = JExcep).
Proof.
  intros cl max_it Hcl Hnd n. split; [intros; apply q_nth_sweep; assumption|].
  destruct (q_each_once cl max_it Hcl Hnd) as [H1 H2].
  split; [exact H1|]. split; [exact H2|]. intros k Hk. apply q_nth_excep; assumption.
Qed.
Print Assumptions C05_jobqueue_each_once.

Example C05_jobqueue_example :
  map (q_nth [[2; 0]; [1]; [3]] 2) (seq 0 11) =
  [Job 2 0; Job 0 0; Job 1 0; Job 3 0;  Job 2 1; Job 0 1; Job 1 1; Job 3 1;  Job 2 2; JExcep; JExcep].
Proof. reflexivity. Qed.

(* at most one worker is between lock root i and unlock root i, in every reachable state *)
Theorem C05_workers_mutex : forall p again0 nz0 tr s,
  run p (w_init p again0 nz0) tr = Some s ->
  forall i t1 t2, holds_root (w_pc s t1) i = true -> holds_root (w_pc s t2) i = true -> t1 = t2.
Proof. exact workers_mutex. Qed.
Print Assumptions C05_workers_mutex.

(* ... and only that worker writes the root's state: any step either leaves all `again` flags alone or is
   the flip of again[i] by the worker that holds roots_mutex[i] *)
Theorem C05_workers_single_writer : forall p again0 nz0 tr s l s',
  run p (w_init p again0 nz0) tr = Some s -> step p s l = Some s' ->
  (forall j, w_again s' j = w_again s j) \/
  (exists t i, l = LFlip t /\ w_rlock s i = Some t /\ holds_root (w_pc s t) i = true /\
               w_again s i = true /\ w_again s' i = false /\ forall j, j <> i -> w_again s' j = w_again s j).
Proof. exact workers_single_writer. Qed.
Print Assumptions C05_workers_single_writer.

(* the non-atomic nzeros++ can lose updates but never overshoots: nzeros is at most its initial value
   plus the number of DISTINCT roots whose flag really went from set to clear; so the exit test
   `nzeros >= required_zeros` never fires while fewer roots than that are done.  (A lost update only
   delays the exit: the packet then ends through EXCEP, see C05_workers_terminate.) *)
Theorem C05_workers_nzeros_never_overshoots : forall p again0 nz0 tr s,
  run p (w_init p again0 nz0) tr = Some s ->
  w_nzeros s <= nz0 + List.length (w_flipped s) /\ NoDup (w_flipped s) /\
  (forall i, In i (w_flipped s) -> again0 i = true /\ w_again s i = false).
Proof. exact workers_nzeros_never_overshoots. Qed.
Print Assumptions C05_workers_nzeros_never_overshoots.

(* the lost update is real in the model: two workers, both flags cleared, nzeros = 1 at the end *)
Definition ex_p : params := {| p_k := 2; p_max_it := 3; p_cl := [[0; 1]]; p_B := 10 |}.
Definition ex_lost_update : list label :=
  [LBegin 0; LBegin 1; LLockQ 0; LUnlockQ 0; LLockQ 1; LUnlockQ 1; LLockR 0 0; LLockR 1 1;
   LFlip 0; LFlip 1; LRead 0; LRead 1; LWrite 0; LWrite 1; LUnlockR 0 0; LUnlockR 1 1; LRet 0; LRet 1].
Example C05_workers_nzeros_lost_update_possible :
  exists s, run ex_p (w_init ex_p (fun _ => true) 0) ex_lost_update = Some s /\
            w_nzeros s = 1 /\ w_again s 0 = false /\ w_again s 1 = false /\ w_flipped s = [1; 0].
Proof. eexists. split; [vm_compute; reflexivity|]. repeat split. Qed.

(* every interleaving is finite (explicit bound on its length) and contains at most n*(max_it+1)+k
   fetches; a worker that was handed EXCEP can only return *)
Theorem C05_workers_terminate : forall p again0 nz0 tr s,
  wf_cl (p_cl p) ->
  run p (w_init p again0 nz0) tr = Some s ->
  let n := List.length (List.concat (p_cl p)) in
  List.length tr <= (p_B p + 9) * (n * (p_max_it p + 1)) + 4 * p_k p /\
  list_sum (map is_fetch tr) <= n * (p_max_it p + 1) + p_k p.
Proof. intros p again0 nz0 tr s Hcl Hr. exact (workers_terminate p Hcl again0 nz0 tr s Hr). Qed.
Print Assumptions C05_workers_terminate.

Theorem C05_workers_after_excep_only_return : forall p s t l s',
  w_pc s t = Got JExcep -> step p s l = Some s' -> actor l = t -> l = LRet t /\ w_pc s' t = Done.
Proof. exact workers_after_excep. Qed.
Print Assumptions C05_workers_after_excep_only_return.

(* data side: whatever values the Aberth correction is computed from, move-and-enlarge (and replacing a
   disc by a certified Newton disc, C01) keeps a root in every disc, for every interleaving *)
Theorem C05_workers_inclusion_invariant :
  forall (X : Type) (dist : X -> X -> R),
  (forall a b c, (dist a c <= dist a b + dist b c)%R) -> (forall a b, dist a b = dist b a) ->
  forall (is_root : X -> Prop) d d',
  clos_refl_trans _ (dstep X dist is_root) d d' ->
  (forall i, contains X dist is_root (d i)) -> forall i, contains X dist is_root (d' i).
Proof. exact workers_inclusion_invariant. Qed.
Print Assumptions C05_workers_inclusion_invariant.

(* lock order: threads that request a lock only while all the locks they own are strictly below it
   never form a cycle in the wait-for graph *)
Theorem C05_lock_order_no_deadlock :
  forall (L : Type) (L_eq_dec : forall a b : L, {a = b} + {a <> b}) (lt_l : L -> L -> Prop),
  (forall a, ~ lt_l a a) -> (forall a b c, lt_l a b -> lt_l b c -> lt_l a c) ->
  forall s, reachable L L_eq_dec lt_l s -> forall t, ~ clos_trans _ (waits_for L s) t t.
Proof. exact lock_order_no_deadlock. Qed.
Print Assumptions C05_lock_order_no_deadlock.

(* the order exists for the solver: the observed class relation is acyclic (executable test, sound by
   acyclic_sound), same-class locks are only nested by increasing index; every (held, acquired) pair
   of every explored trace is then strictly increasing in lock_lt *)
Theorem LockGen_acyclic :
  acyclic lock_edges = true /\ forallb (fun x => fst (snd x) <? snd (snd x)) same_class_pairs = true.
Proof. vm_compute. split; reflexivity. Qed.
Print Assumptions LockGen_acyclic.

Theorem C05_lock_order_exists :
  exists rank : lock_class -> nat,
    (forall a, ~ lock_lt rank a a) /\ (forall a b c, lock_lt rank a b -> lock_lt rank b c -> lock_lt rank a c) /\
    forall h a, pair_allowed lock_edges h a -> lock_lt rank h a.
Proof.
  destruct (acyclic_sound lock_edges (proj1 LockGen_acyclic)) as (rank & Hr).
  exists rank. split; [apply lock_lt_irrefl|]. split; [apply lock_lt_trans|]. apply allowed_lt. exact Hr.
Qed.
Print Assumptions C05_lock_order_exists.

Example C05_lock_order_cycle_detected :
  acyclic (("aberth", "root")%string :: lock_edges) = false \/ ~ In ("root", "aberth")%string lock_edges.
Proof. vm_compute. left. reflexivity. Qed.

(* ================================================================================================== *)
(* REFINED MODEL (Conc/WorkerRefined.v): the six worker bodies -- mps_thread_{f,d,m}polzer_worker,
   __mps_secular_ga_{f,d,m}iterate_worker with mps_*aberth_wl inlined -- transcribed instruction by instruction
   (one instruction = one pthread call or one shared access) and run by ONE step function `rstep`.
   `rreach v k maxit cl req pool1 s`: s is reached from an initial state by some interleaving of single
   instructions of the k tasks of variant v (any initial again flags / nzeros / excep, any outcome of the
   data-dependent tests and of Newton).  The theorems hold for every program whose static lock-set annotation
   passes check_prog; C05_refined_programs_checked says the six transcribed texts pass it. *)
Definition rreach (v : variant) (k maxit : nat) (cl : list (list nat)) (req : nat) (pool1 : bool) (s : rstate) : Prop :=
  exists again0 nz0 ex0 tr, rrun (mk_params v k maxit cl req pool1) (r_init (mk_params v k maxit cl req pool1) again0 nz0 ex0) tr = Some s.
(* task t owns root i: its program point has roots_mutex[i] in the (static) lock set *)
Definition rowns (v : variant) (s : rstate) (t i : nat) : Prop := owns_root (ann_of v) (r_th s t) i = true.

Theorem C05_refined_programs_checked : forall v, check_prog (prog_of v) (ann_of v) = true.
Proof. exact all_progs_ok. Qed.
Print Assumptions C05_refined_programs_checked.

(* per-root exclusive ownership, for every interleaving of single instructions *)
Theorem C05_refined_ownership_exclusive : forall v k maxit cl req pool1 s,
  rreach v k maxit cl req pool1 s -> forall i t1 t2, rowns v s t1 i -> rowns v s t2 i -> t1 = t2.
Proof.
  intros v k maxit cl req pool1 s Hr i t1 t2 H1 H2.
  eapply (refined_ownership_exclusive (mk_params v k maxit cl req pool1) (ann_of v) (all_progs_ok v) s Hr i);
    apply owns_iff_exec; assumption.
Qed.
Print Assumptions C05_refined_ownership_exclusive.

(* the owner holds roots_mutex[i] whenever the pool has several threads (with one thread the d/m bodies skip the
   call and the tasks run one after the other), and whoever holds roots_mutex[i] is the owner *)
Theorem C05_refined_owner_holds_roots_mutex : forall v k maxit cl req pool1 s,
  rreach v k maxit cl req pool1 s -> forall t i,
  (rowns v s t i -> pool1 = false -> r_own s (LR i) = Some t) /\ (r_own s (LR i) = Some t -> rowns v s t i).
Proof.
  intros v k maxit cl req pool1 s Hr t i.
  destruct (refined_owner_holds_mutex (mk_params v k maxit cl req pool1) (ann_of v) (all_progs_ok v) s Hr t i) as [A B].
  split.
  - intros Ho Hp. apply A; [apply owns_iff_exec; exact Ho|left; exact Hp].
  - intro Ho. apply (owns_iff_exec (ann_of v)). apply B. exact Ho.
Qed.
Print Assumptions C05_refined_owner_holds_roots_mutex.

(* only the owner writes the root: a step that changes (again, value, aux value, radius) of root i is a step of
   the task that owns root i before and after it *)
Theorem C05_refined_only_owner_writes : forall v k maxit cl req pool1 s t ch s',
  rreach v k maxit cl req pool1 s -> rstep (mk_params v k maxit cl req pool1) s t ch = Some s' ->
  forall i, root_view s' i <> root_view s i -> rowns v s t i /\ rowns v s' t i.
Proof.
  intros v k maxit cl req pool1 s t ch s' Hr Hs i Hv.
  destruct (refined_only_owner_writes (mk_params v k maxit cl req pool1) (ann_of v) (all_progs_ok v) s t ch s' Hr Hs i Hv) as [A B].
  split; apply owns_iff_exec; assumption.
Qed.
Print Assumptions C05_refined_only_owner_writes.

(* the value other workers read is written with aberth_mutex[i] (and roots_mutex[i]) held, in the bodies f, m,
   secular f, secular m ... *)
Theorem C05_refined_value_write_under_aberth_mutex : forall v k maxit cl req s t ch s',
  In v [VF; VM; VSF; VSM] ->
  rreach v k maxit cl req false s -> rstep (mk_params v k maxit cl req false) s t ch = Some s' ->
  forall i, r_valv s' i <> r_valv s i -> r_own s (LA i) = Some t /\ r_own s (LR i) = Some t.
Proof.
  intros v k maxit cl req s t ch s' Hv Hr Hs i Hne.
  apply (refined_value_write_under_aberth (mk_params v k maxit cl req false) (ann_of v) (all_progs_ok v) s t ch s'); try assumption; try reflexivity.
  simpl in Hv. destruct Hv as [<-|[<-|[<-|[<-|[]]]]]; vm_compute; reflexivity.
Qed.
Print Assumptions C05_refined_value_write_under_aberth_mutex.

(* ... and NOT in the DPE bodies: mps_thread_dpolzer_worker and __mps_secular_ga_diterate_worker write
   s->root[i]->dvalue without aberth_mutex[i] (and mps_faberth / mps_daberth read the other roots without it).
   Witness: task 0 alone runs n instructions and then performs a value write while aberth_mutex[0] is free.
   This is a statement about the lock discipline of the text, not a violation of the property: the inclusion
   invariant absorbs any value read (C05_workers_inclusion_invariant).  The trace validation confirms it on
   every d-phase run (value hash changes between lock and unlock of roots_mutex[i] with no Aberth lock). *)
Definition value_write_unlocked_after (v : variant) (n : nat) : Prop :=
  let p := mk_params v 2 3 [[0; 1]] 2 false in
  match rrun p (r_init p (fun _ => true) 0 false) (repeat (0, false) n) with
  | Some s => match rstep p s 0 false with
              | Some s' => r_valv s' 0 <> r_valv s 0 /\ r_own s (LA 0) = None /\ r_own s (LR 0) = Some 0
              | None => False
              end
  | None => False
  end.
Theorem C05_refined_dpe_value_write_without_aberth_mutex :
  value_write_unlocked_after VD 29 /\ value_write_unlocked_after VSD 33.
Proof. split; vm_compute; (split; [discriminate|split; reflexivity]). Qed.
Print Assumptions C05_refined_dpe_value_write_without_aberth_mutex.

(* lock requests strictly increase in the class order  roots_mutex < global_aberth_mutex < {aberth_mutex, gs_mutex,
   queue mutex}: whatever a task holds when it calls pthread_mutex_lock has a smaller rank than what it asks for *)
Theorem C05_refined_lock_requests_increase : forall v k maxit cl req pool1 s,
  rreach v k maxit cl req pool1 s -> forall t l h,
  requests (mk_params v k maxit cl req pool1) s t l -> r_own s h = Some t -> lk_rank h < lk_rank l.
Proof.
  intros v k maxit cl req pool1 s Hr.
  exact (refined_requests_increase (mk_params v k maxit cl req pool1) (ann_of v) (all_progs_ok v) s Hr).
Qed.
Print Assumptions C05_refined_lock_requests_increase.

(* hence (composition with LockOrder: ordered => path_increases) no reachable state has a cycle in the wait-for
   graph  t -> t' iff t stands at a real lock call for a mutex owned by t' *)
Theorem C05_refined_no_wait_cycle : forall v k maxit cl req pool1 s,
  rreach v k maxit cl req pool1 s ->
  forall t, ~ clos_trans _ (waits_for lk (lview (mk_params v k maxit cl req pool1) s)) t t.
Proof.
  intros v k maxit cl req pool1 s Hr.
  exact (refined_no_wait_cycle (mk_params v k maxit cl req pool1) (ann_of v) (all_progs_ok v) s Hr).
Qed.
Print Assumptions C05_refined_no_wait_cycle.

(* progress (no deadlock, no stuck state): while some task has not returned, some task can execute its next
   instruction -- for every interleaving, every thread count, every outcome of the data-dependent tests *)
Theorem C05_refined_progress : forall v k maxit cl req pool1 s,
  rreach v k maxit cl req pool1 s ->
  (exists t, t < k /\ t_st (r_th s t) <> TDone) ->
  exists t ch s', rstep (mk_params v k maxit cl req pool1) s t ch = Some s'.
Proof.
  intros v k maxit cl req pool1 s Hr Hex.
  exact (refined_progress (mk_params v k maxit cl req pool1) (ann_of v) (all_progs_ok v) s Hr Hex).
Qed.
Print Assumptions C05_refined_progress.

(* when the pool drains (all k tasks have returned) every mutex of the packet is free, so the pthread_mutex_destroy
   calls of mps_thread_*polzer / mps_secular_ga_*iterate destroy unlocked mutexes; and a mutex is only ever owned
   by a task that is running *)
Theorem C05_refined_drain_all_mutexes_free : forall v k maxit cl req pool1 s,
  rreach v k maxit cl req pool1 s ->
  (forall l t, r_own s l = Some t -> exists pc, t_st (r_th s t) = TRun pc) /\
  ((forall t, t < k -> t_st (r_th s t) = TDone) -> forall l, r_own s l = None).
Proof.
  intros v k maxit cl req pool1 s Hr. split.
  - intros l t. exact (refined_idle_done_hold_nothing (mk_params v k maxit cl req pool1) (ann_of v) (all_progs_ok v) s Hr t l).
  - exact (refined_drain_all_free (mk_params v k maxit cl req pool1) (ann_of v) (all_progs_ok v) s Hr).
Qed.
Print Assumptions C05_refined_drain_all_mutexes_free.

(* non-vacuity: two tasks of the m body (all locks, global Aberth mutex): each fetches a job, then they alternate
   instruction by instruction; both are inside their critical sections (task 0 owns root 0, task 1 owns root 1)
   and both stand at the lock call for the global Aberth mutex *)
Definition ex_alt (n : nat) : list (nat * bool) :=
  repeat (0, false) 6 ++ repeat (1, false) 6 ++ flat_map (fun _ => [(0, false); (1, false)]) (seq 0 n).
Example C05_refined_example :
  match rrun (mk_params VM 2 3 [[0; 1]] 2 false) (r_init (mk_params VM 2 3 [[0; 1]] 2 false) (fun _ => true) 0 false) (ex_alt 13) with
  | Some s => owners (ann_of VM) s 2 0 = 1 /\ owners (ann_of VM) s 2 1 = 1 /\ r_own s (LR 0) = Some 0 /\ r_own s (LR 1) = Some 1 /\
              instr_at (mk_params VM 2 3 [[0; 1]] 2 false) s 0 = Some (ILock true MG) /\
              instr_at (mk_params VM 2 3 [[0; 1]] 2 false) s 1 = Some (ILock true MG)
  | None => False
  end.
Proof. vm_compute. repeat split. Qed.
