(* C03 - solver totality.  Statements only; the skeletons are in Total/SkelDefs.v, the proofs in Total/SkelProofs.v.
   The numerics are an arbitrary oracle (a stream of answers, one per control step); the theorems are about the
   control flow of the drivers as it is in the code.  No memory-safety / no-signal theorem: that part of the
   property is observed by the sanitizer sweep of checks/C03.py. *)
Require Import Arith Bool List Lia String.
Require Import MPSV.Total.SkelDefs MPSV.Total.SkelProofs MPSV.Total.Accept MPSV.Total.AcceptProofs.
Require Import MPSV.Total.SecExtDefs MPSV.Total.SecExtProofs MPSV.Total.SecExtAccept MPSV.Total.SecExtAcceptProofs.

(* (1) Classic driver (mps_standard_mpsolve with mps_fsolve / mps_dsolve / mps_msolve and mps_improve): for every oracle
   the driver returns within Bound = (D + 2) * (max_pack * (max_it + 2) + 4) + L + 6 control steps, where
   D = doublings of the working precision left below mpwp_max and L = doublings left in improve below the input
   precision -- provided improve has a cap at all, i.e. the input precision is not 0 (exact) or the goal is not
   Approximate (see (3) for the other case). *)
Theorem C03_unisolve_bounded :
  forall (c : caps) (g : cfg), 1 <= mpwp0 g /\ 1 <= wp_min g -> (in_prec g <> 0 \/ cgoal g <> Approximate) ->
  forall orc : nat -> ans,
    uterminal (run ust (ustep c g) uterminal (Bound c g) orc 0 uinit) = true /\
    steps ust (ustep c g) uterminal (Bound c g) orc 0 uinit <= Bound c g.
Proof. exact unisolve_bounded. Qed.
Print Assumptions C03_unisolve_bounded.

Theorem C03_bound_closed_form :
  forall c g, Bound c g =
    ((if mpwp_max c <=? mpwp0 g then 0 else S (Nat.log2 (mpwp_max c) - Nat.log2 (mpwp0 g))) + 2) * (max_pack c * (max_it c + 2) + 1 + 3)
    + S (Nat.log2 (in_prec g) - Nat.log2 (wp_min g)) + 6.
Proof. reflexivity. Qed.
Print Assumptions C03_bound_closed_form.

(* non-vacuity (unary numbers: scaled-down caps max_pack 50, mpwp_max 4096; the library defaults are max_pack 100000, max_it 20, mpwp_max 10^8),
   100 digits of input precision; a run that really uses packets and doublings *)
Definition caps_default : caps := {| max_pack := 50; max_it := 20; mpwp_max := 4096 |}.
Definition cfg_ex : cfg := {| cgoal := Approximate; resume := false; in_prec := 333; mpwp0 := 64; wp_min := 53; avoid_mp := false |}.
Example C03_bound_default : Bound caps_default cfg_ex = 9946.
Proof. vm_compute. reflexivity. Qed.
Definition caps_small : caps := {| max_pack := 3; max_it := 2; mpwp_max := 1000 |}.
Definition stubborn : ans :=
  {| o_err := false; o_whichd := false; o_more := true; o_pk := PkCycle; o_dafter := true; o_stop := false; o_pre := false;
     o_incl := true; o_allapprox := false; o_best := false; o_regen1 := true; o_regen := true; o_stop2 := false; o_round := 3 |}.
Example C03_stubborn_run_uses_the_caps :
  steps ust (ustep caps_small cfg_ex) uterminal (Bound caps_small cfg_ex) (fun _ => stubborn) 0 uinit = 95
  /\ Bound caps_small cfg_ex = 106
  /\ err (run ust (ustep caps_small cfg_ex) uterminal (Bound caps_small cfg_ex) (fun _ => stubborn) 0 uinit)
     = Some "MP: reached the maximum number of packet iteration"%string
  /\ over_max (run ust (ustep caps_small cfg_ex) uterminal (Bound caps_small cfg_ex) (fun _ => stubborn) 0 uinit) = true.
Proof. vm_compute. repeat split; reflexivity. Qed.

(* (2) improve with an input precision: at most log2(prec) - log2(start) + 1 doublings, whatever Newton does *)
Theorem C03_improve_bounded :
  forall (c : caps) (g : cfg) (cur0 : nat) (orc : nat -> ans), in_prec g <> 0 -> 1 <= cur0 ->
    improve_done (run ust (ustep c g) improve_done (ileft g cur0) orc 0 (improve_state cur0)) = true /\
    steps ust (ustep c g) improve_done (ileft g cur0) orc 0 (improve_state cur0) <= S (Nat.log2 (in_prec g) - Nat.log2 cur0).
Proof. exact improve_bounded. Qed.
Print Assumptions C03_improve_bounded.
Example C03_improve_example :
  steps ust (ustep caps_default cfg_ex) improve_done (ileft cfg_ex 53) (fun _ => stubborn) 0 (improve_state 53) = 3.
Proof. vm_compute. reflexivity. Qed.

(* (3) exact input (p->prec = 0) and goal Approximate: improve has NO cap.  With the oracle `adversary` (every packet
   converges at once, no root ever counts as approximated) the classic driver never returns.  The real code realises
   this schedule: checks/C03.py replays a polynomial with a zero leading coefficient under `-a s -t f -G a`
   (improve is shared by both drivers), known finding C03 timeout-hard:zero-leading. *)
Theorem C03_unisolve_exact_approximate_unbounded_refuted :
  forall (c : caps) (g : cfg), in_prec g = 0 -> cgoal g = Approximate -> resume g = false ->
  forall k, uterminal (run ust (ustep c g) uterminal k adversary 0 uinit) = false.
Proof. exact unisolve_exact_approximate_unbounded. Qed.
Print Assumptions C03_unisolve_exact_approximate_unbounded_refuted.

(* (4) secular driver: the packet counter is reset whenever the precision is raised and the precision has no cap:
   with the oracle that reports best_approx after every packet the do/while never ends, whatever max_pack >= 1 is. *)
Theorem C03_secular_unbounded_refuted :
  forall (c : caps) (g : cfg), 1 <= max_pack c -> avoid_mp g = false ->
  forall k, sterminal (run sst (sstep c g) sterminal k adversary 0 sinit) = false.
Proof. exact secular_unbounded. Qed.
Print Assumptions C03_secular_unbounded_refuted.
Example C03_secular_adversary_precision_grows :
  smpwp (run sst (sstep caps_default cfg_ex) sterminal 6 adversary 0 sinit) = 64 * 2 ^ 4.
Proof. vm_compute. reflexivity. Qed.

(* ... what is bounded: while the oracle does not raise the precision, max_pack is a real cap *)
Theorem C03_secular_bounded_without_raise_partial :
  forall (c : caps) (g : cfg), 1 <= mpwp0 g /\ 1 <= wp_min g -> (in_prec g <> 0 \/ cgoal g <> Approximate) ->
  forall orc : nat -> ans, (forall t, o_best (orc t) = false /\ o_regen (orc t) = true) ->
    sterminal (run sst (sstep c g) sterminal (max_pack c + ileft g (wp_min g) + 4) orc 0 sinit) = true /\
    steps sst (sstep c g) sterminal (max_pack c + ileft g (wp_min g) + 4) orc 0 sinit <= max_pack c + ileft g (wp_min g) + 4.
Proof. exact secular_bounded_without_raise. Qed.
Print Assumptions C03_secular_bounded_without_raise_partial.
Example C03_secular_cap_reached :
  serr (run sst (sstep caps_small cfg_ex) sterminal 20 (fun _ => stubborn) 0 sinit)
  = Some "Maximum number of iteration passed. Aborting."%string.
Proof. vm_compute. reflexivity. Qed.

(* (5) how a run ends: every terminal state of either skeleton has the error flag with a non-empty message, or all
   roots hold values and lastphase <> no_phase (for every oracle and every number of steps) *)
Theorem C03_ends_in_result_or_error :
  forall (c : caps) (g : cfg) (orc : nat -> ans) (k : nat),
    (let s := run ust (ustep c g) uterminal k orc 0 uinit in
     uterminal s = true -> (exists m, err s = Some m /\ m <> ""%string) \/ (roots_set s = true /\ lastphase s <> NoPhase)) /\
    (let s := run sst (sstep c g) sterminal k orc 0 sinit in
     sterminal s = true -> (exists m, serr s = Some m /\ m <> ""%string) \/ (sroots s = true /\ slast s <> NoPhase)).
Proof.
  intros c g orc k. split.
  - exact (unisolve_ends_in_result_or_error c g orc k).
  - exact (secular_ends_in_result_or_error c g orc k).
Qed.
Print Assumptions C03_ends_in_result_or_error.
Example C03_terminal_with_roots :
  pc (run ust (ustep caps_default {| cgoal := Isolate; resume := false; in_prec := 0; mpwp0 := 64; wp_min := 53; avoid_mp := false |})
        uterminal 40 adversary 0 uinit) = U_return.
Proof. vm_compute. reflexivity. Qed.

(* (6) Tie.  The check feeds the event trace of real solves (vf_solve -T) to the extracted [check_u] / [check_s].
   An accepted trace is, event for event, the trace of a run of the skeleton ([utrace] / [strace] iterate the same
   [ustep] / [sstep] as above over a list of oracle answers) that ends in a terminal state with the same error flag as
   the real solve, and for the classic driver takes no more steps than [trace_bound] = [Bound] (plus the improve
   iterations seen in the trace when improve has no cap: exact input and goal approximate). *)
Theorem C03_trace_accept_sound_classic :
  forall c g ferr finc evs n l b, check_u c g ferr finc evs = (true, n, l, b) ->
  exists answers : list ans, List.length answers = n /\ n <= trace_bound c g evs /\
    fst (utrace answers c g uinit) = evs /\ uterminal (snd (utrace answers c g uinit)) = true /\
    is_some (err (snd (utrace answers c g uinit))) = ferr.
Proof. exact check_u_sound. Qed.
Print Assumptions C03_trace_accept_sound_classic.

Theorem C03_trace_accept_sound_secular :
  forall c g ferr evs n l, check_s c g ferr evs = (true, n, l) ->
  exists answers : list ans, List.length answers = n /\
    fst (strace answers c g sinit) = evs /\ sterminal (snd (strace answers c g sinit)) = true /\
    is_some (serr (snd (strace answers c g sinit))) = ferr.
Proof. exact check_s_sound. Qed.
Print Assumptions C03_trace_accept_sound_secular.

Example C03_trace_accepted :
  check_u caps_small cfg_ex false false
    (EPh SF :: EK :: EK :: EPh SM :: EW 128 :: EK :: EW 256 :: EI 53 :: EI 106 :: nil) = (true, 21, 0, 106).
Proof. vm_compute. reflexivity. Qed.
Example C03_trace_rejected_packet_in_wrong_place :
  fst (fst (fst (check_u caps_small cfg_ex false false (EPh SF :: EPh SM :: EK :: nil)))) = false.
Proof. vm_compute. reflexivity. Qed.

(* ====================================================================================================================
   Round 6: the secular driver in more detail (Total/SecExtDefs.v, [xstep]): the set-up before the do/while with
   mps_check_data's early exit, the preliminary Aberth packet, the floating point exception detection that switches to
   the DPE phase instead of failing (after the preliminary packet; inside mps_secular_ga_fiterate), crude mode, the
   initial regeneration and its DPE fallback, the phase of every iteration, switch_phase versus raise_precision, the
   cleanup with mps_validate_inclusions and improve.  Oracle answers [xans] are arbitrary. *)

(* (7) every terminal state has the error flag with a non-empty message, or roots for all with lastphase <> no_phase *)
Theorem C03_secular_ext_ends_in_result_or_error :
  forall (c : caps) (g : xcfg) (orc : nat -> xans) (k : nat),
    let s := xrun xans xst (xstep c g) xterminal k orc 0 xinit in
    xterminal s = true -> (exists m, xerr s = Some m /\ m <> ""%string) \/ (xroots s = true /\ xlast s <> NoPhase).
Proof. exact secx_ends_in_result_or_error. Qed.
Print Assumptions C03_secular_ext_ends_in_result_or_error.

Definition xcfg_ex : xcfg :=
  {| xgoal := Approximate; xin_prec := 333; xwp_min := 53; xavoid_mp := false; kind := KMonomial; start_phase := NoPhase;
     crude := false; jacobi := false; can_improve := true |}.
(* an exception in the preliminary float packet, then packets that never converge and never ask for more precision *)
Definition xstubborn : xans :=
  {| x_err := false; x_whichd := false; x_lc0 := false; x_fpe := true; x_pre := false; x_back := false; x_regen1 := true; x_regen := true;
     x_stop := false; x_best := false; x_stop2 := false; x_allapprox := false |}.
Example C03_secular_ext_fpe_restart_then_packet_cap :
  xsteps xans xst (xstep caps_small xcfg_ex) xterminal 60 (fun _ => xstubborn) 0 xinit = 10
  /\ xerr (xrun xans xst (xstep caps_small xcfg_ex) xterminal 60 (fun _ => xstubborn) 0 xinit)
     = Some "Maximum number of iteration passed. Aborting."%string
  /\ xlast (xrun xans xst (xstep caps_small xcfg_ex) xterminal 60 (fun _ => xstubborn) 0 xinit) = DpeP.
Proof. vm_compute. repeat split; reflexivity. Qed.

(* (8) the hypothesis the code could enforce: a cap W on the working precision.  For every oracle whose run keeps
   s->mpwp <= W (the model state; the code as it stands has no such cap, see (9)) the driver returns within
   XBound = (log2 W - 6) * (max_pack + 2) + max_pack + L + 9 steps, L = doublings left in improve: every raise of the
   precision uses up one of the log2 W - 6 doublings above MPS_SECULAR_STARTING_MP_PRECISION / 2 and only then resets
   the packet counter.  Improve must have a cap too (input precision <> 0, or goal <> approximate, or a polynomial type
   without Newton correction, for which mps_improve returns at once). *)
Theorem C03_secular_ext_bounded_under_precision_cap :
  forall (c : caps) (g : xcfg) (W : nat), 1 <= xwp_min g ->
    (xin_prec g <> 0 \/ xgoal g <> Approximate \/ can_improve g = false) ->
  forall orc : nat -> xans,
    (forall j, xmpwp (xrun xans xst (xstep c g) xterminal j orc 0 xinit) <= W) ->
    xterminal (xrun xans xst (xstep c g) xterminal (XBound c g W) orc 0 xinit) = true /\
    xsteps xans xst (xstep c g) xterminal (XBound c g W) orc 0 xinit <= XBound c g W.
Proof. exact secx_bounded_under_cap. Qed.
Print Assumptions C03_secular_ext_bounded_under_precision_cap.

Theorem C03_secular_ext_bound_closed_form :
  forall c g W, XBound c g W =
    (Nat.log2 W - 6) * (max_pack c + 2) + max_pack c + S (Nat.log2 (xin_prec g) - Nat.log2 (xwp_min g)) + 9.
Proof. reflexivity. Qed.
Print Assumptions C03_secular_ext_bound_closed_form.
Example C03_secular_ext_bound_value : XBound caps_small xcfg_ex 1024 = 36.
Proof. vm_compute. reflexivity. Qed.

(* (9) as the code stands there is no cap: with the oracle that reports best_approx after every packet the do/while
   never ends (any max_pack >= 1; not in crude mode, multiprecision not disabled), and the precision passes every W *)
Theorem C03_secular_ext_unbounded_refuted :
  forall (c : caps) (g : xcfg), 1 <= max_pack c -> xavoid_mp g = false -> crude g = false -> start_phase g <> MpP ->
  forall k, xterminal (xrun xans xst (xstep c g) xterminal k (fun _ => xans_adv) 0 xinit) = false.
Proof. exact secx_unbounded. Qed.
Print Assumptions C03_secular_ext_unbounded_refuted.
Example C03_secular_ext_adversary_precision_grows :
  xmpwp (xrun xans xst (xstep caps_small xcfg_ex) xterminal 12 (fun _ => xans_adv) 0 xinit) = 8192.
Proof. vm_compute. reflexivity. Qed.

(* (10) once the do/while has been entered the phase is never lowered (float < dpe < mp), for every oracle: the
   exception detection of fiterate only moves float -> dpe, raises only move to mp, nothing moves back *)
Theorem C03_secular_ext_phase_never_lowered :
  forall (c : caps) (g : xcfg) (orc : nat -> xans) (k t : nat) (s : xst),
    (match xpc_ s with X_loop | X_cleanup | X_improve _ | X_return => True | _ => False end) ->
    prk (xlast s) <= prk (xlast (xrun xans xst (xstep c g) xterminal k orc t s)).
Proof. exact secx_phase_monotone. Qed.
Print Assumptions C03_secular_ext_phase_never_lowered.

(* (11) Tie: the extracted [check_x] is run on the event trace of every traced secular solve (harness/c03_solve.c).  An
   accepted trace is, event for event, the trace of a run of [xstep] that ends in a terminal state with the same error
   flag and, for a solve that returned roots, the same s->lastphase. *)
Theorem C03_trace_accept_sound_secular_ext :
  forall c g ferr lp evs n l, check_x c g ferr lp evs = (true, n, l) ->
  exists answers : list xans, List.length answers = n /\
    fst (xtrace answers c g xinit) = evs /\ xterminal (snd (xtrace answers c g xinit)) = true /\
    xis_some (xerr (snd (xtrace answers c g xinit))) = ferr /\
    (lp = NoPhase \/ lp = xlast (snd (xtrace answers c g xinit))).
Proof. exact check_x_sound. Qed.
Print Assumptions C03_trace_accept_sound_secular_ext.

Example C03_ext_trace_accepted :
  check_x caps_small xcfg_ex false MpP
    (VCd false :: VPre :: VPreFpe :: VPre :: VBack :: VStarts :: VIt FloatP :: VItFpe :: VIt DpeP :: VSwitch :: VRaise ::
     VIt MpP :: VStop :: VCleanup :: VImp 53 :: VImp 106 :: nil) = (true, 13, 0).
Proof. vm_compute. reflexivity. Qed.
Example C03_ext_trace_rejected_phase_lowered :
  fst (fst (check_x caps_small xcfg_ex false MpP (VCd false :: VPre :: VStarts :: VIt MpP :: VIt FloatP :: VStop :: VCleanup :: nil))) = false.
Proof. vm_compute. reflexivity. Qed.
Example C03_ext_trace_error_exit_accepted :
  check_x caps_small xcfg_ex true NoPhase (VCd false :: VPre :: VSwD :: VRegFail :: nil) = (true, 4, 0).
Proof. vm_compute. reflexivity. Qed.
