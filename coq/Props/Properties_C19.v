(* C19 - both algorithms and equivalent formulations give mutually consistent answers.
   Statements only; proofs are in Match/*.v.  *)
From mathcomp Require Import all_ssreflect all_fingroup all_algebra.
From Coq Require Import QArith List Permutation.
Require Import MPSV.Match.MatchTheory MPSV.Match.MatchCheck MPSV.Match.MatchCheckProps MPSV.Match.Transform.
Import GRing.Theory Num.Theory.

(* (1) Why a matching must exist whenever both runs satisfy C01 on an input with n simple roots:
   two families of n pairwise disjoint sets, each containing one of the n roots, are matched by a
   permutation such that matched sets share a root.  Hence a failed matching refutes the inclusion
   property (C01) for one of the two runs. *)
Theorem C19_matching_exists :
  forall (n : nat) (A B : 'I_n -> pred 'I_n),
    (forall i, exists r, A i r) -> (forall i, exists r, B i r) ->
    (forall i j r, A i r -> A j r -> i = j) -> (forall i j r, B i r -> B j r -> i = j) ->
    exists s : {perm 'I_n}, forall i, exists r, A i r && B (s i) r.
Proof. exact matching_exists. Qed.
Print Assumptions C19_matching_exists.

(* (2) Two closed discs sharing a point (the common root) satisfy the test the checker evaluates,
   and conversely discs passing the test do share a point: the test is exactly "the discs intersect". *)
Theorem C19_shared_point_intersect :
  forall (C : numClosedFieldType) (a b z ra rb : C),
    (`|a - z| <= ra -> `|b - z| <= rb -> `|a - b| <= ra + rb)%R.
Proof. exact shared_point_intersect. Qed.
Print Assumptions C19_shared_point_intersect.

Theorem C19_intersect_shared_point :
  forall (C : numClosedFieldType) (a b ra rb : C),
    (0 <= ra -> 0 <= rb -> `|a - b| <= ra + rb -> exists z, `|a - z| <= ra /\ `|b - z| <= rb)%R.
Proof. exact intersect_shared_point. Qed.
Print Assumptions C19_intersect_shared_point.

(* (3) The extracted checker that validates a proposed matching on the exact (rational) discs
   exported from two runs is sound and complete. *)
Theorem C19_matching_check_sound :
  forall ds1 ds2 s, check_matching ds1 ds2 s = true ->
    length ds1 = length ds2 /\ Permutation s (seq 0 (length ds2)) /\
    forall i, (i < length ds1)%coq_nat ->
      intersect (List.nth i ds1 dflt) (List.nth (List.nth i s 0%nat) ds2 dflt) = true.
Proof. exact check_matching_sound. Qed.
Print Assumptions C19_matching_check_sound.

Theorem C19_matching_check_complete :
  forall ds1 ds2 s,
    length ds1 = length ds2 -> length s = length ds2 -> NoDup s ->
    (forall x, In x s -> (x < length ds2)%coq_nat) ->
    (forall i, (i < length ds1)%coq_nat ->
       intersect (List.nth i ds1 dflt) (List.nth (List.nth i s 0%nat) ds2 dflt) = true) ->
    check_matching ds1 ds2 s = true.
Proof. exact check_matching_complete. Qed.
Print Assumptions C19_matching_check_complete.

Theorem C19_intersect_spec :
  forall d1 d2, intersect d1 d2 = true <->
  (0 <= rad d1 /\ 0 <= rad d2 /\
   (cre d1 - cre d2) * (cre d1 - cre d2) + (cim d1 - cim d2) * (cim d1 - cim d2)
     <= (rad d1 + rad d2) * (rad d1 + rad d2))%Q.
Proof. exact intersect_spec. Qed.
Print Assumptions C19_intersect_spec.

(* (4) How roots (hence discs) transform between equivalent formulations. *)
Theorem C19_scale_coefficients :
  forall (C : numClosedFieldType) (p : {poly C}) (c z : C), c != 0%R -> root (c *: p) z = root p z.
Proof. exact scale_coefficients_roots. Qed.
Print Assumptions C19_scale_coefficients.

Theorem C19_rescale_variable :
  forall (C : numClosedFieldType) (p : {poly C}) (alpha z : C),
    root (p \Po (alpha *: 'X)) z = root p (alpha * z)%R.
Proof. exact rescale_variable_roots. Qed.
Print Assumptions C19_rescale_variable.

Theorem C19_rescale_disc :
  forall (C : numClosedFieldType) (alpha w z r : C), alpha != 0%R ->
    (`|alpha * w - z| <= r -> `|w - z / alpha| <= r / `|alpha|)%R.
Proof. exact rescale_disc. Qed.
Print Assumptions C19_rescale_disc.

Theorem C19_reverse_roots :
  forall (C : numClosedFieldType) (p : {poly C}) (z : C), z != 0%R ->
    root (revp p) z = root p z^-1%R.
Proof. exact reverse_roots. Qed.
Print Assumptions C19_reverse_roots.

(* image of the disc D(z,r), r < |z|, under w -> 1/w lies in the disc the check uses:
   centre conj(z)/(|z|^2-r^2), radius r/(|z|^2-r^2) *)
Theorem C19_inv_disc_sound :
  forall (C : numClosedFieldType) (z w r : C),
    (0 <= r -> r < `|z| -> `|w - z| <= r ->
     `|w^-1 - z^* / (`|z|^+2 - r^+2)| <= r / (`|z|^+2 - r^+2))%R.
Proof. exact inv_disc_sound. Qed.
Print Assumptions C19_inv_disc_sound.
