(* C19 - both algorithms and equivalent formulations give mutually consistent answers.
   Statements only; proofs are in Match/*.v.  *)
From mathcomp Require Import all_ssreflect all_fingroup all_algebra.
From mathcomp Require Import polyorder.
From Coq Require Import QArith List Permutation.
Require Import MPSV.Roots.GaussZ MPSV.Roots.PolyZ MPSV.Roots.Cert MPSV.Roots.Transform MPSV.Roots.Bridge MPSV.Roots.TransformSound.
Require Import MPSV.Match.MatchTheory MPSV.Match.MatchCheck MPSV.Match.MatchCheckProps MPSV.Match.Transform.
Require Import MPSV.Match.TransformMu MPSV.Match.SecularTheory MPSV.Match.MatchMult MPSV.Match.MatchWeak MPSV.Match.ConvertModel MPSV.Match.ConvertProps.
Import GRing.Theory Num.Theory.

(* (1) Why a matching must exist whenever both runs satisfy C01 on an input with n simple roots:
   two families of n pairwise disjoint sets, each containing one of the n roots, are matched by a
   permutation such that matched sets share a root.  Hence a failed matching refutes the inclusion
   property (C01) for one of the two runs. *)
Theorem C19_matching_exists :
  forall (n : nat) (A B : 'I_n -> pred 'I_n),
    (forall i, exists r, A i r) -> (forall i, exists r, B i r) ->
    (forall i j r, A i r -> A j r -> i = j) -> (forall i j r, B i r -> B j r -> i = j) ->
    exists s : {perm 'I_n}, forall i, exists r, A i r && B (s i) r.
Proof. exact matching_exists. Qed.
Print Assumptions C19_matching_exists.

(* (2) Two closed discs sharing a point (the common root) satisfy the test the checker evaluates,
   and conversely discs passing the test do share a point: the test is exactly "the discs intersect". *)
Theorem C19_shared_point_intersect :
  forall (C : numClosedFieldType) (a b z ra rb : C),
    (`|a - z| <= ra -> `|b - z| <= rb -> `|a - b| <= ra + rb)%R.
Proof. exact shared_point_intersect. Qed.
Print Assumptions C19_shared_point_intersect.

Theorem C19_intersect_shared_point :
  forall (C : numClosedFieldType) (a b ra rb : C),
    (0 <= ra -> 0 <= rb -> `|a - b| <= ra + rb -> exists z, `|a - z| <= ra /\ `|b - z| <= rb)%R.
Proof. exact intersect_shared_point. Qed.
Print Assumptions C19_intersect_shared_point.

(* (3) The extracted checker that validates a proposed matching on the exact (rational) discs
   exported from two runs is sound and complete. *)
Theorem C19_matching_check_sound :
  forall ds1 ds2 s, check_matching ds1 ds2 s = true ->
    length ds1 = length ds2 /\ Permutation s (seq 0 (length ds2)) /\
    forall i, (i < length ds1)%coq_nat ->
      intersect (List.nth i ds1 dflt) (List.nth (List.nth i s 0%nat) ds2 dflt) = true.
Proof. exact check_matching_sound. Qed.
Print Assumptions C19_matching_check_sound.

Theorem C19_matching_check_complete :
  forall ds1 ds2 s,
    length ds1 = length ds2 -> length s = length ds2 -> NoDup s ->
    (forall x, In x s -> (x < length ds2)%coq_nat) ->
    (forall i, (i < length ds1)%coq_nat ->
       intersect (List.nth i ds1 dflt) (List.nth (List.nth i s 0%nat) ds2 dflt) = true) ->
    check_matching ds1 ds2 s = true.
Proof. exact check_matching_complete. Qed.
Print Assumptions C19_matching_check_complete.

Theorem C19_intersect_spec :
  forall d1 d2, intersect d1 d2 = true <->
  (0 <= rad d1 /\ 0 <= rad d2 /\
   (cre d1 - cre d2) * (cre d1 - cre d2) + (cim d1 - cim d2) * (cim d1 - cim d2)
     <= (rad d1 + rad d2) * (rad d1 + rad d2))%Q.
Proof. exact intersect_spec. Qed.
Print Assumptions C19_intersect_spec.

(* (4) How roots (hence discs) transform between equivalent formulations. *)
Theorem C19_scale_coefficients :
  forall (C : numClosedFieldType) (p : {poly C}) (c z : C), c != 0%R -> root (c *: p) z = root p z.
Proof. exact scale_coefficients_roots. Qed.
Print Assumptions C19_scale_coefficients.

Theorem C19_rescale_variable :
  forall (C : numClosedFieldType) (p : {poly C}) (alpha z : C),
    root (p \Po (alpha *: 'X)) z = root p (alpha * z)%R.
Proof. exact rescale_variable_roots. Qed.
Print Assumptions C19_rescale_variable.

Theorem C19_rescale_disc :
  forall (C : numClosedFieldType) (alpha w z r : C), alpha != 0%R ->
    (`|alpha * w - z| <= r -> `|w - z / alpha| <= r / `|alpha|)%R.
Proof. exact rescale_disc. Qed.
Print Assumptions C19_rescale_disc.

Theorem C19_reverse_roots :
  forall (C : numClosedFieldType) (p : {poly C}) (z : C), z != 0%R ->
    root (revp p) z = root p z^-1%R.
Proof. exact reverse_roots. Qed.
Print Assumptions C19_reverse_roots.

(* image of the disc D(z,r), r < |z|, under w -> 1/w lies in the disc the check uses:
   centre conj(z)/(|z|^2-r^2), radius r/(|z|^2-r^2) *)
Theorem C19_inv_disc_sound :
  forall (C : numClosedFieldType) (z w r : C),
    (0 <= r -> r < `|z| -> `|w - z| <= r ->
     `|w^-1 - z^* / (`|z|^+2 - r^+2)| <= r / (`|z|^+2 - r^+2))%R.
Proof. exact inv_disc_sound. Qed.
Print Assumptions C19_inv_disc_sound.

(* ======================================================================================== *)
Local Close Scope Q_scope.
Local Open Scope ring_scope.
(* (5) The secular equation  sum_i a_i/(x - b_i) = 1  and its numerator polynomial secD - secN
   (the polynomial computed by the extracted secular -> monomial conversion,
   Roots/TransformSound.v secular_to_monomial_sound). *)

(* monic of degree n *)
Theorem C19_secular_poly_monic :
  forall (F : fieldType) (ab : seq.seq (F * F)),
    size (secD ab - secN ab)%R = (size ab).+1 /\ (secD ab - secN ab)%R \is monic.
Proof. by move=> F ab; split; [exact: size_sec_poly | exact: monic_sec_poly]. Qed.
Print Assumptions C19_secular_poly_monic.

(* away from the poles: root of the polynomial <-> solution of the secular equation *)
Theorem C19_secular_root_equiv :
  forall (F : fieldType) (ab : seq.seq (F * F)) (x : F), x \notin poles ab ->
    root (secD ab - secN ab)%R x <-> (\sum_(p <- ab) p.1 / (x - p.2) = 1)%R.
Proof. exact secular_root_equiv. Qed.
Print Assumptions C19_secular_root_equiv.

(* at a pole (distinct b_i): value of the polynomial, and  b_i is a root iff a_i = 0 *)
Theorem C19_secular_pole_root_iff :
  forall (F : fieldType) (ab : seq.seq (F * F)) (a b : F),
    uniq (poles ab) -> (a, b) \in ab ->
    (secD ab - secN ab).[b]%R = (- (a * \prod_(t <- ab | t.2 != b) (b - t.2)))%R /\
    root (secD ab - secN ab)%R b = (a == 0%R).
Proof. by move=> F ab a b u i; split; [exact: sec_poly_at_pole | exact: pole_root_iff]. Qed.
Print Assumptions C19_secular_pole_root_iff.

(* as rational functions:  1 - sum_i a_i/(X - b_i) = (secD - secN)/secD  in the fraction field *)
Theorem C19_secular_rational_function :
  forall (F : fieldType) (ab : seq.seq (F * F)),
    sec_frac ab = (FracField.tofrac (secD ab - secN ab) / FracField.tofrac (secD ab))%R.
Proof. exact sec_frac_eq. Qed.
Print Assumptions C19_secular_rational_function.

(* same multiplicities: whatever quotient u/v of polynomials represents the secular function, its order
   at a point x that is not a pole (mu_x u - mu_x v) is the multiplicity of x in secD - secN *)
Theorem C19_secular_multiplicity :
  forall (F : fieldType) (ab : seq.seq (F * F)) (x : F) (u v : {poly F}),
    x \notin poles ab -> v != 0%R ->
    sec_frac ab = (FracField.tofrac u / FracField.tofrac v)%R ->
    \mu_x u = addn (\mu_x v) (\mu_x (secD ab - secN ab)).
Proof. exact sec_multiplicity. Qed.
Print Assumptions C19_secular_multiplicity.

Example C19_secular_multiplicity_nonvacuous :
  exists (ab : seq.seq (rat * rat)) (x : rat), x \notin poles ab /\ root (secD ab - secN ab)%R x.
Proof.
(* 2/(x-1) = 1 : root x = 3 *)
exists [:: (2%:R, 1)%R], 3%:R%R; split=> //.
by rewrite /root /= !(hornerE, hornerXsubC) /=.
Qed.

(* regeneration (secular-regeneration.c, exact): a_i = - p(b_i) / (lc p * prod_(j<>i) (b_i - b_j)) on n distinct
   nodes gives back p up to its leading coefficient; same multiplicities; root test in secular terms *)
Theorem C19_regen_sound :
  forall (F : fieldType) (p : {poly F}) (bs : seq.seq F), uniq bs -> size p = (size bs).+1 ->
    (lead_coef p *: (secD (regen p bs) - secN (regen p bs)) = p)%R /\
    (forall x, (\mu_x (secD (regen p bs) - secN (regen p bs)))%R = (\mu_x p)%R) /\
    (forall x, root p x <->
       (if x \in bs then SecularTheory.regen_coeff p bs x == 0%R
        else (\sum_(t <- regen p bs) t.1 / (x - t.2))%R == 1%R)).
Proof.
move=> F p bs u s; split; first exact: regen_sound.
by split=> x; [exact: regen_mu | exact: regen_root].
Qed.
Print Assumptions C19_regen_sound.

Example C19_regen_nonvacuous :
  exists (p : {poly rat}) (bs : seq.seq rat), uniq bs /\ size p = (size bs).+1.
Proof. by exists ('X^2 - 1%:P)%R, [:: 0%R; 2%:R%R]; split=> //; rewrite size_addl ?size_polyXn // size_opp size_polyC. Qed.

(* ======================================================================================== *)
(* (6) The extracted conversions (Match/ConvertModel.v, run by bin/matchq on every check) denote the intended
   operations over any algebraically closed field C. *)
Theorem C19_conv_scale_sound :
  forall (C : numClosedFieldType) (c : gq) (p : qpoly), gq_wf c -> all gq_wf p ->
    all gq_wf (conv_scale c p) /\ QP2C C (conv_scale c p) = (Q2C C c *: QP2C C p)%R.
Proof. exact conv_scale_sound. Qed.
Print Assumptions C19_conv_scale_sound.

Theorem C19_conv_rescale_sound :
  forall (C : numClosedFieldType) (alpha : gq) (p : qpoly), gq_wf alpha -> all gq_wf p ->
    all gq_wf (conv_rescale alpha p) /\
    QP2C C (conv_rescale alpha p) = (QP2C C p \Po (Q2C C alpha *: 'X))%R.
Proof. exact conv_rescale_sound. Qed.
Print Assumptions C19_conv_rescale_sound.

Theorem C19_conv_reverse_sound :
  forall (C : numClosedFieldType) (p : qpoly), Q2C C (List.last p gq_zero) != 0%R ->
    QP2C C (conv_reverse p) = revp (QP2C C p).
Proof. exact conv_reverse_sound. Qed.
Print Assumptions C19_conv_reverse_sound.

Theorem C19_conv_secular_sound :
  forall (C : numClosedFieldType) (p : qpoly) (bs : list gq), conv_secular_pre p bs ->
    let ab := ab2C C (conv_secular p bs) in
    [/\ uniq (poles ab),
        (Q2C C (List.last p gq_zero) *: (secD ab - secN ab) = QP2C C p)%R,
        (Q2C C (List.last p gq_zero) *: QP2C C (secular_poly (conv_secular p bs)) = QP2C C p)%R
      & forall x, (\mu_x (secD ab - secN ab))%R = (\mu_x (QP2C C p))%R].
Proof. exact conv_secular_sound. Qed.
Print Assumptions C19_conv_secular_sound.

Example C19_conv_secular_nonvacuous :
  conv_secular_pre [:: ((1, 0), 1); ((0, 0), 1); ((-3, 2), 1); ((1, 0), 2)]%Z
                   [:: ((5, 0), 1); ((7, 1), 2); ((0, 1), 3)]%Z = true.
Proof. by vm_compute. Qed.

(* validated conversions: data proposed by untrusted code, accepted by the extracted test *)
Theorem C19_secular_back_sound :
  forall (C : numClosedFieldType) (p : qpoly) (ab : list (gq * gq)),
    all gq_wf p -> all pair_wf ab -> secular_back_ok p ab ->
    (Q2C C (List.last p gq_zero) *: (secD (ab2C C ab) - secN (ab2C C ab)) = QP2C C p)%R.
Proof. exact secular_back_sound. Qed.
Print Assumptions C19_secular_back_sound.

Theorem C19_chebyshev_back_sound :
  forall (C : numClosedFieldType) (p : qpoly) (cs : list gq),
    all gq_wf p -> all gq_wf cs -> chebyshev_back_ok p cs ->
    QP2C C p = (\sum_(k < size cs) Q2C C (seq.nth gq_zero cs k) *: chebT C k)%R.
Proof. exact chebyshev_back_sound. Qed.
Print Assumptions C19_chebyshev_back_sound.

Example C19_chebyshev_back_nonvacuous :
  chebyshev_back_ok [:: ((1, 0), 1); ((0, 0), 1); ((-3, 0), 1); ((1, 0), 1)]%Z
                    [:: ((-1, 0), 2); ((3, 0), 4); ((-3, 0), 2); ((1, 0), 4)]%Z = true.
Proof. by vm_compute. Qed.

(* the three-term recurrence chebT (T0 = 1, T1 = X, T(n+2) = 2 X T(n+1) - T(n)) is the Chebyshev polynomial of
   the first kind: T_n((z + 1/z)/2) = (z^n + 1/z^n)/2, for every degree *)
Theorem C19_chebT_joukowski :
  forall (C : numClosedFieldType) (z : C) (n : nat), z != 0%R ->
    ((chebT C n).[(z + z^-1) / 2%:R] = (z ^+ n + z ^- n) / 2%:R)%R.
Proof. exact chebT_joukowski. Qed.
Print Assumptions C19_chebT_joukowski.

(* multiplicities (not only roots) are transported by coefficient scaling and variable rescaling, hence by
   conv_scale / conv_rescale through the two bridge theorems above *)
Theorem C19_mu_scale_coefficients :
  forall (F : fieldType) (p : {poly F}) (c z : F), c != 0 -> \mu_z (c *: p) = \mu_z p.
Proof. exact mu_scale_coefficients. Qed.
Print Assumptions C19_mu_scale_coefficients.

Theorem C19_mu_rescale_variable :
  forall (F : fieldType) (p : {poly F}) (alpha z : F), alpha != 0 ->
    \mu_z (p \Po (alpha *: 'X)) = \mu_(alpha * z) p.
Proof. exact mu_rescale_variable. Qed.
Print Assumptions C19_mu_rescale_variable.

(* ======================================================================================== *)
(* (7) Matching when roots may be multiple / discs of one family may share roots. *)

(* the general form: both families labelled by the same multiset of points, disc i containing label i *)
Theorem C19_matching_exists_labelled :
  forall (T : eqType) (n : nat) (A B : 'I_n -> pred T) (ra rb : n.-tuple T),
    perm_eq ra rb -> (forall i, A i (tnth ra i)) -> (forall i, B i (tnth rb i)) ->
    exists s : 'S_n, forall i, exists r, A i r && B (s i) r.
Proof. exact matching_exists_labelled. Qed.
Print Assumptions C19_matching_exists_labelled.

(* the form the inclusion property must take for multiple roots: each family can be labelled by the roots of p so
   that every z is used exactly mu_z(p) times (a root of multiplicity m is the label of m discs) *)
Theorem C19_matching_exists_mult :
  forall (R : idomainType) (n : nat) (A B : 'I_n -> pred R) (p : {poly R}) (ra rb : n.-tuple R),
    (forall z, count_mem z ra = (\mu_z p)%R) -> (forall z, count_mem z rb = (\mu_z p)%R) ->
    (forall i, A i (tnth ra i)) -> (forall i, B i (tnth rb i)) ->
    exists s : 'S_n, forall i, exists r, A i r && B (s i) r.
Proof. exact matching_exists_mult. Qed.
Print Assumptions C19_matching_exists_mult.

(* such labellings are exactly the orderings of the root list of a split polynomial *)
Theorem C19_mu_prod_XsubC :
  forall (R : idomainType) (rs : seq.seq R) (c z : R), c != 0%R ->
    (\mu_z (c *: \prod_(w <- rs) ('X - w%:P)))%R = count_mem z rs.
Proof. exact mu_prod_XsubC. Qed.
Print Assumptions C19_mu_prod_XsubC.

Example C19_matching_exists_mult_nonvacuous :
  exists (p : {poly rat}) (ra : 3.-tuple rat), forall z, count_mem z ra = (\mu_z p)%R.
Proof.
exists (1 *: \prod_(w <- [:: 1; 1; 2%:R]) ('X - w%:P))%R, [tuple 1%R; 1%R; 2%:R%R] => z.
by rewrite mu_prod_XsubC.
Qed.

(* C01's own wording for isolated discs: each disc contains exactly one root and each root lies in some disc
   (discs need not be disjoint) *)
Theorem C19_matching_exists_isolated :
  forall (n : nat) (A B : 'I_n -> pred 'I_n),
    (forall i, exists r, A i r) -> (forall i r r', A i r -> A i r' -> r = r') -> (forall r, exists i, A i r) ->
    (forall i, exists r, B i r) -> (forall i r r', B i r -> B i r' -> r = r') -> (forall r, exists i, B i r) ->
    exists s : {perm 'I_n}, forall i, exists r, A i r && B (s i) r.
Proof. exact matching_exists_isolated. Qed.
Print Assumptions C19_matching_exists_isolated.

(* ... while the bare coverage form (every disc contains a root, every root is in a disc, n discs for n SIMPLE
   roots) does not imply C19: two such families over Q that no permutation matches with intersecting discs.
   This is a statement about which form of C01 is needed, not about the code: no replay applies. *)
Theorem C19_matching_from_coverage_only_refuted :
  exists (rs : list (Q * Q)) (dsA dsB : list MatchCheck.disc),
    covers dsA rs = true /\ covers dsB rs = true /\
    forall s, check_matching dsA dsB s = false.
Proof. exact coverage_only_no_matching. Qed.
Print Assumptions C19_matching_from_coverage_only_refuted.

Theorem C19_covers_spec :
  forall ds rs, covers ds rs = true <->
    length ds = length rs /\
    (forall d, In d ds -> exists r, In r rs /\ inside d r = true) /\
    (forall r, In r rs -> exists d, In d ds /\ inside d r = true).
Proof. exact covers_spec. Qed.
Print Assumptions C19_covers_spec.
