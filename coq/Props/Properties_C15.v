(* C15 -- a context can be reused: statements only (proofs in Ctx/ResizeProofs.v).

   The model (Ctx/ResizeModel.v) is the bookkeeping of struct mps_context: which work arrays are
   allocated for which size, which object slots are initialised, the helper secular equation and
   the sticky flags; operations are compiled to the index ranges they touch with the loop bounds as
   coded.  [Old] is /repo as it is, [Fixed] is /repo after fixes/C15_resize_zero_roots.patch,
   fixes/C15_parse_keeps_degree.patch and fixes/C15_zero_roots_reset.patch.
   The numerical part of a solve is abstracted to "touches the whole n-based extent of every array";
   actual memory behaviour of the real library is explored by checks/C15.py under ASan/LSan. *)
Require Import ZArith List Bool.
Require Import MPSV.Ctx.ResizeModel MPSV.Ctx.ResizeProofs MPSV.Ctx.ApiModel MPSV.Ctx.ApiProofs.
Import ListNotations.
Open Scope Z_scope.

(* For every sequence of operations (any length; degrees >= 1 after deflation), every access of the
   repaired code hits an allocated and initialised slot, and nothing owned is dropped. *)
Theorem C15_accesses_in_bounds : forall ops : list op, Forall op_wf ops ->
  snd (run Fixed ops) = true /\ (fst (run Fixed ops)).(leaked) = false.
Proof. exact accesses_in_bounds_fixed. Qed.
Print Assumptions C15_accesses_in_bounds.

Example C15_accesses_in_bounds_nonvacuous :
  Forall op_wf witness_zero_roots /\ Forall op_wf witness_parse /\
  (fst (run Fixed witness_zero_roots)).(n) = 3 /\ (fst (run Fixed witness_zero_roots)).(alloc) Root = 3.
Proof. split; [exact wf_zero_roots|]. split; [exact wf_parse|]. split; vm_compute; reflexivity. Qed.

(* The code as it is: the same statement is false. *)
Theorem C15_unfixed_refuted :
  exists ops, Forall op_wf ops /\ snd (run Old ops) = false.
Proof. exact unfixed_refuted. Qed.
Print Assumptions C15_unfixed_refuted.

Theorem C15_unfixed_parse_refuted :
  snd (run Old witness_parse) = false /\ snd (run Old witness_zero_roots) = false.
Proof. split; vm_compute; reflexivity. Qed.
Print Assumptions C15_unfixed_parse_refuted.

(* free releases every array and no object was dropped on the way (repaired code) ... *)
Theorem C15_release : forall ops : list op, Forall op_wf ops ->
  released (fst (run Fixed (ops ++ [OFree]))).
Proof. exact release_fixed. Qed.
Print Assumptions C15_release.

(* ... which is false today (shrink with zero roots), and stays false for the private pool of
   every asynchronous solve in both variants *)
Theorem C15_unfixed_leak_refuted :
  exists ops, Forall op_wf ops /\ snd (run Old (ops ++ [OFree])) = true /\
              ~ released (fst (run Old (ops ++ [OFree]))).
Proof. exact unfixed_leak_refuted. Qed.
Print Assumptions C15_unfixed_leak_refuted.

Theorem C15_async_pool_leak_refuted : forall v s, s.(ctx) = true -> s.(have_poly) = true ->
  (fst (step v s OSolveAsync)).(pools) = s.(pools) + 1.
Proof. exact async_pool_never_released. Qed.
Print Assumptions C15_async_pool_leak_refuted.

(* The configuration a solve starts from depends only on the current polynomial and settings:
   after ANY history h, [set_poly p; algorithm a; goal g] leads to the configuration of a fresh context
   (instance h = [ONew]).  Modulo the sticky flags, whose effect is the next two theorems. *)
Theorem C15_history_independent : forall h d z k a g,
  Forall op_wf h -> op_wf (OSetPoly d z k) ->
  let s := fst (run Fixed (h ++ [OSetPoly d z k; OAlgo a; OGoal g])) in
  s.(ctx) = true ->
  snd (solve_prepare s) = true /\ config (fst (solve_prepare s)) = fresh_config (d - z) z a g.
Proof. exact history_independent_fixed. Qed.
Print Assumptions C15_history_independent.

Example C15_history_independent_nonvacuous :
  let h := [ONew; OSetPoly 8 5 KMonomial; OAlgo AlgoS; OSolve; OSetPoly 30 0 KFileMonomial; OSolveAsync; OGetRoots] in
  Forall op_wf h /\ (fst (run Fixed (h ++ [OSetPoly 4 0 KSecular; OAlgo AlgoS; OGoal GoalApprox]))).(ctx) = true.
Proof. split; [repeat constructor; cbn; try discriminate; auto with zarith | vm_compute; reflexivity]. Qed.

Theorem C15_unfixed_history_dependent :
  exists h d z k a g, Forall op_wf h /\ op_wf (OSetPoly d z k) /\
    let s := fst (run Old (h ++ [OSetPoly d z k; OAlgo a; OGoal g])) in
    s.(ctx) = true /\ config (fst (solve_prepare s)) <> fresh_config (d - z) z a g.
Proof. exact unfixed_history_dependent. Qed.
Print Assumptions C15_unfixed_history_dependent.

Theorem C15_sticky_error_flag : forall v s, s.(ctx) = true -> s.(err) = true ->
  step v s OSolve = (s, true).
Proof. exact error_flag_makes_solve_noop. Qed.
Print Assumptions C15_sticky_error_flag.

(* Repaired in round 6: the statement used to claim the error for every input of the secular algorithm.  As coded,
   "Exit forced by the caller" (secular-ga.c:409) is reached only when the input IS a secular equation; for polynomial
   input mps_secular_ga_check_stop (:78, called at :295) makes the function return after the first Aberth packet
   without any error (next theorem).  The abort op was not part of the checked tie before, so the model had not been
   compared with the code on this branch; it is now (sessions error_between / random abort). *)
Theorem C15_sticky_exit_flag : forall s, Inv s -> s.(ctx) = true -> s.(have_poly) = true ->
  s.(err) = false -> s.(exitreq) = true -> s.(alg) = AlgoS -> s.(kind) = KSecular ->
  (fst (step Fixed s OSolve)).(err) = true.
Proof. exact exit_flag_makes_secular_solve_fail. Qed.
Print Assumptions C15_sticky_exit_flag.

Theorem C15_sticky_exit_flag_quiet_for_polynomial_input : forall s, Inv s -> s.(ctx) = true -> s.(have_poly) = true ->
  s.(err) = false -> s.(exitreq) = true -> s.(kind) <> KSecular ->
  (fst (step Fixed s OSolve)).(err) = false /\ (fst (step Fixed s OSolve)).(exitreq) = true.
Proof. exact exit_flag_quiet_for_polynomial_input. Qed.
Print Assumptions C15_sticky_exit_flag_quiet_for_polynomial_input.

Example C15_sticky_exit_flag_nonvacuous :
  let s := fst (run Fixed [ONew; OAlgo AlgoS; OSetPoly 4 0 KSecular; OAbort]) in
  let s' := fst (run Fixed [ONew; OAlgo AlgoS; OSetPoly 4 0 KChebyshev; OAbort]) in
  Inv s /\ s.(exitreq) = true /\ s.(kind) = KSecular /\ (fst (step Fixed s OSolve)).(err) = true /\
  Inv s' /\ s'.(kind) <> KSecular /\ (fst (step Fixed s' OSolve)).(err) = false.
Proof.
  cbv zeta. split; [apply run_Inv; repeat constructor; cbn; auto with zarith|].
  split; [vm_compute; reflexivity|]. split; [vm_compute; reflexivity|]. split; [vm_compute; reflexivity|].
  split; [apply run_Inv; repeat constructor; cbn; auto with zarith|]. split; [vm_compute; discriminate | vm_compute; reflexivity].
Qed.

(* ======================================================================================================
   The widened operation set (Ctx/ApiModel.v): everything a user can interleave with solves --
   mps_context_set_degree called directly, output precision / format, starting phase, jacobi / crude /
   avoid-multiprecision switches, every polynomial kind (for the bookkeeping: monomial, monomial from .pol text,
   secular equation, Chebyshev base), solves whose numerical part reports an [outcome]
   (final phase, input precision exhausted, error raised), asynchronous solves, errors, abort, free of the
   polynomial while set, free.  The allocation part is ResizeModel in its Fixed variant (= /repo HEAD);
   the variant of this layer is Old = /repo today, Fixed = after fixes/C15_secular_over_max_reset.patch. *)

Theorem C15_wide_accesses_in_bounds : forall (v : variant) (ops : list wop), Forall wop_wf ops ->
  snd (wrun v ops) = true /\ (fst (wrun v ops)).(b).(leaked) = false.
Proof. exact wide_accesses_in_bounds. Qed.
Print Assumptions C15_wide_accesses_in_bounds.

Example C15_wide_nonvacuous :
  let h := [WNew; WSetPoly 3 0 KMonomial; WSolve (mkout false FloatPhase false); WSetDegree 9; WSetPoly 8 5 KMonomial;
            WAlgo AlgoS; WStartPhase DpePhase; WSolveAsync (mkout false DpePhase false); WSetDegree 3; WSetDegree 1;
            WSetPoly 20 0 KChebyshev; WAlgo AlgoU; WSolve (mkout false NoPhase true); WGetRoots; WFreePoly] in
  Forall wop_wf h /\ (fst (wrun Old h)).(b).(n) = 20 /\ (fst (wrun Old h)).(b).(alloc) Spar1 = 22 /\
  (fst (wrun Old h)).(b).(err) = true /\ (fst (wrun Old h)).(b).(pools) = 1.
Proof. split; [repeat constructor; cbn; try discriminate; auto with zarith | repeat split; vm_compute; reflexivity]. Qed.

Theorem C15_wide_release : forall (v : variant) (ops : list wop), Forall wop_wf ops ->
  released (fst (wrun v (ops ++ [WFree]))).(b).
Proof. exact wide_release. Qed.
Print Assumptions C15_wide_release.

(* lifetime of the helper secular equation: whenever the context holds one, the work arrays are allocated and the
   helper has exactly the current number of roots (it is never carried over a change of degree) *)
Theorem C15_wide_helper_matches_degree : forall (v : variant) (ops : list wop) (m : Z), Forall wop_wf ops ->
  (fst (wrun v ops)).(b).(sec) = Some m ->
  m = (fst (wrun v ops)).(b).(n) /\ (fst (wrun v ops)).(b).(init) = true.
Proof. exact wide_helper_matches_degree. Qed.
Print Assumptions C15_wide_helper_matches_degree.

Example C15_wide_helper_nonvacuous :
  (fst (wrun Old [WNew; WSetPoly 7 2 KMonomial; WAlgo AlgoS; WSolve (mkout false FloatPhase false)])).(b).(sec) = Some 5.
Proof. vm_compute. reflexivity. Qed.

Theorem C15_wide_history_independent : forall (v : variant) h d z k a g,
  Forall wop_wf h -> op_wf (OSetPoly d z k) ->
  let w := fst (wrun v (h ++ [WSetPoly d z k; WAlgo a; WGoal g])) in
  w.(b).(ctx) = true ->
  snd (solve_prepare w.(b)) = true /\ config (fst (solve_prepare w.(b))) = fresh_config (d - z) z a g.
Proof. exact wide_history_independent. Qed.
Print Assumptions C15_wide_history_independent.

(* the flags a user reads after a solve (mps_context_get_over_max, lastphase, mps_context_has_errors) are those of
   this solve's own numerical part: standard algorithm in both variants, secular algorithm after the repair *)
Theorem C15_wide_flags_after_solve : forall (v : variant) w oc (async : bool),
  w.(b).(ctx) = true -> w.(b).(have_poly) = true -> w.(b).(err) = false ->
  (w.(b).(alg) = AlgoU \/ (v = Fixed /\ forced w.(b) = false)) ->
  let w' := fst (wstep v w (if async then WSolveAsync oc else WSolve oc)) in
  w'.(over) = oc.(o_over) /\ w'.(lphase) = oc.(o_phase) /\
  w'.(b).(err) = (match w.(b).(alg) with AlgoU => oc.(o_err) | AlgoS => false end).
Proof. exact wide_flags_after_solve. Qed.
Print Assumptions C15_wide_flags_after_solve.

(* ... and as the code is today the secular algorithm leaves over_max of an earlier solve in place: same settings,
   same polynomial, same numerical outcome, different answer of mps_context_get_over_max than a fresh context.
   Replayed on the real library by checks/C15.py (witness_stale_over_max_secular). *)
Theorem C15_wide_over_max_secular_refuted :
  exists h f oc, Forall wop_wf h /\ Forall wop_wf f /\ oc.(o_over) = false /\
    settings (fst (wrun Old h)) = settings (fst (wrun Old f)) /\
    (fst (wrun Old (h ++ [WSolve oc]))).(over) = true /\ (fst (wrun Old (f ++ [WSolve oc]))).(over) = false /\
    (fst (wrun Fixed (h ++ [WSolve oc]))).(over) = false.
Proof. exact wide_over_max_secular_refuted. Qed.
Print Assumptions C15_wide_over_max_secular_refuted.

(* settings are changed by their own setter (and by new / free) only: no solve, set_input_poly, set_degree,
   get_roots, error or abort touches them *)
Theorem C15_wide_settings_frame : forall (v : variant) w o, w.(b).(ctx) = true ->
  settings (fst (wstep v w o)) =
  match o with
  | WAlgo a => (w.(oprec), w.(ofmt), w.(sphase), w.(jac), w.(crude), w.(avoidmp), a, w.(b).(gl))
  | WGoal g => (w.(oprec), w.(ofmt), w.(sphase), w.(jac), w.(crude), w.(avoidmp), w.(b).(alg), g)
  | WPrec p => (p, w.(ofmt), w.(sphase), w.(jac), w.(crude), w.(avoidmp), w.(b).(alg), w.(b).(gl))
  | WFormat f => (w.(oprec), f, w.(sphase), w.(jac), w.(crude), w.(avoidmp), w.(b).(alg), w.(b).(gl))
  | WStartPhase ph => (w.(oprec), w.(ofmt), ph, w.(jac), w.(crude), w.(avoidmp), w.(b).(alg), w.(b).(gl))
  | WJacobi x => (w.(oprec), w.(ofmt), w.(sphase), x, w.(crude), w.(avoidmp), w.(b).(alg), w.(b).(gl))
  | WCrude x => (w.(oprec), w.(ofmt), w.(sphase), w.(jac), x, w.(avoidmp), w.(b).(alg), w.(b).(gl))
  | WAvoidMp x => (w.(oprec), w.(ofmt), w.(sphase), w.(jac), w.(crude), x, w.(b).(alg), w.(b).(gl))
  | WFree => settings wempty
  | _ => settings w
  end.
Proof. exact wide_settings_frame. Qed.
Print Assumptions C15_wide_settings_frame.
