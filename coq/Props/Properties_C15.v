(* C15 -- a context can be reused: statements only (proofs in Ctx/ResizeProofs.v).

   The model (Ctx/ResizeModel.v) is the bookkeeping of struct mps_context: which work arrays are
   allocated for which size, which object slots are initialised, the helper secular equation and
   the sticky flags; operations are compiled to the index ranges they touch with the loop bounds as
   coded.  [Old] is /repo as it is, [Fixed] is /repo after fixes/C15_resize_zero_roots.patch,
   fixes/C15_parse_keeps_degree.patch and fixes/C15_zero_roots_reset.patch.
   The numerical part of a solve is abstracted to "touches the whole n-based extent of every array";
   actual memory behaviour of the real library is explored by checks/C15.py under ASan/LSan. *)
Require Import ZArith List Bool.
Require Import MPSV.Ctx.ResizeModel MPSV.Ctx.ResizeProofs.
Import ListNotations.
Open Scope Z_scope.

(* For every sequence of operations (any length; degrees >= 1 after deflation), every access of the
   repaired code hits an allocated and initialised slot, and nothing owned is dropped. *)
Theorem C15_accesses_in_bounds : forall ops : list op, Forall op_wf ops ->
  snd (run Fixed ops) = true /\ (fst (run Fixed ops)).(leaked) = false.
Proof. exact accesses_in_bounds_fixed. Qed.
Print Assumptions C15_accesses_in_bounds.

Example C15_accesses_in_bounds_nonvacuous :
  Forall op_wf witness_zero_roots /\ Forall op_wf witness_parse /\
  (fst (run Fixed witness_zero_roots)).(n) = 3 /\ (fst (run Fixed witness_zero_roots)).(alloc) Root = 3.
Proof. split; [exact wf_zero_roots|]. split; [exact wf_parse|]. split; vm_compute; reflexivity. Qed.

(* The code as it is: the same statement is false. *)
Theorem C15_unfixed_refuted :
  exists ops, Forall op_wf ops /\ snd (run Old ops) = false.
Proof. exact unfixed_refuted. Qed.
Print Assumptions C15_unfixed_refuted.

Theorem C15_unfixed_parse_refuted :
  snd (run Old witness_parse) = false /\ snd (run Old witness_zero_roots) = false.
Proof. split; vm_compute; reflexivity. Qed.
Print Assumptions C15_unfixed_parse_refuted.

(* free releases every array and no object was dropped on the way (repaired code) ... *)
Theorem C15_release : forall ops : list op, Forall op_wf ops ->
  released (fst (run Fixed (ops ++ [OFree]))).
Proof. exact release_fixed. Qed.
Print Assumptions C15_release.

(* ... which is false today (shrink with zero roots), and stays false for the private pool of
   every asynchronous solve in both variants *)
Theorem C15_unfixed_leak_refuted :
  exists ops, Forall op_wf ops /\ snd (run Old (ops ++ [OFree])) = true /\
              ~ released (fst (run Old (ops ++ [OFree]))).
Proof. exact unfixed_leak_refuted. Qed.
Print Assumptions C15_unfixed_leak_refuted.

Theorem C15_async_pool_leak_refuted : forall v s, s.(ctx) = true -> s.(have_poly) = true ->
  (fst (step v s OSolveAsync)).(pools) = s.(pools) + 1.
Proof. exact async_pool_never_released. Qed.
Print Assumptions C15_async_pool_leak_refuted.

(* The configuration a solve starts from depends only on the current polynomial and settings:
   after ANY history h, [set_poly p; algorithm a; goal g] leads to the configuration of a fresh context
   (instance h = [ONew]).  Modulo the sticky flags, whose effect is the next two theorems. *)
Theorem C15_history_independent : forall h d z k a g,
  Forall op_wf h -> op_wf (OSetPoly d z k) ->
  let s := fst (run Fixed (h ++ [OSetPoly d z k; OAlgo a; OGoal g])) in
  s.(ctx) = true ->
  snd (solve_prepare s) = true /\ config (fst (solve_prepare s)) = fresh_config (d - z) z a g.
Proof. exact history_independent_fixed. Qed.
Print Assumptions C15_history_independent.

Example C15_history_independent_nonvacuous :
  let h := [ONew; OSetPoly 8 5 KMonomial; OAlgo AlgoS; OSolve; OSetPoly 30 0 KFileMonomial; OSolveAsync; OGetRoots] in
  Forall op_wf h /\ (fst (run Fixed (h ++ [OSetPoly 4 0 KSecular; OAlgo AlgoS; OGoal GoalApprox]))).(ctx) = true.
Proof. split; [repeat constructor; cbn; try discriminate; auto with zarith | vm_compute; reflexivity]. Qed.

Theorem C15_unfixed_history_dependent :
  exists h d z k a g, Forall op_wf h /\ op_wf (OSetPoly d z k) /\
    let s := fst (run Old (h ++ [OSetPoly d z k; OAlgo a; OGoal g])) in
    s.(ctx) = true /\ config (fst (solve_prepare s)) <> fresh_config (d - z) z a g.
Proof. exact unfixed_history_dependent. Qed.
Print Assumptions C15_unfixed_history_dependent.

Theorem C15_sticky_error_flag : forall v s, s.(ctx) = true -> s.(err) = true ->
  step v s OSolve = (s, true).
Proof. exact error_flag_makes_solve_noop. Qed.
Print Assumptions C15_sticky_error_flag.

Theorem C15_sticky_exit_flag : forall s, Inv s -> s.(ctx) = true -> s.(have_poly) = true ->
  s.(err) = false -> s.(exitreq) = true -> s.(alg) = AlgoS ->
  (fst (step Fixed s OSolve)).(err) = true.
Proof. exact exit_flag_makes_secular_solve_fail. Qed.
Print Assumptions C15_sticky_exit_flag.
