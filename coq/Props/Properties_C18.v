(* C18 -- errors are reported faithfully, asynchronous solves complete exactly once: statements only.
   Models: Ctx/ErrorModel.v (mps_error with an abstract vsnprintf and an explicit va_list cursor;
   mps_caller + a one-task private pool), Ctx/ResizeModel.v (mps_mpsolve's early return).
   [Old] = /repo as it is; [Fixed] = after fixes/C18_mps_error.patch. *)
Require Import List String Arith Bool.
Require Import MPSV.Ctx.ErrorModel MPSV.Ctx.ErrorProofs.
Require MPSV.Ctx.ResizeModel MPSV.Ctx.ResizeProofs.
Require MPSV.Ctx.AbortModel MPSV.Ctx.AbortProofs.
Require MPSV.Conc.PoolModel MPSV.Conc.PoolAsync MPSV.Ctx.AsyncPool.
Require MPSV.Total.SkelDefs MPSV.Total.SkelProofs.
Import ListNotations.
Open Scope string_scope.

(* For every format, every argument list that supplies the arguments the format consumes, whatever
   lies behind them in the argument area, and every resulting length: the flag is set and the
   retrievable message is the fully formatted text (repaired code; two attempts always suffice). *)
Theorem C18_error_message_faithful : forall fuel e f args junk,
  2 <= fuel -> n_args f <= List.length args ->
  (mps_error Fixed fuel e f args junk).(error_state) = true /\
  (mps_error Fixed fuel e f args junk).(last_error) = Some (intended f args).
Proof. exact error_message_faithful_fixed. Qed.
Print Assumptions C18_error_message_faithful.

Example C18_error_message_faithful_nonvacuous :
  (mps_error Fixed 2 (mkE false None) fmt_open [long_path] ["JUNK"]).(last_error)
  = Some ("Error while opening file: " ++ long_path).
Proof. vm_compute. reflexivity. Qed.

(* The code as it is: false at length 32 (last character dropped) ... *)
Theorem C18_error_message_32_refuted :
  String.length (intended lit32 []) = 32 /\
  (mps_error Old 5 (mkE false None) lit32 [] []).(last_error) <> Some (intended lit32 []).
Proof. exact error_message_32_refuted. Qed.
Print Assumptions C18_error_message_32_refuted.

(* ... and for longer messages with an argument (second pass reads past the arguments) *)
Theorem C18_error_message_faithful_refuted :
  exists f args junk, n_args f <= List.length args /\
    (mps_error Old 5 (mkE false None) f args junk).(last_error) <> Some (intended f args).
Proof. exact error_message_faithful_refuted. Qed.
Print Assumptions C18_error_message_faithful_refuted.

(* With the flag set a solve performs no step (no array is touched, nothing is allocated) and
   leaves the whole modelled context unchanged; an asynchronous one only creates its private pool. *)
Theorem C18_error_sticky_noop : forall v s,
  ResizeModel.ctx s = true -> ResizeModel.err s = true ->
  ResizeModel.step v s ResizeModel.OSolve = (s, true) /\
  ResizeModel.step v s ResizeModel.OSolveAsync =
    (if ResizeModel.have_poly s then ResizeModel.add_pool s else s, true).
Proof.
  intros v s Ec Ee. split; [apply ResizeProofs.error_flag_makes_solve_noop; assumption|].
  unfold ResizeModel.step. rewrite Ec. simpl negb. cbv iota.
  destruct (ResizeModel.have_poly s) eqn:Ep; [|reflexivity].
  unfold ResizeModel.solve. simpl. rewrite Ep, Ee. reflexivity.
Qed.
Print Assumptions C18_error_sticky_noop.

(* mps_caller on a one-task pool: the callback runs exactly once and nothing of the solve follows it.
   _partial: that the pool runs an assigned task exactly once is the C06 pool model's theorem, here it is
   the definition of [worker]; real threads are exercised by harness/c18_async.c. *)
Theorem C18_async_callback_once_partial : forall err,
  count_cb (mpsolve_async err true) = 1 /\ cb_last (mpsolve_async err true) = true /\
  (err = false -> mpsolve_async err true = [EvSolveBegin; EvSolveEnd; EvCallback]) /\
  (err = true -> mpsolve_async err true = [EvCallback]).
Proof. exact async_callback_once. Qed.
Print Assumptions C18_async_callback_once_partial.

(* The same over the C06 pool model (coq/Conc/PoolModel.v: the client and the pool's threads as a labelled transition
   system over the two mutexes and condition variables of threading.c, spurious wake-ups included), no longer over a
   definitional pool: mps_mpsolve_async hands ONE task (mps_caller = solve unless the flag is set; callback) to a private
   pool.  For EVERY trace of the pool model in which exactly that task has been handed over: the callback has been invoked
   at most once, nothing of the solve follows it, and as soon as the task counts as executed (or a wait on the pool returns)
   the events are exactly those of mps_caller: the callback exactly once, after the solve. *)
Theorem C18_async_callback_once : forall err tr s t,
  PoolModel.run PoolModel.init tr = Some s -> PoolModel.assigned s = [t] ->
  count_cb (AsyncPool.async_events err true tr) <= 1 /\
  cb_last (AsyncPool.async_events err true tr) = true /\
  (In t (PoolModel.executed s) \/ PoolModel.pc0 s = PoolModel.CRet PoolModel.EWaitRet ->
     AsyncPool.async_events err true tr = caller err true /\ count_cb (AsyncPool.async_events err true tr) = 1).
Proof. exact AsyncPool.async_callback_once_pool. Qed.
Print Assumptions C18_async_callback_once.

Example C18_async_callback_once_nonvacuous :
  match PoolModel.run PoolModel.init PoolAsync.example_async with
  | Some s => PoolModel.assigned s = [7] /\ In 7 (PoolModel.executed s) /\
              AsyncPool.async_events false true PoolAsync.example_async = [EvSolveBegin; EvSolveEnd; EvCallback]
  | None => False end.
Proof. vm_compute. repeat split. left. reflexivity. Qed.

(* ------------------------------------------------------------------------------------------------
   Abort polling (Ctx/AbortModel.v): the aborting client, the driver mps_secular_ga_mpsolve and the k
   workers of an iteration packet interleave arbitrarily; every read of exit_required in secular-ga.c
   and secular-iteration.c is a program point; numerics are oracle values.  [run c s l] follows a list
   of (thread, oracle value) steps, each of which must be enabled. *)
Module A := AbortModel.

(* FOR EVERY INTERLEAVING AND ORACLE: once the flag is set in a reachable state before mps_improve is entered,
   the driver and the workers together take at most 5k+7 further steps, of which at most k are Newton steps
   (one per worker: the one in flight), begin at most 2 packets and 2 regenerations; the flag stays set and
   mps_improve is not entered any more. *)
Theorem C18_abort_steps_bounded : forall c l0 s es0 l s' es,
  A.run c (A.init c) l0 = Some (s, es0) ->
  A.flag s = true -> A.pc s <> A.DImprove ->
  A.run c s l = Some (s', es) ->
  A.solver_steps l <= 5 * A.nthreads c + 7 /\
  A.count A.is_newton es <= A.nthreads c /\
  A.count A.is_packet es <= 2 /\
  A.count A.is_regen es <= 2 /\
  A.flag s' = true /\ A.pc s' <> A.DImprove.
Proof. exact AbortProofs.abort_steps_bounded. Qed.
Print Assumptions C18_abort_steps_bounded.

(* the same, state by state (also for states that are not reachable): the steps still to come are bounded by
   the rank of the state, e.g. 1 at a poll of the driver, 2 at the cleanup *)
Theorem C18_abort_steps_le_rank : forall c s l s' es,
  A.flag s = true -> A.pc s <> A.DImprove -> A.run c s l = Some (s', es) ->
  A.solver_steps l + A.rank c s' <= A.rank c s.
Proof. exact AbortProofs.abort_steps_le_rank. Qed.
Print Assumptions C18_abort_steps_le_rank.

(* no thread is ever stuck: in EVERY state in which the solve has not returned some solver thread can step,
   whatever the oracle value (a worker blocked on a root mutex waits for a worker inside the locked region, the
   driver in mps_thread_pool_wait for a worker that has not left its loop).  With the bound above: every
   schedule that keeps choosing enabled threads ends the solve within 5k+7 steps of the request. *)
Theorem C18_abort_no_thread_stuck : forall c s,
  A.terminated s = false -> exists t, A.solver t = true /\ forall o, A.step c s t o <> None.
Proof. exact AbortProofs.abort_no_thread_stuck. Qed.
Print Assumptions C18_abort_no_thread_stuck.

(* every solve (aborted or not, any interleaving) that returns has the error flag set or went through the
   cleanup without errors: inclusions validated and roots copied *)
Theorem C18_abort_good_end : forall c l s es,
  A.run c (A.init c) l = Some (s, es) -> A.terminated s = true -> A.err s <> A.ENone \/ A.copied s = true.
Proof. exact AbortProofs.abort_good_end. Qed.
Print Assumptions C18_abort_good_end.

(* a read of the flag by the driver that sees it set is followed by the return with "Exit forced by the caller"
   or by the cleanup (check_stop) or, at :623, by the plain return *)
Theorem C18_abort_poll_true_ends : forall c s o s' line,
  A.step c s A.TDriver o = Some (s', A.EvPoll line true) ->
  (A.pc s' = A.DRet /\ A.err s' = A.EExit) \/ A.pc s' = A.DCleanup \/ (line = 623 /\ A.pc s' = A.DRet).
Proof. exact AbortProofs.poll_true_ends. Qed.
Print Assumptions C18_abort_poll_true_ends.

(* non-vacuity: 2 workers, abort while both are between job_queue_next and the lock; both still do their
   Newton step, the driver reads the flag at :465 and returns "Exit forced by the caller": 10 steps *)
Definition C18_cfg2 : A.config :=
  {| A.nthreads := 2; A.secular_input := true; A.jacobi := false; A.avoid_mp := false; A.crude := false; A.goal_approx := true |}.
Definition C18_prefix : list (A.tid * nat) :=
  [(A.TDriver, 1); (A.TDriver, 1); (A.TDriver, 0); (A.TDriver, 0); (A.TWorker 0, 0); (A.TWorker 1, 0);
   (A.TWorker 0, 1); (A.TWorker 1, 2); (A.TAbort, 0)].
Definition C18_suffix : list (A.tid * nat) :=
  [(A.TWorker 0, 0); (A.TWorker 1, 0); (A.TWorker 0, 3); (A.TWorker 1, 3); (A.TWorker 0, 0); (A.TWorker 1, 0);
   (A.TDriver, 1); (A.TDriver, 0)].
Example C18_abort_nonvacuous :
  match A.run C18_cfg2 (A.init C18_cfg2) C18_prefix with
  | Some (s, _) => A.flag s = true /\ A.pc s = A.DWait1 /\
      match A.run C18_cfg2 s C18_suffix with
      | Some (s', es) => A.terminated s' = true /\ A.err s' = A.EExit /\ A.solver_steps C18_suffix = 8 /\
                         A.count A.is_newton es = 2
      | None => False end
  | None => False end.
Proof. vm_compute. repeat split. Qed.

(* REFUTED for mps_improve: it never reads the flag.  The state below (flag set, inside mps_improve) is reached by
   a run of the model, and from it the driver takes n further steps for every n without returning. *)
Theorem C18_abort_improve_refuted : forall k n,
  A.run (AbortProofs.cfg_approx k) (AbortProofs.in_improve k) (repeat (A.TDriver, 1) n)
    = Some (AbortProofs.in_improve k, repeat A.EvImprove n) /\
  A.solver_steps (repeat (A.TDriver, 1) n) = n /\ A.terminated (AbortProofs.in_improve k) = false /\
  A.flag (AbortProofs.in_improve k) = true.
Proof. exact AbortProofs.improve_ignores_abort. Qed.
Print Assumptions C18_abort_improve_refuted.

Example C18_improve_state_reachable :
  option_map fst (A.run (AbortProofs.cfg_approx 1) (A.init (AbortProofs.cfg_approx 1)) AbortProofs.path_to_improve)
  = Some (AbortProofs.in_improve 1).
Proof. vm_compute. reflexivity. Qed.

(* REFUTED for the classic driver: C03's skeleton of mps_standard_mpsolve (coq/Total/SkelDefs.v, tied to the code
   by C03) contains no read of exit_required; with the flag set from the very start it is still running after k
   steps, for every k, under the adversary oracle (exact input, goal approximate). *)
Theorem C18_abort_classic_refuted : forall c g,
  SkelDefs.in_prec g = 0 -> SkelDefs.cgoal g = SkelDefs.Approximate -> SkelDefs.resume g = false ->
  forall k, let r := SkelDefs.run _ (A.classic_step c g) A.classic_terminal k SkelDefs.adversary 0 (true, SkelDefs.uinit) in
            fst r = true /\ A.classic_terminal r = false.
Proof. exact AbortProofs.classic_ignores_abort. Qed.
Print Assumptions C18_abort_classic_refuted.
