(* C18 -- errors are reported faithfully, asynchronous solves complete exactly once: statements only.
   Models: Ctx/ErrorModel.v (mps_error with an abstract vsnprintf and an explicit va_list cursor;
   mps_caller + a one-task private pool), Ctx/ResizeModel.v (mps_mpsolve's early return).
   [Old] = /repo as it is; [Fixed] = after fixes/C18_mps_error.patch. *)
Require Import List String Arith Bool.
Require Import MPSV.Ctx.ErrorModel MPSV.Ctx.ErrorProofs.
Require MPSV.Ctx.ResizeModel MPSV.Ctx.ResizeProofs.
Import ListNotations.
Open Scope string_scope.

(* For every format, every argument list that supplies the arguments the format consumes, whatever
   lies behind them in the argument area, and every resulting length: the flag is set and the
   retrievable message is the fully formatted text (repaired code; two attempts always suffice). *)
Theorem C18_error_message_faithful : forall fuel e f args junk,
  2 <= fuel -> n_args f <= List.length args ->
  (mps_error Fixed fuel e f args junk).(error_state) = true /\
  (mps_error Fixed fuel e f args junk).(last_error) = Some (intended f args).
Proof. exact error_message_faithful_fixed. Qed.
Print Assumptions C18_error_message_faithful.

Example C18_error_message_faithful_nonvacuous :
  (mps_error Fixed 2 (mkE false None) fmt_open [long_path] ["JUNK"]).(last_error)
  = Some ("Error while opening file: " ++ long_path).
Proof. vm_compute. reflexivity. Qed.

(* The code as it is: false at length 32 (last character dropped) ... *)
Theorem C18_error_message_32_refuted :
  String.length (intended lit32 []) = 32 /\
  (mps_error Old 5 (mkE false None) lit32 [] []).(last_error) <> Some (intended lit32 []).
Proof. exact error_message_32_refuted. Qed.
Print Assumptions C18_error_message_32_refuted.

(* ... and for longer messages with an argument (second pass reads past the arguments) *)
Theorem C18_error_message_faithful_refuted :
  exists f args junk, n_args f <= List.length args /\
    (mps_error Old 5 (mkE false None) f args junk).(last_error) <> Some (intended f args).
Proof. exact error_message_faithful_refuted. Qed.
Print Assumptions C18_error_message_faithful_refuted.

(* With the flag set a solve performs no step (no array is touched, nothing is allocated) and
   leaves the whole modelled context unchanged; an asynchronous one only creates its private pool. *)
Theorem C18_error_sticky_noop : forall v s,
  ResizeModel.ctx s = true -> ResizeModel.err s = true ->
  ResizeModel.step v s ResizeModel.OSolve = (s, true) /\
  ResizeModel.step v s ResizeModel.OSolveAsync =
    (if ResizeModel.have_poly s then ResizeModel.add_pool s else s, true).
Proof.
  intros v s Ec Ee. split; [apply ResizeProofs.error_flag_makes_solve_noop; assumption|].
  unfold ResizeModel.step. rewrite Ec. simpl negb. cbv iota.
  destruct (ResizeModel.have_poly s) eqn:Ep; [|reflexivity].
  unfold ResizeModel.solve. simpl. rewrite Ep, Ee. reflexivity.
Qed.
Print Assumptions C18_error_sticky_noop.

(* mps_caller on a one-task pool: the callback runs exactly once and nothing of the solve follows it.
   _partial: that the pool runs an assigned task exactly once is the C06 pool model's theorem, here it is
   the definition of [worker]; real threads are exercised by harness/c18_async.c. *)
Theorem C18_async_callback_once_partial : forall err,
  count_cb (mpsolve_async err true) = 1 /\ cb_last (mpsolve_async err true) = true /\
  (err = false -> mpsolve_async err true = [EvSolveBegin; EvSolveEnd; EvCallback]) /\
  (err = true -> mpsolve_async err true = [EvCallback]).
Proof. exact async_callback_once. Qed.
Print Assumptions C18_async_callback_once_partial.
