(* C01 - returned discs are true inclusion discs and account for every root.
   Statements only; proofs are in Skel/*.v (skeleton of the solver: what is claimed about each root, numerics
   abstracted into the Newton contract) and Roots/*.v (Newton disc, isolation by counting).
   Any C : numClosedFieldType (e.g. the algebraic numbers, or the complex numbers).
   The run-time claim (every solve judged by the certified oracle, Properties_ORACLE.v) is checks/C01.py. *)
From mathcomp Require Import all_ssreflect all_algebra.
From mathcomp Require Import polyorder ring.
Require Import MPSV.Roots.NewtonDisc MPSV.Roots.Isolate.
Require Import MPSV.Skel.SkelDefs MPSV.Skel.SkelProofs MPSV.Skel.Deflate MPSV.Skel.IsolatedOne MPSV.Skel.SkelIncl.
(* the event-trace acceptor lives in stdlib Q / Reals: required, not imported (its names are used qualified) *)
Require MPSV.Skel.TraceDefs MPSV.Skel.TraceProofs.
Require Coq.Lists.List Coq.Reals.Rdefinitions Coq.QArith.QArith_base.
Import Order.TTheory GRing.Theory Num.Theory.
Local Open Scope ring_scope.

(* (1) Aberth update `z -= c; rad += |c|` keeps the root inside. *)
Theorem C01_move_and_enlarge :
  forall (C : numClosedFieldType) (z w c r : C), `|z - w| <= r -> `|(z - c) - w| <= r + `|c|.
Proof. exact move_and_enlarge. Qed.
Print Assumptions C01_move_and_enlarge.

(* (2) A radius that meets the Newton contract (r >= n |p(z)/p'(z)|, p'(z) <> 0, n = deg p) is an inclusion radius. *)
Theorem C01_newton_radius_establishes :
  forall (C : numClosedFieldType) (p : {poly C}) (z r : C),
    p != 0 -> p^`().[z] != 0 -> (size p).-1%:R * `|p.[z] / p^`().[z]| <= r ->
    exists2 w, root p w & `|z - w| <= r.
Proof.
move=> C p z r pn0 dn0 le_r; apply: (@newton_radius_establishes C p z r pn0).
by rewrite /newton_ok dn0 le_r.
Qed.
Print Assumptions C01_newton_radius_establishes.

(* (3) The invariant: along EVERY sequence of skeleton steps (fresh Newton radius; keep the smaller of the old
   and the fresh radius at an unchanged centre; Aberth move-and-enlarge; rounding allowance; improve_root;
   status bookkeeping) in which every freshly computed radius meets the Newton contract at the centre it was
   computed for, every root whose radius is finite has a disc that contains a root of p.
   `inv p st` = forall i < size st, forall r, rad (nth st i) = Some r -> exists2 w, root p w & |ctr - w| <= r. *)
Theorem C01_disc_invariant :
  forall (C : numClosedFieldType) (p : {poly C}) (st : state C) (ss : seq (step C)),
    p != 0 -> inv p st -> valid_run p st ss -> inv p (foldl (@apply_step C) st ss).
Proof. exact disc_invariant. Qed.
Print Assumptions C01_disc_invariant.

(* from the state the solver starts in (starting points, no radius claimed) *)
Theorem C01_disc_invariant_from_start :
  forall (C : numClosedFieldType) (p : {poly C}) (zs : seq C) (ss : seq (step C)) (i : nat) (r : C),
    p != 0 -> valid_run p (init zs) ss ->
    let st := foldl (@apply_step C) (init zs) ss in
    (i < size st)%N -> rad (nth (dflt C) st i) = Some r ->
    exists2 w, root p w & `|ctr (nth (dflt C) st i) - w| <= r.
Proof.
move=> C p zs ss i r pn0 ok st lt_i Hr.
exact: (disc_invariant_from_start pn0 ok lt_i Hr).
Qed.
Print Assumptions C01_disc_invariant_from_start.

(* (4) Count identity under deflation: p = X^k q with q(0) <> 0 (k = zero_roots, q = the polynomial the
   iteration works on, deg q = number of returned approximations). *)
Theorem C01_count :
  forall (C : numClosedFieldType) (p q : {poly C}) (k : nat),
    p = 'X^k * q -> q.[0] != 0 ->
    [/\ (size p).-1 = ((size q).-1 + k)%N,
        forall z, root p z = ((0 < k)%N && (z == 0)) || root q z,
        \mu_0 p = k, ~~ root q 0
      & forall z, z != 0 -> \mu_z p = \mu_z q].
Proof.
move=> C p q k Hp q0; split.
- exact: (deflate_size Hp q0).
- by move=> z; apply: deflate_root.
- exact: (deflate_mu0 Hp q0).
- by rewrite /root.
- by move=> z zn0; apply: (deflate_mu Hp q0 zn0).
Qed.
Print Assumptions C01_count.

(* (5) Exactly one root: when all n = deg p returned discs are finite and pairwise disjoint (every cluster is a
   singleton; this is the configuration in which every root is reported isolated/approximated) each disc contains
   exactly one root of p, that root is simple, and every root lies in one of the discs. *)
Theorem C01_isolated_exactly_one :
  forall (C : numClosedFieldType) (p : {poly C}) (st : state C),
    p != 0 -> inv p st -> all (fun a => rad a) st -> size st = (size p).-1 ->
    pairwise (@disjoint C) (discs st) ->
    (forall d, d \in discs st ->
       exists z, [/\ root p z, in_disc d z, \mu_z p = 1%N & forall w, root p w -> in_disc d w -> w = z])
    /\ (forall w, root p w -> exists2 d, d \in discs st & in_disc d w).
Proof. exact isolated_exactly_one. Qed.
Print Assumptions C01_isolated_exactly_one.

(* (5') PARTIAL - mixed configuration (some clusters have more than one member).  rs = the roots of p with
   multiplicity; iso = the discs reported isolated/approximated; U = the region covered by the other discs.
   What is missing for the full statement is the hypothesis `size rs <= size iso + count U rs`, i.e. "a
   connected component of k Gerschgorin discs contains (at least) k roots": the component-count half of
   Gerschgorin's theorem (continuity of the roots / Rouche), which is not available in the installed
   libraries.  Given it, the pigeonhole argument below is complete. *)
Theorem C01_isolated_exactly_one_partial :
  forall (C : numClosedFieldType) (iso : seq (C * C)) (U : pred C) (rs : seq C),
    pairwise (@disjoint C) iso ->
    (forall d z, d \in iso -> in_disc d z -> ~~ U z) ->
    (forall d, d \in iso -> has (in_disc d) rs) ->
    (size rs <= size iso + count U rs)%N ->
    forall d, d \in iso -> count (in_disc d) rs = 1%N.
Proof. exact isolated_exactly_one_mixed. Qed.
Print Assumptions C01_isolated_exactly_one_partial.

(* (1') Move-and-enlarge in general form: a disc that contains D(z, r) keeps every point of D(z, r). *)
Theorem C01_disc_inclusion :
  forall (C : numClosedFieldType) (z z' w r r' : C), `|z - w| <= r -> `|z - z'| + r <= r' -> `|z' - w| <= r'.
Proof. exact disc_incl. Qed.
Print Assumptions C01_disc_inclusion.

(* (6) The move-and-enlarge class of the trace acceptor IS a run of the skeleton: whenever the new disc (z', r') of root
   i contains the disc (z, r) it held, the two steps SAberth i (z - z'), SEnlarge i (r' - r - |z - z'|) are enabled for
   EVERY polynomial p (no Newton contract is involved) and turn the state into the one with the new disc. *)
Theorem C01_incl_is_skeleton_run :
  forall (C : numClosedFieldType) (p : {poly C}) (st : state C) (i : nat) (z z' r r' : C) (s : rstatus),
    (i < size st)%N -> nth (dflt C) st i = Approx z (Some r) s -> `|z - z'| + r <= r' ->
    valid_run p st (incl_steps i z z' r r') /\
    foldl (@apply_step C) st (incl_steps i z z' r r') = set_nth (dflt C) st i (Approx z' (Some r') s).
Proof. exact incl_is_skeleton_run. Qed.
Print Assumptions C01_incl_is_skeleton_run.

(* (7) EVENT TRACES (Skel/TraceDefs.v, extracted to bin/trc and run on the traces of the hooked build).  tr = the discs
   one approximation holds at every Newton entry / exit and when it is returned (exact rationals; None = no finite
   radius).  `obligations None tr` = the discs whose radius is FRESH (not containing the disc held before);
   `claims tr` = every disc with a finite radius; `holds Root d` = the closed disc d contains a point of Root (real
   plane).  If every fresh-radius obligation contains a root, every disc held along the trace does - and conversely
   (the obligations are observed discs). *)
Theorem C01_trace_sound :
  forall (Root : Rdefinitions.R * Rdefinitions.R -> Prop) (tr : list TraceDefs.obs),
    List.Forall (TraceProofs.holds Root) (TraceDefs.obligations None tr) ->
    List.Forall (TraceProofs.holds Root) (TraceDefs.claims tr).
Proof. exact TraceProofs.trace_sound. Qed.
Print Assumptions C01_trace_sound.

Theorem C01_trace_obligations_observed :
  forall (tr : list TraceDefs.obs) (prev : option TraceDefs.disc) (d : TraceDefs.disc),
    List.In d (TraceDefs.obligations prev tr) -> List.In d (TraceDefs.claims tr).
Proof. exact TraceProofs.obligations_observed. Qed.
Print Assumptions C01_trace_obligations_observed.

(* the decision procedure `incl` (squares of rationals, no square root) is sound for closed discs of the real plane,
   hence an improve_root step accepted by improve_step_ok carries the claim of its Newton disc to the final disc *)
Theorem C01_trace_incl_sound :
  forall (d d' : TraceDefs.disc), TraceDefs.incl d d' = true ->
    forall w, TraceProofs.in_disc d w -> TraceProofs.in_disc d' w.
Proof. exact TraceProofs.incl_sound. Qed.
Print Assumptions C01_trace_incl_sound.

Theorem C01_improve_step_sound :
  forall (Root : Rdefinitions.R * Rdefinitions.R -> Prop) (dN dF : TraceDefs.disc),
    TraceDefs.improve_step_ok dN dF = true -> TraceProofs.holds Root dN -> TraceProofs.holds Root dF.
Proof. exact TraceProofs.improve_step_sound. Qed.
Print Assumptions C01_improve_step_sound.

(* non-vacuity of (7): a trace with a first claim, a Newton radius that shrinks (fresh), an Aberth move that is
   move-and-enlarge, and a returned disc; two obligations out of four claims *)
Example C01_ex_trace :
  let q := fun (n d : nat) => QArith_base.Qmake (BinInt.Z.of_nat n) (BinPos.Pos.of_nat d) in
  let tr := [:: TraceDefs.Obs TraceDefs.KEntry (q 2%N 1%N) (q 0%N 1%N) None;
                TraceDefs.Obs TraceDefs.KExit (q 2%N 1%N) (q 0%N 1%N) (Some (q 3%N 2%N));
                TraceDefs.Obs TraceDefs.KEntry (q 5%N 4%N) (q 0%N 1%N) (Some (q 9%N 4%N));
                TraceDefs.Obs TraceDefs.KExit (q 5%N 4%N) (q 0%N 1%N) (Some (q 1%N 2%N));
                TraceDefs.Obs TraceDefs.KFinal (q 1%N 1%N) (q 0%N 1%N) (Some (q 3%N 4%N))] in
  List.map fst (TraceDefs.walk None tr)
    = [:: TraceDefs.CNoClaim; TraceDefs.CFirst; TraceDefs.CMoveEnlarge; TraceDefs.CFresh; TraceDefs.CMoveEnlarge]
  /\ List.length (TraceDefs.obligations None tr) = 2%N /\ List.length (TraceDefs.claims tr) = 4%N.
Proof. by vm_compute. Qed.

(* ---- non-vacuity: the hypotheses are satisfiable by concrete non-trivial states ---- *)
Section Examples.
Variable C : numClosedFieldType.

(* p = X^2 - 1, start at 2: Newton radius 2 |p(2)/p'(2)| = 3/2, then an Aberth move by 1/2, then a status write *)
Let p : {poly C} := 'X^2 - 1.
Let ss : seq (step C) := [:: SNewton 0 (3%:R / 2%:R); SAberth 0 (2%:R^-1); SStatus C 0 Isolated].

Example C01_ex_p_neq0 : p != 0.
Proof. by rewrite /p -size_poly_gt0 size_addl ?size_polyXn // size_opp size_poly1. Qed.

Example C01_ex_valid_run : valid_run p (init [:: 2%:R]) ss.
Proof.
have sz : size ('X^2 - 1 : {poly C}) = 3%N by rewrite size_addl ?size_polyXn // size_opp size_poly1.
have e1 : p^`().[2%:R] = 4%:R by rewrite /p derivB derivXn derivC subr0 !hornerE /=; ring.
have e2 : p.[2%:R] = 3%:R by rewrite /p !hornerE /=; ring.
rewrite /= /newton_ok e1 e2 [size p]sz !andbT /= pnatr_eq0 /=.
rewrite normf_div !normr_nat.
have -> : 2%:R * (3%:R / 4%:R) = 3%:R / 2%:R :> C by field.
by rewrite lexx.
Qed.

(* the resulting state claims a finite radius (so the conclusion of the invariant says something) *)
Example C01_ex_final_state :
  foldl (@apply_step C) (init [:: 2%:R]) ss
  = [:: Approx (2%:R - 2%:R^-1) (Some (3%:R / 2%:R + `|2%:R^-1|)) Isolated].
Proof. by []. Qed.

(* deflation: p = X^2 (X - 1), k = 2 *)
Example C01_ex_count : let q : {poly C} := 'X - 1 in q.[0] != 0 /\ (size ('X^2 * q)).-1 = 3%N.
Proof.
have q0 : ('X - 1 : {poly C}).[0] != 0.
  have -> : ('X - 1 : {poly C}).[0] = -1 by rewrite !hornerE; ring.
  by rewrite oppr_eq0 oner_eq0.
split=> //.
by rewrite (@deflate_size C _ ('X - 1) 2 erefl q0) -[1]/(1%:P) size_XsubC.
Qed.

(* two disjoint discs around the roots of X^2 - 1 : hypotheses of C01_isolated_exactly_one *)
Example C01_ex_isolated :
  let st := [:: Approx (1 : C) (Some (2%:R^-1)) Isolated; Approx (-1) (Some (2%:R^-1)) Approximated] in
  [/\ inv p st, all (fun a => rad a) st, size st = (size p).-1 & pairwise (@disjoint C) (discs st)].
Proof.
have sz : size ('X^2 - 1 : {poly C}) = 3%N by rewrite size_addl ?size_polyXn // size_opp size_poly1.
have h0 : 0 <= (2%:R^-1 : C) by rewrite invr_ge0 ler0n.
split=> //=; last 2 first.
- by rewrite /p sz.
- rewrite /disjoint /= !andbT.
  have -> : (2%:R^-1 + 2%:R^-1 : C) = 1%:R by field.
  have -> : (1 - -1 : C) = 2%:R by ring.
  by rewrite normr_nat ltr_nat.
case=> [|[|i]] //= _ r [<-].
  exists 1; rewrite ?subrr ?normr0 //; apply/eqP; rewrite /p !hornerE /=; ring.
exists (-1); rewrite ?subrr ?normr0 //; apply/eqP; rewrite /p !hornerE /=; ring.
Qed.

End Examples.
