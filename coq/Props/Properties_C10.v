(* C10 - the parsed polynomial equals the polynomial written: statements.
   Model: PolFile/DecRatModel.v (decimal literals, conversions as coded), PolFile/PolModel.v
   (descriptions, render, the model parser), PolFile/V2Model.v (the 2.x reader statement by statement),
   PolFile/StoreModel.v (pieces of the inline conversion, the floating-point predicate).
   Proofs: PolFile/Chars.v, PolProofs.v, RoundTrip*.v, RoundTripLegacy.v, DecRat.v, FloatPrec.v, StoreProofs.v.

   The composed round trip  wf d -> parse (render st pi d) = Poly (denote d)  is proved in full for
   EVERY accepted file syntax (C10_parse_render): 3.x keyword files (monomial, secular, Chebyshev;
   Integer, Rational, FloatingPoint; dense and sparse; any option order, case, comments, layout) and
   legacy 2.x files (all twelve type words [sd][rc][qif], any precision word, dense and sparse with
   the ignored count, "num den" rational pairs).  The 2.x reader is modelled statement by statement
   with the error raised at each exit (read_v2) and proved equal to the compact reader inside [parse]
   on every token list (C10_v2_reader_refines); C10_v2_type_rejected / C10_v2_type_accepted_iff say
   which type words are accepted.  FloatingPoint: the model parser keeps the exact decimal value and
   C10_float_end_to_end bounds what an mpf of at least the declared precision keeps of it.
   C10_decrat_correct / C10_inline_ers_correct: the character-level decimal -> rational-string
   conversion (utils.c, and the function of inline-poly-parser.c it is built on), as coded now.
   The C integer conversions (atoi for Degree= / Precision=, sscanf %d for sparse indices and the 2.x
   degree, %ld for the 2.x precision word, the double product with LOG2_10 and its conversion to long)
   are modelled as glibc / x86-64 perform them (CIntModel.v); [wf] carries the bounds under which the
   round trip holds (degree + 1 <= INT_MAX, Precision <= INT_MAX resp. < 2^51 for the 2.x word), the
   section "C integer conversions" below says what happens beyond them (C10_*_refuted). *)
Require Import String Ascii List ZArith NArith QArith Bool Lia.
Require Import MPSV.PolFile.Chars MPSV.PolFile.DecRatModel MPSV.PolFile.PolModel MPSV.PolFile.PolProofs.
Require Import MPSV.PolFile.RoundTripText MPSV.PolFile.RoundTripLines MPSV.PolFile.RoundTripOptions MPSV.PolFile.RoundTripSettings MPSV.PolFile.RoundTrip.
Require Import MPSV.PolFile.DecRat MPSV.PolFile.FloatPrec.
Require Import MPSV.PolFile.V2Model MPSV.PolFile.RoundTripLegacy MPSV.PolFile.StoreModel MPSV.PolFile.StoreProofs.
Require Import MPSV.PolFile.CIntProofs MPSV.PolFile.CIntParse MPSV.PolFile.SetterModel MPSV.PolFile.SetterProofs.
Import ListNotations.
Local Open Scope char_scope.

(* decimal printing and reading of naturals are inverse (the printer used by render, the Horner
   reader used by every number reader of the model) *)
Theorem C10_digits_roundtrip : forall n : N, digits_val (N_digits n) = n.
Proof. exact N_digits_val. Qed.
Print Assumptions C10_digits_roundtrip.

(* integer tokens, any sign, any number of leading zeros: read back exactly *)
Theorem C10_integer_token_exact : forall (z : Z) (lz : nat), mpz_str_value (Z_token z lz) = Some z.
Proof. exact mpz_token_roundtrip. Qed.
Print Assumptions C10_integer_token_exact.

(* Integer / Rational coefficients of the 3.x syntax: one token, and the value stored after
   mpq_set_str + mpq_canonicalize is the written fraction in lowest terms *)
Theorem C10_exact_coefficient_partial : forall x : num,
  match x with NDec _ => False | _ => True end ->
  exists t, num_tokens false x = [t] /\ mpq_str_value t = Some (Qred (num_value x)).
Proof. exact num_token_exact. Qed.
Print Assumptions C10_exact_coefficient_partial.

(* legacy 2.x rational: the two tokens "n" "d" give n/d in lowest terms *)
Theorem C10_legacy_rational_exact : forall n lzn d lzd,
  read_part_legacy_q (num_tokens true (NRat n lzn d lzd)) = Some (qraw (Qred (n # d)), []).
Proof. exact num_tokens_legacy_exact. Qed.
Print Assumptions C10_legacy_rational_exact.

(* letter case: whatever mask of upper/lower case a keyword is written with, mps_parse_option_line's
   keyword recognition gives the same flag *)
Theorem C10_case_irrelevant : forall (mask : list bool) (k : text),
  keyword_flag (apply_case mask k) = keyword_flag k.
Proof. exact keyword_flag_case. Qed.
Print Assumptions C10_case_irrelevant.

(* option order: for options that write different fields (at most one of Degree, Precision,
   representation, density, Real/Complex, Integer/Rational/FloatingPoint) every permutation of the
   option lines leads the option loop of mps_parse_abstract_stream to the same settings (or the same error) *)
Theorem C10_option_order_irrelevant : forall (code : list nat) (l : list (flag * text)) (st : settings),
  NoDup (map opt_class l) -> apply_options st (permute code l) = apply_options st l.
Proof. exact options_order_irrelevant. Qed.
Print Assumptions C10_option_order_irrelevant.

(* every permutation code denotes a permutation (so render's [pi] ranges over permutations only) *)
Theorem C10_permute_is_permutation : forall (A : Type) (code : list nat) (l : list A),
  Permutation.Permutation (permute code l) l.
Proof. intros; apply permute_perm. Qed.
Print Assumptions C10_permute_is_permutation.

(* lines: newline-terminated lines are recovered by the line reader *)
Theorem C10_lines_roundtrip : forall ls : list text,
  Forall (fun l => has_char ch_nl l = false) ls ->
  split_lines (concat (map (fun l => l ++ [ch_nl]) ls)) = ls.
Proof. exact split_unlines. Qed.
Print Assumptions C10_lines_roundtrip.

(* comments: a line starting with '!' is invisible, and so is everything from a '!' to the end of a line;
   blank lines and comment lines contribute no token *)
Theorem C10_comments_irrelevant : forall (pre post : list text) (body : text),
  effective_lines (pre ++ ("!" :: body) :: post) = effective_lines (pre ++ post).
Proof. exact comments_irrelevant_lines. Qed.
Print Assumptions C10_comments_irrelevant.

Theorem C10_trailing_comment_irrelevant : forall l body : text,
  has_char "!" l = false -> strip_comment (l ++ "!" :: body) = l.
Proof. exact trailing_comment_irrelevant. Qed.
Print Assumptions C10_trailing_comment_irrelevant.

Theorem C10_filler_lines_have_no_tokens : forall f : filler, tokens (strip_comment (filler_line f)) = [].
Proof. exact filler_line_tokens. Qed.
Print Assumptions C10_filler_lines_have_no_tokens.

(* ------------------------------------------------------------------ the composed round trip *)

(* THE theorem, for EVERY accepted file syntax.  3.x keyword files (monomial, secular, Chebyshev;
   Integer, Rational, FloatingPoint; dense, sparse): for every style (header, comments, blank lines,
   letter case, spacing, line layout, explicit defaults, final newline) and every permutation code of
   the option lines; legacy 2.x files (d_legacy d = true: monomial; type word [sd][rc][qif], precision
   word, degree, for sparse the count word, then the coefficients, rationals as "num den" pairs): for
   every layout of the tokens over lines, comments and blank lines.  The model parser returns exactly
   the polynomial the description denotes: kind, degree, structure, density, precision, sparsity
   pattern, every coefficient as the canonical fraction written (for decimals: the exact value of the
   literal; see C10_float_end_to_end for what the mpf keeps). *)
Theorem C10_parse_render : forall (st : style) (pi : list nat) (d : polydesc),
  wf d -> parse (render st pi d) = Poly (denote d).
Proof. exact parse_render_all. Qed.
Print Assumptions C10_parse_render.

(* corollaries: option order, letter case, comments, white space and layout are irrelevant *)
Corollary C10_layout_order_case_comments_irrelevant : forall (st st' : style) (pi pi' : list nat) (d : polydesc),
  wf d -> parse (render st pi d) = parse (render st' pi' d).
Proof. intros. rewrite !parse_render_all by assumption. reflexivity. Qed.
Print Assumptions C10_layout_order_case_comments_irrelevant.

(* ------------------------------------------------------------------ legacy 2.x files *)

(* mps_monomial_poly_read_from_stream_v2 statement by statement (V2Model.read_v2: one exit per
   mps_error / goto cleanup of the C function, in the order of the C code) computes, on EVERY token
   list, what the compact reader used inside [parse] computes *)
Theorem C10_v2_reader_refines : forall toks : list text, v2_forget (read_v2 toks) = parse_v2 toks.
Proof. exact read_v2_refines. Qed.
Print Assumptions C10_v2_reader_refines.

Theorem C10_parse_outcome_refines : forall t : text,
  outcome_forget (parse_outcome t) = parse t /\ outcome_forget (parse_string_outcome t) = parse_string t.
Proof. intro t. split; [apply parse_outcome_forget|apply parse_string_outcome_forget]. Qed.
Print Assumptions C10_parse_outcome_refines.

(* the round trip at the level of the statement-by-statement reader: a rendered legacy description
   takes the 2.x path and leaves it through none of its error exits *)
Theorem C10_parse_render_legacy : forall (st : style) (pi : list nat) (d : polydesc),
  wf d -> d_legacy d = true -> parse_outcome (render st pi d) = O_v2 (V2_poly (denote d)).
Proof. exact parse_outcome_render_legacy. Qed.
Print Assumptions C10_parse_render_legacy.

(* which type words the 2.x reader accepts.  Refused, with "unsupported data_type" (first letter),
   "unsupported data_structure" (second) or "unsupported data structure" (third), exactly the words
   that are not accepted, whatever follows; ... *)
Theorem C10_v2_type_rejected : forall (ty : text) (toks : list text),
  v2_type_accepted ty = false <->
  (read_v2 (ty :: toks) = V2_error V2E_data_type \/ read_v2 (ty :: toks) = V2_error V2E_data_structure
   \/ read_v2 (ty :: toks) = V2_error V2E_coeff_type).
Proof. exact v2_type_rejected. Qed.
Print Assumptions C10_v2_type_rejected.

(* ... accepted exactly the words whose first three characters are one of the 18 triples
   {s,d,u} x {r,c} x {q,i,f} (lower case only; 'u' = user polynomial, no coefficients read; characters
   after the third are ignored: sscanf "%3s"); words of fewer than three characters are refused *)
Theorem C10_v2_type_accepted_iff : forall ty : text,
  v2_type_accepted ty = true <-> exists t tail, In t v2_triples /\ ty = t ++ tail.
Proof. exact v2_type_accepted_iff. Qed.
Print Assumptions C10_v2_type_accepted_iff.

(* the type word written for a description is accepted *)
Theorem C10_rendered_type_accepted : forall d : polydesc, v2_type_accepted (legacy_type d) = true.
Proof. exact legacy_type_accepted. Qed.
Print Assumptions C10_rendered_type_accepted.

(* decimal tokens (3.x and 2.x alike): mpf_set_str's model reads a rendered literal back exactly *)
Theorem C10_decimal_token_exact : forall l : declit,
  wf_file_lit l -> decimal_value (render_declit l) = Some (declit_value l).
Proof. intros l H. unfold decimal_value. rewrite parse_declit_render by exact H. reflexivity. Qed.
Print Assumptions C10_decimal_token_exact.

(* the decimal -> rational conversion behind mps_monomial_poly_set_coefficient_s and the inline
   parser, character by character as coded: for every well-formed literal (any mix of sign characters
   and blanks, digits, optional fraction, optional exponent e/E[+-]digits) it yields a rational string
   that denotes exactly the value of the literal *)
Theorem C10_decrat_correct : forall l : declit, wf_api_lit l ->
  exists s, equiv_rational_string (render_declit l) = Some s /\ mpq_str_value s = Some (declit_value l).
Proof. exact decrat_correct. Qed.
Print Assumptions C10_decrat_correct.

Theorem C10_api_value_correct : forall l : declit, wf_api_lit l ->
  api_coeff_value (render_declit l) = Some (declit_value l).
Proof. exact api_value_correct. Qed.
Print Assumptions C10_api_value_correct.

(* malformed: a decimal fraction followed by a rational separator is refused *)
Theorem C10_decrat_malformed_none : forall ip fp T : text,
  all_digits ip -> all_digits fp -> all_digits T ->
  equiv_rational_string (ip ++ "." :: fp ++ "/" :: T) = None.
Proof. exact decimal_with_slash_refused. Qed.
Print Assumptions C10_decrat_malformed_none.

(* the function of common/inline-poly-parser.c that the conversion is built on
   (build_equivalent_rational_string): for every well-formed decimal literal - sign characters and
   blanks in front, leading zeros, ".5", "5.", exponents "e-3", "E+05" - it hands back a string p,
   the exponent as written and the parity of the '-' signs, the exponent having been parsed without
   error, and  sign * p * 10^exponent  (p read by mpq_set_str + canonicalize) is exactly the literal *)
Theorem C10_inline_ers_correct : forall l : declit, wf_api_lit l ->
  exists p, build_ers (render_declit l) = Some (p, expo_value (dl_exp l), sign_neg (dl_sign l), true)
            /\ ers_value (p, expo_value (dl_exp l), sign_neg (dl_sign l), true) = Some (declit_value l).
Proof. exact inline_ers_correct. Qed.
Print Assumptions C10_inline_ers_correct.

(* there is one implementation of the scan, not two: mps_utils_build_equivalent_rational_string is
   build_equivalent_rational_string followed by strip / sign / zero-padding (utils_assemble) *)
Theorem C10_utils_uses_inline : forall s : text,
  equiv_rational_string s =
  match build_ers s with Some (p, e, neg, _) => Some (utils_assemble p e neg) | None => None end.
Proof. exact utils_uses_inline. Qed.
Print Assumptions C10_utils_uses_inline.

(* refused (NULL): a decimal point or an exponent together with a rational separator, signed or not *)
Theorem C10_signed_point_slash_refused : forall sg ip fp T : text,
  Forall pmsign sg -> all_digits ip -> all_digits fp -> all_digits T ->
  build_ers (sg ++ ip ++ "." :: fp ++ "/" :: T) = None.
Proof. exact signed_point_slash_refused. Qed.
Print Assumptions C10_signed_point_slash_refused.

Theorem C10_signed_exponent_slash_refused : forall (sg ip : text) (m : ascii) (ex T : text),
  Forall pmsign sg -> all_digits ip -> (m = "e" \/ m = "E") -> all_digits ex -> all_digits T ->
  build_ers (sg ++ ip ++ m :: ex ++ "/" :: T) = None.
Proof. exact signed_exponent_slash_refused. Qed.
Print Assumptions C10_signed_exponent_slash_refused.

(* FloatingPoint coefficients: the value kept by an mpf of prec bits (truncation of the exact decimal
   value) is not larger in modulus and within 2^-prec relative *)
Theorem C10_float_within_prec : forall (p : positive) (q : Q),
  Qabs.Qabs (trunc_bits p q) <= Qabs.Qabs q
  /\ Qabs.Qabs (q - trunc_bits p q) <= Qabs.Qabs q * pow2Q (- Zpos p).
Proof. exact trunc_bits_within. Qed.
Print Assumptions C10_float_within_prec.

(* an mpf of AT LEAST the declared precision (GMP rounds the precision up to whole limbs) *)
Theorem C10_store_within : forall (bits B : positive) (q : Q),
  (bits <= B)%positive -> within_prec bits (trunc_bits B q) q.
Proof. exact store_within. Qed.
Print Assumptions C10_store_within.

Theorem C10_within_prec_decidable : forall (bits : positive) (s w : Q),
  within_precb bits s w = true <-> within_prec bits s w.
Proof. exact within_precb_iff. Qed.
Print Assumptions C10_within_prec_decidable.

(* ONE end-to-end statement for FloatingPoint descriptions of every syntax (3.x and 2.x), with and
   without a declared precision: the parser returns the polynomial whose coefficients are exactly
   the decimal values written (raw_Q r below, r ranging over all real and imaginary parts), and each
   of them, stored by mpf_set_str's model into an mpf of B >= bits bits, is within 2^-bits relative
   of the value written, bits = floor (digits * log2 10) for "Precision = digits" (resp. the 2.x
   precision word), 64 when none is declared *)
Theorem C10_float_end_to_end : forall (st : style) (pi : list nat) (d : polydesc) (B : positive),
  wf d -> d_ctype d = TFloat -> (declared_bits (denote d) <= B)%positive ->
  parse (render st pi d) = Poly (denote d)
  /\ is_fp (p_struct (denote d)) = true
  /\ Forall (fun r => within_prec (declared_bits (denote d)) (mpf_store B r) (raw_Q r)) (poly_parts (denote d)).
Proof. exact float_end_to_end. Qed.
Print Assumptions C10_float_end_to_end.

Theorem C10_declared_bits : forall d : polydesc, wf d ->
  declared_bits (denote d) = match d_prec d with Some P => Z.to_pos (prec_bits (Zpos P)) | None => 64%positive end.
Proof. exact declared_bits_denote. Qed.
Print Assumptions C10_declared_bits.

(* the numbers of the denoted polynomial are the values written *)
Theorem C10_denoted_value : forall q : Q, raw_Q (canon q) == q.
Proof. exact raw_Q_canon. Qed.
Print Assumptions C10_denoted_value.

(* every kind of description: what the line reader sees of a rendered text (mps_skip_comments,
   line splitting, comment stripping) is the list of rendered lines, comments cut, leading blank
   lines dropped *)
Theorem C10_rendered_lines_partial : forall (b : bool) (ls : list text),
  Forall no_nl ls ->
  effective_lines (split_lines (skip_comments (unlines b ls))) = skipws (effective_lines ls).
Proof. exact parse_lines. Qed.
Print Assumptions C10_rendered_lines_partial.

(* every kind of description (monomial, secular, Chebyshev; any coefficient type): the option phase
   on the rendered option section, in any order, case and spacing, reaches the settings of d and
   hands the rest of the lines to the coefficient reader *)
Theorem C10_options_phase_partial : forall (st : style) (pi : list nat) (d : polydesc) (REST : list text),
  (1 <= d_degree d)%nat -> degree_in_range (Z.of_nat (d_degree d)) -> d_legacy d = false -> prec_bounded d ->
  Forall (fun l => has_char ";" l = false) REST ->
  options_phase (zip_default stripped default_optdeco (permute pi (options_of st d)) (st_opts st) ++ REST) initial_settings
  = Some (target_settings d, REST).
Proof. exact options_phase_of_render. Qed.
Print Assumptions C10_options_phase_partial.

(* every kind: the coefficient section gives back exactly its tokens, whatever the line layout *)
Theorem C10_token_section_partial : forall (groups : list (list text)) (decos : list linedeco),
  Forall (Forall tok_ok) groups -> Forall (fun g => g <> []) groups ->
  all_tokens (effective_lines (concat (zip_default token_lines default_linedeco groups decos))) = concat groups.
Proof. intros. apply (eff_token_section groups decos); assumption. Qed.
Print Assumptions C10_token_section_partial.

(* ------------------------------------------------------------------ formerly refuted, now repaired in the code *)

Definition lit_0_5 : declit :=
  {| dl_sign := []; dl_int := ["0"]; dl_dot := true; dl_frac := ["5"]; dl_exp := None |}.
Definition lit_0_0 : declit :=
  {| dl_sign := []; dl_int := ["0"]; dl_dot := true; dl_frac := ["0"]; dl_exp := None |}.

(* mps_monomial_poly_set_coefficient_s now canonicalises: whatever the string, the stored pair is a
   canonical fraction (unless the string carries a zero denominator, where the real code divides by zero) *)
Theorem C10_api_stores_canonical : forall s : text,
  snd (api_coeff_raw s) <> 0%Z -> raw_canonical (api_coeff_raw s) = true.
Proof. exact api_coeff_raw_canonical. Qed.
Print Assumptions C10_api_stores_canonical.

Definition plain_style : style :=
  {| st_header := []; st_explicit := (false, false, false, false); st_opts := []; st_sep := [];
     st_chunks := []; st_lines := []; st_trailer := []; st_final_newline := true |}.

Definition cheb_2_4 : polydesc :=
  {| d_legacy := false; d_kind := KChebyshev; d_degree := 1; d_real := true; d_ctype := TRational;
     d_sparse := false; d_prec := None;
     d_terms := [ {| t_idx := 0; t_re := NRat 2 0 4 0; t_im := NInt 0 0 |};
                  {| t_idx := 1; t_re := NInt 1 0; t_im := NInt 0 0 |} ];
     d_bterms := [] |}.

Example C10_example_former_defects_repaired :
  api_coeff_raw (render_declit lit_0_5) = (1, 2)%Z
  /\ equiv_rational_string (render_declit lit_0_0) = Some (kw "0/10")
  /\ parse (render plain_style [] cheb_2_4) = Poly (denote cheb_2_4).
Proof. vm_compute. repeat split; reflexivity. Qed.

(* ------------------------------------------------------------------ examples (non-vacuity, what the round trip looks like) *)

Definition busy_style : style :=
  {| st_header := [FComment 1 (kw "x^2 - 1/2"); FBlank 2];
     st_explicit := (true, false, false, true);
     st_opts := [ {| od_pre := [kw " Degree=9;"]; od_lead := 2; od_mask := [true; false; true; true]; od_eq1 := 1; od_eq2 := 2;
                     od_mid := 1; od_trail := 1; od_comment := Some (kw " c;") |} ];
     st_sep := [FBlank 0; FComment 0 (kw "coefficients")];
     st_chunks := [1%nat; 0%nat];
     st_lines := [ {| ld_pre := [FComment 3 (kw "first")]; ld_lead := 1; ld_gaps := [2%nat]; ld_trail := 1; ld_comment := Some (kw " tail") |} ];
     st_trailer := [FComment 0 (kw "EOF")]; st_final_newline := true |}.

Definition mono_sparse_q : polydesc :=
  {| d_legacy := false; d_kind := KMonomial; d_degree := 5; d_real := false; d_ctype := TRational;
     d_sparse := true; d_prec := Some 30%positive;
     d_terms := [ {| t_idx := 5; t_re := NRat (-6) 2 4 1; t_im := NInt 7 0 |};
                  {| t_idx := 0; t_re := NInt (-12345678901234567890) 0; t_im := NRat 10 0 100 0 |};
                  {| t_idx := 3; t_re := NInt 0 3; t_im := NInt 1 0 |} ];
     d_bterms := [] |}.

Example C10_parse_render_hypotheses_satisfiable :
  wf mono_sparse_q /\ d_legacy mono_sparse_q = false /\ d_kind mono_sparse_q = KMonomial /\ d_ctype mono_sparse_q = TRational.
Proof.
  unfold wf, mono_sparse_q; cbn. repeat split; auto; try discriminate; try lia.
  all: repeat constructor; cbn; auto; try discriminate; try lia; intuition discriminate.
Qed.

Example C10_example_monomial_sparse_rational :
  parse (render busy_style [3; 0; 2; 9; 1]%nat mono_sparse_q) = Poly (denote mono_sparse_q)
  /\ parse (render plain_style [] mono_sparse_q) = Poly (denote mono_sparse_q).
Proof. vm_compute. split; reflexivity. Qed.

Definition legacy_dense_q : polydesc :=
  {| d_legacy := true; d_kind := KMonomial; d_degree := 1; d_real := true; d_ctype := TRational;
     d_sparse := false; d_prec := None;
     d_terms := [ {| t_idx := 0; t_re := NRat 4 0 6 0; t_im := NInt 0 0 |};
                  {| t_idx := 1; t_re := NInt (-3) 1; t_im := NInt 0 0 |} ];
     d_bterms := [] |}.
Example C10_example_legacy_rational :
  parse (render busy_style [] legacy_dense_q) = Poly (denote legacy_dense_q).
Proof. vm_compute. reflexivity. Qed.

Definition lit_m125e3 : declit :=
  {| dl_sign := ["-"]; dl_int := ["1"]; dl_dot := true; dl_frac := ["2"; "5"];
     dl_exp := Some {| ex_mark := "e"; ex_sign := EPlus; ex_digits := ["0"; "3"] |} |}.
Definition secular_f : polydesc :=
  {| d_legacy := false; d_kind := KSecular; d_degree := 1; d_real := true; d_ctype := TFloat;
     d_sparse := false; d_prec := None;
     d_terms := [ {| t_idx := 0; t_re := NDec lit_m125e3; t_im := NInt 0 0 |} ];
     d_bterms := [ {| t_idx := 0; t_re := NDec lit_0_5; t_im := NInt 0 0 |} ] |}.
Example C10_example_secular_decimal :
  parse (render busy_style [1; 1]%nat secular_f) = Poly (denote secular_f)
  /\ declit_value lit_m125e3 = (-1250 # 1).
Proof. vm_compute. split; reflexivity. Qed.

Example C10_decrat_hypothesis_satisfiable : wf_api_lit lit_m125e3 /\ wf_file_lit lit_m125e3.
Proof.
  unfold wf_api_lit, wf_file_lit, wf_body, wf_expo, all_digits, lit_m125e3; cbn.
  repeat split; auto; try discriminate; repeat constructor; auto.
Qed.

Example C10_example_api_decimal :
  api_coeff_value (render_declit lit_m125e3) = Some (declit_value lit_m125e3)
  /\ equiv_rational_string (render_declit lit_m125e3) = Some (kw "-125000/100").
Proof. vm_compute. split; reflexivity. Qed.

Example C10_example_option_order_hyp :
  NoDup (map opt_class [(K_DEGREE, kw "5"); (F_REAL, []); (F_INTEGER, []); (F_SPARSE, [])]).
Proof. repeat constructor; simpl; intuition discriminate. Qed.

(* ------------------------------------------------------------------ legacy 2.x examples *)

Definition legacy_sparse_cq : polydesc :=
  {| d_legacy := true; d_kind := KMonomial; d_degree := 4; d_real := false; d_ctype := TRational;
     d_sparse := true; d_prec := Some 20%positive;
     d_terms := [ {| t_idx := 4; t_re := NRat (-6) 2 4 1; t_im := NInt 7 0 |};
                  {| t_idx := 0; t_re := NInt 5 0; t_im := NRat 10 0 100 0 |} ];
     d_bterms := [] |}.

Definition legacy_dense_rf : polydesc :=
  {| d_legacy := true; d_kind := KMonomial; d_degree := 1; d_real := true; d_ctype := TFloat;
     d_sparse := false; d_prec := None;
     d_terms := [ {| t_idx := 0; t_re := NDec lit_m125e3; t_im := NInt 0 0 |};
                  {| t_idx := 1; t_re := NDec lit_0_5; t_im := NInt 0 0 |} ];
     d_bterms := [] |}.

Example C10_legacy_hypotheses_satisfiable :
  wf legacy_sparse_cq /\ d_legacy legacy_sparse_cq = true /\ wf legacy_dense_rf /\ d_ctype legacy_dense_rf = TFloat.
Proof.
  assert (L1 : wf_file_lit lit_m125e3) by apply C10_decrat_hypothesis_satisfiable.
  assert (L2 : wf_file_lit lit_0_5).
  { unfold wf_file_lit, wf_body, wf_expo, all_digits, lit_0_5; cbn.
    repeat split; auto; try discriminate; repeat constructor. }
  split; [|split; [reflexivity|split; [|reflexivity]]].
  - unfold wf, legacy_sparse_cq; cbn. repeat split; auto; try discriminate; try lia.
    all: repeat constructor; cbn; auto; try discriminate; try lia; intuition discriminate.
  - unfold wf, legacy_dense_rf; cbn. repeat split; auto; try discriminate; try lia.
    repeat constructor; cbn; auto; discriminate.
Qed.

(* "scq 20 4 2  4 -006 04 7 1  0 5 1 10 100" spread over lines with comments *)
Example C10_example_legacy_sparse_complex_rational :
  render plain_style [] legacy_sparse_cq = kw "scq 20 4 2 4 -006 04 7 1 0 5 1 10 100" ++ [ch_nl]
  /\ parse_outcome (render busy_style [2; 1]%nat legacy_sparse_cq) = O_v2 (V2_poly (denote legacy_sparse_cq))
  /\ p_prec (denote legacy_sparse_cq) = 66%Z
  /\ p_coeffs (denote legacy_sparse_cq) = [((5, 1), (1, 10)); ((0, 1), (0, 1)); ((0, 1), (0, 1)); ((0, 1), (0, 1)); ((-3, 2), (7, 1))]%Z.
Proof. vm_compute. repeat split; reflexivity. Qed.

(* every exit of the header reader is reached *)
Example C10_example_v2_exits :
  read_v2 [] = V2_error V2E_no_token
  /\ read_v2 [kw "xri"; kw "0"; kw "2"] = V2_error V2E_data_type
  /\ read_v2 [kw "DRI"; kw "0"; kw "2"] = V2_error V2E_data_type
  /\ read_v2 [kw "d"] = V2_error V2E_data_structure
  /\ read_v2 [kw "dxi"; kw "0"; kw "2"] = V2_error V2E_data_structure
  /\ read_v2 [kw "dr"; kw "0"; kw "2"] = V2_error V2E_coeff_type
  /\ read_v2 [kw "drz"; kw "0"; kw "2"] = V2_error V2E_coeff_type
  /\ read_v2 [kw "dri"] = V2_error V2E_precision
  /\ read_v2 [kw "dri"; kw "abc"; kw "2"] = V2_error V2E_precision
  /\ read_v2 [kw "dri"; kw "0"] = V2_error V2E_degree
  /\ read_v2 [kw "dri"; kw "0"; kw "-2"] = V2_error V2E_degree
  /\ read_v2 [kw "urf"; kw "0"; kw "-3"] = V2_error V2E_degree
  /\ read_v2 [kw "urf"; kw "0"; kw "3"] = V2_user 3
  /\ read_v2 [kw "dri"; kw "0"; kw "2"; kw "1"; kw "2"] = V2_error V2E_coefficients
  /\ read_v2 [kw "sri"; kw "0"; kw "2"; kw "1"; kw "3"; kw "1"] = V2_error V2E_coefficients
  /\ (exists p, read_v2 [kw "drixyz"; kw "12x"; kw "+2"; kw "1"; kw "2"; kw "3"] = V2_poly p /\ p_prec p = 39%Z)
  /\ (exists p, read_v2 [kw "sri"; kw "0"; kw "2"] = V2_poly p /\ p_spar p = [false; false; false])
  /\ length v2_triples = 18%nat.
Proof. vm_compute. repeat split; try reflexivity; eexists; split; reflexivity. Qed.

(* the floating-point statement on a legacy file without precision word and on a 3.x file with one *)
Definition secular_f_prec : polydesc :=
  {| d_legacy := false; d_kind := KSecular; d_degree := 1; d_real := true; d_ctype := TFloat;
     d_sparse := false; d_prec := Some 30%positive;
     d_terms := [ {| t_idx := 0; t_re := NDec lit_m125e3; t_im := NInt 0 0 |} ];
     d_bterms := [ {| t_idx := 0; t_re := NDec lit_0_5; t_im := NInt 0 0 |} ] |}.
Example C10_example_float_bits :
  declared_bits (denote legacy_dense_rf) = 64%positive /\ declared_bits (denote secular_f_prec) = 99%positive
  /\ map raw_Q (poly_parts (denote legacy_dense_rf)) = [-1250 # 1; 0 # 1; 1 # 2; 0 # 1]
  /\ within_precb 64 (trunc_bits 128 (1 # 3)) (1 # 3) = true /\ within_precb 64 (trunc_bits 60 (1 # 3)) (1 # 3) = false.
Proof. vm_compute. repeat split; reflexivity. Qed.

Example C10_example_inline_ers :
  build_ers (kw " -007.250E+05") = Some (kw "7250/1000", 5%Z, true, true)
  /\ ers_value (kw "7250/1000", 5%Z, true, true) = Some (-725000 # 1)
  /\ build_ers (kw ".5") = Some (kw "5/10", 0%Z, false, true)
  /\ build_ers (kw "5.") = Some (kw "5", 0%Z, false, true)
  /\ build_ers (kw "1.5e-3") = Some (kw "15/10", (-3)%Z, false, true)
  /\ build_ers (kw "-1.5/2") = None /\ build_ers (kw "1e2/3") = None
  /\ build_ers (kw " 1.5/2") = Some (kw "15/2/1000", 0%Z, false, true).
Proof. vm_compute. repeat split; reflexivity. Qed.

(* ------------------------------------------------------------------ C integer conversions *)

(* the well-formedness bounds inside [wf] (PolModel.v), spelled out *)
Theorem C10_wf_bounds : forall d : polydesc, wf d ->
  (Z.of_nat (d_degree d) + 1 <= 2147483647)%Z
  /\ match d_prec d with
     | Some P => if d_legacy d then (Zpos P < 2 ^ 51)%Z else (Zpos P <= 2147483647)%Z
     | None => True end.
Proof. intros d (_ & _ & _ & _ & _ & A & B). split; [exact A|]. destruct (d_prec d); [destruct (d_legacy d)|]; exact B. Qed.
Print Assumptions C10_wf_bounds.

(* atoi (Degree=, Precision=) and sscanf %d (sparse indices, 2.x degree) read a digit string of ANY
   length exactly IF AND ONLY IF its value is at most INT_MAX: the bound in [wf] is the exact one *)
Theorem C10_atoi_exact_iff : forall v : text, all_digits v -> v <> [] ->
  (atoi v = Z.of_N (digits_val v) <-> (Z.of_N (digits_val v) <= INT_MAX)%Z).
Proof. exact atoi_exact_iff. Qed.
Print Assumptions C10_atoi_exact_iff.

Theorem C10_scan_int_exact_iff : forall v : text, all_digits v -> v <> [] ->
  (scan_int v = Some (Z.of_N (digits_val v)) <-> (Z.of_N (digits_val v) <= INT_MAX)%Z).
Proof. exact scan_int_exact_iff. Qed.
Print Assumptions C10_scan_int_exact_iff.

(* sscanf %ld (2.x precision word) saturates *)
Theorem C10_scan_long_saturates : forall v : text, all_digits v -> v <> [] ->
  scan_long v = Some (Z.min (Z.of_N (digits_val v)) LONG_MAX).
Proof. exact scan_long_saturates. Qed.
Print Assumptions C10_scan_long_saturates.

(* beyond the bound atoi does not fail: it returns an int congruent to the value modulo 2^32 (values up
   to LONG_MAX), and -1 for every longer number *)
Theorem C10_atoi_silent_wrap : forall v : text, all_digits v -> v <> [] ->
  let n := Z.of_N (digits_val v) in
  (INT_MIN <= atoi v <= INT_MAX)%Z
  /\ ((n <= LONG_MAX)%Z -> exists k, atoi v = (n - k * 4294967296)%Z)
  /\ ((LONG_MAX <= n)%Z -> atoi v = (-1)%Z).
Proof. exact atoi_silent_wrap. Qed.
Print Assumptions C10_atoi_silent_wrap.

(* Precision = P digits -> bits: the double computation  (long) (P * LOG2_10)  gives the product with
   the double constant LOG2_10 = 7480317065143153 / 2^51 truncated, or one more (rounding of the double
   product), for every P below 2^51 ... *)
Theorem C10_prec_bits_bracket : forall P : Z, (0 <= P < 2 ^ 51)%Z ->
  (prec_bits_exact P <= prec_bits P <= prec_bits_exact P + 1)%Z.
Proof. exact prec_bits_bracket. Qed.
Print Assumptions C10_prec_bits_bracket.

(* ... and exactly the truncated product for every P below 65536 (finite domain, by computation) *)
Theorem C10_prec_bits_exact_below_65536 : forall P : Z, (0 <= P < 65536)%Z -> prec_bits P = prec_bits_exact P.
Proof. exact prec_bits_is_exact. Qed.
Print Assumptions C10_prec_bits_exact_below_65536.

Example C10_example_prec_bits :
  prec_bits 16 = 53%Z /\ prec_bits 1000 = 3321%Z /\ prec_bits 2147483647 = 7133786260%Z /\ prec_bits (-3) = (-9)%Z
  /\ prec_bits 3000000000000000000 = LONG_MIN /\ prec_bits 2776000000000000000 = 9221672391407316992%Z
  /\ atoi (kw " +12x") = 12%Z /\ atoi (kw "4294967298") = 2%Z /\ atoi (kw "2147483648") = (-2147483648)%Z
  /\ atoi (kw "99999999999999999999") = (-1)%Z /\ atoi (kw "-99999999999999999999") = 0%Z
  /\ scan_int (kw "-") = None /\ scan_long (kw "9223372036854775808") = Some LONG_MAX.
Proof. vm_compute. repeat split; reflexivity. Qed.

(* REFUTED beyond the bounds: "the parsed object has exactly the written degree / precision / indices".
   A Degree value above INT_MAX whose low 32 bits are a positive int is accepted as that other degree,
   whatever the settings ... *)
Theorem C10_degree_beyond_int_wraps : forall (st : settings) (v : text), all_digits v -> v <> [] ->
  (INT_MAX < Z.of_N (digits_val v))%Z -> (0 < int_of_digits false v)%Z ->
  exists st', apply_option st (K_DEGREE, v) = Some st' /\ s_n st' = int_of_digits false v
              /\ s_n st' <> Z.of_N (digits_val v).
Proof. exact degree_option_wraps. Qed.
Print Assumptions C10_degree_beyond_int_wraps.

(* ... and on whole files, at each of the seven conversion sites (the files are replayed on the real
   parsers by the check: they reproduce, see known/C10.json and fixes/C10_integer_range.patch):
   3.x Degree=4294967298 read as degree 2; Precision=4294967306 read as 10 digits (33 bits);
   sparse index 4294967296 stored as coefficient 0 (monomial), 4294967297 as coefficient 1 (Chebyshev);
   2.x degree word 4294967298 read as 2; 2.x sparse index 4294967296 stored as coefficient 0;
   2.x precision word 3000000000000000000: the product leaves the range of long (undefined in C),
   the polynomial is returned with prec = LONG_MIN *)
Theorem C10_integer_range_refuted :
  exists t1 t2 t3 t4 t5 t6 t7 : text,
    pdeg (parse t1) = Some 2%Z /\ parse_option_line (kw "Degree=4294967298;") = Some (K_DEGREE, kw "4294967298")
    /\ pprec (parse t2) = Some 33%Z
    /\ pcoef (parse t3) 0 = Some ((7, 1), (0, 1))%Z
    /\ pcoef (parse t4) 1 = Some ((7, 1), (0, 1))%Z
    /\ pdeg (parse t5) = Some 2%Z
    /\ pcoef (parse t6) 0 = Some ((7, 1), (0, 1))%Z
    /\ pprec (parse t7) = Some LONG_MIN
    /\ [t1; t2; t3; t4; t5; t6; t7] = [wit_degree_3x; wit_precision_3x; wit_index_3x; wit_index_cheb; wit_degree_2x; wit_index_2x; wit_precision_2x].
Proof.
  exists wit_degree_3x, wit_precision_3x, wit_index_3x, wit_index_cheb, wit_degree_2x, wit_index_2x, wit_precision_2x.
  pose proof witnesses_parse as (A & B & (_ & C) & (_ & D) & E & (_ & F) & G).
  repeat split; try assumption; vm_compute; reflexivity.
Qed.
Print Assumptions C10_integer_range_refuted.

(* the repair (range-checked conversion: strtol, ERANGE, explicit bounds) changes nothing inside the
   bounds: where it accepts, it returns what atoi returns, and that is the written value *)
Theorem C10_checked_conversion_agrees : forall (lo hi : Z) (ds : text), (INT_MIN <= lo)%Z -> (hi <= INT_MAX)%Z ->
  match checked_digits lo hi false ds with
  | Some z => int_of_digits false ds = z /\ z = Z.of_N (digits_val ds)
  | None => True end.
Proof. exact checked_digits_agrees. Qed.
Print Assumptions C10_checked_conversion_agrees.

(* ------------------------------------------------------------------ the public coefficient setters *)

(* mps_monomial_poly_set_coefficient_{int,q,s,d,f} (SetterModel.v: each statement by statement on
   structure, initial_mqp_r/i, mfpc, spar).  GET AFTER SET, for EVERY sequence of calls on a fresh
   polynomial of degree n that returns (no assertion failed, indices in 0..n): the exact store holds at
   every index the value given by the LAST call of an exact setter (_int, _q, _s) on that index - for
   _s the canonical fraction the strings denote (api_coeff_raw: C10_api_value_correct) - or 0/1 when
   there was none, whatever was called in between; and spar[i] says whether the last value written at
   i by ANY setter was non-zero *)
Theorem C10_setters_get_after_set : forall (n : nat) (ops : list op) (m : mstate),
  run ops (m_new n) = SOk m ->
  forall i, (i <= n)%nat ->
    nth i (m_q m) (raw0, raw0) = match last_exact i ops None with Some v => v | None => (raw0, raw0) end
    /\ nth i (m_spar m) false = match last_nonzero i ops None with Some v => v | None => false end.
Proof. exact new_get_after_set. Qed.
Print Assumptions C10_setters_get_after_set.

(* the same from any state (a parsed polynomial, an earlier sequence) *)
Theorem C10_setters_get_after_set_any_state : forall (ops : list op) (m m' : mstate),
  lens_ok m -> run ops m = SOk m' ->
  lens_ok m' /\ length (m_q m') = length (m_q m)
  /\ (forall i d, nth i (m_q m') d = match last_exact i ops (Some (nth i (m_q m) d)) with Some v => v | None => d end)
  /\ (forall i d, nth i (m_spar m') d = match last_nonzero i ops (Some (nth i (m_spar m) d)) with Some v => v | None => d end).
Proof. exact run_get_after_set. Qed.
Print Assumptions C10_setters_get_after_set_any_state.

(* which calls do not return: an index above the degree writes past the arrays (the setters do not check
   it) *)
Theorem C10_setter_out_of_bounds_iff : forall (m : mstate) (o : op),
  step m o = SOutOfBounds <-> (length (m_q m) <= op_index o)%nat.
Proof. exact step_outcome. Qed.
Print Assumptions C10_setter_out_of_bounds_iff.

(* NOT PROVED YET (parked in coq/scratch/SetterProofs_rest.v, the case analysis as written exhausts memory):
   the assertion of a setter fails exactly when the polynomial already has a structure of another family
   (_int on anything but Integer, _q/_s on FloatingPoint, _d on anything but FloatingPoint; _f never), and
   any sequence of calls of ONE family on a fresh polynomial returns with the structure Real/Complex of
   that family, Complex iff some call had a non-zero imaginary part.  Both are exercised by the tie
   (assertion aborts and structures of the real setters against the extracted model on every run). *)

(* REFUTED for mixed families: after _int, a call of _q / _s with a value that is not an integer, or not
   real, returns and leaves the structure Real Integer (replayed on the real setters by the check) *)
Theorem C10_setters_mixed_structure_refuted :
  exists (ops : list op) (m : mstate),
    run ops (m_new 1) = SOk m /\ m_struct m = Some S_RI
    /\ nth 1 (m_q m) (raw0, raw0) = ((1, 2), (1, 3))%Z /\ get_q m 1 = Some ((1, 2), (1, 3))%Z.
Proof.
  exists [OpInt 0 5 0; OpS 1 (Some (kw "0.5")) (Some (kw "1/3"))]. eexists. split; [vm_compute; reflexivity|].
  vm_compute. repeat split; reflexivity.
Qed.
Print Assumptions C10_setters_mixed_structure_refuted.

Example C10_example_setters :
  (exists m, run [OpS 0 (Some (kw "-1.5e1")) None; OpQ 1 (7, 1)%Z (0, 1)%Z; OpS 0 (Some (kw "2/4")) (Some (kw ".5"))] (m_new 1) = SOk m
             /\ m_struct m = Some S_CQ /\ m_q m = [((1, 2), (1, 2)); ((7, 1), (0, 1))]%Z /\ m_spar m = [true; true])
  /\ run [OpQ 0 (1, 2)%Z (0, 1)%Z; OpInt 1 7 0] (m_new 1) = SAbort
  /\ run [OpD 0 (3 # 2) 0; OpQ 1 (1, 2)%Z (0, 1)%Z] (m_new 1) = SAbort
  /\ run [OpInt 2 1 0] (m_new 1) = SOutOfBounds
  /\ (exists m, run [OpD 0 (3 # 2) 0; OpF 1 0 (1 # 4)] (m_new 1) = SOk m /\ m_struct m = Some S_RF /\ get_q m 0 = None).
Proof. vm_compute. repeat split; try reflexivity; eexists; repeat split; reflexivity. Qed.
