(* C10 - the parsed polynomial equals the polynomial written: statements.
   Model: PolFile/DecRatModel.v (decimal literals, conversions as coded), PolFile/PolModel.v
   (descriptions, render, the model parser).  Proofs: PolFile/Chars.v, PolFile/PolProofs.v.

   The composed round trip  wf d -> parse (render st pi d) = Poly (denote d)  is proved in full for
   EVERY 3.x description: monomial, secular, Chebyshev; Integer, Rational, FloatingPoint (the model
   parser keeps the exact decimal value; C10_float_within_prec bounds the truncation to the mpf
   precision); dense and sparse (C10_parse_render).  Legacy 2.x files: only the token-level pieces are
   proved (C10_legacy_rational_exact_partial); the header reader of parse_v2 and its dispatch are
   NOT proved (C10_parse_render_legacy_partial states what is), they are exercised by the check.
   C10_decrat_correct: the character-level decimal -> rational-string conversion, as coded now. *)
Require Import String Ascii List ZArith NArith QArith Bool Lia.
Require Import MPSV.PolFile.Chars MPSV.PolFile.DecRatModel MPSV.PolFile.PolModel MPSV.PolFile.PolProofs.
Require Import MPSV.PolFile.RoundTripText MPSV.PolFile.RoundTripLines MPSV.PolFile.RoundTripOptions MPSV.PolFile.RoundTripSettings MPSV.PolFile.RoundTrip.
Require Import MPSV.PolFile.DecRat MPSV.PolFile.FloatPrec.
Import ListNotations.
Local Open Scope char_scope.

(* decimal printing and reading of naturals are inverse (the printer used by render, the Horner
   reader used by every number reader of the model) *)
Theorem C10_digits_roundtrip : forall n : N, digits_val (N_digits n) = n.
Proof. exact N_digits_val. Qed.
Print Assumptions C10_digits_roundtrip.

(* integer tokens, any sign, any number of leading zeros: read back exactly *)
Theorem C10_integer_token_exact : forall (z : Z) (lz : nat), mpz_str_value (Z_token z lz) = Some z.
Proof. exact mpz_token_roundtrip. Qed.
Print Assumptions C10_integer_token_exact.

(* Integer / Rational coefficients of the 3.x syntax: one token, and the value stored after
   mpq_set_str + mpq_canonicalize is the written fraction in lowest terms *)
Theorem C10_exact_coefficient_partial : forall x : num,
  match x with NDec _ => False | _ => True end ->
  exists t, num_tokens false x = [t] /\ mpq_str_value t = Some (Qred (num_value x)).
Proof. exact num_token_exact. Qed.
Print Assumptions C10_exact_coefficient_partial.

(* legacy 2.x rational: the two tokens "n" "d" give n/d in lowest terms *)
Theorem C10_legacy_rational_exact_partial : forall n lzn d lzd,
  read_part_legacy_q (num_tokens true (NRat n lzn d lzd)) = Some (qraw (Qred (n # d)), []).
Proof. exact num_tokens_legacy_exact. Qed.
Print Assumptions C10_legacy_rational_exact_partial.

(* letter case: whatever mask of upper/lower case a keyword is written with, mps_parse_option_line's
   keyword recognition gives the same flag *)
Theorem C10_case_irrelevant : forall (mask : list bool) (k : text),
  keyword_flag (apply_case mask k) = keyword_flag k.
Proof. exact keyword_flag_case. Qed.
Print Assumptions C10_case_irrelevant.

(* option order: for options that write different fields (at most one of Degree, Precision,
   representation, density, Real/Complex, Integer/Rational/FloatingPoint) every permutation of the
   option lines leads the option loop of mps_parse_abstract_stream to the same settings (or the same error) *)
Theorem C10_option_order_irrelevant : forall (code : list nat) (l : list (flag * text)) (st : settings),
  NoDup (map opt_class l) -> apply_options st (permute code l) = apply_options st l.
Proof. exact options_order_irrelevant. Qed.
Print Assumptions C10_option_order_irrelevant.

(* every permutation code denotes a permutation (so render's [pi] ranges over permutations only) *)
Theorem C10_permute_is_permutation : forall (A : Type) (code : list nat) (l : list A),
  Permutation.Permutation (permute code l) l.
Proof. intros; apply permute_perm. Qed.
Print Assumptions C10_permute_is_permutation.

(* lines: newline-terminated lines are recovered by the line reader *)
Theorem C10_lines_roundtrip : forall ls : list text,
  Forall (fun l => has_char ch_nl l = false) ls ->
  split_lines (concat (map (fun l => l ++ [ch_nl]) ls)) = ls.
Proof. exact split_unlines. Qed.
Print Assumptions C10_lines_roundtrip.

(* comments: a line starting with '!' is invisible, and so is everything from a '!' to the end of a line;
   blank lines and comment lines contribute no token *)
Theorem C10_comments_irrelevant : forall (pre post : list text) (body : text),
  effective_lines (pre ++ ("!" :: body) :: post) = effective_lines (pre ++ post).
Proof. exact comments_irrelevant_lines. Qed.
Print Assumptions C10_comments_irrelevant.

Theorem C10_trailing_comment_irrelevant : forall l body : text,
  has_char "!" l = false -> strip_comment (l ++ "!" :: body) = l.
Proof. exact trailing_comment_irrelevant. Qed.
Print Assumptions C10_trailing_comment_irrelevant.

Theorem C10_filler_lines_have_no_tokens : forall f : filler, tokens (strip_comment (filler_line f)) = [].
Proof. exact filler_line_tokens. Qed.
Print Assumptions C10_filler_lines_have_no_tokens.

(* ------------------------------------------------------------------ the composed round trip *)

(* THE theorem, for every 3.x file (monomial, secular, Chebyshev; Integer, Rational, FloatingPoint;
   dense, sparse): for every style (header, comments, blank lines, letter case, spacing, line layout,
   explicit defaults, final newline) and every permutation code of the option lines, the model parser
   returns exactly the polynomial the description denotes: kind, degree, structure, density,
   precision, sparsity pattern, every coefficient as the canonical fraction written (for decimals:
   the exact value of the literal). *)
Theorem C10_parse_render : forall (st : style) (pi : list nat) (d : polydesc),
  wf d -> d_legacy d = false -> parse (render st pi d) = Poly (denote d).
Proof. exact parse_render_all_3x. Qed.
Print Assumptions C10_parse_render.

(* corollaries: option order, letter case, comments, white space and layout are irrelevant *)
Corollary C10_layout_order_case_comments_irrelevant : forall (st st' : style) (pi pi' : list nat) (d : polydesc),
  wf d -> d_legacy d = false -> parse (render st pi d) = parse (render st' pi' d).
Proof. intros. rewrite !parse_render_all_3x by assumption. reflexivity. Qed.
Print Assumptions C10_layout_order_case_comments_irrelevant.

(* legacy 2.x files: PARTIAL.  Proved: the rendered text reaches the line reader as its lines
   (C10_rendered_lines_partial), the token section gives back its tokens (C10_token_section_partial),
   integer tokens and "n d" rational pairs are read exactly (C10_integer_token_exact,
   C10_legacy_rational_exact_partial), decimal tokens denote their literal (below).  NOT proved: the
   header reader of mps_monomial_poly_read_from_stream_v2 (type letters, precision, degree, the
   ignored count) and its dense/sparse dispatch, i.e. parse_v2 on legacy_header_tokens d ++ coeff_tokens d. *)
Theorem C10_parse_render_legacy_partial : forall l : declit,
  wf_file_lit l -> decimal_value (render_declit l) = Some (declit_value l).
Proof. intros l H. unfold decimal_value. rewrite parse_declit_render by exact H. reflexivity. Qed.
Print Assumptions C10_parse_render_legacy_partial.

(* the decimal -> rational conversion behind mps_monomial_poly_set_coefficient_s and the inline
   parser, character by character as coded: for every well-formed literal (any mix of sign characters
   and blanks, digits, optional fraction, optional exponent e/E[+-]digits) it yields a rational string
   that denotes exactly the value of the literal *)
Theorem C10_decrat_correct : forall l : declit, wf_api_lit l ->
  exists s, equiv_rational_string (render_declit l) = Some s /\ mpq_str_value s = Some (declit_value l).
Proof. exact decrat_correct. Qed.
Print Assumptions C10_decrat_correct.

Theorem C10_api_value_correct : forall l : declit, wf_api_lit l ->
  api_coeff_value (render_declit l) = Some (declit_value l).
Proof. exact api_value_correct. Qed.
Print Assumptions C10_api_value_correct.

(* malformed: a decimal fraction followed by a rational separator is refused *)
Theorem C10_decrat_malformed_none : forall ip fp T : text,
  all_digits ip -> all_digits fp -> all_digits T ->
  equiv_rational_string (ip ++ "." :: fp ++ "/" :: T) = None.
Proof. exact decimal_with_slash_refused. Qed.
Print Assumptions C10_decrat_malformed_none.

(* FloatingPoint coefficients: the value kept by an mpf of prec bits (truncation of the exact decimal
   value) is not larger in modulus and within 2^-prec relative *)
Theorem C10_float_within_prec : forall (p : positive) (q : Q),
  Qabs.Qabs (trunc_bits p q) <= Qabs.Qabs q
  /\ Qabs.Qabs (q - trunc_bits p q) <= Qabs.Qabs q * pow2Q (- Zpos p).
Proof. exact trunc_bits_within. Qed.
Print Assumptions C10_float_within_prec.

(* every kind of description: what the line reader sees of a rendered text (mps_skip_comments,
   line splitting, comment stripping) is the list of rendered lines, comments cut, leading blank
   lines dropped *)
Theorem C10_rendered_lines_partial : forall (b : bool) (ls : list text),
  Forall no_nl ls ->
  effective_lines (split_lines (skip_comments (unlines b ls))) = skipws (effective_lines ls).
Proof. exact parse_lines. Qed.
Print Assumptions C10_rendered_lines_partial.

(* every kind of description (monomial, secular, Chebyshev; any coefficient type): the option phase
   on the rendered option section, in any order, case and spacing, reaches the settings of d and
   hands the rest of the lines to the coefficient reader *)
Theorem C10_options_phase_partial : forall (st : style) (pi : list nat) (d : polydesc) (REST : list text),
  (1 <= d_degree d)%nat -> Forall (fun l => has_char ";" l = false) REST ->
  options_phase (zip_default stripped default_optdeco (permute pi (options_of st d)) (st_opts st) ++ REST) initial_settings
  = Some (target_settings d, REST).
Proof. exact options_phase_of_render. Qed.
Print Assumptions C10_options_phase_partial.

(* every kind: the coefficient section gives back exactly its tokens, whatever the line layout *)
Theorem C10_token_section_partial : forall (groups : list (list text)) (decos : list linedeco),
  Forall (Forall tok_ok) groups -> Forall (fun g => g <> []) groups ->
  all_tokens (effective_lines (concat (zip_default token_lines default_linedeco groups decos))) = concat groups.
Proof. intros. apply (eff_token_section groups decos); assumption. Qed.
Print Assumptions C10_token_section_partial.

(* ------------------------------------------------------------------ formerly refuted, now repaired in the code *)

Definition lit_0_5 : declit :=
  {| dl_sign := []; dl_int := ["0"]; dl_dot := true; dl_frac := ["5"]; dl_exp := None |}.
Definition lit_0_0 : declit :=
  {| dl_sign := []; dl_int := ["0"]; dl_dot := true; dl_frac := ["0"]; dl_exp := None |}.

(* mps_monomial_poly_set_coefficient_s now canonicalises: whatever the string, the stored pair is a
   canonical fraction (unless the string carries a zero denominator, where the real code divides by zero) *)
Theorem C10_api_stores_canonical : forall s : text,
  snd (api_coeff_raw s) <> 0%Z -> raw_canonical (api_coeff_raw s) = true.
Proof. exact api_coeff_raw_canonical. Qed.
Print Assumptions C10_api_stores_canonical.

Definition plain_style : style :=
  {| st_header := []; st_explicit := (false, false, false, false); st_opts := []; st_sep := [];
     st_chunks := []; st_lines := []; st_trailer := []; st_final_newline := true |}.

Definition cheb_2_4 : polydesc :=
  {| d_legacy := false; d_kind := KChebyshev; d_degree := 1; d_real := true; d_ctype := TRational;
     d_sparse := false; d_prec := None;
     d_terms := [ {| t_idx := 0; t_re := NRat 2 0 4 0; t_im := NInt 0 0 |};
                  {| t_idx := 1; t_re := NInt 1 0; t_im := NInt 0 0 |} ];
     d_bterms := [] |}.

Example C10_example_former_defects_repaired :
  api_coeff_raw (render_declit lit_0_5) = (1, 2)%Z
  /\ equiv_rational_string (render_declit lit_0_0) = Some (kw "0/10")
  /\ parse (render plain_style [] cheb_2_4) = Poly (denote cheb_2_4).
Proof. vm_compute. repeat split; reflexivity. Qed.

(* ------------------------------------------------------------------ examples (non-vacuity, what the round trip looks like) *)

Definition busy_style : style :=
  {| st_header := [FComment 1 (kw "x^2 - 1/2"); FBlank 2];
     st_explicit := (true, false, false, true);
     st_opts := [ {| od_pre := [kw " Degree=9;"]; od_lead := 2; od_mask := [true; false; true; true]; od_eq1 := 1; od_eq2 := 2;
                     od_mid := 1; od_trail := 1; od_comment := Some (kw " c;") |} ];
     st_sep := [FBlank 0; FComment 0 (kw "coefficients")];
     st_chunks := [1%nat; 0%nat];
     st_lines := [ {| ld_pre := [FComment 3 (kw "first")]; ld_lead := 1; ld_gaps := [2%nat]; ld_trail := 1; ld_comment := Some (kw " tail") |} ];
     st_trailer := [FComment 0 (kw "EOF")]; st_final_newline := true |}.

Definition mono_sparse_q : polydesc :=
  {| d_legacy := false; d_kind := KMonomial; d_degree := 5; d_real := false; d_ctype := TRational;
     d_sparse := true; d_prec := Some 30%positive;
     d_terms := [ {| t_idx := 5; t_re := NRat (-6) 2 4 1; t_im := NInt 7 0 |};
                  {| t_idx := 0; t_re := NInt (-12345678901234567890) 0; t_im := NRat 10 0 100 0 |};
                  {| t_idx := 3; t_re := NInt 0 3; t_im := NInt 1 0 |} ];
     d_bterms := [] |}.

Example C10_parse_render_hypotheses_satisfiable :
  wf mono_sparse_q /\ d_legacy mono_sparse_q = false /\ d_kind mono_sparse_q = KMonomial /\ d_ctype mono_sparse_q = TRational.
Proof.
  unfold wf, mono_sparse_q; cbn. repeat split; auto; try discriminate; try lia.
  all: repeat constructor; cbn; auto; try discriminate; try lia; intuition discriminate.
Qed.

Example C10_example_monomial_sparse_rational :
  parse (render busy_style [3; 0; 2; 9; 1]%nat mono_sparse_q) = Poly (denote mono_sparse_q)
  /\ parse (render plain_style [] mono_sparse_q) = Poly (denote mono_sparse_q).
Proof. vm_compute. split; reflexivity. Qed.

Definition legacy_dense_q : polydesc :=
  {| d_legacy := true; d_kind := KMonomial; d_degree := 1; d_real := true; d_ctype := TRational;
     d_sparse := false; d_prec := None;
     d_terms := [ {| t_idx := 0; t_re := NRat 4 0 6 0; t_im := NInt 0 0 |};
                  {| t_idx := 1; t_re := NInt (-3) 1; t_im := NInt 0 0 |} ];
     d_bterms := [] |}.
Example C10_example_legacy_rational :
  parse (render busy_style [] legacy_dense_q) = Poly (denote legacy_dense_q).
Proof. vm_compute. reflexivity. Qed.

Definition lit_m125e3 : declit :=
  {| dl_sign := ["-"]; dl_int := ["1"]; dl_dot := true; dl_frac := ["2"; "5"];
     dl_exp := Some {| ex_mark := "e"; ex_sign := EPlus; ex_digits := ["0"; "3"] |} |}.
Definition secular_f : polydesc :=
  {| d_legacy := false; d_kind := KSecular; d_degree := 1; d_real := true; d_ctype := TFloat;
     d_sparse := false; d_prec := None;
     d_terms := [ {| t_idx := 0; t_re := NDec lit_m125e3; t_im := NInt 0 0 |} ];
     d_bterms := [ {| t_idx := 0; t_re := NDec lit_0_5; t_im := NInt 0 0 |} ] |}.
Example C10_example_secular_decimal :
  parse (render busy_style [1; 1]%nat secular_f) = Poly (denote secular_f)
  /\ declit_value lit_m125e3 = (-1250 # 1).
Proof. vm_compute. split; reflexivity. Qed.

Example C10_decrat_hypothesis_satisfiable : wf_api_lit lit_m125e3 /\ wf_file_lit lit_m125e3.
Proof.
  unfold wf_api_lit, wf_file_lit, wf_body, wf_expo, all_digits, lit_m125e3; cbn.
  repeat split; auto; try discriminate; repeat constructor; auto.
Qed.

Example C10_example_api_decimal :
  api_coeff_value (render_declit lit_m125e3) = Some (declit_value lit_m125e3)
  /\ equiv_rational_string (render_declit lit_m125e3) = Some (kw "-125000/100").
Proof. vm_compute. split; reflexivity. Qed.

Example C10_example_option_order_hyp :
  NoDup (map opt_class [(K_DEGREE, kw "5"); (F_REAL, []); (F_INTEGER, []); (F_SPARSE, [])]).
Proof. repeat constructor; simpl; intuition discriminate. Qed.
