(* C09 -- parsers are total.  Statements only; proofs in ParseTotal/*Props.v.
   Model: ParseTotal/Tokenizer.v, ParseTotal/OptionLine.v (explicit line memory, cursor
   as a free integer, every access recorded in a trace, fuel for every loop).

   Part A: the code AS IT IS in /repo (after commits 80c2730 990a9b4 336ceec 4afdf22
   cee031a 5667f2e and the skip_comments / parsing-error repairs): the models
   skip_comments_fixed, next_token_line_fixed, tokens_of_line_cur, back_scan_fixed,
   mps_error_fixed, raise_parsing_error_fixed, fetch_line.  These are the full claims.
   Part B: the code as it was BEFORE those repairs (skip_comments, next_token_line,
   back_scan, mps_error, raise_parsing_error): the faithful model falsified the claims;
   the refutations stay as theorems, their witnesses are replayed by checks/C09.py on
   every run and must no longer reproduce (regression inputs).
   Part C: whole files (ParseTotal/WholeFile.v, Gmp621.v): the stateful line buffer, the
   option loop, the dispatch and the token loops of the monomial, legacy 2.x, secular and
   Chebyshev readers, GMP's mpf_set_str / mpq_set_str as PARAMETERS.  The model follows the
   code after commits e017eba4 (Chebyshev index check: [chk = true]; [chk = false] is the
   reader before it), fb161c73 + fixes/C18_parsing_error_args.patch (messages raised at end
   of input are formatted with their arguments), 9e1e2262 (Degree, Precision, the two
   numbers of a 2.x header and the sparse indices of the monomial readers are read by
   mps_utils_parse_long: out of range or not a number = refused).
   NOT modelled (observed through ASan on the real code only): what GMP, the allocator and
   the double/DPE conversions do with an accepted token, the history ring of the input
   buffer, the yacc grammar of inline input. *)
Require Import ZArith List String Bool Lia ZifyBool.
Require Import MPSV.ParseTotal.Tokenizer MPSV.ParseTotal.OptionLine.
Require Import MPSV.ParseTotal.TokenizerProps MPSV.ParseTotal.OptionLineProps.
Require Import MPSV.ParseTotal.Gmp621 MPSV.ParseTotal.WholeFile.
Require Import MPSV.ParseTotal.WholeFileProps MPSV.ParseTotal.WholeFileTotal.
Import ListNotations.
Open Scope Z_scope.

(* ======================= Part A: the code as it is ========================== *)

(* mps_skip_comments returns on every input within |input|+1 reads *)
Theorem C09_skip_comments_terminates :
  forall input, exists rest, skip_comments_fixed (S (List.length input)) input = Done rest.
Proof. exact skip_comments_fixed_total. Qed.
Print Assumptions C09_skip_comments_terminates.

(* one call of next_token on a line with a terminator at or after the cursor: no fuel
   exhaustion within cap+1 steps, no write, every read in [0,cap), invariant kept *)
Theorem C09_tokenizer_in_bounds :
  forall m off fuel,
    (exists n, 0 <= off <= n /\ n < cap m /\ get m n = 0) -> cap m < Z.of_nat fuel ->
    exists r off' tr,
      next_token_line_fixed fuel m off = Done (r, m, off', tr)
      /\ in_bounds (cap m) tr /\ (exists n, 0 <= off' <= n /\ n < cap m /\ get m n = 0).
Proof. exact next_token_line_fixed_safe. Qed.
Print Assumptions C09_tokenizer_in_bounds.

(* the hypothesis is met by every line that either stream delivers: all the tokens of
   any line of an in-memory string (growing buffer of commit 5667f2e) ... *)
Theorem C09_tokenizer_in_bounds_memory_stream :
  forall s rc m r k fuel res,
    fetch_line MemStream None s = (rc, m, r) -> 0 < rc -> cap m < Z.of_nat fuel ->
    tokens_of_line_cur k fuel m 0 [] [] = res ->
    res = OutOfFuel \/ exists toks tr, res = Done (toks, tr) /\ in_bounds (cap m) tr.
Proof. exact mem_stream_line_tokens_cur_in_bounds. Qed.
Print Assumptions C09_tokenizer_in_bounds_memory_stream.

(* ... and of any line read by getline from a FILE*, whatever its length *)
Theorem C09_tokenizer_in_bounds_file_stream :
  forall s rc m r k fuel res,
    fetch_line FileStream None s = (rc, m, r) -> 0 < rc -> cap m < Z.of_nat fuel ->
    tokens_of_line_cur k fuel m 0 [] [] = res ->
    res = OutOfFuel \/ exists toks tr, res = Done (toks, tr) /\ in_bounds (cap m) tr.
Proof. exact file_stream_line_tokens_cur_in_bounds. Qed.
Print Assumptions C09_tokenizer_in_bounds_file_stream.

Example C09_tokenizer_nonvacuous :
  tokens_stream_cur 10 2000 MemStream (str "ab  cd" ++ [10] ++ str "!x" ++ [10] ++ str " e") [] false
  = Done ([str "ab"; str "cd"; str "e"], false)
  /\ tokens_stream_cur 10 2000 FileStream (repeat 120 119) [] false = Done ([repeat 120 119], false).
Proof. split; vm_compute; reflexivity. Qed.

(* the backward scan of mps_parse_option_line never leaves [option, c_ptr] *)
Theorem C09_option_line_in_bounds_partial :
  forall m c opt fuel p tr, 0 <= opt <= p -> p <= c -> p - opt < Z.of_nat fuel -> in_bounds c tr ->
  exists q tr', back_scan_fixed fuel m opt p tr = Done (q, tr') /\ in_bounds c tr' /\ opt <= q <= p.
Proof. exact back_scan_fixed_in_bounds. Qed.
Print Assumptions C09_option_line_in_bounds_partial.
(* partial: the forward scans (strchr, leading blanks) of the walk are not covered *)

(* the WHOLE walk of mps_parse_option_line (strchr '!', leading blanks, strchr ';', backward
   scan, the write of the terminator, the read of the option text) on a line that has a
   ';' before its terminator -- the only way mps_parse_abstract_stream calls it: either the
   "line too long" error, or every access is inside the buffer and the only write is one NUL *)
Theorem C09_option_line_walk_in_bounds :
  forall m t j fuel len,
    0 <= j -> j < t -> t < cap m -> get m t = 0 -> get m j = 59 ->
    (forall i, 0 <= i < j -> get m i <> 0) -> t < Z.of_nat fuel ->
    option_walk_fixed fuel m len = Done WTooLong \/
    exists opt o q tr, option_walk_fixed fuel m len = Done (WOption opt o (upd m q 0) tr) /\ in_bounds (cap m) tr.
Proof. exact option_walk_fixed_safe. Qed.
Print Assumptions C09_option_line_walk_in_bounds.

Example C09_option_line_nonvacuous :
  parse_option_line_fixed 400 (str "  Degree = 5 ;") (fun _ => garbage)
  = Done (OOpt FDegree (Some (str " 5")) None false)
  /\ parse_option_line_fixed 400 (str ";") (fun _ => garbage)
     = Done (OOpt FUndefined None (Some (MOk (str "Unrecognized option: "))) false).
Proof. split; vm_compute; reflexivity. Qed.

(* input text is not interpreted as a format string: any token arrives literally *)
Theorem C09_no_format_injection :
  forall lineno token message, 0 <= lineno ->
  raise_parsing_error_fixed lineno token message = MOk (perr_prefix lineno ++ token).
Proof. exact raise_parsing_error_fixed_literal. Qed.
Print Assumptions C09_no_format_injection.

(* and the option text of "Unrecognized option: %s" arrives whole, whatever its length *)
Theorem C09_error_message_carries_argument :
  forall o, mps_error_fixed (str "Unrecognized option: %s") [AStr o] = MOk (str "Unrecognized option: " ++ o).
Proof. exact unrecognized_option_literal. Qed.
Print Assumptions C09_error_message_carries_argument.

Example C09_no_format_injection_nonvacuous :
  raise_parsing_error_fixed 7 (str "%n%s") (str "C09MSG")
  = MOk (str "Parsing error on line 7 near the token: %n%s").
Proof. vm_compute. reflexivity. Qed.

(* ================= Part B: the code before the repairs ====================== *)

Theorem C09_before_fix_skip_comments_terminates_refuted :
  exists input, forall fuel, skip_comments fuel input = OutOfFuel.
Proof. exists [33; 120]. exact skip_comments_bang_eof_hangs. Qed.
Print Assumptions C09_before_fix_skip_comments_terminates_refuted.

Theorem C09_before_fix_skip_comments_terminates_partial :
  forall input,
    (forall pre post, input = pre ++ 33 :: post -> In 10 post) ->
    exists rest, skip_comments (S (List.length input)) input = Done rest.
Proof. exact skip_comments_partial. Qed.
Print Assumptions C09_before_fix_skip_comments_terminates_partial.

(* the repair changed nothing where the old loop returned *)
Theorem C09_skip_comments_fix_conservative :
  forall fuel input rest, skip_comments fuel input = Done rest -> skip_comments_fixed fuel input = Done rest.
Proof. exact skip_comments_agree. Qed.
Print Assumptions C09_skip_comments_fix_conservative.

Example C09_skip_comments_nonvacuous :
  skip_comments 20 (str "!c" ++ [10] ++ str "  dri") = Done (str "dri")
  /\ (forall pre post, [33; 10; 100] = pre ++ 33 :: post -> In 10 post).
Proof.
  split; [vm_compute; reflexivity|].
  intros pre post H. destruct pre as [|a pre]; simpl in H.
  - injection H as H1. subst. simpl. auto.
  - exfalso. injection H as Ha H1.
    destruct pre as [|b pre]; simpl in H1; [discriminate H1|]. injection H1 as Hb H2.
    destruct pre as [|c pre]; simpl in H2; [discriminate H2|]. injection H2 as Hc H3.
    destruct pre; discriminate H3.
Qed.

Theorem C09_before_fix_tokenizer_in_bounds_refuted :
  exists (m : mem) tr r m' o',
    cap m = 120 /\ bytes_from m 0 120 = repeat 120 119 ++ [0] /\
    next_token_line 200 m 0 = Done (r, m', o', tr) /\ ~ in_bounds (cap m) tr.
Proof. exact tokenizer_in_bounds_refuted. Qed.
Print Assumptions C09_before_fix_tokenizer_in_bounds_refuted.

Theorem C09_before_fix_tokenizer_in_bounds_partial :
  forall m off fuel,
    (exists n, 0 <= off <= n /\ n < cap m /\ get m n = 0 /\ (n = off \/ n + 1 < cap m)) ->
    cap m < Z.of_nat fuel ->
    exists r m' off' tr,
      next_token_line fuel m off = Done (r, m', off', tr)
      /\ in_bounds (cap m) tr /\ cap m' = cap m
      /\ (exists n, 0 <= off' <= n /\ n < cap m' /\ get m' n = 0 /\ (n = off' \/ n + 1 < cap m')).
Proof. exact next_token_line_safe. Qed.
Print Assumptions C09_before_fix_tokenizer_in_bounds_partial.

Theorem C09_before_fix_option_line_in_bounds_refuted :
  exists opt o m' tr,
    option_walk 100 (line_mem (str ";") (fun _ => garbage)) 1 = Done (WOption opt o m' tr) /\ In (-1) tr.
Proof. exact option_walk_semicolon_reads_before_buffer. Qed.
Print Assumptions C09_before_fix_option_line_in_bounds_refuted.

(* the old backward scan `while (isspace ( *--c_ptr) && real_length--)` at least ended
   within real_length+1 steps for ANY memory contents, inside the buffer or not *)
Theorem C09_before_fix_option_line_total_partial :
  forall m fuel p rl tr, 0 <= rl < Z.of_nat fuel ->
  exists q tr', back_scan fuel m p rl tr = Done (q, tr') /\ p - rl - 1 <= q < p.
Proof. exact back_scan_total. Qed.
Print Assumptions C09_before_fix_option_line_total_partial.

Theorem C09_before_fix_no_format_injection_refuted :
  (raise_parsing_error 7 (str "%%") (str "C09MSG") = MOk (perr_prefix 7 ++ str "%")
   /\ perr_prefix 7 ++ str "%" <> perr_prefix 7 ++ str "%%")
  /\ raise_parsing_error 7 (str "%n") (str "C09MSG") = MWild.
Proof. split; [exact format_interpreted_witness|exact format_wild_witness]. Qed.
Print Assumptions C09_before_fix_no_format_injection_refuted.

Theorem C09_before_fix_no_format_injection_partial :
  forall lineno token message, 0 <= lineno -> ~ In 37 token ->
  raise_parsing_error lineno token message = MOk (perr_prefix lineno ++ token).
Proof. exact raise_parsing_error_literal. Qed.
Print Assumptions C09_before_fix_no_format_injection_partial.

Theorem C09_before_fix_error_message_va_list_refuted :
  mps_error (str "Unrecognized option: %s") [AStr (str "floatingpointt")] = MWild
  /\ mps_error_fixed (str "Unrecognized option: %s") [AStr (str "floatingpointt")]
     = MOk (str "Unrecognized option: floatingpointt").
Proof. exact va_list_reuse_witness. Qed.
Print Assumptions C09_before_fix_error_message_va_list_refuted.

(* ========================= Part C: whole files ============================== *)

(* mps_parse_string on ANY byte string, for ANY behaviour of mpf_set_str / mpq_set_str
   (accept/reject and the numerator/denominator stored), with or without the Chebyshev
   index check: the budgets |input|+2 (lines per call, iterations per loop) and
   2|input|+1100 (steps per line scan) are never exhausted, every access to the line
   buffer is inside the buffer it goes to (lok), and the call ends with
     - a polynomial and no error flag, or
     - no polynomial, the flag, and a non-empty message, or
     - one of the modelled undefined behaviours: 2 (GMP division by zero) or 3 (non-positive
       denominator handed to mpq_set / mpq_div), only if mpq_set_str accepts some token with
       a non-positive denominator or a zero numerator; 4 (coefficient index outside the
       allocation), only if the index check is absent. *)
Theorem C09_whole_file_string_total :
  forall (gmpf : list Z -> bool) (gmpq : list Z -> option (Z * Z)) (chk : bool) (input : list Z),
    match parse_string gmpf gmpq chk (budget_of input) input with
    | SOk _ b => lok b = true
    | SErr e b => lok b = true /\ match e with
                                  | EMsg s => s <> []
                                  | EIndet f => exists c r, f = c :: r /\ c <> 37
                                  end
    | SFuel => False
    | SCrash w b =>
        lok b = true /\
        (((w = 2 \/ w = 3) /\ exists t n d, gmpq t = Some (n, d) /\ (d <= 0 \/ n = 0))
         \/ (w = 4 /\ chk = false))
    end.
Proof. exact parse_string_total. Qed.
Print Assumptions C09_whole_file_string_total.

(* the same for mps_parse_stream / mps_parse_file (mps_skip_comments, then getline) *)
Theorem C09_whole_file_stream_total :
  forall (gmpf : list Z -> bool) (gmpq : list Z -> option (Z * Z)) (chk : bool) (input : list Z),
    match parse_stream gmpf gmpq chk (budget_of input) input with
    | SOk _ b => lok b = true
    | SErr e b => lok b = true /\ match e with
                                  | EMsg s => s <> []
                                  | EIndet f => exists c r, f = c :: r /\ c <> 37
                                  end
    | SFuel => False
    | SCrash w b =>
        lok b = true /\
        (((w = 2 \/ w = 3) /\ exists t n d, gmpq t = Some (n, d) /\ (d <= 0 \/ n = 0))
         \/ (w = 4 /\ chk = false))
    end.
Proof. exact parse_stream_total. Qed.
Print Assumptions C09_whole_file_stream_total.

(* with the index check of fixes/C09_chebyshev_sparse_index_check.patch and an mpq_set_str
   that only ever stores positive denominators and non-zero numerators, no undefined
   behaviour is reachable.  Partial: a zero numerator is harmless except as the divisor
   of a legacy 2.x rational "n d", but is excluded here for every token. *)
Theorem C09_whole_file_no_undefined_behaviour_partial :
  forall (gmpf : list Z -> bool) (gmpq : list Z -> option (Z * Z)) (input : list Z),
    (forall t n d, gmpq t = Some (n, d) -> 0 < d /\ n <> 0) ->
    (forall w b, parse_string gmpf gmpq true (budget_of input) input <> SCrash w b) /\
    (forall w b, parse_stream gmpf gmpq true (budget_of input) input <> SCrash w b).
Proof. exact whole_file_no_ub. Qed.
Print Assumptions C09_whole_file_no_undefined_behaviour_partial.

(* the hypothesis of the partial theorem is satisfiable by a reader that still accepts
   ordinary rationals: GMP's own grammar restricted to positive denominators and non-zero
   numerators *)
Definition gmpq_tame (t : list Z) : option (Z * Z) :=
  match gmpq621 t with
  | Some (n, d) => if (0 <? d) && negb (n =? 0) then Some (n, d) else None
  | None => None
  end.

Definition nl : list Z := [10].

Example C09_whole_file_no_undefined_behaviour_nonvacuous :
  (forall t n d, gmpq_tame t = Some (n, d) -> 0 < d /\ n <> 0)
  /\ gmpq_tame (str "-3/4") = Some (-3, 4)
  /\ (exists b, let i := str "Chebyshev;" ++ nl ++ str "Degree=1;" ++ nl ++ str "Rational;" ++ nl ++ str "Sparse;" ++ nl ++ str "Real;" ++ nl ++ str "1 -3/4" in
                 parse_string gmpf621 gmpq_tame true (budget_of i) i
                 = SOk {| p_type := 2; p_deg := 1; p_cplx := false; p_kind := KRat; p_dens := 1; p_prec := 0 |} b).
Proof.
  split.
  - intros t n d H. unfold gmpq_tame in H. destruct (gmpq621 t) as [[n' d']|]; [|discriminate].
    destruct ((0 <? d') && negb (n' =? 0)) eqn:E; [|discriminate]. inversion H; subst. lia.
  - split; [vm_compute; reflexivity|]. vm_compute. eexists. reflexivity.
Qed.

(* non-vacuity: a 3.x file, a legacy file and two malformed files through the model with
   the GMP 6.2.1 transcription *)
Example C09_whole_file_nonvacuous :
  (exists b, parse_string gmpf621 gmpq621 false (budget_of (str "Monomial;" ++ nl ++ str "Degree=2;" ++ nl ++ str "Rational; ! c" ++ nl ++ str "Real;" ++ nl ++ str "1/2 -3 4" ++ nl))
                          (str "Monomial;" ++ nl ++ str "Degree=2;" ++ nl ++ str "Rational; ! c" ++ nl ++ str "Real;" ++ nl ++ str "1/2 -3 4" ++ nl)
             = SOk {| p_type := 0; p_deg := 2; p_cplx := false; p_kind := KRat; p_dens := 0; p_prec := 0 |} b /\ lok b = true /\ lwork b = 3)
  /\ (exists b, parse_stream gmpf621 gmpq621 false (budget_of (str "! old" ++ nl ++ str "sci" ++ nl ++ str "0" ++ nl ++ str "3" ++ nl ++ str "2" ++ nl ++ str "0 1 2 3 -1 5"))
                              (str "! old" ++ nl ++ str "sci" ++ nl ++ str "0" ++ nl ++ str "3" ++ nl ++ str "2" ++ nl ++ str "0 1 2 3 -1 5")
             = SOk {| p_type := 0; p_deg := 3; p_cplx := true; p_kind := KInt; p_dens := 1; p_prec := 0 |} b /\ lok b = true)
  /\ (exists b, parse_string gmpf621 gmpq621 false (budget_of (str "Secular;" ++ nl ++ str "Degree=1;" ++ nl ++ str "1.5 2x"))
                              (str "Secular;" ++ nl ++ str "Degree=1;" ++ nl ++ str "1.5 2x")
             = SErr (EMsg (str "Parsing error on line 3 near the token: 2x")) b)
  /\ (exists b, parse_string gmpf621 gmpq621 false (budget_of (str "Dense;" ++ nl ++ str "1 2")) (str "Dense;" ++ nl ++ str "1 2")
             = SErr (EMsg msg_degree_missing) b).
Proof.
  split; [vm_compute; eexists; repeat split|].
  split; [vm_compute; eexists; repeat split|].
  split; vm_compute; eexists; reflexivity.
Qed.

(* mps_utils_parse_long never yields a number outside the range it was given, and what it
   yields is the number the digits denote (no wrapping modulo 2^32 or 2^64) *)
Theorem C09_parse_long_in_range :
  forall l lo hi v, parse_long l lo hi = Some v ->
    lo <= v <= hi /\ long_min <= v <= long_max /\ strtol10_exact l = Some v.
Proof.
  intros l lo hi v H. unfold parse_long in H. destruct (strtol10_exact l) as [w|]; [|discriminate].
  destruct ((w <? long_min) || (long_max <? w) || (w <? lo) || (hi <? w)) eqn:E; [discriminate|].
  inversion H; subst. repeat split; lia.
Qed.
Print Assumptions C09_parse_long_in_range.

(* the numbers that used to wrap are refused: Degree=4294967298 (was degree 2), a sparse index
   4294967296 (was index 0) in a 3.x and in a 2.x file, Precision=4294967306, a 2.x degree word
   4294967298; Degree=2147483647 is refused as well (n + 1 coefficients are counted in an int) *)
Example C09_whole_file_integer_range_nonvacuous :
  parse_long (str "4294967298") 1 (int_max - 1) = None
  /\ parse_long (str "-9223372036854775809") long_min long_max = None
  /\ parse_long (str " +17x") long_min long_max = Some 17
  /\ (exists b, let i := str "Degree=4294967298;" ++ nl ++ str "1 2 3" ++ nl in
                 parse_string gmpf621 gmpq621 true (budget_of i) i = SErr (EMsg msg_degree_pos) b)
  /\ (exists b, let i := str "Degree=2147483647;" ++ nl ++ str "1 2 3" ++ nl in
                 parse_string gmpf621 gmpq621 true (budget_of i) i = SErr (EMsg msg_degree_pos) b)
  /\ (exists b, let i := str "Precision=4294967306;" ++ nl ++ str "Degree=1;" ++ nl ++ str "1 2" ++ nl in
                 parse_string gmpf621 gmpq621 true (budget_of i) i = SErr (EMsg msg_prec_pos) b)
  /\ (exists b, let i := str "Degree=2;" ++ nl ++ str "Sparse;" ++ nl ++ str "4294967296 1.5" ++ nl in
                 parse_string gmpf621 gmpq621 true (budget_of i) i
                 = SErr (EMsg (str "Parsing error on line 3 near the token: 4294967296")) b)
  /\ (exists b, let i := str "sri" ++ nl ++ str "0" ++ nl ++ str "2" ++ nl ++ str "1" ++ nl ++ str "4294967296 5" ++ nl in
                 parse_stream gmpf621 gmpq621 true (budget_of i) i
                 = SErr (EMsg (str "Parsing error on line 5 near the token: 4294967296")) b)
  /\ (exists b, let i := str "dri" ++ nl ++ str "0" ++ nl ++ str "4294967298" ++ nl ++ str "1 2 3" ++ nl in
                 parse_string gmpf621 gmpq621 true (budget_of i) i = SErr (EMsg (str "Error reading the degree of the polynomial")) b).
Proof. repeat split; vm_compute; try reflexivity; eexists; reflexivity. Qed.

(* a message raised at end of input (token == NULL) arrives with its argument substituted:
   literal text followed by %d gives the text followed by the decimal number *)
Theorem C09_end_of_input_message_carries_argument :
  forall pre d, forallb (fun c => negb (c =? 37)) pre = true ->
    null_err (pre ++ str "%d") [AInt d] = EMsg (pre ++ dec d).
Proof. exact null_err_d. Qed.
Print Assumptions C09_end_of_input_message_carries_argument.

(* the three call sites with an argument (chebyshev-parser.c, sparse branch): the floating point
   reader names the degree it has just read, the rational reader passes the counter of the loop
   that zeroed the coefficients (Degree + 1) *)
Example C09_end_of_input_message_nonvacuous :
  (exists b, let i := str "Chebyshev;" ++ nl ++ str "Degree=2;" ++ nl ++ str "Sparse;" ++ nl ++ str "Complex;" ++ nl ++ str "1 1.0" in
             parse_string gmpf621 gmpq621 true (budget_of i) i
             = SErr (EMsg (str "Error while reading imaginary part of coefficient 1")) b)
  /\ (exists b, let i := str "Chebyshev;" ++ nl ++ str "Degree=2;" ++ nl ++ str "Sparse;" ++ nl ++ str "Rational;" ++ nl ++ str "Real;" ++ nl ++ str "0" in
                 parse_stream gmpf621 gmpq621 true (budget_of i) i
                 = SErr (EMsg (str "Error while reading the real part of coefficient 3")) b)
  /\ msg_ch_im_d = str "Error while reading imaginary part of coefficient %d".
Proof. repeat split; vm_compute; try reflexivity; eexists; reflexivity. Qed.

(* the faithful model reaches GMP's division by zero: in the 3.x monomial, secular and
   Chebyshev readers through mpq_canonicalize, in the legacy reader through mpq_div.
   The four inputs are replayed on the real code by checks/C09.py (SIGFPE, known finding). *)
Theorem C09_whole_file_zero_denominator_refuted :
  (exists b, let i := str "Monomial;" ++ nl ++ str "Degree=1;" ++ nl ++ str "Rational;" ++ nl ++ str "Real;" ++ nl ++ str "1/0 1" ++ nl in
             parse_string gmpf621 gmpq621 false (budget_of i) i = SCrash 2 b)
  /\ (exists b, let i := str "Secular;" ++ nl ++ str "Degree=1;" ++ nl ++ str "Rational;" ++ nl ++ str "Real;" ++ nl ++ str "1/0 1" ++ nl in
                 parse_stream gmpf621 gmpq621 false (budget_of i) i = SCrash 2 b)
  /\ (exists b, let i := str "Chebyshev;" ++ nl ++ str "Degree=1;" ++ nl ++ str "Rational;" ++ nl ++ str "Real;" ++ nl ++ str "1/0 1" ++ nl in
                 parse_stream gmpf621 gmpq621 false (budget_of i) i = SCrash 2 b)
  /\ (exists b, let i := str "drq" ++ nl ++ str "0" ++ nl ++ str "0" ++ nl ++ str "1 0" ++ nl in
                 parse_string gmpf621 gmpq621 false (budget_of i) i = SCrash 2 b).
Proof. repeat split; vm_compute; eexists; reflexivity. Qed.
Print Assumptions C09_whole_file_zero_denominator_refuted.

(* BEFORE commit e017eba4 ([chk = false]) the Chebyshev sparse reader indexed its coefficient
   arrays with the parsed degree without a range check (code 4); with the check ([chk = true],
   the code as it is) the same file is an error.  checks/C09.py replays the file: on a tree
   that has the check the crash must not reproduce (regression input) *)
Theorem C09_whole_file_chebyshev_sparse_index_refuted :
  let i := str "Chebyshev;" ++ nl ++ str "Degree=2;" ++ nl ++ str "Sparse;" ++ nl ++ str "Real;" ++ nl ++ str "5 1.0" ++ nl in
  (exists b, parse_string gmpf621 gmpq621 false (budget_of i) i = SCrash 4 b)
  /\ (exists b, parse_string gmpf621 gmpq621 true (budget_of i) i
                 = SErr (EMsg (str "Parsing error on line 5 near the token: 5")) b).
Proof. split; vm_compute; eexists; reflexivity. Qed.
Print Assumptions C09_whole_file_chebyshev_sparse_index_refuted.

(* the work is NOT linear in the input: 31 bytes make the reader allocate 2 000 000 001
   coefficient slots before the first coefficient is read (known finding: timeout) *)
Theorem C09_whole_file_allocation_linear_refuted :
  exists input e b,
    (List.length input <= 40)%nat /\
    parse_string gmpf621 gmpq621 false (budget_of input) input = SErr e b /\ 2000000000 < lwork b.
Proof.
  exists (str "Monomial;" ++ nl ++ str "Degree=2000000000;" ++ nl ++ str "1 2" ++ nl).
  eexists _, _. split; [vm_compute; repeat constructor|].
  split; [vm_compute; reflexivity|vm_compute; reflexivity].
Qed.
Print Assumptions C09_whole_file_allocation_linear_refuted.
