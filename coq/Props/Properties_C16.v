(* C16 - every accessor hands out (value, radius) pairs that are still inclusions.
   Statements only; proofs in Access/AccessProps.v. *)
From Coq Require Import QArith Qreals Reals.
Require Import MPSV.Access.AccessModel MPSV.Access.AccessProps.
Local Open Scope R_scope.

(* rounding lemma: a root in the stored disc D(zm,rm) lies in the handed-out disc D(za,ra)
   as soon as |za - zm| <= ra - rm *)
Theorem C16_round_disc :
  forall x y zmr zmi rm zar zai ra : R,
  0 <= rm -> rm <= ra ->
  (zar - zmr) * (zar - zmr) + (zai - zmi) * (zai - zmi) <= (ra - rm) * (ra - rm) ->
  (x - zmr) * (x - zmr) + (y - zmi) * (y - zmi) <= rm * rm ->
  (x - zar) * (x - zar) + (y - zai) * (y - zai) <= ra * ra.
Proof. exact round_disc. Qed.
Print Assumptions C16_round_disc.

(* the extracted test used on every run: accepted => every point (every root) of the stored disc is
   in the accessor's disc *)
Theorem C16_acc_ok_sound :
  forall zmr zmi rm zar zai ra,
  acc_ok zmr zmi rm zar zai ra = true ->
  forall x y : R,
    (x - Q2R zmr) * (x - Q2R zmr) + (y - Q2R zmi) * (y - Q2R zmi) <= Q2R rm * Q2R rm ->
    (x - Q2R zar) * (x - Q2R zar) + (y - Q2R zai) * (y - Q2R zai) <= Q2R ra * Q2R ra.
Proof. exact acc_ok_sound. Qed.
Print Assumptions C16_acc_ok_sound.

(* ... and the certified negative: the accessor's disc misses the stored disc entirely *)
Theorem C16_acc_disjoint_sound :
  forall zmr zmi rm zar zai ra,
  acc_disjoint zmr zmi rm zar zai ra = true ->
  forall x y : R,
    (x - Q2R zmr) * (x - Q2R zmr) + (y - Q2R zmi) * (y - Q2R zmi) <= Q2R rm * Q2R rm ->
    ~ (x - Q2R zar) * (x - Q2R zar) + (y - Q2R zai) * (y - Q2R zai) <= Q2R ra * Q2R ra.
Proof. exact acc_disjoint_sound. Qed.
Print Assumptions C16_acc_disjoint_sound.

(* the formula of the repaired double-precision accessors (context.c) is large enough *)
Theorem C16_fixed_radius_sufficient :
  forall rm rd a m delta e dm dm1 dm2 racc : R,
  e = / 2 ^ 52 -> 0 <= dm1 -> 0 <= dm2 -> dm1 + dm2 <= dm -> 0 <= rm -> 0 <= a -> 0 <= rd ->
  rd + dm1 >= rm -> m >= a * (1 - 3 * e) ->
  delta <= 3 * e * a + dm2 ->
  racc >= (rd + 4 * e * m + dm) * (1 + 4 * e) * (1 - 3 * e / 2) ->
  rm + delta <= racc.
Proof. exact fixed_radius_sufficient. Qed.
Print Assumptions C16_fixed_radius_sufficient.
