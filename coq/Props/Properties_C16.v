(* C16 - every accessor hands out (value, radius) pairs that are still inclusions.
   Statements only; proofs in Access/AccessProps.v. *)
From Coq Require Import QArith Qreals Reals.
Require Import MPSV.Access.AccessModel MPSV.Access.AccessProps.
Local Open Scope R_scope.

(* rounding lemma: a root in the stored disc D(zm,rm) lies in the handed-out disc D(za,ra)
   as soon as |za - zm| <= ra - rm *)
Theorem C16_round_disc :
  forall x y zmr zmi rm zar zai ra : R,
  0 <= rm -> rm <= ra ->
  (zar - zmr) * (zar - zmr) + (zai - zmi) * (zai - zmi) <= (ra - rm) * (ra - rm) ->
  (x - zmr) * (x - zmr) + (y - zmi) * (y - zmi) <= rm * rm ->
  (x - zar) * (x - zar) + (y - zai) * (y - zai) <= ra * ra.
Proof. exact round_disc. Qed.
Print Assumptions C16_round_disc.

(* the extracted test used on every run: accepted => every point (every root) of the stored disc is
   in the accessor's disc *)
Theorem C16_acc_ok_sound :
  forall zmr zmi rm zar zai ra,
  acc_ok zmr zmi rm zar zai ra = true ->
  forall x y : R,
    (x - Q2R zmr) * (x - Q2R zmr) + (y - Q2R zmi) * (y - Q2R zmi) <= Q2R rm * Q2R rm ->
    (x - Q2R zar) * (x - Q2R zar) + (y - Q2R zai) * (y - Q2R zai) <= Q2R ra * Q2R ra.
Proof. exact acc_ok_sound. Qed.
Print Assumptions C16_acc_ok_sound.

(* ... and the certified negative: the accessor's disc misses the stored disc entirely *)
Theorem C16_acc_disjoint_sound :
  forall zmr zmi rm zar zai ra,
  acc_disjoint zmr zmi rm zar zai ra = true ->
  forall x y : R,
    (x - Q2R zmr) * (x - Q2R zmr) + (y - Q2R zmi) * (y - Q2R zmi) <= Q2R rm * Q2R rm ->
    ~ (x - Q2R zar) * (x - Q2R zar) + (y - Q2R zai) * (y - Q2R zai) <= Q2R ra * Q2R ra.
Proof. exact acc_disjoint_sound. Qed.
Print Assumptions C16_acc_disjoint_sound.

(* the formula of the repaired double-precision accessors (context.c) is large enough *)
Theorem C16_fixed_radius_sufficient :
  forall rm rd a m delta e dm dm1 dm2 racc : R,
  e = / 2 ^ 52 -> 0 <= dm1 -> 0 <= dm2 -> dm1 + dm2 <= dm -> 0 <= rm -> 0 <= a -> 0 <= rd ->
  rd + dm1 >= rm -> m >= a * (1 - 3 * e) ->
  delta <= 3 * e * a + dm2 ->
  racc >= (rd + 4 * e * m + dm) * (1 + 4 * e) * (1 - 3 * e / 2) ->
  rm + delta <= racc.
Proof. exact fixed_radius_sufficient. Qed.
Print Assumptions C16_fixed_radius_sufficient.

(* ====================================================================================================================
   The accessors AS CODED (Access/AccessCoded.v: executable model on Flocq binary64 and limb-aligned GMP floats, extracted to
   bin/access and compared bit for bit with the real functions on every run of the check; proofs in Access/AccessCodedProps.v).
   mpfR / rdpeR: real value of an mpf / a DPE number; rad_wf: normalised non-negative DPE radius; mpc_wf: both components
   hold at most precision+1 limbs (GMP's own invariant) at the same precision >= 2 limbs.
   ==================================================================================================================== *)
Require Import MPSV.Access.AccessCoded MPSV.Access.AccessCodedProps.
From Coq Require Import ZArith Lia Lra.
From Flocq Require Import Core BinarySingleNaN.
Local Open Scope R_scope.

(* 1. mps_context_get_roots_d, every phase, every stored state: float phase hands out the stored pair itself; after a dpe or
   mp phase, whenever the radius handed out is finite the value is finite, the radius is positive and the pair satisfies the
   premise of C16_round_disc against the stored pair (each double operation of the radius expression rounded to nearest,
   DBL_MIN term, ldexp with its clamp/underflow/overflow, truncation of mpf_get_d, cplx_mod as coded in mt.c). *)
Theorem C16_get_roots_d_inclusion :
  forall (ph : phase) (a : approx),
  state_wf ph a ->
  let v := get_roots_d_value ph a in
  let r := get_roots_d_radius ph a in
  match ph with
  | PhFloat => v = a_fvalue a /\ r = a_frad a
  | _ => is_finite r = true ->
         is_finite (fst v) = true /\ is_finite (snd v) = true /\ 0 < B2R r /\
         acc_premise (stored_re ph a) (stored_im ph a) (stored_rad ph a) (B2R (fst v)) (B2R (snd v)) (B2R r)
  end.
Proof. exact get_roots_d_inclusion. Qed.
Print Assumptions C16_get_roots_d_inclusion.

(* acc_premise is the hypothesis of C16_round_disc *)
Theorem C16_acc_premise_round_disc :
  forall zr zi rs ar ai ra x y : R,
  0 <= rs -> acc_premise zr zi rs ar ai ra ->
  (x - zr) * (x - zr) + (y - zi) * (y - zi) <= rs * rs ->
  (x - ar) * (x - ar) + (y - ai) * (y - ai) <= ra * ra.
Proof. intros zr zi rs ar ai ra x y H0 [H1 H2] H3. exact (round_disc x y zr zi rs ar ai ra H0 H1 H2 H3). Qed.
Print Assumptions C16_acc_premise_round_disc.

(* non-vacuity: an mp-phase state (value 2^64 + 1 + 3i on 128 bits, radius 2^-100) with a finite radius handed out *)
Definition c16_half : b64 := @B754_finite 53 1024 false 4503599627370496 (-53) eq_refl.
Definition c16_state : approx :=
  MkApprox (fzero, fzero) ((fzero, 0%Z), (fzero, 0%Z)) (MkMpf 3 (2 ^ 64 + 1) 0, MkMpf 3 3 0) fzero (c16_half, (-99)%Z) 128 0 0 0 true.
Example c16_state_nonvacuous :
  state_wf PhMp c16_state /\ mpc_wf (a_mvalue c16_state) /\ is_finite (get_roots_d_radius PhMp c16_state) = true.
Proof.
assert (H : B2R c16_half = / 2) by (unfold B2R, c16_half, F2R; simpl; lra).
split; [|split].
- unfold state_wf, rad_wf, rdpe_wf, c16_state. simpl fst. rewrite H, Rabs_pos_eq by lra.
  repeat split; try lra; try reflexivity.
- unfold mpc_wf, mpf_wf, c16_state; simpl. repeat split; try lia; vm_compute; discriminate.
- vm_compute. reflexivity.
Qed.

(* 2. the multiprecision accessors: mps_context_get_roots_m (library-allocated or the caller's variables of ANY precision),
   mps_approximation_get_mvalue: mpc_set_prec to the stored precision FIRST, then mpc_set: the stored value comes back bit for
   bit at the stored precision, with the stored radius: the handed-out pair IS the stored pair (enough bits: all of them). *)
Theorem C16_get_roots_m_exact :
  forall (a : approx) (caller : option mpc) (out : mpc),
  mpc_wf (a_mvalue a) ->
  get_roots_m a caller = (a_mvalue a, a_drad a) /\ approximation_get_mvalue a out = a_mvalue a.
Proof.
intros a caller out W. unfold get_roots_m, approximation_get_mvalue.
rewrite !(get_mvalue_into_exact _ _ W). split; reflexivity.
Qed.
Print Assumptions C16_get_roots_m_exact.
(* the well-formedness hypothesis is needed (precision field lowered below the size in use by mpc_set_prec_raw) *)
Example C16_get_roots_m_needs_wf :
  let m := (MkMpf 2 (2 ^ 192 + 1) 0, MkMpf 2 0 0) in
  mp_man (fst (get_mvalue_into (mpc_init2 64) m)) = (2 ^ 128)%Z /\ mp_exp (fst (get_mvalue_into (mpc_init2 64) m)) = 1%Z.
Proof. exact get_mvalue_into_needs_wf. Qed.

(* 3. mps_context_get_approximations / mps_approximation_copy: (mvalue, drad) of the copy is the stored multiprecision pair
   bit for bit whatever s->mpwp is; (fvalue, frad) satisfies the premise of the rounding lemma against it whenever frad is
   finite, and frad is never 0. *)
Theorem C16_get_approximation_inclusion :
  forall (mpwp : Z) (a : approx),
  mpc_wf (a_mvalue a) -> rad_wf (a_drad a) ->
  let g := get_approximation mpwp a in
  a_mvalue g = a_mvalue a /\ a_drad g = a_drad a /\
  (is_finite (a_frad g) = true ->
     is_finite (fst (a_fvalue g)) = true /\ is_finite (snd (a_fvalue g)) = true /\ 0 < B2R (a_frad g) /\
     acc_premise (mpfR (fst (a_mvalue a))) (mpfR (snd (a_mvalue a))) (rdpeR (a_drad a))
                 (B2R (fst (a_fvalue g))) (B2R (snd (a_fvalue g))) (B2R (a_frad g))).
Proof. exact get_approximation_inclusion. Qed.
Print Assumptions C16_get_approximation_inclusion.

Theorem C16_approximation_copy_fields :
  forall (mpwp : Z) (a : approx),
  mpc_wf (a_mvalue a) ->
  let c := approximation_copy mpwp a in
  a_mvalue c = a_mvalue a /\ a_drad c = a_drad a /\ a_frad c = a_frad a /\ a_fvalue c = a_fvalue a /\
  a_dvalue c = a_dvalue a /\ a_wp c = a_wp a /\ a_status c = a_status a /\ a_attrs c = a_attrs a /\ a_incl c = a_incl a /\
  a_again c = true.
Proof. exact approximation_copy_fields. Qed.
Print Assumptions C16_approximation_copy_fields.

(* ... but the (dvalue, drad) pair of mps_context_get_approximations is NOT an inclusion of the stored pair: dvalue keeps 53
   bits of mvalue and is handed out with the multiprecision radius.  The witness (mvalue = 2^64 + 1, drad = 0) is replayed on
   the real code by the check (known finding no-root-in-disc:get_approximations.dvalue+drad:mp). *)
Theorem C16_get_approximation_dvalue_refuted :
  exists a : approx,
    mpc_wf (a_mvalue a) /\ rad_wf (a_drad a) /\
    let g := get_approximation 128 a in
    ~ acc_premise (mpfR (fst (a_mvalue a))) (mpfR (snd (a_mvalue a))) (rdpeR (a_drad a))
                  (rdpeR (fst (a_dvalue g))) (rdpeR (snd (a_dvalue g))) (rdpeR (a_drad g)).
Proof. exact get_approximation_dvalue_refuted. Qed.
Print Assumptions C16_get_approximation_dvalue_refuted.

(* 4. mps_copy_roots / mps_restore_data: after mps_copy_roots the multiprecision pair (mvalue, drad) IS the pair of the last
   phase (exact conversions), at a well-formed precision; mps_restore_data (mpc_set_prec_raw to data_prec_max) changes no value
   and keeps the state well-formed as long as data_prec_max covers the limbs in use. *)
Theorem C16_copy_roots_float :
  forall a : approx,
  is_finite (fst (a_fvalue a)) = true -> is_finite (snd (a_fvalue a)) = true -> is_finite (a_frad a) = true ->
  let st := copy_roots PhFloat a in
  mpfR (fst (a_mvalue st)) = B2R (fst (a_fvalue a)) /\ mpfR (snd (a_mvalue st)) = B2R (snd (a_fvalue a)) /\
  rdpeR (a_drad st) = B2R (a_frad a) /\ rdpe_wf (a_drad st) /\ mpc_wf (a_mvalue st) /\
  a_fvalue st = a_fvalue a /\ a_frad st = a_frad a.
Proof. exact copy_roots_float. Qed.
Print Assumptions C16_copy_roots_float.

Theorem C16_copy_roots_dpe :
  forall a : approx,
  is_finite (fst (fst (a_dvalue a))) = true -> is_finite (fst (snd (a_dvalue a))) = true ->
  let st := copy_roots PhDpe a in
  mpfR (fst (a_mvalue st)) = rdpeR (fst (a_dvalue a)) /\ mpfR (snd (a_mvalue st)) = rdpeR (snd (a_dvalue a)) /\
  a_drad st = a_drad a /\ mpc_wf (a_mvalue st) /\ a_dvalue st = a_dvalue a.
Proof. exact copy_roots_dpe. Qed.
Print Assumptions C16_copy_roots_dpe.

Theorem C16_restore_data :
  forall (dpm : Z) (a : approx),
  (mpfR (fst (a_mvalue (restore_data dpm a))) = mpfR (fst (a_mvalue a)) /\
   mpfR (snd (a_mvalue (restore_data dpm a))) = mpfR (snd (a_mvalue a)) /\
   a_drad (restore_data dpm a) = a_drad a /\ a_fvalue (restore_data dpm a) = a_fvalue a /\
   a_dvalue (restore_data dpm a) = a_dvalue a /\ a_frad (restore_data dpm a) = a_frad a) /\
  (dpm <> 0%Z ->
   (limbs (mp_man (fst (a_mvalue a))) <= bits_to_prec dpm + 1)%Z ->
   (limbs (mp_man (snd (a_mvalue a))) <= bits_to_prec dpm + 1)%Z ->
   mpc_wf (a_mvalue (restore_data dpm a))).
Proof. intros dpm a. split; [exact (restore_data_value dpm a)|exact (restore_data_wf dpm a)]. Qed.
Print Assumptions C16_restore_data.

(* 5. end to end, for every phase and every stored pair of that phase (phase_ok: finite doubles / normalised DPE numbers /
   GMP-well-formed mpc, non-negative radius): after mps_copy_roots,
   - mps_context_get_roots_m (library-allocated or any caller storage) hands out exactly the stored pair;
   - mps_context_get_approximations hands out (mvalue, drad) = the stored pair and, when frad is finite, (fvalue, frad) finite,
     frad > 0 and satisfying the premise of the rounding lemma against the stored pair;
   - mps_context_get_roots_d, when its radius is finite, hands out a finite value satisfying the premise (radius > 0 after a
     dpe or mp phase; after the float phase the pair is the stored pair itself, so radius 0 only with the exact value). *)
Theorem C16_accessors_after_copy_roots :
  forall (ph : phase) (a : approx) (caller : option mpc) (mpwp : Z),
  phase_ok ph a ->
  let st := copy_roots ph a in
  let m := get_roots_m st caller in
  let g := get_approximation mpwp st in
  (mpfR (fst (fst m)) = stored_re ph a /\ mpfR (snd (fst m)) = stored_im ph a /\ rdpeR (snd m) = stored_rad ph a) /\
  (mpfR (fst (a_mvalue g)) = stored_re ph a /\ mpfR (snd (a_mvalue g)) = stored_im ph a /\ rdpeR (a_drad g) = stored_rad ph a) /\
  (is_finite (a_frad g) = true ->
     is_finite (fst (a_fvalue g)) = true /\ is_finite (snd (a_fvalue g)) = true /\ 0 < B2R (a_frad g) /\
     acc_premise (stored_re ph a) (stored_im ph a) (stored_rad ph a) (B2R (fst (a_fvalue g))) (B2R (snd (a_fvalue g))) (B2R (a_frad g))) /\
  (is_finite (get_roots_d_radius ph st) = true ->
     is_finite (fst (get_roots_d_value ph st)) = true /\ is_finite (snd (get_roots_d_value ph st)) = true /\
     (ph <> PhFloat -> 0 < B2R (get_roots_d_radius ph st)) /\
     acc_premise (stored_re ph a) (stored_im ph a) (stored_rad ph a)
                 (B2R (fst (get_roots_d_value ph st))) (B2R (snd (get_roots_d_value ph st))) (B2R (get_roots_d_radius ph st))).
Proof. exact accessors_after_copy_roots. Qed.
Print Assumptions C16_accessors_after_copy_roots.
Example c16_state_phase_ok : phase_ok PhMp c16_state.
Proof. destruct c16_state_nonvacuous as (A & B & _). split; [exact B|exact A]. Qed.

(* non-vacuity for the dpe phase: value 1 + i/8 (DPE), radius 2^-1100 (below the double range): well-formed, finite radius handed out *)
Definition c16_state_dpe : approx :=
  MkApprox (fzero, fzero) ((c16_half, 1%Z), (c16_half, (-2)%Z)) (MkMpf 2 0 0, MkMpf 2 0 0) fzero (c16_half, (-1099)%Z) 64 0 0 0 true.
Example c16_state_dpe_nonvacuous :
  phase_ok PhDpe c16_state_dpe /\ state_wf PhDpe c16_state_dpe /\ is_finite (get_roots_d_radius PhDpe c16_state_dpe) = true.
Proof.
assert (H : B2R c16_half = / 2) by (unfold B2R, c16_half, F2R; simpl; lra).
assert (W : rdpe_wf (c16_half, 1%Z) /\ rdpe_wf (c16_half, (-2)%Z) /\ rad_wf (c16_half, (-1099)%Z)).
{ unfold rad_wf, rdpe_wf. simpl fst. rewrite H, Rabs_pos_eq by lra. repeat split; try lra; try reflexivity. }
split; [exact W|split; [exact W|]].
vm_compute. reflexivity.
Qed.
