(* C20 -- Hessenberg determinants: statements only (proofs in coq/Hess/). *)
From mathcomp Require Import all_ssreflect all_algebra.
From mathcomp Require Import complex.
Require Import ZArith.
Require Import MPSV.Hess.HessModel MPSV.Hess.HessModelM MPSV.Hess.HessDet MPSV.Hess.HessScale MPSV.Hess.HessApriori
               MPSV.Hess.HessErrVec MPSV.Hess.HessGauss MPSV.Hess.HessTie MPSV.Hess.HessStd
               MPSV.Hess.HessMul3 MPSV.Hess.HessErrHead MPSV.Hess.HessModelF MPSV.Hess.HessRange
               MPSV.Hess.MpolyModel MPSV.Hess.MpolyList MPSV.Hess.MpolyDet.
Require MPSV.Hess.HessB64.

Set Implicit Arguments.
Unset Strict Implicit.
Unset Printing Implicit Defensive.
Import GRing.Theory Num.Theory.
Local Open Scope ring_scope.

(* The recurrence of mps_{f,m}hessenberg_shifted_determinant, in exact arithmetic over any
   commutative ring, on the row-major storage of an upper Hessenberg matrix of order n = m+1 >= 1,
   is the determinant of H - s.I  (no sign correction needed). *)
Theorem C20_hess_rec_is_det :
  forall (R : comRingType) (m : nat) (H : 'M[R]_m.+1) (Hl : seq R) (s : R),
    upper_hessenberg H -> row_major Hl H ->
    hess_rec (rops R) Hl m.+1 s = \det (H - s%:M).
Proof. exact: hess_rec_is_det. Qed.
Print Assumptions C20_hess_rec_is_det.

(* the hypotheses are satisfiable and the statement is not about an empty matrix *)
Example C20_hess_rec_is_det_nonvacuous :
  [/\ upper_hessenberg H3, row_major L3 H3, hess_rec (rops _) L3 3 1 = 176 & \det (H3 - 1%:M) = 176].
Proof. by case: H3_ok => uh rm; split=> //; rewrite ?H3_rec ?H3_det. Qed.

(* every matrix has a row-major storage *)
Example C20_row_major_exists :
  forall (R : comRingType) m (H : 'M[R]_m), row_major (rowmajor_of H) H.
Proof. exact: rowmajor_ofP. Qed.

(* Double variant: whatever exponents the rescaling step picks (policy [pol]: any function of
   the step number and the current vector), the returned pair (mantissa, exponent) satisfies
   mantissa * 2^exponent = determinant, in every field where 2 <> 0. *)
Theorem C20_scaling_invariant :
  forall (F : fieldType), (2%:R : F) != 0 ->
  forall (pol : nat -> seq F -> int) (m : nat) (H : 'M[F]_m.+1) (Hl : seq F) (s : F),
    upper_hessenberg H -> row_major Hl H ->
    let r := fhess_scaled (rops F) +%R (@fscale F) pol 0 Hl m.+1 s in
    r.1 * 2%:R ^ r.2 = \det (H - s%:M).
Proof. move=> F two pol m H Hl s; exact: fhess_scaled_is_det. Qed.
Print Assumptions C20_scaling_invariant.

(* The DPE variant as coded (cdpe_sub_eq (vec[n], shift)) does not compute det (H - s.I):
   witness n = 1, H = [1], s = 1 (replayed on the real code by checks/C20.py). *)
Theorem C20_dhess_index_refuted :
  exists (m : nat) (H : 'M[int]_m.+1) (Hl : seq int) (s : int),
    [/\ upper_hessenberg H, row_major Hl H
      & dhess_rec_coded (rops _) Hl m.+1 s <> \det (H - s%:M)].
Proof. exact: dhess_index_refuted. Qed.
Print Assumptions C20_dhess_index_refuted.

(* what it computes instead: the shift is missing on the last diagonal entry *)
Theorem C20_dhess_coded_is_det :
  forall (R : comRingType) (m : nat) (H : 'M[R]_m.+1) (Hl : seq R) (s : R),
    upper_hessenberg H -> row_major Hl H ->
    dhess_rec_coded (rops R) Hl m.+1 s = \det (dcoded_mx H s).
Proof. exact: dhess_coded_is_det. Qed.
Print Assumptions C20_dhess_coded_is_det.

(* with the index repaired (fixes/C20_dhess_index.patch) the DPE variant is the f recurrence *)
Theorem C20_dhess_fixed_is_det :
  forall (R : comRingType) (m : nat) (H : 'M[R]_m.+1) (Hl : seq R) (s : R),
    upper_hessenberg H -> row_major Hl H ->
    dhess_rec_fixed (rops R) Hl m.+1 s = \det (H - s%:M).
Proof. exact: dhess_fixed_is_det. Qed.
Print Assumptions C20_dhess_fixed_is_det.

(* A-priori rounding bound.  [M : round_model R F] packages a norm N : R -> F (N 0 = 0, N (-x) = N x,
   triangle inequality, submultiplicative) and rounded operations with
       N (fmul x y - x * y)   <= em * (N x * N y),      N (fsub x y - (x - y)) <= es * N (x - y).
   For every order n, every storage Hl (Hessenberg or not: the statement compares the rounded and the
   exact run of the same recurrence), every entrywise majorant Al of the moduli and sa >= N s:
       N (rounded - exact) <= (theta^(n-1) (1+es) - 1) * (recurrence on Al with + for -),
   theta = (1+es)^2 (1+em).  Together with C20_hess_rec_is_det the exact run is det (H - s.I).
   Not covered by the model: overflow/underflow, and the derivation of (em, es) for cplx_t / cdpe_t /
   mpc_t operations from the primitive roundings (that is C12/C13's subject). *)
Theorem C20_hess_apriori :
  forall (R : comRingType) (F : numDomainType) (M : round_model R F)
         (Hl : seq R) (Al : seq F) (n : nat) (s : R) (sa : F),
    (forall k, rm_N M (nth 0 Hl k) <= nth 0 Al k) -> rm_N M s <= sa ->
    rm_N M (hess_rec (flops M) Hl n s - hess_rec (rops R) Hl n s)
    <= (theta M ^+ n.-1 * (1 + rm_es M) - 1) * hess_rec (aops F) Al n sa.
Proof. exact: hess_apriori. Qed.
Print Assumptions C20_hess_apriori.

Corollary C20_hess_apriori_det :
  forall (R : comRingType) (F : numDomainType) (M : round_model R F)
         (m : nat) (H : 'M[R]_m.+1) (Hl : seq R) (Al : seq F) (s : R) (sa : F),
    upper_hessenberg H -> row_major Hl H ->
    (forall k, rm_N M (nth 0 Hl k) <= nth 0 Al k) -> rm_N M s <= sa ->
    rm_N M (hess_rec (flops M) Hl m.+1 s - \det (H - s%:M))
    <= (theta M ^+ m * (1 + rm_es M) - 1) * hess_rec (aops F) Al m.+1 sa.
Proof.
by move=> R F M m H Hl Al s sa uh rm hA hs; rewrite -(hess_rec_is_det s uh rm); exact: hess_apriori.
Qed.
Print Assumptions C20_hess_apriori_det.

(* a rounding model whose operations do round (relative error 1) exists, and on the 3 x 3 example the
   rounded value 13392 is within 127 * 2398 of the exact 176 *)
Example C20_hess_apriori_nonvacuous :
  (hess_rec (flops toy_model) L3 3 1 = 13392) * (hess_rec (rops _) L3 3 1 = 176)
  * (hess_rec (aops _) L3 3 1 = 2398) * (theta toy_model ^+ 2 * (1 + 1) - 1 = 127).
Proof. exact: toy_values. Qed.

(* the bound B dominates the modulus of the exact value (so it is the natural scale of the error) *)
Theorem C20_hess_bound_dominates :
  forall (R : comRingType) (F : numDomainType) (M : round_model R F)
         (h : nat -> nat -> R) (a : nat -> nat -> F) (n : nat) (s : R) (sa : F),
    (forall i j, rm_N M (h i j) <= a i j) -> rm_N M s <= sa ->
    rm_N M (hess_rec_acc (rops R) h n s) <= hess_rec_acc (aops F) a n sa.
Proof. move=> R F M h a n s sa ha hs; exact: hess_bound_dominates. Qed.
Print Assumptions C20_hess_bound_dominates.

(* The extracted oracle of the correspondence check (ocaml/hess.ml: hess_det_gauss, list of rows of
   Gaussian integers over stdlib Z) computes the determinant in the ring of Gaussian integers. *)
Theorem C20_oracle_is_det :
  forall (m : nat) (H : 'M[GI_comRingType]_m.+1) (rows : seq (seq GI)) (s : GI),
    upper_hessenberg H -> rows_of rows H ->
    hess_det_gauss rows m.+1 s = \det (H - s%:M).
Proof. exact: hess_det_gauss_is_det. Qed.
Print Assumptions C20_oracle_is_det.

Theorem C20_oracle_dcoded_is_det :
  forall (m : nat) (H : 'M[GI_comRingType]_m.+1) (rows : seq (seq GI)) (s : GI),
    upper_hessenberg H -> rows_of rows H ->
    dhess_coded_gauss rows m.+1 s = \det (dcoded_mx H s).
Proof. exact: dhess_coded_gauss_is_det. Qed.
Print Assumptions C20_oracle_dcoded_is_det.

Example C20_oracle_nonvacuous : hess_det_gauss R3 3 (1, 1)%Z = (155, -167)%Z.
Proof. exact: R3_det. Qed.

(* the integer majorant of |z| 2^k used for B is an upper bound *)
Theorem C20_modup_sound :
  forall (k : Z) (z : GI), (0 <= k)%Z ->
    ((fst z * fst z + snd z * snd z) * 4 ^ k <= modup k z * modup k z)%Z.
Proof. exact: modup_sound. Qed.
Print Assumptions C20_modup_sound.

(* [Historical: the function BEFORE the fix 36ad797a (no initial error vector); the function as it is at HEAD is
   covered by C20_mhess_head_error_sound below, without the exactness hypotheses.]
   Multiprecision variant: the returned error bound (error vector `verrors` as coded, HessModel.mhess_rec)
   dominates the distance between the computed value and the exact recurrence, in the same rounding
   model.  PARTIAL: (1) the bound arithmetic, done with rounded rdpe_t operations in the code, is idealised
   as exact arithmetic in F; (2) the hypotheses em <= eps, es <= eps (1 - es) relate the code's
   eps = 2^(1-wp) to the rounding constants of mpc_mul / mpc_sub and are not derived from GMP's mpf
   semantics here; (3) the shifted diagonal H[i,i] - s is assumed to be formed exactly: the code rounds it
   (mpc_sub into a wp-bit copy) and starts from verrors = 0, so that rounding is NOT covered by the
   returned bound (for n = 1 the bound returned is 0) -- harmless for moderate entries, where the
   difference is exact in the >= wp+64 bits an mpf carries.  That the model error vector is the one the
   code computes is checked numerically by checks/C20.py (agreement to 1e-6 on every m call).
   Precisions: the inputs Hl, s are exact ring elements (whatever precision they are stored at); the
   WORKING precision is the one of the operations in M, and eps is the unit the error vector is built
   with (2^(1-wp), wp = the output's precision).  The hypotheses em <= eps, es <= eps (1 - es) say
   that the working copy must be at least as precise as eps claims: allocating the working matrix at the
   (lower) precision of the input while keeping eps = 2^(1-wp_output) falsifies them, and the check calls
   the m variants with matrix / shift / output at different precisions to notice exactly that. *)
Theorem C20_mhess_error_sound_partial :
  forall (R : comRingType) (F : numDomainType) (M : round_model R F) (eps : F)
         (Hl : seq R) (n : nat) (s : R),
    0 <= eps -> rm_em M <= eps -> rm_es M <= eps * (1 - rm_es M) ->
    (forall i, rm_fsub M (elem (rops R) Hl n i i) s = elem (rops R) Hl n i i - s) ->
    let r := @mhess_rec R F (flops M) +%R *%R 0 eps (rm_N M) Hl n s in
    r.1 = hess_rec (flops M) Hl n s /\
    rm_N M (r.1 - hess_rec (rops R) Hl n s) <= r.2.
Proof. exact: mhess_error_sound. Qed.
Print Assumptions C20_mhess_error_sound_partial.

(* satisfiable: exact subtraction, products off by a factor 2 (em = 1, es = 0, eps = 1); the model returns
   (704, 3311) on the 3 x 3 example whose exact value is 176 *)
Example C20_mhess_error_nonvacuous :
  @mhess_rec int int (flops toy_model2) +%R *%R 0 1 (fun x => `|x|) L3e 3 1 = (704, 3311).
Proof. exact: toy2_values. Qed.

(* ---- explicit constants ------------------------------------------------------------------------
   R any real closed field, rnd : R -> R any rounding obeying the standard model |rnd t - t| <= u |t|
   (binary64: u = 2^-53, see C20_binary64_standard_model; rdpe_t: u = 2^-52; no underflow/overflow).
   Complex numbers are (re, im) pairs, N = complex modulus, and the operations are those of mt.c:
       cfsub x y = (rnd (a - c), rnd (b - d))
       cfmul x y = (rnd (rnd (a c) - rnd (b d)), rnd (rnd (a d) + rnd (b c)))   (cplx_mul, cdpe_mul)
   They form a round_model with es = u, em = 3/2 ((1+u)^2 - 1) (HessStd.std_model: the normwise constants
   are DERIVED, not assumed), hence for the recurrence of the f and d variants, order n = m+1:
       |computed - det-recurrence| <= ((1+u)^(5 n) - 1) * B <= 5 n u / (1 - 5 n u) * B,
   i.e. exactly gamma(C n, u) * B with C = 5, the predicate evaluated by checks/C20.py (C_F = C_D = 5).
   Still assumed: the standard model itself for each primitive (binary64: proved below from Flocq for the
   normal range, in stdlib Reals, not linked to the abstract rcfType; rdpe_t: C12), exactness of the
   power-of-two rescaling (C20_scaling_invariant treats it in exact arithmetic). *)
Theorem C20_fhess_apriori_explicit :
  forall (R : rcfType) (u : R) (rnd : R -> R) (u_ge0 : 0 <= u)
         (rnd_err : forall t, `|rnd t - t| <= u * `|t|)
         (Hl Al : seq R[i]) (m : nat) (s sa : R[i]),
    (forall k, `|nth 0 Hl k| <= nth 0 Al k) -> `|s| <= sa ->
    `|hess_rec (flops (std_model u_ge0 rnd_err)) Hl m.+1 s - hess_rec (rops _) Hl m.+1 s|
    <= (((1 + u) ^+ (5 * m.+1) - 1)%:C)%C * hess_rec (aops _) Al m.+1 sa.
Proof. move=> R u rnd u0 re Hl Al m s sa; exact: fhess_apriori_std. Qed.
Print Assumptions C20_fhess_apriori_explicit.

Theorem C20_fhess_apriori_gamma :
  forall (R : rcfType) (u : R) (rnd : R -> R) (u_ge0 : 0 <= u)
         (rnd_err : forall t, `|rnd t - t| <= u * `|t|)
         (Hl Al : seq R[i]) (m : nat) (s sa : R[i]),
    (5 * m.+1)%:R * u < 1 ->
    (forall k, `|nth 0 Hl k| <= nth 0 Al k) -> `|s| <= sa ->
    `|hess_rec (flops (std_model u_ge0 rnd_err)) Hl m.+1 s - hess_rec (rops _) Hl m.+1 s|
    <= (((5 * m.+1)%:R * u / (1 - (5 * m.+1)%:R * u))%:C)%C * hess_rec (aops _) Al m.+1 sa.
Proof. move=> R u rnd u0 re Hl Al m s sa; exact: fhess_apriori_gamma. Qed.
Print Assumptions C20_fhess_apriori_gamma.

(* the rounded product really is the 4-multiplication formula on components *)
Example C20_cfmul_unfold :
  forall (R : rcfType) (rnd : R -> R) (a b c d : R),
    cfmul rnd (a +i* b)%C (c +i* d)%C
    = (rnd (rnd (a * c) - rnd (b * d)) +i* rnd (rnd (a * d) + rnd (b * c)))%C.
Proof. by []. Qed.

(* Any rounding model with es <= u and em <= (1+u)^k - 1 (k = 3 above).  For the m variant: mpc_sub is
   componentwise (es = u) and mpc_mul uses the 3-multiplication product ((a-b)(c+d) - ad + bc, ad + bc);
   a pen-and-paper analysis gives em <= (1+u)^14 - 1, i.e. k = 14 and C = 16 (C_M of checks/C20.py) with
   u = 2^(1-wp).  That value of k is NOT derived in Coq: it enters as the hypothesis em_u. *)
Theorem C20_hess_apriori_pow :
  forall (R : comRingType) (F : numDomainType) (M : round_model R F) (u : F) (k : nat),
    0 <= u -> rm_es M <= u -> rm_em M <= (1 + u) ^+ k - 1 ->
  forall (Hl : seq R) (Al : seq F) (m : nat) (s : R) (sa : F),
    (forall j, rm_N M (nth 0 Hl j) <= nth 0 Al j) -> rm_N M s <= sa ->
    rm_N M (hess_rec (flops M) Hl m.+1 s - hess_rec (rops R) Hl m.+1 s)
    <= ((1 + u) ^+ ((k + 2) * m.+1) - 1) * hess_rec (aops F) Al m.+1 sa.
Proof. move=> R F M u k u0 es em Hl Al m s sa; exact: hess_apriori_pow. Qed.
Print Assumptions C20_hess_apriori_pow.

(* binary64 round-to-nearest-even satisfies the standard model with u = 2^-53 on the normal range
   (Flocq; statement: forall x, 2^-1022 <= |x| -> |round_FLT(-1074,53),RNE x - x| <= 2^-53 |x|) *)
Theorem C20_binary64_standard_model : HessB64.b64_standard_model_stmt.
Proof. exact: HessB64.b64_standard_model. Qed.
Print Assumptions C20_binary64_standard_model.

(* ---- mpc_mul: the constant of the m variant DERIVED ----------------------------------------------------
   mpc_mul (mpc.c) is the 3-multiplication sequence s1 = a-b; s2 = c+d; s1 = s1*s2; s2 = a*d; s3 = b*c;
   Re = (s1 - s2) + s3; Im = s2 + s3, every mpf operation rounded by [rnd].  Under the TRUNCATING standard model
   of GMP's mpf (|rnd t - t| <= u |t| and |rnd t| <= |t|; no exponent overflow) the normwise error is at most
   14 u |x| |y|.  (Componentwise: Re within u (5 |a-b||c+d| + 3 |ad| + 2 |bc|), Im within 2 u (|ad| + |bc|).) *)
Theorem C20_mpc_mul3_err :
  forall (R : rcfType) (u : R) (rnd : R -> R),
    0 <= u -> (forall t, `|rnd t - t| <= u * `|t|) -> (forall t, `|rnd t| <= `|t|) ->
  forall x y : R[i], `|mpc_fmul rnd x y - x * y| <= ((14%:R * u)%:C)%C * (`|x| * `|y|).
Proof. move=> R u rnd u0 re rl x y; exact: mpc_fmul_err. Qed.
Print Assumptions C20_mpc_mul3_err.

Example C20_mpc_fmul_unfold :
  forall (R : rcfType) (rnd : R -> R) (a b c d : R),
    mpc_fmul rnd (a +i* b)%C (c +i* d)%C
    = (rnd (rnd (rnd (rnd (a - b) * rnd (c + d)) - rnd (a * d)) + rnd (b * c)) +i* rnd (rnd (a * d) + rnd (b * c)))%C.
Proof. by []. Qed.

(* hence the a-priori bound of the m variant with C = 16 = 14 + 2 (C_M of checks/C20.py), no assumed constant:
   [mpc_model] = (componentwise rounded mpc_sub, mpc_fmul) is a round_model with es = u, em = 14 u *)
Theorem C20_mhess_apriori_mul3 :
  forall (R : rcfType) (u : R) (rnd : R -> R) (u_ge0 : 0 <= u)
         (rnd_err : forall t, `|rnd t - t| <= u * `|t|) (rnd_le : forall t, `|rnd t| <= `|t|)
         (Hl Al : seq R[i]) (m : nat) (s sa : R[i]),
    (forall k, `|nth 0 Hl k| <= nth 0 Al k) -> `|s| <= sa ->
    `|hess_rec (flops (mpc_model u_ge0 rnd_err rnd_le)) Hl m.+1 s - hess_rec (rops _) Hl m.+1 s|
    <= (((1 + u) ^+ (16 * m.+1) - 1)%:C)%C * hess_rec (aops _) Al m.+1 sa.
Proof. move=> R u rnd u0 re rl Hl Al m s sa; exact: mhess_apriori_mul3. Qed.
Print Assumptions C20_mhess_apriori_mul3.

(* ---- m variant AT HEAD: the returned error bound dominates the true error, every order -------------------
   Model: HessModelM.mhess_head = the function as it is now:
     matrix[i][j] = (i == j && !mpc_eq_zero (shift)) ? mpc_sub (H[i][j], shift) : mpc_set (H[i][j])   (ROUNDED copy)
     verrors[i] = mpc_rmod (matrix[i][n-1]) * eps                                                     (initial vector)
     the loop with its error vector, the bound arithmetic eadd / emul / nrm (rdpe_add, rdpe_mul, mpc_rmod) ROUNDED:
     each operation is only assumed to return at least q times the exact value (0 <= q <= 1).
   M is the rounding model of mpc_sub / mpc_mul (C20_mpc_mul3_err: es = u, em = 14 u), fset = mpc_set with the
   same relative error es; the inputs Hl, s are arbitrary ring elements (NOT assumed representable at wp bits).
   Hypotheses relating the mpf unit roundoff to eps = 2^(1-wp):
       es <= kap (1 - es)      kap = rounding error relative to the COMPUTED value
       p (1 + kap) <= q^7      p = what one pass of the loop may lose (7 bound operations deep, drift q each)
       em + kap <= p^n eps     the slack between u (GMP keeps a guard limb: u ~ 2^-(wp+63)) and eps pays for the drift
   With u = eps the last one fails (one eps per product against em = 14 u): the statement is about GMP's actual
   precision, which is what the code relies on.  Not covered: exponent overflow of mpf / rdpe, and the standard
   models themselves (C12 / C13). *)
Theorem C20_mhess_head_error_sound :
  forall (R : comRingType) (F : numDomainType) (M : round_model R F)
         (fset : R -> R) (is0 : R -> bool) (eadd emul : F -> F -> F) (nrm : R -> F) (eps kap q p : F)
         (Hl : seq R) (m : nat) (s : R),
    (forall x, rm_N M (fset x - x) <= rm_es M * rm_N M x) ->
    (forall z, is0 z -> z = 0) ->
    0 <= eps -> 0 <= kap -> 0 <= q -> q <= 1 -> 0 <= p ->
    (forall x y, 0 <= x -> 0 <= y -> q * (x + y) <= eadd x y) ->
    (forall x y, 0 <= x -> 0 <= y -> q * (x * y) <= emul x y) ->
    (forall z, q * rm_N M z <= nrm z) ->
    rm_es M <= kap * (1 - rm_es M) ->
    p * (1 + kap) <= q ^+ 7 ->
    rm_em M + kap <= p ^+ m.+1 * eps ->
    let r := @mhess_head R F (flops M) fset is0 eadd emul 0 eps nrm Hl m.+1 s in
    rm_N M (r.1 - hess_rec (rops R) Hl m.+1 s) <= r.2.
Proof. exact: mhess_head_sound. Qed.
Print Assumptions C20_mhess_head_error_sound.

(* explicit drift: every bound operation returns at least (1 - d) times the exact value (rdpe_t: d = 2^-49 is
   ample), kap <= d, 8 n d <= 1 (n <= 2^46) and em + kap <= (1 - 8 n d) eps; against the determinant *)
Theorem C20_mhess_head_error_det :
  forall (R : comRingType) (F : numDomainType) (M : round_model R F)
         (fset : R -> R) (is0 : R -> bool) (eadd emul : F -> F -> F) (nrm : R -> F) (eps kap d : F)
         (m : nat) (H : 'M[R]_m.+1) (Hl : seq R) (s : R),
    upper_hessenberg H -> row_major Hl H ->
    (forall x, rm_N M (fset x - x) <= rm_es M * rm_N M x) ->
    (forall z, is0 z -> z = 0) ->
    0 <= eps -> 0 <= kap -> kap <= d -> 8%:R * m.+1%:R * d <= 1 ->
    (forall x y, 0 <= x -> 0 <= y -> (1 - d) * (x + y) <= eadd x y) ->
    (forall x y, 0 <= x -> 0 <= y -> (1 - d) * (x * y) <= emul x y) ->
    (forall z, (1 - d) * rm_N M z <= nrm z) ->
    rm_es M <= kap * (1 - rm_es M) ->
    rm_em M + kap <= (1 - 8%:R * m.+1%:R * d) * eps ->
    let r := @mhess_head R F (flops M) fset is0 eadd emul 0 eps nrm Hl m.+1 s in
    rm_N M (r.1 - \det (H - s%:M)) <= r.2.
Proof.
move=> R F M fset is0 eadd emul nrm eps kap d m H Hl s uh rm; rewrite -(hess_rec_is_det s uh rm).
exact: mhess_head_sound_delta.
Qed.
Print Assumptions C20_mhess_head_error_det.

(* satisfiable, and both branches of the copy run: exact copy / subtraction, products off by a factor 2
   (em = 1, es = 0, eps = 1, kap = 0, q = p = 1): shift 1 gives (704, 4877) for the exact value 176, shift 0
   (the mpc_set branch on the diagonal) gives (688, 5682) for the exact value 172 *)
Example C20_mhess_head_nonvacuous :
  (@mhess_head int int (flops toy_model2) id (fun z => z == 0) +%R *%R 0 1 (fun x => `|x|) L3h 3 1 = (704, 4877))
  * (hess_rec (rops _) L3h 3 1 = 176)
  * (@mhess_head int int (flops toy_model2) id (fun z => z == 0) +%R *%R 0 1 (fun x => `|x|) L3h 3 0 = (688, 5682))
  * (hess_rec (rops _) L3h 3 0 = 172).
Proof. exact: toy_head_values. Qed.

(* ---- double variant: the loop WITH its rescaling test (HessModelF.fhess_code: `if (i % 50 == 0)`, i.e. after
   the passes l = 1, 51, 101, ...; [ex vec] = the exponent frexp delivers for the largest modulus; off the
   period the vector is not touched) --------------------------------------------------------------------------
   In exact arithmetic the returned pair still denotes the determinant, whatever [ex] is. *)
Theorem C20_fhess_code_is_det :
  forall (F : fieldType), (2%:R : F) != 0 ->
  forall (ex : seq F -> int) (m : nat) (H : 'M[F]_m.+1) (Hl : seq F) (s : F),
    upper_hessenberg H -> row_major Hl H ->
    let r := @fhess_code F (rops F) int +%R (@fscale F) ex 0 Hl m.+1 s in
    r.1 * 2%:R ^ r.2 = \det (H - s%:M).
Proof. move=> F two ex m H Hl s; exact: fhess_code_is_det. Qed.
Print Assumptions C20_fhess_code_is_det.

(* Every order n: with rounded operations (any round_model; no underflow/overflow in the model), A >= the moduli
   of the entries and of the computed H[i][i] - shift, G >= max (1, (1+es)(1+em) 2A) the growth of one pass,
   rho >= the moduli after a rescaling and Emax >= |frexp exponent| (the specification of frexp / pow / the
   exact division by a power of two: rho = 1 + a few ulps, Emax = 1074 for finite doubles), V >= max (A, rho):
   EVERY state (vector, accumulated exponent) the loop holds -- after the arithmetic of a pass and after its
   rescaling test, [fhess_code_tr] lists them all -- has all moduli <= V * G^50 (period 50 against growth G per
   pass) and |accumulated exponent| <= Emax * (n-1), far inside a long.  So with 2A(1+es)(1+em) <= 2^10 the
   doubles held stay below V * 2^500: no overflow.  Underflow is NOT excluded (entries far below the largest
   one may be flushed by the division). *)
Theorem C20_fhess_range :
  forall (R : comRingType) (F : numDomainType) (M : round_model R F)
         (scale : int -> R -> R) (ex : seq R -> int) (Hl : seq R) (n : nat) (s : R)
         (A G V rho : F) (Emax : int),
    (forall k, rm_N M (nth 0 Hl k) <= A) -> (forall k, rm_N M (rm_fsub M (nth 0 Hl k) s) <= A) ->
    1 <= G -> (1 + rm_es M) * (1 + rm_em M) * (A + A) <= G ->
    rho <= V -> A <= V ->
    (forall v, all (fun x => rm_N M (scale (ex v) x) <= rho) v) ->
    (forall v, `|ex v| <= Emax) ->
    forall st, st \in @fhess_code_tr R (flops M) int +%R scale ex 0 Hl n s ->
      all (fun x => rm_N M x <= V * G ^+ 50) st.1 && (`|st.2| <= Emax *+ n.-1).
Proof. move=> R F M scale ex Hl n s A G V rho Emax h1 h2 h3 h4 h5 h6 h7 h8 st; exact: (fhess_range h1 h2 h3 h4 h5 h6 h7 h8). Qed.
Print Assumptions C20_fhess_range.

(* for n >= 2 the returned mantissa comes out of a rescaling (the last pass, l = 1, always rescales) *)
Theorem C20_fhess_mantissa :
  forall (R : comRingType) (F : numDomainType) (M : round_model R F)
         (scale : int -> R -> R) (ex : seq R -> int) (Hl : seq R) (s : R) (rho : F) (m : nat),
    0 <= rho -> (forall v, all (fun x => rm_N M (scale (ex v) x) <= rho) v) ->
    rm_N M (@fhess_code R (flops M) int +%R scale ex 0 Hl m.+2 s).1 <= rho.
Proof. move=> R F M scale ex Hl s rho m r0 hs; exact: (@fhess_mantissa R F M scale ex Hl m.+2 s rho r0 hs m). Qed.
Print Assumptions C20_fhess_mantissa.

(* the hypotheses on (scale, ex) are jointly satisfiable with operations that round (a rescaling that flushes
   to zero: rho = 0, Emax = 1); the result of the model on the 3 x 3 example is then (0, 1) *)
Example C20_fhess_range_nonvacuous :
  [/\ forall v, all (fun x : int => `|toy_scale (toy_ex v) x| <= 0) v, forall v, `|toy_ex v| <= 1
     & @fhess_code int (flops toy_model) int +%R toy_scale toy_ex 0 [:: 2; 3; 5; 7; 11; 13; 0; 17; 19] 3 1 = (0, 1)].
Proof. split; [exact: toy_ex_scale | exact: toy_ex_range | exact: toy_range_value]. Qed.

(* ---- matrix polynomial (src/libmps/monomial/monomial-matrix-poly.c) ---------------------------------------
   Model MpolyModel.v: the two stores P (doubles, NOT initialised by _new) and mP (multiprecision), the call
   set_coefficient_d (guard, memmove into block i of P, refresh of the FIRST block of mP from the first block of
   P) and meval = mps_mhessenberg_shifted_determinant (mP, x, m).
   After ANY non-empty sequence of accepted set_coefficient_d calls (any guard [bound]: as coded or fixed),
   whatever the stores held before, what meval computes in exact arithmetic is det (P_0 - x.I), P_0 = the
   first m x m block of P (= the last matrix stored with index 0, or what malloc left there:
   C20_mpoly_block0), provided that block is upper Hessenberg.  The rounding side is C20_mhess_head_error_det. *)
Theorem C20_mpoly_meval_is_det :
  forall (R : comRingType) (deg m' : nat) (s0 s' : mstore R) (calls : seq (nat * seq R)) (x : R) (bound : nat),
    let m := m'.+1 in
    @wf R deg m s0 -> @mats_ok R m calls -> calls <> [::] ->
    run_calls (set_coeff_with bound deg m) s0 calls = Some s' ->
    upper_hessenberg (coeff_mx m (st_P s') 0) ->
    mpoly_meval_exact m s' x = \det (coeff_mx m (st_P s') 0 - x%:M).
Proof. move=> R deg m' s0 s' calls x bound; exact: mpoly_meval_is_det. Qed.
Print Assumptions C20_mpoly_meval_is_det.

Theorem C20_mpoly_block0 :
  forall (A : Type) (deg m bound : nat) (s s' : mstore A) (calls : list (nat * list A)),
    (1 <= m)%coq_nat -> @wf A deg m s -> @mats_ok A m calls ->
    run_calls (set_coeff_with bound deg m) s calls = Some s' ->
    List.firstn (m * m)%coq_nat (st_P s') = block0 (List.firstn (m * m)%coq_nat (st_P s)) calls.
Proof. move=> A deg m bound s s' calls; exact: run_calls_block0. Qed.
Print Assumptions C20_mpoly_block0.

(* non-vacuity: degree 1, m = 2, garbage 9 everywhere, calls (1, [1 2; 3 4]) then (0, [5 6; 7 8]) *)
Example C20_mpoly_nonvacuous :
  run_calls (set_coefficient_d_coded 1 2) (MStore (nseq 8 9) (nseq 8 0)) [:: (1%nat, [:: 1; 2; 3; 4]); (0%nat, [:: 5; 6; 7; 8])]
  = Some (MStore [:: 5; 6; 7; 8; 1; 2; 3; 4] [:: 5; 6; 7; 8; 0; 0; 0; 0] : mstore int).
Proof. by []. Qed.

(* REFUTED: "an index the guard accepts stays inside the coefficient array".  As coded the guard compares i with
   the degree of the scalar polynomial (degree * m): m = 2, degree 1, i = 2 is accepted and the memmove writes the
   entries 8..11 of an array of 8 (replayed through the public API under ASan by checks/C20.py:
   heap-buffer-overflow; fixes/C20_mpoly_coefficient_index.patch). *)
Theorem C20_mpoly_set_coeff_guard_refuted :
  exists (deg m i : nat) (s : mstore int) (mat : seq int),
    [/\ (1 <= m)%nat, @wf int deg m s, size mat = (m * m)%nat
      & set_coefficient_d_coded deg m s i mat = SetOverflow].
Proof. exact: mpoly_set_coeff_guard_refuted. Qed.
Print Assumptions C20_mpoly_set_coeff_guard_refuted.

(* with the guard of the fix (i > mpoly->degree) the memmove never leaves the array, and on the indices of the
   matrix polynomial nothing changes *)
Theorem C20_mpoly_fixed_guard_safe :
  forall (A : Type) (deg m : nat) (s : mstore A) (i : nat) (mat : list A),
    set_coefficient_d_fixed deg m s i mat <> SetOverflow /\
    ((i <= deg)%coq_nat -> (1 <= m)%coq_nat -> set_coefficient_d_coded deg m s i mat = set_coefficient_d_fixed deg m s i mat).
Proof. move=> A deg m s i mat; split; [exact: fixed_never_overflows | exact: coded_fixed_agree]. Qed.
Print Assumptions C20_mpoly_fixed_guard_safe.

(* REFUTED: the documented meaning "value = det (P (x))".  P (x) = [1] + [1] x at x = 1: the function's value is
   det (P_0 - x) = 0, det (P (1)) = 2: the coefficients of degree >= 1 are never read (replayed by checks/C20.py). *)
Theorem C20_mpoly_meval_not_matrix_polynomial_refuted :
  exists (deg m : nat) (s0 s' : mstore int) (calls : seq (nat * seq int)) (x : int),
    [/\ @wf int deg m s0, @mats_ok int m calls,
        run_calls (set_coefficient_d_coded deg m) s0 calls = Some s'
      & mpoly_meval_exact m s' x <> \det (\sum_(k < deg.+1) x ^+ k *: coeff_mx m (st_P s') k)].
Proof. exact: mpoly_meval_not_matrix_polynomial_refuted. Qed.
Print Assumptions C20_mpoly_meval_not_matrix_polynomial_refuted.
