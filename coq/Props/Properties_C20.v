(* C20 -- Hessenberg determinants: statements only (proofs in coq/Hess/). *)
From mathcomp Require Import all_ssreflect all_algebra.
From mathcomp Require Import complex.
Require Import ZArith.
Require Import MPSV.Hess.HessModel MPSV.Hess.HessDet MPSV.Hess.HessScale MPSV.Hess.HessApriori
               MPSV.Hess.HessErrVec MPSV.Hess.HessGauss MPSV.Hess.HessTie MPSV.Hess.HessStd.
Require MPSV.Hess.HessB64.

Set Implicit Arguments.
Unset Strict Implicit.
Unset Printing Implicit Defensive.
Import GRing.Theory Num.Theory.
Local Open Scope ring_scope.

(* The recurrence of mps_{f,m}hessenberg_shifted_determinant, in exact arithmetic over any
   commutative ring, on the row-major storage of an upper Hessenberg matrix of order n = m+1 >= 1,
   is the determinant of H - s.I  (no sign correction needed). *)
Theorem C20_hess_rec_is_det :
  forall (R : comRingType) (m : nat) (H : 'M[R]_m.+1) (Hl : seq R) (s : R),
    upper_hessenberg H -> row_major Hl H ->
    hess_rec (rops R) Hl m.+1 s = \det (H - s%:M).
Proof. exact: hess_rec_is_det. Qed.
Print Assumptions C20_hess_rec_is_det.

(* the hypotheses are satisfiable and the statement is not about an empty matrix *)
Example C20_hess_rec_is_det_nonvacuous :
  [/\ upper_hessenberg H3, row_major L3 H3, hess_rec (rops _) L3 3 1 = 176 & \det (H3 - 1%:M) = 176].
Proof. by case: H3_ok => uh rm; split=> //; rewrite ?H3_rec ?H3_det. Qed.

(* every matrix has a row-major storage *)
Example C20_row_major_exists :
  forall (R : comRingType) m (H : 'M[R]_m), row_major (rowmajor_of H) H.
Proof. exact: rowmajor_ofP. Qed.

(* Double variant: whatever exponents the rescaling step picks (policy [pol]: any function of
   the step number and the current vector), the returned pair (mantissa, exponent) satisfies
   mantissa * 2^exponent = determinant, in every field where 2 <> 0. *)
Theorem C20_scaling_invariant :
  forall (F : fieldType), (2%:R : F) != 0 ->
  forall (pol : nat -> seq F -> int) (m : nat) (H : 'M[F]_m.+1) (Hl : seq F) (s : F),
    upper_hessenberg H -> row_major Hl H ->
    let r := fhess_scaled (rops F) +%R (@fscale F) pol 0 Hl m.+1 s in
    r.1 * 2%:R ^ r.2 = \det (H - s%:M).
Proof. move=> F two pol m H Hl s; exact: fhess_scaled_is_det. Qed.
Print Assumptions C20_scaling_invariant.

(* The DPE variant as coded (cdpe_sub_eq (vec[n], shift)) does not compute det (H - s.I):
   witness n = 1, H = [1], s = 1 (replayed on the real code by checks/C20.py). *)
Theorem C20_dhess_index_refuted :
  exists (m : nat) (H : 'M[int]_m.+1) (Hl : seq int) (s : int),
    [/\ upper_hessenberg H, row_major Hl H
      & dhess_rec_coded (rops _) Hl m.+1 s <> \det (H - s%:M)].
Proof. exact: dhess_index_refuted. Qed.
Print Assumptions C20_dhess_index_refuted.

(* what it computes instead: the shift is missing on the last diagonal entry *)
Theorem C20_dhess_coded_is_det :
  forall (R : comRingType) (m : nat) (H : 'M[R]_m.+1) (Hl : seq R) (s : R),
    upper_hessenberg H -> row_major Hl H ->
    dhess_rec_coded (rops R) Hl m.+1 s = \det (dcoded_mx H s).
Proof. exact: dhess_coded_is_det. Qed.
Print Assumptions C20_dhess_coded_is_det.

(* with the index repaired (fixes/C20_dhess_index.patch) the DPE variant is the f recurrence *)
Theorem C20_dhess_fixed_is_det :
  forall (R : comRingType) (m : nat) (H : 'M[R]_m.+1) (Hl : seq R) (s : R),
    upper_hessenberg H -> row_major Hl H ->
    dhess_rec_fixed (rops R) Hl m.+1 s = \det (H - s%:M).
Proof. exact: dhess_fixed_is_det. Qed.
Print Assumptions C20_dhess_fixed_is_det.

(* A-priori rounding bound.  [M : round_model R F] packages a norm N : R -> F (N 0 = 0, N (-x) = N x,
   triangle inequality, submultiplicative) and rounded operations with
       N (fmul x y - x * y)   <= em * (N x * N y),      N (fsub x y - (x - y)) <= es * N (x - y).
   For every order n, every storage Hl (Hessenberg or not: the statement compares the rounded and the
   exact run of the same recurrence), every entrywise majorant Al of the moduli and sa >= N s:
       N (rounded - exact) <= (theta^(n-1) (1+es) - 1) * (recurrence on Al with + for -),
   theta = (1+es)^2 (1+em).  Together with C20_hess_rec_is_det the exact run is det (H - s.I).
   Not covered by the model: overflow/underflow, and the derivation of (em, es) for cplx_t / cdpe_t /
   mpc_t operations from the primitive roundings (that is C12/C13's subject). *)
Theorem C20_hess_apriori :
  forall (R : comRingType) (F : numDomainType) (M : round_model R F)
         (Hl : seq R) (Al : seq F) (n : nat) (s : R) (sa : F),
    (forall k, rm_N M (nth 0 Hl k) <= nth 0 Al k) -> rm_N M s <= sa ->
    rm_N M (hess_rec (flops M) Hl n s - hess_rec (rops R) Hl n s)
    <= (theta M ^+ n.-1 * (1 + rm_es M) - 1) * hess_rec (aops F) Al n sa.
Proof. exact: hess_apriori. Qed.
Print Assumptions C20_hess_apriori.

Corollary C20_hess_apriori_det :
  forall (R : comRingType) (F : numDomainType) (M : round_model R F)
         (m : nat) (H : 'M[R]_m.+1) (Hl : seq R) (Al : seq F) (s : R) (sa : F),
    upper_hessenberg H -> row_major Hl H ->
    (forall k, rm_N M (nth 0 Hl k) <= nth 0 Al k) -> rm_N M s <= sa ->
    rm_N M (hess_rec (flops M) Hl m.+1 s - \det (H - s%:M))
    <= (theta M ^+ m * (1 + rm_es M) - 1) * hess_rec (aops F) Al m.+1 sa.
Proof.
by move=> R F M m H Hl Al s sa uh rm hA hs; rewrite -(hess_rec_is_det s uh rm); exact: hess_apriori.
Qed.
Print Assumptions C20_hess_apriori_det.

(* a rounding model whose operations do round (relative error 1) exists, and on the 3 x 3 example the
   rounded value 13392 is within 127 * 2398 of the exact 176 *)
Example C20_hess_apriori_nonvacuous :
  (hess_rec (flops toy_model) L3 3 1 = 13392) * (hess_rec (rops _) L3 3 1 = 176)
  * (hess_rec (aops _) L3 3 1 = 2398) * (theta toy_model ^+ 2 * (1 + 1) - 1 = 127).
Proof. exact: toy_values. Qed.

(* the bound B dominates the modulus of the exact value (so it is the natural scale of the error) *)
Theorem C20_hess_bound_dominates :
  forall (R : comRingType) (F : numDomainType) (M : round_model R F)
         (h : nat -> nat -> R) (a : nat -> nat -> F) (n : nat) (s : R) (sa : F),
    (forall i j, rm_N M (h i j) <= a i j) -> rm_N M s <= sa ->
    rm_N M (hess_rec_acc (rops R) h n s) <= hess_rec_acc (aops F) a n sa.
Proof. move=> R F M h a n s sa ha hs; exact: hess_bound_dominates. Qed.
Print Assumptions C20_hess_bound_dominates.

(* The extracted oracle of the correspondence check (ocaml/hess.ml: hess_det_gauss, list of rows of
   Gaussian integers over stdlib Z) computes the determinant in the ring of Gaussian integers. *)
Theorem C20_oracle_is_det :
  forall (m : nat) (H : 'M[GI_comRingType]_m.+1) (rows : seq (seq GI)) (s : GI),
    upper_hessenberg H -> rows_of rows H ->
    hess_det_gauss rows m.+1 s = \det (H - s%:M).
Proof. exact: hess_det_gauss_is_det. Qed.
Print Assumptions C20_oracle_is_det.

Theorem C20_oracle_dcoded_is_det :
  forall (m : nat) (H : 'M[GI_comRingType]_m.+1) (rows : seq (seq GI)) (s : GI),
    upper_hessenberg H -> rows_of rows H ->
    dhess_coded_gauss rows m.+1 s = \det (dcoded_mx H s).
Proof. exact: dhess_coded_gauss_is_det. Qed.
Print Assumptions C20_oracle_dcoded_is_det.

Example C20_oracle_nonvacuous : hess_det_gauss R3 3 (1, 1)%Z = (155, -167)%Z.
Proof. exact: R3_det. Qed.

(* the integer majorant of |z| 2^k used for B is an upper bound *)
Theorem C20_modup_sound :
  forall (k : Z) (z : GI), (0 <= k)%Z ->
    ((fst z * fst z + snd z * snd z) * 4 ^ k <= modup k z * modup k z)%Z.
Proof. exact: modup_sound. Qed.
Print Assumptions C20_modup_sound.

(* Multiprecision variant: the returned error bound (error vector `verrors` as coded, HessModel.mhess_rec)
   dominates the distance between the computed value and the exact recurrence, in the same rounding
   model.  PARTIAL: (1) the bound arithmetic, done with rounded rdpe_t operations in the code, is idealised
   as exact arithmetic in F; (2) the hypotheses em <= eps, es <= eps (1 - es) relate the code's
   eps = 2^(1-wp) to the rounding constants of mpc_mul / mpc_sub and are not derived from GMP's mpf
   semantics here; (3) the shifted diagonal H[i,i] - s is assumed to be formed exactly: the code rounds it
   (mpc_sub into a wp-bit copy) and starts from verrors = 0, so that rounding is NOT covered by the
   returned bound (for n = 1 the bound returned is 0) -- harmless for moderate entries, where the
   difference is exact in the >= wp+64 bits an mpf carries.  That the model error vector is the one the
   code computes is checked numerically by checks/C20.py (agreement to 1e-6 on every m call).
   Precisions: the inputs Hl, s are exact ring elements (whatever precision they are stored at); the
   WORKING precision is the one of the operations in M, and eps is the unit the error vector is built
   with (2^(1-wp), wp = the output's precision).  The hypotheses em <= eps, es <= eps (1 - es) say
   that the working copy must be at least as precise as eps claims: allocating the working matrix at the
   (lower) precision of the input while keeping eps = 2^(1-wp_output) falsifies them, and the check calls
   the m variants with matrix / shift / output at different precisions to notice exactly that. *)
Theorem C20_mhess_error_sound_partial :
  forall (R : comRingType) (F : numDomainType) (M : round_model R F) (eps : F)
         (Hl : seq R) (n : nat) (s : R),
    0 <= eps -> rm_em M <= eps -> rm_es M <= eps * (1 - rm_es M) ->
    (forall i, rm_fsub M (elem (rops R) Hl n i i) s = elem (rops R) Hl n i i - s) ->
    let r := @mhess_rec R F (flops M) +%R *%R 0 eps (rm_N M) Hl n s in
    r.1 = hess_rec (flops M) Hl n s /\
    rm_N M (r.1 - hess_rec (rops R) Hl n s) <= r.2.
Proof. exact: mhess_error_sound. Qed.
Print Assumptions C20_mhess_error_sound_partial.

(* satisfiable: exact subtraction, products off by a factor 2 (em = 1, es = 0, eps = 1); the model returns
   (704, 3311) on the 3 x 3 example whose exact value is 176 *)
Example C20_mhess_error_nonvacuous :
  @mhess_rec int int (flops toy_model2) +%R *%R 0 1 (fun x => `|x|) L3e 3 1 = (704, 3311).
Proof. exact: toy2_values. Qed.

(* ---- explicit constants ------------------------------------------------------------------------
   R any real closed field, rnd : R -> R any rounding obeying the standard model |rnd t - t| <= u |t|
   (binary64: u = 2^-53, see C20_binary64_standard_model; rdpe_t: u = 2^-52; no underflow/overflow).
   Complex numbers are (re, im) pairs, N = complex modulus, and the operations are those of mt.c:
       cfsub x y = (rnd (a - c), rnd (b - d))
       cfmul x y = (rnd (rnd (a c) - rnd (b d)), rnd (rnd (a d) + rnd (b c)))   (cplx_mul, cdpe_mul)
   They form a round_model with es = u, em = 3/2 ((1+u)^2 - 1) (HessStd.std_model: the normwise constants
   are DERIVED, not assumed), hence for the recurrence of the f and d variants, order n = m+1:
       |computed - det-recurrence| <= ((1+u)^(5 n) - 1) * B <= 5 n u / (1 - 5 n u) * B,
   i.e. exactly gamma(C n, u) * B with C = 5, the predicate evaluated by checks/C20.py (C_F = C_D = 5).
   Still assumed: the standard model itself for each primitive (binary64: proved below from Flocq for the
   normal range, in stdlib Reals, not linked to the abstract rcfType; rdpe_t: C12), exactness of the
   power-of-two rescaling (C20_scaling_invariant treats it in exact arithmetic). *)
Theorem C20_fhess_apriori_explicit :
  forall (R : rcfType) (u : R) (rnd : R -> R) (u_ge0 : 0 <= u)
         (rnd_err : forall t, `|rnd t - t| <= u * `|t|)
         (Hl Al : seq R[i]) (m : nat) (s sa : R[i]),
    (forall k, `|nth 0 Hl k| <= nth 0 Al k) -> `|s| <= sa ->
    `|hess_rec (flops (std_model u_ge0 rnd_err)) Hl m.+1 s - hess_rec (rops _) Hl m.+1 s|
    <= (((1 + u) ^+ (5 * m.+1) - 1)%:C)%C * hess_rec (aops _) Al m.+1 sa.
Proof. move=> R u rnd u0 re Hl Al m s sa; exact: fhess_apriori_std. Qed.
Print Assumptions C20_fhess_apriori_explicit.

Theorem C20_fhess_apriori_gamma :
  forall (R : rcfType) (u : R) (rnd : R -> R) (u_ge0 : 0 <= u)
         (rnd_err : forall t, `|rnd t - t| <= u * `|t|)
         (Hl Al : seq R[i]) (m : nat) (s sa : R[i]),
    (5 * m.+1)%:R * u < 1 ->
    (forall k, `|nth 0 Hl k| <= nth 0 Al k) -> `|s| <= sa ->
    `|hess_rec (flops (std_model u_ge0 rnd_err)) Hl m.+1 s - hess_rec (rops _) Hl m.+1 s|
    <= (((5 * m.+1)%:R * u / (1 - (5 * m.+1)%:R * u))%:C)%C * hess_rec (aops _) Al m.+1 sa.
Proof. move=> R u rnd u0 re Hl Al m s sa; exact: fhess_apriori_gamma. Qed.
Print Assumptions C20_fhess_apriori_gamma.

(* the rounded product really is the 4-multiplication formula on components *)
Example C20_cfmul_unfold :
  forall (R : rcfType) (rnd : R -> R) (a b c d : R),
    cfmul rnd (a +i* b)%C (c +i* d)%C
    = (rnd (rnd (a * c) - rnd (b * d)) +i* rnd (rnd (a * d) + rnd (b * c)))%C.
Proof. by []. Qed.

(* Any rounding model with es <= u and em <= (1+u)^k - 1 (k = 3 above).  For the m variant: mpc_sub is
   componentwise (es = u) and mpc_mul uses the 3-multiplication product ((a-b)(c+d) - ad + bc, ad + bc);
   a pen-and-paper analysis gives em <= (1+u)^14 - 1, i.e. k = 14 and C = 16 (C_M of checks/C20.py) with
   u = 2^(1-wp).  That value of k is NOT derived in Coq: it enters as the hypothesis em_u. *)
Theorem C20_hess_apriori_pow :
  forall (R : comRingType) (F : numDomainType) (M : round_model R F) (u : F) (k : nat),
    0 <= u -> rm_es M <= u -> rm_em M <= (1 + u) ^+ k - 1 ->
  forall (Hl : seq R) (Al : seq F) (m : nat) (s : R) (sa : F),
    (forall j, rm_N M (nth 0 Hl j) <= nth 0 Al j) -> rm_N M s <= sa ->
    rm_N M (hess_rec (flops M) Hl m.+1 s - hess_rec (rops R) Hl m.+1 s)
    <= ((1 + u) ^+ ((k + 2) * m.+1) - 1) * hess_rec (aops F) Al m.+1 sa.
Proof. move=> R F M u k u0 es em Hl Al m s sa; exact: hess_apriori_pow. Qed.
Print Assumptions C20_hess_apriori_pow.

(* binary64 round-to-nearest-even satisfies the standard model with u = 2^-53 on the normal range
   (Flocq; statement: forall x, 2^-1022 <= |x| -> |round_FLT(-1074,53),RNE x - x| <= 2^-53 |x|) *)
Theorem C20_binary64_standard_model : HessB64.b64_standard_model_stmt.
Proof. exact: HessB64.b64_standard_model. Qed.
Print Assumptions C20_binary64_standard_model.
