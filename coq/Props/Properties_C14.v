(* C14 -- polynomial evaluation agrees with exact evaluation in every basis: statements.
   Model: MPSV.Eval.EvalModel (definitions only).  Proofs: Eval/EvalExact.v, Eval/EvalRounded.v,
   Eval/EvalTwin.v, Eval/EvalBound.v, Eval/EvalSparse.v, Eval/EvalCheb.v, Eval/EvalSecPoly.v,
   Eval/EvalChebEst.v, Eval/EvalB64.v (model of the binary64 operations: Eval/EvalB64Model.v),
   Eval/EvalTwinBounds.v. *)
Require Import Reals List QArith.
From Coquelicot Require Import Complex.
Require Import MPSV.Eval.EvalModel MPSV.Eval.EvalExact MPSV.Eval.EvalRounded MPSV.Eval.EvalTwin.
Require Import MPSV.Eval.EvalBound MPSV.Eval.EvalSparse MPSV.Eval.EvalCheb.
Require Import MPSV.Eval.EvalSecPoly MPSV.Eval.EvalChebEst MPSV.Eval.EvalB64Model MPSV.Eval.EvalB64.
Require Import MPSV.Eval.EvalTwinBounds MPSV.Eval.EvalB64Link MPSV.Eval.EvalSecGuard.
From Flocq Require Import Core IEEE754.BinarySingleNaN.
Import ListNotations.
Local Open Scope R_scope.

(* Rounded complex Horner, as coded in mps_{f,d,m}horner, for EVERY coefficient list (degree
   n = length - 1), point and arithmetic satisfying the standard model with constant mu:
   |s^ - p(x)| <= ((1+mu)^(2n) - 1) p~(|x|). *)
Theorem C14_horner_apriori : forall (A : arith) (mu : R) (l : list C) (x : C),
  std_model mu A -> l <> [] ->
  Cmod (horner_fl A l x - hornerC l x)%C
    <= ((1 + mu) ^ (2 * (length l - 1)) - 1) * habs l (Cmod x).
Proof. exact horner_apriori. Qed.
Print Assumptions C14_horner_apriori.

(* first-order form used by the correspondence check: c = 20/9 when 2 n mu <= 1/10 *)
Theorem C14_horner_apriori_linear : forall (A : arith) (mu : R) (l : list C) (x : C),
  std_model mu A -> l <> [] -> INR (2 * (length l - 1)) * mu <= 1 / 10 ->
  Cmod (horner_fl A l x - hornerC l x)%C
    <= 20 / 9 * INR (length l - 1) * mu * habs l (Cmod x).
Proof. exact horner_apriori_linear. Qed.
Print Assumptions C14_horner_apriori_linear.

(* The sparse "parallel Horner" scheme of mps_mhorner_sparse computes p(x) exactly in exact
   arithmetic, over any commutative ring, for every sparsity pattern (list of options) and every
   degree, as soon as #coefficients <= 2^q; the code's q = ceil(log2(#coefficients + 1)) is enough. *)
Theorem C14_sparse_eq_dense_exact :
  forall (K : Type) (k0 k1 : K) (kadd kmul ksub : K -> K -> K) (kopp : K -> K),
  ring_theory k0 k1 kadd kmul ksub kopp (@eq K) ->
  forall (l : list (option K)) (x : K) (q : nat),
  (length l <= 2 ^ q)%nat ->
  sparse_eval K k0 kadd kmul q x l = horner K k0 kadd kmul (deopt K k0 l) x.
Proof. exact sparse_eq_dense_exact. Qed.
Print Assumptions C14_sparse_eq_dense_exact.

Theorem C14_sparse_passes_suffice : forall n : nat, (n <= 2 ^ Nat.log2_up (n + 1))%nat.
Proof. exact log2_up_passes. Qed.
Print Assumptions C14_sparse_passes_suffice.

(* the loop order of mps_?horner (value = value*x + a_j from the top) equals the specification *)
Theorem C14_horner_coded_eq_spec :
  forall (K : Type) (k0 k1 : K) (kadd kmul ksub : K -> K -> K) (kopp : K -> K),
  ring_theory k0 k1 kadd kmul ksub kopp (@eq K) ->
  forall (l : list K) (x : K), horner_coded K k0 kadd kmul l x = horner K k0 kadd kmul l x.
Proof. exact horner_coded_eq. Qed.
Print Assumptions C14_horner_coded_eq_spec.

(* The forward three-term recurrence of mps_chebyshev_poly_meval computes sum c_k T_k(x),
   T_0 = 1, T_1 = x, T_{k+1} = 2 x T_k - T_{k-1}. *)
Theorem C14_chebrec_exact :
  forall (K : Type) (k0 k1 : K) (kadd kmul ksub : K -> K -> K) (kopp : K -> K),
  ring_theory k0 k1 kadd kmul ksub kopp (@eq K) ->
  forall (cs : list K) (x : K),
  cheb_eval K k0 k1 kadd kmul ksub cs x = cheb_sum K k0 k1 kadd kmul ksub cs 0 x.
Proof. exact chebrec_exact. Qed.
Print Assumptions C14_chebrec_exact.

(* Secular sum S(x) = sum a_i/(x-b_i) - 1 as coded: when x is none of the b_i the evaluation
   succeeds and the error is bounded in condition-number form. *)
Theorem C14_secular_sum_apriori : forall (A : arith) (mu : R) (ab : list (C * C)) (x : C),
  std_model mu A -> mu < 1 -> all_ne ab x ->
  exists s, sec_fl A ab x = Some s /\
    Cmod (s - sec_exact ab x)%C
      <= ((1 + 2 * mu / (1 - mu)) * (1 + mu) ^ (length ab + 1) - 1) * (sec_abs ab x + 1).
Proof. exact secular_sum_apriori. Qed.
Print Assumptions C14_secular_sum_apriori.

(* ... and in exact arithmetic the code returns "no value" exactly when x hits a pole *)
Theorem C14_secular_pole_reported : forall (ab : list (C * C)) (x : C),
  sec_fl exact_arith ab x = None <-> Exists (fun p => x = snd p) ab.
Proof. exact secular_pole_reported. Qed.
Print Assumptions C14_secular_pole_reported.

(* The estimate returned by mps_mhorner_with_error2 (u4 (apol + |value|), u4 = 4 * 2^-wp) bounds
   the actual error UNDER the guard-bit hypothesis stated in the theorem:
   ((1+mu)^(2n) - 1)(1+eta) <= u4 for the mu of the arithmetic really used by GMP / mpc_mul, and
   p~(|x|) <= (1+eta) apol for the DPE evaluation of apol.  The hypothesis is about GMP, it is
   part of the trusted base; its consequence is tested on every multiprecision run of the tie. *)
Theorem C14_mp_estimate_bounds_error :
  forall (A : arith) (mu u4 eta apol : R) (l : list C) (x : C),
  std_model mu A -> l <> [] -> 0 <= eta ->
  habs l (Cmod x) <= (1 + eta) * apol ->
  ((1 + mu) ^ (2 * (length l - 1)) - 1) * (1 + eta) <= u4 ->
  Cmod (horner_fl A l x - hornerC l x)%C <= mp_estimate u4 apol (horner_fl A l x).
Proof. exact mp_estimate_bounds_error. Qed.
Print Assumptions C14_mp_estimate_bounds_error.

(* The extracted exact twin computes the specification value, and its rational bound is an
   upper bound of p~(|x|). *)
Theorem C14_twin_value : forall (l : list QC) (x : QC),
  QC2C (fst (eval_mono_q l x)) = hornerC (map QC2C l) (QC2C x).
Proof. exact twin_value. Qed.
Print Assumptions C14_twin_value.



(* ... and its rational bound (qsqrt_up / qup roundings included) is an upper bound of p~(|x|): the
   bound computation of the correspondence check is no longer trusted. *)
Theorem C14_twin_bound : forall (l : list QC) (x : QC),
  habs (map QC2C l) (Cmod (QC2C x)) <= Q2R (snd (eval_mono_q l x)).
Proof. exact twin_bound. Qed.
Print Assumptions C14_twin_bound.

(* Rounded pairing/squaring scheme of mps_mhorner_sparse (q passes, every sparsity pattern):
   |s^ - p(x)| <= ((1+mu)^(2^q + q - 1) - 1) p~(|x|).  One pass costs a product and a sum; the
   j times squared y carries the exponent 2^j - 1, which is where the degree enters. *)
Theorem C14_sparse_apriori : forall (A : arith) (mu : R), std_model mu A ->
  forall (l : list (option C)) (x : C) (q : nat), (length l <= 2 ^ q)%nat ->
  Cmod (sparse_fl A q x l - hornerC (deopt C (RtoC 0) l) x)%C
    <= ((1 + mu) ^ sparse_expo q - 1) * habs (deopt C (RtoC 0) l) (Cmod x).
Proof. exact sparse_apriori. Qed.
Print Assumptions C14_sparse_apriori.

Theorem C14_sparse_expo_closed : forall q : nat, (sparse_expo q + 1 = 2 ^ q + q)%nat.
Proof. exact sparse_expo_closed. Qed.
Print Assumptions C14_sparse_expo_closed.

(* The degree factor is necessary (explains the known finding monomial:meval-sparse:mp-estimate): in the
   arithmetic that scales every result by 1 + delta -- a standard-model arithmetic with mu = delta --
   the sparse scheme on the single term a x^n, n = 2^k, errs by EXACTLY ((1+delta)^n - 1) p~(|x|), hence
   by at least n delta p~(|x|).  An estimate u4 (p~(|x|) + |value|) whose u4 does not grow with the degree,
   as returned by mps_mhorner_with_error2 (u4 = 4 * 2^-wp), cannot bound the error of the sparse
   evaluator for every arithmetic of accuracy mu once n mu exceeds about 2 u4. *)
Theorem C14_sparse_monomial_error : forall (delta : R), 0 <= delta -> forall (k : nat) (a x : C),
  Cmod (sparse_fl (sarith delta) (S k) x (monomial_input k a)
        - hornerC (deopt C (RtoC 0) (monomial_input k a)) x)%C
  = ((1 + delta) ^ (2 ^ k) - 1) * habs (deopt C (RtoC 0) (monomial_input k a)) (Cmod x).
Proof. exact sparse_monomial_error. Qed.
Print Assumptions C14_sparse_monomial_error.

Theorem C14_sparse_estimate_needs_degree_factor : forall (delta : R) (k : nat) (a x : C), 0 <= delta ->
  std_model delta (sarith delta) /\
  INR (2 ^ k) * delta * habs (deopt C (RtoC 0) (monomial_input k a)) (Cmod x)
    <= Cmod (sparse_fl (sarith delta) (S k) x (monomial_input k a)
             - hornerC (deopt C (RtoC 0) (monomial_input k a)) x)%C.
Proof. exact sparse_estimate_needs_degree_factor. Qed.
Print Assumptions C14_sparse_estimate_needs_degree_factor.

(* Rounded forward recurrence of mps_chebyshev_poly_meval, degree n = length - 1:
   |v^ - sum c_k T_k(x)| <= ((1+mu)^(4n) - 1) sum |c_k| T~_k(|x|), with the majorant recurrence on moduli
   T~_0 = 1, T~_1 = |x|, T~_{k+1} = 2|x| T~_k + T~_{k-1} (valid inside and outside [-1,1]).  The model rounds
   the factor 2 (ktwo = fl(1+1)) although mpc_mul_eq_ui is exact: the constant 4 per step is therefore
   one more than what the code needs (the check uses 3). *)
Theorem C14_chebrec_apriori : forall (A : arith) (mu : R), std_model mu A ->
  forall (cs : list C) (x : C),
  Cmod (cheb_fl A cs x - chebC cs x)%C
    <= ((1 + mu) ^ (4 * (length cs - 1)) - 1) * chebabs_R cs (Cmod x).
Proof. exact chebrec_apriori. Qed.
Print Assumptions C14_chebrec_apriori.

(* ------------------------------------------------------------------ non-vacuity *)

(* the standard model is satisfiable (exact arithmetic, any mu >= 0) ... *)
Example C14_ex_std_model : std_model (1 / 2 ^ 53) exact_arith.
Proof. exact ex_std_model. Qed.
(* ... and by an arithmetic that really rounds: every result is scaled by (1 + 2^-10) *)
Example C14_ex_rounding_model : std_model (1 / 2 ^ 10) scaled_arith /\
  horner_fl scaled_arith [RtoC 1; RtoC 1; RtoC 1] (RtoC 1) <> hornerC [RtoC 1; RtoC 1; RtoC 1] (RtoC 1).
Proof. exact ex_rounding_model. Qed.
(* sparse scheme on 1 + 3x^2 + x^5 over Z at x = 2, q = 3 passes: 1 + 12 + 32 *)
Example C14_ex_sparse :
  sparse_eval Z 0%Z Z.add Z.mul 3 2%Z [Some 1%Z; None; Some 3%Z; None; None; Some 1%Z] = 45%Z.
Proof. reflexivity. Qed.
(* Chebyshev: 1 + 2 T_1 + 3 T_2 + T_3 at x = 2 over Z:  1 + 4 + 21 + 26 *)
Example C14_ex_cheb : cheb_eval Z 0%Z 1%Z Z.add Z.mul Z.sub [1; 2; 3; 1]%Z 2%Z = 52%Z.
Proof. reflexivity. Qed.
(* guard-bit hypothesis is satisfiable: mu = 0 (exact), any u4 >= 0 *)
Example C14_ex_guard : ((1 + 0) ^ (2 * (length [RtoC 1; RtoC 2] - 1)) - 1) * (1 + 0) <= 4 / 2 ^ 64.
Proof. exact ex_guard. Qed.
(* secular: x = 3 is not a pole of 1/(x-1) + 2/(x+1) - 1 *)
Example C14_ex_all_ne : all_ne [(RtoC 1, RtoC 1); (RtoC 2, RtoC (-1))] (RtoC 3).
Proof. exact ex_all_ne. Qed.
(* the witness input is not degenerate: x^4 alone is [None;None;None;None;Some a], 3 passes *)
Example C14_ex_monomial_input : monomial_input 2 (RtoC 1) = [None; None; None; None; Some (RtoC 1)]
  /\ sparse_expo 3 = 10%nat.
Proof. split; reflexivity. Qed.

(* ------------------------------------------------------------------ secular PRODUCT FORM *)

(* mps_secular_poly_{f,d,m}eval_with_error as coded: P^ = fl(-1 * fl(.. fl(S^ fl(x-b_1)) .. fl(x-b_n))).  For every
   secular equation (n terms), every point that is none of the b_i and every standard-model arithmetic the
   evaluation succeeds and
     |P^ - P| <= ((1+nu)(1+mu)^(3n+2) - 1) (sum|a_i|/|x-b_i| + 1) prod|x-b_i|,   nu = 2mu/(1-mu),
   where P = -S prod(x-b_i) is the specification value. *)
Theorem C14_secular_poly_apriori : forall (A : arith) (mu : R) (ab : list (C * C)) (x : C),
  std_model mu A -> mu < 1 -> all_ne ab x ->
  exists p, sec_poly_fl A ab x = Some p /\
    Cmod (p - sec_poly_exact ab x)%C
      <= ((1 + 2 * mu / (1 - mu)) * (1 + mu) ^ (3 * length ab + 2) - 1)
         * ((sec_abs ab x + 1) * Cmod (sec_prodC ab x)).
Proof. exact secular_poly_apriori. Qed.
Print Assumptions C14_secular_poly_apriori.

(* first-order form: the right-hand side used by the check, (10/9)(3n+4) mu * condition quantity *)
Theorem C14_secular_poly_apriori_linear : forall (A : arith) (mu : R) (ab : list (C * C)) (x : C),
  std_model mu A -> all_ne ab x -> INR (3 * length ab + 4) * mu <= 1 / 10 ->
  exists p, sec_poly_fl A ab x = Some p /\
    Cmod (p - sec_poly_exact ab x)%C
      <= 10 / 9 * (INR (3 * length ab + 4) * mu) * ((sec_abs ab x + 1) * Cmod (sec_prodC ab x)).
Proof. exact secular_poly_apriori_linear. Qed.
Print Assumptions C14_secular_poly_apriori_linear.

(* The error estimate AS CODED (running sum error += |fl(a_i/fl(x-b_i))| (i+2); error = (error + 1) u4;
   then error *= |fl(x-b_i)| for every i; all in rounded real arithmetic Ra of accuracy eta) is the estimate
   returned next to the value of sec_poly_fl, and it bounds the actual error UNDER the guard-bit hypothesis
   written in the statement: the arithmetic really used must be more accurate than the declared unit u4 by a
   factor that grows with n (left side ~ (3n+4) mu).  For GMP (mu about 2^-64 * 2^-wp against u4 = 8 * 2^-wp)
   this is a fact about the library, part of the trusted base; its consequence is tested on every MP run. *)
Theorem C14_secular_poly_estimate_bounds_error :
  forall (A : arith) (Ra : rarith) (mu eta : R),
  std_model mu A -> rstd_model eta Ra -> mu <= 1 / 3 -> eta <= 1 ->
  forall (u4 : R) (ab : list (C * C)) (x : C), 0 <= u4 -> all_ne ab x ->
  (1 + 2 * mu / (1 - mu)) * (1 + mu) ^ (3 * length ab + 2) - 1
    <= u4 * ((1 - eta) ^ (5 * length ab + 2) * (1 - mu) ^ length ab * (1 - 2 * mu / (1 - mu))) ->
  exists p e, sec_poly_est_fl A Ra u4 ab x = Some (p, e) /\ sec_poly_fl A ab x = Some p /\
    Cmod (p - sec_poly_exact ab x)%C <= e.
Proof. exact secular_poly_estimate_bounds_error. Qed.
Print Assumptions C14_secular_poly_estimate_bounds_error.

(* ... and the guard factor cannot be independent of n (necessity of the n-dependence of the hypothesis, as C14_sparse_estimate_needs_degree_factor for Horner).  In the
   arithmetic that scales every result by 1 + delta (standard model, mu = delta) and with the estimate computed
   exactly, the input 2/(x-0) + 0/(x-0) + ... - 1 with n = m+1 terms at x = 1 errs by more than the coded estimate with
   declared unit u4 = c * delta as soon as 5c < 2n: the accuracy in excess of the declared unit must be at least
   2n/5 (about log2 n - 2 guard bits). *)
Theorem C14_secular_estimate_needs_growing_guard : forall (delta c : R) (m : nat),
  0 < delta -> 0 <= c -> INR (S m) * delta <= 1 / 2 -> 5 * c < 2 * INR (S m) ->
  std_model delta (sarith delta) /\
  exists p e, sec_poly_est_fl (sarith delta) exact_rarith (c * delta) (guard_input m) (RtoC 1) = Some (p, e) /\
    e < Cmod (p - sec_poly_exact (guard_input m) (RtoC 1))%C.
Proof. exact secular_estimate_needs_growing_guard. Qed.
Print Assumptions C14_secular_estimate_needs_growing_guard.
Example C14_ex_guard_input : guard_input 2 = [(RtoC 2, RtoC 0); (RtoC 0, RtoC 0); (RtoC 0, RtoC 0)].
Proof. reflexivity. Qed.

(* ------------------------------------------------------------------ Chebyshev estimate *)

(* REFUTED: the estimate of mps_chebyshev_poly_meval as coded, u2 (|c_1 x| + sum (|2 x T_{i-1}| + |T_{i-2}|) |x|),
   never reads c_i for i >= 2.  For EVERY real arithmetic Ra computing it (no hypothesis on Ra at all), every
   declared unit u2 and every accuracy delta > 0 of a standard-model complex arithmetic, some degree-2 input
   has an actual error above the returned estimate: no number of guard bits repairs it.  The witness
   family (0, 0, K) is replayed on the real code by the check (known finding chebyshev:meval:mp-estimate). *)
Theorem C14_chebyshev_estimate_refuted : forall (delta u2 : R) (Ra : rarith), 0 < delta ->
  exists (cs : list C) (x : C), length cs = 3%nat /\
    cheb_est_fl (sarith delta) Ra u2 cs x < Cmod (cheb_fl (sarith delta) cs x - chebC cs x)%C.
Proof. exact chebyshev_estimate_refuted. Qed.
Print Assumptions C14_chebyshev_estimate_refuted.

(* REPAIRED estimate (fixes/C14_chebyshev_meval_estimate.patch): (|c_0| + |c_1||x| + sum_{k>=2} |c_k| tm_k) ud with the
   majorant recurrence tm_{k+1} = 2|x| tm_k + tm_{k-1} run in rounded real arithmetic.  It bounds the actual
   error of the coded recurrence for every coefficient list, point and pair of arithmetics under the guard-bit
   hypothesis in the statement (ud = 4 n 2^-wp in the patch). *)
Theorem C14_chebyshev_fixed_estimate_bounds_error :
  forall (A : arith) (Ra : rarith) (mu eta ud : R) (cs : list C) (x : C),
  std_model mu A -> rstd_model eta Ra -> eta <= 1 -> 0 <= ud ->
  (1 + mu) ^ (4 * (length cs - 1)) - 1 <= ud * (1 - eta) ^ (7 * (length cs - 1)) ->
  Cmod (cheb_fl A cs x - chebC cs x)%C <= cheb_fix_est Ra ud cs x.
Proof. exact chebyshev_fixed_estimate_bounds_error. Qed.
Print Assumptions C14_chebyshev_fixed_estimate_bounds_error.

(* non-vacuity: the real-arithmetic model is satisfiable (exact reals), the guard hypotheses hold for an exact
   complex arithmetic with any declared unit, and the coded estimates are not trivially zero *)
Example C14_ex_rstd_model : rstd_model (1 / 2 ^ 53) exact_rarith.
Proof. exact ex_rstd_model. Qed.
Example C14_ex_sec_guard :
  (1 + 2 * 0 / (1 - 0)) * (1 + 0) ^ (3 * 2 + 2) - 1
    <= 4 / 2 ^ 50 * ((1 - 1 / 2 ^ 53) ^ (5 * 2 + 2) * (1 - 0) ^ 2 * (1 - 2 * 0 / (1 - 0))).
Proof. exact ex_sec_guard. Qed.
(* 1/(x-1) + 2/(x+1) - 1 at x = 3 in exact arithmetic with u4 = 1: P = -(1/2 + 1/2 - 1) * 2 * 4 = 0 and the
   coded estimate is (2 * 1/2 + 3 * 1/2 + 1) * 2 * 4 = 28 *)
Example C14_ex_sec_estimate :
  sec_poly_est_fl exact_arith exact_rarith 1 [(RtoC 1, RtoC 1); (RtoC 2, RtoC (-1))] (RtoC 3) = Some (RtoC 0, 28).
Proof. exact ex_sec_estimate. Qed.

(* ------------------------------------------------------------------ the double (f) variants: no rounding hypothesis *)

(* cplx_add, cplx_sub, cplx_mul (4 products, 2 sums), cplx_inv (both branches of the |Re| > |Im| test) and
   cplx_div = cplx_mul o cplx_inv of floating-point/mt.c AS CODED, every real operation rounded to nearest even with
   53 bits (Flocq's round radix2 (FLX_exp 53) ZnearestE: IEEE binary64 as long as nothing overflows or underflows),
   satisfy the standard model for ALL operands:  add/sub u, mul 3u, inv 7u, div 11u  (u = 2^-53). *)
Theorem C14_b64_mul_error : forall a b : C, Cmod (b_mul a b - a * b)%C <= 3 * u64 * Cmod (a * b)%C.
Proof. exact b_mul_err. Qed.
Print Assumptions C14_b64_mul_error.

Theorem C14_b64_inv_error : forall x : C, x <> RtoC 0 -> Cmod (b_inv x - / x)%C <= 7 * u64 * Cmod (/ x)%C.
Proof. exact b_inv_err. Qed.
Print Assumptions C14_b64_inv_error.

Theorem C14_b64_div_error : forall a b : C, b <> RtoC 0 -> Cmod (b_div a b - a / b)%C <= 11 * u64 * Cmod (a / b)%C.
Proof. exact b_div_err. Qed.
Print Assumptions C14_b64_div_error.

Theorem C14_b64_std_model : std_model (3 * u64) b64_arith_nodiv /\ std_model (11 * u64) b64_arith.
Proof. split; [exact b64_nodiv_std_model|exact b64_std_model]. Qed.
Print Assumptions C14_b64_std_model.

(* mps_fhorner in binary64: unconditional (mu = 3u; Horner never divides) *)
Theorem C14_b64_horner_apriori : forall (l : list C) (x : C), l <> [] ->
  Cmod (horner_fl b64_arith l x - hornerC l x)%C
    <= ((1 + 3 * u64) ^ (2 * (length l - 1)) - 1) * habs l (Cmod x).
Proof. exact b64_horner_apriori. Qed.
Print Assumptions C14_b64_horner_apriori.

Theorem C14_b64_horner_apriori_linear : forall (l : list C) (x : C), l <> [] ->
  INR (2 * (length l - 1)) * (3 * u64) <= 1 / 10 ->
  Cmod (horner_fl b64_arith l x - hornerC l x)%C
    <= 20 / 9 * INR (length l - 1) * (3 * u64) * habs l (Cmod x).
Proof. exact b64_horner_apriori_linear. Qed.
Print Assumptions C14_b64_horner_apriori_linear.

(* mps_secular_poly_feval_with_error in binary64: unconditional (mu = 11u because of cplx_div); this is the
   right-hand side the check uses for the double variant *)
Theorem C14_b64_secular_poly_apriori_linear : forall (ab : list (C * C)) (x : C), all_ne ab x ->
  INR (3 * length ab + 4) * (11 * u64) <= 1 / 10 ->
  exists p, sec_poly_fl b64_arith ab x = Some p /\
    Cmod (p - sec_poly_exact ab x)%C
      <= 10 / 9 * (INR (3 * length ab + 4) * (11 * u64)) * ((sec_abs ab x + 1) * Cmod (sec_prodC ab x)).
Proof. exact b64_secular_poly_apriori_linear. Qed.
Print Assumptions C14_b64_secular_poly_apriori_linear.

(* the side condition of the linear forms holds for every count below 10^12 *)
Example C14_ex_b64_linear_range : forall k : nat, INR k <= 10 ^ 12 -> INR k * (11 * u64) <= 1 / 10.
Proof. exact b64_linear_range. Qed.
(* the two branches of cplx_inv are both reachable: 1/(2+i) takes the first, 1/(1+2i) the second *)
Example C14_ex_b64_inv_branches :
  (exists d, b_inv (2, 1) = (d, rn (- d * rn (1 / 2)))) /\ (exists d, b_inv (1, 2) = (rn (d * rn (1 / 2)), - d)).
Proof. exact ex_b64_inv_branches. Qed.

(* The rounding operator rn of the binary64 model IS the IEEE-754 operation (Flocq's Bplus/Bminus/Bmult/Bdiv on
   binary_float 53 1024, round to nearest even) on finite operands whenever the exact result does not underflow
   (|.| >= 2^-1022) and the rounded one does not overflow: result value equal and finite. *)
Theorem C14_b64_ops_are_ieee : forall x y : b64, is_finite x = true -> is_finite y = true ->
  (bpow radix2 (-1022) <= Rabs (B2R x + B2R y) -> Rabs (rn (B2R x + B2R y)) < bpow radix2 1024 ->
     B2R (b64_plus x y) = rn (B2R x + B2R y) /\ is_finite (b64_plus x y) = true) /\
  (bpow radix2 (-1022) <= Rabs (B2R x - B2R y) -> Rabs (rn (B2R x - B2R y)) < bpow radix2 1024 ->
     B2R (b64_minus x y) = rn (B2R x - B2R y) /\ is_finite (b64_minus x y) = true) /\
  (bpow radix2 (-1022) <= Rabs (B2R x * B2R y) -> Rabs (rn (B2R x * B2R y)) < bpow radix2 1024 ->
     B2R (b64_mult x y) = rn (B2R x * B2R y) /\ is_finite (b64_mult x y) = true) /\
  (B2R y <> 0 -> bpow radix2 (-1022) <= Rabs (B2R x / B2R y) -> Rabs (rn (B2R x / B2R y)) < bpow radix2 1024 ->
     B2R (b64_div x y) = rn (B2R x / B2R y) /\ is_finite (b64_div x y) = true).
Proof. exact b64_ops_are_ieee. Qed.
Print Assumptions C14_b64_ops_are_ieee.

(* ------------------------------------------------------------------ the twin's quantities, Chebyshev and secular *)

(* What bin/eval prints for a Chebyshev input is the specification value sum c_k T_k(x) and an UPPER BOUND of the
   condition quantity sum |c_k| T~_k(|x|) of C14_chebrec_apriori (all roundings qsqrt_up/qup included). *)
Theorem C14_twin_cheb_value : forall (cs : list QC) (x : QC),
  QC2C (fst (eval_cheb_q cs x)) = chebC (map QC2C cs) (QC2C x).
Proof. exact twin_cheb_value. Qed.
Print Assumptions C14_twin_cheb_value.

Theorem C14_twin_cheb_bound : forall (cs : list QC) (x : QC),
  chebabs_R (map QC2C cs) (Cmod (QC2C x)) <= Q2R (snd (eval_cheb_q cs x)).
Proof. exact twin_cheb_bound. Qed.
Print Assumptions C14_twin_cheb_bound.

(* ... and for a secular input: S(x), P(x) = -S(x) prod(x-b_i) are the specification values, the third
   component is an upper bound of (sum|a_i|/|x-b_i| + 1) prod|x-b_i| (the condition quantity of
   C14_secular_poly_apriori), and "POLE" is printed exactly when x is one of the b_i. *)
Theorem C14_twin_sec : forall (ab : list (QC * QC)) (x s p : QC) (bnd : Q),
  eval_sec_q ab x = Some (s, p, bnd) ->
  all_ne (map QC2C2 ab) (QC2C x) /\
  QC2C s = sec_exact (map QC2C2 ab) (QC2C x) /\
  QC2C p = sec_poly_exact (map QC2C2 ab) (QC2C x) /\
  (sec_abs (map QC2C2 ab) (QC2C x) + 1) * Cmod (sec_prodC (map QC2C2 ab) (QC2C x)) <= Q2R bnd.
Proof. exact twin_sec. Qed.
Print Assumptions C14_twin_sec.

Theorem C14_twin_sec_pole : forall (ab : list (QC * QC)) (x : QC),
  eval_sec_q ab x = None <-> Exists (fun p => QC2C x = snd p) (map QC2C2 ab).
Proof. exact twin_sec_pole. Qed.
Print Assumptions C14_twin_sec_pole.

(* the twin on 1/(x-1) + 2/(x+1) - 1 at x = 3: S = 0, P = 0 *)
Example C14_ex_twin_sec : exists bnd, eval_sec_q [((1, 0, 1%positive), (1, 0, 1%positive)); ((2, 0, 1%positive), (-1, 0, 1%positive))]%Z (3, 0, 1%positive)%Z
  = Some ((0, 0, 1%positive)%Z, (0, 0, 1%positive)%Z, bnd).
Proof. eexists. vm_compute. reflexivity. Qed.
