(* C12 -- DPE numbers behave like the reals they represent: the statements.
   Model: MPSV.Dpe.DpeModel (rdpe_* / cdpe_* of mt.c, branch by branch, over Flocq binary64 and
   integer exponents with explicit 64/32-bit wrap).  rval x = B2R (mnt x) * 2^(esp x).
   The model follows the code as changed by fixes/C12_*.patch; *_old is the code as it was.  *)
From Coq Require Import ZArith Reals.
From Flocq Require Import Core BinarySingleNaN.
Require Import MPSV.Dpe.DpeDefs MPSV.Dpe.DpeModel MPSV.Dpe.DpeProps.
Require Import MPSV.Dpe.DpeArith MPSV.Dpe.DpePow MPSV.Dpe.DpeCplx MPSV.Dpe.DpeSat.
Require Import MPSV.Dpe.DpeModel2 MPSV.Dpe.DpeScal MPSV.Dpe.DpeCplx2 MPSV.Dpe.DpeCpowDefs MPSV.Dpe.DpeCpow MPSV.Dpe.DpeAsIs.
Open Scope Z_scope.

(* rdpe_Norm returns a normalised value denoting exactly the same real (exponent sum in range) *)
Theorem C12_norm_exact : forall (m : b64) (e : Z),
  is_finite m = true -> in_long (e + snd (ffrexp m)) ->
  normalised (rdpe_norm (Rdpe m e)) /\ rval (rdpe_norm (Rdpe m e)) = rval (Rdpe m e).
Proof. exact norm_exact. Qed.
Print Assumptions C12_norm_exact.
Example C12_norm_exact_nonvacuous :   (* 3.0 = 0.75 * 2^2, stored with exponent 7 *)
  let m : b64 := of_bits 4613937818241073152 in
  is_finite m = true /\ in_long (7 + snd (ffrexp m)) /\ esp (rdpe_norm (Rdpe m 7)) = 9.
Proof. vm_compute. repeat split; intro; discriminate. Qed.

(* conversion from double is exact and normalised, for every finite double *)
Theorem C12_conv_double : forall d : b64, is_finite d = true ->
  normalised (rdpe_set_d d) /\ rval (rdpe_set_d d) = B2R d.
Proof. exact conv_double. Qed.
Print Assumptions C12_conv_double.

(* the ordering operators (as fixed by fixes/C12_rdpe_compare.patch) agree with the order of the
   represented reals for ALL normalised operands: zero, positive, negative, any exponents *)
Theorem C12_order_correct : forall (o : ordop) (x y : rdpe),
  normalised x -> normalised y -> in_long (esp x) -> in_long (esp y) ->
  (rdpe_ord o x y = true <->
   match o with OLt => (rval x < rval y)%R | OLe => (rval x <= rval y)%R
              | OGt => (rval x > rval y)%R | OGe => (rval x >= rval y)%R end).
Proof. exact order_correct. Qed.
Print Assumptions C12_order_correct.
Example C12_order_correct_nonvacuous :   (* -4 and -1: normalised, both negative, different exponents *)
  normalised (Rdpe fmhalf 3) /\ normalised (Rdpe fmhalf 1) /\ in_long 3 /\ in_long 1 /\
  rdpe_lt (Rdpe fmhalf 3) (Rdpe fmhalf 1) = true /\ rdpe_lt (Rdpe fhalf 1) (Rdpe fmhalf 1) = false.
Proof.
  split. apply normalised_mhalf. split. apply normalised_mhalf.
  vm_compute. repeat split; intro; discriminate.
Qed.

(* ... and the operators as they were are wrong: 1 < -1 is true, -4 < -1 is false *)
Theorem C12_order_unfixed_refuted :
  rdpe_lt_old (Rdpe fhalf 1) (Rdpe fmhalf 1) = true /\ rdpe_lt_old (Rdpe fmhalf 3) (Rdpe fmhalf 1) = false.
Proof. exact order_unfixed_refuted. Qed.
Print Assumptions C12_order_unfixed_refuted.

(* rdpe_cmp through the wrapping exponent distance: RDPE_MAX compares below RDPE_MIN; fixed by
   fixes/C12_rdpe_add_delta_overflow.patch *)
Theorem C12_cmp_unfixed_refuted :
  rdpe_cmp_old (Rdpe fhalf LONG_MAX) (Rdpe fhalf LONG_MIN) = -1 /\
  rdpe_cmp (Rdpe fhalf LONG_MAX) (Rdpe fhalf LONG_MIN) = 1.
Proof. exact cmp_unfixed_refuted. Qed.
Print Assumptions C12_cmp_unfixed_refuted.

(* relative error <= 2^-53 (one ulp) and normalised result, exponents in range *)
Theorem C12_mul_rel : forall x y, normalised x -> normalised y -> nonzero x -> nonzero y ->
  LONG_MIN + 1 <= esp x + esp y <= LONG_MAX - 2 ->
  normalised (rdpe_mul x y) /\
  (Rabs (rval (rdpe_mul x y) - rval x * rval y) <= bpow radix2 (-53) * Rabs (rval x * rval y))%R.
Proof. exact mul_rel. Qed.
Print Assumptions C12_mul_rel.

Theorem C12_sqr_rel : forall x, normalised x -> nonzero x ->
  LONG_MIN + 1 <= esp x + esp x <= LONG_MAX - 2 ->
  normalised (rdpe_sqr x) /\
  (Rabs (rval (rdpe_sqr x) - rval x * rval x) <= bpow radix2 (-53) * Rabs (rval x * rval x))%R.
Proof. exact sqr_rel. Qed.
Print Assumptions C12_sqr_rel.

Theorem C12_div_rel : forall x y, normalised x -> normalised y -> nonzero x -> nonzero y ->
  LONG_MIN + 1 <= esp x - esp y <= LONG_MAX - 2 ->
  normalised (rdpe_div x y) /\
  (Rabs (rval (rdpe_div x y) - rval x / rval y) <= bpow radix2 (-53) * Rabs (rval x / rval y))%R.
Proof. exact div_rel. Qed.
Print Assumptions C12_div_rel.
Example C12_rel_nonvacuous :
  normalised (Rdpe fhalf 5) /\ nonzero (Rdpe fhalf 5) /\ LONG_MIN + 1 <= 5 + 5 <= LONG_MAX - 2.
Proof. split. apply normalised_half. split. apply nonzero_half. vm_compute. split; intro; discriminate. Qed.

Theorem C12_inv_rel : forall x, normalised x -> nonzero x ->
  LONG_MIN + 1 <= - esp x <= LONG_MAX - 2 ->
  normalised (rdpe_inv x) /\
  (Rabs (rval (rdpe_inv x) - / rval x) <= bpow radix2 (-53) * Rabs (/ rval x))%R.
Proof. exact inv_rel. Qed.
Print Assumptions C12_inv_rel.

(* "saturating instead of wrapping on exponent overflow", repaired code
   (fixes/C12_rdpe_exponent_saturation.patch, C12_rdpe_2exp_saturation.patch): every exponent sum or
   difference of rdpe_Norm, rdpe_inv, rdpe_sqr(_eq), rdpe_div(_eq), rdpe_*_2exp, cdpe_mul_e, cdpe_div_e,
   cdpe_sqr goes through rdpe_set_esp, which never wraps: in range it is exact, above LONG_MAX the value
   becomes +-1/2 * 2^LONG_MAX, below LONG_MIN +-1/2 * 2^LONG_MIN, sign of the mantissa kept *)
Theorem C12_saturates : forall (m : b64) (e0 a b : Z) (sub : bool),
  is_finite m = true -> B2R m <> 0%R -> in_long a -> in_long b ->
  let s := if sub then a - b else a + b in
  let r := rdpe_set_esp (Rdpe m e0) a b sub in
  in_long (esp r) /\
  (in_long s -> r = Rdpe m s) /\
  (LONG_MAX < s -> r = Rdpe (if flt0 m then fmhalf else fhalf) LONG_MAX) /\
  (s < LONG_MIN -> r = Rdpe (if flt0 m then fmhalf else fhalf) LONG_MIN).
Proof. exact set_esp_saturates. Qed.
Print Assumptions C12_saturates.

(* ... and at the level of an operation: the square of a normalised number whose exponent doubles out
   of the range of long is exactly RDPE_MAX / RDPE_MIN (same exponent, same mantissa bits) *)
Theorem C12_sqr_saturates : forall x, normalised x -> nonzero x -> in_long (esp x) ->
  (LONG_MAX < esp x + esp x -> same_rdpe (rdpe_sqr x) RDPE_MAX) /\
  (esp x + esp x < LONG_MIN -> same_rdpe (rdpe_sqr x) RDPE_MIN).
Proof. exact sqr_saturates. Qed.
Print Assumptions C12_sqr_saturates.
Example C12_saturates_nonvacuous :   (* the operands of the refutation below, through the repaired code *)
  (esp (rdpe_sqr (Rdpe fhalf two62)) = LONG_MAX /\ esp (rdpe_sqr (Rdpe fhalf (two62 + 1))) = LONG_MAX /\
   to_bits (mnt (rdpe_sqr (Rdpe fhalf (two62 + 1)))) = to_bits fhalf) /\
  esp (rdpe_sqrt RDPE_MAX) = two62 /\
  (esp (rdpe_inv (Rdpe fhalf LONG_MIN)) = LONG_MAX /\ to_bits (mnt (rdpe_inv (Rdpe fhalf LONG_MIN))) = to_bits fhalf) /\
  esp (rdpe_mul_2exp (Rdpe fhalf LONG_MAX) 1) = LONG_MAX /\
  rdpe_mul_2exp rdpe_zero 5 = rdpe_zero.
Proof. exact saturates_witnesses_fixed. Qed.

(* the code as it was does NOT saturate: witnesses with normalised in-range operands
   (each is replayed on the real functions by checks/C12.py) *)
Theorem C12_saturates_refuted :
  (esp (rdpe_sqr_old (Rdpe fhalf two62)) = LONG_MAX /\ to_bits (mnt (rdpe_sqr_old (Rdpe fhalf two62))) = to_bits fhalf /\
   esp (rdpe_sqr_old (Rdpe fhalf (two62 + 1))) = LONG_MIN + 1) /\
  esp (rdpe_sqrt_old RDPE_MAX) = - two62 /\
  esp (rdpe_inv_old (Rdpe fhalf LONG_MIN)) = LONG_MIN + 2 /\
  (esp (rdpe_mul_old (Rdpe fhalf LONG_MIN) (Rdpe fhalf (-1))) = LONG_MAX /\
   to_bits (mnt (rdpe_mul_old (Rdpe fhalf LONG_MIN) (Rdpe fhalf (-1)))) = to_bits fhalf) /\
  to_bits (rdpe_get_d_old (Rdpe fhalf 4294967296)) = to_bits fhalf /\
  esp (rdpe_mul_2exp_old (Rdpe fhalf LONG_MAX) 1) = LONG_MIN.
Proof. exact saturates_refuted. Qed.
Print Assumptions C12_saturates_refuted.

(* ---- partial results of the earlier rounds (kept; what they say is MISSING is now proved below:
   C12_cmp_correct, C12_add_rel, C12_sub_rel, C12_sqrt_rel) ------------------------------------------ *)

(* rdpe_cmp on the repaired code agrees with the real order when rdpe_sub computes the difference
   exactly: an operand is zero, or same sign and same exponent.  MISSING: operands of different
   exponents / mixed signs (the rounded branches of rdpe_sub; sign preservation of the rounding). *)
Theorem C12_cmp_correct_partial : forall x y, normalised x -> normalised y -> in_long (esp x) ->
  (B2R (mnt y) = 0%R \/ B2R (mnt x) = 0%R \/
   (esp x = esp y /\ ((0 < B2R (mnt x))%R /\ (0 < B2R (mnt y))%R \/ (B2R (mnt x) < 0)%R /\ (B2R (mnt y) < 0)%R))) ->
  rdpe_cmp x y = match Rcompare (rval x) (rval y) with Lt => -1 | Eq => 0 | Gt => 1 end.
Proof. exact cmp_correct_partial. Qed.
Print Assumptions C12_cmp_correct_partial.

(* rdpe_add, the exponent-distance shortcut (delta > 53): the small operand is dropped, 2 ulps.
   MISSING: the branches 0 <= |delta| <= 53 (ldexp exact + one rounded addition, 1 ulp). *)
Theorem C12_add_rel_partial : forall x y, normalised x -> normalised y -> nonzero x -> nonzero y ->
  in_long (esp x) -> in_long (esp y) -> esp x < LONG_MAX -> 53 < esp x - esp y ->
  rdpe_add x y = x /\
  (Rabs (rval (rdpe_add x y) - (rval x + rval y)) <= 2 * bpow radix2 (-53) * Rabs (rval x + rval y))%R.
Proof. exact add_shortcut_rel. Qed.
Print Assumptions C12_add_rel_partial.

(* rdpe_sub: the shortcut (2 ulps) and the cancellation case (same sign, same exponent: EXACT, Sterbenz).
   MISSING: 0 < |delta| <= 53 and mixed signs at delta = 0. *)
Theorem C12_sub_rel_partial : forall x y, normalised x -> normalised y -> nonzero x -> nonzero y ->
  in_long (esp x) -> in_long (esp y) ->
  (53 < esp x - esp y ->
     (Rabs (rval (rdpe_sub x y) - (rval x - rval y)) <= 2 * bpow radix2 (-53) * Rabs (rval x - rval y))%R) /\
  (esp x = esp y -> LONG_MIN + 1074 <= esp x <= LONG_MAX - 1024 ->
   ((0 < B2R (mnt x))%R /\ (0 < B2R (mnt y))%R \/ (B2R (mnt x) < 0)%R /\ (B2R (mnt y) < 0)%R) ->
     normalised (rdpe_sub x y) /\ rval (rdpe_sub x y) = (rval x - rval y)%R).
Proof.
  intros x y Nx Ny Zx Zy Lx Ly. split.
  - intro H. exact (proj2 (sub_shortcut_rel x y Nx Ny Zx Zy Lx Ly H)).
  - intros He HE Hs. exact (sub_cancel_exact x y Nx Ny Zx Zy He HE Hs).
Qed.
Print Assumptions C12_sub_rel_partial.
Example C12_sub_cancel_nonvacuous :    (* (1 - 2^-53) * 2^7 - 0.5 * 2^7: adjacent binade ends, exact *)
  let a : b64 := of_bits 4607182418800017407 in
  esp (rdpe_sub (Rdpe a 7) (Rdpe fhalf 7)) = 6 /\ to_bits (mnt (rdpe_sub (Rdpe a 7) (Rdpe fhalf 7))) = 4607182418800017406.
Proof. vm_compute. split; reflexivity. Qed.

(* rdpe_sqrt for even exponents: 1 ulp.  MISSING: odd exponents (m / 2 exact, then the same argument). *)
Theorem C12_sqrt_rel_partial : forall x, normalised x -> (0 < B2R (mnt x))%R -> Z.even (esp x) = true -> in_long (esp x) ->
  normalised (rdpe_sqrt x) /\
  (Rabs (rval (rdpe_sqrt x) - sqrt (rval x)) <= bpow radix2 (-53) * Rabs (sqrt (rval x)))%R.
Proof. exact sqrt_rel_even. Qed.
Print Assumptions C12_sqrt_rel_partial.

(* cdpe_div_eq (rc, c) as it was multiplies conj(c)/|c|^2 by c instead of rc: 2 / 4 = 1.
   Repaired by fixes/C12_cdpe_div_eq.patch (the model's cdpe_div_eq is cdpe_div). *)
Theorem C12_cdpe_div_eq_unfixed_refuted :
  let two := Cdpe (Rdpe fhalf 2) rdpe_zero in
  let four := Cdpe (Rdpe fhalf 3) rdpe_zero in
  (esp (cre (cdpe_div_eq_old two four)) = 1 /\ to_bits (mnt (cre (cdpe_div_eq_old two four))) = to_bits fhalf) /\
  (esp (cre (cdpe_div_eq two four)) = 0 /\ to_bits (mnt (cre (cdpe_div_eq two four))) = to_bits fhalf).
Proof. exact cdpe_div_eq_unfixed_refuted. Qed.
Print Assumptions C12_cdpe_div_eq_unfixed_refuted.

(* ================================================================================================== *)
(* Round 4: every branch of rdpe_add / rdpe_sub, rdpe_cmp, rdpe_sqrt, rdpe_pow_si, the complex          *)
(* operations, scaling, conversion to double, and "never wraps" at the level of each operation.         *)
(*   u53 = 2^-53;   rel_e e a v  :=  |a - v| <= e |v|;                                                  *)
(*   esp_mid e := LONG_MIN + 1074 <= e <= LONG_MAX - 1024  (one rdpe_Norm cannot leave the range)       *)
(* ================================================================================================== *)

(* rdpe_add, ALL branches, zero operands included: normalised result, 2 ulps in general (the shortcut that
   drops an operand more than 53 binades smaller), 1 ulp when |e1 - e2| <= 53 (ldexp exact, one rounded
   addition -- also under cancellation, Flocq FLT_plus_error_N_ex -- and an exact rdpe_Norm) *)
Theorem C12_add_rel : forall x y, normalised x -> normalised y ->
  LONG_MIN + 1074 <= esp x <= LONG_MAX - 1024 -> LONG_MIN + 1074 <= esp y <= LONG_MAX - 1024 ->
  normalised (rdpe_add x y) /\
  (Rabs (rval (rdpe_add x y) - (rval x + rval y)) <= 2 * bpow radix2 (-53) * Rabs (rval x + rval y))%R /\
  (-53 <= esp x - esp y <= 53 ->
   (Rabs (rval (rdpe_add x y) - (rval x + rval y)) <= bpow radix2 (-53) * Rabs (rval x + rval y))%R) /\
  (esp (rdpe_add x y) = 0 \/ Z.min (esp x) (esp y) - 1074 <= esp (rdpe_add x y) <= Z.max (esp x) (esp y) + 1024).
Proof. exact add_rel. Qed.
Print Assumptions C12_add_rel.
Theorem C12_add_eq_rel : forall x y, normalised x -> normalised y -> esp_mid (esp x) -> esp_mid (esp y) ->
  normalised (rdpe_add_eq x y) /\ rel_e (2 * u53) (rval (rdpe_add_eq x y)) (rval x + rval y) /\
  (-53 <= esp x - esp y <= 53 -> rel_e u53 (rval (rdpe_add_eq x y)) (rval x + rval y)) /\
  (esp (rdpe_add_eq x y) = 0 \/ Z.min (esp x) (esp y) - 1074 <= esp (rdpe_add_eq x y) <= Z.max (esp x) (esp y) + 1024).
Proof. exact add_eq_rel. Qed.
Print Assumptions C12_add_eq_rel.
Theorem C12_sub_rel : forall x y, normalised x -> normalised y ->
  LONG_MIN + 1074 <= esp x <= LONG_MAX - 1024 -> LONG_MIN + 1074 <= esp y <= LONG_MAX - 1024 ->
  normalised (rdpe_sub x y) /\
  (Rabs (rval (rdpe_sub x y) - (rval x - rval y)) <= 2 * bpow radix2 (-53) * Rabs (rval x - rval y))%R /\
  (-53 <= esp x - esp y <= 53 ->
   (Rabs (rval (rdpe_sub x y) - (rval x - rval y)) <= bpow radix2 (-53) * Rabs (rval x - rval y))%R) /\
  (esp (rdpe_sub x y) = 0 \/ Z.min (esp x) (esp y) - 1074 <= esp (rdpe_sub x y) <= Z.max (esp x) (esp y) + 1024).
Proof. exact sub_rel. Qed.
Print Assumptions C12_sub_rel.
Example C12_addsub_nonvacuous :   (* delta = 53 (rounded branch), delta = 54 (shortcut), cancellation to zero *)
  let a : b64 := of_bits 4607182418800017407 in     (* 1 - 2^-53 *)
  esp_mid 60 /\ esp_mid 7 /\ esp_mid 6 /\ normalised (Rdpe fhalf 60) /\
  to_bits (mnt (rdpe_add (Rdpe fhalf 60) (Rdpe a 7))) = 4602678819172646913 /\   (* 60 - 7 = 53: y still counts, last bit set *)
  same_rdpe (rdpe_add (Rdpe fhalf 60) (Rdpe a 6)) (Rdpe fhalf 60) /\             (* 60 - 6 = 54: dropped *)
  esp (rdpe_sub (Rdpe a 7) (Rdpe a 7)) = 0.
Proof.
  split. unfold esp_mid; vm_compute; split; intro; discriminate.
  split. unfold esp_mid; vm_compute; split; intro; discriminate.
  split. unfold esp_mid; vm_compute; split; intro; discriminate.
  split. apply normalised_half.
  vm_compute. repeat split; reflexivity.
Qed.

(* the shortcut branches, exactly: the operand of larger exponent is returned unchanged and the dropped operand
   is smaller than 2^-53 times it *)
Theorem C12_add_shortcut_exact : forall x y, normalised x -> normalised y -> nonzero x -> nonzero y ->
  esp_mid (esp x) -> esp_mid (esp y) ->
  (53 < esp x - esp y -> rdpe_add x y = x /\ (Rabs (rval y) < bpow radix2 (-53) * Rabs (rval x))%R) /\
  (53 < esp y - esp x -> rdpe_add x y = y /\ (Rabs (rval x) < bpow radix2 (-53) * Rabs (rval y))%R).
Proof. exact add_shortcut_exact. Qed.
Print Assumptions C12_add_shortcut_exact.
Theorem C12_sub_shortcut_exact : forall x y, normalised x -> normalised y -> nonzero x -> nonzero y ->
  esp_mid (esp x) -> esp_mid (esp y) ->
  (53 < esp x - esp y -> rdpe_sub x y = x /\ (Rabs (rval y) < bpow radix2 (-53) * Rabs (rval x))%R) /\
  (53 < esp y - esp x -> rdpe_sub x y = rdpe_neg y /\ (Rabs (rval x) < bpow radix2 (-53) * Rabs (rval y))%R).
Proof. exact sub_shortcut_exact. Qed.
Print Assumptions C12_sub_shortcut_exact.

(* rdpe_cmp (repaired code) is the order of the reals for ALL normalised operands (any signs, any exponent
   distance): the relative error of rdpe_sub is below 1, so the sign of the computed difference is exact *)
Theorem C12_cmp_correct : forall x y, normalised x -> normalised y -> esp_mid (esp x) -> esp_mid (esp y) ->
  rdpe_cmp x y = match Rcompare (rval x) (rval y) with Lt => -1 | Eq => 0 | Gt => 1 end.
Proof. exact cmp_correct. Qed.
Print Assumptions C12_cmp_correct.

(* rdpe_sqrt, zero / even / odd exponents (odd: m / 2 is exact), any exponent of long: 1 ulp *)
Theorem C12_sqrt_rel : forall x, normalised x -> (0 <= B2R (mnt x))%R -> in_long (esp x) ->
  normalised (rdpe_sqrt x) /\
  (Rabs (rval (rdpe_sqrt x) - sqrt (rval x)) <= bpow radix2 (-53) * Rabs (sqrt (rval x)))%R.
Proof. exact sqrt_rel. Qed.
Print Assumptions C12_sqrt_rel.
Example C12_sqrt_nonvacuous :    (* odd exponents at both ends of long, and 2 = 0.5 * 2^2 *)
  esp (rdpe_sqrt (Rdpe fhalf LONG_MAX)) = two62 /\ esp (rdpe_sqrt (Rdpe fhalf (LONG_MIN + 1))) = - two62 + 1 /\
  Z.odd LONG_MAX = true /\ esp (rdpe_sqrt (Rdpe fhalf 2)) = 1.
Proof. vm_compute. repeat split; reflexivity. Qed.

(* rdpe_pow_si as coded (repeated squaring; for i < 0 the inverse first): accumulated error (1 + 2^-53)^k - 1
   with k = i (i >= 0) or k = 2|i| (i < 0); no intermediate leaves the exponent range when
   2 |i| (|e| + 5) <= 2^61.  EpsZ k = (1 + 2^-53)^k - 1. *)
Theorem C12_pow_si_rel : forall x i, normalised x -> nonzero x ->
  2 * (Z.abs i * (Z.abs (esp x) + 5)) <= 2 ^ 61 ->
  normalised (rdpe_pow_si x i) /\
  (Rabs (rval (rdpe_pow_si x i) - powerRZ (rval x) i)
   <= ((1 + bpow radix2 (-53)) ^ Z.to_nat (if i <? 0 then 2 * - i else i) - 1) * Rabs (powerRZ (rval x) i))%R.
Proof. exact pow_si_rel. Qed.
Print Assumptions C12_pow_si_rel.
(* ... in ulps: at most k + 1 ulps as long as k (k + 1) <= 2^53 *)
Theorem C12_pow_si_ulps : forall x i, normalised x -> nonzero x ->
  2 * (Z.abs i * (Z.abs (esp x) + 5)) <= 2 ^ 61 -> pow_k i * (pow_k i + 1) <= 2 ^ 53 ->
  (Rabs (rval (rdpe_pow_si x i) - powerRZ (rval x) i)
   <= IZR (pow_k i + 1) * bpow radix2 (-53) * Rabs (powerRZ (rval x) i))%R.
Proof. exact pow_si_ulps. Qed.
Print Assumptions C12_pow_si_ulps.
Example C12_pow_si_nonvacuous :   (* 3^5 = 243 = 0.94921875 * 2^8 exactly; 2^-1 = 0.5; x^0 = 1 *)
  let three := Rdpe fthreeq 2 in
  normalised three /\ nonzero three /\ 2 * (Z.abs 5 * (Z.abs (esp three) + 5)) <= 2 ^ 61 /\
  esp (rdpe_pow_si three 5) = 8 /\ to_bits (mnt (rdpe_pow_si three 5)) = 4606725021962862592 /\
  same_rdpe (rdpe_pow_si (Rdpe fhalf 2) (-1)) (Rdpe fhalf 0) /\ same_rdpe (rdpe_pow_si three 0) rdpe_one.
Proof.
  split. apply normalised_threeq. split. apply normalised_threeq.
  vm_compute. repeat split; try reflexivity; try (intro; discriminate).
Qed.

(* rdpe_pow_si (x, LONG_MIN) as it was: `i = -i` wraps (UBSan: negation overflow), i stays negative and the
   arithmetic shift `i >>= 1` never reaches 0 -- the loop `while (i)` does not terminate.  The check replays the call
   on the real code under UBSan (which stops it at the negation).  Repaired by fixes/C12_pow_si_long_min.patch. *)
Theorem C12_pow_si_long_min_refuted :
  neg_wrap LONG_MIN = LONG_MIN /\ forall k : nat, pow_counter_old k (neg_wrap LONG_MIN) <> 0.
Proof. exact pow_si_long_min_refuted. Qed.
Print Assumptions C12_pow_si_long_min_refuted.
Example C12_pow_si_long_min_fixed :    (* repaired code: 64 rounds on the unsigned counter 2^63 *)
  same_rdpe (rdpe_pow_si (Rdpe fhalf 0) LONG_MIN) RDPE_MAX /\
  same_rdpe (rdpe_pow_si (Rdpe fhalf 2) LONG_MIN) (Rdpe fhalf (LONG_MIN + 1)) /\
  same_rdpe (rdpe_pow_si (Rdpe fhalf 3) LONG_MIN) RDPE_MIN /\
  same_rdpe (rdpe_pow_si (Rdpe fhalf 1) LONG_MIN) rdpe_one.
Proof. exact pow_si_long_min_fixed. Qed.

(* |c|^2 and |c| : 3 u + 2 u^2 (< 4 ulps) and 4 ulps *)
Theorem C12_csmod_rel : forall c, cnormalised c -> csmall c ->
  normalised (cdpe_smod c) /\
  rel_e (3 * u53 + 2 * u53 * u53) (rval (cdpe_smod c)) (rval (cre c) * rval (cre c) + rval (cim c) * rval (cim c)) /\
  esp_mid (esp (cdpe_smod c)) /\ (0 <= B2R (mnt (cdpe_smod c)))%R.
Proof. exact csmod_rel. Qed.
Print Assumptions C12_csmod_rel.
Theorem C12_cmod_rel : forall c, cnormalised c -> csmall c ->
  normalised (cdpe_mod c) /\
  (Rabs (rval (cdpe_mod c) - sqrt (rval (cre c) * rval (cre c) + rval (cim c) * rval (cim c)))
   <= 4 * bpow radix2 (-53) * Rabs (sqrt (rval (cre c) * rval (cre c) + rval (cim c) * rval (cim c))))%R.
Proof. exact cmod_rel. Qed.
Print Assumptions C12_cmod_rel.

(* cdpe_mul: error in complex modulus, |computed - exact|^2 <= 19 u^2 |exact|^2  (sqrt 19 < 4.36 ulps);
   the constant is 2 (3u + 2u^2)^2: each component carries one ulp per product and two for the sum,
   and (|ac| + |bd|)^2 + (|bc| + |ad|)^2 <= 2 |z|^2 |w|^2.   Components may be zero. *)
Theorem C12_cmul_rel : forall z w, cnormalised z -> cnormalised w -> csmall z -> csmall w ->
  let a := rval (cre z) in let b := rval (cim z) in let c := rval (cre w) in let d := rval (cim w) in
  let X := (rval (cre (cdpe_mul z w)) - (a * c - b * d))%R in
  let Y := (rval (cim (cdpe_mul z w)) - (b * c + a * d))%R in
  cnormalised (cdpe_mul z w) /\
  (X * X + Y * Y <= 19 * (u53 * u53) * ((a * c - b * d) * (a * c - b * d) + (b * c + a * d) * (b * c + a * d)))%R.
Proof. exact cmul_rel. Qed.
Print Assumptions C12_cmul_rel.
(* cdpe_sqr: |computed - exact|^2 <= 11 u^2 |exact|^2  (sqrt 11 < 3.32 ulps) *)
Theorem C12_csqr_rel : forall z, cnormalised z -> csmall z ->
  let a := rval (cre z) in let b := rval (cim z) in
  let X := (rval (cre (cdpe_sqr z)) - (a * a - b * b))%R in
  let Y := (rval (cim (cdpe_sqr z)) - 2 * (a * b))%R in
  cnormalised (cdpe_sqr z) /\
  (X * X + Y * Y <= 11 * (u53 * u53) * ((a * a - b * b) * (a * a - b * b) + 2 * (a * b) * (2 * (a * b))))%R.
Proof. exact csqr_rel. Qed.
Print Assumptions C12_csqr_rel.
Example C12_complex_nonvacuous :   (* (1 + i)(1 - i) = 2 ; |3 + 4i| = 5 = 0.625 * 2^3 *)
  let one_i := Cdpe (Rdpe fhalf 1) (Rdpe fhalf 1) in let one_mi := Cdpe (Rdpe fhalf 1) (Rdpe fmhalf 1) in
  cnormalised one_i /\ csmall one_i /\
  same_rdpe (cre (cdpe_mul one_i one_mi)) (Rdpe fhalf 2) /\ same_rdpe (cim (cdpe_mul one_i one_mi)) rdpe_zero /\
  let z34 := Cdpe (Rdpe fthreeq 2) (Rdpe fhalf 3) in
  esp (cdpe_mod z34) = 3 /\ to_bits (mnt (cdpe_mod z34)) = 4603804719079489536.
Proof.
  split. split; apply normalised_half.
  split. split; unfold esp_small; vm_compute; intro; discriminate.
  vm_compute. repeat split; reflexivity.
Qed.
(* (round 4 note: cdpe_inv, cdpe_div, cdpe_pow_si, cdpe_mul_x had no Coq error theorem; they have one now, see
   C12_cinv_rel, C12_cdiv_rel, C12_cpow_si_rel, C12_cmul_x_rel at the end of this file) *)

(* ---- "saturating instead of wrapping", operation by operation (repaired code) --------------------------------- *)
(* rdpe_Norm clamps: exponent = clamp (e + frexp exponent) for a non-zero mantissa, 0 for a zero one *)
Theorem C12_norm_clamps : forall (m : b64) (e : Z), is_finite m = true -> in_long e ->
  in_long (esp (rdpe_norm (Rdpe m e))) /\
  (B2R m <> 0%R -> esp (rdpe_norm (Rdpe m e)) = Z.max LONG_MIN (Z.min LONG_MAX (e + snd (ffrexp m)))) /\
  (B2R m = 0%R -> esp (rdpe_norm (Rdpe m e)) = 0).
Proof. exact norm_clamps. Qed.
Print Assumptions C12_norm_clamps.
(* rdpe_add_core (s = false) / rdpe_sub (s = true) for ANY exponents of long: the exponent of the result is an
   operand's exponent, 0, or clamp (max (e1, e2) + i) with i the frexp exponent of the rounded mantissa sum *)
Theorem C12_addsub_no_wrap : forall (s : bool) x y, normalised x -> normalised y -> nonzero x -> nonzero y ->
  in_long (esp x) -> in_long (esp y) ->
  let r := (if s then rdpe_sub else rdpe_add_core) x y in
  in_long (esp r) /\
  (esp r = esp x \/ esp r = esp y \/ esp r = 0 \/
   exists i, -1074 <= i <= 1024 /\ esp r = Z.max LONG_MIN (Z.min LONG_MAX (Z.max (esp x) (esp y) + i))).
Proof. exact addsub_no_wrap. Qed.
Print Assumptions C12_addsub_no_wrap.
(* rdpe_mul: a saturation test fires, or the C addition e1 + e2 (wrap64 in the model) is exact *)
Theorem C12_mul_no_wrap : forall x y, in_long (esp x) -> in_long (esp y) ->
  rdpe_mul x y = rdpe_mul_saturate (mnt x) (mnt y) true \/
  rdpe_mul x y = rdpe_mul_saturate (mnt x) (mnt y) false \/
  (LONG_MIN < esp x + esp y < LONG_MAX /\
   rdpe_mul x y = rdpe_norm (Rdpe (fmul (mnt x) (mnt y)) (esp x + esp y))).
Proof. exact mul_no_wrap. Qed.
Print Assumptions C12_mul_no_wrap.
(* rdpe_sqrt: the halved exponent lies within +-2^62, rdpe_Norm never has to clamp *)
Theorem C12_sqrt_no_wrap : forall x, in_long (esp x) ->
  exists (f : b64) (E : Z), rdpe_sqrt x = rdpe_norm (Rdpe f E) /\ - two62 <= E <= two62 /\
    (Z.odd (esp x) = false -> 2 * E = esp x) /\ (Z.odd (esp x) = true -> 2 * E = esp x + 1).
Proof. exact sqrt_no_wrap. Qed.
Print Assumptions C12_sqrt_no_wrap.
(* rdpe_inv, rdpe_sqr, rdpe_div: the exponent goes through rdpe_set_esp (C12_saturates) and then rdpe_Norm
   (C12_norm_clamps) by definition of the model: *)
Example C12_inv_sqr_div_shape : forall x y,
  rdpe_inv x = rdpe_norm (rdpe_set_esp (Rdpe (fdiv fone (mnt x)) (esp x)) 0 (esp x) true) /\
  rdpe_sqr x = rdpe_norm (rdpe_set_esp (Rdpe (fmul (mnt x) (mnt x)) (esp x)) (esp x) (esp x) false) /\
  rdpe_div x y = rdpe_norm (rdpe_set_esp (Rdpe (fdiv (mnt x) (mnt y)) (esp x)) (esp x) (esp y) true).
Proof. intros; repeat split; reflexivity. Qed.

(* scaling (rdpe_mul_2exp / rdpe_div_2exp = rdpe_shift_esp, 0 <= i <= LONG_MAX): exact in range, clamped outside.
   PARTIAL: i in (LONG_MAX, 2^64) (two or three rounds of the while loop) is covered by the differential only. *)
Theorem C12_scale_2exp_partial : forall x i (sub : bool), normalised x -> nonzero x -> in_long (esp x) -> 0 <= i <= LONG_MAX ->
  let r := rdpe_shift_esp x i sub in
  let s := if sub then esp x - i else esp x + i in
  esp r = Z.max LONG_MIN (Z.min LONG_MAX s) /\
  (in_long s -> r = Rdpe (mnt x) s /\ rval r = (rval x * bpow radix2 (if sub then - i else i))%R).
Proof. exact scale_2exp. Qed.
Print Assumptions C12_scale_2exp_partial.

(* conversion to double (repaired: exponent clamped to +-4096 before the int cast): correctly rounded to nearest
   even -- exact in the normal range, rounded into the subnormals, flushed to zero below -- for every value below
   2^1024.  PARTIAL: the result for e > 1024 (infinity) and the model-internal clamp below -2200 are covered by
   the differential only. *)
Theorem C12_get_d_partial : forall x, normalised x -> -2200 <= esp x <= 1024 ->
  is_finite (rdpe_get_d x) = true /\ B2R (rdpe_get_d x) = round radix2 (SpecFloat.fexp 53 1024) ZnearestE (rval x).
Proof. exact get_d_rounded. Qed.
Print Assumptions C12_get_d_partial.
Theorem C12_get_d_clamped : forall m e, (4096 < e -> rdpe_get_d (Rdpe m e) = rdpe_get_d (Rdpe m 4096)) /\
  (e < -4096 -> rdpe_get_d (Rdpe m e) = rdpe_get_d (Rdpe m (-4096))).
Proof. exact get_d_clamped. Qed.
Print Assumptions C12_get_d_clamped.
Example C12_get_d_nonvacuous :   (* 0.5 * 2^-1073 = 2^-1074 (smallest subnormal); 0.5 * 2^-1074 rounds to 0 (tie to even) *)
  to_bits (rdpe_get_d (Rdpe fhalf (-1073))) = 1 /\ to_bits (rdpe_get_d (Rdpe fhalf (-1074))) = 0 /\
  to_bits (rdpe_get_d (Rdpe fhalf 1025)) = 9218868437227405312 /\ to_bits (rdpe_get_d (Rdpe fhalf LONG_MAX)) = 9218868437227405312.
Proof. vm_compute. repeat split; reflexivity. Qed.

(* ================================================================================================== *)
(* Round 6: the former PARTIAL list.                                                                     *)
(*   *_fix = the function as repaired by fixes/C12_dpe_{mul,div}_d_mantissa_range.patch (DpeModel2.v);   *)
(*   sat_rdpe m s = the DPE (m, s) with s saturated to long: (m, s) in range, +-1/2 at LONG_MAX/LONG_MIN *)
(*   outside (sign of m);  half_sign m = +-1/2 with the sign of m.                                       *)
(* ================================================================================================== *)

(* ---- zero operands of rdpe_mul / rdpe_div (every exponent of long, saturation tests included) ------------------- *)
Theorem C12_mul_zero : forall x y, normalised x -> normalised y -> in_long (esp x) -> in_long (esp y) ->
  (~ nonzero x \/ ~ nonzero y) -> normalised (rdpe_mul x y) /\ rval (rdpe_mul x y) = 0%R.
Proof. exact mul_zero. Qed.
Print Assumptions C12_mul_zero.
Theorem C12_div_zero : forall x y, normalised x -> ~ nonzero x -> nonzero y ->
  normalised (rdpe_div x y) /\ rval (rdpe_div x y) = 0%R.
Proof. exact div_zero. Qed.
Print Assumptions C12_div_zero.
Example C12_mul_zero_nonvacuous :    (* 0 * 2^LONG_MAX (the overflow test fires) and 0 * 2^LONG_MIN: canonical zero *)
  same_rdpe (rdpe_mul rdpe_zero (Rdpe fhalf LONG_MAX)) rdpe_zero /\ same_rdpe (rdpe_mul (Rdpe fhalf LONG_MIN) rdpe_zero) rdpe_zero.
Proof. vm_compute. repeat split; reflexivity. Qed.

(* ---- the *_d variants -------------------------------------------------------------------------------------------------- *)
(* as they are: the double operation mantissa * d (mantissa / d) itself leaves the range of double;
   witnesses replayed on the real code by checks/C12.py (known findings rel:mul_d:..., rel:div_d:...) *)
Theorem C12_d_variants_unfixed_refuted :
  let x := Rdpe fthreeq 0 in let tiny : b64 := of_bits 1 in
  (to_bits (mnt (rdpe_mul_d x tiny)) = to_bits fhalf /\ esp (rdpe_mul_d x tiny) = -1073 /\
   to_bits (mnt (rdpe_mul_d_fix x tiny)) = to_bits fthreeq /\ esp (rdpe_mul_d_fix x tiny) = -1074) /\
  (to_bits (mnt (rdpe_div_d x tiny)) = 9218868437227405312 /\
   to_bits (mnt (rdpe_div_d_fix x tiny)) = to_bits fthreeq /\ esp (rdpe_div_d_fix x tiny) = 1074).
Proof. exact d_variants_unfixed_refuted. Qed.
Print Assumptions C12_d_variants_unfixed_refuted.

(* as repaired (d converted with rdpe_set_d, then the DPE x DPE function): one ulp for EVERY finite double d --
   zero, subnormal, DBL_MAX -- and every normalised x (zero included) whose exponent is 1100 away from the ends of long *)
Theorem C12_mul_d_rel : forall x d, normalised x -> is_finite d = true ->
  LONG_MIN + 1074 <= esp x <= LONG_MAX - 1026 ->
  normalised (rdpe_mul_d_fix x d) /\ rel_e u53 (rval (rdpe_mul_d_fix x d)) (rval x * B2R d).
Proof. exact mul_d_fix_rel. Qed.
Print Assumptions C12_mul_d_rel.
Theorem C12_div_d_rel : forall x d, normalised x -> is_finite d = true -> B2R d <> 0%R ->
  LONG_MIN + 1025 <= esp x <= LONG_MAX - 1075 ->
  normalised (rdpe_div_d_fix x d) /\ rel_e u53 (rval (rdpe_div_d_fix x d)) (rval x / B2R d).
Proof. exact div_d_fix_rel. Qed.
Print Assumptions C12_div_d_rel.
Example C12_d_rel_nonvacuous :     (* 3 * DBL_MIN and 3 / DBL_MAX-ish: exact through the repaired code *)
  let three := Rdpe fthreeq 2 in let dmin : b64 := of_bits 4503599627370496 in
  is_finite dmin = true /\ B2R dmin <> 0%R /\ LONG_MIN + 1074 <= esp three <= LONG_MAX - 1026 /\
  same_rdpe (rdpe_mul_d_fix three dmin) (Rdpe fthreeq (-1020)) /\ same_rdpe (rdpe_div_d_fix three dmin) (Rdpe fthreeq 1024).
Proof.
  split. reflexivity. split. { apply Rgt_not_eq. apply Rlt_gt. unfold B2R, F2R. vm_compute Fnum. vm_compute Fexp.
    apply Rmult_lt_0_compat; [apply IZR_lt; reflexivity|apply bpow_gt_0]. }
  vm_compute. repeat split; try reflexivity; intro; discriminate.
Qed.

(* cdpe_mul_e / cdpe_div_e (and their _eq forms), component by component: one ulp each, hence one ulp in modulus *)
Theorem C12_cmul_e_rel : forall c e, cnormalised c -> normalised e ->
  in_long (esp (cre c)) -> in_long (esp (cim c)) -> in_long (esp e) ->
  LONG_MIN + 1 <= esp (cre c) + esp e <= LONG_MAX - 2 -> LONG_MIN + 1 <= esp (cim c) + esp e <= LONG_MAX - 2 ->
  cnormalised (cdpe_mul_e c e) /\
  rel_e u53 (rval (cre (cdpe_mul_e c e))) (rval (cre c) * rval e) /\
  rel_e u53 (rval (cim (cdpe_mul_e c e))) (rval (cim c) * rval e).
Proof. exact cmul_e_rel. Qed.
Print Assumptions C12_cmul_e_rel.
Theorem C12_cdiv_e_rel : forall c e, cnormalised c -> normalised e -> nonzero e ->
  LONG_MIN + 1 <= esp (cre c) - esp e <= LONG_MAX - 2 -> LONG_MIN + 1 <= esp (cim c) - esp e <= LONG_MAX - 2 ->
  cnormalised (cdpe_div_e c e) /\
  rel_e u53 (rval (cre (cdpe_div_e c e))) (rval (cre c) / rval e) /\
  rel_e u53 (rval (cim (cdpe_div_e c e))) (rval (cim c) / rval e).
Proof. exact cdiv_e_rel. Qed.
Print Assumptions C12_cdiv_e_rel.
(* cdpe_mul_d / cdpe_div_d (and _eq) as repaired *)
Theorem C12_cmul_d_rel : forall c d, cnormalised c -> is_finite d = true ->
  LONG_MIN + 1074 <= esp (cre c) <= LONG_MAX - 1026 -> LONG_MIN + 1074 <= esp (cim c) <= LONG_MAX - 1026 ->
  cnormalised (cdpe_mul_d_fix c d) /\
  rel_e u53 (rval (cre (cdpe_mul_d_fix c d))) (rval (cre c) * B2R d) /\
  rel_e u53 (rval (cim (cdpe_mul_d_fix c d))) (rval (cim c) * B2R d).
Proof. exact cmul_d_fix_rel. Qed.
Print Assumptions C12_cmul_d_rel.
Theorem C12_cdiv_d_rel : forall c d, cnormalised c -> is_finite d = true -> B2R d <> 0%R ->
  LONG_MIN + 1025 <= esp (cre c) <= LONG_MAX - 1075 -> LONG_MIN + 1025 <= esp (cim c) <= LONG_MAX - 1075 ->
  cnormalised (cdpe_div_d_fix c d) /\
  rel_e u53 (rval (cre (cdpe_div_d_fix c d))) (rval (cre c) / B2R d) /\
  rel_e u53 (rval (cim (cdpe_div_d_fix c d))) (rval (cim c) / B2R d).
Proof. exact cdiv_d_fix_rel. Qed.
Print Assumptions C12_cdiv_d_rel.

(* ---- "saturating instead of wrapping" for whole operations, EVERY exponent of long (no `by shape`) ---------------- *)
(* rdpe_set_esp followed by rdpe_Norm (the tail of rdpe_inv, rdpe_sqr, rdpe_div, cdpe_mul_e, cdpe_div_e) is one
   saturating operation on a finite non-zero mantissa f with (z, i) = frexp f *)
Theorem C12_norm_set_esp_sat : forall (f : b64) (e0 a b : Z) (sub : bool),
  is_finite f = true -> B2R f <> 0%R -> in_long a -> in_long b ->
  let s := if sub then a - b else a + b in
  let r := rdpe_norm (rdpe_set_esp (Rdpe f e0) a b sub) in
  (in_long s -> r = sat_rdpe (fst (ffrexp f)) (s + snd (ffrexp f))) /\
  (LONG_MAX < s -> r = Rdpe (half_sign f) LONG_MAX) /\
  (s < LONG_MIN -> r = Rdpe (half_sign f) LONG_MIN) /\
  in_long (esp r) /\ half_sign (mnt r) = half_sign f.
Proof. exact norm_set_esp_sat. Qed.
Print Assumptions C12_norm_set_esp_sat.
(* sat_result r neg f s: r has its exponent in long; it is (frexp mantissa of f, s + frexp exponent) saturated when s is
   in range, +-1/2 at LONG_MAX / LONG_MIN when s is above / below; its sign is `neg`; the frexp exponent is in [-1, 2] *)
Theorem C12_inv_saturates : forall x, normalised x -> nonzero x -> in_long (esp x) ->
  sat_result (rdpe_inv x) (flt0 (mnt x)) (fdiv fone (mnt x)) (- esp x).
Proof. exact inv_saturates. Qed.
Print Assumptions C12_inv_saturates.
Theorem C12_sqr_saturates_full : forall x, normalised x -> nonzero x -> in_long (esp x) ->
  sat_result (rdpe_sqr x) false (fmul (mnt x) (mnt x)) (esp x + esp x).
Proof. exact sqr_saturates_full. Qed.
Print Assumptions C12_sqr_saturates_full.
Theorem C12_div_saturates : forall x y, normalised x -> normalised y -> nonzero x -> nonzero y ->
  in_long (esp x) -> in_long (esp y) ->
  sat_result (rdpe_div x y) (xorb (flt0 (mnt x)) (flt0 (mnt y))) (fdiv (mnt x) (mnt y)) (esp x - esp y).
Proof. exact div_saturates. Qed.
Print Assumptions C12_div_saturates.
(* rdpe_mul: +-RDPE_MAX (sign of the product) when e1 + e2 >= LONG_MAX, zero when e1 + e2 <= LONG_MIN (the C code flushes
   to zero here, rdpe_set_esp elsewhere saturates to +-RDPE_MIN: both are accepted by the property), otherwise the
   normalised product with the exact exponent sum saturated once *)
Theorem C12_mul_saturates : forall x y, normalised x -> normalised y -> nonzero x -> nonzero y ->
  in_long (esp x) -> in_long (esp y) ->
  let neg := xorb (flt0 (mnt x)) (flt0 (mnt y)) in
  let f := fmul (mnt x) (mnt y) in
  (LONG_MAX <= esp x + esp y -> rdpe_mul x y = Rdpe (if neg then fneg fhalf else fhalf) LONG_MAX) /\
  (esp x + esp y <= LONG_MIN -> rdpe_mul x y = rdpe_zero) /\
  (LONG_MIN < esp x + esp y < LONG_MAX ->
     rdpe_mul x y = sat_rdpe (fst (ffrexp f)) (esp x + esp y + snd (ffrexp f)) /\ -1 <= snd (ffrexp f) <= 2).
Proof. exact mul_saturates. Qed.
Print Assumptions C12_mul_saturates.
Example C12_op_saturates_nonvacuous :   (* 1 / (-0.5 * 2^LONG_MIN) = -2^(LONG_MAX + 2): saturates to -1/2 * 2^LONG_MAX *)
  let x := Rdpe fmhalf LONG_MIN in
  normalised x /\ in_long (esp x) /\ same_rdpe (rdpe_inv x) (Rdpe fmhalf LONG_MAX) /\
  same_rdpe (rdpe_div (Rdpe fhalf LONG_MIN) (Rdpe fmhalf 5)) (Rdpe fmhalf LONG_MIN).
Proof. split. apply normalised_mhalf. vm_compute. repeat split; try reflexivity; intro; discriminate. Qed.

(* ---- scaling by 2^i for EVERY unsigned long i (rdpe_mul_2exp, rdpe_div_2exp, the _eq and cdpe forms are rdpe_shift_esp) -- *)
Theorem C12_scale_2exp : forall x i (sub : bool), normalised x -> nonzero x -> in_long (esp x) -> 0 <= i <= ULONG_MAX ->
  rdpe_shift_esp x i sub = sat_rdpe (mnt x) (if sub then esp x - i else esp x + i).
Proof. exact shift_esp_full. Qed.
Print Assumptions C12_scale_2exp.
Theorem C12_scale_2exp_zero : forall x i (sub : bool), normalised x -> ~ nonzero x -> rdpe_shift_esp x i sub = x.
Proof. exact shift_esp_zero. Qed.
Print Assumptions C12_scale_2exp_zero.
Example C12_scale_2exp_nonvacuous :   (* i = ULONG_MAX: 2^LONG_MIN * 2^(2^64-1) = 2^LONG_MAX exactly (three rounds); one more saturates *)
  same_rdpe (rdpe_mul_2exp (Rdpe fthreeq LONG_MIN) ULONG_MAX) (Rdpe fthreeq LONG_MAX) /\
  same_rdpe (rdpe_mul_2exp (Rdpe fthreeq (LONG_MIN + 1)) ULONG_MAX) (Rdpe fhalf LONG_MAX) /\
  same_rdpe (rdpe_div_2exp (Rdpe fmhalf 7) (LONG_MAX + 10)) (Rdpe fmhalf LONG_MIN) /\
  same_rdpe (rdpe_div_2exp (Rdpe fmhalf LONG_MAX) (LONG_MAX + 10)) (Rdpe fmhalf (-10)).
Proof. vm_compute. repeat split; reflexivity. Qed.

(* ---- rdpe_set_2dl (d, l) = d * 2^l for every finite double and every long l -------------------------------------- *)
Theorem C12_set_2dl_full : forall (d : b64) (l : Z), is_finite d = true -> in_long l ->
  let r := rdpe_set_2dl d l in
  normalised r /\
  (B2R d = 0%R -> rval r = 0%R /\ esp r = 0) /\
  (B2R d <> 0%R ->
     r = sat_rdpe (fst (ffrexp d)) (l + snd (ffrexp d)) /\ -1073 <= snd (ffrexp d) <= 1024 /\
     (in_long (l + snd (ffrexp d)) -> rval r = (B2R d * bpow radix2 l)%R) /\
     (LONG_MAX < l + snd (ffrexp d) -> r = Rdpe (half_sign d) LONG_MAX) /\
     (l + snd (ffrexp d) < LONG_MIN -> r = Rdpe (half_sign d) LONG_MIN)).
Proof. exact set_2dl_full. Qed.
Print Assumptions C12_set_2dl_full.
Example C12_set_2dl_nonvacuous :    (* the smallest subnormal times 2^LONG_MAX is in range; 4 * 2^LONG_MAX saturates *)
  same_rdpe (rdpe_set_2dl (of_bits 1) LONG_MAX) (Rdpe fhalf (LONG_MAX - 1073)) /\
  same_rdpe (rdpe_set_2dl (of_bits 13839561654909534208) LONG_MAX) (Rdpe fmhalf LONG_MAX).
Proof. vm_compute. repeat split; reflexivity. Qed.

(* ---- conversion to double for every exponent: correctly rounded up to 2^1024 (also far below the subnormals: zero),
        infinity with the sign of the value above ------------------------------------------------------------------------ *)
Theorem C12_get_d_full : forall x, normalised x ->
  (esp x <= 1024 -> is_finite (rdpe_get_d x) = true /\
                    B2R (rdpe_get_d x) = round radix2 (SpecFloat.fexp 53 1024) ZnearestE (rval x)) /\
  (1024 < esp x -> nonzero x -> rdpe_get_d x = B754_infinity (Bsign (mnt x))).
Proof. exact get_d_full. Qed.
Print Assumptions C12_get_d_full.

(* ---- complex operations in modulus:  dist2 x y a b = (x-a)^2 + (y-b)^2,  mod2 a b = a^2 + b^2 --------------------------- *)
(* cdpe_add / cdpe_sub / cdpe_add_eq (cdpe_sub_eq is cdpe_sub): two ulps in modulus, zero components allowed;
   cmid c := both exponents in [LONG_MIN + 1074, LONG_MAX - 1024] *)
Theorem C12_cadd_rel : forall z w, cnormalised z -> cnormalised w -> cmid z -> cmid w ->
  cnormalised (cdpe_add z w) /\
  (dist2 (rval (cre (cdpe_add z w))) (rval (cim (cdpe_add z w))) (rval (cre z) + rval (cre w)) (rval (cim z) + rval (cim w))
   <= 4 * (u53 * u53) * mod2 (rval (cre z) + rval (cre w)) (rval (cim z) + rval (cim w)))%R.
Proof. exact cadd_rel. Qed.
Print Assumptions C12_cadd_rel.
Theorem C12_csub_rel : forall z w, cnormalised z -> cnormalised w -> cmid z -> cmid w ->
  cnormalised (cdpe_sub z w) /\
  (dist2 (rval (cre (cdpe_sub z w))) (rval (cim (cdpe_sub z w))) (rval (cre z) - rval (cre w)) (rval (cim z) - rval (cim w))
   <= 4 * (u53 * u53) * mod2 (rval (cre z) - rval (cre w)) (rval (cim z) - rval (cim w)))%R.
Proof. exact csub_rel. Qed.
Print Assumptions C12_csub_rel.
Theorem C12_cadd_eq_rel : forall z w, cnormalised z -> cnormalised w -> cmid z -> cmid w ->
  cnormalised (cdpe_add_eq z w) /\
  (dist2 (rval (cre (cdpe_add_eq z w))) (rval (cim (cdpe_add_eq z w))) (rval (cre z) + rval (cre w)) (rval (cim z) + rval (cim w))
   <= 4 * (u53 * u53) * mod2 (rval (cre z) + rval (cre w)) (rval (cim z) + rval (cim w)))%R.
Proof. exact cadd_eq_rel. Qed.
Print Assumptions C12_cadd_eq_rel.
Example C12_caddsub_nonvacuous :    (* (1 + i) - (1 + i) = 0 ;  (1 + i) + (1 - i) = 2 *)
  let one_i := Cdpe (Rdpe fhalf 1) (Rdpe fhalf 1) in let one_mi := Cdpe (Rdpe fhalf 1) (Rdpe fmhalf 1) in
  cnormalised one_i /\ cmid one_i /\ same_rdpe (cre (cdpe_sub one_i one_i)) rdpe_zero /\
  same_rdpe (cre (cdpe_add one_i one_mi)) (Rdpe fhalf 2) /\ same_rdpe (cim (cdpe_add one_i one_mi)) rdpe_zero.
Proof.
  split. split; apply normalised_half.
  split. split; unfold esp_mid; vm_compute; split; intro; discriminate.
  vm_compute. repeat split; reflexivity.
Qed.

(* cdpe_mul with the second operand's exponents up to 2^62 (what cdpe_div needs); esp_le x B := |esp x| <= B *)
Theorem C12_cmul_rel_gen : forall z w, cnormalised z -> cnormalised w -> csmall z ->
  esp_le (cre w) (2 ^ 62) -> esp_le (cim w) (2 ^ 62) ->
  let a := rval (cre z) in let b := rval (cim z) in let c := rval (cre w) in let d := rval (cim w) in
  cnormalised (cdpe_mul z w) /\
  (dist2 (rval (cre (cdpe_mul z w))) (rval (cim (cdpe_mul z w))) (a * c - b * d) (b * c + a * d)
   <= 19 * (u53 * u53) * (mod2 a b * mod2 c d))%R.
Proof. exact cmul_rel_gen. Qed.
Print Assumptions C12_cmul_rel_gen.

(* cdpe_inv (and cdpe_inv_eq), as coded: e = 1 / (|c|^2 computed), Re = Re c * e, Im = - Im c * e:
   six ulps per component ((1+u)^2 (1 + s + 2 s^2) - 1 with s = 3u + 2u^2, about 5.1 u), hence six ulps in modulus *)
Theorem C12_cinv_rel : forall c, cnormalised c -> csmall c -> (mod2 (rval (cre c)) (rval (cim c)) <> 0)%R ->
  let a := rval (cre c) in let b := rval (cim c) in let s := mod2 a b in
  cnormalised (cdpe_inv c) /\
  rel_e (6 * u53) (rval (cre (cdpe_inv c))) (a / s) /\ rel_e (6 * u53) (rval (cim (cdpe_inv c))) (- b / s) /\
  esp_le (cre (cdpe_inv c)) (2 ^ 62) /\ esp_le (cim (cdpe_inv c)) (2 ^ 62).
Proof. exact cinv_rel. Qed.
Print Assumptions C12_cinv_rel.
Theorem C12_cinv_mod : forall c, cnormalised c -> csmall c -> (mod2 (rval (cre c)) (rval (cim c)) <> 0)%R ->
  let a := rval (cre c) in let b := rval (cim c) in let s := mod2 a b in
  cnormalised (cdpe_inv c) /\
  (dist2 (rval (cre (cdpe_inv c))) (rval (cim (cdpe_inv c))) (a / s) (- b / s) <= 36 * (u53 * u53) * mod2 (a / s) (- b / s))%R.
Proof. exact cinv_mod. Qed.
Print Assumptions C12_cinv_mod.

(* cdpe_div (cdpe_div_eq is the same function of its arguments since fixes/C12_cdpe_div_eq.patch), as coded:
   t = conj (w) / |w|^2 through cdpe_div_e, then the complex product z * t.  With 1/w = w1 + i w2:
   |computed - z/w|^2 <= 72 u^2 |z|^2 |1/w|^2   (sqrt 72 < 8.5 ulps) *)
Theorem C12_cdiv_rel : forall z w, cnormalised z -> cnormalised w -> csmall z -> csmall w ->
  (mod2 (rval (cre w)) (rval (cim w)) <> 0)%R ->
  let a := rval (cre z) in let b := rval (cim z) in
  let s := mod2 (rval (cre w)) (rval (cim w)) in
  let w1 := (rval (cre w) / s)%R in let w2 := (- rval (cim w) / s)%R in
  cnormalised (cdpe_div z w) /\
  (dist2 (rval (cre (cdpe_div z w))) (rval (cim (cdpe_div z w))) (a * w1 - b * w2) (b * w1 + a * w2)
   <= 72 * (u53 * u53) * (mod2 a b * mod2 w1 w2))%R.
Proof. exact cdiv_rel. Qed.
Print Assumptions C12_cdiv_rel.
Example C12_cinv_cdiv_nonvacuous :    (* 1 / (2i) = -i/2 ;  (3 + 4i) / (3 + 4i) = 1 up to the last bits *)
  let two_i := Cdpe rdpe_zero (Rdpe fhalf 2) in let z34 := Cdpe (Rdpe fthreeq 2) (Rdpe fhalf 3) in
  cnormalised two_i /\ csmall two_i /\
  same_rdpe (cre (cdpe_inv two_i)) rdpe_zero /\ same_rdpe (cim (cdpe_inv two_i)) (Rdpe fmhalf 0) /\
  esp (cre (cdpe_div z34 z34)) = 1 /\ cdpe_div_eq z34 z34 = cdpe_div z34 z34.
Proof.
  split. split; [split; [reflexivity|left; split; reflexivity]|apply normalised_half].
  split. split; unfold esp_small; vm_compute; intro; discriminate.
  split. vm_compute; split; reflexivity. split. vm_compute; split; reflexivity.
  split. vm_compute; reflexivity. reflexivity.
Qed.

(* cdpe_mul_x / cdpe_mul_eq_x with the repaired rdpe_mul_d: the complex product by the converted pair, k^2 = 19,
   for ALL finite doubles (zero, subnormal, DBL_MAX) *)
Theorem C12_cmul_x_rel : forall c xr xi, cnormalised c -> csmall c -> is_finite xr = true -> is_finite xi = true ->
  let a := rval (cre c) in let b := rval (cim c) in let p := B2R xr in let q := B2R xi in
  cnormalised (cdpe_mul_x_fix c xr xi) /\
  (dist2 (rval (cre (cdpe_mul_x_fix c xr xi))) (rval (cim (cdpe_mul_x_fix c xr xi))) (a * p - b * q) (b * p + a * q)
   <= 19 * (u53 * u53) * (mod2 a b * mod2 p q))%R.
Proof. exact cmul_x_fix_rel. Qed.
Print Assumptions C12_cmul_x_rel.
(* cdpe_mul_d / cdpe_div_d as repaired, in modulus: one ulp *)
Theorem C12_cmul_d_mod : forall c d, cnormalised c -> is_finite d = true ->
  LONG_MIN + 1074 <= esp (cre c) <= LONG_MAX - 1026 -> LONG_MIN + 1074 <= esp (cim c) <= LONG_MAX - 1026 ->
  cnormalised (cdpe_mul_d_fix c d) /\
  (dist2 (rval (cre (cdpe_mul_d_fix c d))) (rval (cim (cdpe_mul_d_fix c d))) (rval (cre c) * B2R d) (rval (cim c) * B2R d)
   <= u53 * u53 * mod2 (rval (cre c) * B2R d) (rval (cim c) * B2R d))%R.
Proof. exact cmul_d_fix_mod. Qed.
Print Assumptions C12_cmul_d_mod.
Theorem C12_cdiv_d_mod : forall c d, cnormalised c -> is_finite d = true -> B2R d <> 0%R ->
  LONG_MIN + 1025 <= esp (cre c) <= LONG_MAX - 1075 -> LONG_MIN + 1025 <= esp (cim c) <= LONG_MAX - 1075 ->
  cnormalised (cdpe_div_d_fix c d) /\
  (dist2 (rval (cre (cdpe_div_d_fix c d))) (rval (cim (cdpe_div_d_fix c d))) (rval (cre c) / B2R d) (rval (cim c) / B2R d)
   <= u53 * u53 * mod2 (rval (cre c) / B2R d) (rval (cim c) / B2R d))%R.
Proof. exact cdiv_d_fix_mod. Qed.
Print Assumptions C12_cdiv_d_mod.

(* ---- cdpe_pow_si / cdpe_pow_eq_si as coded: repeated squaring on the unsigned counter |i| with cdpe_mul_eq and cdpe_sqr_eq,
   cdpe_inv first for i < 0.  Vocabulary (DpeCpowDefs.v): complex numbers as pairs of reals, cval c = (Re, Im),
   cmulR, cinvR, cpowR / cpowRZ the exact power,  crel e p v := |p - v| <= e |v| (squared),  Gp g n = (1+g)^n - 1,
   g19 = 4.36 u (> sqrt 19 u: one complex product), g6 = 6 u (cdpe_inv), cesp c = largest |exponent| of the components.
   Accumulated error in modulus (1+g19)^i - 1 for i >= 0 and (1+g19)^|i| (1+g6)^|i| - 1 for i < 0; the range hypothesis
   keeps every intermediate inside |e| <= 2^60 *)
Theorem C12_cpow_si_rel : forall c i, cnormalised c -> (i < 0 -> (m2 (cval c) <> 0)%R) ->
  Z.abs i * (3 * cesp c + 2200) <= 2 ^ 59 ->
  let n := Z.to_nat (Z.abs i) in
  cnormalised (cdpe_pow_si c i) /\
  crel (if i <? 0 then Gp g19 n + Gp g6 n + Gp g19 n * Gp g6 n else Gp g19 n)%R (cval (cdpe_pow_si c i)) (cpowRZ (cval c) i).
Proof. exact cpow_si_rel. Qed.
Print Assumptions C12_cpow_si_rel.
(* ... in ulps: 4.36 (i + 1) for i >= 0 and 10.37 (|i| + 1) for i < 0, as long as 11 |i| (|i| + 1) <= 2^53 *)
Theorem C12_cpow_si_ulps : forall c i, cnormalised c -> (i < 0 -> (m2 (cval c) <> 0)%R) ->
  Z.abs i * (3 * cesp c + 2200) <= 2 ^ 59 -> 11 * (Z.abs i * (Z.abs i + 1)) <= 2 ^ 53 ->
  crel (IZR (Z.abs i + 1) * (if i <? 0 then 1037 / 100 * u53 else 436 / 100 * u53))%R
       (cval (cdpe_pow_si c i)) (cpowRZ (cval c) i).
Proof. exact cpow_si_ulps. Qed.
Print Assumptions C12_cpow_si_ulps.
(* the loop itself, for any fuel, counter and partial products (the invariant of the induction) *)
Theorem C12_cpow_loop_rel : forall (w : R * R) (B : Z), 1076 <= B ->
  forall (fuel : nat) (rc t : cdpe) (i p q : Z),
  0 <= i < 2 ^ Z.of_nat fuel -> 0 <= p -> 1 <= q ->
  cnormalised rc -> crel (GpZ g19 p) (cval rc) (cpowZ w p) ->
  cnormalised t -> crel (GpZ g19 (q - 1)) (cval t) (cpowZ w q) ->
  cesp rc <= 1 + p * B -> cesp t + 1076 <= q * B ->
  (p + q * i) * B <= 2 ^ 59 ->
  let r := cpow_loop rdpe_mul fuel rc t i in
  cnormalised r /\ crel (GpZ g19 (p + q * i)) (cval r) (cpowZ w (p + q * i)) /\ cesp r <= 1 + (p + q * i) * B.
Proof. exact cpow_loop_rel. Qed.
Print Assumptions C12_cpow_loop_rel.
Example C12_cpow_si_nonvacuous :    (* (1 + i)^2 = 2i, (1 + i)^8 = 16, (2i)^-1 = -i/2, z^0 = 1 *)
  let one_i := Cdpe (Rdpe fhalf 1) (Rdpe fhalf 1) in let two_i := Cdpe rdpe_zero (Rdpe fhalf 2) in
  cnormalised one_i /\ cesp one_i = 1 /\ Z.abs 8 * (3 * cesp one_i + 2200) <= 2 ^ 59 /\
  same_rdpe (cre (cdpe_pow_si one_i 2)) rdpe_zero /\ same_rdpe (cim (cdpe_pow_si one_i 2)) (Rdpe fhalf 2) /\
  same_rdpe (cre (cdpe_pow_si one_i 8)) (Rdpe fhalf 5) /\ same_rdpe (cim (cdpe_pow_si one_i 8)) rdpe_zero /\
  same_rdpe (cim (cdpe_pow_si two_i (-1))) (Rdpe fmhalf 0) /\ same_rdpe (cre (cdpe_pow_si one_i 0)) rdpe_one.
Proof.
  split. split; apply normalised_half.
  vm_compute. repeat split; try reflexivity; intro; discriminate.
Qed.

(* ---- the *_d variants AS THEY ARE in mt.c today (DpeModel.rdpe_mul_d / rdpe_div_d, also what C04 and C08 model):
   one ulp under the explicit hypothesis that the double operation mantissa * d (mantissa / d) lands in the normal range
   [2^-1022, 2^1023] (or is exactly zero); C12_d_variants_unfixed_refuted shows the hypothesis cannot be dropped ------------- *)
Theorem C12_mul_d_asis_rel : forall x d, normalised x -> is_finite d = true ->
  LONG_MIN + 1100 <= esp x <= LONG_MAX - 1100 ->
  ((B2R (mnt x) * B2R d = 0)%R \/ (bpow radix2 (-1022) <= Rabs (B2R (mnt x) * B2R d) <= bpow radix2 1023)%R) ->
  normalised (rdpe_mul_d x d) /\ rel_e u53 (rval (rdpe_mul_d x d)) (rval x * B2R d).
Proof. exact mul_d_asis_rel. Qed.
Print Assumptions C12_mul_d_asis_rel.
Theorem C12_div_d_asis_rel : forall x d, normalised x -> is_finite d = true -> B2R d <> 0%R ->
  LONG_MIN + 1100 <= esp x <= LONG_MAX - 1100 ->
  ((B2R (mnt x) = 0)%R \/ (bpow radix2 (-1022) <= Rabs (B2R (mnt x) / B2R d) <= bpow radix2 1023)%R) ->
  normalised (rdpe_div_d x d) /\ rel_e u53 (rval (rdpe_div_d x d)) (rval x / B2R d).
Proof. exact div_d_asis_rel. Qed.
Print Assumptions C12_div_d_asis_rel.
Example C12_d_asis_nonvacuous :     (* 3 * 2 = 6 and 3 / 2 = 1.5 through the code as it is: same bits as the repaired code *)
  let three := Rdpe fthreeq 2 in
  same_rdpe (rdpe_mul_d three ftwo) (Rdpe fthreeq 3) /\ same_rdpe (rdpe_div_d three ftwo) (Rdpe fthreeq 1) /\
  same_rdpe (rdpe_mul_d three ftwo) (rdpe_mul_d_fix three ftwo).
Proof. vm_compute. repeat split; reflexivity. Qed.
