(* C12 -- DPE numbers behave like the reals they represent: the statements.
   Model: MPSV.Dpe.DpeModel (rdpe_* / cdpe_* of mt.c, branch by branch, over Flocq binary64 and
   integer exponents with explicit 64/32-bit wrap).  rval x = B2R (mnt x) * 2^(esp x).
   The model follows the code as changed by fixes/C12_*.patch; *_old is the code as it was.  *)
From Coq Require Import ZArith Reals.
From Flocq Require Import Core BinarySingleNaN.
Require Import MPSV.Dpe.DpeDefs MPSV.Dpe.DpeModel MPSV.Dpe.DpeProps.
Open Scope Z_scope.

(* rdpe_Norm returns a normalised value denoting exactly the same real (exponent sum in range) *)
Theorem C12_norm_exact : forall (m : b64) (e : Z),
  is_finite m = true -> in_long (e + snd (ffrexp m)) ->
  normalised (rdpe_norm (Rdpe m e)) /\ rval (rdpe_norm (Rdpe m e)) = rval (Rdpe m e).
Proof. exact norm_exact. Qed.
Print Assumptions C12_norm_exact.
Example C12_norm_exact_nonvacuous :   (* 3.0 = 0.75 * 2^2, stored with exponent 7 *)
  let m : b64 := of_bits 4613937818241073152 in
  is_finite m = true /\ in_long (7 + snd (ffrexp m)) /\ esp (rdpe_norm (Rdpe m 7)) = 9.
Proof. vm_compute. repeat split; intro; discriminate. Qed.

(* conversion from double is exact and normalised, for every finite double *)
Theorem C12_conv_double : forall d : b64, is_finite d = true ->
  normalised (rdpe_set_d d) /\ rval (rdpe_set_d d) = B2R d.
Proof. exact conv_double. Qed.
Print Assumptions C12_conv_double.

(* the ordering operators (as fixed by fixes/C12_rdpe_compare.patch) agree with the order of the
   represented reals for ALL normalised operands: zero, positive, negative, any exponents *)
Theorem C12_order_correct : forall (o : ordop) (x y : rdpe),
  normalised x -> normalised y -> in_long (esp x) -> in_long (esp y) ->
  (rdpe_ord o x y = true <->
   match o with OLt => (rval x < rval y)%R | OLe => (rval x <= rval y)%R
              | OGt => (rval x > rval y)%R | OGe => (rval x >= rval y)%R end).
Proof. exact order_correct. Qed.
Print Assumptions C12_order_correct.
Example C12_order_correct_nonvacuous :   (* -4 and -1: normalised, both negative, different exponents *)
  normalised (Rdpe fmhalf 3) /\ normalised (Rdpe fmhalf 1) /\ in_long 3 /\ in_long 1 /\
  rdpe_lt (Rdpe fmhalf 3) (Rdpe fmhalf 1) = true /\ rdpe_lt (Rdpe fhalf 1) (Rdpe fmhalf 1) = false.
Proof.
  split. apply normalised_mhalf. split. apply normalised_mhalf.
  vm_compute. repeat split; intro; discriminate.
Qed.

(* ... and the operators as they were are wrong: 1 < -1 is true, -4 < -1 is false *)
Theorem C12_order_unfixed_refuted :
  rdpe_lt_old (Rdpe fhalf 1) (Rdpe fmhalf 1) = true /\ rdpe_lt_old (Rdpe fmhalf 3) (Rdpe fmhalf 1) = false.
Proof. exact order_unfixed_refuted. Qed.
Print Assumptions C12_order_unfixed_refuted.

(* rdpe_cmp through the wrapping exponent distance: RDPE_MAX compares below RDPE_MIN; fixed by
   fixes/C12_rdpe_add_delta_overflow.patch *)
Theorem C12_cmp_unfixed_refuted :
  rdpe_cmp_old (Rdpe fhalf LONG_MAX) (Rdpe fhalf LONG_MIN) = -1 /\
  rdpe_cmp (Rdpe fhalf LONG_MAX) (Rdpe fhalf LONG_MIN) = 1.
Proof. exact cmp_unfixed_refuted. Qed.
Print Assumptions C12_cmp_unfixed_refuted.

(* relative error <= 2^-53 (one ulp) and normalised result, exponents in range *)
Theorem C12_mul_rel : forall x y, normalised x -> normalised y -> nonzero x -> nonzero y ->
  LONG_MIN + 1 <= esp x + esp y <= LONG_MAX - 2 ->
  normalised (rdpe_mul x y) /\
  (Rabs (rval (rdpe_mul x y) - rval x * rval y) <= bpow radix2 (-53) * Rabs (rval x * rval y))%R.
Proof. exact mul_rel. Qed.
Print Assumptions C12_mul_rel.

Theorem C12_sqr_rel : forall x, normalised x -> nonzero x ->
  LONG_MIN + 1 <= esp x + esp x <= LONG_MAX - 2 ->
  normalised (rdpe_sqr x) /\
  (Rabs (rval (rdpe_sqr x) - rval x * rval x) <= bpow radix2 (-53) * Rabs (rval x * rval x))%R.
Proof. exact sqr_rel. Qed.
Print Assumptions C12_sqr_rel.

Theorem C12_div_rel : forall x y, normalised x -> normalised y -> nonzero x -> nonzero y ->
  LONG_MIN + 1 <= esp x - esp y <= LONG_MAX - 2 ->
  normalised (rdpe_div x y) /\
  (Rabs (rval (rdpe_div x y) - rval x / rval y) <= bpow radix2 (-53) * Rabs (rval x / rval y))%R.
Proof. exact div_rel. Qed.
Print Assumptions C12_div_rel.
Example C12_rel_nonvacuous :
  normalised (Rdpe fhalf 5) /\ nonzero (Rdpe fhalf 5) /\ LONG_MIN + 1 <= 5 + 5 <= LONG_MAX - 2.
Proof. split. apply normalised_half. split. apply nonzero_half. vm_compute. split; intro; discriminate. Qed.

Theorem C12_inv_rel : forall x, normalised x -> nonzero x ->
  LONG_MIN + 1 <= - esp x <= LONG_MAX - 2 ->
  normalised (rdpe_inv x) /\
  (Rabs (rval (rdpe_inv x) - / rval x) <= bpow radix2 (-53) * Rabs (/ rval x))%R.
Proof. exact inv_rel. Qed.
Print Assumptions C12_inv_rel.

(* "saturating instead of wrapping on exponent overflow", repaired code
   (fixes/C12_rdpe_exponent_saturation.patch, C12_rdpe_2exp_saturation.patch): every exponent sum or
   difference of rdpe_Norm, rdpe_inv, rdpe_sqr(_eq), rdpe_div(_eq), rdpe_*_2exp, cdpe_mul_e, cdpe_div_e,
   cdpe_sqr goes through rdpe_set_esp, which never wraps: in range it is exact, above LONG_MAX the value
   becomes +-1/2 * 2^LONG_MAX, below LONG_MIN +-1/2 * 2^LONG_MIN, sign of the mantissa kept *)
Theorem C12_saturates : forall (m : b64) (e0 a b : Z) (sub : bool),
  is_finite m = true -> B2R m <> 0%R -> in_long a -> in_long b ->
  let s := if sub then a - b else a + b in
  let r := rdpe_set_esp (Rdpe m e0) a b sub in
  in_long (esp r) /\
  (in_long s -> r = Rdpe m s) /\
  (LONG_MAX < s -> r = Rdpe (if flt0 m then fmhalf else fhalf) LONG_MAX) /\
  (s < LONG_MIN -> r = Rdpe (if flt0 m then fmhalf else fhalf) LONG_MIN).
Proof. exact set_esp_saturates. Qed.
Print Assumptions C12_saturates.

(* ... and at the level of an operation: the square of a normalised number whose exponent doubles out
   of the range of long is exactly RDPE_MAX / RDPE_MIN (same exponent, same mantissa bits) *)
Theorem C12_sqr_saturates : forall x, normalised x -> nonzero x -> in_long (esp x) ->
  (LONG_MAX < esp x + esp x -> same_rdpe (rdpe_sqr x) RDPE_MAX) /\
  (esp x + esp x < LONG_MIN -> same_rdpe (rdpe_sqr x) RDPE_MIN).
Proof. exact sqr_saturates. Qed.
Print Assumptions C12_sqr_saturates.
Example C12_saturates_nonvacuous :   (* the operands of the refutation below, through the repaired code *)
  (esp (rdpe_sqr (Rdpe fhalf two62)) = LONG_MAX /\ esp (rdpe_sqr (Rdpe fhalf (two62 + 1))) = LONG_MAX /\
   to_bits (mnt (rdpe_sqr (Rdpe fhalf (two62 + 1)))) = to_bits fhalf) /\
  esp (rdpe_sqrt RDPE_MAX) = two62 /\
  (esp (rdpe_inv (Rdpe fhalf LONG_MIN)) = LONG_MAX /\ to_bits (mnt (rdpe_inv (Rdpe fhalf LONG_MIN))) = to_bits fhalf) /\
  esp (rdpe_mul_2exp (Rdpe fhalf LONG_MAX) 1) = LONG_MAX /\
  rdpe_mul_2exp rdpe_zero 5 = rdpe_zero.
Proof. exact saturates_witnesses_fixed. Qed.

(* the code as it was does NOT saturate: witnesses with normalised in-range operands
   (each is replayed on the real functions by checks/C12.py) *)
Theorem C12_saturates_refuted :
  (esp (rdpe_sqr_old (Rdpe fhalf two62)) = LONG_MAX /\ to_bits (mnt (rdpe_sqr_old (Rdpe fhalf two62))) = to_bits fhalf /\
   esp (rdpe_sqr_old (Rdpe fhalf (two62 + 1))) = LONG_MIN + 1) /\
  esp (rdpe_sqrt_old RDPE_MAX) = - two62 /\
  esp (rdpe_inv_old (Rdpe fhalf LONG_MIN)) = LONG_MIN + 2 /\
  (esp (rdpe_mul_old (Rdpe fhalf LONG_MIN) (Rdpe fhalf (-1))) = LONG_MAX /\
   to_bits (mnt (rdpe_mul_old (Rdpe fhalf LONG_MIN) (Rdpe fhalf (-1)))) = to_bits fhalf) /\
  to_bits (rdpe_get_d_old (Rdpe fhalf 4294967296)) = to_bits fhalf /\
  esp (rdpe_mul_2exp_old (Rdpe fhalf LONG_MAX) 1) = LONG_MIN.
Proof. exact saturates_refuted. Qed.
Print Assumptions C12_saturates_refuted.

(* ---- partial results (what is missing is said for each) --------------------------------------- *)

(* rdpe_cmp on the repaired code agrees with the real order when rdpe_sub computes the difference
   exactly: an operand is zero, or same sign and same exponent.  MISSING: operands of different
   exponents / mixed signs (the rounded branches of rdpe_sub; sign preservation of the rounding). *)
Theorem C12_cmp_correct_partial : forall x y, normalised x -> normalised y -> in_long (esp x) ->
  (B2R (mnt y) = 0%R \/ B2R (mnt x) = 0%R \/
   (esp x = esp y /\ ((0 < B2R (mnt x))%R /\ (0 < B2R (mnt y))%R \/ (B2R (mnt x) < 0)%R /\ (B2R (mnt y) < 0)%R))) ->
  rdpe_cmp x y = match Rcompare (rval x) (rval y) with Lt => -1 | Eq => 0 | Gt => 1 end.
Proof. exact cmp_correct_partial. Qed.
Print Assumptions C12_cmp_correct_partial.

(* rdpe_add, the exponent-distance shortcut (delta > 53): the small operand is dropped, 2 ulps.
   MISSING: the branches 0 <= |delta| <= 53 (ldexp exact + one rounded addition, 1 ulp). *)
Theorem C12_add_rel_partial : forall x y, normalised x -> normalised y -> nonzero x -> nonzero y ->
  in_long (esp x) -> in_long (esp y) -> esp x < LONG_MAX -> 53 < esp x - esp y ->
  rdpe_add x y = x /\
  (Rabs (rval (rdpe_add x y) - (rval x + rval y)) <= 2 * bpow radix2 (-53) * Rabs (rval x + rval y))%R.
Proof. exact add_shortcut_rel. Qed.
Print Assumptions C12_add_rel_partial.

(* rdpe_sub: the shortcut (2 ulps) and the cancellation case (same sign, same exponent: EXACT, Sterbenz).
   MISSING: 0 < |delta| <= 53 and mixed signs at delta = 0. *)
Theorem C12_sub_rel_partial : forall x y, normalised x -> normalised y -> nonzero x -> nonzero y ->
  in_long (esp x) -> in_long (esp y) ->
  (53 < esp x - esp y ->
     (Rabs (rval (rdpe_sub x y) - (rval x - rval y)) <= 2 * bpow radix2 (-53) * Rabs (rval x - rval y))%R) /\
  (esp x = esp y -> LONG_MIN + 1074 <= esp x <= LONG_MAX - 1024 ->
   ((0 < B2R (mnt x))%R /\ (0 < B2R (mnt y))%R \/ (B2R (mnt x) < 0)%R /\ (B2R (mnt y) < 0)%R) ->
     normalised (rdpe_sub x y) /\ rval (rdpe_sub x y) = (rval x - rval y)%R).
Proof.
  intros x y Nx Ny Zx Zy Lx Ly. split.
  - intro H. exact (proj2 (sub_shortcut_rel x y Nx Ny Zx Zy Lx Ly H)).
  - intros He HE Hs. exact (sub_cancel_exact x y Nx Ny Zx Zy He HE Hs).
Qed.
Print Assumptions C12_sub_rel_partial.
Example C12_sub_cancel_nonvacuous :    (* (1 - 2^-53) * 2^7 - 0.5 * 2^7: adjacent binade ends, exact *)
  let a : b64 := of_bits 4607182418800017407 in
  esp (rdpe_sub (Rdpe a 7) (Rdpe fhalf 7)) = 6 /\ to_bits (mnt (rdpe_sub (Rdpe a 7) (Rdpe fhalf 7))) = 4607182418800017406.
Proof. vm_compute. split; reflexivity. Qed.

(* rdpe_sqrt for even exponents: 1 ulp.  MISSING: odd exponents (m / 2 exact, then the same argument). *)
Theorem C12_sqrt_rel_partial : forall x, normalised x -> (0 < B2R (mnt x))%R -> Z.even (esp x) = true -> in_long (esp x) ->
  normalised (rdpe_sqrt x) /\
  (Rabs (rval (rdpe_sqrt x) - sqrt (rval x)) <= bpow radix2 (-53) * Rabs (sqrt (rval x)))%R.
Proof. exact sqrt_rel_even. Qed.
Print Assumptions C12_sqrt_rel_partial.

(* cdpe_div_eq (rc, c) as it was multiplies conj(c)/|c|^2 by c instead of rc: 2 / 4 = 1.
   Repaired by fixes/C12_cdpe_div_eq.patch (the model's cdpe_div_eq is cdpe_div). *)
Theorem C12_cdpe_div_eq_unfixed_refuted :
  let two := Cdpe (Rdpe fhalf 2) rdpe_zero in
  let four := Cdpe (Rdpe fhalf 3) rdpe_zero in
  (esp (cre (cdpe_div_eq_old two four)) = 1 /\ to_bits (mnt (cre (cdpe_div_eq_old two four))) = to_bits fhalf) /\
  (esp (cre (cdpe_div_eq two four)) = 0 /\ to_bits (mnt (cre (cdpe_div_eq two four))) = to_bits fhalf).
Proof. exact cdpe_div_eq_unfixed_refuted. Qed.
Print Assumptions C12_cdpe_div_eq_unfixed_refuted.
