Require Import MPSV.Dpe.DpeDefs MPSV.Dpe.DpeModel MPSV.Dpe.DpeProps.
Theorem C12_order_unfixed_refuted :
  rdpe_lt_old (Rdpe fhalf 1) (Rdpe fmhalf 1) = true /\ rdpe_lt_old (Rdpe fmhalf 3) (Rdpe fmhalf 1) = false.
Proof. exact order_unfixed_refuted. Qed.
Print Assumptions C12_order_unfixed_refuted.
