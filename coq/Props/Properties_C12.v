(* C12 -- DPE numbers behave like the reals they represent: the statements.
   Model: MPSV.Dpe.DpeModel (rdpe_* / cdpe_* of mt.c, branch by branch, over Flocq binary64 and
   integer exponents with explicit 64/32-bit wrap).  rval x = B2R (mnt x) * 2^(esp x).
   The model follows the code as changed by fixes/C12_*.patch; *_old is the code as it was.  *)
From Coq Require Import ZArith Reals.
From Flocq Require Import Core BinarySingleNaN.
Require Import MPSV.Dpe.DpeDefs MPSV.Dpe.DpeModel MPSV.Dpe.DpeProps.
Open Scope Z_scope.

(* rdpe_Norm returns a normalised value denoting exactly the same real (exponent sum in range) *)
Theorem C12_norm_exact : forall (m : b64) (e : Z),
  is_finite m = true -> in_long (e + snd (ffrexp m)) ->
  normalised (rdpe_norm (Rdpe m e)) /\ rval (rdpe_norm (Rdpe m e)) = rval (Rdpe m e).
Proof. exact norm_exact. Qed.
Print Assumptions C12_norm_exact.
Example C12_norm_exact_nonvacuous :   (* 3.0 = 0.75 * 2^2, stored with exponent 7 *)
  let m : b64 := of_bits 4613937818241073152 in
  is_finite m = true /\ in_long (7 + snd (ffrexp m)) /\ esp (rdpe_norm (Rdpe m 7)) = 9.
Proof. vm_compute. repeat split; intro; discriminate. Qed.

(* conversion from double is exact and normalised, for every finite double *)
Theorem C12_conv_double : forall d : b64, is_finite d = true ->
  normalised (rdpe_set_d d) /\ rval (rdpe_set_d d) = B2R d.
Proof. exact conv_double. Qed.
Print Assumptions C12_conv_double.

(* the ordering operators (as fixed by fixes/C12_rdpe_compare.patch) agree with the order of the
   represented reals for ALL normalised operands: zero, positive, negative, any exponents *)
Theorem C12_order_correct : forall (o : ordop) (x y : rdpe),
  normalised x -> normalised y -> in_long (esp x) -> in_long (esp y) ->
  (rdpe_ord o x y = true <->
   match o with OLt => (rval x < rval y)%R | OLe => (rval x <= rval y)%R
              | OGt => (rval x > rval y)%R | OGe => (rval x >= rval y)%R end).
Proof. exact order_correct. Qed.
Print Assumptions C12_order_correct.
Example C12_order_correct_nonvacuous :   (* -4 and -1: normalised, both negative, different exponents *)
  normalised (Rdpe fmhalf 3) /\ normalised (Rdpe fmhalf 1) /\ in_long 3 /\ in_long 1 /\
  rdpe_lt (Rdpe fmhalf 3) (Rdpe fmhalf 1) = true /\ rdpe_lt (Rdpe fhalf 1) (Rdpe fmhalf 1) = false.
Proof.
  split. apply normalised_mhalf. split. apply normalised_mhalf.
  vm_compute. repeat split; intro; discriminate.
Qed.

(* ... and the operators as they were are wrong: 1 < -1 is true, -4 < -1 is false *)
Theorem C12_order_unfixed_refuted :
  rdpe_lt_old (Rdpe fhalf 1) (Rdpe fmhalf 1) = true /\ rdpe_lt_old (Rdpe fmhalf 3) (Rdpe fmhalf 1) = false.
Proof. exact order_unfixed_refuted. Qed.
Print Assumptions C12_order_unfixed_refuted.

(* rdpe_cmp through the wrapping exponent distance: RDPE_MAX compares below RDPE_MIN; fixed by
   fixes/C12_rdpe_add_delta_overflow.patch *)
Theorem C12_cmp_unfixed_refuted :
  rdpe_cmp_old (Rdpe fhalf LONG_MAX) (Rdpe fhalf LONG_MIN) = -1 /\
  rdpe_cmp (Rdpe fhalf LONG_MAX) (Rdpe fhalf LONG_MIN) = 1.
Proof. exact cmp_unfixed_refuted. Qed.
Print Assumptions C12_cmp_unfixed_refuted.

(* relative error <= 2^-53 (one ulp) and normalised result, exponents in range *)
Theorem C12_mul_rel : forall x y, normalised x -> normalised y -> nonzero x -> nonzero y ->
  LONG_MIN + 1 <= esp x + esp y <= LONG_MAX - 2 ->
  normalised (rdpe_mul x y) /\
  (Rabs (rval (rdpe_mul x y) - rval x * rval y) <= bpow radix2 (-53) * Rabs (rval x * rval y))%R.
Proof. exact mul_rel. Qed.
Print Assumptions C12_mul_rel.

Theorem C12_sqr_rel : forall x, normalised x -> nonzero x ->
  LONG_MIN + 1 <= esp x + esp x <= LONG_MAX - 2 ->
  normalised (rdpe_sqr x) /\
  (Rabs (rval (rdpe_sqr x) - rval x * rval x) <= bpow radix2 (-53) * Rabs (rval x * rval x))%R.
Proof. exact sqr_rel. Qed.
Print Assumptions C12_sqr_rel.

Theorem C12_div_rel : forall x y, normalised x -> normalised y -> nonzero x -> nonzero y ->
  LONG_MIN + 1 <= esp x - esp y <= LONG_MAX - 2 ->
  normalised (rdpe_div x y) /\
  (Rabs (rval (rdpe_div x y) - rval x / rval y) <= bpow radix2 (-53) * Rabs (rval x / rval y))%R.
Proof. exact div_rel. Qed.
Print Assumptions C12_div_rel.
Example C12_rel_nonvacuous :
  normalised (Rdpe fhalf 5) /\ nonzero (Rdpe fhalf 5) /\ LONG_MIN + 1 <= 5 + 5 <= LONG_MAX - 2.
Proof. split. apply normalised_half. split. apply nonzero_half. vm_compute. split; intro; discriminate. Qed.

(* "saturating instead of wrapping on exponent overflow" is FALSE for the code: witnesses with
   normalised in-range operands (each is replayed on the real functions by checks/C12.py) *)
Theorem C12_saturates_refuted :
  (esp (rdpe_sqr (Rdpe fhalf two62)) = LONG_MAX /\ to_bits (mnt (rdpe_sqr (Rdpe fhalf two62))) = to_bits fhalf /\
   esp (rdpe_sqr (Rdpe fhalf (two62 + 1))) = LONG_MIN + 1) /\
  esp (rdpe_sqrt RDPE_MAX) = - two62 /\
  esp (rdpe_inv (Rdpe fhalf LONG_MIN)) = LONG_MIN + 2 /\
  (esp (rdpe_mul_old (Rdpe fhalf LONG_MIN) (Rdpe fhalf (-1))) = LONG_MAX /\
   to_bits (mnt (rdpe_mul_old (Rdpe fhalf LONG_MIN) (Rdpe fhalf (-1)))) = to_bits fhalf) /\
  to_bits (rdpe_get_d_old (Rdpe fhalf 4294967296)) = to_bits fhalf /\
  esp (rdpe_mul_2exp (Rdpe fhalf LONG_MAX) 1) = LONG_MIN.
Proof. exact saturates_refuted. Qed.
Print Assumptions C12_saturates_refuted.
