(* C13 -- multiprecision complex arithmetic (mpc.c) and conversions (link.c): statements.
   Model: Mpc/MpfSem.v (registers, instructions, [run rnd]); programs: Mpc/Gen/MpcGen.v
   (traced from the current mpc.c, one per public function and aliasing pattern). *)
Require Import Reals List ZArith.
Require Import MPSV.Mpc.MpfSem MPSV.Mpc.MpcErr MPSV.Mpc.MpcPow MPSV.Mpc.MpfSi MPSV.Mpc.Gen.MpcGen MPSV.Mpc.MpcProps.
Import ListNotations.
Open Scope R_scope.

(* Every traced program (function x aliasing pattern), run with roundings switched off, leaves in
   its destination the mathematical result computed from the INITIAL operand values and changes no
   register other than the destination and temporaries. *)
Theorem C13_exact_all :
  Forall (fun e => forall s, pre (snd e) s ->
            Forall (fun de => run exact (fst e) s (fst de) = snd de s) (outs (snd e))
            /\ forall r, is_temp r = false -> ~ In r (map fst (outs (snd e))) -> run exact (fst e) s r = s r)
         all_entries.
Proof. exact all_entries_ok. Qed.
Print Assumptions C13_exact_all.

(* two instances spelled out: rc = c1 = c2 product, and rc = c1 quotient *)
Theorem C13_exact_mpc_mul_all_aliased :
  forall s, let s' := run exact prog_mpc_mul_p4 s in
    s' RcRe = s RcRe * s RcRe - s RcIm * s RcIm /\ s' RcIm = s RcRe * s RcIm + s RcIm * s RcRe
    /\ forall r, is_temp r = false -> r <> RcRe -> r <> RcIm -> s' r = s r.
Proof. exact mul_all_aliased_exact. Qed.
Print Assumptions C13_exact_mpc_mul_all_aliased.

Theorem C13_exact_mpc_div_rc_is_c1 :
  forall s, s C2Re * s C2Re + s C2Im * s C2Im <> 0 ->
    let s' := run exact prog_mpc_div_p1 s in
    s' RcRe = (s RcRe * s C2Re + s RcIm * s C2Im) / (s C2Re * s C2Re + s C2Im * s C2Im)
    /\ s' RcIm = (s RcIm * s C2Re - s RcRe * s C2Im) / (s C2Re * s C2Re + s C2Im * s C2Im).
Proof. exact div_rc_is_c1_exact. Qed.
Print Assumptions C13_exact_mpc_div_rc_is_c1.

(* Rounded semantics, any rounding obeying the standard model with unit roundoff u
   (|rnd x - x| <= u|x|, |rnd x| <= |x|): error in modulus (squared) relative to the exact result. *)
Theorem C13_mpc_componentwise_err :
  Forall (fun e => forall rnd u, std_model rnd u -> forall s, pre (snd e) s ->
     match outs (snd e) with
     | [(dr, er); (di, ei)] =>
         let s' := run rnd (fst e) s in
         (s' dr - er s) * (s' dr - er s) + (s' di - ei s) * (s' di - ei s)
           <= (1 * u) * (1 * u) * (er s * er s + ei s * ei s)
     | _ => False end) entries_comp1.
Proof. exact comp1_all. Qed.
Print Assumptions C13_mpc_componentwise_err.

(* mpc_mul as traced (3 multiplications), all five aliasing patterns: |res - c1 c2| <= 17 u |c1 c2| *)
Theorem C13_mpc_mul_err :
  Forall (fun e => forall rnd u, std_model rnd u -> forall s, pre (snd e) s ->
     match outs (snd e) with
     | [(dr, er); (di, ei)] =>
         let s' := run rnd (fst e) s in
         (s' dr - er s) * (s' dr - er s) + (s' di - ei s) * (s' di - ei s)
           <= (17 * u) * (17 * u) * (er s * er s + ei s * ei s)
     | _ => False end) entries_mul.
Proof. exact mul_all. Qed.
Print Assumptions C13_mpc_mul_err.

(* the shape lemmas behind it, for both forms of the product *)
Theorem C13_mul3_shape_err :
  forall rnd u, std_model rnd u -> forall a b c d (r1 r2 r3 r4 r5 r6 r7 r8 : reg),
    let s1 := rnd r1 (a - b) in let s2 := rnd r2 (c + d) in
    let p1 := rnd r3 (s1 * s2) in let p2 := rnd r4 (a * d) in let p3 := rnd r5 (b * c) in
    let re := rnd r7 (rnd r6 (p1 - p2) + p3) in
    let im := rnd r8 (p2 + p3) in
    (re - (a * c - b * d)) * (re - (a * c - b * d)) + (im - (a * d + b * c)) * (im - (a * d + b * c))
      <= (17 * u) * (17 * u) * ((a * a + b * b) * (c * c + d * d)).
Proof. exact mul3_err. Qed.
Print Assumptions C13_mul3_shape_err.

Theorem C13_mul4_shape_err :
  forall rnd u, std_model rnd u -> forall a b c d (r1 r2 r3 r4 r5 r6 : reg),
    let re := rnd r5 (rnd r1 (a * c) - rnd r2 (b * d)) in
    let im := rnd r6 (rnd r3 (a * d) + rnd r4 (b * c)) in
    (re - (a * c - b * d)) * (re - (a * c - b * d)) + (im - (a * d + b * c)) * (im - (a * d + b * c))
      <= (6 * u) * (6 * u) * ((a * a + b * b) * (c * c + d * d)).
Proof. exact mul4_err. Qed.
Print Assumptions C13_mul4_shape_err.

(* schoolbook 4-multiplication program: exact and within the same bound as the traced one *)
Theorem C13_mul4_prog :
  exact_ok prog_mul4 spec_mpc_mul_p0 /\ cplx_err_ok 17 prog_mul4 spec_mpc_mul_p0.
Proof. exact (conj mul4_exact mul4_prog_err). Qed.
Print Assumptions C13_mul4_prog.

Theorem C13_mpc_sqr_err :
  Forall (fun e => forall rnd u, std_model rnd u -> forall s, pre (snd e) s ->
     match outs (snd e) with
     | [(dr, er); (di, ei)] =>
         let s' := run rnd (fst e) s in
         (s' dr - er s) * (s' dr - er s) + (s' di - ei s) * (s' di - ei s)
           <= (3 * u) * (3 * u) * (er s * er s + ei s * ei s)
     | _ => False end) entries_sqr.
Proof. exact sqr_all. Qed.
Print Assumptions C13_mpc_sqr_err.

(* the hypotheses are satisfiable: exact arithmetic is a standard model; a concrete run *)
Example C13_std_model_inhabited : std_model exact 0.
Proof. exact exact_std_model. Qed.
Example C13_mul_concrete :
  run exact prog_mpc_mul_p0 store0 RcRe = 29 /\ run exact prog_mpc_mul_p0 store0 RcIm = -11.
Proof. exact mul_example. Qed.

(* thread-local temporaries are never less precise than the destination *)
Theorem C13_tls_precision_ok : forall cur need : Z, (need <= tls_adjust cur need)%Z.
Proof. exact tls_precision_ok. Qed.
Print Assumptions C13_tls_precision_ok.

(* mpf_get_rdpe / mpc_get_cdpe / mpc_get_cplx as maps on values: truncation of the integer
   mantissa m to 53 bits (q * 2^s): relative error <= 2^-52, never larger in modulus, same sign,
   zero iff zero, normalised 53-bit mantissa *)
Theorem C13_conv_get_rdpe :
  forall m : Z, let '(q, s) := trunc53 m in
  (0 <= s /\ 2 ^ 52 * Z.abs (m - q * 2 ^ s) <= Z.abs m /\ Z.abs (q * 2 ^ s) <= Z.abs m
   /\ Z.sgn q = Z.sgn m /\ Z.abs q < 2 ^ 53 /\ (m = 0 <-> q = 0))%Z.
Proof. exact trunc53_spec. Qed.
Print Assumptions C13_conv_get_rdpe.

Example C13_conv_get_rdpe_concrete : trunc53 (2 ^ 60 + 255)%Z = ((2 ^ 52)%Z, 8%Z).
Proof. vm_compute. reflexivity. Qed.

(* mpf_set_rdpe: exact scaling of an exactly represented mantissa *)
Theorem C13_conv_set_rdpe_exact :
  forall (mant : R) (k : Z) (s : store), run exact [Imul2 F1 F1 k] (upd s F1 mant) F1 = mant * two_pow k.
Proof. exact set_rdpe_exact. Qed.
Print Assumptions C13_conv_set_rdpe_exact.

(* ------------------------------------------------------------------ follow-up: con, inv, div, smod, mod, pow_si steps *)
(* mpc_con as traced (copy, then negation of the copy: two modelled roundings on Im): 2u *)
Theorem C13_mpc_con_err :
  Forall (fun e => forall rnd u, std_model rnd u -> u <= 1 -> forall s, pre (snd e) s ->
     match outs (snd e) with
     | [(dr, er); (di, ei)] =>
         let s' := run rnd (fst e) s in
         (s' dr - er s) * (s' dr - er s) + (s' di - ei s) * (s' di - ei s)
           <= (2 * u) * (2 * u) * (er s * er s + ei s * ei s)
     | _ => False end) entries_con.
Proof. exact con_all. Qed.
Print Assumptions C13_mpc_con_err.

(* mpc_inv as traced (rc != c and rc = c), c <> 0, u <= 1/16: |res - 1/c| <= 6 u |1/c| *)
Theorem C13_mpc_inv_err :
  Forall (fun e => forall rnd u, std_model rnd u -> u <= / 16 -> forall s, pre (snd e) s ->
     match outs (snd e) with
     | [(dr, er); (di, ei)] =>
         let s' := run rnd (fst e) s in
         (s' dr - er s) * (s' dr - er s) + (s' di - ei s) * (s' di - ei s)
           <= (6 * u) * (6 * u) * (er s * er s + ei s * ei s)
     | _ => False end) entries_inv.
Proof. exact inv_all. Qed.
Print Assumptions C13_mpc_inv_err.

(* mpc_div as traced (inv into a local, then the 3-multiplication product), all five aliasing patterns,
   c2 <> 0, u <= 1/128: |res - c1/c2| <= 24 u |c1/c2| *)
Theorem C13_mpc_div_err :
  Forall (fun e => forall rnd u, std_model rnd u -> u <= / 128 -> forall s, pre (snd e) s ->
     match outs (snd e) with
     | [(dr, er); (di, ei)] =>
         let s' := run rnd (fst e) s in
         (s' dr - er s) * (s' dr - er s) + (s' di - ei s) * (s' di - ei s)
           <= (24 * u) * (24 * u) * (er s * er s + ei s * ei s)
     | _ => False end) entries_div.
Proof. exact div_all. Qed.
Print Assumptions C13_mpc_div_err.

(* mpc_smod and mpc_mod as traced (mpf_sqrt under the same standard model): 2u *)
Theorem C13_mpc_smod_err :
  forall rnd u, std_model rnd u -> u <= 1 -> forall s,
    Rabs (run rnd prog_mpc_smod_p0 s F1 - (s C1Re * s C1Re + s C1Im * s C1Im))
      <= 2 * u * Rabs (s C1Re * s C1Re + s C1Im * s C1Im).
Proof. exact (fun rnd u H Hu s => smod_prog_err rnd u H Hu s I). Qed.
Print Assumptions C13_mpc_smod_err.

Theorem C13_mpc_mod_err :
  forall rnd u, std_model rnd u -> u <= 1 -> forall s,
    Rabs (run rnd prog_mpc_mod_p0 s F1 - sqrt (s C1Re * s C1Re + s C1Im * s C1Im))
      <= 2 * u * Rabs (sqrt (s C1Re * s C1Re + s C1Im * s C1Im)).
Proof. exact (fun rnd u H Hu s => mod_prog_err rnd u H Hu s I). Qed.
Print Assumptions C13_mpc_mod_err.

(* mpc_pow_si: error recurrences of its two loop steps on approximate operands (relative errors k, k1, k2
   in modulus): squaring  k -> 3u(1+k)^2 + k(k+2),  product (k1,k2) -> 17u(1+k1)(1+k2) + k1(1+k2) + k2.
   They are iterated over the binary expansion of the exponent in C13_mpc_pow_si_err below. *)
Theorem C13_mpc_pow_si_step_err :
  forall rnd u, std_model rnd u ->
  (forall (r1 r2 r3 r4 r5 : reg) x1 x2 a1 a2 k, 0 <= k ->
    (x1 - a1) * (x1 - a1) + (x2 - a2) * (x2 - a2) <= (k * k) * (a1 * a1 + a2 * a2) ->
    let re := rnd r4 (rnd r2 (x1 * x1) - rnd r3 (x2 * x2)) in
    let im := rnd r5 (rnd r1 (x1 * x2) * 2) in
    let er := a1 * a1 - a2 * a2 in let ei := a1 * a2 + a2 * a1 in
    let k' := 3 * u * (k * (k + 1) + k + 1) + (k * (k + 1) + k) in
    (re - er) * (re - er) + (im - ei) * (im - ei) <= (k' * k') * (er * er + ei * ei))
  /\
  (forall (r1 r2 r3 r4 r5 r6 r7 r8 : reg) x1 x2 a1 a2 y1 y2 b1 b2 k1 k2, 0 <= k1 -> 0 <= k2 ->
    (x1 - a1) * (x1 - a1) + (x2 - a2) * (x2 - a2) <= (k1 * k1) * (a1 * a1 + a2 * a2) ->
    (y1 - b1) * (y1 - b1) + (y2 - b2) * (y2 - b2) <= (k2 * k2) * (b1 * b1 + b2 * b2) ->
    let s1 := rnd r1 (x1 - x2) in let s2 := rnd r2 (y1 + y2) in
    let p1 := rnd r3 (s1 * s2) in let p2 := rnd r4 (x1 * y2) in let p3 := rnd r5 (x2 * y1) in
    let re := rnd r7 (rnd r6 (p1 - p2) + p3) in
    let im := rnd r8 (p2 + p3) in
    let er := a1 * b1 - a2 * b2 in let ei := a1 * b2 + a2 * b1 in
    let k' := 17 * u * (k1 * (k2 + 1) + k2 + 1) + (k1 * (k2 + 1) + k2) in
    (re - er) * (re - er) + (im - ei) * (im - ei) <= (k' * k') * (er * er + ei * ei)).
Proof. exact (fun rnd u H => conj (pow_sqr_step rnd u H) (pow_mul_step rnd u H)). Qed.
Print Assumptions C13_mpc_pow_si_step_err.

(* ------------------------------------------------------------------ deepening: pow_si for every exponent, remaining helpers, conversions *)
(* The loop of mpc_pow_si as a Coq function producing the instruction sequence; the 16 traced programs
   (8 exponents x {rc != c, rc = c}) are instances of it. *)
Theorem C13_pow_si_model_instances :
  pow_si_model (csrc false) (-3) = prog_mpc_pow_si_m3_p0 /\ pow_si_model (csrc true) (-3) = prog_mpc_pow_si_m3_p1 /\
  pow_si_model (csrc false) (-1) = prog_mpc_pow_si_m1_p0 /\ pow_si_model (csrc true) (-1) = prog_mpc_pow_si_m1_p1 /\
  pow_si_model (csrc false) 0 = prog_mpc_pow_si_0_p0 /\ pow_si_model (csrc true) 0 = prog_mpc_pow_si_0_p1 /\
  pow_si_model (csrc false) 1 = prog_mpc_pow_si_1_p0 /\ pow_si_model (csrc true) 1 = prog_mpc_pow_si_1_p1 /\
  pow_si_model (csrc false) 2 = prog_mpc_pow_si_2_p0 /\ pow_si_model (csrc true) 2 = prog_mpc_pow_si_2_p1 /\
  pow_si_model (csrc false) 3 = prog_mpc_pow_si_3_p0 /\ pow_si_model (csrc true) 3 = prog_mpc_pow_si_3_p1 /\
  pow_si_model (csrc false) 5 = prog_mpc_pow_si_5_p0 /\ pow_si_model (csrc true) 5 = prog_mpc_pow_si_5_p1 /\
  pow_si_model (csrc false) 6 = prog_mpc_pow_si_6_p0 /\ pow_si_model (csrc true) 6 = prog_mpc_pow_si_6_p1.
Proof. exact pow_si_instances. Qed.
Print Assumptions C13_pow_si_model_instances.

(* Every exponent i (negative ones through mpc_inv, c <> 0), rc != c (alias = false) and rc = c (alias = true):
   |res - c^i| <= 68 (|i|+1) u |c^i|   while   34 (|i|+1) u <= 1/2   and u <= 1/16.
   [close k x a] is  |x - a|^2 <= k^2 |a|^2  on pairs. *)
Theorem C13_mpc_pow_si_err :
  forall rnd u, std_model rnd u -> u <= / 16 ->
  forall (alias : bool) (i : Z) (s : store),
    ((i < 0)%Z -> 0 < cn2 (cval alias s)) ->
    17 * INR (2 * Z.abs_nat i + 2) * u <= / 2 ->
    close (34 * INR (2 * Z.abs_nat i + 2) * u)
          (rcv (run rnd (pow_si_model (csrc alias) i) s)) (pow_si_val (cval alias s) i).
Proof. exact pow_si_model_err. Qed.
Print Assumptions C13_mpc_pow_si_err.

(* ... where the exact value of the square-and-multiply recursion is the |i|-th power (repeated complex
   multiplication) of c, resp. of 1/c *)
Theorem C13_pow_si_val_is_power :
  forall a i, pow_si_val a i = cpown (if (i <? 0)%Z then cinv a else a) (Z.abs_nat i).
Proof. exact pow_si_val_pow. Qed.
Print Assumptions C13_pow_si_val_is_power.

Example C13_pow_si_concrete : pow_si_val (2, 0) 5 = (32, 0).
Proof. exact pow_si_example. Qed.

(* helpers with at most two modelled roundings per component: rot, flip (both aliasings) and the op= forms
   rot_eq, flip_eq, smod_eq, mod_eq: 2u *)
Theorem C13_mpc_two_rounding_err :
  Forall (fun e => forall rnd u, std_model rnd u -> u <= 1 -> forall s, pre (snd e) s ->
     match outs (snd e) with
     | [(dr, er); (di, ei)] =>
         let s' := run rnd (fst e) s in
         (s' dr - er s) * (s' dr - er s) + (s' di - ei s) * (s' di - ei s)
           <= (2 * u) * (2 * u) * (er s * er s + ei s * ei s)
     | _ => False end) entries_comp2.
Proof. exact comp2_all. Qed.
Print Assumptions C13_mpc_two_rounding_err.

(* mpc_inv2 (reciprocal of the squared modulus, then two products): 7u *)
Theorem C13_mpc_inv2_err :
  Forall (fun e => forall rnd u, std_model rnd u -> u <= / 16 -> forall s, pre (snd e) s ->
     match outs (snd e) with
     | [(dr, er); (di, ei)] =>
         let s' := run rnd (fst e) s in
         (s' dr - er s) * (s' dr - er s) + (s' di - ei s) * (s' di - ei s)
           <= (7 * u) * (7 * u) * (er s * er s + ei s * ei s)
     | _ => False end) entries_inv2.
Proof. exact inv2_all. Qed.
Print Assumptions C13_mpc_inv2_err.

(* mpc_f_div and mpc_ui_div (inv, then scaling of both components), both aliasings: 8u *)
Theorem C13_mpc_f_div_ui_div_err :
  Forall (fun e => forall rnd u, std_model rnd u -> u <= / 16 -> forall s, pre (snd e) s ->
     match outs (snd e) with
     | [(dr, er); (di, ei)] =>
         let s' := run rnd (fst e) s in
         (s' dr - er s) * (s' dr - er s) + (s' di - ei s) * (s' di - ei s)
           <= (8 * u) * (8 * u) * (er s * er s + ei s * ei s)
     | _ => False end) entries_invscale.
Proof. exact invscale_all. Qed.
Print Assumptions C13_mpc_f_div_ui_div_err.

(* conversions at any precision p >= 1: truncation of the integer mantissa to p bits *)
Theorem C13_conv_truncp :
  forall p m : Z, (1 <= p)%Z ->
  let '(q, s) := truncp p m in
  (0 <= s /\ 2 ^ (p - 1) * Z.abs (m - q * 2 ^ s) <= Z.abs m /\ Z.abs (q * 2 ^ s) <= Z.abs m
   /\ Z.sgn q = Z.sgn m /\ Z.abs q < 2 ^ p /\ (m = 0 <-> q = 0))%Z.
Proof. exact truncp_spec. Qed.
Print Assumptions C13_conv_truncp.

(* mpc_set_cplx / mpc_set_d / mpf_set_rdpe's mpf_set_d: a double's mantissa (|q| < 2^53) is stored exactly in any
   destination of at least 53 bits; mpc_get_cplx / mpc_get_cdpe are truncp 53 per component (C13_conv_get_rdpe);
   double -> mpf -> double is the identity *)
Theorem C13_conv_set_d_exact :
  forall p q : Z, (53 <= p)%Z -> (Z.abs q < 2 ^ 53)%Z -> truncp p q = (q, 0%Z).
Proof. exact set_d_exact. Qed.
Print Assumptions C13_conv_set_d_exact.

Theorem C13_conv_roundtrip :
  forall p q : Z, (53 <= p)%Z -> (Z.abs q < 2 ^ 53)%Z ->
  let '(q1, s1) := truncp p q in truncp 53 q1 = (q, 0%Z) /\ s1 = 0%Z.
Proof. exact get_set_roundtrip. Qed.
Print Assumptions C13_conv_roundtrip.

(* ------------------------------------------------------------------ gmptools.c helpers mpf_{add,sub,mul,div}_si, mpf_si_{sub,div}
   [si_model op r f i] (Mpc/MpfSi.v) is the instruction sequence executed by the C function for the long i:
   `if (i >= 0) OP_ui (r, f, i); else { OP_ui (r, f, -(unsigned long) i); [mpf_neg (r, r);] }` with the conversion to
   unsigned long and the unsigned negation taken modulo 2^64.  r and f are arbitrary registers: r = f is the aliased call.
   The traced programs of Gen/MpcGen.v are part of C13_exact_all above (46 of its entries). *)

(* the unsigned negation yields |i| for every negative long, LONG_MIN included (where -i in long would overflow) *)
Theorem C13_mpf_si_unsigned_negation :
  forall i, is_long i -> (i < 0)%Z -> umag i = (- i)%Z.
Proof. exact umag_neg. Qed.
Print Assumptions C13_mpf_si_unsigned_negation.

Example C13_mpf_si_long_min_concrete :
  is_long LONG_MIN /\ umag LONG_MIN = (2 ^ 63)%Z /\
  si_model MulSi F1 F1 LONG_MIN = [Imului F1 F1 9223372036854775808; Ineg F1 F1].
Proof. split; [unfold is_long, LONG_MIN, LONG_MAX; split; vm_compute; discriminate | split; vm_compute; reflexivity]. Qed.

(* exact semantics: the destination gets the mathematical result of the INITIAL source value, for every long *)
Theorem C13_mpf_si_exact :
  forall op r f i s, is_long i -> si_pre op (s f) i ->
    run exact (si_model op r f i) s r = si_val op (s f) i.
Proof. exact si_exact. Qed.
Print Assumptions C13_mpf_si_exact.

(* frame: no register other than the destination is written (any rounding, any long, also when r = f) *)
Theorem C13_mpf_si_frame :
  forall rnd op r f i s x, x <> r -> run rnd (si_model op r f i) s x = s x.
Proof. exact si_frame. Qed.
Print Assumptions C13_mpf_si_frame.

(* rounded semantics: 1u for add_si / sub_si (and for every helper when i >= 0), 2u for the paths ending in mpf_neg *)
Theorem C13_mpf_si_err :
  forall rnd u, std_model rnd u -> forall op r f i s, is_long i -> si_pre op (s f) i ->
    Rabs (run rnd (si_model op r f i) s r - si_val op (s f) i) <= si_k op * u * Rabs (si_val op (s f) i).
Proof. exact si_err. Qed.
Print Assumptions C13_mpf_si_err.

Theorem C13_mpf_si_err_nonneg :
  forall rnd u, std_model rnd u -> forall op r f i s, is_long i -> (0 <= i)%Z ->
    Rabs (run rnd (si_model op r f i) s r - si_val op (s f) i) <= u * Rabs (si_val op (s f) i).
Proof. exact si_err_one. Qed.
Print Assumptions C13_mpf_si_err_nonneg.

(* the 46 programs traced from the current gmptools.c (destination != source: F2, F1; destination = source: F1, F1) are instances *)
Theorem C13_mpf_si_instances :
  si_model AddSi F2 F1 (7) = prog_mpf_add_si_7_p0 /\ si_model AddSi F1 F1 (7) = prog_mpf_add_si_7_p1 /\
  si_model AddSi F2 F1 (0) = prog_mpf_add_si_0_p0 /\ si_model AddSi F1 F1 (0) = prog_mpf_add_si_0_p1 /\
  si_model AddSi F2 F1 (-7) = prog_mpf_add_si_m7_p0 /\ si_model AddSi F1 F1 (-7) = prog_mpf_add_si_m7_p1 /\
  si_model AddSi F2 F1 (-9223372036854775808) = prog_mpf_add_si_m9223372036854775808_p0 /\ si_model AddSi F1 F1 (-9223372036854775808) = prog_mpf_add_si_m9223372036854775808_p1 /\
  si_model SubSi F2 F1 (7) = prog_mpf_sub_si_7_p0 /\ si_model SubSi F1 F1 (7) = prog_mpf_sub_si_7_p1 /\
  si_model SubSi F2 F1 (0) = prog_mpf_sub_si_0_p0 /\ si_model SubSi F1 F1 (0) = prog_mpf_sub_si_0_p1 /\
  si_model SubSi F2 F1 (-7) = prog_mpf_sub_si_m7_p0 /\ si_model SubSi F1 F1 (-7) = prog_mpf_sub_si_m7_p1 /\
  si_model SubSi F2 F1 (-9223372036854775808) = prog_mpf_sub_si_m9223372036854775808_p0 /\ si_model SubSi F1 F1 (-9223372036854775808) = prog_mpf_sub_si_m9223372036854775808_p1 /\
  si_model SiSub F2 F1 (7) = prog_mpf_si_sub_7_p0 /\ si_model SiSub F1 F1 (7) = prog_mpf_si_sub_7_p1 /\
  si_model SiSub F2 F1 (0) = prog_mpf_si_sub_0_p0 /\ si_model SiSub F1 F1 (0) = prog_mpf_si_sub_0_p1 /\
  si_model SiSub F2 F1 (-7) = prog_mpf_si_sub_m7_p0 /\ si_model SiSub F1 F1 (-7) = prog_mpf_si_sub_m7_p1 /\
  si_model SiSub F2 F1 (-9223372036854775808) = prog_mpf_si_sub_m9223372036854775808_p0 /\ si_model SiSub F1 F1 (-9223372036854775808) = prog_mpf_si_sub_m9223372036854775808_p1 /\
  si_model MulSi F2 F1 (7) = prog_mpf_mul_si_7_p0 /\ si_model MulSi F1 F1 (7) = prog_mpf_mul_si_7_p1 /\
  si_model MulSi F2 F1 (0) = prog_mpf_mul_si_0_p0 /\ si_model MulSi F1 F1 (0) = prog_mpf_mul_si_0_p1 /\
  si_model MulSi F2 F1 (-7) = prog_mpf_mul_si_m7_p0 /\ si_model MulSi F1 F1 (-7) = prog_mpf_mul_si_m7_p1 /\
  si_model MulSi F2 F1 (-9223372036854775808) = prog_mpf_mul_si_m9223372036854775808_p0 /\ si_model MulSi F1 F1 (-9223372036854775808) = prog_mpf_mul_si_m9223372036854775808_p1 /\
  si_model DivSi F2 F1 (7) = prog_mpf_div_si_7_p0 /\ si_model DivSi F1 F1 (7) = prog_mpf_div_si_7_p1 /\
  si_model DivSi F2 F1 (-7) = prog_mpf_div_si_m7_p0 /\ si_model DivSi F1 F1 (-7) = prog_mpf_div_si_m7_p1 /\
  si_model DivSi F2 F1 (-9223372036854775808) = prog_mpf_div_si_m9223372036854775808_p0 /\ si_model DivSi F1 F1 (-9223372036854775808) = prog_mpf_div_si_m9223372036854775808_p1 /\
  si_model SiDiv F2 F1 (7) = prog_mpf_si_div_7_p0 /\ si_model SiDiv F1 F1 (7) = prog_mpf_si_div_7_p1 /\
  si_model SiDiv F2 F1 (0) = prog_mpf_si_div_0_p0 /\ si_model SiDiv F1 F1 (0) = prog_mpf_si_div_0_p1 /\
  si_model SiDiv F2 F1 (-7) = prog_mpf_si_div_m7_p0 /\ si_model SiDiv F1 F1 (-7) = prog_mpf_si_div_m7_p1 /\
  si_model SiDiv F2 F1 (-9223372036854775808) = prog_mpf_si_div_m9223372036854775808_p0 /\ si_model SiDiv F1 F1 (-9223372036854775808) = prog_mpf_si_div_m9223372036854775808_p1.
Proof. exact si_instances. Qed.
Print Assumptions C13_mpf_si_instances.

(* ------------------------------------------------------------------ link.c and gmptools.c mpf_get_2dl / mpf_set_2dl on GMP's limb layout
   Model: Mpc/LinkModel.v, statement by statement over Z (no real numbers: these theorems are closed under the global context).
   An mpf is {_mp_prec, _mp_size, _mp_exp, limbs D}: value sign * D * 2^(64 * (exp - n)), n = |size|.  A double is DFin sign m e
   = +- m * 2^e in IEEE-canonical form; an rdpe is (mantissa double, long exponent).  [UB] = signed long overflow in the C text.
   The model is compared bit for bit with the library on every run (bin/link against harness/c13_link.c). *)
Require Import MPSV.Mpc.LinkModel MPSV.Mpc.LinkProofs.
Open Scope Z_scope.

(* mpf_get_rdpe (every precision, every limb content, |_mp_exp| < 2^57, f <> 0): no long overflow, the source struct is restored,
   the result is normalised (mantissa q / 2^53 in [1/2, 1)), has the sign of f and is the truncation of f to 53 bits:
   with k = (Esp - 53) - 64 * (exp - n) the number of dropped low bits,  q * 2^k <= D  (never larger)  and
   2^52 * (D - q * 2^k) <= D  (relative error <= 2^-52);  for k < 0 the conversion is exact. *)
Theorem C13_link_get_rdpe_truncation :
  forall f, wf_mpf f = true -> m_size f <> 0 -> - 2 ^ 57 < m_exp f < 2 ^ 57 ->
  exists q Esp,
    mpf_get_rdpe f = Ok ((DFin (m_neg f) q (-53), Esp), f, [0; m_exp f]) /\
    2 ^ 52 <= q < 2 ^ 53 /\ LMIN < Esp < LMAX /\
    let k := (Esp - 53) - 64 * (m_exp f - m_n f) in
    (0 <= k -> q * 2 ^ k <= m_d f /\ 2 ^ 52 * (m_d f - q * 2 ^ k) <= m_d f) /\
    (k < 0 -> q = m_d f * 2 ^ (- k)).
Proof. exact get_rdpe_trunc. Qed.
Print Assumptions C13_link_get_rdpe_truncation.

(* zero is kept (canonical DPE zero) *)
Theorem C13_link_get_rdpe_zero :
  forall f, wf_mpf f = true -> m_size f = 0 -> - 2 ^ 57 < m_exp f < 2 ^ 57 ->
    mpf_get_rdpe f = Ok ((DZero, 0), f, [0; m_exp f]).
Proof. exact get_rdpe_zero. Qed.
Print Assumptions C13_link_get_rdpe_zero.

Example C13_link_get_rdpe_concrete :
  wf_mpf f_three = true /\
  mpf_get_rdpe f_three = Ok ((DFin false (3 * 2 ^ 51) (-53), 66), f_three, [0; 2]) /\
  mpf_get_2dl f_three = Ok (DFin false (3 * 2 ^ 51) (-53), 66, f_three, [0; 2]).
Proof. exact f_three_facts. Qed.

(* gmptools.c mpf_get_2dl / mpf_size_2 return the same mantissa and exponent (same range, same theorems) *)
Theorem C13_link_get_2dl_is_get_rdpe :
  forall f, wf_mpf f = true -> m_size f <> 0 -> - 2 ^ 57 < m_exp f < 2 ^ 57 ->
  exists d l, mpf_get_2dl f = Ok (d, l, f, [0; m_exp f]) /\ mpf_get_rdpe f = Ok ((d, l), f, [0; m_exp f])
              /\ mpf_size_2 f = Ok l.
Proof. exact get_2dl_is_get_rdpe. Qed.
Print Assumptions C13_link_get_2dl_is_get_rdpe.

(* mpf_set_rdpe / mpf_set_2dl: exact for every finite non-zero double mantissa (normalised or not), every destination precision and
   every exponent except LONG_MIN: the result is well formed, has the sign s, and its limbs are m * 2^t with
   64 * (exp' - n') = e + l - t, i.e. its value is m * 2^(e + l) *)
Theorem C13_link_set_rdpe_exact :
  forall prec s m e l, 2 <= prec < 2 ^ 31 -> 0 < m < 2 ^ 53 -> LMIN < l <= LMAX ->
  exists f', mpf_set_rdpe prec (DFin s m e, l) = Ok f' /\
    wf_mpf f' = true /\ m_size f' <> 0 /\ m_neg f' = s /\ m_prec f' = prec /\
    exists t, 0 <= t /\ m_d f' = m * 2 ^ t /\ 64 * (m_exp f' - m_n f') = e + l - t.
Proof. exact set_2dl_exact. Qed.
Print Assumptions C13_link_set_rdpe_exact.

Theorem C13_link_set_rdpe_zero :
  forall prec l, LMIN < l <= LMAX -> mpf_set_rdpe prec (DZero, l) = Ok (mkmpf prec 0 0 0).
Proof. exact set_2dl_zero. Qed.
Print Assumptions C13_link_set_rdpe_zero.

(* double -> DPE (rdpe_set_d) -> mpf (mpf_set_rdpe) -> DPE (mpf_get_rdpe) gives back the same DPE, for every finite non-zero double
   (subnormals included) and every destination precision *)
Theorem C13_link_roundtrip :
  forall prec s m e, 2 <= prec < 2 ^ 31 -> canon_dbl (DFin s m e) = true ->
  exists f', mpf_set_rdpe prec (rdpe_set_d (DFin s m e)) = Ok f' /\ wf_mpf f' = true /\
             mpf_get_rdpe f' = Ok (rdpe_set_d (DFin s m e), f', [0; m_exp f']).
Proof. exact roundtrip. Qed.
Print Assumptions C13_link_roundtrip.

Example C13_link_roundtrip_concrete :     (* the smallest subnormal, 2^-1074 *)
  canon_dbl (DFin false 1 (-1074)) = true /\ rdpe_set_d (DFin false 1 (-1074)) = (DFin false (2 ^ 52) (-53), -1073).
Proof. split; vm_compute; reflexivity. Qed.

(* every call of mpf_get_rdpe / mpf_get_2dl stores 0 and then the old value into the SOURCE's _mp_exp (restored at the end) *)
Theorem C13_link_get_rdpe_source_restored_but_written :
  forall f, wf_mpf f = true -> - 2 ^ 57 < m_exp f < 2 ^ 57 ->
    (exists r, mpf_get_rdpe f = Ok (r, f, [0; m_exp f])) /\ (exists d l, mpf_get_2dl f = Ok (d, l, f, [0; m_exp f])).
Proof. exact (fun f W X => conj (get_rdpe_source f W X) (get_2dl_source f W X)). Qed.
Print Assumptions C13_link_get_rdpe_source_restored_but_written.

(* REFUTED: 'conversions leave their source operand unchanged' in the sense of 'never written': a witness with the transient
   _mp_exp = 0 different from the real one (replayed by the check with the struct in a read-only page: SIGSEGV) *)
Theorem C13_mpf_get_rdpe_source_never_written_refuted :
  exists f r f' w, wf_mpf f = true /\ mpf_get_rdpe f = Ok (r, f', w) /\ w <> [] /\ In 0 w /\ m_exp f <> 0.
Proof.
  exists f_three, (DFin false (3 * 2 ^ 51) (-53), 66), f_three, [0; 2].
  destruct f_three_facts as [W [E _]]. split; [exact W|]. split; [exact E|].
  split; [discriminate|]. split; [left; reflexivity|]. vm_compute. discriminate.
Qed.
Print Assumptions C13_mpf_get_rdpe_source_never_written_refuted.

(* REFUTED: 'no undefined behaviour for every representable mpf': _mp_exp = 2^57 (the value 2^(2^63-1), reachable by mpf_mul_2exp)
   overflows `esp * mp_bits_per_limb`; the rewrite through mpf_get_d_2exp moves the same overflow into GMP *)
Theorem C13_mpf_get_rdpe_long_overflow_refuted :
  exists f, wf_mpf f = true /\ m_exp f = 2 ^ 57 /\ mpf_get_rdpe f = UB UbMul /\ mpf_get_2dl f = UB UbMul /\
            mpf_size_2 f = UB UbMul /\ mpf_get_rdpe_fixed f = UB UbGmp.
Proof. exists f_exp_2p57. destruct f_exp_2p57_facts as (A & B & C & D & E). repeat split; assumption. Qed.
Print Assumptions C13_mpf_get_rdpe_long_overflow_refuted.

(* REFUTED: 'mpf_set_rdpe is defined for every DPE number': Esp = LONG_MIN (the library constant RDPE_MIN) overflows `-rdpe_Esp (e)`,
   and so does mpf_set_2dl (f, 0.5, LONG_MIN) *)
Theorem C13_mpf_set_rdpe_long_min_refuted :
  exists e, canon_dbl (fst e) = true /\ in_long (snd e) = true /\ mpf_set_rdpe 2 e = UB UbNeg /\
            mpf_set_2dl 2 (fst e) (snd e) = UB UbNeg.
Proof. exists RDPE_MIN_model. exact rdpe_min_facts. Qed.
Print Assumptions C13_mpf_set_rdpe_long_min_refuted.

(* the proposed repairs: negation in unsigned long (defined and exact for EVERY long, identical elsewhere) ... *)
Theorem C13_link_set_2dl_fixed :
  (forall prec s m e l, 2 <= prec < 2 ^ 31 -> 0 < m < 2 ^ 53 -> LMIN <= l <= LMAX ->
     exists f', mpf_set_2dl_fixed prec (DFin s m e) l = Ok f' /\
       wf_mpf f' = true /\ m_size f' <> 0 /\ m_neg f' = s /\ m_prec f' = prec /\
       exists t, 0 <= t /\ m_d f' = m * 2 ^ t /\ 64 * (m_exp f' - m_n f') = e + l - t) /\
  (forall prec d l, LMIN < l <= LMAX -> mpf_set_2dl_fixed prec d l = mpf_set_2dl prec d l).
Proof. exact (conj set_2dl_fixed_exact set_2dl_fixed_agrees). Qed.
Print Assumptions C13_link_set_2dl_fixed.

(* ... and mpf_get_d_2exp instead of zeroing the source's exponent: same result on the whole range, no store into the source *)
Theorem C13_link_get_rdpe_fixed_equivalent :
  (forall f, wf_mpf f = true -> - 2 ^ 57 < m_exp f < 2 ^ 57 ->
     exists r, mpf_get_rdpe_fixed f = Ok r /\ mpf_get_rdpe f = Ok (r, f, [0; m_exp f])) /\
  (forall f, wf_mpf f = true -> m_size f <> 0 -> - 2 ^ 57 < m_exp f < 2 ^ 57 ->
     exists d l, mpf_get_2dl_fixed f = Ok (d, l) /\ mpf_get_2dl f = Ok (d, l, f, [0; m_exp f])).
Proof. exact (conj get_rdpe_fixed_equiv get_2dl_fixed_equiv). Qed.
Print Assumptions C13_link_get_rdpe_fixed_equivalent.

(* ------------------------------------------------------------------ mpf_get_d (as used by mpc_get_cplx) on its whole range
   x = D * 2^ex0, ex0 = 64 * (exp - n), top = bitlen D + ex0 (2^(top-1) <= x < 2^top).  Wherever GMP's own exponent computation
   (EXP - size) * 64 is defined: infinity iff x >= 2^1024; in the normal range the 53-bit truncation (relative error <= 2^-52, never
   larger); in the subnormal range the truncation to a multiple of 2^-1074; +0 below 2^-1074; the result is an IEEE-canonical double. *)
Theorem C13_link_get_d_whole_range :
  forall f, wf_mpf f = true -> m_size f <> 0 -> in_long ((m_exp f - m_n f) * 64) = true ->
  exists d, mpf_get_d f = Ok d /\ canon_dbl d = true /\
    let D := m_d f in let ex0 := (m_exp f - m_n f) * 64 in let top := bitlen D + ex0 in
    if 1025 <=? top then d = DInf (m_neg f)
    else if -1021 <=? top then
      exists q k, d = DFin (m_neg f) q (ex0 + k) /\ 2 ^ 52 <= q < 2 ^ 53 /\ -1074 <= ex0 + k <= 971 /\
        (0 <= k -> q * 2 ^ k <= D /\ 2 ^ 52 * (D - q * 2 ^ k) <= D) /\ (k < 0 -> q = D * 2 ^ (- k))
    else if top <=? -1074 then d = DZero
    else
      exists m, d = DFin (m_neg f) m (-1074) /\ 0 < m < 2 ^ 52 /\
        let sh := -1074 - ex0 in
        (0 <= sh -> m * 2 ^ sh <= D < (m + 1) * 2 ^ sh) /\ (sh < 0 -> m = D * 2 ^ (- sh)).
Proof.
  intros f W N L. destruct (get_d_whole_range f W N L) as (d & E & S & C).
  exists d. split; [exact E|]. split; [exact C|]. exact S.
Qed.
Print Assumptions C13_link_get_d_whole_range.

Example C13_link_get_d_concrete :      (* 2^-1088 underflows to +0; (2^128 - 2^64 + 1) * 2^(64 * 15) overflows to +infinity *)
  mpf_get_d (mkmpf 2 1 (-16) 1) = Ok DZero /\
  mpf_get_d (mkmpf 2 2 17 (2 ^ 128 - 2 ^ 64 + 1)) = Ok (DInf false) /\
  mpf_get_d (mkmpf 2 (-1) 1 3) = Ok (DFin true (3 * 2 ^ 51) (-51)).
Proof. repeat split; vm_compute; reflexivity. Qed.

Example C13_link_set_rdpe_concrete :    (* 0.75 * 2^65 = 3 * 2^127 in three limbs; and the repaired negation at LONG_MIN: 0.5 * 2^LONG_MIN *)
  mpf_set_rdpe 3 (DFin false (3 * 2 ^ 51) (-53), 65) = Ok (mkmpf 3 3 2 (3 * 2 ^ 127)) /\
  mpf_set_2dl_fixed 2 (DFin false (2 ^ 52) (-53)) LMIN = Ok (mkmpf 2 2 (- 2 ^ 57) (2 ^ 127)).
Proof. split; vm_compute; reflexivity. Qed.

(* ------------------------------------------------------------------ the complex layer of link.c: component by component, real part first.
   mpc_get_cdpe is two calls of mpf_get_rdpe (so C13_link_get_rdpe_truncation / _zero apply to each component; both source components
   are written and restored), mpc_set_cdpe two calls of mpf_set_rdpe (exact), mpc_get_cplx two calls of mpf_get_d
   (C13_link_get_d_whole_range per component), mpc_set_cplx two calls of mpf_set_d (exact for every finite double). *)
Theorem C13_link_get_cdpe_components :
  forall c : mpc, wf_mpf (fst c) = true -> wf_mpf (snd c) = true ->
    - 2 ^ 57 < m_exp (fst c) < 2 ^ 57 -> - 2 ^ 57 < m_exp (snd c) < 2 ^ 57 ->
  exists r1 r2,
    mpc_get_cdpe c = Ok ((r1, r2), c, [0; m_exp (fst c); 0; m_exp (snd c)]) /\
    mpf_get_rdpe (fst c) = Ok (r1, fst c, [0; m_exp (fst c)]) /\
    mpf_get_rdpe (snd c) = Ok (r2, snd c, [0; m_exp (snd c)]).
Proof. exact get_cdpe_components. Qed.
Print Assumptions C13_link_get_cdpe_components.

Theorem C13_link_set_cdpe_exact :
  forall prec s1 m1 e1 l1 s2 m2 e2 l2,
  2 <= prec < 2 ^ 31 -> 0 < m1 < 2 ^ 53 -> LMIN < l1 <= LMAX -> 0 < m2 < 2 ^ 53 -> LMIN < l2 <= LMAX ->
  exists f1 f2, mpc_set_cdpe prec ((DFin s1 m1 e1, l1), (DFin s2 m2 e2, l2)) = Ok (f1, f2) /\
    (wf_mpf f1 = true /\ m_size f1 <> 0 /\ m_neg f1 = s1 /\ m_prec f1 = prec /\
     exists t, 0 <= t /\ m_d f1 = m1 * 2 ^ t /\ 64 * (m_exp f1 - m_n f1) = e1 + l1 - t) /\
    (wf_mpf f2 = true /\ m_size f2 <> 0 /\ m_neg f2 = s2 /\ m_prec f2 = prec /\
     exists t, 0 <= t /\ m_d f2 = m2 * 2 ^ t /\ 64 * (m_exp f2 - m_n f2) = e2 + l2 - t).
Proof. exact set_cdpe_exact. Qed.
Print Assumptions C13_link_set_cdpe_exact.

Theorem C13_link_set_cplx_exact :
  forall prec s1 m1 e1 s2 m2 e2, 2 <= prec < 2 ^ 31 -> 0 < m1 < 2 ^ 53 -> 0 < m2 < 2 ^ 53 ->
  exists f1 f2, mpc_set_cplx prec (DFin s1 m1 e1, DFin s2 m2 e2) = Ok (f1, f2) /\
    (wf_mpf f1 = true /\ m_size f1 <> 0 /\ m_neg f1 = s1 /\ m_prec f1 = prec /\
     exists t, 0 <= t /\ m_d f1 = m1 * 2 ^ t /\ 64 * (m_exp f1 - m_n f1) = e1 + 0 - t) /\
    (wf_mpf f2 = true /\ m_size f2 <> 0 /\ m_neg f2 = s2 /\ m_prec f2 = prec /\
     exists t, 0 <= t /\ m_d f2 = m2 * 2 ^ t /\ 64 * (m_exp f2 - m_n f2) = e2 + 0 - t).
Proof. exact set_cplx_exact. Qed.
Print Assumptions C13_link_set_cplx_exact.

Theorem C13_link_get_cplx_components :
  forall c : mpc, wf_mpf (fst c) = true -> wf_mpf (snd c) = true -> m_size (fst c) <> 0 -> m_size (snd c) <> 0 ->
    in_long ((m_exp (fst c) - m_n (fst c)) * 64) = true -> in_long ((m_exp (snd c) - m_n (snd c)) * 64) = true ->
  exists d1 d2, mpc_get_cplx c = Ok (d1, d2) /\ mpf_get_d (fst c) = Ok d1 /\ mpf_get_d (snd c) = Ok d2.
Proof.
  intros c W1 W2 N1 N2 L1 L2. destruct (get_cplx_components c W1 W2 N1 N2 L1 L2) as (d1 & d2 & A & B & C & _).
  exists d1, d2. repeat split; assumption.
Qed.
Print Assumptions C13_link_get_cplx_components.

Example C13_link_cdpe_concrete :
  mpc_get_cdpe (f_three, mkmpf 2 (-1) 0 (2 ^ 63)) =
    Ok ((DFin false (3 * 2 ^ 51) (-53), 66, (DFin true (2 ^ 52) (-53), 0)), (f_three, mkmpf 2 (-1) 0 (2 ^ 63)), [0; 2; 0; 0]).
Proof. vm_compute. reflexivity. Qed.
