(* C04 - radius primitives are rigorous for arbitrary approximations: statements.
   C is any numClosedFieldType (e.g. the algebraic numbers algC).  Model: Radius/RadiusModel.v. *)
From mathcomp Require Import all_ssreflect all_algebra all_field.
From mathcomp Require Import polyorder.
From MPSV Require Import Roots.NewtonDisc Roots.Isolate Roots.TransformSound.
From MPSV Require Import Radius.RadiusModel Radius.NewtonRadius Radius.Gerschgorin Radius.SecularRadius.
From MPSV Require Import Radius.NewtonCoded Radius.NewtonCodedProofs.
Set Implicit Arguments. Unset Strict Implicit. Unset Printing Implicit Defensive.
Import Order.TTheory GRing.Theory Num.Theory.
Local Open Scope ring_scope.

(* a radius at least n |p(x)/p'(x)| gives a disc that contains a root *)
Theorem C04_newton_exact_sound (C : numClosedFieldType) (p : {poly C}) (x r : C) :
  p != 0 -> p^`().[x] != 0 -> (size p).-1%:R * `|p.[x] / p^`().[x]| <= r ->
  exists2 w, root p w & `|x - w| <= r.
Proof. exact: newton_exact_sound. Qed.
Print Assumptions C04_newton_exact_sound.

(* the coded expression n (|p^| + E) / |p'(x)| : sound when |p^ - p(x)| <= E and the derivative is exact;
   a vanishing derivative gives no radius (no claim) *)
Theorem C04_newton_model_sound (C : numClosedFieldType) (p : {poly C}) (x ph E : C) :
  p != 0 -> `|ph - p.[x]| <= E ->
  disc_claim p x (newton_radius_model (size p).-1 ph E p^`().[x]).
Proof. exact: newton_model_sound. Qed.
Print Assumptions C04_newton_model_sound.

(* what a derivative computed with relative error eta needs: the factor 1/(1 - eta) *)
Theorem C04_newton_deriv_error (C : numClosedFieldType) (p : {poly C}) (x r ph dh Ep eta : C) :
  p != 0 -> `|ph - p.[x]| <= Ep -> `|dh - p^`().[x]| <= eta * `|dh| -> eta < 1 -> dh != 0 ->
  (size p).-1%:R * (`|ph| + Ep) / (`|dh| * (1 - eta)) <= r ->
  exists2 w, root p w & `|x - w| <= r.
Proof. exact: newton_deriv_error_sound. Qed.
Print Assumptions C04_newton_deriv_error.

(* PARTIAL: the code has no such factor; its expression n (|p^| + E) / |d^| is sound only as far as the
   slack between the error term E it adds and the actual evaluation error Ep absorbs eta.  Whether the
   slack condition holds for the floating-point Horner schemes is not proved (and fails: see the refutation
   below and the known findings on the reversed-Horner branch of mps_fnewton and on mps_secular_*newton). *)
Theorem C04_newton_deriv_error_slack_partial (C : numClosedFieldType) (p : {poly C}) (x ph dh E Ep eta : C) :
  p != 0 -> `|ph - p.[x]| <= Ep -> `|dh - p^`().[x]| <= eta * `|dh| -> eta < 1 -> dh != 0 ->
  `|ph| + Ep <= (`|ph| + E) * (1 - eta) ->
  disc_claim p x (newton_radius_model (size p).-1 ph E dh).
Proof. exact: newton_model_slack_sound. Qed.
Print Assumptions C04_newton_deriv_error_slack_partial.

(* REFUTED at model level: with a derivative error that the error term does not absorb the coded
   expression yields a root-free disc (degree 1, exact value, derivative off by eta = 1/2) *)
Theorem C04_newton_critical_refuted (C : numClosedFieldType) :
  exists (p : {poly C}) (x ph dh E eta : C),
    (p != 0 /\ dh != 0) /\
    [/\ `|ph - p.[x]| <= E, `|dh - p^`().[x]| <= eta * `|dh|, eta < 1
      & ~ disc_claim p x (newton_radius_model (size p).-1 ph E dh)].
Proof. exact: newton_deriv_unabsorbed_refuted. Qed.
Print Assumptions C04_newton_critical_refuted.

Theorem C04_nonfinite_no_claim (C : numClosedFieldType) (p : {poly C}) (x : C) (n : nat) (ph E : C) :
  newton_radius_model n ph E 0 = None /\ disc_claim p x (newton_radius_model n ph E 0).
Proof. by split; [rewrite /newton_radius_model eqxx | exact: nonfinite_no_claim]. Qed.
Print Assumptions C04_nonfinite_no_claim.

(* the bound is attained by (x - a)^n at every z <> a: no factor below n is sound *)
Theorem C04_tight_family (C : numClosedFieldType) (a z : C) (n : nat) : (0 < n)%N -> z != a ->
  (size (('X - a%:P) ^+ n)).-1%:R * `|(('X - a%:P) ^+ n).[z] / (('X - a%:P) ^+ n)^`().[z]| = `|z - a|.
Proof. exact: tight_family. Qed.
Print Assumptions C04_tight_family.

Theorem C04_tight_family_sharp (C : numClosedFieldType) (a z r : C) (n : nat) : (0 < n)%N -> r < `|z - a| ->
  forall w, root (('X - a%:P) ^+ n) w -> ~~ (`|z - w| <= r).
Proof. exact: tight_family_sharp. Qed.
Print Assumptions C04_tight_family_sharp.

(* n pairwise distinct approximations: every root lies in some disc
   D(z_i, n |p(z_i)| / (|lc p| prod_{j<>i} |z_i - z_j|)) *)
Theorem C04_radii_union_sound (C : numClosedFieldType) (n : nat) (z : 'I_n -> C) (p : {poly C}) (x : C) :
  injective z -> size p = n.+1 -> root p x ->
  exists i : 'I_n, `|x - z i| <=
     n%:R * (`|p.[z i]| / (`|lead_coef p| * `|\prod_(j < n | j != i) (z i - z j)|)).
Proof. by move=> zi; apply: gersch_union. Qed.
Print Assumptions C04_radii_union_sound.

(* the coded radii: computed values ph_i with error at most E_i, any radii above the model expression *)
Theorem C04_radii_model_union_sound (C : numClosedFieldType) (n : nat) (z : 'I_n -> C) (p : {poly C})
    (ph E r : 'I_n -> C) (x : C) :
  injective z -> size p = n.+1 -> root p x ->
  (forall i, `|ph i - p.[z i]| <= E i) ->
  (forall i, n%:R * ((`|ph i| + E i) / (`|lead_coef p| * `|\prod_(j < n | j != i) (z i - z j)|)) <= r i) ->
  exists i : 'I_n, `|x - z i| <= r i.
Proof. by move=> zi; apply: gersch_model_union. Qed.
Print Assumptions C04_radii_model_union_sound.

(* secular equation sum a_i/(x - b_i) = 1 (numerator polynomial secD - secN): roots lie in the discs D(b_i, n|a_i|) *)
Theorem C04_secular_radii_sound (C : numClosedFieldType) (ab : seq (C * C)) (x : C) :
  root (secD ab - secN ab) x ->
  exists2 p, p \in ab & `|x - p.2| <= (size ab)%:R * `|p.1|.
Proof. exact: secular_gersch_union. Qed.
Print Assumptions C04_secular_radii_sound.

(* PARTIAL (component count): proved for singleton components of Newton discs - deg p pairwise disjoint
   discs, each of radius at least the Newton bound at its centre, hold exactly one simple root each and
   all roots.  The general statement (a connected component of k Gerschgorin discs holds exactly k roots)
   needs the continuity of the roots in the off-diagonal part of the companion-like matrix; it is not
   proved here and is validated on every run by the oracle instead. *)
Theorem C04_components_partial (C : numClosedFieldType) (p : {poly C}) (ds : seq (C * C)) :
  p != 0 -> size ds = (size p).-1 -> pairwise (@disjoint C) ds ->
  (forall d, d \in ds -> p^`().[d.1] != 0 /\ (size p).-1%:R * `|p.[d.1] / p^`().[d.1]| <= d.2) ->
  (forall d, d \in ds -> exists w, [/\ root p w, Isolate.in_disc d w, \mu_w p = 1%N
       & forall v, root p v -> Isolate.in_disc d v -> v = w])
  /\ (forall w, root p w -> exists2 d, d \in ds & Isolate.in_disc d w).
Proof. exact: newton_isolated_components. Qed.
Print Assumptions C04_components_partial.

(* ================= the Newton primitives AS CODED, rounding included =================
   Radius/NewtonCoded.v transcribes mps_fnewton / mps_dnewton / mps_mnewton (monomial/newton.c) branch by branch
   over a record of operations `arith K R D`; the SAME definitions are run bit for bit against the library with
   Flocq binary64 / the DPE model (Radius/NewtonExec.v, bin/newtonfl) on every run of the check.  Here K = R = D = C
   (0 < n: with n = 0 the C code reads fpc[0] twice, the library never calls it so, and the model is not claimed for it)
   and the operations are ANY functions obeying the standard model of rounding std_round A um ua uh ur epsv:
     |cmul a b - ab| <= um |ab|, |cadd a b - (a+b)| <= ua |a+b|, (1-uh)|a| <= cmod a <= (1+uh)|a|,
     every real operation on non-negative operands within relative ur, int -> double conversions and comparisons
     exact, deps = epsv (DBL_EPSILON).
   Notation: Sabs cs z = sum |a_i||z|^i; gam n = ((1+um)(1+ua))^n - 1; kap n = (1-uh) ((1-ur)^2 (1-uh))^n;
   e_f n = (1-ur)^2 4 n epsv kap n (mps_fnewton), e_d n = (1-ur)^3 4 n epsv kap n (mps_dnewton); rho4 = (1-ur)^4;
   COND rho e gamma eta := (1+uh) gamma <= rho (1-eta) e /\
                           ((1+uh) - rho (1-eta)(1-uh)) (1+gamma) + (1+uh) gamma <= rho (1-eta) e
   (first order: n (um+ua) + 2 uh + 4 ur + eta <= 4 n epsv; for binary64, um = 9/4 u, ua = ur = u, uh = 4u, epsv = 2u,
   eta = 0 this reads 3.25 n + 12 <= 8 n: the constant 4 of `eps = 4 n DBL_EPSILON' covers n >= 3; the exact
   rational evaluation for each n is done by the check, not in Coq). *)

(* value computed by the Horner loop: |p^ - p(z)| <= ((1+um)^n (1+ua)^n - 1) sum |a_i||z|^i, any list, any point *)
Theorem C04_coded_horner_error (C : numClosedFieldType) (A : arith C C C) (um ua uh ur epsv : C)
    (n : nat) (cs : seq C) (z : C) :
  std_round A um ua uh ur epsv -> (0 < n)%N -> size cs = n.+1 ->
  `|(horner2 A z (List.rev cs)).1 - (Poly cs).[z]| <= gam um ua n * Sabs cs z.
Proof. by move=> SR _ sz; have [H _] := horner2_value_error SR z sz. Qed.
Print Assumptions C04_coded_horner_error.

(* the running bound: ap >= kap(n) sum |a_i||z|^i when the table of moduli and the modulus of z are accurate to uh *)
Theorem C04_coded_ap_lower (C : numClosedFieldType) (A : arith C C C) (um ua uh ur epsv : C)
    (n : nat) (cs ms : seq C) (z az : C) :
  std_round A um ua uh ur epsv -> (0 < n)%N -> size cs = n.+1 -> ms_ok uh cs ms -> (1 - uh) * `|z| <= az ->
  kap uh ur n * Sabs cs z <= o_ap (fnewton_le1 A n cs ms z az).
Proof. by move=> SR _; apply: (fnewton_le1_ap_lower SR). Qed.
Print Assumptions C04_coded_ap_lower.

(* the error term of the code, E = eps * ap with eps = 4 n DBL_EPSILON (all rounded), dominates the evaluation error *)
Theorem C04_coded_error_term_dominates (C : numClosedFieldType) (A : arith C C C) (um ua uh ur epsv : C)
    (n : nat) (cs ms : seq C) (z az : C) :
  std_round A um ua uh ur epsv -> (0 < n)%N -> size cs = n.+1 -> ms_ok uh cs ms -> (1 - uh) * `|z| <= az ->
  gam um ua n <= e_f uh ur epsv n ->
  let o := fnewton_le1 A n cs ms z az in
  `|o_p o - (Poly cs).[z]| <= rmuld A (o_ap o) (feps A n).
Proof. by move=> SR _; apply: (fnewton_le1_error_term SR). Qed.
Print Assumptions C04_coded_error_term_dominates.

(* mps_fnewton, branch |z| <= 1: the radius AS CODED, n (absp + eps ap) / |p1^| + DBL_MIN with every operation
   rounded, gives a disc that contains a root.  PARTIAL in one respect: the relative error eta of the computed
   derivative p1^ is a hypothesis (it is unbounded near critical points; see C04_newton_critical_refuted). *)
Theorem C04_fnewton_coded_sound_partial (C : numClosedFieldType) (A : arith C C C) (um ua uh ur epsv : C)
    (n : nat) (cs ms : seq C) (z eta : C) :
  std_round A um ua uh ur epsv -> (0 < n)%N -> size cs = n.+1 -> ms_ok uh cs ms -> last 0 cs != 0 ->
  rle1 A (cmod A z) = true ->
  let o := fnewton A n cs ms z in
  o_p1 o != 0 -> `|o_p1 o - (Poly cs)^`().[z]| <= eta * `|o_p1 o| -> 0 <= eta -> eta < 1 ->
  COND uh (rho4 ur) (e_f uh ur epsv n) (gam um ua n) eta ->
  exists2 w, root (Poly cs) w & `|z - w| <= o_rad o.
Proof. by move=> SR _; apply: (fnewton_sound SR). Qed.
Print Assumptions C04_fnewton_coded_sound_partial.

(* mps_dnewton: e_d n = (1-ur)^3 4 n epsv kap n (eps = DBL_EPSILON * n * 4 costs one more rounding).  The radius as
   coded - n (absp + apeps)/|p1^| when `again', else the smaller of (n+1)(absp + apeps)/|p1^| and the radius at entry,
   plus 4 eps |z| - gives a disc with a root, provided the radius at entry did (it is kept when smaller) and adding a
   non-negative number with rdpe_add_eq never decreases a number (true for rounding to nearest; not part of std_round).
   PARTIAL as above: eta is a hypothesis. *)
Theorem C04_dnewton_coded_sound_partial (C : numClosedFieldType) (A : arith C C C) (um ua uh ur epsv : C)
    (n : nat) (cs ms : seq C) (z r0 eta : C) :
  std_round A um ua uh ur epsv -> (0 < n)%N -> size cs = n.+1 -> ms_ok uh cs ms -> last 0 cs != 0 ->
  (forall a b, 0 <= a -> 0 <= b -> a <= radd_eq A a b) ->
  0 <= r0 -> (exists2 w, root (Poly cs) w & `|z - w| <= r0) ->
  let o := dnewton A n cs ms z r0 in
  o_p1 o != 0 -> `|o_p1 o - (Poly cs)^`().[z]| <= eta * `|o_p1 o| -> 0 <= eta -> eta < 1 ->
  COND uh (rho4 ur) (e_d uh ur epsv n) (gam um ua n) eta ->
  exists2 w, root (Poly cs) w & `|z - w| <= o_rad o.
Proof. by move=> SR _; apply: (dnewton_sound SR). Qed.
Print Assumptions C04_dnewton_coded_sound_partial.

(* NULL DERIVATIVE branch of mps_dnewton (p^ <> 0, p1^ = 0): the radius is left as it was and `again' is cleared *)
Theorem C04_dnewton_null_derivative (C : numClosedFieldType) (A : arith C C C) (um ua uh ur epsv : C)
    (n : nat) (cs ms : seq C) (z r0 : C) :
  std_round A um ua uh ur epsv ->
  let o := dnewton A n cs ms z r0 in
  o_p o != 0 -> o_p1 o = 0 -> o_rad o = r0 /\ o_again o = false.
Proof. by move=> SR; apply: (dnewton_null_derivative SR). Qed.
Print Assumptions C04_dnewton_null_derivative.

(* dense mps_mnewton, main branch (p^ <> 0, p1^ <> 0): ep0 = 2^(2-wp) in the library, apeps = ap * (ep0 * n);
   e_m n ep0 = (1-ur)^2 n ep0 kap n;  rho_m = (1-ur)^6 (1 + (1-ur) 16 epsv): the final factor 1 + 16 DBL_EPSILON is what
   pays for the 53-bit radius arithmetic (um, ua are of the order 2^-wp here, uh and ur of the order 2^-53, so without
   that factor COND could not hold).  PARTIAL: eta is a hypothesis; the branch p^ = 0 and the sparse path have no theorem. *)
Theorem C04_mnewton_coded_sound_partial (C : numClosedFieldType) (A : arith C C C) (um ua uh ur epsv : C)
    (n : nat) (cs ms : seq C) (z ep0 r0 eta : C) :
  std_round A um ua uh ur epsv -> (0 < n)%N -> size cs = n.+1 -> ms_ok uh cs ms -> last 0 cs != 0 -> 0 <= ep0 ->
  let o := mnewton_dense A n cs ms z ep0 r0 in
  ph_of A z cs != 0 -> dh_of A z cs != 0 ->
  `|dh_of A z cs - (Poly cs)^`().[z]| <= eta * `|dh_of A z cs| -> 0 <= eta -> eta < 1 ->
  COND uh (rho_m ur epsv) (e_m uh ur n ep0) (gam um ua n) eta ->
  exists2 w, root (Poly cs) w & `|z - w| <= o_rad o.
Proof. by move=> SR _; apply: (mnewton_dense_sound SR). Qed.
Print Assumptions C04_mnewton_coded_sound_partial.

(* ---------------- non-vacuity ---------------- *)
Section Examples.
Let C := algC.
Let three_neq1 : (3%:R : C) != 1.
Proof. by rewrite -[1]/(1%:R) eqr_nat. Qed.

(* (x-1)^2 at z = 3: the Newton bound is exactly |3 - 1| *)
Example C04_ex_tight : (size (('X - (1:C)%:P) ^+ 2)).-1%:R *
   `|(('X - (1:C)%:P) ^+ 2).[3%:R] / (('X - (1:C)%:P) ^+ 2)^`().[3%:R]| = `|3%:R - 1 : C|.
Proof. exact: C04_tight_family. Qed.

(* p = x - 1 evaluated exactly at 3: the model radius 1 * (2 + 0)/1 is a claim, and it holds *)
Example C04_ex_model : disc_claim ('X - (1:C)%:P) 3%:R
   (newton_radius_model (size ('X - (1:C)%:P)).-1 (3%:R - 1) 0 ('X - (1:C)%:P)^`().[3%:R]).
Proof. by apply: C04_newton_model_sound; rewrite ?polyXsubC_eq0 // hornerXsubC subrr normr0. Qed.
Example C04_ex_model_is_a_claim :
  newton_radius_model (size ('X - (1:C)%:P)).-1 (3%:R - 1) 0 ('X - (1:C)%:P)^`().[3%:R] != None.
Proof. by rewrite /newton_radius_model derivXsubC hornerE oner_eq0. Qed.

(* one approximation z_0 = 3 of the root of x - 1: the Gerschgorin disc D(3, 2) *)
Example C04_ex_union : let z := (fun _ : 'I_1 => 3%:R : C) in let p := 'X - (1:C)%:P in
  exists i : 'I_1, `|1 - z i| <=
     1%:R * (`|p.[z i]| / (`|lead_coef p| * `|\prod_(j < 1 | j != i) (z i - z j)|)).
Proof.
move=> z p; apply: C04_radii_union_sound.
- by move=> i j _; rewrite !ord1.
- by rewrite size_XsubC.
- by rewrite root_XsubC.
Qed.

(* secular equation 2/(x-0) + 1/(x-5) = 1: every root is within 2*2 of 0 or within 2*1 of 5 *)
Example C04_ex_secular (x : C) : root (secD [:: (2%:R, 0); (1, 5%:R)] - secN [:: (2%:R, 0); (1, 5%:R)]) x ->
  exists2 p, p \in [:: (2%:R, 0); (1, 5%:R : C)] & `|x - p.2| <= 2%:R * `|p.1|.
Proof. exact: C04_secular_radii_sound. Qed.

(* the standard model is satisfiable (exact operations: um = ua = uh = ur = 0), COND then holds for every degree,
   and the coded mps_fnewton at z = 0 for p = 2x - 1 (moduli table [1; 2]) returns a disc that holds the root 1/2:
   all hypotheses of C04_fnewton_coded_sound_partial are met by a concrete state *)
Example C04_ex_std_round (e : C) : 0 <= e -> std_round (exactA e) 0 0 0 0 e.
Proof. exact: exact_std_round. Qed.
Example C04_ex_coded (e : C) : 0 <= e ->
  exists2 w, root (Poly [:: -1; 2%:R : C]) w & `|0 - w| <= o_rad (fnewton (exactA e) 1 [:: -1; 2%:R] [:: 1; 2%:R] 0).
Proof.
move=> e0.
have two0 : (2%:R : C) != 0 by rewrite pnatr_eq0.
have H := @C04_fnewton_coded_sound_partial _ (exactA e) 0 0 0 0 e 1 [:: -1; 2%:R] [:: 1; 2%:R] 0 0 (exact_std_round e0).
apply: H => //.
- by split=> //=; rewrite subr0 !mul1r normrN1 normr_nat !lexx.
- by rewrite /= normr0 ler01.
- by rewrite /fnewton /= normr0 ler01 /=.
- rewrite /fnewton /= normr0 ler01 /= mul0r.
  have -> : (Poly [:: -1; 2%:R : C])^`() = 2%:R%:P.
    by rewrite /= !cons_poly_def mul0r add0r derivMXaddC derivC mul0r addr0.
  by rewrite hornerC subrr normr0.
- exact: ltr01.
- exact: (exact_COND 1 e0).
Qed.
End Examples.
