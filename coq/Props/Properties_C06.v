(* C06 -- thread pool: every task handed over is executed exactly once; wait is a barrier;
   changing the limit / freeing the pool loses no task and joins every worker.  Statements only.
   Model: MPSV.Conc.PoolModel (labelled transition system following threading.c operation by
   operation; unbounded workers and tasks; spurious wake-ups; `run init tr = Some s` = s is
   reachable by the trace tr).  `run_d` = the same with the limit lowered / the pool freed only
   when busy_counter = 0 and the queue is empty (what the solver does: always after a wait).
   Tie to the C code: trace validation of the real pool under the scheduler shim (checks/C06.py). *)
From Coq Require Import List ZArith Bool Arith Permutation.
From MPSV Require Import Conc.PoolModel Conc.PoolWitness Conc.PoolProps Conc.PoolProgress Conc.PoolAsync.
Import ListNotations.

(* nothing is lost or duplicated: the tasks handed over are, as a multiset, the ones still with the
   caller (inline execution / about to be queued), queued, running on a worker, or finished *)
Theorem C06_pool_conservation : forall tr s,
  run init tr = Some s -> Permutation (assigned s) (pending s ++ queue s ++ running s ++ executed s).
Proof. exact pool_conservation. Qed.
Print Assumptions C06_pool_conservation.

(* at most once: no task is executed twice, or executed and still queued / running *)
Theorem C06_pool_at_most_once : forall tr s,
  run init tr = Some s -> NoDup (pending s ++ queue s ++ running s ++ executed s).
Proof. exact pool_at_most_once. Qed.
Print Assumptions C06_pool_at_most_once.

Theorem C06_pool_never_lost : forall tr s t,
  run init tr = Some s -> In t (assigned s) ->
  In t (pending s) \/ In t (queue s) \/ In t (running s) \/ In t (executed s).
Proof. exact pool_never_lost. Qed.
Print Assumptions C06_pool_never_lost.

(* busy_counter counts exactly the workers whose busy flag is set (exited ones included: see the
   refutation below), and a worker that holds a task has its flag set *)
Theorem C06_pool_busy_exact : forall tr s,
  run init tr = Some s ->
  busy_counter s = Z.of_nat (nbusy s) /\
  (forall i x t, nth_error (workers s) i = Some x -> In t (wtask (w_pc x)) -> w_busy x = true).
Proof. exact pool_busy_exact. Qed.
Print Assumptions C06_pool_busy_exact.

(* barrier: when mps_thread_pool_wait returns, every task handed over so far has been executed
   and has finished (executed is extended when the task body returns); nothing is queued or running *)
Theorem C06_pool_wait_barrier : forall tr s,
  run init tr = Some s -> pc0 s = CRet EWaitRet ->
  Permutation (assigned s) (executed s) /\ queue s = [] /\ running s = [] /\
  (forall t, In t (assigned s) -> In t (executed s)).
Proof. exact pool_wait_barrier. Qed.
Print Assumptions C06_pool_wait_barrier.

Theorem C06_pool_wait_barrier_step : forall tr s s' t,
  run init tr = Some s -> step s (LEv 0%nat EWaitRet) = Some s' -> In t (assigned s) -> In t (executed s').
Proof. exact pool_wait_barrier_step. Qed.
Print Assumptions C06_pool_wait_barrier_step.

(* after mps_thread_pool_free returned every worker ever created has exited and was joined;
   the tasks lost are exactly those still queued when free was called (none after a wait) *)
Theorem C06_pool_free_joins_all : forall tr s,
  run init tr = Some s -> pc0 s = CDone ->
  Forall (fun x => w_pc x = WExited /\ w_joined x = true) (workers s) /\
  Permutation (assigned s) (queue s ++ executed s).
Proof. exact pool_free_joins_all. Qed.
Print Assumptions C06_pool_free_joins_all.

(* REFUTED: "changing the concurrency limit never blocks forever".  Lowering the limit while the
   worker being freed runs a task: it exits through the pthread_exit at the bottom of
   mps_thread_mainloop with busy_counter still counting it.  In the state reached every task has
   been executed, nothing is queued or running, busy_counter = 1, the client is inside
   cond_wait in mps_thread_pool_wait and no step other than a spurious wake-up is enabled.
   The trace witness_limit_running is replayed on the real pool by checks/C06.py. *)
Theorem C06_pool_limit_while_running_refuted :
  exists tr s, run init tr = Some s /\
    dead_state s = true /\
    (forall l s', step s l = Some s' -> is_spurious l = true) /\
    Permutation (assigned s) (executed s) /\ assigned s <> [] /\
    busy_counter s = 1%Z /\ running s = [] /\ queue s = [].
Proof. exact pool_limit_while_running_refuted. Qed.
Print Assumptions C06_pool_limit_while_running_refuted.

(* the way the solver uses it (limit lowered / pool freed on a quiescent pool only) is safe:
   no freed worker is ever counted in busy_counter *)
Theorem C06_pool_limit_when_idle_ok : forall tr s,
  run_d init tr = Some s ->
  (forall i x, nth_error (workers s) i = Some x -> w_alive x = false -> w_busy x = false) /\
  busy_counter s = Z.of_nat (length (filter (fun x => w_busy x && w_alive x) (workers s))).
Proof. exact pool_limit_when_idle_ok. Qed.
Print Assumptions C06_pool_limit_when_idle_ok.

(* no lost wake-up on queue_changed (any trace, disciplined or not): from the moment a worker has
   found the queue empty until it is inside cond_wait it owns queue_changed_mutex and the queue is
   still empty, so an assign (push + signal under that mutex) cannot fall between test and wait *)
Theorem C06_pool_no_lost_wakeup : forall tr s i x,
  run init tr = Some s -> nth_error (workers s) i = Some x ->
  (w_pc x = WIdleSignal \/ w_pc x = WIdleUnlockWC \/ w_pc x = WCondWait) ->
  qc_owner s = Some (S i) /\ queue s = [].
Proof. exact pool_no_stuck_state_partial. Qed.
Print Assumptions C06_pool_no_lost_wakeup.

(* DEADLOCK FREEDOM of the disciplined model: in every reachable state in which the API script is
   not finished some step other than a spurious wake-up is enabled ... *)
Theorem C06_pool_no_stuck_state : forall tr s,
  run_d init tr = Some s -> pc0 s <> CDone ->
  exists l s', is_spurious l = false /\ step_d s l = Some s'.
Proof. exact pool_no_stuck_state. Qed.
Print Assumptions C06_pool_no_stuck_state.

(* ... and while the client is blocked (inside cond_wait of mps_thread_pool_wait with no signal
   pending, or in pthread_join on a worker that has not exited) it is a WORKER step *)
Theorem C06_pool_no_stuck_worker : forall tr s,
  run_d init tr = Some s -> client_blocked s ->
  exists l s', is_spurious l = false /\ label_tid l <> 0%nat /\ step_d s l = Some s'.
Proof. exact pool_no_stuck_worker. Qed.
Print Assumptions C06_pool_no_stuck_worker.

(* RANKING FUNCTION: while the client is inside wait, every step other than a spurious wake-up, by
   whichever thread, strictly lowers rank = 10*|queue| + sum of the workers' distances to their resting
   point + the client's; a spurious wake-up raises it by at most spurious_cost = 16 (it only re-checks
   and goes back to sleep).  Holds in every state, reachable or not. *)
Theorem C06_pool_wait_rank_decreases : forall s l s',
  waiting (pc0 s) = true -> step s l = Some s' ->
  (is_spurious l = false -> (rank s' < rank s)%nat) /\
  (is_spurious l = true -> (rank s' <= rank s + spurious_cost)%nat).
Proof. exact rank_step. Qed.
Print Assumptions C06_pool_wait_rank_decreases.

(* TERMINATION OF WAIT.  Fairness assumptions, explicit: (progress) whenever a step other than a
   spurious wake-up is enabled the system eventually takes one -- no fairness BETWEEN threads is
   needed since every such step lowers the rank; (spurious) only k spurious wake-ups occur.  By
   C06_pool_no_stuck_state such a step exists until wait has returned, and by the bound below at
   most rank s + 16 k of them can be taken while the client is still inside wait: wait returns. *)
Theorem C06_pool_wait_terminates : forall tr s s',
  run s tr = Some s' -> stays_waiting s tr ->
  (n_other tr <= rank s + spurious_cost * n_spurious tr)%nat.
Proof. exact pool_wait_terminates. Qed.
Print Assumptions C06_pool_wait_terminates.

(* exactly once at the level of task BODIES (for C18): along any trace the body of a task starts at
   most once, and exactly once as soon as the task counts as executed *)
Theorem C06_pool_body_at_most_once : forall tr s t,
  run init tr = Some s -> (count_occ Nat.eq_dec (starts_of tr) t <= 1)%nat.
Proof. exact pool_body_at_most_once. Qed.
Print Assumptions C06_pool_body_at_most_once.

Theorem C06_pool_body_exactly_once : forall tr s t,
  run init tr = Some s -> In t (executed s) -> count_occ Nat.eq_dec (starts_of tr) t = 1%nat.
Proof. exact pool_body_exactly_once. Qed.
Print Assumptions C06_pool_body_exactly_once.

(* mps_mpsolve_async: one pool, one task t with body [body t] (= mps_caller: solve; callback).  The
   body's events appear never or once, as one block in the body's own order; they have appeared once
   t is executed, in particular when a wait on the pool returns. *)
Theorem C06_pool_async_once : forall (A : Type) (body : task -> list A) tr s t,
  run init tr = Some s -> assigned s = [t] ->
  (interp body tr = [] \/ interp body tr = body t) /\
  (In t (executed s) -> interp body tr = body t) /\
  (pc0 s = CRet EWaitRet -> interp body tr = body t).
Proof. exact @pool_async_once. Qed.
Print Assumptions C06_pool_async_once.

(* ---- non-vacuity: the hypotheses are met by concrete, non-trivial traces ---- *)
(* a full round (new 2; two tasks; wait; free) is a trace of the model, also of the disciplined one,
   ends in CDone with two executed tasks and two exited workers *)
Example C06_ex_round_runs :
  match run init example_round with
  | Some s => pc0 s = CDone /\ length (executed s) = 2%nat /\ length (workers s) = 2%nat
  | None => False end.
Proof. vm_compute. repeat split. Qed.
Example C06_ex_round_disciplined : is_some (run_d init example_round) = true.
Proof. vm_compute. reflexivity. Qed.
(* the barrier hypothesis pc0 = CRet EWaitRet occurs with tasks handed over (prefix of the round) *)
Example C06_ex_barrier_reached :
  match run init (firstn 73 example_round) with
  | Some s => pc0 s = CRet EWaitRet /\ length (assigned s) = 2%nat
  | None => False end.
Proof. vm_compute. repeat split. Qed.
(* a worker about to sleep (hypothesis of C06_pool_no_lost_wakeup) occurs *)
Example C06_ex_condwait_reached :
  match run init (firstn 14 example_round) with
  | Some s => exists x, nth_error (workers s) 0 = Some x /\ w_pc x = WCondWait
  | None => False end.
Proof. vm_compute. eexists; split; reflexivity. Qed.
(* the refutation witness is NOT a trace of the disciplined model *)
Example C06_ex_witness_not_disciplined : run_d init witness_limit_running = None.
Proof. vm_compute. reflexivity. Qed.

(* the client blocked in wait is reachable in the disciplined model (hypothesis of no_stuck_worker) *)
Example C06_ex_client_blocked :
  match run_d init (firstn 30 example_round) with
  | Some s => cont0 s = false /\ pc0 s = CWaitBlocked AWait /\ mem 0%nat (wc_wait s) = true
  | None => False end.
Proof. vm_compute. repeat split. Qed.
(* an execution that stays inside wait (hypothesis of wait_terminates): 42 steps of the round, rank 52 at its start *)
Example C06_ex_stays_waiting :
  match run_d init (firstn 29 example_round) with
  | Some s => stays_waiting s (firstn 42 (skipn 29 example_round)) /\ rank s = 52%nat
  | None => False end.
Proof. vm_compute. repeat split. Qed.
(* mps_mpsolve_async's use of the pool: one worker, strict_async, task 7 run by the worker, wait returns *)
Example C06_ex_async :
  match run init example_async with
  | Some s => pc0 s = CRet EWaitRet /\ assigned s = [7%nat] /\ strict s = true /\ length (workers s) = 1%nat
  | None => False end /\ interp (fun t => [t; t]) example_async = [7%nat; 7%nat].
Proof. vm_compute. repeat split. Qed.
