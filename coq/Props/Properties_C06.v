(* C06 -- thread pool: every task handed over is executed exactly once; wait is a barrier;
   changing the limit / freeing the pool loses no task and joins every worker.  Statements only.
   Model: MPSV.Conc.PoolModel (labelled transition system following threading.c operation by
   operation; unbounded workers and tasks; spurious wake-ups; NESTED ASSIGN: a task body, on a worker
   or inline in the client, may call assign on the same pool (queue path, or inline with unbounded
   nesting when pool->n = 1 and not strict_async); `run init tr = Some s` = s is reachable by the
   trace tr).  `run_d` = the same with the limit lowered / the pool freed only when busy_counter = 0
   and the queue is empty (what the solver does: always after a wait).  `init_r` = the pool with
   fixes/C06_limit_while_busy.patch applied (the worker leaving through the bottom of the main loop
   gives its busy slot back).  `assigned s` = every task handed over so far by ANY thread.
   Tie to the C code: trace validation of the real pool under the scheduler shim (checks/C06.py). *)
From Coq Require Import List ZArith Bool Arith Permutation.
From MPSV Require Import Conc.PoolModel Conc.PoolWitness Conc.PoolProps Conc.PoolNested Conc.PoolChk Conc.PoolProgress Conc.PoolRank Conc.PoolAsync.
Import ListNotations.

(* nothing is lost or duplicated: the tasks handed over are, as a multiset, the ones still with the
   caller (inline execution / about to be queued), queued, running on a worker, or finished *)
Theorem C06_pool_conservation : forall tr s,
  run init tr = Some s -> Permutation (assigned s) (pending s ++ queue s ++ running s ++ executed s).
Proof. exact pool_conservation. Qed.
Print Assumptions C06_pool_conservation.

(* at most once: no task is executed twice, or executed and still queued / running *)
Theorem C06_pool_at_most_once : forall tr s,
  run init tr = Some s -> NoDup (pending s ++ queue s ++ running s ++ executed s).
Proof. exact pool_at_most_once. Qed.
Print Assumptions C06_pool_at_most_once.

Theorem C06_pool_never_lost : forall tr s t,
  run init tr = Some s -> In t (assigned s) ->
  In t (pending s) \/ In t (queue s) \/ In t (running s) \/ In t (executed s).
Proof. exact pool_never_lost. Qed.
Print Assumptions C06_pool_never_lost.

(* busy_counter counts exactly the workers whose busy flag is set (exited ones included: see the
   refutation below), and a worker that holds a task has its flag set *)
Theorem C06_pool_busy_exact : forall tr s,
  run init tr = Some s ->
  busy_counter s = Z.of_nat (nbusy s) /\
  (forall i x t, nth_error (workers s) i = Some x -> In t (wtask (w_pc x)) -> w_busy x = true).
Proof. exact pool_busy_exact. Qed.
Print Assumptions C06_pool_busy_exact.

(* barrier: when mps_thread_pool_wait returns, every task handed over so far has been executed
   and has finished (executed is extended when the task body returns); nothing is queued or running *)
Theorem C06_pool_wait_barrier : forall tr s,
  run init tr = Some s -> pc0 s = CRet EWaitRet ->
  Permutation (assigned s) (executed s) /\ queue s = [] /\ running s = [] /\
  (forall t, In t (assigned s) -> In t (executed s)).
Proof. exact pool_wait_barrier. Qed.
Print Assumptions C06_pool_wait_barrier.

Theorem C06_pool_wait_barrier_step : forall tr s s' t,
  run init tr = Some s -> step s (LEv 0%nat EWaitRet) = Some s' -> In t (assigned s) -> In t (executed s').
Proof. exact pool_wait_barrier_step. Qed.
Print Assumptions C06_pool_wait_barrier_step.

(* ... stated on the events: whichever thread emitted `assign t` (the client's script, a task body on a
   worker, a task body running inline), t has been executed and has finished when wait returns *)
Theorem C06_pool_wait_barrier_spawned : forall tr s w t,
  run init tr = Some s -> pc0 s = CRet EWaitRet -> In (LEv w (EAssign t)) tr -> In t (executed s).
Proof. exact pool_wait_barrier_spawned. Qed.
Print Assumptions C06_pool_wait_barrier_spawned.

(* ... and nothing can be handed over behind the waiter's back: from the moment the test in wait has
   succeeded (under work_completed_mutex) until wait has returned no worker is inside a task body and
   the assign event of a worker is not enabled *)
Theorem C06_pool_no_late_spawn : forall tr s w t,
  run init tr = Some s -> waitdone (pc0 s) = true ->
  running s = [] /\ step s (LEv (S w) (EAssign t)) = None.
Proof. exact pool_no_late_spawn. Qed.
Print Assumptions C06_pool_no_late_spawn.

(* after mps_thread_pool_free returned every worker ever created has exited and was joined;
   the tasks lost are exactly those still queued when free was called (none after a wait) *)
Theorem C06_pool_free_joins_all : forall tr s,
  run init tr = Some s -> pc0 s = CDone ->
  Forall (fun x => w_pc x = WExited /\ w_joined x = true) (workers s) /\
  Permutation (assigned s) (queue s ++ executed s).
Proof. exact pool_free_joins_all. Qed.
Print Assumptions C06_pool_free_joins_all.

(* REFUTED: "changing the concurrency limit never blocks forever".  Lowering the limit while the
   worker being freed runs a task: it exits through the pthread_exit at the bottom of
   mps_thread_mainloop with busy_counter still counting it.  In the state reached every task has
   been executed, nothing is queued or running, busy_counter = 1, the client is inside
   cond_wait in mps_thread_pool_wait and no step other than a spurious wake-up is enabled.
   The trace witness_limit_running is replayed on the real pool by checks/C06.py. *)
Theorem C06_pool_limit_while_running_refuted :
  exists tr s, run init tr = Some s /\
    dead_state s = true /\
    (forall l s', step s l = Some s' -> is_spurious l = true) /\
    Permutation (assigned s) (executed s) /\ assigned s <> [] /\
    busy_counter s = 1%Z /\ running s = [] /\ queue s = [].
Proof. exact pool_limit_while_running_refuted. Qed.
Print Assumptions C06_pool_limit_while_running_refuted.

(* PROGRESS WITHOUT ANY DISCIPLINE.  On every trace (limit lowered or pool freed while tasks run, nested
   assign, ...) a state in which nothing but spurious wake-ups is enabled, other than the final state
   after free, is a dead state: the client is inside the cond_wait of mps_thread_pool_wait (not
   signalled) and every worker has exited or is asleep (not signalled).  The pool can be stuck ONLY
   there (and it can: C06_pool_limit_while_running_refuted). *)
Theorem C06_pool_stuck_only_in_wait : forall tr s,
  run init tr = Some s -> pc0 s <> CDone ->
  (forall l s', step s l = Some s' -> is_spurious l = true) ->
  dead_state s = true /\ exists a, pc0 s = CWaitBlocked a.
Proof. exact pool_stuck_only_in_wait. Qed.
Print Assumptions C06_pool_stuck_only_in_wait.

(* Hence mps_thread_pool_free and mps_thread_pool_set_concurrency_limit never block themselves, even on
   a busy pool: while the client is anywhere else than asleep in wait, some step other than a spurious
   wake-up is enabled (in particular every pthread_join of mps_thread_free is eventually enabled). *)
Theorem C06_pool_api_never_blocks : forall tr s,
  run init tr = Some s -> pc0 s <> CDone -> (forall a, pc0 s <> CWaitBlocked a) ->
  exists l s', is_spurious l = false /\ step s l = Some s'.
Proof. exact pool_api_never_blocks. Qed.
Print Assumptions C06_pool_api_never_blocks.

(* THE REPAIR (fixes/C06_limit_while_busy.patch, `init_r`): the repaired pool is deadlock free with NO
   precondition: in every reachable state other than the final one some step other than a spurious
   wake-up is enabled ... *)
Theorem C06_pool_repaired_no_stuck_state : forall tr s,
  run init_r tr = Some s -> pc0 s <> CDone ->
  exists l s', is_spurious l = false /\ step s l = Some s'.
Proof. exact pool_repaired_no_stuck_state. Qed.
Print Assumptions C06_pool_repaired_no_stuck_state.

(* ... and safety is unchanged: conservation, at most once, busy_counter exact, barrier, free joins all *)
Theorem C06_pool_repaired_safety : forall tr s,
  run init_r tr = Some s ->
  Permutation (assigned s) (pending s ++ queue s ++ running s ++ executed s) /\
  NoDup (pending s ++ queue s ++ running s ++ executed s) /\
  busy_counter s = Z.of_nat (nbusy s) /\
  (pc0 s = CRet EWaitRet -> Permutation (assigned s) (executed s) /\ queue s = [] /\ running s = []) /\
  (pc0 s = CDone -> Forall (fun x => w_pc x = WExited /\ w_joined x = true) (workers s) /\
                    Permutation (assigned s) (queue s ++ executed s)).
Proof. exact pool_repaired_safety. Qed.
Print Assumptions C06_pool_repaired_safety.

Theorem C06_pool_repaired_wait_barrier_spawned : forall tr s w t,
  run init_r tr = Some s -> pc0 s = CRet EWaitRet -> In (LEv w (EAssign t)) tr -> In t (executed s).
Proof. exact pool_repaired_wait_barrier_spawned. Qed.
Print Assumptions C06_pool_repaired_wait_barrier_spawned.

(* the way the solver uses it (limit lowered / pool freed on a quiescent pool only) is safe:
   no freed worker is ever counted in busy_counter *)
Theorem C06_pool_limit_when_idle_ok : forall tr s,
  run_d init tr = Some s ->
  (forall i x, nth_error (workers s) i = Some x -> w_alive x = false -> w_busy x = false) /\
  busy_counter s = Z.of_nat (length (filter (fun x => w_busy x && w_alive x) (workers s))).
Proof. exact pool_limit_when_idle_ok. Qed.
Print Assumptions C06_pool_limit_when_idle_ok.

(* no lost wake-up on queue_changed (any trace, disciplined or not): from the moment a worker has
   found the queue empty until it is inside cond_wait it owns queue_changed_mutex and the queue is
   still empty, so an assign (push + signal under that mutex) cannot fall between test and wait *)
Theorem C06_pool_no_lost_wakeup : forall tr s i x,
  run init tr = Some s -> nth_error (workers s) i = Some x ->
  (w_pc x = WIdleSignal \/ w_pc x = WIdleUnlockWC \/ w_pc x = WCondWait) ->
  qc_owner s = Some (S i) /\ queue s = [].
Proof. exact pool_no_stuck_state_partial. Qed.
Print Assumptions C06_pool_no_lost_wakeup.

(* DEADLOCK FREEDOM of the disciplined model: in every reachable state in which the API script is
   not finished some step other than a spurious wake-up is enabled ... *)
Theorem C06_pool_no_stuck_state : forall tr s,
  run_d init tr = Some s -> pc0 s <> CDone ->
  exists l s', is_spurious l = false /\ step_d s l = Some s'.
Proof. exact pool_no_stuck_state. Qed.
Print Assumptions C06_pool_no_stuck_state.

(* ... and while the client is blocked (inside cond_wait of mps_thread_pool_wait with no signal
   pending, or in pthread_join on a worker that has not exited) it is a WORKER step *)
Theorem C06_pool_no_stuck_worker : forall tr s,
  run_d init tr = Some s -> client_blocked s ->
  exists l s', is_spurious l = false /\ label_tid l <> 0%nat /\ step_d s l = Some s'.
Proof. exact pool_no_stuck_worker. Qed.
Print Assumptions C06_pool_no_stuck_worker.

(* RANKING FUNCTION: while the client is inside wait, every step other than a spurious wake-up or a nested
   assign event, by whichever thread, strictly lowers rank = 10*|queue| + sum of the workers' distances to
   their resting point (8 more per suspended caller of an inline nested assign) + the client's; a spurious
   wake-up raises it by at most spurious_cost = 16 (it only re-checks and goes back to sleep), a task body
   handing over a new task by at most spawn_cost = 32.  Holds in every state, reachable or not, repaired or not. *)
Theorem C06_pool_wait_rank_decreases : forall s l s',
  waiting (pc0 s) = true -> step s l = Some s' ->
  (is_spurious l = false -> is_spawn l = false -> (rank s' < rank s)%nat) /\
  (is_spurious l = true -> (rank s' <= rank s + spurious_cost)%nat) /\
  (is_spawn l = true -> (rank s' <= rank s + spawn_cost)%nat).
Proof. exact rank_step. Qed.
Print Assumptions C06_pool_wait_rank_decreases.

(* TERMINATION OF WAIT.  Fairness assumptions, explicit: (progress) whenever a step other than a
   spurious wake-up is enabled the system eventually takes one -- no fairness BETWEEN threads is
   needed since every such step lowers the rank or is a nested assign; (spurious) only k spurious
   wake-ups occur; (spawns) only m tasks are handed over by task bodies.  By C06_pool_no_stuck_state
   (C06_pool_repaired_no_stuck_state for the repaired pool) such a step exists until wait has returned,
   and by the bound below at most rank s + 16 k + 33 m of them can be taken while the client is still
   inside wait: wait returns. *)
Theorem C06_pool_wait_terminates : forall tr s s',
  run s tr = Some s' -> stays_waiting s tr ->
  (n_other tr <= rank s + spurious_cost * n_spurious tr + (spawn_cost + 1) * n_spawn tr)%nat.
Proof. exact pool_wait_terminates. Qed.
Print Assumptions C06_pool_wait_terminates.

(* exactly once at the level of task BODIES (for C18): along any trace the body of a task starts at
   most once, and exactly once as soon as the task counts as executed *)
Theorem C06_pool_body_at_most_once : forall tr s t,
  run init tr = Some s -> (count_occ Nat.eq_dec (starts_of tr) t <= 1)%nat.
Proof. exact pool_body_at_most_once. Qed.
Print Assumptions C06_pool_body_at_most_once.

Theorem C06_pool_body_exactly_once : forall tr s t,
  run init tr = Some s -> In t (executed s) -> count_occ Nat.eq_dec (starts_of tr) t = 1%nat.
Proof. exact pool_body_exactly_once. Qed.
Print Assumptions C06_pool_body_exactly_once.

(* mps_mpsolve_async: one pool, one task t with body [body t] (= mps_caller: solve; callback).  The
   body's events appear never or once, as one block in the body's own order; they have appeared once
   t is executed, in particular when a wait on the pool returns. *)
Theorem C06_pool_async_once : forall (A : Type) (body : task -> list A) tr s t,
  run init tr = Some s -> assigned s = [t] ->
  (interp body tr = [] \/ interp body tr = body t) /\
  (In t (executed s) -> interp body tr = body t) /\
  (pc0 s = CRet EWaitRet -> interp body tr = body t).
Proof. exact @pool_async_once. Qed.
Print Assumptions C06_pool_async_once.

(* the executable invariants the trace validator evaluates in every state of every explored run (bin/pool:
   chk_all = conservation, busy_counter, barrier, final state) are consequences of the theorems above: on a
   trace the model accepts they cannot fail; in the check they cross-check extraction and driver *)
Theorem C06_pool_chk_all_sound : forall tr s,
  (run init tr = Some s \/ run init_r tr = Some s) -> chk_all s = true.
Proof. exact pool_chk_all_sound. Qed.
Print Assumptions C06_pool_chk_all_sound.

(* ---- non-vacuity: the hypotheses are met by concrete, non-trivial traces ---- *)
(* a full round (new 2; two tasks; wait; free) is a trace of the model, also of the disciplined one,
   ends in CDone with two executed tasks and two exited workers *)
Example C06_ex_round_runs :
  match run init example_round with
  | Some s => pc0 s = CDone /\ length (executed s) = 2%nat /\ length (workers s) = 2%nat
  | None => False end.
Proof. vm_compute. repeat split. Qed.
Example C06_ex_round_disciplined : is_some (run_d init example_round) = true.
Proof. vm_compute. reflexivity. Qed.
(* the barrier hypothesis pc0 = CRet EWaitRet occurs with tasks handed over (prefix of the round) *)
Example C06_ex_barrier_reached :
  match run init (firstn 73 example_round) with
  | Some s => pc0 s = CRet EWaitRet /\ length (assigned s) = 2%nat
  | None => False end.
Proof. vm_compute. repeat split. Qed.
(* a worker about to sleep (hypothesis of C06_pool_no_lost_wakeup) occurs *)
Example C06_ex_condwait_reached :
  match run init (firstn 14 example_round) with
  | Some s => exists x, nth_error (workers s) 0 = Some x /\ w_pc x = WCondWait
  | None => False end.
Proof. vm_compute. eexists; split; reflexivity. Qed.
(* the refutation witness is NOT a trace of the disciplined model *)
Example C06_ex_witness_not_disciplined : run_d init witness_limit_running = None.
Proof. vm_compute. reflexivity. Qed.

(* the client blocked in wait is reachable in the disciplined model (hypothesis of no_stuck_worker) *)
Example C06_ex_client_blocked :
  match run_d init (firstn 30 example_round) with
  | Some s => cont0 s = false /\ pc0 s = CWaitBlocked AWait /\ mem 0%nat (wc_wait s) = true
  | None => False end.
Proof. vm_compute. repeat split. Qed.
(* an execution that stays inside wait (hypothesis of wait_terminates): 42 steps of the round, rank 52 at its start *)
Example C06_ex_stays_waiting :
  match run_d init (firstn 29 example_round) with
  | Some s => stays_waiting s (firstn 42 (skipn 29 example_round)) /\ rank s = 52%nat
  | None => False end.
Proof. vm_compute. repeat split. Qed.
(* mps_mpsolve_async's use of the pool: one worker, strict_async, task 7 run by the worker, wait returns *)
Example C06_ex_async :
  match run init example_async with
  | Some s => pc0 s = CRet EWaitRet /\ assigned s = [7%nat] /\ strict s = true /\ length (workers s) = 1%nat
  | None => False end /\ interp (fun t => [t; t]) example_async = [7%nat; 7%nat].
Proof. vm_compute. repeat split. Qed.

(* ---- nested assign: non-vacuity on traces recorded from the REAL pool (Conc/PoolWitness.v) ---- *)
(* a task body on a worker hands a task over through the queue; the barrier hypothesis is reached with the
   spawned task handed over by worker 1 or 2 (not the client) and executed *)
Example C06_ex_nested_barrier :
  match run init (firstn 61 example_nested) with
  | Some s => pc0 s = CRet EWaitRet /\ length (assigned s) = 2%nat /\
              (exists w, In (LEv (S w) (EAssign 0%nat)) (firstn 61 example_nested)) /\ In 0%nat (executed s)
  | None => False end.
Proof.
  vm_compute. split; [reflexivity|]. split; [reflexivity|]. split; [| tauto].
  exists 0%nat. repeat (first [left; reflexivity | right]).
Qed.
Example C06_ex_nested_runs : is_some (run_d init example_nested) = true.
Proof. vm_compute. reflexivity. Qed.
(* inline nesting on the client's stack, depth 3: task 2 begins while 1 and 0 are suspended *)
Example C06_ex_inline_depth3 :
  match run init (firstn 13 example_inline) with
  | Some s => pc0 s = CInlStart 2%nat [1%nat; 0%nat] /\ pending s = [2; 1; 0]%nat
  | None => False end.
Proof. vm_compute. repeat split. Qed.
(* inline nesting ON A WORKER (strict_async cleared while the task was queued) *)
Example C06_ex_worker_inline :
  match run init (firstn 28 example_worker_inline) with
  | Some s => exists x, nth_error (workers s) 0 = Some x /\ w_pc x = WRunStart 1%nat [0%nat] /\ w_busy x = true
  | None => False end.
Proof. vm_compute. eexists; repeat split. Qed.
(* waitdone (hypothesis of C06_pool_no_late_spawn) occurs after a nested round *)
Example C06_ex_waitdone :
  match run init (firstn 59 example_nested) with Some s => waitdone (pc0 s) = true | None => False end.
Proof. vm_compute. reflexivity. Qed.
(* the repaired pool: limit lowered while worker 2 holds a task; it gives its slot back (busy_counter 1 -> 0
   at the bottom exit), the next wait returns and the round completes; the same events are NOT a trace of
   the unrepaired model, and the refutation witness is not a trace of the repaired one *)
Example C06_ex_repaired_round :
  match run init_r example_repaired with
  | Some s => pc0 s = CDone /\ executed s = [0%nat] /\ busy_counter s = 0%Z | None => False end /\
  match run init_r (firstn 30 example_repaired) with
  | Some s => busy_counter s = 1%Z /\ exists x, nth_error (workers s) 1 = Some x /\ w_pc x = WExitLockWC /\ w_alive x = false
  | None => False end /\
  run init example_repaired = None /\ run init_r witness_limit_running = None.
Proof. vm_compute. repeat split. eexists; repeat split. Qed.
(* the hypothesis of C06_pool_stuck_only_in_wait is met by the refutation witness (a stuck state exists, inside wait) *)
Example C06_ex_stuck_state :
  match run init witness_limit_running with
  | Some s => pc0 s = CWaitBlocked AWait /\ dead_state s = true | None => False end.
Proof. vm_compute. repeat split. Qed.
(* a state in which the client is inside mps_thread_free on a busy pool (hypothesis of api_never_blocks) *)
Example C06_ex_kill_while_busy :
  match run init (firstn 27 witness_limit_running) with
  | Some s => pc0 s = CKillJoin [2%nat] ASetLimit /\ busy_counter s = 1%Z | None => False end.
Proof. vm_compute. repeat split. Qed.
