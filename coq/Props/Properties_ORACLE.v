(* Statements of the certified root oracle (bin/cert, "mpscert").
   Only statements: each theorem is closed by `exact <lemma>`, followed by
   Print Assumptions.  C ranges over every numClosedFieldType (e.g. algC).

   Reading guide.  For a list P of Gaussian-rational coefficients (low degree first)
   R2C P : {poly C} is the polynomial it denotes; disc2C t = (centre, radius) of a tiny
   disc of the certificate, rdisc2C q the same for a query disc given by rationals;
   in_disc (c, r) z := `|c - z| <= r  (closed disc).
   "P = a *: \prod_(z <- rs) ('X - z%:P)" says that rs lists the roots of P with
   multiplicity, so `count (in_disc D) rs` is the number of roots in D counted with
   multiplicity (it does not depend on the choice of rs: Isolate.roots_perm). *)
From Coq Require Import ZArith List.
From mathcomp Require Import all_ssreflect all_algebra.
From mathcomp Require Import polyorder.
From MPSV Require Import Roots.GaussZ Roots.PolyZ Roots.Cert Roots.Transform Roots.TransformSound.
From MPSV Require Import Roots.NewtonDisc Roots.Isolate Roots.Bridge Roots.CertSound Roots.QuerySound.
Import GRing.Theory Num.Theory.
Local Open Scope ring_scope.

(* ---- mathematical layer ---- *)

Theorem ORACLE_newton_disc (C : numClosedFieldType) (p : {poly C}) (x : C) :
  p != 0 -> p^`().[x] != 0 ->
  exists2 z, root p z & `|x - z| <= (size p).-1%:R * `|p.[x] / p^`().[x]|.
Proof. exact: newton_disc. Qed.
Print Assumptions ORACLE_newton_disc.

Theorem ORACLE_isolate_by_count (C : numClosedFieldType) (p : {poly C}) (ds : seq (C * C)) :
  p != 0 -> size ds = (size p).-1 -> pairwise (@disjoint C) ds ->
  (forall d, d \in ds -> exists2 z, root p z & in_disc d z) ->
  [/\ forall d, d \in ds -> exists z, [/\ root p z, in_disc d z, \mu_z p = 1%N
          & forall w, root p w -> in_disc d w -> w = z]
    & forall w, root p w -> exists2 d, d \in ds & in_disc d w].
Proof. exact: isolate_by_count. Qed.
Print Assumptions ORACLE_isolate_by_count.

(* ---- the extracted checker ---- *)

(* cert_located P ct zs (record in CertSound.v):  R2C P != 0; zs has one point in each tiny
   disc (all2 in_tdisc (tiny2C ct) zs); uniq zs; the tiny discs are pairwise disjoint;
   all multiplicities are positive;  R2C P = lead_coef (R2C P) *: mprod (tiny2C ct) zs,
   i.e. P = lc * prod_i (X - zs_i)^(m_i). *)
Theorem ORACLE_cert_sound (C : numClosedFieldType) (P : list rcoef) (ct : cert) :
  cert_check P ct = true -> exists zs : seq C, cert_located P ct zs.
Proof. exact: cert_sound. Qed.
Print Assumptions ORACLE_cert_sound.

(* every tiny disc contains exactly one root of P; its multiplicity is the announced one *)
Theorem ORACLE_tiny_exact (C : numClosedFieldType) (P : list rcoef) (ct : cert) m t :
  cert_check P ct = true -> List.In (m, t) (tiny_list ct) ->
  exists z : C, [/\ root (R2C C P) z, in_disc (disc2C C t) z, \mu_z (R2C C P) = m
     & forall w, root (R2C C P) w -> in_disc (disc2C C t) w -> w = z].
Proof. exact: tiny_exact. Qed.
Print Assumptions ORACLE_tiny_exact.

(* ---- queries ---- *)

Theorem ORACLE_count_bounds_sound (C : numClosedFieldType) (P : list rcoef) (ct : cert)
    (q : rdisc) lo hi (a : C) (rs : seq C) :
  cert_check P ct = true -> count_bounds ct q = (lo, hi) ->
  R2C C P = a *: \prod_(z <- rs) ('X - z%:P) ->
  (lo <= count (in_disc (rdisc2C C q)) rs <= hi)%N.
Proof. exact: count_bounds_sound. Qed.
Print Assumptions ORACLE_count_bounds_sound.

Theorem ORACLE_contains_at_least_sound (C : numClosedFieldType) (P : list rcoef) (ct : cert)
    (q : rdisc) lo hi m (a : C) (rs : seq C) :
  cert_check P ct = true -> count_bounds ct q = (lo, hi) -> (m <= lo)%N ->
  R2C C P = a *: \prod_(z <- rs) ('X - z%:P) ->
  (m <= count (in_disc (rdisc2C C q)) rs)%N.
Proof. exact: contains_at_least_sound. Qed.
Print Assumptions ORACLE_contains_at_least_sound.

Theorem ORACLE_contains_exactly_sound (C : numClosedFieldType) (P : list rcoef) (ct : cert)
    (q : rdisc) m (a : C) (rs : seq C) :
  cert_check P ct = true -> count_bounds ct q = (m, m) ->
  R2C C P = a *: \prod_(z <- rs) ('X - z%:P) ->
  count (in_disc (rdisc2C C q)) rs = m.
Proof. exact: contains_exactly_sound. Qed.
Print Assumptions ORACLE_contains_exactly_sound.

Theorem ORACLE_no_root_sound (C : numClosedFieldType) (P : list rcoef) (ct : cert)
    (q : rdisc) lo (w : C) :
  cert_check P ct = true -> count_bounds ct q = (lo, 0%N) ->
  root (R2C C P) w -> ~~ in_disc (rdisc2C C q) w.
Proof. exact: no_root_sound. Qed.
Print Assumptions ORACLE_no_root_sound.

Theorem ORACLE_cover_sound (C : numClosedFieldType) (P : list rcoef) (ct : cert)
    (qs : list rdisc) i j m t :
  cert_check P ct = true ->
  nth_error (tiny_list ct) i = Some (m, t) ->
  List.In j (List.nth i (cover ct qs) nil) ->
  exists q, nth_error qs j = Some q /\
    forall w : C, in_disc (disc2C C t) w -> in_disc (rdisc2C C q) w.
Proof. exact: cover_sound. Qed.
Print Assumptions ORACLE_cover_sound.

Theorem ORACLE_uncovered_sound (C : numClosedFieldType) (P : list rcoef) (ct : cert)
    (qs : list rdisc) i m t q (w : C) :
  cert_check P ct = true ->
  nth_error (tiny_list ct) i = Some (m, t) ->
  List.nth i (uncovered ct qs) false = true -> List.In q qs ->
  in_disc (disc2C C t) w -> ~~ in_disc (rdisc2C C q) w.
Proof. exact: uncovered_sound. Qed.
Print Assumptions ORACLE_uncovered_sound.

Theorem ORACLE_all_roots_covered_sound (C : numClosedFieldType) (P : list rcoef) (ct : cert)
    (qs : list rdisc) (w : C) :
  cert_check P ct = true -> all_covered ct qs = true ->
  root (R2C C P) w -> exists2 q, List.In q qs & in_disc (rdisc2C C q) w.
Proof. exact: all_roots_covered_sound. Qed.
Print Assumptions ORACLE_all_roots_covered_sound.

Theorem ORACLE_side_re_sound (C : numClosedFieldType) (t : disc) (w : C) :
  disc_wf t -> in_disc (disc2C C t) w ->
  (side_re t = Gt -> 0 < 'Re w) /\ (side_re t = Lt -> 'Re w < 0).
Proof. exact: side_re_sound. Qed.
Print Assumptions ORACLE_side_re_sound.

Theorem ORACLE_side_im_sound (C : numClosedFieldType) (t : disc) (w : C) :
  disc_wf t -> in_disc (disc2C C t) w ->
  (side_im t = Gt -> 0 < 'Im w) /\ (side_im t = Lt -> 'Im w < 0).
Proof. exact: side_im_sound. Qed.
Print Assumptions ORACLE_side_im_sound.

Theorem ORACLE_side_unit_sound (C : numClosedFieldType) (t : disc) (w : C) :
  disc_wf t -> in_disc (disc2C C t) w ->
  (side_unit t = Gt -> 1 < `|w|) /\ (side_unit t = Lt -> `|w| < 1).
Proof. exact: side_unit_sound. Qed.
Print Assumptions ORACLE_side_unit_sound.

Theorem ORACLE_real_root_sound (C : numClosedFieldType) (P : list rcoef) (ct : cert) m t (w : C) :
  cert_check P ct = true -> List.In (m, t) (tiny_list ct) ->
  forallb rcoef_real P = true -> centre_real t = true ->
  root (R2C C P) w -> in_disc (disc2C C t) w -> w \is Num.real.
Proof. exact: real_root_sound. Qed.
Print Assumptions ORACLE_real_root_sound.

(* ---- exact input conversions (extracted: `secular`, `cheb` commands of bin/cert) ---- *)

(* secular equation  sum_i a_i / (x - b_i) = 1  with pairwise distinct b_i and non-zero a_i:
   the extracted monomial polynomial has exactly its solutions as roots *)
Theorem ORACLE_secular_to_monomial_roots (C : numClosedFieldType) (ab : list (rcoef * rcoef)) (x : C) :
  all (fun x => rcoef_wf x.1 && rcoef_wf x.2) ab ->
  uniq (map snd (secular_data C ab)) -> all (fun p => p.1 != 0) (secular_data C ab) ->
  root (R2C C (secular_to_monomial ab)) x <->
  (x \notin map snd (secular_data C ab)
   /\ \sum_(p <- secular_data C ab) p.1 / (x - p.2) = 1).
Proof. exact: secular_to_monomial_roots. Qed.
Print Assumptions ORACLE_secular_to_monomial_roots.

(* chebT k: T_0 = 1, T_1 = X, T_(k+2) = 2 X T_(k+1) - T_k  (lemmas chebT0, chebT1, chebTSS) *)
Theorem ORACLE_chebyshev_to_monomial_sound (C : numClosedFieldType) (cs : list rcoef) :
  all rcoef_wf cs ->
  R2C C (chebyshev_to_monomial cs)
  = \sum_(k < size cs) rc2C C (nth (RCoef 0 1 0 1) cs k) *: chebT C k.
Proof. exact: chebyshev_to_monomial_sound. Qed.
Print Assumptions ORACLE_chebyshev_to_monomial_sound.

Theorem ORACLE_chebT_recurrence (F : fieldType) (n : nat) :
  [/\ chebT F 0 = 1, chebT F 1 = 'X & chebT F n.+2 = 2%:R *: ('X * chebT F n.+1) - chebT F n].
Proof. by split; [exact: chebT0 | exact: chebT1 | exact: chebTSS]. Qed.
Print Assumptions ORACLE_chebT_recurrence.

(* ---- non-vacuity: concrete certificates accepted / rejected by the extracted checker ---- *)
Import ListNotations.
Open Scope Z_scope.

(* (x - 1)^2 (x + 2) = x^3 - 3x + 2 with rational input 2/1, -6/2, 0, 1 : factors (x+2)^1, (x-1)^2 *)
Definition ex_P : list rcoef :=
  [RCoef 2 1 0 1; RCoef (-6) 2 0 1; RCoef 0 1 0 1; RCoef 1 1 0 3].
Definition ex_cert : cert :=
  Cert 1 [(2,0); (-3,0); (0,0); (1,0)] (1,0) (1,0)
    [Factor 1 0 [(2,0); (1,0)] [Disc (-2049, 0) 2 1024];
     Factor 2 20 [(-1,0); (1,0)] [Disc (1023, 1) 3 1024]].

Example ex_cert_ok : cert_check ex_P ex_cert = true.
Proof. by vm_compute. Qed.
Example ex_count : count_bounds ex_cert (RDisc (RCoef 1 1 0 1) 1 2) = (2%nat, 2%nat)
                /\ count_bounds ex_cert (RDisc (RCoef 0 1 0 1) 1 1) = (0%nat, 2%nat)
                /\ count_bounds ex_cert (RDisc (RCoef 0 1 5 1) 1 1) = (0%nat, 0%nat).
Proof. by vm_compute. Qed.
Example ex_cover : all_covered ex_cert [RDisc (RCoef 0 1 0 1) 5 2] = true.
Proof. by vm_compute. Qed.
Example ex_uncovered : uncovered ex_cert [RDisc (RCoef 1 1 0 1) 1 2; RDisc (RCoef 7 1 0 1) 1 1] = [true; false].
Proof. by vm_compute. Qed.
Example ex_sides : sides 0 ex_cert = [Lt; Gt] /\ sides 2 ex_cert = [Gt; Eq].
Proof. by vm_compute. Qed.
(* a double root presented as two simple roots is rejected *)
Example ex_bad_rejected :
  cert_check [RCoef 1 1 0 1; RCoef (-2) 1 0 1; RCoef 1 1 0 1]
    (Cert 1 [(1,0); (-2,0); (1,0)] (1,0) (1,0)
       [Factor 1 0 [(1,0); (-2,0); (1,0)] [Disc (1025,0) 1 1024; Disc (1023,0) 1 1024]]) = false.
Proof. by vm_compute. Qed.
(* 1/x + 2/(x-1) + (1/2)/(x+1) = 1   <->   x^3 - (7/2) x^2 - (5/2) x + 1 = 0 *)
Example ex_secular :
  secular_to_monomial [(RCoef 1 1 0 1, RCoef 0 1 0 1); (RCoef 2 1 0 1, RCoef 1 1 0 1);
                       (RCoef 1 2 0 1, RCoef (-1) 1 0 1)]
  = [RCoef 2 2 0 2; RCoef (-10) 4 0 4; RCoef (-7) 2 0 2; RCoef 1 1 0 1].
Proof. by vm_compute. Qed.
(* T_3 = 4 x^3 - 3 x *)
Example ex_cheb :
  chebyshev_to_monomial [RCoef 0 1 0 1; RCoef 0 1 0 1; RCoef 0 1 0 1; RCoef 1 1 0 1]
  = [RCoef 0 1 0 1; RCoef (-3) 1 0 1; RCoef 0 1 0 1; RCoef 4 1 0 1].
Proof. by vm_compute. Qed.
