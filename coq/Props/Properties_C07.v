(* C07 -- cluster analysis yields the overlap-connected partition.  Statements only.
   Model: MPSV.Cluster.ClusterModel (cluster_seq = mps_fcluster / mps_dcluster traversal,
   cluster_par = mps_mcluster at block-merge granularity, any splice order [pick]).
   [conn T S i j] : i and j are linked by a chain of T-overlaps all of whose members are in S.
   The touch predicate T is the implementation's own (exported as a matrix by the harness); its
   relation to the exact predicate nf(r+r') >= |z-z'| is C07_touch_* below. *)
From Coq Require Import List Arith Bool Permutation ZArith Reals Lia Lra.
From Flocq Require Import Core BinarySingleNaN.
From MPSV Require Import Cluster.ClusterModel Cluster.ClusterProps Cluster.ClusterSpec Cluster.ClusterOverride Cluster.Touch Cluster.TouchFlocq.
From MPSV Require Import Cluster.ClusterOps Cluster.ClusterOpsProps.
From MPSV Require Import Cluster.FtouchModel Cluster.FtouchSpec Cluster.FtouchReal Cluster.FtouchLink.
Import ListNotations.
Local Open Scope nat_scope.

(* the fuel used by the model is always enough: the out-of-fuel value None never occurs, so the
   theorems below (all of the form "... = Some new -> ...") are never vacuous *)
Theorem C07_fuel_enough : forall T iso old, cluster_seq T iso old <> None.
Proof. exact cluster_seq_fuel_enough. Qed.
Print Assumptions C07_fuel_enough.

(* nothing lost, nothing duplicated, no empty cluster; old must be a clusterization of 0..n-1
   (what the C code needs as well: the override rebuilds [0],...,[n-1] from s->n) *)
Theorem C07_partition : forall T iso old new,
  Permutation (concat old) (seq 0 (length (concat old))) ->
  cluster_seq T iso old = Some new ->
  Permutation (concat new) (concat old) /\ NoDup (concat new) /\ (forall c, In c new -> c <> []).
Proof. exact cluster_partition. Qed.
Print Assumptions C07_partition.

Theorem C07_refines : forall T iso old new,
  Permutation (concat old) (seq 0 (length (concat old))) ->
  cluster_seq T iso old = Some new ->
  forall c, In c new -> exists cl, In cl old /\ incl c cl.
Proof. exact cluster_refines. Qed.
Print Assumptions C07_refines.

(* symmetric touch, no override: two members of one old cluster end in the same new cluster
   exactly when a chain of overlaps inside that old cluster links them *)
Theorem C07_components : forall T old new,
  (forall a b, T a b = T b a) ->
  NoDup (concat old) ->
  cluster_seq T false old = Some new ->
  forall cl i j, In cl old -> In i cl -> In j cl ->
    ((exists c, In c new /\ In i c /\ In j c) <-> conn T cl i j).
Proof. exact cluster_components. Qed.
Print Assumptions C07_components.

(* the override: every cluster is a singleton ... *)
Theorem C07_newton_iso_singletons : forall T old new,
  cluster_seq T true old = Some new ->
  forall c, In c new -> exists i, c = [i] /\ i < length (concat old).
Proof. exact cluster_iso_singletons. Qed.
Print Assumptions C07_newton_iso_singletons.

(* ... and it is taken exactly when no two distinct roots touch w.r.t. the radii stored in the
   roots (root[i]->frad / drad), scaled by the same factor nf *)
Theorem C07_newton_iso_test : forall touchN n,
  newton_isolated touchN n = true <->
  (forall i j, i < n -> j < n -> i <> j -> touchN i j = false).
Proof. exact newton_isolated_spec. Qed.
Print Assumptions C07_newton_iso_test.

(* the test AS CODED: two nested loops over ALL pairs of roots on the radii stored in the roots, `break` out of the inner
   loop at the first touching pair (mps_fcluster / mps_dcluster: the outer loop goes on; mps_mcluster: a second `break`
   leaves the outer loop) -- equal to the plain test above *)
Theorem C07_newton_iso_fd_as_coded : forall touchN n, newton_iso_fd touchN n = newton_isolated touchN n.
Proof. exact newton_iso_fd_eq. Qed.
Print Assumptions C07_newton_iso_fd_as_coded.

Theorem C07_newton_iso_m_as_coded : forall touchN n, newton_iso_m touchN n = newton_isolated touchN n.
Proof. exact newton_iso_m_eq. Qed.
Print Assumptions C07_newton_iso_m_as_coded.

(* THE WHOLE PROPERTY FOR ONE CALL of mps_fcluster / mps_dcluster (override test as coded on the stored radii [touchN], then
   the traversal on the radii passed as argument [touch]): the call never runs out of fuel, the result is a partition of the
   same roots without empty cluster, refines the previous partition; if every pair is separated w.r.t. the stored radii all
   clusters are singletons; otherwise two members of a previous cluster stay together iff a chain of overlaps inside that
   cluster links them. *)
Theorem C07_step_fd_full : forall touchN touch old,
  (forall a b, touch a b = touch b a) ->
  Permutation (concat old) (seq 0 (length (concat old))) ->
  exists new, cluster_step_fd touchN touch old = Some new /\
    Permutation (concat new) (concat old) /\ NoDup (concat new) /\ (forall c, In c new -> c <> []) /\
    (forall c, In c new -> exists cl, In cl old /\ incl c cl) /\
    (all_separated touchN (length (concat old)) -> forall c, In c new -> exists i, c = [i]) /\
    (~ all_separated touchN (length (concat old)) ->
       forall cl i j, In cl old -> In i cl -> In j cl ->
         ((exists c, In c new /\ In i c /\ In j c) <-> conn touch cl i j)).
Proof. exact step_fd_full. Qed.
Print Assumptions C07_step_fd_full.

(* the same for one call of mps_mcluster, for EVERY order [pick] in which the block workers' hits are met *)
Theorem C07_step_m_full : forall pick touchN touch old,
  (forall a b, touch a b = touch b a) ->
  Permutation (concat old) (seq 0 (length (concat old))) ->
  exists new, cluster_step_m pick touchN touch old = Some new /\
    Permutation (concat new) (concat old) /\ NoDup (concat new) /\ (forall c, In c new -> c <> []) /\
    (forall c, In c new -> exists cl, In cl old /\ incl c cl) /\
    (all_separated touchN (length (concat old)) -> forall c, In c new -> exists i, c = [i]) /\
    (~ all_separated touchN (length (concat old)) ->
       forall cl i j, In cl old -> In i cl -> In j cl ->
         ((exists c, In c new /\ In i c /\ In j c) <-> conn touch cl i j)).
Proof. exact step_m_full. Qed.
Print Assumptions C07_step_m_full.

(* parallel variant, for EVERY choice function [pick] (order in which block results are met) *)
Theorem C07_par_fuel_enough : forall T old pick iso, cluster_par pick T iso old <> None.
Proof. exact cluster_par_fuel_enough. Qed.
Print Assumptions C07_par_fuel_enough.

Theorem C07_par_partition : forall T old,
  Permutation (concat old) (seq 0 (length (concat old))) ->
  forall pick iso new,
  cluster_par pick T iso old = Some new ->
  Permutation (concat new) (concat old) /\ NoDup (concat new) /\ (forall c, In c new -> c <> []).
Proof. exact cluster_par_partition. Qed.
Print Assumptions C07_par_partition.

Theorem C07_par_components : forall T old,
  (forall a b, T a b = T b a) ->
  Permutation (concat old) (seq 0 (length (concat old))) ->
  forall pick new,
  cluster_par pick T false old = Some new ->
  forall cl i j, In cl old -> In i cl -> In j cl ->
    ((exists c, In c new /\ In i c /\ In j c) <-> conn T cl i j).
Proof. exact cluster_par_components. Qed.
Print Assumptions C07_par_components.

Theorem C07_par_eq_seq : forall T old,
  (forall a b, T a b = T b a) ->
  Permutation (concat old) (seq 0 (length (concat old))) ->
  forall pick iso news newp,
  cluster_seq T iso old = Some news ->
  cluster_par pick T iso old = Some newp ->
  forall i j, (exists c, In c news /\ In i c /\ In j c) <-> (exists c, In c newp /\ In i c /\ In j c).
Proof. exact cluster_par_eq_seq. Qed.
Print Assumptions C07_par_eq_seq.

(* the executable specification [components] (saturation of the symmetrised touch relation inside
   each old cluster -- the second opinion printed by the driver and compared by the check) is
   itself correct: its classes are the chain-connected components *)
Theorem C07_components_spec : forall T,
  (forall a b, T a b = T b a) ->
  forall old cl i j,
  NoDup (concat old) -> In cl old -> In i cl -> In j cl ->
  ((exists c, In c (components T old) /\ In i c /\ In j c) <-> conn T cl i j).
Proof. exact components_spec. Qed.
Print Assumptions C07_components_spec.

(* corollary: traversal model = specification as sets of sets (same classes; both are partitions
   of the same index set by C07_partition / the refinement lemmas) *)
Theorem C07_model_eq_spec : forall T,
  (forall a b, T a b = T b a) ->
  forall old new,
  Permutation (concat old) (seq 0 (length (concat old))) ->
  cluster_seq T false old = Some new ->
  forall i j, (exists c, In c new /\ In i c /\ In j c) <->
              (exists c, In c (components T old) /\ In i c /\ In j c).
Proof. exact model_eq_spec. Qed.
Print Assumptions C07_model_eq_spec.

(* ---------------------------------------------------------------- touch predicate *)
Theorem C07_touch_exact_spec : forall nf z r z' r',
  (0 <= nf)%Z -> dnonneg r -> dnonneg r' ->
  touch_exact nf (z, r) (z', r') = true <->
  (sqrt (dist2R z z') <= IZR nf * (d2R r + d2R r'))%R.
Proof. exact touch_exact_spec. Qed.
Print Assumptions C07_touch_exact_spec.

Theorem C07_touch_exact_sym : forall nf a b, touch_exact nf a b = touch_exact nf b a.
Proof. exact touch_exact_sym. Qed.
Print Assumptions C07_touch_exact_sym.

(* PARTIAL: the coded double predicate  n*(ri+rj) >= cabs(zi-zj)  under the standard model of
   rounding (each of the four roundings and cabs has relative error at most u, 0 <= u <= 1/16;
   no overflow, no underflow: NOT derived from a bit-level model of binary64, the guard
   frad >= DBL_MAX/(2n) => true and the DPE/MP variants are covered by the correspondence check
   only).  Outside the relative margin 8u the coded predicate agrees with the exact one. *)
Theorem C07_touch_float_sound_partial : forall u nf ri rj d e1 e2 e3 e4 : R,
  (0 <= u <= 1/16)%R -> (0 <= nf)%R -> (0 <= ri)%R -> (0 <= rj)%R -> (0 <= d)%R ->
  (Rabs e1 <= u)%R -> (Rabs e2 <= u)%R -> (Rabs e3 <= u)%R -> (Rabs e4 <= u)%R ->
  let lhs := (nf * ((ri + rj) * (1 + e1)) * (1 + e2))%R in      (* fl(n * fl(ri + rj)) *)
  let rhs := (d * (1 + e3) * (1 + e4))%R in                     (* cabs(fl(zi - zj)) *)
  ((d * (1 + 8 * u) <= nf * (ri + rj))%R -> (rhs <= lhs)%R) /\
  ((nf * (ri + rj) * (1 + 8 * u) < d)%R -> (lhs < rhs)%R).
Proof. exact touch_float_sound. Qed.
Print Assumptions C07_touch_float_sound_partial.

(* PARTIAL, sharper: mps_ftouchnwt with the three arithmetic roundings (the two component
   subtractions, the sum of the radii, the product by n) taken from Flocq's binary64 format
   (round to nearest even); still assumed: intermediate results normal or zero, cabs within one unit
   roundoff of the modulus of the rounded difference, no overflow (the DBL_MAX/(2n) guard is only
   covered by the correspondence check). *)
Theorem C07_ftouch_flocq_partial : forall nf ri rj xi yi xj yj m : R,
  (0 <= nf)%R -> (0 <= ri)%R -> (0 <= rj)%R ->
  normal_or_zero (xi - xj) -> normal_or_zero (yi - yj) ->
  normal_or_zero (ri + rj) -> normal_or_zero (nf * rnd64 (ri + rj)) ->
  let dx' := rnd64 (xi - xj) in
  let dy' := rnd64 (yi - yj) in
  (exists e4, (Rabs e4 <= u64)%R /\ m = (sqrt (dx' * dx' + dy' * dy') * (1 + e4))%R) ->
  let D := sqrt ((xi - xj) * (xi - xj) + (yi - yj) * (yi - yj)) in
  let L := (nf * (ri + rj))%R in
  let coded := rnd64 (nf * rnd64 (ri + rj)) in
  ((D * (1 + 8 * u64) <= L)%R -> (m <= coded)%R) /\ ((L * (1 + 8 * u64) < D)%R -> (coded < m)%R).
Proof. exact ftouch_flocq. Qed.
Print Assumptions C07_ftouch_flocq_partial.

(* PARTIAL: DPE / MP variants under a rounding model of the rdpe operations (relative error u for
   add, mul_eq_d and the component subtractions, 3u for cdpe_mod; exact rdpe_ge on non-negative
   operands): same 8u margin.  The rdpe operations themselves are C12's subject. *)
Theorem C07_dtouch_sound_partial : forall u nf ri rj dx dy a b e1 e2 e4 m : R,
  (0 <= u <= 1 / 16)%R -> (0 <= nf)%R -> (0 <= ri)%R -> (0 <= rj)%R ->
  (Rabs a <= u)%R -> (Rabs b <= u)%R -> (Rabs e1 <= u)%R -> (Rabs e2 <= u)%R -> (Rabs e4 <= 3 * u)%R ->
  m = (sqrt ((dx * (1 + a)) * (dx * (1 + a)) + (dy * (1 + b)) * (dy * (1 + b))) * (1 + e4))%R ->
  let D := sqrt (dx * dx + dy * dy) in
  let L := (nf * (ri + rj))%R in
  let coded := (nf * ((ri + rj) * (1 + e1)) * (1 + e2))%R in
  ((D * (1 + 8 * u) <= L)%R -> (m <= coded)%R) /\ ((L * (1 + 8 * u) < D)%R -> (coded < m)%R).
Proof. exact dtouch_sound. Qed.
Print Assumptions C07_dtouch_sound_partial.

(* ---------------------------------------------------------------- mps_ftouchnwt end to end on binary64
   FtouchModel.ftouch_b64 follows touch.c / mt.c operation by operation on Flocq's binary64 (guard DBL_MAX/(2n), cplx_sub,
   cplx_mod of the builtin-complex configuration, product by n, comparison); it is compared bit for bit with the real
   functions on every run (bin/ftouch).  exactL = n (ri + rj), exactD = |zi - zj| on the real values of the inputs. *)

(* a radius at or above t = DBL_MAX / (2 n) is treated as infinite: true whatever the centres are (safe side) *)
Theorem C07_ftouch_b64_guard : forall n ri rj xi yi xj yj,
  fge ri (ftouch_guard n) = true \/ fge rj (ftouch_guard n) = true ->
  ftouch_b64 n ri rj xi yi xj yj = true.
Proof. exact ftouch_b64_guard. Qed.
Print Assumptions C07_ftouch_b64_guard.

Example C07_ex_guard :
  to_bits (ftouch_guard 3) = 9206858838221083989%Z (* 0x7fc5555555555555 = DBL_MAX / 6 *) /\
  ftouch_b64 3 (ftouch_guard 3) fzero fzero fzero DBL_MAX DBL_MAX = true /\
  ftouch_b64 3 (Bpred (ftouch_guard 3)) fzero fzero fzero DBL_MAX DBL_MAX = false.
Proof. split; [|split]; vm_compute; reflexivity. Qed.

(* exact overlap by more than the relative margin 8u => true, for ALL finite inputs (any scale, subnormal or huge
   distances, radii up to DBL_MAX): nothing is assumed about ranges, accuracy of cplx_mod or overflow.  n_ok: 1 <= n < 2^30
   (the int `2 * n` does not overflow).  Proof: FtouchReal.v (error analysis of the seven roundings incl. underflow of the
   quotient d and of d*d in cplx_mod) + FtouchLink.v (IEEE operations of Flocq; below the guard nothing overflows on this side) *)
Theorem C07_ftouch_b64_overlap : forall n ri rj xi yi xj yj,
  n_ok n -> finite6 ri rj xi yi xj yj -> (0 <= B2R ri)%R -> (0 <= B2R rj)%R ->
  (exactD xi yi xj yj * (1 + 8 * u64) <= exactL n ri rj)%R ->
  ftouch_b64 n ri rj xi yi xj yj = true.
Proof. exact ftouch_b64_overlap. Qed.
Print Assumptions C07_ftouch_b64_overlap.

(* exact separation by more than 8u, both radii below the guard, one component of zi - zj not subnormal => false.
   Covers overflow: a difference that overflows gives +inf (or NaN when both do), the last product of cplx_mod may
   overflow to +inf; the comparison is then false, which is the exact answer. *)
Theorem C07_ftouch_b64_separated : forall n ri rj xi yi xj yj,
  n_ok n -> finite6 ri rj xi yi xj yj -> (0 <= B2R ri)%R -> (0 <= B2R rj)%R ->
  below_guard n ri rj -> normal_distance xi yi xj yj ->
  (exactL n ri rj * (1 + 8 * u64) < exactD xi yi xj yj)%R ->
  ftouch_b64 n ri rj xi yi xj yj = false.
Proof. exact ftouch_b64_separated. Qed.
Print Assumptions C07_ftouch_b64_separated.

(* below the guard the left side n * (frad[i] + frad[j]) cannot overflow: it is finite, equal to the two-rounding
   expression, and the exact n (ri + rj) is at most DBL_MAX *)
Theorem C07_ftouch_lhs_no_overflow : forall n ri rj,
  n_ok n -> is_finite ri = true -> is_finite rj = true -> (0 <= B2R ri)%R -> (0 <= B2R rj)%R -> below_guard n ri rj ->
  is_finite (ftouch_lhs n ri rj) = true /\
  B2R (ftouch_lhs n ri rj) = rnd64 (IZR n * rnd64 (B2R ri + B2R rj)) /\ (exactL n ri rj <= B2R DBL_MAX)%R.
Proof. exact ftouch_lhs_no_overflow. Qed.
Print Assumptions C07_ftouch_lhs_no_overflow.

(* accuracy of cplx_mod AS CODED (|b| <= |a|, a <> 0: the branch taken), derived, not assumed: the unrounded last product is
   within (1 +- 9/4 u)(1 +- u) of the exact modulus whatever the magnitudes (underflow of b/a and of its square included) *)
Theorem C07_cplx_mod_accuracy : forall a b : R, a <> 0%R -> (Rabs b <= Rabs a)%R ->
  let H := sqrt (a * a + b * b) in
  ((1 - 9 / 4 * u64) * (1 - u64) * H <= mod_pre a b <= (1 + 9 / 4 * u64) * (1 + u64) * H)%R /\ (Rabs a <= mod_pre a b)%R.
Proof. exact mod_pre_bounds. Qed.
Print Assumptions C07_cplx_mod_accuracy.

(* the hypotheses are satisfiable: centres 0 and 1; n = 2 with radii 1, 1 overlaps; n = 1 with radii 0, 0 is separated *)
Example C07_ex_ftouch_hyps :
  (exactD fzero fzero fone fzero * (1 + 8 * u64) <= exactL 2 fone fone)%R /\ ftouch_b64 2 fone fone fzero fzero fone fzero = true /\
  (exactL 1 fzero fzero * (1 + 8 * u64) < exactD fzero fzero fone fzero)%R /\ below_guard 1 fzero fzero /\
  normal_distance fzero fzero fone fzero /\ ftouch_b64 1 fzero fzero fzero fzero fone fzero = false.
Proof.
  assert (D1 : exactD fzero fzero fone fzero = 1%R).
  { unfold exactD. rewrite B2R_fone. simpl (B2R fzero). replace ((0 - 1) * (0 - 1) + (0 - 0) * (0 - 0))%R with 1%R by ring. apply sqrt_1. }
  pose proof u64_small as Hu. pose proof (proj1 u64_bounds) as Hu0.
  rewrite D1. unfold exactL. rewrite B2R_fone. simpl (B2R fzero).
  split; [lra|]. split; [vm_compute; reflexivity|]. split; [lra|]. split; [split; vm_compute; reflexivity|].
  split; [|vm_compute; reflexivity].
  left. rewrite B2R_fone. simpl (B2R fzero). replace (0 - 1)%R with (Ropp 1) by ring. rewrite Rabs_Ropp, Rabs_R1.
  change 1%R with (bpow radix2 0). apply bpow_le. lia.
Qed.

(* REFUTED: "separated by more than 8u => false" does not hold when both components of zi - zj are subnormal: the last
   product of cplx_mod has no relative accuracy below 2^-1022.  Witness n = 1, frad = {2^-1074, 0}, zi = (2^-1074, 2^-1074),
   zj = 0: sqrt(2) 2^-1074 is computed as 2^-1074.  Replayed on the real function by the check (known/C07.json);
   the answer errs on the safe side (the discs stay in one cluster). *)
Theorem C07_ftouch_subnormal_refuted :
  exists n ri rj xi yi xj yj,
    n_ok n /\ finite6 ri rj xi yi xj yj /\ (0 <= B2R ri)%R /\ (0 <= B2R rj)%R /\ below_guard n ri rj /\
    (exactL n ri rj * (1 + 8 * u64) < exactD xi yi xj yj)%R /\
    ftouch_b64 n ri rj xi yi xj yj = true.
Proof. exact ftouch_subnormal_refuted. Qed.
Print Assumptions C07_ftouch_subnormal_refuted.

(* ---------------------------------------------------------------- cluster.c list operations
   ClusterOps.v: insert/remove root, insert/pop/remove cluster, the detach step (body of the disabled loop of
   mps_clusterization_detach_clusters; the function itself is the identity), reassemble, reset as list functions with the
   hand-maintained counters; run from the empty state against the real structures state by state (bin/clops vs
   harness/c07_ops.c under ASan/UBSan).  wf: clusterization->n = number of items, every cluster->n = number of its roots
   (clusters in the clusterization, free-standing and popped ones), item handles pairwise distinct and below the counter. *)
Theorem C07_ops_counters_invariant : forall ops s, run ops init = Some s -> wf s.
Proof. intros ops s H. exact (run_wf ops init s wf_init H). Qed.
Print Assumptions C07_ops_counters_invariant.

Theorem C07_ops_step_preserves : forall o s s', wf s -> step o s = Some s' -> wf s'.
Proof. exact step_wf. Qed.
Print Assumptions C07_ops_step_preserves.

(* the detach step moves one root into a new singleton item: the multiset of roots in the clusterization is kept *)
Theorem C07_ops_detach_step_multiset : forall hi hr s s', wf s -> detach_step hi hr s = Some s' ->
  Permutation (roots_of (items s')) (roots_of (items s)) /\
  (Z.of_nat (length (items s')) = Z.of_nat (length (items s)) + 1)%Z.
Proof. exact detach_step_multiset. Qed.
Print Assumptions C07_ops_detach_step_multiset.

(* after mps_clusterization_reassemble_clusters no item is marked detached (and the counters are still exact).
   PARTIAL for reassemble: that the multiset of roots is kept (when every detached cluster is a singleton detached from a
   cluster that stays) is checked state by state on the real code, not proved; the faithful model LOSES roots otherwise
   (only first->k of a detached cluster is re-inserted), which the real detach loop never sets up. *)
Theorem C07_ops_reassemble_no_detached : forall s s', wf s -> reassemble s = Some s' ->
  wf s' /\ forall it, In it (items s') -> idet it = None.
Proof. exact reassemble_no_detached. Qed.
Print Assumptions C07_ops_reassemble_no_detached.

Example C07_ex_ops :
  (* reset to 4 roots, detach roots 1 and 2, (disabled) detach_clusters, reassemble: one cluster again, counters exact *)
  option_map (fun s => (zn s, map (fun it => (ih it, idet it, cn (icl it), map rk (croots (icl it)))) (items s)))
    (run [OpReset 4; OpDetachStep 4 1; OpDetachStep 4 2] init)
  = Some (3%Z, [(8, Some 4, 1%Z, [2]); (6, Some 4, 1%Z, [1]); (4, None, 2%Z, [3; 0])]) /\
  option_map (fun s => (zn s, map (fun it => (ih it, idet it, cn (icl it), map rk (croots (icl it)))) (items s)))
    (run [OpReset 4; OpDetachStep 4 1; OpDetachStep 4 2; OpDetachAll; OpReassemble] init)
  = Some (1%Z, [(4, None, 4%Z, [1; 2; 3; 0])]) /\
  (* a dangling handle is a None of the model *)
  run [OpReset 2; OpRemove 2; OpInsertRoot (TItem 2) 0] init = None.
Proof. vm_compute. repeat split; reflexivity. Qed.

(* ---------------------------------------------------------------- non-vacuity *)
(* chain 0-1-2 (0 and 2 do not touch), 3 isolated, all in one old cluster listed 0,2,1,3:
   the base has to advance from 0 to 1 to pick up 2. *)
Definition ex_T : nat -> nat -> bool := touch_of_matrix
  [[true; true; false; false]; [true; true; true; false]; [false; true; true; false];
   [false; false; false; true]].

Example C07_ex_chain : cluster_seq ex_T false [[0; 2; 1; 3]] = Some [[3]; [2; 1; 0]].
Proof. vm_compute. reflexivity. Qed.

Example C07_ex_symmetric : forallb (fun a => forallb (fun b => Bool.eqb (ex_T a b) (ex_T b a)) (seq 0 4)) (seq 0 4) = true.
Proof. vm_compute. reflexivity. Qed.

(* 0 and 2 touch only through 1, which belongs to another old cluster: they must NOT merge *)
Example C07_ex_no_merge_across : cluster_seq ex_T false [[0; 2]; [1; 3]] = Some [[3]; [1]; [2]; [0]].
Proof. vm_compute. reflexivity. Qed.

Example C07_ex_singles_first : cluster_seq ex_T false [[0; 1]; [3]; []; [2]] = Some [[1; 0]; [2]; [3]].
Proof. vm_compute. reflexivity. Qed.

Example C07_ex_override : cluster_seq ex_T true [[0; 2; 1; 3]] = Some [[3]; [2]; [1]; [0]].
Proof. vm_compute. reflexivity. Qed.

Example C07_ex_newton_test :
  newton_isolated ex_T 4 = false /\ newton_isolated (fun i j => Nat.eqb i j) 4 = true.
Proof. vm_compute. split; reflexivity. Qed.

(* one whole call: stored radii that touch (ex_T) -> components; stored radii that separate every pair -> singletons,
   although the radii passed as argument still overlap *)
Example C07_ex_step :
  cluster_step_fd ex_T ex_T [[0; 2; 1; 3]] = Some [[3]; [2; 1; 0]] /\
  cluster_step_fd (fun i j => Nat.eqb i j) ex_T [[0; 2; 1; 3]] = Some [[3]; [2]; [1]; [0]] /\
  cluster_step_m (fun q => 0) ex_T ex_T [[0; 2; 1; 3]] = Some [[3]; [2; 1; 0]] /\
  cluster_step_m (fun q => 0) (fun i j => Nat.eqb i j) ex_T [[0; 2; 1; 3]] = Some [[3]; [2]; [1]; [0]] /\
  newton_iso_fd ex_T 4 = false /\ newton_iso_m ex_T 4 = false /\
  (* a pair touching only in the last row: found by both loop structures *)
  newton_iso_fd (fun i j => Nat.eqb i 3 && Nat.eqb j 0) 4 = false /\ newton_iso_m (fun i j => Nat.eqb i 3 && Nat.eqb j 0) 4 = false.
Proof. vm_compute. repeat split; reflexivity. Qed.

(* the parallel model with a different splice order gives another list order, same classes *)
Example C07_ex_par :
  cluster_par (fun q => 0) ex_T false [[0; 2; 1; 3]] = Some [[3]; [2; 1; 0]] /\
  cluster_par (fun q => Nat.pred (length q)) ex_T false [[0; 2]; [1; 3]] = Some [[3]; [2]; [1]; [0]] /\
  cluster_par (fun q => Nat.pred (length q)) (fun _ _ => true) false [[0; 1; 2; 3]] = Some [[1; 2; 3; 0]] /\
  cluster_par (fun q => 0) (fun _ _ => true) false [[0; 1; 2; 3]] = Some [[3; 2; 1; 0]].
Proof. vm_compute. repeat split; reflexivity. Qed.

Example C07_ex_components : components ex_T [[0; 2; 1; 3]] = [[0; 2; 1]; [3]].
Proof. vm_compute. reflexivity. Qed.

Example C07_ex_touch_exact :
  (* centres 0 and 3, radii 1/2 and 1/4, nf = 4: 4*(3/4) = 3 >= 3 touches; nf = 3 does not *)
  touch_exact 4 ((mkD 0 0, mkD 0 0), mkD 1 (-1)) ((mkD 3 0, mkD 0 0), mkD 1 (-2)) = true /\
  touch_exact 3 ((mkD 0 0, mkD 0 0), mkD 1 (-1)) ((mkD 3 0, mkD 0 0), mkD 1 (-2)) = false.
Proof. vm_compute. split; reflexivity. Qed.

(* extra sanity (NOT the theorem): on all 64 symmetric touch graphs over 4 nodes and a few previous
   partitions the traversal, the parallel model (last-in first-out choice) and the saturation
   specification [components] induce the same classes *)
Definition pair_idx (i j : nat) : nat := let a := max i j in let b := min i j in a * (a - 1) / 2 + b.
Definition T_of_mask (m i j : nat) : bool := (i =? j) || Nat.testbit m (pair_idx i j).
Definition same_classb (cs : clustering) (i j : nat) : bool := existsb (fun c => mem i c && mem j c) cs.
Definition agree4 (m : nat) (old : clustering) : bool :=
  match cluster_seq (T_of_mask m) false old, cluster_par (fun q => Nat.pred (length q)) (T_of_mask m) false old with
  | Some new, Some newp =>
    forallb (fun i => forallb (fun j =>
      Bool.eqb (same_classb new i j) (same_classb (components (T_of_mask m) old) i j) &&
      Bool.eqb (same_classb new i j) (same_classb newp i j)) (seq 0 4)) (seq 0 4)
  | _, _ => false
  end.
Example C07_ex_exhaustive4 :
  forallb (fun m => agree4 m [[0; 1; 2; 3]] && agree4 m [[2; 0; 3; 1]] && agree4 m [[0; 3]; [2; 1]]
                    && agree4 m [[3]; [1; 2; 0]]) (seq 0 64) = true.
Proof. vm_compute. reflexivity. Qed.

Example C07_ex_normal_or_zero : normal_or_zero 0 /\ normal_or_zero 1 /\ (0 < u64 <= 1 / 16)%R.
Proof.
  split; [left; reflexivity|]. split.
  - right. rewrite Rabs_R1. change 1%R with (bpow radix2 0). apply bpow_le. lia.
  - split; [|exact (proj2 u64_bounds)]. unfold u64. apply Rmult_lt_0_compat; [|apply bpow_gt_0].
    apply Rinv_0_lt_compat. apply IZR_lt. reflexivity.
Qed.
