/* C13 differential harness: runs public mpc_* operations, the link.c conversions and the
 * gmptools.c mpf helpers on operands read from stdin and prints all operands exactly
 * (integer mantissa in hex, binary exponent) after the call, together with a per-register
 * "bit-identical to before the call" mask.  The verdict is computed by checks/C13.py with
 * exact rational arithmetic; nothing is decided here.
 *
 * input line:  OP PAT Prc Pc1 Pc2 Pg Ph  rc.re rc.im c1.re c1.im c2.re c2.im g h  UI1 UI2 SI1 SI2 D1 D2 EM1 EE1 EM2 EE2
 *   numbers: [-]HEX@EXP = +-HEX * 2^EXP;  D*, EM*: 16 hex digits (IEEE bits);  EE*: long
 *   PAT: aliasing pattern, 0: all distinct, 1: rc=c1, 2: rc=c2, 3: c1=c2, 4: rc=c1=c2 (mpf helpers: 1: h=g)
 * output line: R prec*5 | 8 numbers | unchanged-mask(hex) | aux...
 */
#include <stdio.h>
#include <stdlib.h>
#include <string.h>
#include <stdint.h>
#include <signal.h>
#include <setjmp.h>
#include <mps/mps.h>

static sigjmp_buf fpe_env;
static void on_fpe (int s) { (void)s; siglongjmp (fpe_env, 1); }

struct snap { int size, prec; long exp; mp_limb_t *d; int n; };

static void take (struct snap *s, mpf_srcptr f)
{
  s->size = f->_mp_size; s->prec = f->_mp_prec; s->exp = f->_mp_exp; s->n = abs (f->_mp_size);
  s->d = malloc (sizeof (mp_limb_t) * (s->n + 1));
  memcpy (s->d, f->_mp_d, sizeof (mp_limb_t) * s->n);
}
static int same (const struct snap *s, mpf_srcptr f)
{
  if (s->size != f->_mp_size || s->prec != f->_mp_prec) return 0;
  if (s->size != 0 && s->exp != f->_mp_exp) return 0;
  return memcmp (s->d, f->_mp_d, sizeof (mp_limb_t) * s->n) == 0;
}
static void put (mpf_srcptr f)
{
  int n = abs (f->_mp_size);
  if (n == 0) { printf (" 0@0"); return; }
  mpz_t z; mpz_init (z);
  mpz_import (z, n, -1, sizeof (mp_limb_t), 0, 0, f->_mp_d);
  gmp_printf (" %s%Zx@%ld", f->_mp_size < 0 ? "-" : "", z, 64L * ((long)f->_mp_exp - n));
  mpz_clear (z);
}
static void get (mpf_ptr f, const char *s)
{
  char hex[8192]; long e; int neg = 0; mpz_t z;
  if (*s == '-') { neg = 1; s++; }
  const char *at = strchr (s, '@');
  if (!at || (size_t)(at - s) >= sizeof hex) { fprintf (stderr, "bad number %s\n", s); exit (3); }
  memcpy (hex, s, at - s); hex[at - s] = 0; e = atol (at + 1);
  mpz_init (z); mpz_set_str (z, hex, 16); mpf_set_z (f, z); mpz_clear (z);
  if (e >= 0) mpf_mul_2exp (f, f, e); else mpf_div_2exp (f, f, -e);
  if (neg) mpf_neg (f, f);
}
static double dbits (const char *s) { uint64_t u = strtoull (s, 0, 16); double d; memcpy (&d, &u, 8); return d; }
static void putd (double d) { uint64_t u; memcpy (&u, &d, 8); printf (" %016llx", (unsigned long long)u); }

int main (void)
{
  static char line[1 << 17]; static char tok[32][8200];
  signal (SIGFPE, on_fpe);
  while (fgets (line, sizeof line, stdin))
    {
      /* GMP raises SIGFPE on division by zero: report it as the outcome of this call */
      if (sigsetjmp (fpe_env, 1)) { printf ("E SIGFPE\n"); fflush (stdout); continue; }
      int nt = 0, pos = 0, adv;
      while (nt < 32 && sscanf (line + pos, "%8199s%n", tok[nt], &adv) == 1) { pos += adv; nt++; }
      if (nt < 25) { if (nt) fprintf (stderr, "short line (%d tokens)\n", nt); continue; }
      const char *op = tok[0]; int pat = atoi (tok[1]);
      unsigned long P[5]; int i;
      for (i = 0; i < 5; i++) P[i] = strtoul (tok[2 + i], 0, 10);
      mpc_t o[3]; mpf_t g, h;
      for (i = 0; i < 3; i++) { mpc_init2 (o[i], P[i]); get (mpc_Re (o[i]), tok[7 + 2 * i]); get (mpc_Im (o[i]), tok[8 + 2 * i]); }
      mpf_init2 (g, P[3]); get (g, tok[13]); mpf_init2 (h, P[4]); get (h, tok[14]);
      unsigned long ui1 = strtoul (tok[15], 0, 10), ui2 = strtoul (tok[16], 0, 10);
      long si1 = atol (tok[17]), si2 = atol (tok[18]);
      double d1 = dbits (tok[19]), d2 = dbits (tok[20]);
      rdpe_t e1, e2; rdpe_Mnt (e1) = dbits (tok[21]); rdpe_Esp (e1) = atol (tok[22]);
      rdpe_Mnt (e2) = dbits (tok[23]); rdpe_Esp (e2) = atol (tok[24]);
      __mpc_struct *rc = o[0], *c1 = o[1], *c2 = o[2]; __mpf_struct *hh = h;
      int mpfop = !strncmp (op, "mpf_", 4) && strstr (op, "si") != NULL;   /* gmptools helpers: (h, g, si) */
      if (mpfop) { if (pat == 1) hh = g; }
      else switch (pat) { case 1: c1 = rc; break; case 2: c2 = rc; break; case 3: c2 = c1; break; case 4: c1 = rc; c2 = rc; break; }
      mpf_srcptr regs[8] = { mpc_Re (o[0]), mpc_Im (o[0]), mpc_Re (o[1]), mpc_Im (o[1]), mpc_Re (o[2]), mpc_Im (o[2]), g, h };
      struct snap sn[8]; for (i = 0; i < 8; i++) take (&sn[i], regs[i]);
      int have_aux = 0; long auxl[4] = {0, 0, 0, 0}; double auxd[4] = {0, 0, 0, 0}; int naux_d = 0, naux_l = 0;
      cplx_t cx; cdpe_t cd; rdpe_t rr;
#define IS(x) (!strcmp (op, x))
      if (IS ("mpc_set")) mpc_set (rc, c1);
      else if (IS ("mpc_neg")) mpc_neg (rc, c1);
      else if (IS ("mpc_con")) mpc_con (rc, c1);
      else if (IS ("mpc_inv")) mpc_inv (rc, c1);
      else if (IS ("mpc_inv2")) mpc_inv2 (rc, c1);
      else if (IS ("mpc_sqr")) mpc_sqr (rc, c1);
      else if (IS ("mpc_rot")) mpc_rot (rc, c1);
      else if (IS ("mpc_flip")) mpc_flip (rc, c1);
      else if (IS ("mpc_smod")) mpc_smod (g, c1);
      else if (IS ("mpc_mod")) mpc_mod (g, c1);
      else if (IS ("mpc_rmod")) { mpc_rmod (rr, c1); auxd[0] = rdpe_Mnt (rr); auxl[0] = rdpe_Esp (rr); naux_d = naux_l = 1; }
      else if (IS ("mpc_add")) mpc_add (rc, c1, c2);
      else if (IS ("mpc_sub")) mpc_sub (rc, c1, c2);
      else if (IS ("mpc_mul")) mpc_mul (rc, c1, c2);
      else if (IS ("mpc_div")) mpc_div (rc, c1, c2);
      else if (IS ("mpc_add_f")) mpc_add_f (rc, c1, g);
      else if (IS ("mpc_sub_f")) mpc_sub_f (rc, c1, g);
      else if (IS ("mpc_mul_f")) mpc_mul_f (rc, c1, g);
      else if (IS ("mpc_div_f")) mpc_div_f (rc, c1, g);
      else if (IS ("mpc_f_sub")) mpc_f_sub (rc, g, c1);
      else if (IS ("mpc_f_div")) mpc_f_div (rc, g, c1);
      else if (IS ("mpc_add_ui")) mpc_add_ui (rc, c1, ui1, ui2);
      else if (IS ("mpc_sub_ui")) mpc_sub_ui (rc, c1, ui1, ui2);
      else if (IS ("mpc_ui_sub")) mpc_ui_sub (rc, ui1, ui2, c1);
      else if (IS ("mpc_mul_ui")) mpc_mul_ui (rc, c1, ui1);
      else if (IS ("mpc_div_ui")) mpc_div_ui (rc, c1, ui1);
      else if (IS ("mpc_ui_div")) mpc_ui_div (rc, ui1, c1);
      else if (IS ("mpc_mul_2exp")) mpc_mul_2exp (rc, c1, ui1);
      else if (IS ("mpc_div_2exp")) mpc_div_2exp (rc, c1, ui1);
      else if (IS ("mpc_pow_si")) mpc_pow_si (rc, c1, si1);
      else if (IS ("mpc_smod_eq")) mpc_smod_eq (rc);
      else if (IS ("mpc_mod_eq")) mpc_mod_eq (rc);
      else if (IS ("mpc_rot_eq")) mpc_rot_eq (rc);
      else if (IS ("mpc_flip_eq")) mpc_flip_eq (rc);
      else if (IS ("mpc_swap")) mpc_swap (rc, c1);
      else if (IS ("mpc_set_ui")) mpc_set_ui (rc, ui1, ui2);
      else if (IS ("mpc_set_si")) mpc_set_si (rc, si1, si2);
      else if (IS ("mpc_set_d")) mpc_set_d (rc, d1, d2);
      else if (IS ("mpc_set_cplx")) { cplx_set_d (cx, d1, d2); mpc_set_cplx (rc, cx); }
      else if (IS ("mpc_get_cplx")) { mpc_get_cplx (cx, c1); auxd[0] = cplx_Re (cx); auxd[1] = cplx_Im (cx); naux_d = 2; }
      else if (IS ("mpc_set_cdpe")) { rdpe_set (cdpe_Re (cd), e1); rdpe_set (cdpe_Im (cd), e2); mpc_set_cdpe (rc, cd); }
      else if (IS ("mpc_get_cdpe")) { mpc_get_cdpe (cd, c1); auxd[0] = rdpe_Mnt (cdpe_Re (cd)); auxd[1] = rdpe_Mnt (cdpe_Im (cd));
                                      auxl[0] = rdpe_Esp (cdpe_Re (cd)); auxl[1] = rdpe_Esp (cdpe_Im (cd)); naux_d = naux_l = 2; }
      else if (IS ("mpf_get_rdpe")) { mpf_get_rdpe (rr, g); auxd[0] = rdpe_Mnt (rr); auxl[0] = rdpe_Esp (rr); naux_d = naux_l = 1; }
      else if (IS ("mpf_set_rdpe")) mpf_set_rdpe (g, e1);
      else if (IS ("mpc_eq_zero")) { auxl[0] = mpc_eq_zero (c1); naux_l = 1; }
      else if (IS ("mpc_eq_one")) { auxl[0] = mpc_eq_one (c1); naux_l = 1; }
      /* gmptools.c */
      else if (IS ("mpf_add_si")) mpf_add_si (hh, g, si1);
      else if (IS ("mpf_sub_si")) mpf_sub_si (hh, g, si1);
      else if (IS ("mpf_si_sub")) mpf_si_sub (hh, si1, g);
      else if (IS ("mpf_mul_si")) mpf_mul_si (hh, g, si1);
      else if (IS ("mpf_div_si")) mpf_div_si (hh, g, si1);
      else if (IS ("mpf_si_div")) mpf_si_div (hh, si1, g);
      else if (IS ("mpf_pow_si")) mpf_pow_si (hh, g, si1);
      /* raw GMP primitives: validation of the model's assumption about mpf rounding */
      else if (IS ("mpf_add")) mpf_add (mpc_Re (rc), mpc_Re (c1), mpc_Re (c2));
      else if (IS ("mpf_sub")) mpf_sub (mpc_Re (rc), mpc_Re (c1), mpc_Re (c2));
      else if (IS ("mpf_mul")) mpf_mul (mpc_Re (rc), mpc_Re (c1), mpc_Re (c2));
      else if (IS ("mpf_div")) mpf_div (mpc_Re (rc), mpc_Re (c1), mpc_Re (c2));
      else if (IS ("mpf_sqrt")) mpf_sqrt (mpc_Re (rc), mpc_Re (c1));
      else if (IS ("mpf_set")) mpf_set (mpc_Re (rc), mpc_Re (c1));
      else { fprintf (stderr, "unknown op %s\n", op); exit (3); }
      (void)have_aux;
      printf ("R %lu %lu %lu %lu %lu |", (unsigned long)mpf_get_prec (mpc_Re (o[0])), (unsigned long)mpf_get_prec (mpc_Re (o[1])),
              (unsigned long)mpf_get_prec (mpc_Re (o[2])), (unsigned long)mpf_get_prec (g), (unsigned long)mpf_get_prec (h));
      unsigned mask = 0;
      for (i = 0; i < 8; i++) { put (regs[i]); if (same (&sn[i], regs[i])) mask |= 1u << i; }
      printf (" | %02x |", mask);
      for (i = 0; i < naux_d; i++) putd (auxd[i]);
      for (i = 0; i < naux_l; i++) printf (" %ld", auxl[i]);
      printf ("\n"); fflush (stdout);
      for (i = 0; i < 8; i++) free (sn[i].d);
      for (i = 0; i < 3; i++) mpc_clear (o[i]);
      mpf_clear (g); mpf_clear (h);
    }
  return 0;
}
