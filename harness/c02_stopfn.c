/* c02_stopfn: drive the REAL stop tests of libmps (built from /repo's working tree) on generated states.
 * stdin lines (same syntax as bin/stopq):
 *   U goal mult props n (st inc none)*n     -> mps_check_stop            goal: i|a|c
 *   S exit_required phase n st*n            -> mps_secular_ga_check_stop
 * stdout: 0/1 per line.  Only the fields the two functions read are set (status, inclusion, attrs, n, goal,
 * multiplicity, root_properties, exit_required, lastphase); the context comes from mps_context_new (). */
#include <mps/mps.h>
#include <stdio.h>
#include <stdlib.h>
#include <string.h>

int main (void)
{
  char *line = NULL; size_t cap = 0;
  mps_context *s = mps_context_new ();
  int maxn = 0, i;
  s->root = NULL;
  while (getline (&line, &cap, stdin) > 0)
    {
      char *tok = strtok (line, " \n");
      if (!tok) { continue; }
      char kind = tok[0];
      if (kind == 'U')
        {
          char g = strtok (NULL, " \n")[0];
          int mult = atoi (strtok (NULL, " \n")), props = atoi (strtok (NULL, " \n")), n = atoi (strtok (NULL, " \n"));
          if (n > maxn)
            {
              s->root = (mps_approximation **)realloc (s->root, sizeof (mps_approximation *) * n);
              for (i = maxn; i < n; i++) s->root[i] = (mps_approximation *)calloc (1, sizeof (mps_approximation));
              maxn = n;
            }
          s->n = n;
          s->output_config->goal = g == 'i' ? MPS_OUTPUT_GOAL_ISOLATE : g == 'a' ? MPS_OUTPUT_GOAL_APPROXIMATE : MPS_OUTPUT_GOAL_COUNT;
          s->output_config->multiplicity = mult ? true : false;
          s->output_config->root_properties = props ? MPS_OUTPUT_PROPERTY_REAL : MPS_OUTPUT_PROPERTY_NONE;
          for (i = 0; i < n; i++)
            {
              s->root[i]->status = (mps_root_status)atoi (strtok (NULL, " \n"));
              s->root[i]->inclusion = (mps_root_inclusion)atoi (strtok (NULL, " \n"));
              s->root[i]->attrs = atoi (strtok (NULL, " \n")) ? MPS_ROOT_ATTRS_NONE : MPS_ROOT_ATTRS_REAL;
            }
          printf ("%d\n", mps_check_stop (s) ? 1 : 0);
        }
      else if (kind == 'S')
        {
          int ex = atoi (strtok (NULL, " \n")), ph = atoi (strtok (NULL, " \n")), n = atoi (strtok (NULL, " \n"));
          if (n > maxn)
            {
              s->root = (mps_approximation **)realloc (s->root, sizeof (mps_approximation *) * n);
              for (i = maxn; i < n; i++) s->root[i] = (mps_approximation *)calloc (1, sizeof (mps_approximation));
              maxn = n;
            }
          s->n = n;
          s->exit_required = ex ? true : false;
          s->lastphase = (mps_phase)ph;
          for (i = 0; i < n; i++)
            s->root[i]->status = (mps_root_status)atoi (strtok (NULL, " \n"));
          printf ("%d\n", mps_secular_ga_check_stop (s) ? 1 : 0);
        }
      else
        printf ("BADLINE\n");
    }
  fflush (stdout);
  return 0;
}
