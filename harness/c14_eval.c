/* C14 harness: evaluate input equations through the polynomial interface
 * (mps_polynomial_feval / deval / meval) and export value and error estimate EXACTLY.
 *
 * stdin protocol (tokens separated by blanks; rationals "NUM/DEN" or "NUM" in base 16):
 *   P M n  r0 i0 r1 i1 ... rn in      new monomial polynomial (n+1 complex rational coefficients, degree 0 first),
 *                                     coefficients set with mps_monomial_poly_set_coefficient_q
 *   P Mi n ...                        same, through mps_monomial_poly_set_coefficient_int (integers that fit a long long)
 *   P Md n ...                        same, through mps_monomial_poly_set_coefficient_d   (values that are doubles)
 *   P Mf n prec ...                   same, through mps_monomial_poly_set_coefficient_f   (mpc_t of `prec` bits)
 *   P Ms n s0 t0 s1 t1 ...            same, through mps_monomial_poly_set_coefficient_s   (decimal strings, passed verbatim)
 *   P C n  r0 i0 ... rn in            new Chebyshev-basis polynomial
 *   P S n  ar0 ai0 br0 bi0 ...        new secular equation sum a_i/(x-b_i) - 1  (n terms)
 *       the polynomial becomes the context's input polynomial (mps_context_set_input_poly)
 *   Q S n ...                         as P S, but the polynomial is NOT installed in the context
 *                                     (the context stays sized for the previous polynomial): defect probe
 *   F xr xi                           mps_polynomial_feval at x (rationals, must be doubles)
 *   D mr mi e                         mps_polynomial_deval at x = (mr + i mi) * 2^e
 *   M prec xr xi                      mps_polynomial_meval, x and value at `prec` bits
 *   X prec xr xi                      monomial only: meval twice, density forced DENSE then SPARSE
 * stdout, one line per evaluation:
 *   F ok re im err            (IEEE bit patterns, 16 hex digits)
 *   D ok rm re im ie em ee    (mantissa bit pattern + decimal exponent for re, im, err)
 *   M ok prec <mpf re> <mpf im> em ee      mpf = sign mantissa-hex exponent(base 16): value = 0.MANT * 16^exp
 *   X ... two M records on one line
 *   "<cmd> NOIMPL" when the polynomial type has no evaluator for that arithmetic (NULL pointer)
 *   P lines answer "P deg density prec"
 */
#include <mps/mps.h>
#include <stdio.h>
#include <stdlib.h>
#include <string.h>
#include <stdint.h>

static char *line = NULL; static size_t cap = 0;
static char *tokp;
static char *tok (void) { char *t = strtok_r (NULL, " \t\r\n", &tokp); if (!t) { fprintf (stderr, "c14_eval: missing token\n"); exit (3); } return t; }
static void tokq (mpq_t q) { char *t = tok (); if (mpq_set_str (q, t, 16) != 0) { fprintf (stderr, "c14_eval: bad rational %s\n", t); exit (3); } mpq_canonicalize (q); }

static uint64_t dbits (double d) { uint64_t u; memcpy (&u, &d, 8); return u; }
static void put_mpf (mpf_t f)
{
  mp_exp_t e; char *s = mpf_get_str (NULL, &e, 16, 0, f);
  if (s[0] == 0) printf (" + 0 0");
  else if (s[0] == '-') printf (" - %s %ld", s + 1, (long)e);
  else printf (" + %s %ld", s, (long)e);
  free (s);
}
static void put_rdpe (rdpe_t r) { printf (" %016llx %ld", (unsigned long long)dbits (rdpe_Mnt (r)), (long)rdpe_Esp (r)); }

static mps_context *ctx = NULL;
static mps_polynomial *poly = NULL;
static int is_mono = 0;

static void meval_once (long prec, mpq_t xr, mpq_t xi)
{
  mpc_t x, v; rdpe_t err; mps_boolean ok;
  mpc_init2 (x, prec); mpc_init2 (v, prec);
  mpc_set_q (x, xr, xi);
  rdpe_set (err, rdpe_zero);
  ok = mps_polynomial_meval (ctx, poly, x, v, err);
  printf (" %d %ld", ok ? 1 : 0, (long)mpc_get_prec (x));
  put_mpf (mpc_Re (v)); put_mpf (mpc_Im (v)); put_rdpe (err);
  mpc_clear (x); mpc_clear (v);
}

int main (void)
{
  mpq_t qr, qi, q3, q4;
  mpq_init (qr); mpq_init (qi); mpq_init (q3); mpq_init (q4);
  while (getline (&line, &cap, stdin) > 0)
    {
      char *c = strtok_r (line, " \t\r\n", &tokp);
      if (!c) continue;
      if (c[0] == 'P' || c[0] == 'Q')
        {
          char *kt = tok (); char kind = kt[0]; char setter = kt[1] ? kt[1] : 'q'; int n = atoi (tok ()); int i;
          int install = (c[0] == 'P');
          if (install)
            {
              if (ctx) { if (poly) mps_polynomial_free (ctx, poly); mps_context_free (ctx); }
              ctx = mps_context_new ();
            }
          else if (poly) { /* keep the context, drop only our handle */ }
          is_mono = 0;
          if (kind == 'M')
            {
              mps_monomial_poly *p = mps_monomial_poly_new (ctx, n);
              long fprec = (setter == 'f') ? atol (tok ()) : 0;
              for (i = 0; i <= n; i++)
                {
                  if (setter == 's')
                    {
                      char *sr = strdup (tok ()); char *si = strdup (tok ());
                      mps_monomial_poly_set_coefficient_s (ctx, p, i, sr, si);
                      free (sr); free (si);
                      continue;
                    }
                  tokq (qr); tokq (qi);
                  if (setter == 'q') mps_monomial_poly_set_coefficient_q (ctx, p, i, qr, qi);
                  else if (setter == 'i')
                    mps_monomial_poly_set_coefficient_int (ctx, p, i, (long long)mpz_get_si (mpq_numref (qr)), (long long)mpz_get_si (mpq_numref (qi)));
                  else if (setter == 'd') mps_monomial_poly_set_coefficient_d (ctx, p, i, mpq_get_d (qr), mpq_get_d (qi));
                  else if (setter == 'f')
                    {
                      mpc_t c; mpc_init2 (c, fprec); mpc_set_q (c, qr, qi);
                      mps_monomial_poly_set_coefficient_f (ctx, p, i, c); mpc_clear (c);
                    }
                  else { fprintf (stderr, "c14_eval: unknown setter %c\n", setter); return 3; }
                }
              poly = MPS_POLYNOMIAL (p); is_mono = 1;
            }
          else if (kind == 'C')
            {
              mps_chebyshev_poly *p = mps_chebyshev_poly_new (ctx, n, MPS_STRUCTURE_COMPLEX_RATIONAL);
              for (i = 0; i <= n; i++) { tokq (qr); tokq (qi); mps_chebyshev_poly_set_coefficient_q (ctx, p, i, qr, qi); }
              poly = MPS_POLYNOMIAL (p);
            }
          else
            {
              mps_secular_equation *p = mps_secular_equation_new_raw (ctx, n);
              for (i = 0; i < n; i++) { tokq (qr); tokq (qi); tokq (q3); tokq (q4); mps_secular_equation_set_coefficient_q (ctx, p, i, qr, qi, q3, q4); }
              poly = MPS_POLYNOMIAL (p);
            }
          if (install) mps_context_set_input_poly (ctx, poly);
          printf ("%c %d %d %ld\n", c[0], (int)poly->degree, (int)poly->density, (long)poly->prec);
        }
      else if (c[0] == 'F')
        {
          cplx_t x, v; double err = 0; mps_boolean ok;
          tokq (qr); tokq (qi);
          if (!poly->feval) { printf ("F NOIMPL\n"); fflush (stdout); continue; }
          cplx_set_d (x, mpq_get_d (qr), mpq_get_d (qi));
          cplx_set_d (v, 0.0, 0.0);
          ok = mps_polynomial_feval (ctx, poly, x, v, &err);
          printf ("F %d %016llx %016llx %016llx\n", ok ? 1 : 0, (unsigned long long)dbits (cplx_Re (v)),
                  (unsigned long long)dbits (cplx_Im (v)), (unsigned long long)dbits (err));
        }
      else if (c[0] == 'D')
        {
          cdpe_t x, v; rdpe_t err; mps_boolean ok; long e;
          tokq (qr); tokq (qi); e = atol (tok ());
          if (!poly->deval) { printf ("D NOIMPL\n"); fflush (stdout); continue; }
          cdpe_set_2dl (x, mpq_get_d (qr), e, mpq_get_d (qi), e);
          cdpe_set (v, cdpe_zero); rdpe_set (err, rdpe_zero);
          ok = mps_polynomial_deval (ctx, poly, x, v, err);
          printf ("D %d", ok ? 1 : 0);
          put_rdpe (cdpe_Re (v)); put_rdpe (cdpe_Im (v)); put_rdpe (err);
          printf ("\n");
        }
      else if (c[0] == 'M')
        {
          long prec = atol (tok ()); tokq (qr); tokq (qi);
          if (!poly->meval) { printf ("M NOIMPL\n"); fflush (stdout); continue; }
          printf ("M"); meval_once (prec, qr, qi); printf ("\n");
        }
      else if (c[0] == 'X')
        {
          long prec = atol (tok ()); mps_density keep = poly->density; tokq (qr); tokq (qi);
          if (!is_mono) { printf ("X NOIMPL\n"); fflush (stdout); continue; }
          printf ("X");
          poly->density = MPS_DENSITY_DENSE;  meval_once (prec, qr, qi);
          poly->density = MPS_DENSITY_SPARSE; meval_once (prec, qr, qi);
          poly->density = keep;
          printf ("\n");
        }
      else { fprintf (stderr, "c14_eval: unknown command %s\n", c); return 3; }
      fflush (stdout);
    }
  return 0;
}
