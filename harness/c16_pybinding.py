#!/usr/bin/env python3
"""Run the Python binding (examples/python/mpsolve.py of the /repo snapshot) against libmps.so.3 built from the
same snapshot: for each input (JSON lines on stdin: {"name":..., "coeffs":[[re,im],...] integers low->high, "alg": 0|1})
solve with Context.solve and print what Context.get_roots() / Context.get_inclusion_radii() hand out, losslessly
(float.hex).  LD_LIBRARY_PATH and PYTHONPATH are set by checks/C16.py."""
import sys, json
import mpsolve
for line in sys.stdin:
    line = line.strip()
    if not line: continue
    j = json.loads(line)
    ctx = mpsolve.Context()
    n = len(j["coeffs"]) - 1
    p = mpsolve.MonomialPoly(ctx, n)
    cplx = any(c[1] != 0 for c in j["coeffs"])
    for k, c in enumerate(j["coeffs"]):
        if cplx: p.set_coefficient(k, int(c[0]), int(c[1]))
        else: p.set_coefficient(k, int(c[0]))
    roots = ctx.solve(p, j.get("alg", 1))
    radii = ctx.get_inclusion_radii()
    print(json.dumps({"name": j["name"], "roots": [[z.real.hex(), z.imag.hex()] for z in roots], "radii": [r.hex() for r in radii]}))
    sys.stdout.flush()
