/* C18 harness (ii): asynchronous solve, callback counting, abort injection (real threads; only plain
 * pthread calls are used so that the file can later be built in `shim` mode).
 *
 *   c18_async <algo u|s> <goal i|a> <degree> <seed> <abort_delay_us | -1> [second]
 *
 * The polynomial has pseudo random integer coefficients.  Output (one line):
 *   cb=<callbacks seen 300 ms after the first> err=<flag at callback> exitreq=<0|1> t_cb_ms=<start -> callback>
 *   t_abort_ms=<abort -> callback, -1 if not aborted or callback came first> same=<results at callback == results 300 ms later>
 *   finite=<all radii finite> n=<roots> msg=<error text>
 * With "second": after the callback a new polynomial is set on the SAME context and solved synchronously;
 *   second_err=<flag> second_msg=<text>   shows whether the abort request outlives the solve it was meant for. */
#include <mps/mps.h>
#include <stdio.h>
#include <stdlib.h>
#include <string.h>
#include <pthread.h>
#include <time.h>
#include <unistd.h>
#include <math.h>

static pthread_mutex_t m = PTHREAD_MUTEX_INITIALIZER;
static pthread_cond_t c = PTHREAD_COND_INITIALIZER;
static int cb_count = 0, err_at_cb = 0, n_at_cb = 0;
static double t_cb = 0;
static char *snap = NULL;

static double now_ms (void)
{
  struct timespec ts; clock_gettime (CLOCK_MONOTONIC, &ts);
  return ts.tv_sec * 1e3 + ts.tv_nsec / 1e6;
}

/* exact text of the current results: values in base 16, DPE radii as mantissa/exponent */
static char *results_text (mps_context *s, int *finite)
{
  int n = mps_context_get_degree (s), i;
  size_t cap = 256, len = 0;
  char *buf = malloc (cap);
  buf[0] = 0;
  *finite = 1;
  if (!s->initialized || !s->root) return buf;
  for (i = 0; i < n; i++)
    {
      mp_exp_t e1, e2;
      char *a = mpf_get_str (NULL, &e1, 16, 0, mpc_Re (s->root[i]->mvalue));
      char *b = mpf_get_str (NULL, &e2, 16, 0, mpc_Im (s->root[i]->mvalue));
      double mnt = rdpe_Mnt (s->root[i]->drad);
      size_t need = strlen (a) + strlen (b) + 96;
      if (!(mnt == mnt) || isinf (mnt) || mnt < 0) *finite = 0;
      if (len + need > cap) { cap = 2 * (len + need); buf = realloc (buf, cap); }
      len += sprintf (buf + len, "%s@%ld %s@%ld %a %ld;", a, (long)e1, b, (long)e2, mnt, (long)rdpe_Esp (s->root[i]->drad));
      free (a); free (b);
    }
  return buf;
}

static void *on_done (mps_context *s, void *ud)
{
  int fin;
  pthread_mutex_lock (&m);
  cb_count++;
  if (cb_count == 1)
    {
      t_cb = now_ms ();
      err_at_cb = mps_context_has_errors (s);
      n_at_cb = mps_context_get_degree (s);
      snap = results_text (s, &fin);
    }
  pthread_cond_broadcast (&c);
  pthread_mutex_unlock (&m);
  return NULL;
}

/* largest radius exponent (base 2) over the current results */
static long max_rad_exp (mps_context *s)
{
  long e = -1000000; int i;
  if (!s->initialized || !s->root) return 0;
  for (i = 0; i < mps_context_get_degree (s); i++)
    if (rdpe_Mnt (s->root[i]->drad) != 0 && rdpe_Esp (s->root[i]->drad) > e) e = rdpe_Esp (s->root[i]->drad);
  return e;
}

static unsigned long fnv (const char *s)
{
  unsigned long h = 1469598103934665603UL;
  for (; s && *s; s++) { h ^= (unsigned char)*s; h *= 1099511628211UL; }
  return h;
}

static mps_monomial_poly *make_poly (mps_context *ctx, int deg, unsigned seed)
{
  mps_monomial_poly *p = mps_monomial_poly_new (ctx, deg);
  int i;
  for (i = 0; i <= deg; i++)
    {
      seed = seed * 1103515245u + 12345u;
      long cf = (long)((seed >> 16) % 2001) - 1000;
      if ((i == 0 || i == deg) && cf == 0) cf = 7;
      mps_monomial_poly_set_coefficient_int (ctx, p, i, cf, 0);
    }
  return p;
}

int main (int argc, char **argv)
{
  if (argc < 6) { fprintf (stderr, "usage\n"); return 2; }
  int deg = atoi (argv[3]); unsigned seed = (unsigned)atoi (argv[4]); long delay = atol (argv[5]);
  int second = argc > 6 && !strcmp (argv[6], "second");
  mps_context *ctx = mps_context_new ();
  mps_thread_pool_set_concurrency_limit (ctx, NULL, 1);     /* one worker: deterministic results */
  mps_context_select_algorithm (ctx, argv[1][0] == 's' ? MPS_ALGORITHM_SECULAR_GA : MPS_ALGORITHM_STANDARD_MPSOLVE);
  mps_context_set_output_goal (ctx, argv[2][0] == 'a' ? MPS_OUTPUT_GOAL_APPROXIMATE : MPS_OUTPUT_GOAL_ISOLATE);
  if (argv[2][0] == 'a') mps_context_set_output_prec (ctx, 200);
  mps_monomial_poly *p = make_poly (ctx, deg, seed);
  mps_context_set_input_poly (ctx, MPS_POLYNOMIAL (p));

  double t0 = now_ms (), t_abort = -1;
  mps_mpsolve_async (ctx, on_done, NULL);
  if (delay >= 0)
    {
      usleep (delay);
      t_abort = now_ms ();
      mps_context_abort (ctx);
    }
  struct timespec lim; clock_gettime (CLOCK_REALTIME, &lim); lim.tv_sec += 120;
  pthread_mutex_lock (&m);
  int timedout = 0;
  while (cb_count == 0 && !timedout)
    timedout = pthread_cond_timedwait (&c, &m, &lim) != 0;
  pthread_mutex_unlock (&m);
  if (timedout) { printf ("cb=0 timeout=1\n"); return 0; }
  usleep (300000);
  int fin = 1;
  char *later = results_text (ctx, &fin);
  pthread_mutex_lock (&m);
  int cbs = cb_count;
  pthread_mutex_unlock (&m);
  char *msg = mps_context_error_msg (ctx);
  printf ("cb=%d err=%d exitreq=%d t_cb_ms=%.1f t_abort_ms=%.1f same=%d finite=%d n=%d msg=%s\n", cbs, err_at_cb,
          (int)ctx->exit_required, t_cb - t0, (t_abort >= 0 && t_cb >= t_abort) ? t_cb - t_abort : -1.0,
          snap && !strcmp (snap, later), fin, n_at_cb, msg ? msg : "-");
  printf ("hash=%lx\n", fnv (snap));
  free (msg);
  if (second)
    {
      mps_monomial_poly *q = make_poly (ctx, 6, seed + 1);
      mps_context_set_input_poly (ctx, MPS_POLYNOMIAL (q));
      mps_mpsolve (ctx);
      msg = mps_context_error_msg (ctx);
      int f2;
      char *r2 = results_text (ctx, &f2);
      /* the same polynomial and settings on a fresh context */
      mps_context *fr = mps_context_new ();
      mps_thread_pool_set_concurrency_limit (fr, NULL, 1);
      mps_context_select_algorithm (fr, argv[1][0] == 's' ? MPS_ALGORITHM_SECULAR_GA : MPS_ALGORITHM_STANDARD_MPSOLVE);
      mps_context_set_output_goal (fr, argv[2][0] == 'a' ? MPS_OUTPUT_GOAL_APPROXIMATE : MPS_OUTPUT_GOAL_ISOLATE);
      if (argv[2][0] == 'a') mps_context_set_output_prec (fr, 200);
      mps_monomial_poly *q2 = make_poly (fr, 6, seed + 1);
      mps_context_set_input_poly (fr, MPS_POLYNOMIAL (q2));
      mps_mpsolve (fr);
      char *r3 = results_text (fr, &f2);
      printf ("second_err=%d second_same_as_fresh=%d second_radexp=%ld fresh_radexp=%ld second_msg=%s\n", (int)mps_context_has_errors (ctx),
              !strcmp (r2, r3), max_rad_exp (ctx), max_rad_exp (fr), msg ? msg : "-");
      free (msg);
    }
  fflush (stdout);
  _exit (0);      /* the private pool of the async solve is never freed (C15 finding); do not wait for it */
}
