/* C12 -- correspondence / predicate harness: drives the real rdpe_* / cdpe_* functions of
 * libmps with the line protocol of ocaml/dpe_driver.ml.
 *   stdin :  "op arg..."   R = "hex16 dec", D = "hex16", L = "dec", C = 4 tokens
 *   stdout:  R -> "hex16 dec", I -> "dec", D -> "hex16", C -> 4 tokens
 *            "UB <kind> <line> <lhs> <rhs>"  when UBSan's check fires inside the call (san build):
 *            the *_abort handlers are defined here (they override libubsan's) and longjmp back.
 */
#include <mps/mps.h>
#include <stdio.h>
#include <stdlib.h>
#include <string.h>
#include <stdint.h>
#include <limits.h>
#include <math.h>
#include <setjmp.h>
#include <signal.h>
#include <unistd.h>

static sigjmp_buf jb;
static char ubmsg[256];
struct srcloc { const char *file; uint32_t line, col; };
static void ub_out (const char *kind, void *data, long a, long b)
{
  struct srcloc *l = (struct srcloc *) data;
  const char *f = l->file ? l->file : "?";
  const char *s = strrchr (f, '/');
  snprintf (ubmsg, sizeof ubmsg, "UB %s %s:%u %ld %ld", kind, s ? s + 1 : f, l->line, a, b);
  siglongjmp (jb, 1);
}
void __ubsan_handle_add_overflow_abort (void *d, long a, long b) { ub_out ("add", d, a, b); }
void __ubsan_handle_sub_overflow_abort (void *d, long a, long b) { ub_out ("sub", d, a, b); }
void __ubsan_handle_mul_overflow_abort (void *d, long a, long b) { ub_out ("mul", d, a, b); }
void __ubsan_handle_negate_overflow_abort (void *d, long a) { ub_out ("neg", d, a, 0); }
void __ubsan_handle_divrem_overflow_abort (void *d, long a, long b) { ub_out ("divrem", d, a, b); }
void __ubsan_handle_shift_out_of_bounds_abort (void *d, long a, long b) { ub_out ("shift", d, a, b); }

/* x^LONG_MIN: the code before fixes/C12_pow_si_long_min.patch negates LONG_MIN (UBSan stops the call there, san
 * build) and then loops for ever (plain build: not run).  A watchdog alarm turns any other non-terminating call
 * into the output line HANG. */
static void on_alarm (int sig) { (void) sig; snprintf (ubmsg, sizeof ubmsg, "HANG"); siglongjmp (jb, 1); }
#if defined(__SANITIZE_ADDRESS__) || defined(VF_RUN_LONG_MIN)
#define POW_MIN_GUARD(i) do { } while (0)
#else
#define POW_MIN_GUARD(i) do { if ((i) == LONG_MIN) { printf ("SKIP\n"); return; } } while (0)
#endif

static double dbl (const char *s) { uint64_t u = strtoull (s, NULL, 16); double d; memcpy (&d, &u, 8); return d; }
static const char *hx (double d)
{
  static char buf[4][20]; static int k; uint64_t u;
  if (isnan (d)) u = 0x7ff8000000000000ULL; else memcpy (&u, &d, 8);
  k = (k + 1) & 3; snprintf (buf[k], 20, "%016llx", (unsigned long long) u); return buf[k];
}
static long lng (const char *s) { return s[0] == '-' ? strtol (s, NULL, 10) : (long) strtoul (s, NULL, 10); }
static void rd (rdpe_t r, char **t) { rdpe_Mnt (r) = dbl (t[0]); rdpe_Esp (r) = lng (t[1]); }
static void cd (cdpe_t c, char **t) { rd (cdpe_Re (c), t); rd (cdpe_Im (c), t + 2); }
static void outr (const rdpe_t r) { printf ("%s %ld\n", hx (rdpe_Mnt (r)), rdpe_Esp (r)); }
static void outc (const cdpe_t c)
{
  printf ("%s %ld %s %ld\n", hx (rdpe_Mnt (cdpe_Re (c))), rdpe_Esp (cdpe_Re (c)),
          hx (rdpe_Mnt (cdpe_Im (c))), rdpe_Esp (cdpe_Im (c)));
}

#define IS(s) (strcmp (op, s) == 0)

static void run (int n, char **t)
{
  const char *op = t[0];
  char **a = t + 1;
  rdpe_t x, y, r; cdpe_t c, c2, rc;
  rdpe_set (r, rdpe_zero); cdpe_set (rc, cdpe_zero);
  n--;
  if (IS ("set_d") && n == 1) { rdpe_set_d (r, dbl (a[0])); outr (r); }
  else if (IS ("set_2dl") && n == 2) { rdpe_set_2dl (r, dbl (a[0]), lng (a[1])); outr (r); }
  else if (IS ("get_d") && n == 2) { rd (x, a); printf ("%s\n", hx (rdpe_get_d (x))); }
#define UN(name, fn) else if (IS (name) && n == 2) { rd (x, a); fn (r, x); outr (r); }
#define UNEQ(name, fn) else if (IS (name) && n == 2) { rd (r, a); fn (r); outr (r); }
  UN ("neg", rdpe_neg) UN ("abs", rdpe_abs) UN ("inv", rdpe_inv) UN ("sqr", rdpe_sqr) UN ("sqrt", rdpe_sqrt)
  UNEQ ("neg_eq", rdpe_neg_eq) UNEQ ("abs_eq", rdpe_abs_eq) UNEQ ("inv_eq", rdpe_inv_eq)
  UNEQ ("sqr_eq", rdpe_sqr_eq) UNEQ ("sqrt_eq", rdpe_sqrt_eq)
#define BIN(name, fn) else if (IS (name) && n == 4) { rd (x, a); rd (y, a + 2); fn (r, x, y); outr (r); }
#define BINEQ(name, fn) else if (IS (name) && n == 4) { rd (r, a); rd (y, a + 2); fn (r, y); outr (r); }
  BIN ("mul", rdpe_mul) BIN ("div", rdpe_div) BIN ("add", rdpe_add) BIN ("sub", rdpe_sub)
  BINEQ ("mul_eq", rdpe_mul_eq) BINEQ ("div_eq", rdpe_div_eq) BINEQ ("add_eq", rdpe_add_eq) BINEQ ("sub_eq", rdpe_sub_eq)
  else if (IS ("mul_d") && n == 3) { rd (x, a); rdpe_mul_d (r, x, dbl (a[2])); outr (r); }
  else if (IS ("div_d") && n == 3) { rd (x, a); rdpe_div_d (r, x, dbl (a[2])); outr (r); }
  else if (IS ("mul_eq_d") && n == 3) { rd (r, a); rdpe_mul_eq_d (r, dbl (a[2])); outr (r); }
  else if (IS ("div_eq_d") && n == 3) { rd (r, a); rdpe_div_eq_d (r, dbl (a[2])); outr (r); }
  else if (IS ("mul_2exp") && n == 3) { rd (x, a); rdpe_mul_2exp (r, x, strtoul (a[2], NULL, 10)); outr (r); }
  else if (IS ("div_2exp") && n == 3) { rd (x, a); rdpe_div_2exp (r, x, strtoul (a[2], NULL, 10)); outr (r); }
  else if (IS ("mul_eq_2exp") && n == 3) { rd (r, a); rdpe_mul_eq_2exp (r, strtoul (a[2], NULL, 10)); outr (r); }
  else if (IS ("div_eq_2exp") && n == 3) { rd (r, a); rdpe_div_eq_2exp (r, strtoul (a[2], NULL, 10)); outr (r); }
  else if (IS ("pow_si") && n == 3)
    { long i = lng (a[2]); rd (x, a); POW_MIN_GUARD (i); rdpe_pow_si (r, x, i); outr (r); }
  else if (IS ("pow_eq_si") && n == 3)
    { long i = lng (a[2]); rd (r, a); POW_MIN_GUARD (i); rdpe_pow_eq_si (r, i); outr (r); }
#define REL(name, fn) else if (IS (name) && n == 4) { rd (x, a); rd (y, a + 2); printf ("%d\n", fn (x, y)); }
  REL ("cmp", rdpe_cmp) REL ("eq", rdpe_eq) REL ("ne", rdpe_ne)
  REL ("lt", rdpe_lt) REL ("le", rdpe_le) REL ("gt", rdpe_gt) REL ("ge", rdpe_ge)
  else if (IS ("sgn") && n == 2) { rd (x, a); printf ("%d\n", rdpe_sgn (x)); }
  else if (IS ("eq_zero") && n == 2) { rd (x, a); printf ("%d\n", rdpe_eq_zero (x)); }
  else if (IS ("cmod") && n == 4) { cd (c, a); cdpe_mod (r, c); outr (r); }
  else if (IS ("csmod") && n == 4) { cd (c, a); cdpe_smod (r, c); outr (r); }
#define CBIN(name, fn) else if (IS (name) && n == 8) { cd (c, a); cd (c2, a + 4); fn (rc, c, c2); outc (rc); }
  CBIN ("cadd", cdpe_add) CBIN ("csub", cdpe_sub) CBIN ("cmul", cdpe_mul) CBIN ("cdiv", cdpe_div)
  else if (IS ("cmul_eq") && n == 8) { cd (rc, a); cd (c2, a + 4); cdpe_mul_eq (rc, c2); outc (rc); }
  else if (IS ("cinv") && n == 4) { cd (c, a); cdpe_inv (rc, c); outc (rc); }
  else if (IS ("cinv_eq") && n == 4) { cd (rc, a); cdpe_inv_eq (rc); outc (rc); }
  else if (IS ("csqr") && n == 4) { cd (c, a); cdpe_sqr (rc, c); outc (rc); }
  else if (IS ("csqr_eq") && n == 4) { cd (rc, a); cdpe_sqr_eq (rc); outc (rc); }
  else if (IS ("cmul_e") && n == 6) { cd (c, a); rd (x, a + 4); cdpe_mul_e (rc, c, x); outc (rc); }
  else if (IS ("cdiv_e") && n == 6) { cd (c, a); rd (x, a + 4); cdpe_div_e (rc, c, x); outc (rc); }
  else if (IS ("cmul_d") && n == 5) { cd (c, a); cdpe_mul_d (rc, c, dbl (a[4])); outc (rc); }
  else if (IS ("cdiv_d") && n == 5) { cd (c, a); cdpe_div_d (rc, c, dbl (a[4])); outc (rc); }
  else if (IS ("cmul_2exp") && n == 5) { cd (c, a); cdpe_mul_2exp (rc, c, strtoul (a[4], NULL, 10)); outc (rc); }
  else if (IS ("cdiv_2exp") && n == 5) { cd (c, a); cdpe_div_2exp (rc, c, strtoul (a[4], NULL, 10)); outc (rc); }
  else if (IS ("cmul_eq_2exp") && n == 5) { cd (rc, a); cdpe_mul_eq_2exp (rc, strtoul (a[4], NULL, 10)); outc (rc); }
  else if (IS ("cdiv_eq_2exp") && n == 5) { cd (rc, a); cdpe_div_eq_2exp (rc, strtoul (a[4], NULL, 10)); outc (rc); }
  else if (IS ("cpow_si") && n == 5)
    { long i = lng (a[4]); cd (c, a); POW_MIN_GUARD (i); cdpe_pow_si (rc, c, i); outc (rc); }
  else if (IS ("cset_d") && n == 2) { cdpe_set_d (rc, dbl (a[0]), dbl (a[1])); outc (rc); }
  else if (IS ("cget_d") && n == 4)
    { double u, v; cd (c, a); cdpe_get_d (&u, &v, c); printf ("%s %s\n", hx (u), hx (v)); }
  else if (IS ("cget_x") && n == 4)
    { cplx_t z; cd (c, a); cdpe_get_x (z, c); printf ("%s %s\n", hx (cplx_Re (z)), hx (cplx_Im (z))); }
  /* ---- the remaining public functions of mt.h (aliases, accessors, structural operations) ---- */
  else if (IS ("d") && n == 1) { rdpe_d (r, dbl (a[0])); outr (r); }
  else if (IS ("2dl") && n == 2) { rdpe_2dl (r, dbl (a[0]), lng (a[1])); outr (r); }
  else if (IS ("get_2dl") && n == 2) { double m; long l; rd (x, a); rdpe_get_2dl (&m, &l, x); printf ("%s %ld\n", hx (m), l); }
  else if (IS ("set") && n == 2) { rd (x, a); rdpe_set (r, x); outr (r); }
  else if (IS ("clear") && n == 2) { rd (r, a); rdpe_clear (r); outr (r); }
  else if (IS ("swap") && n == 4) { rd (x, a); rd (y, a + 2); rdpe_swap (x, y); printf ("%s %ld %s %ld\n", hx (rdpe_Mnt (x)), rdpe_Esp (x), hx (rdpe_Mnt (y)), rdpe_Esp (y)); }
  else if (IS ("add_d") && n == 3) { rd (x, a); rdpe_add_d (r, x, dbl (a[2])); outr (r); }
  else if (IS ("sub_d") && n == 3) { rd (x, a); rdpe_sub_d (r, x, dbl (a[2])); outr (r); }
  else if (IS ("add_eq_d") && n == 3) { rd (r, a); rdpe_add_eq_d (r, dbl (a[2])); outr (r); }
  else if (IS ("sub_eq_d") && n == 3) { rd (r, a); rdpe_sub_eq_d (r, dbl (a[2])); outr (r); }
  else if (IS ("cd") && n == 2) { cdpe_d (rc, dbl (a[0]), dbl (a[1])); outc (rc); }
  else if (IS ("cx") && n == 2) { cplx_t z; cplx_set_d (z, dbl (a[0]), dbl (a[1])); cdpe_x (rc, z); outc (rc); }
  else if (IS ("cset_x") && n == 2) { cplx_t z; cplx_set_d (z, dbl (a[0]), dbl (a[1])); cdpe_set_x (rc, z); outc (rc); }
  else if (IS ("ce") && n == 4) { rd (x, a); rd (y, a + 2); cdpe_e (rc, x, y); outc (rc); }
  else if (IS ("cset_e") && n == 4) { rd (x, a); rd (y, a + 2); cdpe_set_e (rc, x, y); outc (rc); }
  else if (IS ("cget_e") && n == 4) { cd (c, a); cdpe_get_e (x, y, c); printf ("%s %ld %s %ld\n", hx (rdpe_Mnt (x)), rdpe_Esp (x), hx (rdpe_Mnt (y)), rdpe_Esp (y)); }
  else if (IS ("c2dl") && n == 4) { cdpe_2dl (rc, dbl (a[0]), lng (a[1]), dbl (a[2]), lng (a[3])); outc (rc); }
  else if (IS ("cset_2dl") && n == 4) { cdpe_set_2dl (rc, dbl (a[0]), lng (a[1]), dbl (a[2]), lng (a[3])); outc (rc); }
  else if (IS ("cset") && n == 4) { cd (c, a); cdpe_set (rc, c); outc (rc); }
  else if (IS ("cclear") && n == 4) { cd (rc, a); cdpe_clear (rc); outc (rc); }
  else if (IS ("cswap") && n == 8) { cd (c, a); cd (c2, a + 4); cdpe_swap (c, c2); outc (c); }
#define CUNF(name, fn) else if (IS (name) && n == 4) { cd (c, a); fn (rc, c); outc (rc); }
#define CUNEQ(name, fn) else if (IS (name) && n == 4) { cd (rc, a); fn (rc); outc (rc); }
  CUNF ("cneg", cdpe_neg) CUNF ("ccon", cdpe_con) CUNF ("crot", cdpe_rot) CUNF ("cflip", cdpe_flip)
  CUNEQ ("cneg_eq", cdpe_neg_eq) CUNEQ ("ccon_eq", cdpe_con_eq) CUNEQ ("crot_eq", cdpe_rot_eq) CUNEQ ("cflip_eq", cdpe_flip_eq)
#define CBINEQ(name, fn) else if (IS (name) && n == 8) { cd (rc, a); cd (c2, a + 4); fn (rc, c2); outc (rc); }
  CBINEQ ("cadd_eq", cdpe_add_eq) CBINEQ ("csub_eq", cdpe_sub_eq) CBINEQ ("cdiv_eq", cdpe_div_eq)
  else if (IS ("cmul_eq_e") && n == 6) { cd (rc, a); rd (x, a + 4); cdpe_mul_eq_e (rc, x); outc (rc); }
  else if (IS ("cdiv_eq_e") && n == 6) { cd (rc, a); rd (x, a + 4); cdpe_div_eq_e (rc, x); outc (rc); }
  else if (IS ("cmul_eq_d") && n == 5) { cd (rc, a); cdpe_mul_eq_d (rc, dbl (a[4])); outc (rc); }
  else if (IS ("cdiv_eq_d") && n == 5) { cd (rc, a); cdpe_div_eq_d (rc, dbl (a[4])); outc (rc); }
  else if (IS ("cmul_x") && n == 6) { cplx_t z; cd (c, a); cplx_set_d (z, dbl (a[4]), dbl (a[5])); cdpe_mul_x (rc, c, z); outc (rc); }
  else if (IS ("cmul_eq_x") && n == 6) { cplx_t z; cd (rc, a); cplx_set_d (z, dbl (a[4]), dbl (a[5])); cdpe_mul_eq_x (rc, z); outc (rc); }
  else if (IS ("cpow_eq_si") && n == 5)
    { long i = lng (a[4]); cd (rc, a); POW_MIN_GUARD (i); cdpe_pow_eq_si (rc, i); outc (rc); }
  else if (IS ("ceq_zero") && n == 4) { cd (c, a); printf ("%d\n", cdpe_eq_zero (c)); }
  else if (IS ("ceq") && n == 8) { cd (c, a); cd (c2, a + 4); printf ("%d\n", cdpe_eq (c, c2)); }
  else if (IS ("cne") && n == 8) { cd (c, a); cd (c2, a + 4); printf ("%d\n", cdpe_ne (c, c2)); }
  else printf ("ERR\n");
}

int main (void)
{
  static char line[1024];
  signal (SIGALRM, on_alarm);
  char *tok[16];
  while (fgets (line, sizeof line, stdin))
    {
      int n = 0;
      char *p = strtok (line, " \t\r\n");
      while (p && n < 16) { tok[n++] = p; p = strtok (NULL, " \t\r\n"); }
      if (n == 0) continue;
      if (sigsetjmp (jb, 1) == 0) { alarm (20); run (n, tok); alarm (0); }
      else { alarm (0); printf ("%s\n", ubmsg); }
    }
  return 0;
}
