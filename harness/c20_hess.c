/* C20 harness: run mps_{f,d,m}hessenberg_{,shifted_}determinant on the matrices read
 * from stdin and print inputs-as-seen/results exactly.
 *
 * usage: c20_hess <variants> <pad>
 *   variants : string over f d m  (which implementations to call)
 *   pad      : bytes added to every mps_malloc request (link with -Wl,--wrap=mps_malloc).
 *              pad = 0 is the real behaviour (ASan sees every out-of-bounds access);
 *              pad > 0 lets a run continue past a small overrun so that the VALUE
 *              returned can still be examined (used only after the overrun itself has
 *              been reported).
 *
 * input, one case per line:
 *   <id> <n> <wps> <s_re> <s_im> <h[0]_re> <h[0]_im> ... (n*n entries, row major)
 *   doubles as 16 hex digits of their bit pattern; wps = comma separated precision specs
 *   for the m variant ("-" for none): "<wp>" = matrix, shift and output all at wp bits,
 *   "<wpH>:<wpS>:<wpO>" = matrix entries : shift : output at different precisions (the entries are
 *   doubles, hence exactly representable at every precision).
 *   A number may also be written x[-]<hex integer>@<e> (= +-hex * 2^e, an exact dyadic with more bits than a
 *   double): such a case is run through the m variants only, and the entries as stored in the mpf inputs are
 *   echoed on an `I <id> <spec> ...` line (shift re im, then the entries) so that the caller can verify that the
 *   function received exactly the intended numbers.
 *   shift == 0 exactly  -> the unshifted entry point is called,
 *   otherwise           -> the shifted one.
 *
 * output lines (flushed one by one):
 *   F <id> <re> <im> <exp>                         f variant: (re + i im) * 2^exp
 *   D <id> <re_m> <re_e> <im_m> <im_e>             d variant: mantissas (hex doubles) and exponents
 *   M <id> <spec> <wp_eff> <re_digits> <re_exp> <im_digits> <im_exp> <err_m> <err_e>
 *                                                  m variant: requested precision, mpc_get_prec (output) (what the
 *                                                  function uses for its epsilon), mpf as 0.<hex digits> * 16^exp,
 *                                                  rdpe error bound
 *   E <id>                                         end of case
 */
#include <mps/mps.h>
#include <stdio.h>
#include <stdlib.h>
#include <string.h>
#include <stdint.h>

static size_t vf_pad = 0;
void *__real_mps_malloc (size_t size);
void *
__wrap_mps_malloc (size_t size)
{
  return __real_mps_malloc (size + vf_pad);
}

static double
hex2d (const char *s)
{
  uint64_t u = strtoull (s, NULL, 16);
  double d;
  memcpy (&d, &u, 8);
  return d;
}

static void
d2hex (double d, char *out)
{
  uint64_t u;
  memcpy (&u, &d, 8);
  sprintf (out, "%016llx", (unsigned long long)u);
}

static void
print_mpf (mpf_t x)
{
  mp_exp_t e;
  char *s = mpf_get_str (NULL, &e, 16, 0, x);
  if (s[0] == '\0' || (s[0] == '-' && s[1] == '\0'))
    printf (" 0 0");
  else
    printf (" %s %ld", s, (long)e);
  free (s);
}

/* token = 16 hex digits (bit pattern of a double) or x[-]<hex integer>@<e> meaning +-hex * 2^e */
static int
tok_is_zero (const char *s)
{
  if (s[0] != 'x')
    return hex2d (s) == 0.0;
  s++;
  if (*s == '-')
    s++;
  for (; *s && *s != '@'; s++)
    if (*s != '0')
      return 0;
  return 1;
}

static void
set_mpf_tok (mpf_t x, const char *s)
{
  if (s[0] != 'x')
    {
      mpf_set_d (x, hex2d (s));
      return;
    }
  char buf[512];
  strncpy (buf, s + 1, 511);
  buf[511] = 0;
  char *at = strchr (buf, '@');
  long e = 0;
  if (at)
    {
      *at = 0;
      e = atol (at + 1);
    }
  mpf_set_str (x, buf, 16);
  if (e >= 0)
    mpf_mul_2exp (x, x, (unsigned long)e);
  else
    mpf_div_2exp (x, x, (unsigned long)(-e));
}

int
main (int argc, char **argv)
{
  const char *variants = argc > 1 ? argv[1] : "fdm";
  vf_pad = argc > 2 ? (size_t)atol (argv[2]) : 0;
  size_t cap = 1 << 22;
  char *line = malloc (cap);
  char b1[32], b2[32], b3[32];

  while (fgets (line, cap, stdin))
    {
      char *save = NULL;
      char *tok = strtok_r (line, " \n", &save);
      if (!tok)
        continue;
      char id[64];
      strncpy (id, tok, 63);
      id[63] = 0;
      size_t n = (size_t)atol (strtok_r (NULL, " \n", &save));
      char wps[256];
      strncpy (wps, strtok_r (NULL, " \n", &save), 255);
      wps[255] = 0;
      char *tsre = strtok_r (NULL, " \n", &save);
      char *tsim = strtok_r (NULL, " \n", &save);
      if (!tsre || !tsim)
        return 3;
      int wide = (tsre[0] == 'x' || tsim[0] == 'x');
      char **tre = malloc (sizeof (char *) * n * n);
      char **tim = malloc (sizeof (char *) * n * n);
      double *hre = malloc (sizeof (double) * n * n);
      double *him = malloc (sizeof (double) * n * n);
      size_t k;
      for (k = 0; k < n * n; k++)
        {
          char *a = strtok_r (NULL, " \n", &save);
          char *b = strtok_r (NULL, " \n", &save);
          if (!a || !b)
            {
              fprintf (stderr, "c20_hess: short line for case %s\n", id);
              return 3;
            }
          tre[k] = a;
          tim[k] = b;
          if (a[0] == 'x' || b[0] == 'x')
            wide = 1;
        }
      double sre = 0.0, sim = 0.0;
      if (!wide)
        {
          sre = hex2d (tsre);
          sim = hex2d (tsim);
          for (k = 0; k < n * n; k++)
            {
              hre[k] = hex2d (tre[k]);
              him[k] = hex2d (tim[k]);
            }
        }
      int shifted = wide ? !(tok_is_zero (tsre) && tok_is_zero (tsim)) : !(sre == 0.0 && sim == 0.0);

      if (strchr (variants, 'f') && !wide)
        {
          cplx_t *H = malloc (sizeof (cplx_t) * n * n);
          cplx_t shift, out;
          long int e = 0;
          for (k = 0; k < n * n; k++)
            cplx_set_d (H[k], hre[k], him[k]);
          cplx_set_d (shift, sre, sim);
          cplx_set_d (out, 0.0, 0.0);
          if (shifted)
            mps_fhessenberg_shifted_determinant (NULL, H, shift, n, out, &e);
          else
            mps_fhessenberg_determinant (NULL, H, n, out, &e);
          d2hex (cplx_Re (out), b1);
          d2hex (cplx_Im (out), b2);
          printf ("F %s %s %s %ld\n", id, b1, b2, e);
          fflush (stdout);
          free (H);
        }

      if (strchr (variants, 'd') && !wide)
        {
          cdpe_t *H = malloc (sizeof (cdpe_t) * n * n);
          cdpe_t shift, out;
          for (k = 0; k < n * n; k++)
            cdpe_set_d (H[k], hre[k], him[k]);
          cdpe_set_d (shift, sre, sim);
          cdpe_set_d (out, 0.0, 0.0);
          if (shifted)
            mps_dhessenberg_shifted_determinant (NULL, H, shift, n, out);
          else
            mps_dhessenberg_determinant (NULL, H, n, out);
          d2hex (rdpe_Mnt (cdpe_Re (out)), b1);
          d2hex (rdpe_Mnt (cdpe_Im (out)), b2);
          printf ("D %s %s %ld %s %ld\n", id, b1, rdpe_Esp (cdpe_Re (out)), b2, rdpe_Esp (cdpe_Im (out)));
          fflush (stdout);
          free (H);
        }

      if (strchr (variants, 'm') && strcmp (wps, "-") != 0)
        {
          char *ws = NULL;
          char wcopy[256];
          strcpy (wcopy, wps);
          char *w;
          for (w = strtok_r (wcopy, ",", &ws); w; w = strtok_r (NULL, ",", &ws))
            {
              /* spec: "<wp>" (everything at wp) or "<wpH>:<wpS>:<wpO>" (matrix : shift : output) */
              long wpH, wpS, wpO;
              if (sscanf (w, "%ld:%ld:%ld", &wpH, &wpS, &wpO) != 3)
                wpH = wpS = wpO = atol (w);
              mpc_t *H = malloc (sizeof (mpc_t) * n * n);
              mpc_t shift, out;
              rdpe_t err;
              mpc_vinit2 (H, n * n, wpH);
              mpc_init2 (shift, wpS);
              mpc_init2 (out, wpO);
              for (k = 0; k < n * n; k++)
                {
                  set_mpf_tok (mpc_Re (H[k]), tre[k]);  /* doubles: exact at every precision (>= 53 bits) */
                  set_mpf_tok (mpc_Im (H[k]), tim[k]);  /* wide entries: exact when wpH is large enough; echoed below */
                }
              set_mpf_tok (mpc_Re (shift), tsre);
              set_mpf_tok (mpc_Im (shift), tsim);
              if (wide)
                {
                  /* inputs as seen by the function, for the exactness cross-check of the caller */
                  printf ("I %s %s", id, w);
                  print_mpf (mpc_Re (shift));
                  print_mpf (mpc_Im (shift));
                  for (k = 0; k < n * n; k++)
                    {
                      print_mpf (mpc_Re (H[k]));
                      print_mpf (mpc_Im (H[k]));
                    }
                  printf ("\n");
                }
              rdpe_set (err, rdpe_zero);
              if (shifted)
                mps_mhessenberg_shifted_determinant (NULL, H, shift, n, out, err);
              else
                mps_mhessenberg_determinant (NULL, H, n, out, err);
              printf ("M %s %s %ld", id, w, (long)mpc_get_prec (out));
              print_mpf (mpc_Re (out));
              print_mpf (mpc_Im (out));
              d2hex (rdpe_Mnt (err), b3);
              printf (" %s %ld\n", b3, rdpe_Esp (err));
              fflush (stdout);
              mpc_vclear (H, n * n);
              mpc_clear (shift);
              mpc_clear (out);
              free (H);
            }
        }
      printf ("E %s\n", id);
      fflush (stdout);
      free (hre);
      free (him);
      free (tre);
      free (tim);
    }
  return 0;
}
