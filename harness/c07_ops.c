/* C07 harness: the list operations of src/libmps/common/cluster.c on the real structures, state printed after every
 * operation in the format of ocaml/clops_driver.ml (the model assigns handles with a counter; this program mirrors the
 * counter and keeps pointer <-> handle tables).
 *
 * stdin : <id> <op> <op> ...   (see clops_driver.ml: N IRi IRl RRi RRl IC P X DA DS RA RS)
 * stdout: <id> BEGIN / <id> <index> <op> zn=<clusterization->n> items=<ih>/<detached|->/<cluster->n>/<rh>:<k>,...;...
 *         loose=... popped=... links=<ok|bad> / <id> END
 *   zn and cluster->n are the HAND-MAINTAINED counters of the library; the lists are walked through ->next;
 *   links=bad when a ->prev pointer does not match the walk or a list is longer than the table.
 * Run under ASan/UBSan: a use after free or a NULL dereference inside the library stops the program (exit 97 / 98).
 */
#include <mps/mps.h>
#include <stdio.h>
#include <stdlib.h>
#include <string.h>

#define MAXH 4096
#define NROOTS 16

static mps_root *node_ptr[MAXH];
static mps_cluster_item *item_ptr[MAXH];          /* items in the clusterization */
static mps_cluster_item *pop_ptr[MAXH];           /* popped items */
static mps_cluster *loose_ptr[MAXH];
static int fresh;
static int det_name[MAXH];                       /* handle of the item an item was detached from */
static int links_bad;

static int
node_handle (mps_root *r)
{
  int h;
  for (h = 0; h < MAXH; h++)       /* beyond `fresh` too: names given during a reassemble pass */
    if (node_ptr[h] == r)
      return h;
  return -1;
}

static int
item_handle (mps_cluster_item *it)
{
  int h;
  for (h = 0; h < fresh; h++)
    if (item_ptr[h] == it)
      return h;
  return -1;
}

static void
forget_nodes (mps_cluster *c)
{
  mps_root *r;
  for (r = c->first; r; r = r->next)
    {
      int h = node_handle (r);
      if (h >= 0)
        node_ptr[h] = NULL;
    }
}

static void
print_nodes (mps_cluster *c)
{
  mps_root *r, *prev = NULL;
  int cnt = 0;

  for (r = c->first; r; r = r->next)
    {
      printf (cnt ? ",%d:%ld" : "%d:%ld", node_handle (r), r->k);
      if (r->prev != prev)
        links_bad = 1;
      prev = r;
      if (++cnt > MAXH)
        { links_bad = 1; break; }
    }
}

static void
print_state (mps_context *s)
{
  mps_cluster_item *it, *prev = NULL;
  int cnt = 0, h, first;

  links_bad = 0;
  printf ("zn=%ld items=", s->clusterization->n);
  for (it = s->clusterization->first; it; it = it->next)
    {
      if (cnt)
        putchar (';');
      printf ("%d/", item_handle (it));
      if (it->detached)
        {
          /* the handle recorded at the detach step (the pointer may dangle: it is only compared, never followed) */
          int me = item_handle (it), dh = me >= 0 ? det_name[me] : -1;
          printf ("%d/", dh);
          if (dh >= 0 && item_ptr[dh] && item_ptr[dh] != it->detached)
            links_bad = 1;
        }
      else
        printf ("-/");
      printf ("%ld/", it->cluster->n);
      print_nodes (it->cluster);
      if (it->prev != prev)
        links_bad = 1;
      prev = it;
      if (++cnt > MAXH)
        { links_bad = 1; break; }
    }
  printf (" loose=");
  for (h = 0, first = 1; h < fresh; h++)
    if (loose_ptr[h])
      {
        printf (first ? "%d/%ld/" : ";%d/%ld/", h, loose_ptr[h]->n);
        print_nodes (loose_ptr[h]);
        first = 0;
      }
  printf (" popped=");
  for (h = 0, first = 1; h < fresh; h++)
    if (pop_ptr[h])
      {
        printf (first ? "%d/%ld/" : ";%d/%ld/", h, pop_ptr[h]->cluster->n);
        print_nodes (pop_ptr[h]->cluster);
        first = 0;
      }
  printf (" links=%s\n", links_bad ? "bad" : "ok");
}

static void
do_op (mps_context *s, const char *op)
{
  char name[8];
  int a = -1, b = -1, nf;

  name[0] = 0;
  nf = sscanf (op, "%7[A-Za-z]:%d:%d", name, &a, &b);
  (void)nf;

  if (!strcmp (name, "N"))
    loose_ptr[fresh++] = mps_cluster_empty (s);
  else if (!strcmp (name, "IRi") || !strcmp (name, "IRl"))
    {
      mps_cluster *c = name[2] == 'i' ? item_ptr[a]->cluster : loose_ptr[a];
      node_ptr[fresh++] = mps_cluster_insert_root (s, c, b);
    }
  else if (!strcmp (name, "RRi") || !strcmp (name, "RRl"))
    {
      mps_cluster *c = name[2] == 'i' ? item_ptr[a]->cluster : loose_ptr[a];
      mps_root *r = node_ptr[b];
      node_ptr[b] = NULL;
      mps_cluster_remove_root (s, c, r);
    }
  else if (!strcmp (name, "IC"))
    {
      mps_cluster *c = loose_ptr[a];
      loose_ptr[a] = NULL;
      item_ptr[fresh++] = mps_clusterization_insert_cluster (s, s->clusterization, c);
    }
  else if (!strcmp (name, "P"))
    {
      mps_cluster_item *it = item_ptr[a];
      item_ptr[a] = NULL;
      pop_ptr[a] = it;
      mps_clusterization_pop_cluster (s, s->clusterization, it);
    }
  else if (!strcmp (name, "X"))
    {
      mps_cluster_item *it = item_ptr[a];
      item_ptr[a] = NULL;
      forget_nodes (it->cluster);
      mps_clusterization_remove_cluster (s, s->clusterization, it);
    }
  else if (!strcmp (name, "DA"))
    mps_clusterization_detach_clusters (s, s->clusterization);
  else if (!strcmp (name, "DS"))
    {
      /* the body of the loop of mps_clusterization_detach_clusters (the function returns before reaching it) */
      mps_cluster_item *item = item_ptr[a], *new_item;
      mps_root *root = node_ptr[b];
      long k = root->k;
      mps_cluster *detached_cluster = mps_cluster_with_root (s, k);

      node_ptr[fresh++] = detached_cluster->first;
      node_ptr[b] = NULL;
      mps_cluster_remove_root (s, item->cluster, root);
      new_item = mps_clusterization_insert_cluster (s, s->clusterization, detached_cluster);
      new_item->detached = item;
      det_name[fresh] = a;
      item_ptr[fresh++] = new_item;
    }
  else if (!strcmp (name, "RA"))
    {
      /* the nodes are created inside the library: the j-th detached item met walking the list gets handle fresh + j;
       * a cluster that receives several nodes has them in front, the latest first */
      static mps_cluster *target[MAXH];
      int nv = 0, j;
      mps_cluster_item *it;

      for (it = s->clusterization->first; it; it = it->next)
        if (it->detached)
          {
            /* a target that is itself detached is freed by the call (with the node it received): not named */
            target[nv++] = it->detached->detached ? NULL : it->detached->cluster;
            item_ptr[item_handle (it)] = NULL;
            forget_nodes (it->cluster);
          }
      mps_clusterization_reassemble_clusters (s, s->clusterization);
      for (j = nv - 1; j >= 0; j--)
        if (target[j])
          {
            /* latest insertion into target[j] not yet named = first unnamed node of that cluster */
            mps_root *r = target[j]->first;
            while (r && node_handle (r) >= 0)
              r = r->next;
            if (r)
              node_ptr[fresh + j] = r;
          }
      fresh += nv;
    }
  else if (!strcmp (name, "RS"))
    {
      int saved = s->n, h, i;
      mps_root *r;

      for (h = 0; h < fresh; h++)
        if (item_ptr[h])
          {
            forget_nodes (item_ptr[h]->cluster);
            item_ptr[h] = NULL;
          }
      s->n = a;
      mps_cluster_reset (s);
      s->n = saved;
      for (r = s->clusterization->first->cluster->first, i = 0; r && i < a; r = r->next, i++)
        node_ptr[fresh + r->k] = r;
      item_ptr[fresh + a] = s->clusterization->first;
      fresh += a + 1;
    }
  else
    {
      printf ("BAD-OP %s\n", op);
      exit (3);
    }
}

int
main (void)
{
  static char line[1 << 16];
  mps_context *s = mps_context_new ();
  mps_monomial_poly *p = mps_monomial_poly_new (s, NROOTS);

  mps_monomial_poly_set_coefficient_int (s, p, NROOTS, 1, 0);
  mps_monomial_poly_set_coefficient_int (s, p, 0, -1, 0);
  mps_context_set_input_poly (s, MPS_POLYNOMIAL (p));
  mps_allocate_data (s);

  while (fgets (line, sizeof (line), stdin))
    {
      char *save = NULL, *id = strtok_r (line, " \n", &save), *op;
      int idx = 0, h;

      if (!id)
        continue;
      mps_clusterization_free (s, s->clusterization);
      s->clusterization = mps_clusterization_empty (s);
      memset (node_ptr, 0, sizeof (node_ptr)); memset (item_ptr, 0, sizeof (item_ptr));
      memset (pop_ptr, 0, sizeof (pop_ptr)); memset (loose_ptr, 0, sizeof (loose_ptr));
      fresh = 0;
      printf ("%s BEGIN\n", id);
      while ((op = strtok_r (NULL, " \n", &save)))
        {
          if (fresh > MAXH - 64)
            break;
          do_op (s, op);
          printf ("%s %d %s ", id, idx++, op);
          print_state (s);
          fflush (stdout);
        }
      printf ("%s END\n", id);
      for (h = 0; h < fresh; h++)
        {
          if (loose_ptr[h])
            mps_cluster_free (s, loose_ptr[h]);
          if (pop_ptr[h])
            {
              mps_cluster_free (s, pop_ptr[h]->cluster);
              free (pop_ptr[h]);
            }
        }
    }
  mps_context_free (s);
  return 0;
}
