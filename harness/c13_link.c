/* C13 link harness: runs the link.c conversions (mpf_get_rdpe, mpf_set_rdpe, mpc_get_cdpe, mpc_set_cdpe),
 * the gmptools.c pair mpf_get_2dl / mpf_set_2dl / mpf_size_2 and the GMP primitives they are built from on RAW
 * limb layouts read from stdin, and prints the results in the line format of the extracted model's driver
 * (ocaml/link_driver.ml), so that checks/C13.py can compare them bit for bit.  Nothing is decided here.
 *
 *   F = "prec size exp hexlimbs"  (_mp_prec, _mp_size, _mp_exp, the |size| limbs as one hex integer)
 *   B = 16 hex digits (IEEE double)      L = decimal long
 *   get_rdpe F | get_2dl F | size_2 F | get_d F | get_d_2exp F | get_cdpe F F | rmod F F
 *   set_rdpe prec B L | set_2dl prec B L | set_d prec B | set_cdpe prec B L B L | rdpe_set_d B | rdpe_set_2dl B L
 *   get_cplx F F | set_cplx prec B B
 *   mul_2exp F L | div_2exp F L | roundtrip prec B
 *   ro <get_rdpe|get_2dl|size_2|get_cdpe|rmod|get_d|get_d_2exp> F [F]   the source struct lies in a read-only page:
 *                                                  prints "SEGV" if the call stores into it
 */
#define _GNU_SOURCE
#include <stdio.h>
#include <stdlib.h>
#include <string.h>
#include <stdint.h>
#include <signal.h>
#include <setjmp.h>
#include <sys/mman.h>
#include <unistd.h>
#include <mps/mps.h>

static sigjmp_buf env;
static void on_sig (int s) { siglongjmp (env, s); }

static double dbits (const char *s) { uint64_t u = strtoull (s, 0, 16); double d; memcpy (&d, &u, 8); return d; }
static void putd (double d) { uint64_t u; memcpy (&u, &d, 8); printf ("%016llx", (unsigned long long)u); }

/* raw construction: _mp_prec = prec limbs (prec >= 2), the other fields as given */
static void mk (mpf_ptr f, const char *prec, const char *size, const char *exp, const char *hex)
{
  long p = atol (prec), sz = atol (size); size_t n = labs (sz), cnt = 0, i;
  mpf_init2 (f, 64 * (p - 1));
  if (f->_mp_prec != p) { fprintf (stderr, "cannot get _mp_prec = %ld (got %d)\n", p, f->_mp_prec); exit (3); }
  if ((long)n > p + 1) { fprintf (stderr, "size %ld exceeds the allocation of prec %ld\n", sz, p); exit (3); }
  for (i = 0; i < (size_t)p + 1; i++) f->_mp_d[i] = 0;
  mpz_t z; mpz_init (z); mpz_set_str (z, hex, 16);
  if (mpz_sizeinbase (z, 2) > 64 * n && n > 0) { fprintf (stderr, "limbs do not fit\n"); exit (3); }
  if (n > 0) mpz_export (f->_mp_d, &cnt, -1, sizeof (mp_limb_t), 0, 0, z);
  mpz_clear (z);
  f->_mp_size = (int)sz; f->_mp_exp = atol (exp);
}
static void putf (mpf_srcptr f)
{
  int n = abs (f->_mp_size);
  printf ("%d %ld ", f->_mp_size, (long)f->_mp_exp);
  if (n == 0) { printf ("0"); return; }
  mpz_t z; mpz_init (z); mpz_import (z, n, -1, sizeof (mp_limb_t), 0, 0, f->_mp_d); gmp_printf ("%Zx", z); mpz_clear (z);
}
static void putr (rdpe_t r) { putd (rdpe_Mnt (r)); printf (" %ld", rdpe_Esp (r)); }

/* a copy of the struct (same limb pointer) in a page of its own, then made read-only */
static void *ro_page (const void *src, size_t len)
{
  long ps = sysconf (_SC_PAGESIZE);
  void *p = mmap (0, ps, PROT_READ | PROT_WRITE, MAP_PRIVATE | MAP_ANONYMOUS, -1, 0);
  if (p == MAP_FAILED) { perror ("mmap"); exit (3); }
  memcpy (p, src, len);
  if (mprotect (p, ps, PROT_READ)) { perror ("mprotect"); exit (3); }
  return p;
}

int main (void)
{
  static char line[1 << 16]; static char tok[16][4200];
  struct sigaction sa; memset (&sa, 0, sizeof sa); sa.sa_handler = on_sig; sigemptyset (&sa.sa_mask); sa.sa_flags = SA_NODEFER;
  sigaction (SIGSEGV, &sa, 0); sigaction (SIGFPE, &sa, 0); sigaction (SIGABRT, &sa, 0);
  while (fgets (line, sizeof line, stdin))
    {
      int nt = 0, pos = 0, adv, sg;
      while (nt < 16 && sscanf (line + pos, "%4199s%n", tok[nt], &adv) == 1) { pos += adv; nt++; }
      if (!nt) continue;
      if ((sg = sigsetjmp (env, 1))) { printf ("%s\n", sg == SIGSEGV ? "SEGV" : sg == SIGFPE ? "SIGFPE" : "ABORT"); fflush (stdout); continue; }
      int ro = !strcmp (tok[0], "ro"); char (*t)[4200] = tok + ro; nt -= ro;
      const char *op = t[0];
#define IS(x) (!strcmp (op, x))
      mpf_t f, g; rdpe_t r; cdpe_t cd; double d; long l;
      if (IS ("get_rdpe") || IS ("get_2dl") || IS ("size_2") || IS ("get_d") || IS ("get_d_2exp"))
        {
          mk (f, t[1], t[2], t[3], t[4]);
          __mpf_struct *src = ro ? ro_page (f, sizeof (__mpf_struct)) : f;
          if (IS ("get_rdpe")) { mpf_get_rdpe (r, src); printf ("OK "); putr (r); printf (" | "); putf (src); }
          else if (IS ("get_2dl")) { mpf_get_2dl (&d, &l, src); printf ("OK "); putd (d); printf (" %ld | ", l); putf (src); }
          else if (IS ("size_2")) { l = mpf_size_2 (src); printf ("OK %ld", l); }
          else if (IS ("get_d")) { d = mpf_get_d (src); printf ("OK "); putd (d); }
          else { d = mpf_get_d_2exp (&l, src); printf ("OK "); putd (d); printf (" %ld", l); }
          printf ("\n");
        }
      else if (IS ("get_cdpe") || IS ("rmod"))
        {
          mpc_t c; mk (mpc_Re (c), t[1], t[2], t[3], t[4]); mk (mpc_Im (c), t[5], t[6], t[7], t[8]);
          __mpc_struct *src = ro ? ro_page (c, sizeof (__mpc_struct)) : c;
          if (IS ("get_cdpe")) { mpc_get_cdpe (cd, src); printf ("OK "); putr (cdpe_Re (cd)); printf (" "); putr (cdpe_Im (cd)); }
          else { mpc_rmod (r, src); printf ("OK "); putr (r); }
          printf (" | "); putf (mpc_Re (src)); printf (" | "); putf (mpc_Im (src)); printf ("\n");
        }
      else if (IS ("set_rdpe") || IS ("set_2dl") || IS ("set_d"))
        {
          mk (f, t[1], "1", "7", "deadbeef");        /* previous content of the destination must not matter */
          if (IS ("set_d")) mpf_set_d (f, dbits (t[2]));
          else if (IS ("set_2dl")) mpf_set_2dl (f, dbits (t[2]), atol (t[3]));
          else { rdpe_Mnt (r) = dbits (t[2]); rdpe_Esp (r) = atol (t[3]); mpf_set_rdpe (f, r); }
          printf ("OK "); putf (f); printf ("\n");
        }
      else if (IS ("set_cdpe"))
        {
          mpc_t c; mk (mpc_Re (c), t[1], "1", "7", "deadbeef"); mk (mpc_Im (c), t[1], "-1", "-3", "beef");
          rdpe_Mnt (cdpe_Re (cd)) = dbits (t[2]); rdpe_Esp (cdpe_Re (cd)) = atol (t[3]);
          rdpe_Mnt (cdpe_Im (cd)) = dbits (t[4]); rdpe_Esp (cdpe_Im (cd)) = atol (t[5]);
          mpc_set_cdpe (c, cd);
          printf ("OK "); putf (mpc_Re (c)); printf (" | "); putf (mpc_Im (c)); printf ("\n");
        }
      else if (IS ("get_cplx"))
        {
          mpc_t c; cplx_t x; mk (mpc_Re (c), t[1], t[2], t[3], t[4]); mk (mpc_Im (c), t[5], t[6], t[7], t[8]);
          mpc_get_cplx (x, c); printf ("OK "); putd (cplx_Re (x)); printf (" "); putd (cplx_Im (x)); printf ("\n");
        }
      else if (IS ("set_cplx"))
        {
          mpc_t c; cplx_t x; mk (mpc_Re (c), t[1], "1", "7", "deadbeef"); mk (mpc_Im (c), t[1], "-1", "-3", "beef");
          cplx_set_d (x, dbits (t[2]), dbits (t[3])); mpc_set_cplx (c, x);
          printf ("OK "); putf (mpc_Re (c)); printf (" | "); putf (mpc_Im (c)); printf ("\n");
        }
      else if (IS ("rdpe_set_d")) { rdpe_set_d (r, dbits (t[1])); printf ("OK "); putr (r); printf ("\n"); }
      else if (IS ("rdpe_set_2dl")) { rdpe_set_2dl (r, dbits (t[1]), atol (t[2])); printf ("OK "); putr (r); printf ("\n"); }
      else if (IS ("mul_2exp") || IS ("div_2exp"))
        {
          mk (f, t[1], t[2], t[3], t[4]);
          if (IS ("mul_2exp")) mpf_mul_2exp (f, f, strtoul (t[5], 0, 10)); else mpf_div_2exp (f, f, strtoul (t[5], 0, 10));
          printf ("OK "); putf (f); printf ("\n");
        }
      else if (IS ("roundtrip"))
        {
          rdpe_t r2; mk (g, t[1], "1", "7", "deadbeef");
          rdpe_set_d (r, dbits (t[2])); mpf_set_rdpe (g, r); mpf_get_rdpe (r2, g);
          printf ("OK "); putr (r); printf (" | "); putf (g); printf (" | "); putr (r2); printf ("\n");
        }
      else { fprintf (stderr, "unknown op %s\n", op); exit (3); }
      fflush (stdout);
    }
  return 0;
}
