/* c06_solve.c -- C06, solver discipline: REAL solves of the library under the deterministic scheduler
 * shim, with the four entry points of the pool wrapped at link time
 *   -Wl,--wrap=mps_thread_pool_set_concurrency_limit -Wl,--wrap=mps_thread_pool_free
 *   -Wl,--wrap=mps_thread_pool_assign -Wl,--wrap=mps_thread_pool_wait
 * (calls from every other translation unit of libmps and from this harness go through the wrappers).
 * At each call the wrapper reads the state of the pool the call is about (only the baton holder runs, so
 * the read cannot race) and records, as a user event of the scheduler trace,
 *   c06_setlimit A   A = 2*lowering + quiescent   (lowering: new limit < pool->concurrency_limit)
 *   c06_free     A   A = quiescent
 *   c06_assign   A   A = 1 if the caller is a worker thread of THE SAME pool (nested assign), else 0
 *   c06_wait     0
 * quiescent = (pool->busy_counter == 0 && pool->queue->first == NULL): exactly the guard of the disciplined
 * model (Conc/PoolModel.v: step_d refuses ESetLimit-lowering / EFree unless `quiescent s`).
 * The precondition of C06_pool_no_stuck_state is that the solver lowers the limit / frees a pool only when
 * it is quiescent; a call that does not is reported (vf_fail discipline:...), as is a deadlock, a step
 * limit, a worker thread left unfinished after mps_context_free.
 *
 * Scenarios (--scenario):
 *   j2       mps_thread_pool_set_concurrency_limit (ctx, NULL, 2) before the solve (mpsolve -j2), degree 6
 *   reuse    one context, three solves in a row (degrees 5, 3, 7)
 *   cheb     Chebyshev polynomial (not thread safe: the library lowers the limit to 1), degree 4
 *   small    degree 2 on a pool of MPS_JOBS=4 threads (mps_context_set_degree lowers the limit to the degree)
 *   async    mps_mpsolve_async on a private pool (strict_async), wait on it, free it; degree 4
 *   secular  the secular algorithm (MPS_ALGORITHM_SECULAR_GA) on a monomial polynomial of degree 5
 * One line per run on stdout:
 *   RUN scenario=<s> mode=<m> seed=<n> status=<st> rc=<rc> what=<w> events=<n> setlimit=<n> lowering=<n>
 *       lowering_busy=<n> free=<n> free_busy=<n> assign=<n> nested=<n> wait=<n>
 * usage: c06_solve --scenario S [--random N] [--pct N] [--depth d] [--seed S] [--jobs J] [--max-steps n]
 */
#define _GNU_SOURCE
#include <stdio.h>
#include <stdlib.h>
#include <string.h>
#include <mps/mps.h>
#include <gmp.h>
#include "vf_sched.h"

void __real_mps_thread_pool_set_concurrency_limit (mps_context *s, mps_thread_pool *pool, unsigned int n);
void __real_mps_thread_pool_free (mps_context *s, mps_thread_pool *pool);
void __real_mps_thread_pool_assign (mps_context *s, mps_thread_pool *pool, mps_thread_work work, void *args);
void __real_mps_thread_pool_wait (mps_context *s, mps_thread_pool *pool);

static int quiescent (mps_thread_pool *p) { return p->busy_counter == 0 && p->queue->first == NULL; }

void __wrap_mps_thread_pool_set_concurrency_limit (mps_context *s, mps_thread_pool *pool, unsigned int n)
{
  mps_thread_pool *p = pool ? pool : s->pool;
  unsigned int m = n ? n : (unsigned int) mps_thread_get_core_number (s);
  int lowering = m < p->concurrency_limit, q = quiescent (p);
  vf_event ("c06_setlimit", 2 * lowering + q);
  if (lowering && !q) vf_fail ("discipline:set_concurrency_limit-lowers-on-busy-pool");
  __real_mps_thread_pool_set_concurrency_limit (s, pool, n);
}
void __wrap_mps_thread_pool_free (mps_context *s, mps_thread_pool *pool)
{
  mps_thread_pool *p = pool ? pool : s->pool;
  int q = quiescent (p);
  vf_event ("c06_free", q);
  if (!q) vf_fail ("discipline:pool-freed-while-busy");
  __real_mps_thread_pool_free (s, pool);
}
void __wrap_mps_thread_pool_assign (mps_context *s, mps_thread_pool *pool, mps_thread_work work, void *args)
{
  mps_thread_pool *p = pool ? pool : s->pool;
  int nested = mps_thread_get_id (s, p) >= 0;
  vf_event ("c06_assign", nested);
  __real_mps_thread_pool_assign (s, pool, work, args);
}
void __wrap_mps_thread_pool_wait (mps_context *s, mps_thread_pool *pool)
{
  vf_event ("c06_wait", 0);
  __real_mps_thread_pool_wait (s, pool);
}

static const char *scen = "j2";

static mps_monomial_poly *mono (mps_context *ctx, int n, int seed)
{
  mps_monomial_poly *p = mps_monomial_poly_new (ctx, n); int i;
  for (i = 0; i <= n; i++) mps_monomial_poly_set_coefficient_int (ctx, p, i, (i == n) ? 1 : ((i * 7 + seed * 3) % 11) - 5, (i == 0) ? 1 : 0);
  mps_monomial_poly_set_coefficient_int (ctx, p, 0, -(1 + seed), 1);
  return p;
}
static int solve_once (mps_context *ctx, int n, int seed)
{
  mps_monomial_poly *p = mono (ctx, n, seed); cplx_t *roots = NULL; double *rad = NULL; int ok;
  mps_context_set_input_poly (ctx, MPS_POLYNOMIAL (p));
  mps_context_set_output_goal (ctx, MPS_OUTPUT_GOAL_APPROXIMATE);
  mps_mpsolve (ctx);
  ok = !mps_context_has_errors (ctx);
  mps_context_get_roots_d (ctx, &roots, &rad);
  free (roots); free (rad);
  mps_polynomial_free (ctx, MPS_POLYNOMIAL (p));
  return ok ? 0 : 3;
}
static void *async_cb (mps_context *s, void *user) { (void) s; *(int *) user += 1; return NULL; }

static int scenario (void *unused)
{
  mps_context *ctx = mps_context_new (); int rc = 0;
  (void) unused;
  if (!strcmp (scen, "j2")) {
    mps_thread_pool_set_concurrency_limit (ctx, NULL, 2);
    rc = solve_once (ctx, 6, 1);
  } else if (!strcmp (scen, "reuse")) {
    rc = solve_once (ctx, 5, 1); if (!rc) rc = solve_once (ctx, 3, 2); if (!rc) rc = solve_once (ctx, 7, 3);
  } else if (!strcmp (scen, "small")) {
    rc = solve_once (ctx, 2, 1);
  } else if (!strcmp (scen, "secular")) {
    mps_context_select_algorithm (ctx, MPS_ALGORITHM_SECULAR_GA);
    rc = solve_once (ctx, 5, 2);
  } else if (!strcmp (scen, "cheb")) {
    mps_chebyshev_poly *cp = mps_chebyshev_poly_new (ctx, 4, MPS_STRUCTURE_REAL_RATIONAL); mpq_t one, zero; int i;
    mpq_init (one); mpq_init (zero); mpq_set_ui (one, 1U, 1U); mpq_set_ui (zero, 0U, 1U);
    mps_chebyshev_poly_set_coefficient_q (ctx, cp, 4, one, zero);
    for (i = 0; i < 4; i++) mps_chebyshev_poly_set_coefficient_q (ctx, cp, i, (i == 1) ? one : zero, zero);
    mps_context_set_input_poly (ctx, MPS_POLYNOMIAL (cp));
    mps_context_select_algorithm (ctx, MPS_ALGORITHM_SECULAR_GA);
    mps_mpsolve (ctx);
    rc = mps_context_has_errors (ctx) ? 3 : 0;
    mps_polynomial_free (ctx, MPS_POLYNOMIAL (cp)); mpq_clear (one); mpq_clear (zero);
  } else if (!strcmp (scen, "async")) {
    mps_monomial_poly *p = mono (ctx, 4, 1); int called = 0;
    mps_context_set_input_poly (ctx, MPS_POLYNOMIAL (p));
    mps_context_set_output_goal (ctx, MPS_OUTPUT_GOAL_APPROXIMATE);
    mps_mpsolve_async (ctx, async_cb, &called);
    mps_thread_pool_wait (ctx, ctx->self_thread_pool);
    if (called != 1) vf_fail ("async:callback-not-run-exactly-once-at-wait-return");
    mps_thread_pool_free (ctx, ctx->self_thread_pool); ctx->self_thread_pool = NULL;
    rc = mps_context_has_errors (ctx) ? 3 : 0;
    mps_polynomial_free (ctx, MPS_POLYNOMIAL (p));
  } else { fprintf (stderr, "unknown scenario %s\n", scen); exit (2); }
  mps_context_free (ctx);
  if (vf_sched_unfinished () != 0) vf_fail ("worker-thread-not-joined-after-context-free");
  return rc;
}

static const char *cur_mode = "?"; static unsigned long cur_seed = 0;
static long count_ev (const vf_run *r, const char *tag, int want_bit, int bit_val)
{
  /* count trace lines "<tid> ev <tag> <A>" with (A >> want_bit) & 1 == bit_val (want_bit < 0: all) */
  long n = 0; const char *p = r->trace, *end = r->trace + r->trace_len; size_t tl = strlen (tag);
  while (p < end) {
    const char *nl = memchr (p, '\n', (size_t) (end - p)); const char *e = nl ? nl : end; const char *q = memchr (p, ' ', (size_t) (e - p));
    if (q && e - q > (long) (4 + tl) && !strncmp (q, " ev ", 4) && !strncmp (q + 4, tag, tl) && q[4 + tl] == ' ') {
      int a = atoi (q + 5 + tl);
      if (want_bit < 0 || ((a >> want_bit) & 1) == bit_val) n++;
    }
    p = e + 1;
  }
  return n;
}
static long count_lines (const vf_run *r) { long n = 0; long i; for (i = 0; i < (long) r->trace_len; i++) if (r->trace[i] == '\n') n++; return n; }
typedef struct { long runs, bad; } acc;
static int on_run (const vf_run *r, void *user)
{
  acc *a = (acc *) user; long sl = count_ev (r, "c06_setlimit", -1, 0), low = count_ev (r, "c06_setlimit", 1, 1), fr = count_ev (r, "c06_free", -1, 0);
  long lowq = 0, frq = count_ev (r, "c06_free", 0, 1);
  { /* lowering AND quiescent: A == 3 */
    const char *p = r->trace, *end = r->trace + r->trace_len;
    while (p < end) { const char *nl = memchr (p, '\n', (size_t) (end - p)); const char *e = nl ? nl : end;
      const char *q = memmem (p, (size_t) (e - p), " ev c06_setlimit 3", 18); if (q) lowq++; p = e + 1; }
  }
  a->runs++; if (r->status != 0 || r->rc != 0) a->bad++;
  printf ("RUN scenario=%s mode=%s seed=%lu status=%d rc=%d what=%s events=%ld setlimit=%ld lowering=%ld lowering_busy=%ld free=%ld free_busy=%ld assign=%ld nested=%ld wait=%ld\n",
          scen, cur_mode, cur_seed, r->status, r->rc, (r->what && r->what[0]) ? r->what : "-", count_lines (r), sl, low, low - lowq, fr, fr - frq,
          count_ev (r, "c06_assign", -1, 0), count_ev (r, "c06_assign", 0, 1), count_ev (r, "c06_wait", -1, 0));
  if (r->status != 0 || r->rc != 0) {
    int i; printf ("SCHED ");
    for (i = 0; i < r->n_schedule && i < 4000; i++) printf ("%s%d", i ? "," : "", r->schedule[i]);
    printf ("\n");
  }
  fflush (stdout);
  return 0;
}

int main (int argc, char **argv)
{
  int i, depth = 3, timeout_s = 120; long nrandom = 0, npct = 0, max_steps = 400000, k; unsigned long seed = 1; const char *jobs = "4";
  acc a = { 0, 0 }; vf_opts so;
  for (i = 1; i < argc; i++) {
    if (!strcmp (argv[i], "--scenario") && i + 1 < argc) scen = argv[++i];
    else if (!strcmp (argv[i], "--random") && i + 1 < argc) nrandom = atol (argv[++i]);
    else if (!strcmp (argv[i], "--pct") && i + 1 < argc) npct = atol (argv[++i]);
    else if (!strcmp (argv[i], "--depth") && i + 1 < argc) depth = atoi (argv[++i]);
    else if (!strcmp (argv[i], "--seed") && i + 1 < argc) seed = strtoul (argv[++i], NULL, 10);
    else if (!strcmp (argv[i], "--jobs") && i + 1 < argc) jobs = argv[++i];
    else if (!strcmp (argv[i], "--max-steps") && i + 1 < argc) max_steps = atol (argv[++i]);
    else if (!strcmp (argv[i], "--timeout") && i + 1 < argc) timeout_s = atoi (argv[++i]);
    else { fprintf (stderr, "bad argument %s\n", argv[i]); return 2; }
  }
  setenv ("MPS_JOBS", jobs, 1);
  vf_opts_default (&so); so.max_steps = max_steps; so.pct_depth = depth; so.pct_steps = 3000;
  cur_mode = "default"; cur_seed = 0;
  vf_run_once (scenario, NULL, VF_REPLAY, 1, &so, NULL, 0, timeout_s, on_run, &a);
  cur_mode = "random";
  for (k = 0; k < nrandom; k++) { cur_seed = seed * 1000003UL + (unsigned long) k; vf_run_once (scenario, NULL, VF_RANDOM, cur_seed, &so, NULL, 0, timeout_s, on_run, &a); }
  cur_mode = "pct";
  for (k = 0; k < npct; k++) { cur_seed = seed * 7000003UL + (unsigned long) k; vf_run_once (scenario, NULL, VF_PCT, cur_seed, &so, NULL, 0, timeout_s, on_run, &a); }
  fprintf (stderr, "c06_solve: scenario=%s runs=%ld bad=%ld\n", scen, a.runs, a.bad);
  return 0;
}
