/* c18_sites.c -- C18: drives mps_error call sites through the API and exports the retrievable message.
 * One case per process:   c18_sites <scenario> [hex-encoded arguments...]
 *   str HEX                       mps_parse_string (text)
 *   file HEX                      mps_parse_file (path)
 *   inline HEX                    mps_parse_inline_poly_from_string (text)
 *   negdeg                        mps_context_set_input_poly with degree < 0
 *   getq                          mps_monomial_poly_get_coefficient_q on a floating point polynomial
 *   mpoly K                       matrix polynomial: 0 set_coefficient_d out of bounds, 1 _d on a rational one,
 *                                 2 set_coefficient_q out of bounds, 3 _q on a floating point one
 *   copyroots                     mps_copy_roots on a context that has not solved anything
 *   solve HEX ALGO MAXPACK RESUME PROPS    parse, set, select algorithm (u|s), max_pack (< 0: keep), resume flag,
 *                                 root properties (0 none, 1 real); mps_mpsolve
 *   filestart HEX HEX2            solve text HEX (secular algorithm) with the starting approximations read from a stream holding HEX2
 * stdout:  flag=<0|1> len=<n> msg=<hex bytes of mps_context_error_msg | NULL>
 */
#include <mps/mps.h>
#include <stdio.h>
#include <stdlib.h>
#include <string.h>

static char *unhex (const char *h)
{
  size_t n = strlen (h) / 2, i; char *s = (char *) malloc (n + 1);
  for (i = 0; i < n; i++) { unsigned v; sscanf (h + 2 * i, "%2x", &v); s[i] = (char) v; }
  s[n] = 0; return s;
}

int main (int argc, char **argv)
{
  mps_context *ctx = mps_context_new ();
  mps_polynomial *p = NULL;
  const char *sc = argc > 1 ? argv[1] : "";
  char *a1 = argc > 2 ? unhex (argv[2]) : NULL;
  char *msg;
  if (!strcmp (sc, "str")) p = mps_parse_string (ctx, a1);
  else if (!strcmp (sc, "file")) p = mps_parse_file (ctx, a1);
  else if (!strcmp (sc, "inline")) p = mps_parse_inline_poly_from_string (ctx, a1);
  else if (!strcmp (sc, "negdeg"))
    {
      mps_monomial_poly *mp = mps_monomial_poly_new (ctx, 1);
      MPS_POLYNOMIAL (mp)->degree = -1;
      mps_context_set_input_poly (ctx, MPS_POLYNOMIAL (mp));
      MPS_POLYNOMIAL (mp)->degree = 1;
      p = MPS_POLYNOMIAL (mp);
    }
  else if (!strcmp (sc, "getq"))
    {
      mps_monomial_poly *mp = mps_monomial_poly_new (ctx, 2); mpq_t r, i;
      mps_monomial_poly_set_coefficient_d (ctx, mp, 0, 1.5, 0.0);
      mps_monomial_poly_set_coefficient_d (ctx, mp, 2, 1.0, 0.0);
      mpq_init (r); mpq_init (i);
      mps_monomial_poly_get_coefficient_q (ctx, mp, 0, r, i);
      mpq_clear (r); mpq_clear (i);
      p = MPS_POLYNOMIAL (mp);
    }
  else if (!strcmp (sc, "mpoly"))
    {
      int k = atoi (argv[2]), j;
      mps_monomial_matrix_poly *mp = mps_monomial_matrix_poly_new (ctx, 2, 2, false);
      cplx_t md[4]; mpq_t mr[4], mi[4];
      for (j = 0; j < 4; j++) { cplx_set_d (md[j], 1.0 + j, 0.0); mpq_init (mr[j]); mpq_init (mi[j]); mpq_set_si (mr[j], j + 1, 1); }
      if (k == 0) mps_monomial_matrix_poly_set_coefficient_d (ctx, mp, 3, md);
      if (k == 1) { mps_monomial_matrix_poly_set_coefficient_q (ctx, mp, 0, mr, mi); mps_monomial_matrix_poly_set_coefficient_d (ctx, mp, 1, md); }
      if (k == 2) mps_monomial_matrix_poly_set_coefficient_q (ctx, mp, -1, mr, mi);
      if (k == 3) { mps_monomial_matrix_poly_set_coefficient_d (ctx, mp, 0, md); mps_monomial_matrix_poly_set_coefficient_q (ctx, mp, 1, mr, mi); }
      for (j = 0; j < 4; j++) { mpq_clear (mr[j]); mpq_clear (mi[j]); }
      p = MPS_POLYNOMIAL (mp);
    }
  else if (!strcmp (sc, "copyroots")) mps_copy_roots (ctx);
  else if (!strcmp (sc, "solve") || !strcmp (sc, "filestart"))
    {
      p = mps_parse_string (ctx, a1);
      if (p && !mps_context_has_errors (ctx))
        {
          mps_context_set_input_poly (ctx, p);
          if (!strcmp (sc, "solve"))
            {
              mps_context_select_algorithm (ctx, argv[3][0] == 'u' ? MPS_ALGORITHM_STANDARD_MPSOLVE : MPS_ALGORITHM_SECULAR_GA);
              if (atoi (argv[4]) >= 0) ctx->max_pack = atoi (argv[4]);
              ctx->resume = atoi (argv[5]) != 0;
              if (atoi (argv[6]) == 1) ctx->output_config->root_properties = MPS_OUTPUT_PROPERTY_REAL;
            }
          else
            {
              char *txt = unhex (argv[3]);
              mps_context_select_algorithm (ctx, MPS_ALGORITHM_SECULAR_GA);
              mps_context_select_starting_strategy (ctx, MPS_STARTING_STRATEGY_FILE);
              ctx->rtstr = fmemopen (txt, strlen (txt), "r");
            }
          mps_mpsolve (ctx);
        }
    }
  else { fprintf (stderr, "c18_sites: unknown scenario %s\n", sc); return 2; }
  msg = mps_context_error_msg (ctx);
  printf ("flag=%d len=%zu msg=", (int) mps_context_has_errors (ctx), msg ? strlen (msg) : 0);
  if (msg) { size_t i; for (i = 0; msg[i]; i++) printf ("%02x", (unsigned char) msg[i]); }
  else printf ("NULL");
  printf ("\n");
  fflush (stdout);
  return 0;
}
