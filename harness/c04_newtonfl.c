/* C04 harness (bit-for-bit tie of coq/Radius/NewtonCoded.v): call mps_polynomial_{f,d,m}newton on a monomial
 * polynomial and export, for every call, the arrays the primitive really reads (fpc/fap, dpc/dap, mfpc/dap),
 * the point, the radius at entry, every output, and the calls of cplx_mod / cdpe_mod / mpc_get_cdpe made INSIDE
 * the primitive (link with -Wl,--wrap=cplx_mod,--wrap=cdpe_mod,--wrap=mpc_get_cdpe; the wrappers call the real
 * function and only record): their arguments are the locals p and p1 of the primitive.
 *
 * stdin (tokens separated by blanks; rationals "NUM/DEN" or "NUM" in base 16):
 *   P M n r0 i0 ... rn in        new context + monomial polynomial -> "P degree density n"
 *   XF xr xi                     -> "XF n  fpc[0..n] (re im)  fap[0..n]  zre zim  again corr_re corr_im rad  k (are aim res){k}"
 *   XD mr er mi ei r0m r0e       point (mr 2^er, mi 2^ei), entry radius r0m 2^r0e ("max 0" = RDPE_MAX)
 *                                -> "XD n  dpc[0..n] (cdpe)  dap[0..n] (rdpe)  z (cdpe)  r0 (rdpe)  again corr (cdpe) rad (rdpe)  k (arg cdpe, res rdpe){k}"
 *   XM prec xr xi r0m r0e        -> "XM n wp  mfpc[0..n] (mpf mpf)  dap[0..n]  z (mpf mpf)  r0  again rad  g (in_re in_im mpf, out cdpe){g}  k (arg cdpe, res rdpe){k}"
 *   doubles: 16 hex digits; rdpe: "H E"; cdpe: "H E H E"; mpf: "HEX:exp16@prec" (value 0.HEX * 16^exp16). */
#include <mps/mps.h>
#include <stdio.h>
#include <stdlib.h>
#include <string.h>
#include <stdint.h>
#include <float.h>
#include <math.h>

static char *line = NULL; static size_t cap = 0;
static char *tokp;
static char *tok (void) { char *t = strtok_r (NULL, " \t\r\n", &tokp); if (!t) { fprintf (stderr, "c04_newtonfl: missing token\n"); exit (3); } return t; }
static void setq (mpq_t q, const char *t) { if (mpq_set_str (q, t, 16) != 0) { fprintf (stderr, "c04_newtonfl: bad rational %s\n", t); exit (3); } mpq_canonicalize (q); }
static void tokq (mpq_t q) { setq (q, tok ()); }

static void out_d (double d) { uint64_t u; memcpy (&u, &d, 8); printf (" %016lx", (unsigned long)u); }
static void out_rdpe (const rdpe_t e) { out_d (rdpe_Mnt (e)); printf (" %ld", rdpe_Esp (e)); }
static void out_cdpe (const cdpe_t c) { out_rdpe (cdpe_Re (c)); out_rdpe (cdpe_Im (c)); }
/* exact export of an mpf: the limbs in use, most significant first, as hexadecimal digits; value = 0.DIGITS * 16^exp16
 * (mpf_get_str caps the number of digits by the precision and ROUNDS, an mpf may hold one limb more than that) */
static char *mpf_str (mpf_t x)
{
  long size = x->_mp_size < 0 ? -(long)x->_mp_size : (long)x->_mp_size, i;
  char *o = (char *)malloc (16 * (size_t)size + 80), *q = o;
  if (size == 0) { sprintf (o, "0:0@%lu", (unsigned long)mpf_get_prec (x)); return o; }
  if (x->_mp_size < 0) *q++ = '-';
  for (i = size - 1; i >= 0; i--) { sprintf (q, "%016lx", (unsigned long)x->_mp_d[i]); q += 16; }
  sprintf (q, ":%ld@%lu", 16L * (long)x->_mp_exp, (unsigned long)mpf_get_prec (x));
  return o;
}
static void out_mpf (mpf_t x) { char *s = mpf_str (x); printf (" %s", s); free (s); }

/* ---- recording wrappers ---- */
#define MAXREC 64
static int recording = 0;
static int nfm = 0; static double fm_arg[MAXREC][2], fm_res[MAXREC];
static int ndm = 0; static cdpe_t dm_arg[MAXREC]; static rdpe_t dm_res[MAXREC];
static int ngc = 0; static char *gc_in[MAXREC]; static cdpe_t gc_out[MAXREC];

double __real_cplx_mod (const cplx_t x);
double __wrap_cplx_mod (const cplx_t x)
{
  double r = __real_cplx_mod (x);
  if (recording && nfm < MAXREC) { fm_arg[nfm][0] = cplx_Re (x); fm_arg[nfm][1] = cplx_Im (x); fm_res[nfm] = r; nfm++; }
  return r;
}
void __real_cdpe_mod (rdpe_t e, const cdpe_t c);
void __wrap_cdpe_mod (rdpe_t e, const cdpe_t c)
{
  cdpe_t keep; cdpe_set (keep, c);
  __real_cdpe_mod (e, c);
  if (recording && ndm < MAXREC) { cdpe_set (dm_arg[ndm], keep); rdpe_set (dm_res[ndm], e); ndm++; }
}
void __real_mpc_get_cdpe (cdpe_t c, mpc_t mc);
void __wrap_mpc_get_cdpe (cdpe_t c, mpc_t mc)
{
  char *a = NULL, *b = NULL;
  if (recording && ngc < MAXREC) { a = mpf_str (mpc_Re (mc)); b = mpf_str (mpc_Im (mc)); }
  __real_mpc_get_cdpe (c, mc);
  if (a) { gc_in[ngc] = (char *)malloc (strlen (a) + strlen (b) + 2); sprintf (gc_in[ngc], "%s %s", a, b); free (a); free (b); cdpe_set (gc_out[ngc], c); ngc++; }
}
static void rec_start (void) { int i; for (i = 0; i < ngc; i++) free (gc_in[i]); nfm = ndm = ngc = 0; recording = 1; }
static void rec_stop (void) { recording = 0; }

static mps_context *ctx = NULL;
static mps_polynomial *poly = NULL;

static void set_r0 (mps_approximation *r)
{
  char *m = tok (); long e = atol (tok ());
  if (!strcmp (m, "max")) rdpe_set (r->drad, RDPE_MAX);
  else { mpq_t q; mpq_init (q); setq (q, m); rdpe_set_2dl (r->drad, mpq_get_d (q), e); mpq_clear (q); }
}

int main (void)
{
  mpq_t qr, qi; int i;
  mpq_init (qr); mpq_init (qi);
  while (getline (&line, &cap, stdin) > 0)
    {
      char *c = strtok_r (line, " \t\r\n", &tokp);
      if (!c) continue;
      if (!strcmp (c, "P"))
        {
          char kind = tok ()[0]; int n = atoi (tok ());
          mps_monomial_poly *p;
          if (kind != 'M') { fprintf (stderr, "c04_newtonfl: monomial polynomials only\n"); return 3; }
          if (ctx) { if (poly) mps_polynomial_free (ctx, poly); mps_context_free (ctx); ctx = NULL; poly = NULL; }
          ctx = mps_context_new ();
          p = mps_monomial_poly_new (ctx, n);
          for (i = 0; i <= n; i++) { tokq (qr); tokq (qi); mps_monomial_poly_set_coefficient_q (ctx, p, i, qr, qi); }
          poly = MPS_POLYNOMIAL (p);
          mps_context_set_input_poly (ctx, poly);
          mps_allocate_data (ctx);
          printf ("P %d %d %d\n", (int)poly->degree, (int)poly->density, ctx->n);
        }
      else if (!poly) { fprintf (stderr, "c04_newtonfl: no polynomial\n"); return 3; }
      else if (!strcmp (c, "XF"))
        {
          mps_monomial_poly *mp = MPS_MONOMIAL_POLY (poly); int n = poly->degree;
          mps_approximation *r; cplx_t corr;
          tokq (qr); tokq (qi);
          r = mps_approximation_new (ctx);
          cplx_set_d (r->fvalue, mpq_get_d (qr), mpq_get_d (qi));
          r->frad = DBL_MAX; rdpe_set (r->drad, RDPE_MAX); r->again = true; r->status = MPS_ROOT_STATUS_CLUSTERED;
          cplx_set (corr, cplx_zero);
          printf ("XF %d", n);
          for (i = 0; i <= n; i++) { out_d (cplx_Re (mp->fpc[i])); out_d (cplx_Im (mp->fpc[i])); }
          for (i = 0; i <= n; i++) out_d (mp->fap[i]);
          out_d (cplx_Re (r->fvalue)); out_d (cplx_Im (r->fvalue));
          rec_start ();
          mps_polynomial_fnewton (ctx, poly, r, corr);
          rec_stop ();
          printf (" %d", r->again ? 1 : 0);
          out_d (cplx_Re (corr)); out_d (cplx_Im (corr)); out_d (r->frad);
          printf (" %d", nfm);
          for (i = 0; i < nfm; i++) { out_d (fm_arg[i][0]); out_d (fm_arg[i][1]); out_d (fm_res[i]); }
          printf ("\n");
          mps_approximation_free (ctx, r);
        }
      else if (!strcmp (c, "XD"))
        {
          mps_monomial_poly *mp = MPS_MONOMIAL_POLY (poly); int n = poly->degree;
          mps_approximation *r; cdpe_t corr; long er, ei;
          tokq (qr); er = atol (tok ()); tokq (qi); ei = atol (tok ());
          r = mps_approximation_new (ctx);
          cdpe_set_2dl (r->dvalue, mpq_get_d (qr), er, mpq_get_d (qi), ei);
          r->frad = DBL_MAX; r->again = true; r->status = MPS_ROOT_STATUS_CLUSTERED;
          set_r0 (r);
          cdpe_set (corr, cdpe_zero);
          printf ("XD %d", n);
          for (i = 0; i <= n; i++) out_cdpe (mp->dpc[i]);
          for (i = 0; i <= n; i++) out_rdpe (mp->dap[i]);
          out_cdpe (r->dvalue); out_rdpe (r->drad);
          rec_start ();
          mps_polynomial_dnewton (ctx, poly, r, corr);
          rec_stop ();
          printf (" %d", r->again ? 1 : 0);
          out_cdpe (corr); out_rdpe (r->drad);
          printf (" %d", ndm);
          for (i = 0; i < ndm; i++) { out_cdpe (dm_arg[i]); out_rdpe (dm_res[i]); }
          printf ("\n");
          mps_approximation_free (ctx, r);
        }
      else if (!strcmp (c, "XM"))
        {
          mps_monomial_poly *mp = MPS_MONOMIAL_POLY (poly); int n = poly->degree;
          mps_approximation *r; mpc_t corr; long prec = atol (tok ());
          tokq (qr); tokq (qi);
          mps_mp_set_prec (ctx, prec);
          mps_prepare_data (ctx, ctx->mpwp);
          r = mps_approximation_new (ctx);
          mpc_set_prec (r->mvalue, ctx->mpwp);
          mpc_set_q (r->mvalue, qr, qi);
          r->wp = ctx->mpwp;
          r->frad = DBL_MAX; r->again = true; r->status = MPS_ROOT_STATUS_CLUSTERED;
          set_r0 (r);
          mpc_init2 (corr, ctx->mpwp); mpc_set_ui (corr, 0U, 0U);
          printf ("XM %d %ld", n, (long)ctx->mpwp);
          for (i = 0; i <= n; i++) { out_mpf (mpc_Re (mp->mfpc[i])); out_mpf (mpc_Im (mp->mfpc[i])); }
          for (i = 0; i <= n; i++) out_rdpe (mp->dap[i]);
          out_mpf (mpc_Re (r->mvalue)); out_mpf (mpc_Im (r->mvalue)); out_rdpe (r->drad);
          rec_start ();
          mps_polynomial_mnewton (ctx, poly, r, corr, ctx->mpwp);
          rec_stop ();
          printf (" %d", r->again ? 1 : 0);
          out_rdpe (r->drad);
          printf (" %d", ngc);
          for (i = 0; i < ngc; i++) { printf (" %s", gc_in[i]); out_cdpe (gc_out[i]); }
          printf (" %d", ndm);
          for (i = 0; i < ndm; i++) { out_cdpe (dm_arg[i]); out_rdpe (dm_res[i]); }
          printf ("\n");
          mpc_clear (corr);
          mps_approximation_free (ctx, r);
        }
      else { fprintf (stderr, "c04_newtonfl: unknown command %s\n", c); return 3; }
      fflush (stdout);
    }
  if (ctx) { if (poly) mps_polynomial_free (ctx, poly); mps_context_free (ctx); }
  mpq_clear (qr); mpq_clear (qi);
  free (line);
  return 0;
}
