/* C04 harness: call the radius primitives of libmps directly and export what they produce EXACTLY.
 *
 * stdin protocol (one command per line, tokens separated by blanks; rationals "NUM/DEN" or "NUM" in base 16):
 *   P M n  r0 i0 ... rn in        new context + monomial polynomial (degree 0 first), installed as input polynomial
 *   P C n  r0 i0 ... rn in        Chebyshev-basis polynomial
 *   P S n  ar0 ai0 br0 bi0 ...    secular equation sum a_i/(x-b_i) - 1
 *        -> "P type degree density n zero_roots"
 *   NF xr xi                      mps_polynomial_fnewton at the double point x (rationals that ARE doubles)
 *        -> "NF again status corr_re corr_im rad"                  (16 hex digit IEEE patterns)
 *   ND mr er mi ei                mps_polynomial_dnewton at x = mr*2^er + i mi*2^ei
 *        -> "ND again corr_re corr_im rad"                          (mantissa-bits:exp)
 *   NM prec xr xi                 mps_mp_set_prec + mps_prepare_data, then mps_polynomial_mnewton
 *        -> "NM wp again x_re x_im corr_re corr_im rad"             (mpf: HEX:exp16@prec ; rad mantissa-bits:exp)
 *   RF x0r x0i ... (n points)     mps_fradii   -> "RF rad0 st0 rad1 st1 ..."
 *   RD m e m e ... (n points)     mps_dradii   -> "RD rad0 ..."
 *   RM prec x0r x0i ...           mps_mradii   -> "RM wp rad0 ..."   (entries never written: "unset")
 *   SR phase prec                 secular only: approximations := b_i, radii := max, lastphase := phase (d|m),
 *                                 mps_secular_set_radii  -> "SR wp re0 im0 rad0 ..."  (root[i]->mvalue, root[i]->drad afterwards)
 *   "<cmd> NOIMPL" when the polynomial type has no such primitive.
 * Before every Newton call the radius of the approximation is the largest representable value (the primitives
 * only ever lower it or overwrite it): "max" is printed when it is still that value afterwards (= no claim).
 */
#include <mps/mps.h>
#include <stdio.h>
#include <stdlib.h>
#include <string.h>
#include <stdint.h>
#include <float.h>
#include <math.h>

static char *line = NULL; static size_t cap = 0;
static char *tokp;
static char *tok (void) { char *t = strtok_r (NULL, " \t\r\n", &tokp); if (!t) { fprintf (stderr, "c04_radius: missing token\n"); exit (3); } return t; }
static char *tok_opt (void) { return strtok_r (NULL, " \t\r\n", &tokp); }
static void setq (mpq_t q, const char *t) { if (mpq_set_str (q, t, 16) != 0) { fprintf (stderr, "c04_radius: bad rational %s\n", t); exit (3); } mpq_canonicalize (q); }
static void tokq (mpq_t q) { setq (q, tok ()); }

static void out_d (double d) { uint64_t u; memcpy (&u, &d, 8); printf (" %016lx", (unsigned long)u); }
static void out_rdpe (const rdpe_t e) { uint64_t u; double d = rdpe_Mnt (e); memcpy (&u, &d, 8); printf (" %016lx:%ld", (unsigned long)u, rdpe_Esp (e)); }
static void out_mpf (mpf_t x)
{
  mp_exp_t e; char *s = mpf_get_str (NULL, &e, 16, 0, x);
  if (s[0] == 0) printf (" 0:0"); else printf (" %s:%ld", s, (long)e);
  printf ("@%lu", (unsigned long)mpf_get_prec (x));
  free (s);
}
static int rdpe_is_max (const rdpe_t r) { return rdpe_Mnt (r) == rdpe_Mnt (RDPE_MAX) && rdpe_Esp (r) == rdpe_Esp (RDPE_MAX); }
static void out_rad_rdpe (const rdpe_t r) { if (rdpe_is_max (r)) printf (" max"); else out_rdpe (r); }

#define SR_BIG_EXP (1L << 40)
static mps_context *ctx = NULL;
static mps_polynomial *poly = NULL;

static void set_prec (long prec)
{
  mps_mp_set_prec (ctx, prec);
  mps_prepare_data (ctx, ctx->mpwp);
}

int main (void)
{
  mpq_t qr, qi, q3, q4; int i;
  mpq_init (qr); mpq_init (qi); mpq_init (q3); mpq_init (q4);
  while (getline (&line, &cap, stdin) > 0)
    {
      char *c = strtok_r (line, " \t\r\n", &tokp);
      if (!c) continue;
      if (!strcmp (c, "P"))
        {
          char kind = tok ()[0]; int n = atoi (tok ());
          if (ctx) { if (poly) mps_polynomial_free (ctx, poly); mps_context_free (ctx); ctx = NULL; poly = NULL; }
          ctx = mps_context_new ();
          if (kind == 'M')
            {
              mps_monomial_poly *p = mps_monomial_poly_new (ctx, n);
              for (i = 0; i <= n; i++) { tokq (qr); tokq (qi); mps_monomial_poly_set_coefficient_q (ctx, p, i, qr, qi); }
              poly = MPS_POLYNOMIAL (p);
            }
          else if (kind == 'C')
            {
              mps_chebyshev_poly *p = mps_chebyshev_poly_new (ctx, n, MPS_STRUCTURE_COMPLEX_RATIONAL);
              for (i = 0; i <= n; i++) { tokq (qr); tokq (qi); mps_chebyshev_poly_set_coefficient_q (ctx, p, i, qr, qi); }
              poly = MPS_POLYNOMIAL (p);
            }
          else
            {
              mps_secular_equation *p = mps_secular_equation_new_raw (ctx, n);
              for (i = 0; i < n; i++) { tokq (qr); tokq (qi); tokq (q3); tokq (q4); mps_secular_equation_set_coefficient_q (ctx, p, i, qr, qi, q3, q4); }
              poly = MPS_POLYNOMIAL (p);
            }
          mps_context_set_input_poly (ctx, poly);
          mps_allocate_data (ctx);
          for (i = 0; i < ctx->n; i++) { ctx->root[i]->frad = DBL_MAX; rdpe_set (ctx->root[i]->drad, RDPE_MAX); }
          printf ("P %c %d %d %d %d\n", kind, (int)poly->degree, (int)poly->density, ctx->n, ctx->zero_roots);
        }
      else if (!poly) { fprintf (stderr, "c04_radius: no polynomial\n"); return 3; }
      else if (!strcmp (c, "NF"))
        {
          mps_approximation *r; cplx_t corr;
          tokq (qr); tokq (qi);
          if (!poly->fnewton) { printf ("NF NOIMPL\n"); continue; }
          r = mps_approximation_new (ctx);
          cplx_set_d (r->fvalue, mpq_get_d (qr), mpq_get_d (qi));
          r->frad = DBL_MAX; rdpe_set (r->drad, RDPE_MAX); r->again = true; r->status = MPS_ROOT_STATUS_CLUSTERED;
          cplx_set (corr, cplx_zero);
          mps_polynomial_fnewton (ctx, poly, r, corr);
          printf ("NF %d %d", r->again ? 1 : 0, (int)r->status);
          out_d (cplx_Re (corr)); out_d (cplx_Im (corr));
          if (r->frad == DBL_MAX) printf (" max"); else out_d (r->frad);
          printf ("\n");
          mps_approximation_free (ctx, r);
        }
      else if (!strcmp (c, "ND"))
        {
          mps_approximation *r; cdpe_t corr; long er, ei;
          tokq (qr); er = atol (tok ()); tokq (qi); ei = atol (tok ());
          if (!poly->dnewton) { printf ("ND NOIMPL\n"); continue; }
          r = mps_approximation_new (ctx);
          cdpe_set_2dl (r->dvalue, mpq_get_d (qr), er, mpq_get_d (qi), ei);
          r->frad = DBL_MAX; rdpe_set (r->drad, RDPE_MAX); r->again = true; r->status = MPS_ROOT_STATUS_CLUSTERED;
          cdpe_set (corr, cdpe_zero);
          mps_polynomial_dnewton (ctx, poly, r, corr);
          printf ("ND %d", r->again ? 1 : 0);
          out_rdpe (cdpe_Re (corr)); out_rdpe (cdpe_Im (corr));
          out_rad_rdpe (r->drad);
          printf ("\n");
          mps_approximation_free (ctx, r);
        }
      else if (!strcmp (c, "NM"))
        {
          mps_approximation *r; mpc_t corr; long prec = atol (tok ());
          tokq (qr); tokq (qi);
          if (!poly->mnewton) { printf ("NM NOIMPL\n"); continue; }
          set_prec (prec);
          r = mps_approximation_new (ctx);
          mpc_set_prec (r->mvalue, ctx->mpwp);
          mpc_set_q (r->mvalue, qr, qi);
          r->wp = ctx->mpwp;
          r->frad = DBL_MAX; rdpe_set (r->drad, RDPE_MAX); r->again = true; r->status = MPS_ROOT_STATUS_CLUSTERED;
          mpc_init2 (corr, ctx->mpwp); mpc_set_ui (corr, 0U, 0U);
          mps_polynomial_mnewton (ctx, poly, r, corr, ctx->mpwp);
          printf ("NM %ld %d", (long)ctx->mpwp, r->again ? 1 : 0);
          out_mpf (mpc_Re (r->mvalue)); out_mpf (mpc_Im (r->mvalue));
          out_mpf (mpc_Re (corr)); out_mpf (mpc_Im (corr));
          out_rad_rdpe (r->drad);
          printf ("\n");
          mpc_clear (corr);
          mps_approximation_free (ctx, r);
        }
      else if (!strcmp (c, "RF"))
        {
          double *rad = (double *)malloc (sizeof (double) * (ctx->n + 1));
          for (i = 0; i < ctx->n; i++)
            {
              tokq (qr); tokq (qi);
              cplx_set_d (ctx->root[i]->fvalue, mpq_get_d (qr), mpq_get_d (qi));
              ctx->root[i]->frad = DBL_MAX; ctx->root[i]->status = MPS_ROOT_STATUS_CLUSTERED;
              rad[i] = -1.0;
            }
          if (!poly->feval) { printf ("RF NOIMPL\n"); free (rad); continue; }
          mps_fradii (ctx, poly, rad);
          printf ("RF");
          for (i = 0; i < ctx->n; i++)
            {
              if (rad[i] == DBL_MAX) printf (" max"); else if (rad[i] == -1.0) printf (" unset"); else out_d (rad[i]);
              printf (" %d", (int)ctx->root[i]->status);
            }
          printf ("\n");
          free (rad);
        }
      else if (!strcmp (c, "RD"))
        {
          rdpe_t *rad = rdpe_valloc (ctx->n + 1);
          for (i = 0; i < ctx->n; i++)
            {
              long er, ei;
              tokq (qr); er = atol (tok ()); tokq (qi); ei = atol (tok ());
              cdpe_set_2dl (ctx->root[i]->dvalue, mpq_get_d (qr), er, mpq_get_d (qi), ei);
              rdpe_set (ctx->root[i]->drad, RDPE_MAX);
              rdpe_set_2dl (rad[i], -1.0, 0);
            }
          if (!poly->deval) { printf ("RD NOIMPL\n"); rdpe_vfree (rad); continue; }
          mps_dradii (ctx, poly, rad);
          printf ("RD");
          for (i = 0; i < ctx->n; i++)
            { if (rdpe_Mnt (rad[i]) < 0) printf (" unset"); else out_rad_rdpe (rad[i]); }
          printf ("\n");
          rdpe_vfree (rad);
        }
      else if (!strcmp (c, "RM"))
        {
          rdpe_t *rad = rdpe_valloc (ctx->n + 1); long prec = atol (tok ());
          set_prec (prec);
          for (i = 0; i < ctx->n; i++)
            {
              tokq (qr); tokq (qi);
              mpc_set_prec (ctx->root[i]->mvalue, ctx->mpwp);
              mpc_set_q (ctx->root[i]->mvalue, qr, qi);
              ctx->root[i]->wp = ctx->mpwp;
              rdpe_set (ctx->root[i]->drad, RDPE_MAX);
              rdpe_set_2dl (rad[i], -1.0, 0);
            }
          if (!poly->meval) { printf ("RM NOIMPL\n"); rdpe_vfree (rad); continue; }
          mps_mradii (ctx, poly, rad);
          printf ("RM %ld", (long)ctx->mpwp);
          for (i = 0; i < ctx->n; i++)
            { if (rdpe_Mnt (rad[i]) < 0) printf (" unset"); else out_rad_rdpe (rad[i]); }
          printf ("\n");
          rdpe_vfree (rad);
        }
      else if (!strcmp (c, "SR"))
        {
          char ph = tok ()[0]; long prec = atol (tok ());
          mps_secular_equation *sec, *keep;
          if (!MPS_IS_SECULAR_EQUATION (poly)) { printf ("SR NOIMPL\n"); continue; }
          sec = MPS_SECULAR_EQUATION (poly);
          keep = ctx->secular_equation;
          ctx->secular_equation = sec;
          set_prec (prec);
          for (i = 0; i < ctx->n; i++)
            {
              cdpe_t cd; cplx_t cf;
              mpc_set_prec (ctx->root[i]->mvalue, ctx->mpwp);
              mpc_set (ctx->root[i]->mvalue, sec->bmpc[i]);
              mpc_get_cdpe (cd, sec->bmpc[i]); cdpe_set (ctx->root[i]->dvalue, cd);
              mpc_get_cplx (cf, sec->bmpc[i]); cplx_set (ctx->root[i]->fvalue, cf);
              ctx->root[i]->wp = ctx->mpwp;
              /* "no radius yet": huge, but far from the exponent limit (mps_dmodify / mps_mmodify divide the radius
               * by |value|, which overflows the exponent of RDPE_MAX: a DPE-arithmetic matter, property C12) */
              ctx->root[i]->frad = DBL_MAX; rdpe_set_2dl (ctx->root[i]->drad, 0.5, SR_BIG_EXP);
              ctx->root[i]->status = MPS_ROOT_STATUS_CLUSTERED; ctx->root[i]->again = true;
            }
          mps_cluster_reset (ctx);
          ctx->lastphase = (ph == 'm') ? mp_phase : dpe_phase;
          mps_secular_set_radii (ctx);
          ctx->secular_equation = keep;
          printf ("SR %ld", (long)ctx->mpwp);
          for (i = 0; i < ctx->n; i++)
            {
              out_mpf (mpc_Re (ctx->root[i]->mvalue)); out_mpf (mpc_Im (ctx->root[i]->mvalue));
              if (rdpe_Esp (ctx->root[i]->drad) >= SR_BIG_EXP / 2) printf (" max"); else out_rad_rdpe (ctx->root[i]->drad);
            }
          printf ("\n");
        }
      else { fprintf (stderr, "c04_radius: unknown command %s\n", c); return 3; }
      fflush (stdout);
    }
  if (ctx) { if (poly) mps_polynomial_free (ctx, poly); mps_context_free (ctx); }
  mpq_clear (qr); mpq_clear (qi); mpq_clear (q3); mpq_clear (q4);
  free (line);
  return 0;
}
