/* vf_solve: run one solve of the real library (built from /repo's working tree) on a
 * .pol file with the options of the mpsolve CLI, and export EVERYTHING exactly:
 * the input equation as parsed, the solver's results field by field, what every
 * accessor hands out, and the text mps_output() prints.  All numbers are printed
 * losslessly (doubles: IEEE bits in hex; DPE: hex bits + exponent; mpf: base-16 digits
 * and exponent; mpq: decimal num/den).  Used by checks C01 C02 C03 C08 C16 C17 C19 C05.
 *
 * usage: vf_solve FILE [-a u|s] [-G i|a|c] [-o DIGITS] [-B BITS] [-i DIGITS] [-t f|d] [-b] [-r]
 *                      [-c] [-m] [-S a|r|l|u|d|i|o|R|I] [-D n|r|i|b] [-O c|b|g|gf|v|f] [-j N] [-p]
 *        -p : FILE is an inline expression given as text on the command line (like mpsolve -p)
 *        -P N : set the packet cap s->max_pack (public context field) to N            (added for C03)
 *        -W N : set the precision cap s->mpwp_max (public context field) to N bits     (added for C03)
 *        -T   : enable the library's debug log into a memory stream and print a compact event trace
 *               (`EV <tag> [number]` lines: phase / packet / precision events) before META or SOLVE-ERR (C03)
 */
#include <mps/mps.h>
#include <stdio.h>
#include <stdlib.h>
#include <string.h>
#include <stdint.h>
#include <gmp.h>

static void out_d (FILE *f, double d)
{
  uint64_t u; memcpy (&u, &d, 8); fprintf (f, "%016lx", (unsigned long)u);
}
static void out_rdpe (FILE *f, const rdpe_t e)
{
  out_d (f, rdpe_Mnt (e)); fprintf (f, ":%ld", rdpe_Esp (e));
}
static void out_mpf (FILE *f, mpf_t x)
{
  mp_exp_t e; char *s = mpf_get_str (NULL, &e, 16, 0, x);
  if (s[0] == 0) fprintf (f, "0:0");
  else fprintf (f, "%s:%ld", s, (long)e);
  fprintf (f, "@%lu", (unsigned long)mpf_get_prec (x));
  free (s);
}
static void out_mpc (FILE *f, mpc_t c)
{
  out_mpf (f, mpc_Re (c)); fputc (' ', f); out_mpf (f, mpc_Im (c));
}
static void out_mpq (FILE *f, mpq_t q) { gmp_fprintf (f, "%Qd", q); }
/* every limb the mpf holds (mpf_get_str with n_digits = 0 rounds to the digits its precision warrants, one to two
 * limbs fewer than are stored): value = [-]HEX * 2^EXP2.  Added for C17 (format "full" prints all of them). */
static void out_mpf_exact (FILE *f, mpf_t x)
{
  mp_size_t n = x->_mp_size; int neg = n < 0; mpz_t z;
  if (neg) n = -n;
  if (n == 0) { fprintf (f, "0:0"); return; }
  mpz_init (z); mpz_import (z, (size_t)n, -1, sizeof (mp_limb_t), 0, 0, x->_mp_d);
  gmp_fprintf (f, "%s%Zx:%ld", neg ? "-" : "", z, (long)GMP_NUMB_BITS * ((long)x->_mp_exp - (long)n));
  mpz_clear (z);
}

/* C03: compact event trace filtered out of the library's own debug log */
static void emit_trace (FILE *f, const char *log, size_t len)
{
  static const struct { const char *needle; const char *tag; } K[] = {
    { "Float phase ...", "uphase-f" }, { "DPE phase ...", "uphase-d" }, { "Starting MP phase", "uphase-m" },
    { "MAIN: mp_loop: mpwp=", "umpwp" }, { "  MSOLVE: packet= ", "mpack" },
    { "FSOLVE: call fstart", "fsolve" }, { "DSOLVE: call dpolzero", "dsolve" }, { "MSOLVE: call restart", "msolve" },
    { "Packet ", "pack" },
    { "Float: reached the maximum", "ferr" }, { "DPE: reached the maximum", "derr" },
    { "Step of improvement, precision = ", "improve" },
    { "Starting floating point iterations", "sga-f" }, { "Starting DPE iterations", "sga-d" },
    { "Starting MP iterations", "sga-m" }, { "Called mps_secular_raise_precision", "sga-raise" },
    { "Called mps_secular_switch_phase", "sga-switch" }, { "Stop conditions were satisfied", "sga-stop" },
    { "Reached the maximum working precision", "uovermax" }, { "Reached the input precision", "uinputprec" },
    { NULL, NULL } };
  size_t i = 0;
  while (i < len)
    {
      size_t j = i; int k;
      while (j < len && log[j] != '\n') j++;
      for (k = 0; K[k].needle; k++)
        {
          size_t nl = strlen (K[k].needle);
          const char *hit = NULL; size_t t;
          for (t = i; t + nl <= j; t++)
            if (memcmp (log + t, K[k].needle, nl) == 0) { hit = log + t + nl; break; }
          if (hit)
            {
              long v = -1; const char *q = hit;
              while (q < log + j && (*q < '0' || *q > '9')) q++;
              if (q < log + j) v = strtol (q, NULL, 10);
              fprintf (f, "EV %s %ld\n", K[k].tag, v);
              break;
            }
        }
      i = j + 1;
    }
}

static void dump_poly (FILE *f, mps_context *s, mps_polynomial *p)
{
  int i;
  fprintf (f, "POLY type=%s degree=%d structure=%d density=%d prec=%ld\n", p->type_name, p->degree,
           (int)p->structure, (int)p->density, p->prec);
  if (MPS_IS_MONOMIAL_POLY (p))
    {
      mps_monomial_poly *mp = MPS_MONOMIAL_POLY (p);
      int rat = MPS_STRUCTURE_IS_RATIONAL (p->structure) || MPS_STRUCTURE_IS_INTEGER (p->structure);
      for (i = 0; i <= p->degree; i++)
        {
          fprintf (f, "COEF %d spar=%d ", i, mp->spar ? (int)mp->spar[i] : 1);
          if (rat) { fprintf (f, "Q "); out_mpq (f, mp->initial_mqp_r[i]); fputc (' ', f); out_mpq (f, mp->initial_mqp_i[i]); }
          else { fprintf (f, "F "); out_mpc (f, mp->mfpc[i]); }
          fputc ('\n', f);
        }
    }
  else if (MPS_IS_SECULAR_EQUATION (p))
    {
      mps_secular_equation *sec = MPS_SECULAR_EQUATION (p);
      int rat = MPS_STRUCTURE_IS_RATIONAL (p->structure) || MPS_STRUCTURE_IS_INTEGER (p->structure);
      for (i = 0; i < p->degree; i++)
        {
          fprintf (f, "SEC %d ", i);
          if (rat)
            {
              fprintf (f, "Q "); out_mpq (f, sec->initial_ampqrc[i]); fputc (' ', f); out_mpq (f, sec->initial_ampqic[i]);
              fputc (' ', f); out_mpq (f, sec->initial_bmpqrc[i]); fputc (' ', f); out_mpq (f, sec->initial_bmpqic[i]);
            }
          else
            {
              fprintf (f, "F "); out_mpc (f, sec->initial_ampc[i]); fputc (' ', f); out_mpc (f, sec->initial_bmpc[i]);
            }
          fputc ('\n', f);
        }
    }
  else if (MPS_IS_CHEBYSHEV_POLY (p))
    {
      mps_chebyshev_poly *cp = MPS_CHEBYSHEV_POLY (p);
      for (i = 0; i <= p->degree; i++)
        {
          if (cp->rational_real_coeffs == NULL)
            { fprintf (f, "CHEBF %d F ", i); out_mpc (f, cp->mfpc[i]); fputc ('\n', f); continue; }
          fprintf (f, "CHEB %d Q ", i); out_mpq (f, cp->rational_real_coeffs[i]); fputc (' ', f);
          out_mpq (f, cp->rational_imag_coeffs[i]); fputc ('\n', f);
        }
    }
}

int main (int argc, char **argv)
{
  const char *file = NULL; int inl = 0, i;
  mps_context *s = mps_context_new ();
  mps_polynomial *poly = NULL;
  mps_phase phase = float_phase;
  long input_prec = -1;
  int explicit_alg = 0, nthreads = 0;
  char *obuf = NULL; size_t olen = 0;
  FILE *ostr = open_memstream (&obuf, &olen);
  int trace = 0; long max_pack = -1, mpwp_max = -1;
  char *lbuf = NULL; size_t llen = 0; FILE *lstr = NULL;
  FILE *f = stdout;

  for (i = 1; i < argc; i++)
    {
      char *a = argv[i];
      if (a[0] != '-') { file = a; continue; }
      char *v = (i + 1 < argc) ? argv[i + 1] : (char*)"";
      switch (a[1])
        {
        case 'a': explicit_alg = 1; mps_context_select_algorithm (s, v[0] == 'u' ? MPS_ALGORITHM_STANDARD_MPSOLVE : MPS_ALGORITHM_SECULAR_GA); i++; break;
        case 'G': mps_context_set_output_goal (s, v[0] == 'a' ? MPS_OUTPUT_GOAL_APPROXIMATE : v[0] == 'c' ? MPS_OUTPUT_GOAL_COUNT : MPS_OUTPUT_GOAL_ISOLATE); i++; break;
        case 'o': mps_context_set_output_prec (s, (atoi (v)) * LOG2_10 + 1); i++; break;
        case 'B': mps_context_set_output_prec (s, atol (v)); i++; break;
        case 'i': input_prec = atoi (v) * LOG2_10; i++; break;
        case 't': phase = v[0] == 'd' ? dpe_phase : float_phase; i++; break;
        case 'b': mps_context_set_jacobi_iterations (s, true); break;
        case 'r': mps_context_select_starting_strategy (s, MPS_STARTING_STRATEGY_RECURSIVE); break;
        case 'c': mps_context_set_crude_approximation_mode (s, true); break;
        case 'm': mps_context_set_avoid_multiprecision (s, true); break;
        case 'p': inl = 1; break;
        case 'P': max_pack = atol (v); i++; break;
        case 'W': mpwp_max = atol (v); i++; break;
        case 'T': trace = 1; break;
        case 'j': nthreads = atoi (v); mps_thread_pool_set_concurrency_limit (s, NULL, nthreads); s->n_threads = nthreads; i++; break;
        case 'S':
          switch (v[0])
            {
            case 'a': s->output_config->search_set = MPS_SEARCH_SET_COMPLEX_PLANE; break;
            case 'r': s->output_config->search_set = MPS_SEARCH_SET_POSITIVE_REAL_PART; break;
            case 'l': s->output_config->search_set = MPS_SEARCH_SET_NEGATIVE_REAL_PART; break;
            case 'u': s->output_config->search_set = MPS_SEARCH_SET_POSITIVE_IMAG_PART; break;
            case 'd': s->output_config->search_set = MPS_SEARCH_SET_NEGATIVE_IMAG_PART; break;
            case 'i': s->output_config->search_set = MPS_SEARCH_SET_UNITARY_DISC; break;
            case 'o': s->output_config->search_set = MPS_SEARCH_SET_UNITARY_DISC_COMPL; break;
            case 'R': s->output_config->search_set = MPS_SEARCH_SET_REAL; break;
            case 'I': s->output_config->search_set = MPS_SEARCH_SET_IMAG; break;
            }
          i++; break;
        case 'D':
          switch (v[0])
            {
            case 'n': s->output_config->root_properties = MPS_OUTPUT_PROPERTY_NONE; break;
            case 'r': s->output_config->root_properties = MPS_OUTPUT_PROPERTY_REAL; break;
            case 'i': s->output_config->root_properties = MPS_OUTPUT_PROPERTY_IMAGINARY; break;
            case 'b': s->output_config->root_properties = MPS_OUTPUT_PROPERTY_REAL | MPS_OUTPUT_PROPERTY_IMAGINARY; break;
            }
          i++; break;
        case 'O':
          switch (v[0])
            {
            case 'f': mps_context_set_output_format (s, MPS_OUTPUT_FORMAT_FULL); break;
            case 'b': mps_context_set_output_format (s, MPS_OUTPUT_FORMAT_BARE); break;
            case 'g': mps_context_set_output_format (s, MPS_OUTPUT_FORMAT_GNUPLOT);
              if (v[1] == 'f') { mps_context_set_output_format (s, MPS_OUTPUT_FORMAT_GNUPLOT_FULL); s->gnuplot_format = "xyerrorbars"; }
              break;
            case 'v': mps_context_set_output_format (s, MPS_OUTPUT_FORMAT_VERBOSE); break;
            case 'c': mps_context_set_output_format (s, MPS_OUTPUT_FORMAT_COMPACT); break;
            }
          i++; break;
        default: fprintf (stderr, "vf_solve: bad option %s\n", a); return 2;
        }
    }
  if (!file) { fprintf (stderr, "vf_solve: no input\n"); return 2; }

  if (inl)
    poly = mps_parse_inline_poly_from_string (s, file);
  else
    poly = mps_parse_file (s, file);

  if (!poly || mps_context_has_errors (s))
    {
      fprintf (f, "PARSE-ERR flag=%d poly=%d msg=%s\n", (int)mps_context_has_errors (s), poly != NULL,
               mps_context_has_errors (s) ? mps_context_error_msg (s) : "");
      return 0;
    }
  fprintf (f, "PARSED degree=%d\n", poly->degree);
  mps_context_set_input_poly (s, poly);
  if (input_prec >= 0)
    mps_polynomial_set_input_prec (s, poly, input_prec);
  if (!explicit_alg)
    mps_context_select_algorithm (s, (MPS_IS_MONOMIAL_POLY (poly) && MPS_DENSITY_IS_SPARSE (poly->density)) ?
                                  MPS_ALGORITHM_STANDARD_MPSOLVE : MPS_ALGORITHM_SECULAR_GA);
  mps_context_set_starting_phase (s, phase);
  s->outstr = ostr;
  if (max_pack >= 0)
    s->max_pack = max_pack;
  if (mpwp_max >= 0)
    s->mpwp_max = mpwp_max;
  if (trace)
    {
      lstr = open_memstream (&lbuf, &llen);
      s->logstr = lstr; s->DOLOG = true;
      s->debug_level = MPS_DEBUG_INFO | MPS_DEBUG_FUNCTION_CALLS | MPS_DEBUG_PACKETS;
    }

  dump_poly (f, s, poly);
  fflush (f);

  mps_mpsolve (s);

  if (trace)
    {
      fflush (lstr);
      emit_trace (f, lbuf, llen);
      fprintf (f, "EVEND max_pack=%d max_it=%d mpwp_max=%ld loglen=%zu\n", s->max_pack, s->max_it, s->mpwp_max, llen);
    }

  if (mps_context_has_errors (s))
    {
      fprintf (f, "SOLVE-ERR msg=%s\n", mps_context_error_msg (s));
      return 0;
    }
  fprintf (f, "META degree=%d n=%d zero_roots=%d over_max=%d lastphase=%d prec_out=%ld goal=%d search_set=%d data_prec_max=%ld mpwp=%ld\n",
           mps_context_get_degree (s), s->n, mps_context_get_zero_roots (s), (int)mps_context_get_over_max (s),
           (int)s->lastphase, s->output_config->prec, (int)s->output_config->goal, (int)s->output_config->search_set,
           mps_context_get_data_prec_max (s), s->mpwp);
  fprintf (f, "ORDER");
  for (i = 0; i < s->n; i++)
    fprintf (f, " %d", s->order[i]);
  fprintf (f, "\n");
  /* raw fields */
  for (i = 0; i < s->n; i++)
    {
      mps_approximation *r = s->root[i];
      fprintf (f, "ROOT %d status=%d inclusion=%d attrs=%d again=%d approximated=%d wp=%ld M ", i,
               (int)mps_context_get_root_status (s, i), (int)r->inclusion, (int)r->attrs, (int)r->again, (int)r->approximated, r->wp);
      out_mpc (f, r->mvalue); fprintf (f, " DR "); out_rdpe (f, r->drad);
      fprintf (f, " FR "); out_d (f, r->frad);
      fprintf (f, " FV "); out_d (f, cplx_Re (r->fvalue)); fputc (' ', f); out_d (f, cplx_Im (r->fvalue));
      fprintf (f, " DV "); out_rdpe (f, cdpe_Re (r->dvalue)); fputc (' ', f); out_rdpe (f, cdpe_Im (r->dvalue));
      fputc ('\n', f);
      fprintf (f, "MVX %d ", i); out_mpf_exact (f, mpc_Re (r->mvalue)); fputc (' ', f); out_mpf_exact (f, mpc_Im (r->mvalue)); fputc ('\n', f);
    }
  /* accessor: multiprecision roots */
  {
    mpc_t *mr = NULL; rdpe_t *rad = NULL;
    mps_context_get_roots_m (s, &mr, &rad);
    for (i = 0; i < s->n; i++)
      {
        fprintf (f, "ACCM %d ", i); out_mpc (f, mr[i]); fputc (' ', f); out_rdpe (f, rad[i]); fputc ('\n', f);
      }
    mpc_vclear (mr, s->n); free (mr); free (rad);
  }
  /* accessor: double roots */
  {
    cplx_t *dr = NULL; double *rad = NULL;
    mps_context_get_roots_d (s, &dr, &rad);
    for (i = 0; i < s->n; i++)
      {
        fprintf (f, "ACCD %d ", i); out_d (f, cplx_Re (dr[i])); fputc (' ', f); out_d (f, cplx_Im (dr[i]));
        fputc (' ', f); out_d (f, rad[i]); fputc ('\n', f);
      }
    free (dr); free (rad);
  }
  /* accessor: approximation objects */
  {
    mps_approximation **ap = mps_context_get_approximations (s);
    for (i = 0; i < s->n + s->zero_roots; i++)
      {
        mpc_t mv; cplx_t fv; cdpe_t dv; rdpe_t drad;
        mpc_init2 (mv, mpc_get_prec (ap[i]->mvalue));
        mps_approximation_get_mvalue (s, ap[i], mv);
        mps_approximation_get_fvalue (s, ap[i], fv);
        mps_approximation_get_dvalue (s, ap[i], dv);
        mps_approximation_get_drad (s, ap[i], drad);
        fprintf (f, "ACCA %d status=%d inclusion=%d attrs=%d M ", i, (int)mps_approximation_get_status (s, ap[i]),
                 (int)mps_approximaiton_get_inclusion (s, ap[i]), (int)mps_approximation_get_attrs (s, ap[i]));
        out_mpc (f, mv); fprintf (f, " DR "); out_rdpe (f, drad);
        fprintf (f, " FR "); out_d (f, mps_approximation_get_frad (s, ap[i]));
        fprintf (f, " FV "); out_d (f, cplx_Re (fv)); fputc (' ', f); out_d (f, cplx_Im (fv));
        fprintf (f, " DV "); out_rdpe (f, cdpe_Re (dv)); fputc (' ', f); out_rdpe (f, cdpe_Im (dv));
        fputc ('\n', f);
        mpc_clear (mv);
        mps_approximation_free (s, ap[i]);
      }
    free (ap);
  }
  fflush (f);
  /* printed output */
  mps_output (s);
  fflush (ostr);
  fprintf (f, "OUTPUT-BEGIN %zu\n", olen);
  fwrite (obuf, 1, olen, f);
  fprintf (f, "\nOUTPUT-END\n");
  mps_polynomial_free (s, poly);
  mps_context_free (s);
  fclose (ostr); free (obuf);
  if (lstr) free (lbuf);   /* the stream itself is closed by mps_context_free */
  return 0;
}
