/* C11 harness for the flex scanner generated from src/libmps/monomial/tokenizer.l.
 *
 * stdin: one input per line, hex encoded (two hex digits per byte; an empty line is the empty string), so
 * that newlines and bytes >= 128 can be part of an input.  For every line:
 *
 *   @@ <lineno> TOKENS <tok> <tok> ... | ECHO <hex of what the scanner wrote to yyout> | PARSE <result>
 *
 * <tok> is  NAME:<hex of yytext>  for a token of the grammar (the names of yacc-parser.h),
 *           CHR:<hex of yytext>   for a token number below 256 (the catch-all rule),
 *           NUM<k>:<hex>          for any other number.
 * The tokens come from calling yylex directly (same set-up as mps_monomial_yacc_parser: a memory stream,
 * yylex_init_extra with the parser-data struct) until it returns 0; yyout is redirected into a memory
 * buffer so that the default rule's ECHO can be observed.
 * <result> is that of mps_parse_inline_poly_from_string on the same bytes: ERR | OK <deg> <re> <im> ... |
 * NULLNOERR | POLYERR (as in c11_inline.c); parser output on stdout is kept apart by the "\n@@" framing.
 */
#define _GNU_SOURCE
#include <mps/mps.h>
#include <stdio.h>
#include <stdlib.h>
#include <string.h>
#include <gmp.h>
#include "yacc-parser.h"

typedef struct {
  void * scanner;
  mps_context * ctx;
  mps_abstract_input_stream * stream;
  mps_formal_polynomial * p;
} vf_parser_data;                 /* = _mps_yacc_parser_data of tokenizer.l / yacc-parser.y */

typedef void * yyscan_t;
extern int yylex (void * yylval, yyscan_t scanner);
extern int yylex_init_extra (vf_parser_data * extra, yyscan_t * scanner);
extern int yylex_destroy (yyscan_t scanner);
extern char * yyget_text (yyscan_t scanner);
extern int yyget_leng (yyscan_t scanner);
extern void yyset_out (FILE * f, yyscan_t scanner);
extern void yyset_debug (int flag, yyscan_t scanner);

static const char * token_name (int t)
{
  switch (t)
    {
    case RATIONAL: return "RATIONAL";
    case FLOATING_POINT: return "FLOATING_POINT";
    case PLUS: return "PLUS";
    case MINUS: return "MINUS";
    case IMAGINARY_UNIT: return "IMAGINARY_UNIT";
    case TIMES: return "TIMES";
    case LEFT_BRACKET: return "LEFT_BRACKET";
    case RIGHT_BRACKET: return "RIGHT_BRACKET";
    case MONOMIAL: return "MONOMIAL";
    case SUPERSCRIPT: return "SUPERSCRIPT";
    default: return NULL;
    }
}

static void put_hex (const char * s, size_t n)
{
  size_t i;
  for (i = 0; i < n; i++)
    printf ("%02x", (unsigned char) s[i]);
}

static int hexval (int c)
{
  if (c >= '0' && c <= '9') return c - '0';
  if (c >= 'a' && c <= 'f') return c - 'a' + 10;
  if (c >= 'A' && c <= 'F') return c - 'A' + 10;
  return -1;
}

int main (int argc, char ** argv)
{
  char * line = NULL;
  size_t cap = 0;
  ssize_t n;
  long lineno = 0;
  long start = (argc > 1) ? atol (argv[1]) : 0;
  int do_parse = (argc > 2) ? atoi (argv[2]) : 1;

  while ((n = getline (&line, &cap, stdin)) >= 0)
    {
      if (n > 0 && line[n - 1] == '\n')
        line[--n] = '\0';
      if (lineno < start) { lineno++; continue; }

      size_t len = (size_t) n / 2, i;
      char * input = (char *) malloc (len + 1);
      for (i = 0; i < len; i++)
        input[i] = (char) (hexval (line[2 * i]) * 16 + hexval (line[2 * i + 1]));
      input[len] = '\0';

      printf ("\n@@ %ld TOKENS", lineno);
      {
        /* the scanner alone */
        mps_context * ctx = mps_context_new ();
        char * copy = strdup (input);
        mps_memory_file_stream * stream = mps_memory_file_stream_new (copy);
        vf_parser_data data = { NULL, ctx, (mps_abstract_input_stream *) stream, NULL };
        char * echo_buf = NULL;
        size_t echo_len = 0;
        FILE * echo = open_memstream (&echo_buf, &echo_len);
        void * lval = NULL;
        int t, count = 0;

        yylex_init_extra (&data, &data.scanner);
        yyset_out (echo, data.scanner);
        yyset_debug (0, data.scanner);
        while ((t = yylex (&lval, data.scanner)) != 0 && count++ < 100000)
          {
            const char * nm = token_name (t);
            if (nm != NULL)
              printf (" %s:", nm);
            else if (t > 0 && t < 256)
              printf (" CHR:");
            else
              printf (" NUM%d:", t);
            put_hex (yyget_text (data.scanner), (size_t) yyget_leng (data.scanner));
            if (nm != NULL && (t == RATIONAL || t == FLOATING_POINT || t == MONOMIAL))
              {
                /* the text handed to the parser must be the lexeme */
                if (lval == NULL || strcmp ((const char *) lval, yyget_text (data.scanner)) != 0)
                  printf ("!LVAL");
                free (lval);
              }
            lval = NULL;
          }
        yylex_destroy (data.scanner);
        fclose (echo);
        printf (" | ECHO ");
        put_hex (echo_buf, echo_len);
        free (echo_buf);
        mps_memory_file_stream_free (stream);
        free (copy);
        mps_context_free (ctx);
      }
      printf (" | PARSE ");
      fflush (stdout);
      if (do_parse)
        {
          mps_context * ctx = mps_context_new ();
          mps_polynomial * p = mps_parse_inline_poly_from_string (ctx, input);
          int err = mps_context_has_errors (ctx) ? 1 : 0;
          fflush (stdout);
          if (p == NULL)
            printf ("\n@@ %ld RESULT %s\n", lineno, err ? "ERR" : "NULLNOERR");
          else if (err)
            printf ("\n@@ %ld RESULT POLYERR\n", lineno);
          else
            {
              mps_monomial_poly * mp = MPS_MONOMIAL_POLY (p);
              long d = p->degree, k;
              printf ("\n@@ %ld RESULT OK %ld", lineno, d);
              for (k = 0; k <= d; k++)
                {
                  char * r = mpq_get_str (NULL, 10, mp->initial_mqp_r[k]);
                  char * im = mpq_get_str (NULL, 10, mp->initial_mqp_i[k]);
                  printf (" %s %s", r, im);
                  free (r); free (im);
                }
              printf ("\n");
            }
          if (p != NULL)
            mps_polynomial_free (ctx, p);
          mps_context_free (ctx);
        }
      else
        printf ("\n@@ %ld RESULT SKIPPED\n", lineno);
      fflush (stdout);
      free (input);
      lineno++;
    }
  free (line);
  return 0;
}
