/* C07 harness: run mps_fcluster / mps_dcluster / mps_mcluster on a given configuration through
 * the private API and export (a) the matrix of the implementation's own touch predicate on the
 * radii passed to the routine, (b) the same on the radii stored in the roots (what the
 * newton-isolation test looks at), (c) the resulting clusterization in linked-list order.
 *
 * stdin, one case per line (blank separated tokens):
 *   <id> <variant f|d|m> <n> <nf> <threads> <prec> <old> then n times: xm xe ym ye gm ge wm we
 *   old  : previous clusterization, clusters ';' separated, members ',' separated (list order)
 *   value = m * 2^e  (m: integer |m| < 2^53, e: long);  radius token pair "MAX 0" = DBL_MAX / RDPE_MAX
 *   g = radius passed as argument (Gerschgorin), w = radius stored in the root (Newton)
 * stdout, one line per case:
 *   <id> T=<n*n 0/1> TN=<n*n 0/1> new=<clusters> bad=<0|1>     (bad: cluster->n / clusterization->n
 *                                                               inconsistent with the lists)
 * Threads are real pthreads here.  In shim mode (libmps built with -DVF_SHIM, linked with
 * harness/vf_sched.c) the same main is used: nothing in this file calls pthread_* directly.
 */
#include <mps/mps.h>
#include <stdio.h>
#include <stdlib.h>
#include <string.h>
#include <float.h>
#include <math.h>

#define MAXN 260

static char linebuf[1 << 20];

typedef struct { int is_max; long long m; long e; } num;

static int
read_num (char **save, num *v)
{
  char *a = strtok_r (NULL, " \n", save);
  char *b = strtok_r (NULL, " \n", save);

  if (!a || !b)
    return 0;
  v->is_max = (strcmp (a, "MAX") == 0);
  v->m = v->is_max ? 0 : atoll (a);
  v->e = atol (b);
  return 1;
}

static double
num_d (const num *v)
{
  return v->is_max ? DBL_MAX : ldexp ((double)v->m, (int)v->e);
}

static void
num_rdpe (rdpe_t r, const num *v)
{
  if (v->is_max)
    rdpe_set (r, RDPE_MAX);
  else
    rdpe_set_2dl (r, (double)v->m, v->e);
}

static void
num_mpf (mpf_t f, const num *v)
{
  mpf_set_d (f, (double)v->m);
  if (v->e >= 0)
    mpf_mul_2exp (f, f, (unsigned long)v->e);
  else
    mpf_div_2exp (f, f, (unsigned long)(-v->e));
}

/* build the previous clusterization with exactly the given list order */
static int
set_old (mps_context *s, char *old)
{
  static int members[MAXN * 2], start[MAXN * 2], len[MAXN * 2];
  int nc = 0, nm = 0, i, k;
  char *p = old;

  if (strcmp (old, "-") != 0)
    {
      start[0] = 0; len[0] = 0; nc = 1;
      while (*p)
        {
          if (*p == ';')
            { start[nc] = nm; len[nc] = 0; nc++; p++; }
          else if (*p == ',')
            p++;
          else
            {
              members[nm++] = (int)strtol (p, &p, 10);
              len[nc - 1]++;
            }
        }
    }

  mps_clusterization_free (s, s->clusterization);
  s->clusterization = mps_clusterization_empty (s);
  for (i = nc - 1; i >= 0; i--)
    {
      mps_cluster *c = mps_cluster_empty (s);
      for (k = len[i] - 1; k >= 0; k--)
        mps_cluster_insert_root (s, c, members[start[i] + k]);
      mps_clusterization_insert_cluster (s, s->clusterization, c);
    }
  return nm;
}

int
main (void)
{
  static num X[MAXN], Y[MAXN], G[MAXN], W[MAXN];

  while (fgets (linebuf, sizeof (linebuf), stdin))
    {
      char *save = NULL;
      char *id = strtok_r (linebuf, " \n", &save);
      char *variant, *old;
      int n, nf, threads, i, j, bad = 0;
      long prec;

      if (!id)
        continue;
      variant = strtok_r (NULL, " \n", &save);
      n = atoi (strtok_r (NULL, " \n", &save));
      nf = atoi (strtok_r (NULL, " \n", &save));
      threads = atoi (strtok_r (NULL, " \n", &save));
      prec = atol (strtok_r (NULL, " \n", &save));
      old = strtok_r (NULL, " \n", &save);
      if (n < 1 || n > MAXN - 2)
        { printf ("%s ERROR bad n\n", id); continue; }
      for (i = 0; i < n; i++)
        if (!read_num (&save, &X[i]) || !read_num (&save, &Y[i]) ||
            !read_num (&save, &G[i]) || !read_num (&save, &W[i]))
          { printf ("%s ERROR short line\n", id); n = 0; break; }
      if (n == 0)
        continue;

      mps_context *s = mps_context_new ();
      mps_monomial_poly *p = mps_monomial_poly_new (s, n);
      mps_monomial_poly_set_coefficient_int (s, p, n, 1, 0);
      mps_monomial_poly_set_coefficient_int (s, p, 0, -1, 0);
      mps_context_set_input_poly (s, MPS_POLYNOMIAL (p));
      mps_allocate_data (s);
      if (threads > 0)
        mps_thread_pool_set_concurrency_limit (s, s->pool, threads);
      s->mpwp = prec;
      rdpe_set_2dl (s->mp_epsilon, 1.0, 1 - prec);

      double *frad = mps_newv (double, n);
      rdpe_t *drad = rdpe_valloc (n);

      for (i = 0; i < n; i++)
        {
          mps_approximation *r = s->root[i];
          frad[i] = num_d (&G[i]);
          num_rdpe (drad[i], &G[i]);
          r->frad = num_d (&W[i]);
          num_rdpe (r->drad, &W[i]);
          cplx_set_d (r->fvalue, num_d (&X[i]), num_d (&Y[i]));
          num_rdpe (cdpe_Re (r->dvalue), &X[i]);
          num_rdpe (cdpe_Im (r->dvalue), &Y[i]);
          mpc_set_prec (r->mvalue, prec);
          num_mpf (mpc_Re (r->mvalue), &X[i]);
          num_mpf (mpc_Im (r->mvalue), &Y[i]);
        }
      set_old (s, old);

      /* the implementation's own predicate, before the call (the call may shrink root radii) */
      printf ("%s T=", id);
      for (i = 0; i < n; i++)
        for (j = 0; j < n; j++)
          {
            int t = (variant[0] == 'f') ? mps_ftouchnwt (s, frad, nf, i, j)
                  : (variant[0] == 'd') ? mps_dtouchnwt (s, drad, nf, i, j)
                  : mps_mtouchnwt (s, drad, nf, i, j);
            putchar (t ? '1' : '0');
          }
      printf (" TN=");
      if (variant[0] == 'f')
        {
          double *nw = mps_newv (double, n);
          for (i = 0; i < n; i++)
            nw[i] = s->root[i]->frad;
          for (i = 0; i < n; i++)
            for (j = 0; j < n; j++)
              putchar (mps_ftouchnwt (s, nw, nf, i, j) ? '1' : '0');
          free (nw);
        }
      else
        {
          rdpe_t *nw = rdpe_valloc (n);
          for (i = 0; i < n; i++)
            rdpe_set (nw[i], s->root[i]->drad);
          for (i = 0; i < n; i++)
            for (j = 0; j < n; j++)
              putchar ((variant[0] == 'd' ? mps_dtouchnwt (s, nw, nf, i, j)
                        : mps_mtouchnwt (s, nw, nf, i, j)) ? '1' : '0');
          rdpe_vfree (nw);
        }
      fflush (stdout);

      if (variant[0] == 'f')
        mps_fcluster (s, frad, nf);
      else if (variant[0] == 'd')
        mps_dcluster (s, drad, nf);
      else
        mps_mcluster (s, drad, nf);

      printf (" new=");
      {
        mps_cluster_item *item;
        int items = 0;
        for (item = s->clusterization->first; item; item = item->next)
          {
            mps_root *r;
            int cnt = 0;
            if (items++)
              putchar (';');
            for (r = item->cluster->first; r; r = r->next)
              {
                printf (cnt ? ",%ld" : "%ld", r->k);
                cnt++;
                if (cnt > 4 * MAXN)
                  break;
              }
            if (cnt != item->cluster->n)
              bad = 1;
            if (items > 4 * MAXN)
              break;
          }
        if (items != s->clusterization->n)
          bad = 1;
      }
      printf (" bad=%d\n", bad);
      fflush (stdout);

      free (frad);
      rdpe_vfree (drad);
      mps_context_free (s);
    }
  return 0;
}
