/* C07 harness: run mps_fcluster / mps_dcluster / mps_mcluster on a given configuration through
 * the private API and export (a) the matrix of the implementation's own touch predicate on the
 * radii passed to the routine, (b) the same on the radii stored in the roots (what the
 * newton-isolation test looks at), (c) the resulting clusterization in linked-list order.
 *
 * stdin, one case per line (blank separated tokens):
 *   <id> <variant f|d|m> <n> <nf> <threads> <prec> <old> then n times: xm xe ym ye gm ge wm we
 *   old  : previous clusterization, clusters ';' separated, members ',' separated (list order)
 *   value = m * 2^e  (m: integer |m| < 2^53, e: long);  radius token pair "MAX 0" = DBL_MAX / RDPE_MAX
 *   g = radius passed as argument (Gerschgorin), w = radius stored in the root (Newton)
 * stdout, one line per case:
 *   <id> T=<n*n 0/1> TN=<n*n 0/1> new=<clusters> bad=<0|1>     (bad: cluster->n / clusterization->n
 *                                                               inconsistent with the lists)
 * Threads are real pthreads in the plain build.  Built with -DVF_SHIM (libmps mode shim/shimsan,
 * linked with harness/vf_sched.c) the program runs ONE case under many schedules of the
 * deterministic scheduler: see the second main at the end of this file.
 */
#include <mps/mps.h>
#include <stdio.h>
#include <stdlib.h>
#include <string.h>
#include <float.h>
#include <math.h>

#define MAXN 260

static char linebuf[1 << 20];

typedef struct { int is_max; long long m; long e; } num;

static int
read_num (char **save, num *v)
{
  char *a = strtok_r (NULL, " \n", save);
  char *b = strtok_r (NULL, " \n", save);

  if (!a || !b)
    return 0;
  v->is_max = (strcmp (a, "MAX") == 0);
  v->m = v->is_max ? 0 : atoll (a);
  v->e = atol (b);
  return 1;
}

static double
num_d (const num *v)
{
  return v->is_max ? DBL_MAX : ldexp ((double)v->m, (int)v->e);
}

static void
num_rdpe (rdpe_t r, const num *v)
{
  if (v->is_max)
    rdpe_set (r, RDPE_MAX);
  else
    rdpe_set_2dl (r, (double)v->m, v->e);
}

static void
num_mpf (mpf_t f, const num *v)
{
  mpf_set_d (f, (double)v->m);
  if (v->e >= 0)
    mpf_mul_2exp (f, f, (unsigned long)v->e);
  else
    mpf_div_2exp (f, f, (unsigned long)(-v->e));
}

/* build the previous clusterization with exactly the given list order */
static int
set_old (mps_context *s, char *old)
{
  static int members[MAXN * 2], start[MAXN * 2], len[MAXN * 2];
  int nc = 0, nm = 0, i, k;
  char *p = old;

  if (strcmp (old, "-") != 0)
    {
      start[0] = 0; len[0] = 0; nc = 1;
      while (*p)
        {
          if (*p == ';')
            { start[nc] = nm; len[nc] = 0; nc++; p++; }
          else if (*p == ',')
            p++;
          else
            {
              members[nm++] = (int)strtol (p, &p, 10);
              len[nc - 1]++;
            }
        }
    }

  mps_clusterization_free (s, s->clusterization);
  s->clusterization = mps_clusterization_empty (s);
  for (i = nc - 1; i >= 0; i--)
    {
      mps_cluster *c = mps_cluster_empty (s);
      for (k = len[i] - 1; k >= 0; k--)
        mps_cluster_insert_root (s, c, members[start[i] + k]);
      mps_clusterization_insert_cluster (s, s->clusterization, c);
    }
  return nm;
}

typedef struct {
  char id[64]; char variant; int n, nf, threads; long prec; char *old;
} c07_case;

static num X[MAXN], Y[MAXN], G[MAXN], W[MAXN];

/* parse one input line into *c and the global arrays; 1 = ok */
static int
parse_case (char *line, c07_case *c)
{
  char *save = NULL, *tokp;
  int i;

  tokp = strtok_r (line, " \n", &save);
  if (!tokp)
    return 0;
  strncpy (c->id, tokp, 63); c->id[63] = 0;
  c->variant = strtok_r (NULL, " \n", &save)[0];
  c->n = atoi (strtok_r (NULL, " \n", &save));
  c->nf = atoi (strtok_r (NULL, " \n", &save));
  c->threads = atoi (strtok_r (NULL, " \n", &save));
  c->prec = atol (strtok_r (NULL, " \n", &save));
  c->old = strtok_r (NULL, " \n", &save);
  if (c->n < 1 || c->n > MAXN - 2)
    { printf ("%s ERROR bad n\n", c->id); return 0; }
  for (i = 0; i < c->n; i++)
    if (!read_num (&save, &X[i]) || !read_num (&save, &Y[i]) ||
        !read_num (&save, &G[i]) || !read_num (&save, &W[i]))
      { printf ("%s ERROR short line\n", c->id); return 0; }
  return 1;
}

/* what = 1: print the touch matrices only; 2: run the routine and print the clusterization;
 * 3: both (one line "<id> T= TN= new= bad=") */
static void
run_case (const c07_case *c, int what)
{
  int n = c->n, nf = c->nf, i, j, bad = 0;
  char variant = c->variant;
  char oldbuf[8 * MAXN];
  mps_context *s = mps_context_new ();
  mps_monomial_poly *p = mps_monomial_poly_new (s, n);

  mps_monomial_poly_set_coefficient_int (s, p, n, 1, 0);
  mps_monomial_poly_set_coefficient_int (s, p, 0, -1, 0);
  mps_context_set_input_poly (s, MPS_POLYNOMIAL (p));
  mps_allocate_data (s);
  if (c->threads > 0)
    mps_thread_pool_set_concurrency_limit (s, s->pool, c->threads);
  s->mpwp = c->prec;
  rdpe_set_2dl (s->mp_epsilon, 1.0, 1 - c->prec);

  double *frad = mps_newv (double, n);
  rdpe_t *drad = rdpe_valloc (n);

  for (i = 0; i < n; i++)
    {
      mps_approximation *r = s->root[i];
      frad[i] = num_d (&G[i]);
      num_rdpe (drad[i], &G[i]);
      r->frad = num_d (&W[i]);
      num_rdpe (r->drad, &W[i]);
      cplx_set_d (r->fvalue, num_d (&X[i]), num_d (&Y[i]));
      num_rdpe (cdpe_Re (r->dvalue), &X[i]);
      num_rdpe (cdpe_Im (r->dvalue), &Y[i]);
      mpc_set_prec (r->mvalue, c->prec);
      num_mpf (mpc_Re (r->mvalue), &X[i]);
      num_mpf (mpc_Im (r->mvalue), &Y[i]);
    }
  strncpy (oldbuf, c->old, sizeof (oldbuf) - 1); oldbuf[sizeof (oldbuf) - 1] = 0;
  set_old (s, oldbuf);

  if (what & 1)
    {
      /* the implementation's own predicate, before the call (the call may shrink root radii) */
      printf ("%s T=", c->id);
      for (i = 0; i < n; i++)
        for (j = 0; j < n; j++)
          {
            int t = (variant == 'f') ? mps_ftouchnwt (s, frad, nf, i, j)
                  : (variant == 'd') ? mps_dtouchnwt (s, drad, nf, i, j)
                  : mps_mtouchnwt (s, drad, nf, i, j);
            putchar (t ? '1' : '0');
          }
      printf (" TN=");
      if (variant == 'f')
        {
          double *nw = mps_newv (double, n);
          for (i = 0; i < n; i++)
            nw[i] = s->root[i]->frad;
          for (i = 0; i < n; i++)
            for (j = 0; j < n; j++)
              putchar (mps_ftouchnwt (s, nw, nf, i, j) ? '1' : '0');
          free (nw);
        }
      else
        {
          rdpe_t *nw = rdpe_valloc (n);
          for (i = 0; i < n; i++)
            rdpe_set (nw[i], s->root[i]->drad);
          for (i = 0; i < n; i++)
            for (j = 0; j < n; j++)
              putchar ((variant == 'd' ? mps_dtouchnwt (s, nw, nf, i, j)
                        : mps_mtouchnwt (s, nw, nf, i, j)) ? '1' : '0');
          rdpe_vfree (nw);
        }
      if (what == 1)
        putchar ('\n');
      fflush (stdout);
    }

  if (what & 2)
    {
      if (variant == 'f')
        mps_fcluster (s, frad, nf);
      else if (variant == 'd')
        mps_dcluster (s, drad, nf);
      else
        mps_mcluster (s, drad, nf);

      printf (what == 2 ? "R new=" : " new=");
      {
        mps_cluster_item *item;
        int items = 0;
        for (item = s->clusterization->first; item; item = item->next)
          {
            mps_root *r;
            int cnt = 0;
            if (items++)
              putchar (';');
            for (r = item->cluster->first; r; r = r->next)
              {
                printf (cnt ? ",%ld" : "%ld", r->k);
                cnt++;
                if (cnt > 4 * MAXN)
                  break;
              }
            if (cnt != item->cluster->n)
              bad = 1;
            if (items > 4 * MAXN)
              break;
          }
        if (items != s->clusterization->n)
          bad = 1;
      }
      printf (" bad=%d\n", bad);
      fflush (stdout);
    }

  free (frad);
  rdpe_vfree (drad);
  mps_context_free (s);
}

#ifndef VF_SHIM
int
main (void)
{
  while (fgets (linebuf, sizeof (linebuf), stdin))
    {
      c07_case c;
      if (parse_case (linebuf, &c))
        run_case (&c, 3);
    }
  return 0;
}
#else
/* ---------------------------------------------------------------------------------------------
 * shim mode: libmps built with -DVF_SHIM, linked with harness/vf_sched.c.  ONE case on stdin;
 *   c07_cluster_shim [--random N] [--pct N --depth D] [--dfs BOUND [--free-switch] [--max-runs M]]
 *                    [--replay s0,s1,...] [--seed S]
 * stdout:  <id> T=.. TN=..                       (computed once, outside the scheduler)
 *          then for every schedule   R new=<clusterization> bad=<0|1>     (printed by the run)
 *                                    # run K status S rc R cost C div D what W sched s0,s1,...
 *          (status != 0: deadlock / step limit / misuse / crash / timeout; the trace follows)    */
#include "vf_sched.h"

static c07_case the_case;

static int
scenario (void *arg)
{
  (void)arg;
  run_case (&the_case, 2);
  return 0;
}

typedef struct { long runs, bad; } acc;

static int
on_run (const vf_run *r, void *user)
{
  acc *a = (acc *)user;
  int i;

  a->runs++;
  if (r->status != 0 || r->rc != 0)
    a->bad++;
  printf ("# run %ld status %d rc %d cost %d div %d what %s sched ", a->runs - 1, r->status, r->rc,
          r->cost, r->diverged, (r->what && r->what[0]) ? r->what : "-");
  for (i = 0; i < r->n_schedule; i++)
    printf ("%s%d", i ? "," : "", r->schedule[i]);
  if (r->n_schedule == 0)
    printf ("-");
  printf ("\n");
  if (r->status != 0)
    {
      size_t len = r->trace_len > 6000 ? 6000 : r->trace_len;
      fwrite (r->trace + (r->trace_len - len), 1, len, stdout);
      printf ("# end\n");
    }
  fflush (stdout);
  return 0;
}

int
main (int argc, char **argv)
{
  int i, dfs = -1, free_switch = 0, depth = 3;
  long nrandom = 0, npct = 0, max_runs = 0, k;
  unsigned long seed = 1;
  const char *replay = NULL;
  acc a = { 0, 0 };
  vf_opts so;
  vf_explore_stats st = { 0, 0, 0, 0 };
  char jobs[16];

  for (i = 1; i < argc; i++)
    {
      if (!strcmp (argv[i], "--dfs") && i + 1 < argc) dfs = atoi (argv[++i]);
      else if (!strcmp (argv[i], "--free-switch")) free_switch = 1;
      else if (!strcmp (argv[i], "--random") && i + 1 < argc) nrandom = atol (argv[++i]);
      else if (!strcmp (argv[i], "--pct") && i + 1 < argc) npct = atol (argv[++i]);
      else if (!strcmp (argv[i], "--depth") && i + 1 < argc) depth = atoi (argv[++i]);
      else if (!strcmp (argv[i], "--replay") && i + 1 < argc) replay = argv[++i];
      else if (!strcmp (argv[i], "--seed") && i + 1 < argc) seed = strtoul (argv[++i], NULL, 10);
      else if (!strcmp (argv[i], "--max-runs") && i + 1 < argc) max_runs = atol (argv[++i]);
      else { fprintf (stderr, "bad argument %s\n", argv[i]); return 2; }
    }
  if (!fgets (linebuf, sizeof (linebuf), stdin) || !parse_case (linebuf, &the_case))
    return 2;
  the_case.old = strdup (the_case.old);
  /* the pool of a new context has MPS_JOBS threads: exactly the requested number */
  snprintf (jobs, sizeof jobs, "%d", the_case.threads > 0 ? the_case.threads : 1);
  setenv ("MPS_JOBS", jobs, 1);

  run_case (&the_case, 1);          /* scheduler not initialised: plain pthreads */

  vf_opts_default (&so);
  so.max_steps = 400000;
  so.pct_depth = depth;
  so.pct_steps = 40 * the_case.n;
  if (replay)
    {
      static uint8_t buf[1 << 16];
      int n = strcmp (replay, "-") ? vf_parse_schedule (replay, buf, 1 << 16) : 0;
      vf_run_once (scenario, NULL, VF_REPLAY, 1, &so, buf, n, 60, on_run, &a);
    }
  else if (dfs >= 0)
    {
      vf_explore_opts eo;
      vf_explore_opts_default (&eo);
      eo.bound = dfs; eo.free_switch = free_switch; eo.max_runs = max_runs; eo.sched = so; eo.timeout_s = 60;
      vf_explore (scenario, NULL, &eo, on_run, &a, &st);
    }
  else
    {
      for (k = 0; k < nrandom; k++)
        vf_run_once (scenario, NULL, VF_RANDOM, seed * 1000003UL + (unsigned long)k, &so, NULL, 0, 60, on_run, &a);
      for (k = 0; k < npct; k++)
        vf_run_once (scenario, NULL, VF_PCT, seed * 7000003UL + (unsigned long)k, &so, NULL, 0, 60, on_run, &a);
    }
  fflush (stdout);
  fprintf (stderr, "c07_cluster_shim: runs=%ld bad=%ld max_decisions=%ld truncated=%ld\n", a.runs, a.bad,
           st.max_decisions, st.truncated);
  return 0;
}
#endif
