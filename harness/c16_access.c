/* C16 harness: function-level tie of the accessors.  A state (fvalue, frad, dvalue, drad, mvalue with its precision and
 * limbs, wp, status, attrs, inclusion, again, lastphase, data_prec_max, mpwp) is written into a context of degree 1 through
 * the private API; then the calls a finished solve makes (mps_restore_data if asked, mps_copy_roots) and EVERY public accessor:
 *   mps_context_get_roots_d, mps_context_get_roots_m (library-allocated storage and the caller's storage of <pc> bits),
 *   mps_context_get_approximations, mps_approximation_get_{fvalue,dvalue,mvalue,frad,drad,status,attrs,again},
 *   mps_approximaiton_get_inclusion, mps_approximation_copy.
 * Everything handed out is printed exactly (IEEE bits, DPE mantissa bits + exponent, mpf precision field + limbs).
 *
 * stdin, one case per line (same line as ocaml/access_driver.ml reads):
 *   id ph dpm restore pc mpwp  fre fim frad  dre_m dre_e dim_m dim_e  drad_m drad_e
 *      mprec re_man re_exp im_man im_exp  wp status attrs incl again
 * stdout: id S=.. D=.. M0=.. M1=.. A=.. GA=.. GR=.. C=.. XD=<cplx_mod of the get_roots_d value> XA=<cplx_mod of the approximation's fvalue>
 *   <mpf> = prec:hexmantissa:exp (low zero limbs dropped; exp = exponent of the lowest printed limb, in limbs)
 *   <approx> = fre,fim;dre,dim;mre,mim;frad;drad;wp;status;attrs;inclusion;again
 */
#include <mps/mps.h>
#include <stdio.h>
#include <stdlib.h>
#include <string.h>
#include <stdint.h>
#include <float.h>
#include <math.h>

static char linebuf[1 << 20];

static double
dbl_of_hex (const char *s)
{
  uint64_t u = strtoull (s, NULL, 16);
  double d;
  memcpy (&d, &u, 8);
  return d;
}

static void
put_dbl (double d)
{
  uint64_t u;
  if (d != d)
    { printf ("7ff8000000000000"); return; }
  memcpy (&u, &d, 8);
  printf ("%016llx", (unsigned long long)u);
}

static void
put_rdpe (const rdpe_t e)
{
  put_dbl (rdpe_Mnt (e));
  printf (":%ld", rdpe_Esp (e));
}

static void
put_mpf (const mpf_t f)
{
  long n = labs ((long)f->_mp_size), k = 0, i;

  while (k < n && f->_mp_d[k] == 0)
    k++;
  if (k >= n)
    { printf ("%d:0:0", (int)f->_mp_prec); return; }
  printf ("%d:%s%lx", (int)f->_mp_prec, f->_mp_size < 0 ? "-" : "", (unsigned long)f->_mp_d[n - 1]);
  for (i = n - 2; i >= k; i--)
    printf ("%016lx", (unsigned long)f->_mp_d[i]);
  printf (":%ld", (long)f->_mp_exp - n + k);
}

static void
put_mpc (mpc_t c)
{
  put_mpf (mpc_Re (c)); printf (","); put_mpf (mpc_Im (c));
}

/* write the limbs of the hex integer into f (whose allocation is _mp_prec + 1 limbs) */
static int
set_mpf_raw (mpf_t f, const char *hexman, long e)
{
  mpz_t z;
  size_t n, i;

  if (mpz_init_set_str (z, hexman, 16) != 0)
    { mpz_clear (z); return 0; }
  n = mpz_size (z);
  if ((long)n > (long)f->_mp_prec + 1)
    { mpz_clear (z); return 0; }
  for (i = 0; i < n; i++)
    f->_mp_d[i] = mpz_getlimbn (z, i);
  f->_mp_size = mpz_sgn (z) < 0 ? -(int)n : (int)n;
  f->_mp_exp = n ? e + (long)n : 0;
  mpz_clear (z);
  return 1;
}

static void
put_fields (cplx_t fv, cdpe_t dv, mpc_t mv, double frad, rdpe_t drad, long wp, int st, int at, int in, int ag)
{
  put_dbl (cplx_Re (fv)); printf (","); put_dbl (cplx_Im (fv)); printf (";");
  put_rdpe (cdpe_Re (dv)); printf (","); put_rdpe (cdpe_Im (dv)); printf (";");
  put_mpc (mv); printf (";");
  put_dbl (frad); printf (";");
  put_rdpe (drad);
  printf (";%ld;%d;%d;%d;%d", wp, st, at, in, ag);
}

static void
put_approx (mps_approximation *a)
{
  put_fields (a->fvalue, a->dvalue, a->mvalue, a->frad, a->drad, a->wp, (int)a->status, (int)a->attrs, (int)a->inclusion, a->again ? 1 : 0);
}

/* everything through the public getters, the multiprecision value into the caller's variable of pc bits */
static void
put_getters (mps_context *s, mps_approximation *a, long pc)
{
  cplx_t fv;
  cdpe_t dv;
  rdpe_t dr;
  mpc_t mv;
  double fr;

  mpc_init2 (mv, pc);
  mpc_set_d (mv, 1.2345678912345678, -3.25);
  mps_approximation_get_fvalue (s, a, fv);
  mps_approximation_get_dvalue (s, a, dv);
  mps_approximation_get_mvalue (s, a, mv);
  fr = mps_approximation_get_frad (s, a);
  mps_approximation_get_drad (s, a, dr);
  put_fields (fv, dv, mv, fr, dr, a->wp, (int)mps_approximation_get_status (s, a), (int)mps_approximation_get_attrs (s, a),
              (int)mps_approximaiton_get_inclusion (s, a), mps_approximation_get_again (s, a) ? 1 : 0);
  mpc_clear (mv);
}

#define NTOK 25
static void
do_line (char *line)
{
  char *tok[NTOK + 4], *save = NULL, *t;
  int nt = 0, i;
  mps_context *s;
  mps_monomial_poly *p;
  mps_approximation *r, **ap, *cp;
  long dpm, pc, mpwp, mprec;
  int restore;
  cplx_t *droots = NULL;
  double *drad = NULL, xd, xa;
  mpc_t *mroots = NULL;
  rdpe_t *mrad = NULL;

  for (t = strtok_r (line, " \n", &save); t && nt < NTOK + 4; t = strtok_r (NULL, " \n", &save))
    tok[nt++] = t;
  if (nt == 0)
    return;
  if (nt < NTOK)
    { printf ("%s ERROR short line\n", tok[0]); return; }
  dpm = atol (tok[2]); restore = atoi (tok[3]); pc = atol (tok[4]); mpwp = atol (tok[5]); mprec = atol (tok[15]);

  s = mps_context_new ();
  p = mps_monomial_poly_new (s, 1);
  mps_monomial_poly_set_coefficient_int (s, p, 1, 1, 0);
  mps_monomial_poly_set_coefficient_int (s, p, 0, -1, 0);
  mps_context_set_input_poly (s, MPS_POLYNOMIAL (p));
  mps_allocate_data (s);
  s->DOSORT = false;
  s->mpwp = mpwp;
  s->lastphase = tok[1][0] == 'f' ? float_phase : tok[1][0] == 'd' ? dpe_phase : mp_phase;
  s->data_prec_max.value = dpm;

  r = s->root[0];
  cplx_set_d (r->fvalue, dbl_of_hex (tok[6]), dbl_of_hex (tok[7]));
  r->frad = dbl_of_hex (tok[8]);
  rdpe_Mnt (cdpe_Re (r->dvalue)) = dbl_of_hex (tok[9]);  rdpe_Esp (cdpe_Re (r->dvalue)) = atol (tok[10]);
  rdpe_Mnt (cdpe_Im (r->dvalue)) = dbl_of_hex (tok[11]); rdpe_Esp (cdpe_Im (r->dvalue)) = atol (tok[12]);
  rdpe_Mnt (r->drad) = dbl_of_hex (tok[13]); rdpe_Esp (r->drad) = atol (tok[14]);
  mpc_set_prec (r->mvalue, mprec);
  if (!set_mpf_raw (mpc_Re (r->mvalue), tok[16], atol (tok[17])) || !set_mpf_raw (mpc_Im (r->mvalue), tok[18], atol (tok[19])))
    { printf ("%s ERROR mantissa does not fit the precision\n", tok[0]); mps_context_free (s); return; }
  r->wp = atol (tok[20]);
  r->status = (mps_root_status)atoi (tok[21]);
  r->attrs = (mps_root_attrs)atoi (tok[22]);
  r->inclusion = (mps_root_inclusion)atoi (tok[23]);
  r->again = atoi (tok[24]) ? true : false;

  /* what the end of a solve does (unisolve/main.c: mps_restore_data; both algorithms: mps_copy_roots) */
  if (restore)
    mps_restore_data (s);
  mps_copy_roots (s);

  printf ("%s S=", tok[0]);
  put_approx (r);

  mps_context_get_roots_d (s, &droots, &drad);
  printf (" D="); put_dbl (cplx_Re (droots[0])); printf (","); put_dbl (cplx_Im (droots[0])); printf (";"); put_dbl (drad[0]);
  xd = cplx_mod (droots[0]);

  mps_context_get_roots_m (s, &mroots, &mrad);
  printf (" M0="); put_mpc (mroots[0]); printf (";"); put_rdpe (mrad[0]);
  mpc_vclear (mroots, s->n); free (mroots); free (mrad);

  mroots = mpc_valloc (s->n);
  mpc_vinit2 (mroots, s->n, pc);
  for (i = 0; i < s->n; i++)
    mpc_set_d (mroots[i], -7.000000000000001, 0.3333333333333333);
  mrad = rdpe_valloc (s->n);
  mps_context_get_roots_m (s, &mroots, &mrad);
  printf (" M1="); put_mpc (mroots[0]); printf (";"); put_rdpe (mrad[0]);
  mpc_vclear (mroots, s->n); free (mroots); free (mrad);

  ap = mps_context_get_approximations (s);
  printf (" A="); put_approx (ap[0]);
  xa = cplx_mod (ap[0]->fvalue);
  printf (" GA="); put_getters (s, ap[0], pc);
  printf (" GR="); put_getters (s, r, pc);
  cp = mps_approximation_copy (s, r);
  printf (" C="); put_approx (cp);
  printf (" XD="); put_dbl (xd); printf (" XA="); put_dbl (xa);
  printf ("\n");

  mps_approximation_free (s, cp);
  for (i = 0; i < s->n + s->zero_roots; i++)
    mps_approximation_free (s, ap[i]);
  free (ap);
  free (droots); free (drad);
  mps_context_free (s);
}

int
main (void)
{
  while (fgets (linebuf, sizeof (linebuf), stdin))
    {
      do_line (linebuf);
      fflush (stdout);
    }
  return 0;
}
