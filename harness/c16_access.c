/* C16 harness: function-level tie of the accessors.  A state (fvalue, frad, dvalue, drad, mvalue with its precision and
 * limbs, wp, status, attrs, inclusion, again, lastphase, data_prec_max, mpwp) is written into a context of degree 2 through
 * the private API (approximation 1; approximation 0 is a decoy with another precision and other values, so that the loops
 * over the roots and their indices are exercised);
 * then the calls a finished solve makes (mps_restore_data if asked, mps_copy_roots) and EVERY public accessor:
 *   mps_context_get_roots_d, mps_context_get_roots_m (library-allocated storage and the caller's storage of <pc> bits),
 *   mps_context_get_approximations, mps_approximation_get_{fvalue,dvalue,mvalue,frad,drad,status,attrs,again},
 *   mps_approximaiton_get_inclusion, mps_approximation_copy.
 * Everything handed out is printed exactly (IEEE bits, DPE mantissa bits + exponent, mpf precision field + limbs).
 *
 * stdin, one case per line (same line as ocaml/access_driver.ml reads):
 *   id ph dpm restore pc mpwp  fre fim frad  dre_m dre_e dim_m dim_e  drad_m drad_e
 *      mprec re_man re_exp im_man im_exp  wp status attrs incl again
 * stdout: id S=.. D=.. M0=.. M1=.. A=.. GA=.. GR=.. C=.. XD=<cplx_mod of the get_roots_d value> XA=<cplx_mod of the approximation's fvalue>
 *   <mpf> = prec:hexmantissa:exp (low zero limbs dropped; exp = exponent of the lowest printed limb, in limbs)
 *   <approx> = fre,fim;dre,dim;mre,mim;frad;drad;wp;status;attrs;inclusion;again
 */
#include <mps/mps.h>
#include <stdio.h>
#include <stdlib.h>
#include <string.h>
#include <stdint.h>
#include <float.h>
#include <math.h>

static char linebuf[1 << 20];
static FILE *OUT;

static double
dbl_of_hex (const char *s)
{
  uint64_t u = strtoull (s, NULL, 16);
  double d;
  memcpy (&d, &u, 8);
  return d;
}

static void
put_dbl (double d)
{
  uint64_t u;
  if (d != d)
    { fprintf (OUT, "7ff8000000000000"); return; }
  memcpy (&u, &d, 8);
  fprintf (OUT, "%016llx", (unsigned long long)u);
}

static void
put_rdpe (const rdpe_t e)
{
  put_dbl (rdpe_Mnt (e));
  fprintf (OUT, ":%ld", rdpe_Esp (e));
}

static void
put_mpf (const mpf_t f)
{
  long n = labs ((long)f->_mp_size), k = 0, i;

  while (k < n && f->_mp_d[k] == 0)
    k++;
  if (k >= n)
    { fprintf (OUT, "%d:0:0", (int)f->_mp_prec); return; }
  fprintf (OUT, "%d:%s%lx", (int)f->_mp_prec, f->_mp_size < 0 ? "-" : "", (unsigned long)f->_mp_d[n - 1]);
  for (i = n - 2; i >= k; i--)
    fprintf (OUT, "%016lx", (unsigned long)f->_mp_d[i]);
  fprintf (OUT, ":%ld", (long)f->_mp_exp - n + k);
}

static void
put_mpc (mpc_t c)
{
  put_mpf (mpc_Re (c)); fprintf (OUT, ","); put_mpf (mpc_Im (c));
}

/* write the limbs of the hex integer into f (whose allocation is _mp_prec + 1 limbs) */
static int
set_mpf_raw (mpf_t f, const char *hexman, long e)
{
  mpz_t z;
  size_t n, i;

  if (mpz_init_set_str (z, hexman, 16) != 0)
    { mpz_clear (z); return 0; }
  n = mpz_size (z);
  if ((long)n > (long)f->_mp_prec + 1)
    { mpz_clear (z); return 0; }
  for (i = 0; i < n; i++)
    f->_mp_d[i] = mpz_getlimbn (z, i);
  f->_mp_size = mpz_sgn (z) < 0 ? -(int)n : (int)n;
  f->_mp_exp = n ? e + (long)n : 0;
  mpz_clear (z);
  return 1;
}

static void
put_fields (cplx_t fv, cdpe_t dv, mpc_t mv, double frad, rdpe_t drad, long wp, int st, int at, int in, int ag)
{
  put_dbl (cplx_Re (fv)); fprintf (OUT, ","); put_dbl (cplx_Im (fv)); fprintf (OUT, ";");
  put_rdpe (cdpe_Re (dv)); fprintf (OUT, ","); put_rdpe (cdpe_Im (dv)); fprintf (OUT, ";");
  put_mpc (mv); fprintf (OUT, ";");
  put_dbl (frad); fprintf (OUT, ";");
  put_rdpe (drad);
  fprintf (OUT, ";%ld;%d;%d;%d;%d", wp, st, at, in, ag);
}

static void
put_approx (mps_approximation *a)
{
  put_fields (a->fvalue, a->dvalue, a->mvalue, a->frad, a->drad, a->wp, (int)a->status, (int)a->attrs, (int)a->inclusion, a->again ? 1 : 0);
}

/* everything through the public getters, the multiprecision value into the caller's variable of pc bits */
static void
put_getters (mps_context *s, mps_approximation *a, long pc)
{
  cplx_t fv;
  cdpe_t dv;
  rdpe_t dr;
  mpc_t mv;
  double fr;

  mpc_init2 (mv, pc);
  mpc_set_d (mv, 1.2345678912345678, -3.25);
  mps_approximation_get_fvalue (s, a, fv);
  mps_approximation_get_dvalue (s, a, dv);
  mps_approximation_get_mvalue (s, a, mv);
  fr = mps_approximation_get_frad (s, a);
  mps_approximation_get_drad (s, a, dr);
  put_fields (fv, dv, mv, fr, dr, a->wp, (int)mps_approximation_get_status (s, a), (int)mps_approximation_get_attrs (s, a),
              (int)mps_approximaiton_get_inclusion (s, a), mps_approximation_get_again (s, a) ? 1 : 0);
  mpc_clear (mv);
}

/* the state of one approximation, from the tokens of the line */
static int
write_state (mps_approximation *r, char **tok, long mprec)
{
  cplx_set_d (r->fvalue, dbl_of_hex (tok[6]), dbl_of_hex (tok[7]));
  r->frad = dbl_of_hex (tok[8]);
  rdpe_Mnt (cdpe_Re (r->dvalue)) = dbl_of_hex (tok[9]);  rdpe_Esp (cdpe_Re (r->dvalue)) = atol (tok[10]);
  rdpe_Mnt (cdpe_Im (r->dvalue)) = dbl_of_hex (tok[11]); rdpe_Esp (cdpe_Im (r->dvalue)) = atol (tok[12]);
  rdpe_Mnt (r->drad) = dbl_of_hex (tok[13]); rdpe_Esp (r->drad) = atol (tok[14]);
  mpc_set_prec (r->mvalue, mprec);
  if (!set_mpf_raw (mpc_Re (r->mvalue), tok[16], atol (tok[17])) || !set_mpf_raw (mpc_Im (r->mvalue), tok[18], atol (tok[19])))
    return 0;
  r->wp = atol (tok[20]);
  r->status = (mps_root_status)atoi (tok[21]);
  r->attrs = (mps_root_attrs)atoi (tok[22]);
  r->inclusion = (mps_root_inclusion)atoi (tok[23]);
  r->again = atoi (tok[24]) ? true : false;

  return 1;
}

#define NTOK 25
static char *decoy[NTOK] = { "decoy", "m", "0", "0", "0", "64", "3ff8000000000000", "c000000000000000", "3e70000000000000",
  "3fe8000000000000", "3", "bfe0000000000000", "-2", "3fe0000000000000", "-20", "64", "5", "0", "-3", "-1", "64", "1", "0", "0", "0" };
static void
do_line (char *line)
{
  char *tok[NTOK + 4], *save = NULL, *t;
  int nt = 0, i;
  mps_context *s;
  mps_monomial_poly *p;
  mps_approximation *r, **ap, *cp;
  long dpm, pc, mpwp, mprec;
  int restore;
  cplx_t *droots = NULL;
  double *drad = NULL, xd, xa;
  mpc_t *mroots = NULL, *mroots1 = NULL;
  rdpe_t *mrad = NULL, *mrad1 = NULL;
  char *text[4] = { NULL, NULL, NULL, NULL };
  size_t tlen[4];
  int k;

  for (t = strtok_r (line, " \n", &save); t && nt < NTOK + 4; t = strtok_r (NULL, " \n", &save))
    tok[nt++] = t;
  if (nt == 0)
    return;
  if (nt < NTOK)
    { fprintf (OUT, "%s ERROR short line\n", tok[0]); return; }
  dpm = atol (tok[2]); restore = atoi (tok[3]); pc = atol (tok[4]); mpwp = atol (tok[5]); mprec = atol (tok[15]);

  s = mps_context_new ();
  p = mps_monomial_poly_new (s, 2);
  mps_monomial_poly_set_coefficient_int (s, p, 2, 1, 0);
  mps_monomial_poly_set_coefficient_int (s, p, 0, -1, 0);
  mps_context_set_input_poly (s, MPS_POLYNOMIAL (p));
  mps_allocate_data (s);
  s->DOSORT = false;
  s->mpwp = mpwp;
  s->lastphase = tok[1][0] == 'f' ? float_phase : tok[1][0] == 'd' ? dpe_phase : mp_phase;
  s->data_prec_max.value = dpm;

  /* root 0 is a decoy with its own (small) precision and values, root 1 gets the state of the line and is the one printed */
  write_state (s->root[0], decoy, 64);
  if (!write_state (s->root[1], tok, mprec))
    { fprintf (OUT, "%s ERROR mantissa does not fit the precision\n", tok[0]); mps_context_free (s); return; }
  r = s->root[s->n - 1];
  /* what the end of a solve does (unisolve/main.c: mps_restore_data; both algorithms: mps_copy_roots) */
  if (restore)
    mps_restore_data (s);
  mps_copy_roots (s);

  /* call every accessor once, then print what it handed out for each root; the two roots hold the same state, so the two
   * texts must be equal (EQ=1): the text of the last root is the output */
  mps_context_get_roots_d (s, &droots, &drad);
  mps_context_get_roots_m (s, &mroots, &mrad);
  mroots1 = mpc_valloc (s->n);
  mpc_vinit2 (mroots1, s->n, pc);
  for (i = 0; i < s->n; i++)
    mpc_set_d (mroots1[i], -7.000000000000001, 0.3333333333333333);
  mrad1 = rdpe_valloc (s->n);
  mps_context_get_roots_m (s, &mroots1, &mrad1);
  ap = mps_context_get_approximations (s);
  for (k = 0; k < s->n; k++)
    {
      OUT = open_memstream (&text[k], &tlen[k]);
      r = s->root[k];
      fprintf (OUT, "S="); put_approx (r);
      fprintf (OUT, " D="); put_dbl (cplx_Re (droots[k])); fprintf (OUT, ","); put_dbl (cplx_Im (droots[k])); fprintf (OUT, ";"); put_dbl (drad[k]);
      xd = cplx_mod (droots[k]);
      fprintf (OUT, " M0="); put_mpc (mroots[k]); fprintf (OUT, ";"); put_rdpe (mrad[k]);
      fprintf (OUT, " M1="); put_mpc (mroots1[k]); fprintf (OUT, ";"); put_rdpe (mrad1[k]);
      fprintf (OUT, " A="); put_approx (ap[k]);
      xa = cplx_mod (ap[k]->fvalue);
      fprintf (OUT, " GA="); put_getters (s, ap[k], pc);
      fprintf (OUT, " GR="); put_getters (s, r, pc);
      cp = mps_approximation_copy (s, r);
      fprintf (OUT, " C="); put_approx (cp);
      mps_approximation_free (s, cp);
      fprintf (OUT, " XD="); put_dbl (xd); fprintf (OUT, " XA="); put_dbl (xa);
      fclose (OUT);
      OUT = stdout;
    }
  fprintf (OUT, "%s %s\n", tok[0], text[s->n - 1]);
  for (k = 0; k < s->n; k++)
    free (text[k]);
  mpc_vclear (mroots, s->n); free (mroots); free (mrad);
  mpc_vclear (mroots1, s->n); free (mroots1); free (mrad1);

  for (i = 0; i < s->n + s->zero_roots; i++)
    mps_approximation_free (s, ap[i]);
  free (ap);
  free (droots); free (drad);
  mps_context_free (s);
}

int
main (void)
{
  OUT = stdout;
  while (fgets (linebuf, sizeof (linebuf), stdin))
    {
      do_line (linebuf);
      fflush (stdout);
    }
  return 0;
}
