/* C10 harness: run the real MPSolve parsers on files / strings, or the string API
 * mps_monomial_poly_set_coefficient_s, and print the parsed object canonically and
 * exactly (no rounding anywhere).
 *
 * stdin: one job per line
 *     F <path>      mps_parse_file
 *     T <path>      fopen + mps_parse_stream
 *     S <path>      whole file -> mps_parse_string
 *     A <path>      API job file: first line "<degree>", then lines "<i> <re> <im>" where a
 *                   part equal to NULL means a NULL pointer -> mps_monomial_poly_set_coefficient_s
 *     R <string>    mps_utils_build_equivalent_rational_string on the rest of the line (verbatim)
 *     B <string>    build_equivalent_rational_string (common/inline-poly-parser.c) on the rest of the line:
 *                   prints  ERS [<string>] <exponent> <sign>   or RESULT null, then CTXERR 0|1
 *     P <path>      setter job file: first line "<degree>", then one call per line, tab separated:
 *                     int <i> <re> <im>            mps_monomial_poly_set_coefficient_int
 *                     q   <i> <n/d> <n/d>          mps_monomial_poly_set_coefficient_q (mpq_set_str + canonicalize here)
 *                     s   <i> <re|NULL> <im|NULL>  mps_monomial_poly_set_coefficient_s
 *                     d   <i> <hexfloat> <hexfloat>          mps_monomial_poly_set_coefficient_d
 *                     f   <i> <prec> <hexfloat> <hexfloat>   mps_monomial_poly_set_coefficient_f (mpc of prec bits)
 *                   then the polynomial is printed as for a parsed one, the exact store (Q lines) always
 * stdout per job:
 *     BEGIN <job line>
 *     RESULT ok | RESULT error <message on one line>
 *     KIND monomial|secular|chebyshev|other <type_name>
 *     DEGREE n / STRUCT ri|rq|rf|ci|cq|cf|?? / DENSITY dense|sparse|user / PREC p
 *     SPAR 0/1 string                               (monomial only)
 *     Q <tag> <i> <num_r> <den_r> <num_i> <den_i> <canon>   exact numerators/denominators as stored
 *     GQ <i> <num_r> <den_r> <num_i> <den_i>               what mps_monomial_poly_get_coefficient_q returns
 *     M <tag> <i> <mpf_r> <mpf_i> <precbits_r> <precbits_i> exact mpf: [-]HEXMANT@EXP16 (0.HEXMANT * 16^EXP), 0 as "0@0"
 *     D <tag> <i> <hex of double re> <hex of double im>
 *     END
 * tag: c (monomial / Chebyshev coefficient), a, b (secular).
 */
#include <mps/mps.h>
#include <stdio.h>
#include <stdlib.h>
#include <string.h>
#include <stdint.h>

static void put_mpf (mpf_t x)
{
  mp_exp_t e;
  char *s = mpf_get_str (NULL, &e, 16, 0, x);
  if (s[0] == '\0' || (s[0] == '-' && s[1] == '\0'))
    printf ("0@0");
  else
    printf ("%s@%ld", s, (long)e);
  free (s);
}

static void put_q (const char *tag, int i, mpq_t r, mpq_t im)
{
  mpq_t c; int canon = 1;
  printf ("Q %s %d ", tag, i);
  mpz_out_str (stdout, 10, mpq_numref (r)); printf (" ");
  mpz_out_str (stdout, 10, mpq_denref (r)); printf (" ");
  mpz_out_str (stdout, 10, mpq_numref (im)); printf (" ");
  mpz_out_str (stdout, 10, mpq_denref (im));
  /* canonical form test without relying on mpq functions that assume it */
  mpq_init (c);
  if (mpz_sgn (mpq_denref (r)) != 0)
    {
      mpz_set (mpq_numref (c), mpq_numref (r)); mpz_set (mpq_denref (c), mpq_denref (r));
      mpq_canonicalize (c);
      if (mpz_cmp (mpq_numref (c), mpq_numref (r)) || mpz_cmp (mpq_denref (c), mpq_denref (r))) canon = 0;
    }
  if (mpz_sgn (mpq_denref (im)) != 0)
    {
      mpz_set (mpq_numref (c), mpq_numref (im)); mpz_set (mpq_denref (c), mpq_denref (im));
      mpq_canonicalize (c);
      if (mpz_cmp (mpq_numref (c), mpq_numref (im)) || mpz_cmp (mpq_denref (c), mpq_denref (im))) canon = 0;
    }
  mpq_clear (c);
  printf (" %d\n", canon);
}

static void put_m (const char *tag, int i, mpc_t c)
{
  printf ("M %s %d ", tag, i);
  put_mpf (mpc_Re (c)); printf (" ");
  put_mpf (mpc_Im (c));
  printf (" %lu %lu\n", (unsigned long)mpf_get_prec (mpc_Re (c)), (unsigned long)mpf_get_prec (mpc_Im (c)));
}

static void put_d (const char *tag, int i, cplx_t c)
{
  double re = cplx_Re (c), im = cplx_Im (c);
  uint64_t a, b;
  memcpy (&a, &re, 8); memcpy (&b, &im, 8);
  printf ("D %s %d %016llx %016llx\n", tag, i, (unsigned long long)a, (unsigned long long)b);
}

static const char *struct_name (mps_structure s)
{
  switch (s)
    {
    case MPS_STRUCTURE_REAL_INTEGER: return "ri";
    case MPS_STRUCTURE_REAL_RATIONAL: return "rq";
    case MPS_STRUCTURE_REAL_FP: return "rf";
    case MPS_STRUCTURE_COMPLEX_INTEGER: return "ci";
    case MPS_STRUCTURE_COMPLEX_RATIONAL: return "cq";
    case MPS_STRUCTURE_COMPLEX_FP: return "cf";
    default: return "??";
    }
}

static int force_q = 0;

static void dump_poly (mps_context *ctx, mps_polynomial *p)
{
  int i, n = p->degree;
  int exact = MPS_STRUCTURE_IS_INTEGER (p->structure) || MPS_STRUCTURE_IS_RATIONAL (p->structure);
  const char *tn = p->type_name ? p->type_name : "";

  if (!strcmp (tn, "mps_monomial_poly")) printf ("KIND monomial\n");
  else if (!strcmp (tn, "mps_secular_equation")) printf ("KIND secular\n");
  else if (!strcmp (tn, "mps_chebyshev_poly")) printf ("KIND chebyshev\n");
  else printf ("KIND other %s\n", tn);
  printf ("DEGREE %d\n", n);
  printf ("STRUCT %s\n", struct_name (p->structure));
  printf ("DENSITY %s\n", p->density == MPS_DENSITY_DENSE ? "dense" : p->density == MPS_DENSITY_SPARSE ? "sparse" : "user");
  printf ("PREC %ld\n", p->prec);

  if (!strcmp (tn, "mps_monomial_poly"))
    {
      mps_monomial_poly *mp = MPS_MONOMIAL_POLY (p);
      mpq_t gr, gi;
      printf ("SPAR ");
      for (i = 0; i <= n; i++) printf ("%d", mp->spar[i] ? 1 : 0);
      printf ("\n");
      mpq_init (gr); mpq_init (gi);
      for (i = 0; i <= n; i++)
        {
          if (force_q && !exact)
            put_q ("c", i, mp->initial_mqp_r[i], mp->initial_mqp_i[i]);
          if (exact)
            {
              put_q ("c", i, mp->initial_mqp_r[i], mp->initial_mqp_i[i]);
              mps_monomial_poly_get_coefficient_q (ctx, mp, i, gr, gi);
              printf ("GQ %d ", i);
              mpz_out_str (stdout, 10, mpq_numref (gr)); printf (" ");
              mpz_out_str (stdout, 10, mpq_denref (gr)); printf (" ");
              mpz_out_str (stdout, 10, mpq_numref (gi)); printf (" ");
              mpz_out_str (stdout, 10, mpq_denref (gi)); printf ("\n");
            }
          put_m ("c", i, mp->mfpc[i]);
          put_d ("c", i, mp->fpc[i]);
        }
      mpq_clear (gr); mpq_clear (gi);
    }
  else if (!strcmp (tn, "mps_secular_equation"))
    {
      mps_secular_equation *sec = MPS_SECULAR_EQUATION (p);
      for (i = 0; i < n; i++)
        {
          if (exact)
            {
              put_q ("a", i, sec->initial_ampqrc[i], sec->initial_ampqic[i]);
              put_q ("b", i, sec->initial_bmpqrc[i], sec->initial_bmpqic[i]);
            }
          put_m ("a", i, sec->initial_ampc[i]);
          put_m ("b", i, sec->initial_bmpc[i]);
          put_d ("a", i, sec->afpc[i]);
          put_d ("b", i, sec->bfpc[i]);
        }
    }
  else if (!strcmp (tn, "mps_chebyshev_poly"))
    {
      mps_chebyshev_poly *cp = MPS_CHEBYSHEV_POLY (p);
      for (i = 0; i <= n; i++)
        {
          if (exact)
            put_q ("c", i, cp->rational_real_coeffs[i], cp->rational_imag_coeffs[i]);
          put_m ("c", i, cp->mfpc[i]);
          put_d ("c", i, cp->fpc[i]);
        }
    }
}

static char *slurp (const char *path)
{
  FILE *f = fopen (path, "rb");
  long n; char *b;
  if (!f) return NULL;
  fseek (f, 0, SEEK_END); n = ftell (f); fseek (f, 0, SEEK_SET);
  b = (char*)malloc (n + 1);
  if (fread (b, 1, n, f) != (size_t)n) { fclose (f); free (b); return NULL; }
  b[n] = 0; fclose (f);
  return b;
}

static void one_line_msg (const char *m)
{
  for (; m && *m; m++) putchar ((*m == '\n' || *m == '\r') ? ' ' : *m);
}

static void finish_parse (mps_context *ctx, mps_polynomial *p)
{
  if (!p || mps_context_has_errors (ctx))
    {
      char *m = mps_context_has_errors (ctx) ? mps_context_error_msg (ctx) : NULL;
      printf ("RESULT error ");
      one_line_msg (m ? m : "(no message)");
      printf ("\n");
      if (m) free (m);
    }
  else
    {
      printf ("RESULT ok\n");
      dump_poly (ctx, p);
    }
}

int main (int argc, char **argv)
{
  char *line = NULL; size_t cap = 0; ssize_t len;

  while ((len = getline (&line, &cap, stdin)) > 0)
    {
      char mode; char *arg;
      if (line[len - 1] == '\n') line[--len] = 0;
      if (len < 2) continue;
      mode = line[0]; arg = line + 2;
      printf ("BEGIN %s\n", line);
      if (mode == 'R')
        {
          mps_context *ctx = mps_context_new ();
          char *r = mps_utils_build_equivalent_rational_string (ctx, arg);
          if (r) { printf ("RESULT ok\nEQ [%s]\n", r); free (r); }
          else printf ("RESULT null\n");
          printf ("CTXERR %d\n", mps_context_has_errors (ctx) ? 1 : 0);
          mps_context_free (ctx);
        }
      else if (mode == 'B')
        {
          /* one context for all B jobs (creating one starts a thread pool); renewed after it has recorded an error */
          static mps_context *bctx = NULL;
          long int ex = 0; int sign = 1;
          char *r;
          if (!bctx) bctx = mps_context_new ();
          r = build_equivalent_rational_string (bctx, arg, &ex, &sign);
          if (r) { printf ("RESULT ok\nERS [%s] %ld %d\n", r, ex, sign); free (r); }
          else printf ("RESULT null\n");
          printf ("CTXERR %d\n", mps_context_has_errors (bctx) ? 1 : 0);
          if (mps_context_has_errors (bctx)) { mps_context_free (bctx); bctx = NULL; }
        }
      else if (mode == 'F' || mode == 'T' || mode == 'S')
        {
          mps_context *ctx = mps_context_new ();
          mps_polynomial *p = NULL;
          if (mode == 'F')
            p = mps_parse_file (ctx, arg);
          else if (mode == 'T')
            {
              FILE *f = fopen (arg, "r");
              if (f) { p = mps_parse_stream (ctx, f); fclose (f); }
            }
          else
            {
              char *txt = slurp (arg);
              if (txt) { p = mps_parse_string (ctx, txt); free (txt); }
            }
          finish_parse (ctx, p);
          if (p) mps_polynomial_free (ctx, p);
          mps_context_free (ctx);
        }
      else if (mode == 'A')
        {
          mps_context *ctx = mps_context_new ();
          FILE *f = fopen (arg, "r");
          int n = 0, i;
          char *l2 = NULL; size_t c2 = 0;
          mps_monomial_poly *mp;
          if (!f || fscanf (f, "%d\n", &n) != 1 || n < 0) { printf ("RESULT error bad api job\nEND\n"); continue; }
          mp = mps_monomial_poly_new (ctx, n);
          while (getline (&l2, &c2, f) > 0)
            {
              /* "<i>\t<re>\t<im>" : tab separated so that parts may contain blanks */
              char *t1 = strchr (l2, '\t'), *t2, *e;
              if (!t1) continue;
              *t1++ = 0; t2 = strchr (t1, '\t');
              if (!t2) continue;
              *t2++ = 0; e = strchr (t2, '\n'); if (e) *e = 0;
              i = atoi (l2);
              if (i < 0 || i > n) continue;
              mps_monomial_poly_set_coefficient_s (ctx, mp, i, strcmp (t1, "NULL") ? t1 : NULL, strcmp (t2, "NULL") ? t2 : NULL);
            }
          free (l2); fclose (f);
          finish_parse (ctx, MPS_POLYNOMIAL (mp));
          mps_polynomial_free (ctx, MPS_POLYNOMIAL (mp));
          mps_context_free (ctx);
        }
      else if (mode == 'P')
        {
          mps_context *ctx = mps_context_new ();
          FILE *f = fopen (arg, "r");
          int n = 0;
          char *l2 = NULL; size_t c2 = 0;
          mps_monomial_poly *mp;
          if (!f || fscanf (f, "%d\n", &n) != 1 || n < 0) { printf ("RESULT error bad setter job\nEND\n"); continue; }
          mp = mps_monomial_poly_new (ctx, n);
          fflush (stdout);
          while (getline (&l2, &c2, f) > 0)
            {
              char *w[6]; int k = 0; char *q = l2, *e;
              long i;
              e = strchr (l2, '\n'); if (e) *e = 0;
              while (k < 6 && q) { w[k++] = q; q = strchr (q, '\t'); if (q) *q++ = 0; }
              if (k < 4) continue;
              i = atol (w[1]);
              if (i < 0 || i > n) continue;             /* the setters do not check the index */
              if (!strcmp (w[0], "int"))
                mps_monomial_poly_set_coefficient_int (ctx, mp, i, atoll (w[2]), atoll (w[3]));
              else if (!strcmp (w[0], "q"))
                {
                  mpq_t a, b; mpq_init (a); mpq_init (b);
                  mpq_set_str (a, w[2], 10); mpq_canonicalize (a);
                  mpq_set_str (b, w[3], 10); mpq_canonicalize (b);
                  mps_monomial_poly_set_coefficient_q (ctx, mp, i, a, b);
                  mpq_clear (a); mpq_clear (b);
                }
              else if (!strcmp (w[0], "s"))
                mps_monomial_poly_set_coefficient_s (ctx, mp, (int)i, strcmp (w[2], "NULL") ? w[2] : NULL, strcmp (w[3], "NULL") ? w[3] : NULL);
              else if (!strcmp (w[0], "d"))
                mps_monomial_poly_set_coefficient_d (ctx, mp, i, strtod (w[2], NULL), strtod (w[3], NULL));
              else if (!strcmp (w[0], "f") && k >= 5)
                {
                  mpc_t c; mpc_init2 (c, atol (w[2]));
                  mpc_set_d (c, strtod (w[3], NULL), strtod (w[4], NULL));
                  mps_monomial_poly_set_coefficient_f (ctx, mp, i, c);
                  mpc_clear (c);
                }
            }
          free (l2); fclose (f);
          printf ("RESULT ok\n");
          force_q = 1; dump_poly (ctx, MPS_POLYNOMIAL (mp)); force_q = 0;
          mps_polynomial_free (ctx, MPS_POLYNOMIAL (mp));
          mps_context_free (ctx);
        }
      printf ("END\n");
      fflush (stdout);
    }
  free (line);
  return 0;
}
