/* c02_wrap: event trace of the control flow that decides the statuses (C02, second layer).
 * Linked into harness/vf_solve.c with  -Wl,--wrap=<fn>  for every function below: calls ACROSS translation units
 * (unisolve/main.c -> solve.c, modify.c, improve.c ...; common/improve.c -> threading.c, polynomial.c) go through
 * __wrap_<fn>, which calls the real function and prints one line `C02EV <tag> ...` on stdout with what the context
 * holds at that call.  Nothing in /repo is edited.
 *
 * roots are printed   n st:inc:none ...        (status, inclusion, attrs == MPS_ROOT_ATTRS_NONE)
 * a modify call       MOD v track inphase ncl (cn k m*k)* n (st:inc:none:radM:radE:modM:modE:wc)* AFTER n st:inc:none ...
 *                     rad/mod: the operands of the radius test as the variant reads them (DPE mantissa bits:exponent),
 *                     wc: the outcome of the test recomputed here with the same operations (modify.c keeps it in no variable)
 */
#include <mps/mps.h>
#include <stdio.h>
#include <stdlib.h>
#include <string.h>
#include <stdint.h>
#include <math.h>
#include <limits.h>

static int in_phase = 0, in_improve = 0, in_std = 0, in_sec = 0, sec_depth = 0, in_hook = 0;
static mps_context *g_ctx = NULL;

mps_boolean __real_mps_context_has_errors (mps_context *s);
static void p_d (double d) { uint64_t u; memcpy (&u, &d, 8); printf ("%016lx", (unsigned long)u); }
static void p_rdpe (const rdpe_t e) { p_d (rdpe_Mnt (e)); printf (":%ld", rdpe_Esp (e)); }
static void p_roots (mps_context *s)
{
  int i;
  printf (" %d", s->n);
  for (i = 0; i < s->n; i++)
    printf (" %d:%d:%d", (int)s->root[i]->status, (int)s->root[i]->inclusion, s->root[i]->attrs == MPS_ROOT_ATTRS_NONE);
}

/* ------------------------------------------------------------------ the classic driver */
void __real_mps_standard_mpsolve (mps_context *s);
void __wrap_mps_standard_mpsolve (mps_context *s)
{
  mps_polynomial *p = s->active_poly;
  in_std = 1;
  printf ("C02EV STD_BEGIN %d %d %d %d %d %ld %ld %ld %d %ld %d\n", (int)s->output_config->goal, (int)s->output_config->multiplicity,
          s->output_config->root_properties != 0, (int)s->resume,
          p->fnewton != NULL && p->dnewton != NULL && p->mnewton != NULL, s->mpwp_max, mps_context_get_minimum_precision (s),
          p->prec, p->density == MPS_DENSITY_USER, s->output_config->prec, s->n);
  __real_mps_standard_mpsolve (s);
  printf ("C02EV STD_END %d %d %ld\n", (int)__real_mps_context_has_errors (s), (int)s->over_max, s->mpwp);
  in_std = 0;
}

void __real_mps_check_data (mps_context *s, char *which_case);
void __wrap_mps_check_data (mps_context *s, char *which_case)
{
  __real_mps_check_data (s, which_case);
  printf ("C02EV CD %d %d\n", *which_case == 'd', (int)__real_mps_context_has_errors (s));
}

void __real_mps_fsolve (mps_context *s, mps_boolean *d_after_f);
void __wrap_mps_fsolve (mps_context *s, mps_boolean *d_after_f)
{
  in_phase++; __real_mps_fsolve (s, d_after_f); in_phase--;
  printf ("C02EV FS %d", (int)*d_after_f); p_roots (s); printf ("\n");
}
void __real_mps_dsolve (mps_context *s, mps_boolean d_after_f);
void __wrap_mps_dsolve (mps_context *s, mps_boolean d_after_f)
{
  in_phase++; __real_mps_dsolve (s, d_after_f); in_phase--;
  printf ("C02EV DS"); p_roots (s); printf ("\n");
}
void __real_mps_msolve (mps_context *s);
void __wrap_mps_msolve (mps_context *s)
{
  in_phase++; __real_mps_msolve (s); in_phase--;
  printf ("C02EV MS"); p_roots (s); printf ("\n");
}

mps_boolean __real_mps_check_stop (mps_context *s);
mps_boolean __wrap_mps_check_stop (mps_context *s)
{
  mps_boolean r = __real_mps_check_stop (s);
  printf ("C02EV STOP %d", (int)r); p_roots (s); printf ("\n");
  return r;
}

/* the three modify variants: operands before, statuses after */
static void modify_before (mps_context *s, int variant, mps_boolean track)
{
  mps_cluster_item *ci; mps_root *r; int i;
  char *single = (char *)calloc (s->n + 1, 1);
  printf ("C02EV MOD %c %d %d %ld", "fdm"[variant], (int)track, in_phase, s->clusterization->n);
  for (ci = s->clusterization->first; ci != NULL; ci = ci->next)
    {
      long k = 0;
      for (r = ci->cluster->first; r != NULL; r = r->next) k++;
      printf (" %ld %ld", ci->cluster->n, k);
      for (r = ci->cluster->first; r != NULL; r = r->next)
        {
          printf (" %ld", r->k);
          if (ci->cluster->n == 1 && r->k >= 0 && r->k < s->n) single[r->k] = 1;
        }
    }
  printf (" %d", s->n);
  for (i = 0; i < s->n; i++)
    {
      rdpe_t rad, mod, q; cdpe_t cd; int wc;
      if (variant == 0)
        {
          double m = cplx_mod (s->root[i]->fvalue), eps = rdpe_get_d (s->eps_out);
          rdpe_set_d (rad, s->root[i]->frad); rdpe_set_d (mod, m);
          if (single[i]) wc = s->root[i]->frad < m * eps;
          else { rdpe_set_d (q, s->root[i]->frad); rdpe_div_eq_d (q, m); wc = rdpe_le (q, s->eps_out); }
        }
      else
        {
          rdpe_set (rad, s->root[i]->drad);
          if (variant == 1) cdpe_mod (mod, s->root[i]->dvalue);
          else { mpc_get_cdpe (cd, s->root[i]->mvalue); cdpe_mod (mod, cd); }
          rdpe_set (q, rad); rdpe_div_eq (q, mod); wc = rdpe_le (q, s->eps_out);
        }
      printf (" %d:%d:%d:", (int)s->root[i]->status, (int)s->root[i]->inclusion, s->root[i]->attrs == MPS_ROOT_ATTRS_NONE);
      p_rdpe (rad); printf (":"); p_rdpe (mod); printf (":%d", wc);
    }
  free (single);
}
void __real_mps_fmodify (mps_context *s, mps_boolean t);
void __wrap_mps_fmodify (mps_context *s, mps_boolean t)
{ modify_before (s, 0, t); __real_mps_fmodify (s, t); printf (" AFTER"); p_roots (s); printf ("\n"); }
void __real_mps_dmodify (mps_context *s, mps_boolean t);
void __wrap_mps_dmodify (mps_context *s, mps_boolean t)
{ modify_before (s, 1, t); __real_mps_dmodify (s, t); printf (" AFTER"); p_roots (s); printf ("\n"); }
void __real_mps_mmodify (mps_context *s, mps_boolean t);
void __wrap_mps_mmodify (mps_context *s, mps_boolean t)
{ modify_before (s, 2, t); __real_mps_mmodify (s, t); printf (" AFTER"); p_roots (s); printf ("\n"); }

mps_boolean __real_mps_inclusion (mps_context *s);
mps_boolean __wrap_mps_inclusion (mps_context *s)
{
  long ncl = s->clusterization->n;
  mps_boolean r = __real_mps_inclusion (s);
  printf ("C02EV INCL %ld %d\n", ncl, (int)r);
  return r;
}

/* ------------------------------------------------------------------ mps_improve */
void __real_mps_improve (mps_context *s);
void __wrap_mps_improve (mps_context *s)
{
  long cp0 = LONG_MAX; int i;
  for (i = 0; i < s->n; i++) if (s->root[i]->wp < cp0) cp0 = s->root[i]->wp;
  printf ("C02EV IMP_BEGIN %d %d %ld %ld %ld", s->active_poly->mnewton == NULL, s->active_poly->density == MPS_DENSITY_USER,
          s->active_poly->prec, cp0, s->output_config->prec);
  p_roots (s); printf ("\n");
  in_improve = 1; __real_mps_improve (s); in_improve = 0;
  printf ("C02EV IMP_END %d", (int)s->over_max); p_roots (s); printf ("\n");
}

/* the job wait of one refinement round: what the marking loop that follows will read */
void __real_mps_thread_pool_wait (mps_context *s, mps_thread_pool *pool);
void __wrap_mps_thread_pool_wait (mps_context *s, mps_thread_pool *pool)
{
  __real_mps_thread_pool_wait (s, pool);
  if (in_improve)
    {
      int i;
      printf ("C02EV IMP_ROUND %d", s->n);
      for (i = 0; i < s->n; i++)
        {
          rdpe_t module; int bits;
          mpc_rmod (module, s->root[i]->mvalue);
          bits = (rdpe_log (module) - rdpe_log (s->root[i]->drad)) / LOG2 - 1;       /* get_approximated_bits */
          printf (" %d:%d:%d", (int)s->root[i]->status, (int)s->root[i]->inclusion, bits >= s->output_config->prec);
        }
      printf ("\n");
    }
}

void __real_mps_copy_roots (mps_context *s);
void __wrap_mps_copy_roots (mps_context *s)
{
  printf ("C02EV COPY %ld %d %ld %d", s->clusterization->n, (int)s->over_max, s->mpwp, (int)__real_mps_context_has_errors (s));
  p_roots (s); printf ("\n");
  __real_mps_copy_roots (s);
}

/* ------------------------------------------------------------------ the secular driver
 * Calls from secsolve/secular-ga.c into other translation units are wrapped as above.  mps_secular_ga_check_stop is
 * called from its own translation unit: the check compiles a COPY of the snapshot's secular-ga.c with
 * -finstrument-functions into this harness (it then replaces the archive member); the exit hook below prints what
 * the context holds when mps_secular_ga_check_stop returns and its answer (the function is pure: it is called once
 * more from the hook to read it). */
#define NOINSTR __attribute__((no_instrument_function))
static void p_sts (mps_context *s) NOINSTR;
static void p_sts (mps_context *s)
{
  int i; printf (" %d", s->n);
  for (i = 0; i < s->n; i++) printf (" %d", (int)s->root[i]->status);
}
void __cyg_profile_func_enter (void *fn, void *site) NOINSTR;
void __cyg_profile_func_exit (void *fn, void *site) NOINSTR;
void __cyg_profile_func_enter (void *fn, void *site) { (void)fn; (void)site; }
void __cyg_profile_func_exit (void *fn, void *site)
{
  (void)site;
  if (fn == (void *)mps_secular_ga_check_stop && g_ctx != NULL && in_sec && !in_hook)
    {
      mps_boolean r;
      in_hook = 1;
      r = mps_secular_ga_check_stop (g_ctx);
      printf ("C02EV SSTOP %d %d %d", (int)r, (int)g_ctx->exit_required, (int)g_ctx->lastphase); p_sts (g_ctx); printf ("\n");
      in_hook = 0;
    }
}

mps_boolean __real_mps_context_has_errors (mps_context *s);
mps_boolean __wrap_mps_context_has_errors (mps_context *s)
{
  mps_boolean r = __real_mps_context_has_errors (s);
  if (in_sec && sec_depth == 0 && !in_hook && !in_improve)
    printf ("C02EV ERRQ %d %d %d\n", (int)r, (int)s->lastphase, (int)s->exit_required);
  return r;
}

void __real_mps_secular_ga_mpsolve (mps_context *s);
void __wrap_mps_secular_ga_mpsolve (mps_context *s)
{
  mps_polynomial *p = s->active_poly;
  g_ctx = s; 
  printf ("C02EV SEC_BEGIN %d %d %d %d %d %d %ld %d %d %ld %d\n", (int)s->output_config->goal, MPS_IS_SECULAR_EQUATION (p) ? 1 : 0,
          (int)s->input_config->starting_phase, (int)s->crude_approximation_mode, (int)s->avoid_multiprecision, s->max_pack, p->prec,
          p->mnewton == NULL, p->density == MPS_DENSITY_USER, s->output_config->prec, p->degree);
  in_sec = 1; sec_depth = 0;
  __real_mps_secular_ga_mpsolve (s);
  in_sec = 0;
  printf ("C02EV SEC_END %d %d %d\n", (int)__real_mps_context_has_errors (s), (int)s->over_max, (int)s->lastphase);
}

#define SECWRAP_VOID(name, decl, args, after)                                   \
  void __real_##name decl;                                                      \
  void __wrap_##name decl { sec_depth++; __real_##name args; sec_depth--; if (in_sec && sec_depth == 0) { after; } }

SECWRAP_VOID (mps_polynomial_fstart, (mps_context *s, mps_polynomial *p, mps_approximation **a), (s, p, a),
              printf ("C02EV START f %d\n", (int)__real_mps_context_has_errors (s)))
SECWRAP_VOID (mps_polynomial_dstart, (mps_context *s, mps_polynomial *p, mps_approximation **a), (s, p, a),
              printf ("C02EV START d %d\n", (int)__real_mps_context_has_errors (s)))
SECWRAP_VOID (mps_cluster_analysis, (mps_context *s, mps_polynomial *p), (s, p), printf ("C02EV CLUSTER\n"))
SECWRAP_VOID (mps_secular_fstart, (mps_context *s, mps_secular_equation *e, mps_approximation **a), (s, e, a), printf ("C02EV SSTART f\n"))
SECWRAP_VOID (mps_secular_dstart, (mps_context *s, mps_secular_equation *e, mps_approximation **a), (s, e, a), printf ("C02EV SSTART d\n"))
SECWRAP_VOID (mps_secular_mstart, (mps_context *s, mps_secular_equation *e, mps_approximation **a), (s, e, a), printf ("C02EV SSTART m\n"))
SECWRAP_VOID (mps_secular_switch_phase, (mps_context *s, mps_phase ph), (s, ph), printf ("C02EV SWITCH %d\n", (int)s->lastphase))
SECWRAP_VOID (mps_secular_raise_precision, (mps_context *s, int wp), (s, wp), printf ("C02EV RAISE %d\n", wp))
SECWRAP_VOID (mps_secular_restart, (mps_context *s), (s), printf ("C02EV RESTART\n"))
SECWRAP_VOID (mps_validate_inclusions, (mps_context *s), (s), { printf ("C02EV VALIDATE"); p_sts (s); printf ("\n"); })
SECWRAP_VOID (mps_mupdate_inclusions, (mps_context *s), (s), printf ("C02EV MUPD\n"))

mps_boolean __real_mps_secular_ga_regenerate_coefficients (mps_context *s);
mps_boolean __wrap_mps_secular_ga_regenerate_coefficients (mps_context *s)
{
  mps_boolean r;
  sec_depth++; r = __real_mps_secular_ga_regenerate_coefficients (s); sec_depth--;
  if (in_sec && sec_depth == 0) printf ("C02EV REGEN %d %d\n", (int)r, (int)s->lastphase);
  return r;
}

#define SECWRAP_ITER(name, kind, T2)                                                                   \
  int __real_##name (mps_context *s, T2 b, mps_boolean jr);                                            \
  int __wrap_##name (mps_context *s, T2 b, mps_boolean jr)                                             \
  {                                                                                                    \
    int r; sec_depth++; r = __real_##name (s, b, jr); sec_depth--;                                     \
    if (in_sec && sec_depth == 0)                                                                      \
      { printf ("C02EV PACKET %s %d %d %d %d %d", kind, r == -1, (int)s->best_approx, (int)s->lastphase, (int)s->exit_required, (int)jr); \
        p_sts (s); printf ("\n"); }                                                                    \
    return r;                                                                                          \
  }
SECWRAP_ITER (mps_secular_ga_fiterate, "sf", int)
SECWRAP_ITER (mps_secular_ga_diterate, "sd", int)
SECWRAP_ITER (mps_secular_ga_miterate, "sm", int)
SECWRAP_ITER (mps_faberth_packet, "jf", mps_polynomial *)
SECWRAP_ITER (mps_daberth_packet, "jd", mps_polynomial *)
SECWRAP_ITER (mps_maberth_packet, "jm", mps_polynomial *)
