/* c01_reuse: several solves of the real library on ONE mps_context (context reuse), each exported exactly like
 * harness/vf_solve.c exports a single solve (the export helpers are the ones of vf_solve.c, included below with its
 * main renamed), so that lib/solve.py parses every segment and checks/C01.py judges it like a fresh solve.
 *
 * usage: c01_reuse SEG [-- SEG]...      SEG = FILE [-a u|s] [-G i|a] [-o DIGITS] [-B BITS] [-t f|d] [-b] [-r] [-c] [-j N]
 *
 * Per segment the options that a caller of the public API would set again are set again (algorithm, goal, output
 * precision, starting phase, Jacobi flag, starting strategy, crude mode: given value or the context's default), the
 * file is parsed with the SAME context, installed with mps_context_set_input_poly and solved with mps_mpsolve.
 * Output:   SEGMENT <k>
 *           <export of vf_solve: PARSE-ERR | PARSED, POLY.., (SOLVE-ERR | META, ORDER, ROOT.., ACCM.., ACCD.., ACCA..)>
 *           SEGMENT-END <k>
 * A parse error leaves the context in its (sticky) error state: the following segments then report SOLVE-ERR, which is
 * the library's documented way of refusing (mps_mpsolve returns at once when the context has errors).
 * Polynomials are freed at the very end (the context may still refer to the active one).
 */
#define main vf_solve_single_main
#include "vf_solve.c"
#undef main

#define MAXSEG 8

static void export_solution (FILE *f, mps_context *s)
{
  int i;
  fprintf (f, "META degree=%d n=%d zero_roots=%d over_max=%d lastphase=%d prec_out=%ld goal=%d search_set=%d data_prec_max=%ld mpwp=%ld\n",
           mps_context_get_degree (s), s->n, mps_context_get_zero_roots (s), (int)mps_context_get_over_max (s),
           (int)s->lastphase, s->output_config->prec, (int)s->output_config->goal, (int)s->output_config->search_set,
           mps_context_get_data_prec_max (s), s->mpwp);
  fprintf (f, "ORDER");
  for (i = 0; i < s->n; i++)
    fprintf (f, " %d", s->order[i]);
  fprintf (f, "\n");
  for (i = 0; i < s->n; i++)
    {
      mps_approximation *r = s->root[i];
      fprintf (f, "ROOT %d status=%d inclusion=%d attrs=%d again=%d approximated=%d wp=%ld M ", i,
               (int)mps_context_get_root_status (s, i), (int)r->inclusion, (int)r->attrs, (int)r->again, (int)r->approximated, r->wp);
      out_mpc (f, r->mvalue); fprintf (f, " DR "); out_rdpe (f, r->drad);
      fprintf (f, " FR "); out_d (f, r->frad);
      fprintf (f, " FV "); out_d (f, cplx_Re (r->fvalue)); fputc (' ', f); out_d (f, cplx_Im (r->fvalue));
      fprintf (f, " DV "); out_rdpe (f, cdpe_Re (r->dvalue)); fputc (' ', f); out_rdpe (f, cdpe_Im (r->dvalue));
      fputc ('\n', f);
      fprintf (f, "MVX %d ", i); out_mpf_exact (f, mpc_Re (r->mvalue)); fputc (' ', f); out_mpf_exact (f, mpc_Im (r->mvalue)); fputc ('\n', f);
    }
  {
    mpc_t *mr = NULL; rdpe_t *rad = NULL;
    mps_context_get_roots_m (s, &mr, &rad);
    for (i = 0; i < s->n; i++)
      {
        fprintf (f, "ACCM %d ", i); out_mpc (f, mr[i]); fputc (' ', f); out_rdpe (f, rad[i]); fputc ('\n', f);
      }
    mpc_vclear (mr, s->n); free (mr); free (rad);
  }
  {
    cplx_t *dr = NULL; double *rad = NULL;
    mps_context_get_roots_d (s, &dr, &rad);
    for (i = 0; i < s->n; i++)
      {
        fprintf (f, "ACCD %d ", i); out_d (f, cplx_Re (dr[i])); fputc (' ', f); out_d (f, cplx_Im (dr[i]));
        fputc (' ', f); out_d (f, rad[i]); fputc ('\n', f);
      }
    free (dr); free (rad);
  }
  fflush (f);
}

int main (int argc, char **argv)
{
  mps_context *s = mps_context_new ();
  mps_polynomial *polys[MAXSEG]; int npolys = 0;
  FILE *f = stdout;
  int i = 1, k = 0;
  /* the values a fresh context has */
  long def_prec = s->output_config->prec;
  mps_output_goal def_goal = s->output_config->goal;
  mps_starting_strategy def_strategy = s->starting_strategy;
  char *obuf = NULL; size_t olen = 0;
  FILE *ostr = open_memstream (&obuf, &olen);

  s->outstr = ostr;
  while (i < argc && k < MAXSEG)
    {
      const char *file = NULL; int explicit_alg = 0, alg_sec = 0, jac = 0, rec = 0, crude = 0, nthreads = 0;
      long prec = def_prec; mps_output_goal goal = def_goal; mps_phase phase = float_phase;
      mps_polynomial *poly;
      for (; i < argc && strcmp (argv[i], "--") != 0; i++)
        {
          char *a = argv[i];
          char *v = (i + 1 < argc) ? argv[i + 1] : (char*)"";
          if (a[0] != '-') { file = a; continue; }
          switch (a[1])
            {
            case 'a': explicit_alg = 1; alg_sec = v[0] != 'u'; i++; break;
            case 'G': goal = v[0] == 'a' ? MPS_OUTPUT_GOAL_APPROXIMATE : MPS_OUTPUT_GOAL_ISOLATE; i++; break;
            case 'o': prec = (atoi (v)) * LOG2_10 + 1; i++; break;
            case 'B': prec = atol (v); i++; break;
            case 't': phase = v[0] == 'd' ? dpe_phase : float_phase; i++; break;
            case 'b': jac = 1; break;
            case 'r': rec = 1; break;
            case 'c': crude = 1; break;
            case 'j': nthreads = atoi (v); i++; break;
            default: fprintf (stderr, "c01_reuse: bad option %s\n", a); return 2;
            }
        }
      i++;                      /* skip the separator */
      if (!file) { fprintf (stderr, "c01_reuse: segment %d without input\n", k); return 2; }
      fprintf (f, "SEGMENT %d\n", k);
      if (nthreads > 0) { mps_thread_pool_set_concurrency_limit (s, NULL, nthreads); s->n_threads = nthreads; }
      mps_context_set_output_goal (s, goal);
      mps_context_set_output_prec (s, prec);
      mps_context_set_jacobi_iterations (s, jac ? true : false);
      mps_context_select_starting_strategy (s, rec ? MPS_STARTING_STRATEGY_RECURSIVE : def_strategy);
      mps_context_set_crude_approximation_mode (s, crude ? true : false);
      if (explicit_alg)
        mps_context_select_algorithm (s, alg_sec ? MPS_ALGORITHM_SECULAR_GA : MPS_ALGORITHM_STANDARD_MPSOLVE);

      poly = mps_parse_file (s, file);
      if (!poly || mps_context_has_errors (s))
        {
          fprintf (f, "PARSE-ERR flag=%d poly=%d msg=%s\n", (int)mps_context_has_errors (s), poly != NULL,
                   mps_context_has_errors (s) ? mps_context_error_msg (s) : "");
          fprintf (f, "SEGMENT-END %d\n", k); fflush (f); k++;
          if (poly) polys[npolys++] = poly;
          continue;
        }
      polys[npolys++] = poly;
      fprintf (f, "PARSED degree=%d\n", poly->degree);
      mps_context_set_input_poly (s, poly);
      if (!explicit_alg)
        mps_context_select_algorithm (s, (MPS_IS_MONOMIAL_POLY (poly) && MPS_DENSITY_IS_SPARSE (poly->density)) ?
                                      MPS_ALGORITHM_STANDARD_MPSOLVE : MPS_ALGORITHM_SECULAR_GA);
      mps_context_set_starting_phase (s, phase);
      dump_poly (f, s, poly);
      fflush (f);

      mps_mpsolve (s);

      if (mps_context_has_errors (s))
        fprintf (f, "SOLVE-ERR msg=%s\n", mps_context_error_msg (s));
      else
        export_solution (f, s);
      fprintf (f, "SEGMENT-END %d\n", k); fflush (f); k++;
    }
  for (i = 0; i < npolys; i++)
    mps_polynomial_free (s, polys[i]);
  mps_context_free (s);
  fclose (ostr); free (obuf);
  return 0;
}
