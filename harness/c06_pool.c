/* c06_pool.c -- C06: scripts over the real mps_thread_pool API under the deterministic
 * scheduler shim (vf_sched).  Every run prints its trace as a block
 *     # run <seq> script <s> status <st> rc <rc> cost <c> div <d> what <w> sched <csv>
 *     <trace lines>
 *     # end
 * on stdout (consumed by bin/pool, the extracted model).  Harness-level facts (the
 * property's own predicate) are asserted inside the run:
 *   - no task body runs twice (execution counter <= 1 at all times),
 *   - when mps_thread_pool_wait returns, every task handed over so far has counter == 1
 *     and has finished,
 *   - after mps_thread_pool_free no created thread is unfinished, every task ran once.
 * A run that deadlocks (shim) has status 1.
 *
 * Script (blank separated):  n<k>  new pool with k workers (first token)
 *   a<k> assign k fresh tasks    w wait    l<m> set_concurrency_limit(m)    f free (after a wait)
 *   s / S set strict_async true / false
 *   nested assign (a task body calls mps_thread_pool_assign on the same pool after its yield):
 *   N<k> assign k tasks each of which hands over one further task
 *   B<k> assign one task that hands over k further tasks (breadth)
 *   D<k> assign one task that hands over a task that hands over ... (chain of k nested levels, k <= 3)
 *   F    free on a pool that may be busy (no wait before): tasks still queued are lost (never run),
 *        nothing runs twice, every worker is joined, free does not block.
 * The body of every task is: event start; count; sched_yield; [event assign c; assign; event assign_ret]*;
 * event end.
 * usage: c06_pool --script "n2 a2 w f" (--dfs B [--free-switch] [--shard i/n] | --random N | --pct N [--depth d]
 *                  | --replay csv | --follow tids) [--seed S] [--spurious K] [--max-runs N] [--quiet]
 */
#include <stdio.h>
#include <stdlib.h>
#include <string.h>
#include <mps/mps.h>
#include "vf_sched.h"

#define MAXTASK 64
static int count_[MAXTASK], done_[MAXTASK], handed[MAXTASK], n_tasks = 0;
static mps_thread_pool *pool; static mps_context *fake;
static const char *script = "n2 a1 w f";
static int quiet = 0;

#define MAXCHILD 4
typedef struct { int id; int nchild; int child[MAXCHILD]; } targ;
static targ targs[MAXTASK];

static void *task_body (void *p)
{
  targ *a = (targ *) p; int i;
  vf_event ("start", a->id);
  if (++count_[a->id] > 1) vf_fail ("task-executed-twice");
  sched_yield ();
  for (i = 0; i < a->nchild; i++) {
    int c = a->child[i];
    vf_event ("assign", c);
    handed[c] = 1;
    mps_thread_pool_assign (fake, pool, task_body, &targs[c]);
    vf_event ("assign_ret", 0);
  }
  done_[a->id] = 1;
  vf_event ("end", a->id);
  return NULL;
}
static int new_task (void) { int t = n_tasks++; if (t >= MAXTASK) { fprintf (stderr, "too many tasks\n"); exit (2); } targs[t].id = t; targs[t].nchild = 0; return t; }
static void add_child (int t, int c) { if (targs[t].nchild >= MAXCHILD) { fprintf (stderr, "too many children\n"); exit (2); } targs[t].child[targs[t].nchild++] = c; }
static void client_assign (int t)
{
  vf_event ("assign", t);
  handed[t] = 1;
  mps_thread_pool_assign (fake, pool, task_body, &targs[t]);
  vf_event ("assign_ret", 0);
}

static int scenario (void *unused)
{
  char buf[256]; char *tok, *save; int i;
  (void) unused;
  strncpy (buf, script, sizeof buf - 1); buf[sizeof buf - 1] = 0;
  memset (count_, 0, sizeof count_); memset (done_, 0, sizeof done_); memset (handed, 0, sizeof handed); n_tasks = 0;
  fake = (mps_context *) calloc (1, sizeof (mps_context));
  pool = NULL;
  for (tok = strtok_r (buf, " ", &save); tok; tok = strtok_r (NULL, " ", &save)) {
    int k = atoi (tok + 1);
    switch (tok[0]) {
      case 'n':
        vf_event ("new", k);
        pool = mps_thread_pool_new (fake, k);
        fake->pool = pool;
        vf_event ("new_ret", 0);
        break;
      case 's': vf_event ("strict", 1); mps_thread_pool_set_strict_async (pool, true); break;
      case 'S': vf_event ("strict", 0); mps_thread_pool_set_strict_async (pool, false); break;
      case 'a':
        for (i = 0; i < k; i++) client_assign (new_task ());
        break;
      case 'N':
        for (i = 0; i < k; i++) { int c = new_task (), t = new_task (); add_child (t, c); client_assign (t); }
        break;
      case 'B':
        { int t = new_task (); for (i = 0; i < k; i++) add_child (t, new_task ()); client_assign (t); }
        break;
      case 'D':
        { int t = new_task (), cur = t; for (i = 0; i < k; i++) { int c = new_task (); add_child (cur, c); cur = c; } client_assign (t); }
        break;
      case 'w':
        vf_event ("wait", 0);
        mps_thread_pool_wait (fake, pool);
        vf_event ("wait_ret", 0);
        for (i = 0; i < n_tasks; i++) if (handed[i]) {
          if (count_[i] != 1) vf_fail (count_[i] == 0 ? "barrier:task-not-executed-at-wait-return" : "barrier:task-executed-twice");
          if (!done_[i]) vf_fail ("barrier:task-not-finished-at-wait-return");
        }
        break;
      case 'l':
        vf_event ("setlimit", k);
        mps_thread_pool_set_concurrency_limit (fake, pool, (unsigned) k);
        vf_event ("setlimit_ret", 0);
        break;
      case 'f':
        vf_event ("free", 0);
        mps_thread_pool_free (fake, pool);
        vf_event ("free_ret", 0);
        pool = NULL;
        if (vf_sched_unfinished () != 0) vf_fail ("free:worker-not-joined");
        for (i = 0; i < n_tasks; i++) if (handed[i] && count_[i] != 1) vf_fail ("free:task-lost");
        break;
      case 'F':
        vf_event ("free", 0);
        mps_thread_pool_free (fake, pool);
        vf_event ("free_ret", 0);
        pool = NULL;
        if (vf_sched_unfinished () != 0) vf_fail ("free:worker-not-joined");
        for (i = 0; i < n_tasks; i++) if (count_[i] > 1) vf_fail ("free:task-executed-twice");
        for (i = 0; i < n_tasks; i++) if (count_[i] == 1 && !done_[i]) vf_fail ("free:task-unfinished-after-join");
        break;
      default: fprintf (stderr, "bad token %s\n", tok); exit (2);
    }
  }
  return 0;
}

typedef struct { long runs, bad; } acc;
static int on_run (const vf_run *r, void *user)
{
  acc *a = (acc *) user; int i; char script_us[256];
  strncpy (script_us, script, 255); script_us[255] = 0; for (i = 0; script_us[i]; i++) if (script_us[i] == ' ') script_us[i] = '_';
  a->runs++; if (r->status != 0 || r->rc != 0) a->bad++;
  if (quiet && r->status == 0 && r->rc == 0) return 0;
  printf ("# run %ld script %s status %d rc %d cost %d div %d what %s sched ", a->runs - 1, script_us, r->status, r->rc, r->cost, r->diverged, (r->what && r->what[0]) ? r->what : "-");
  for (i = 0; i < r->n_schedule; i++) printf ("%s%d", i ? "," : "", r->schedule[i]);
  if (r->n_schedule == 0) printf ("-");
  printf ("\n");
  fwrite (r->trace, 1, r->trace_len, stdout);
  printf ("# end\n");
  return 0;
}

int main (int argc, char **argv)
{
  int i, dfs = -1, free_switch = 0, spurious = 0, depth = 3, shard_i = 0, shard_n = 1; long nrandom = 0, npct = 0, max_runs = 0;
  unsigned long seed = 1; const char *replay = NULL; acc a = { 0, 0 }; vf_opts so; vf_explore_stats st = { 0, 0, 0, 0 };
  setenv ("MPS_JOBS", "2", 1);
  for (i = 1; i < argc; i++) {
    if (!strcmp (argv[i], "--script") && i + 1 < argc) script = argv[++i];
    else if (!strcmp (argv[i], "--dfs") && i + 1 < argc) dfs = atoi (argv[++i]);
    else if (!strcmp (argv[i], "--free-switch")) free_switch = 1;
    else if (!strcmp (argv[i], "--shard") && i + 1 < argc) sscanf (argv[++i], "%d/%d", &shard_i, &shard_n);
    else if (!strcmp (argv[i], "--random") && i + 1 < argc) nrandom = atol (argv[++i]);
    else if (!strcmp (argv[i], "--pct") && i + 1 < argc) npct = atol (argv[++i]);
    else if (!strcmp (argv[i], "--depth") && i + 1 < argc) depth = atoi (argv[++i]);
    else if (!strcmp (argv[i], "--replay") && i + 1 < argc) replay = argv[++i];
    else if (!strcmp (argv[i], "--follow") && i + 1 < argc) { static uint8_t fb[8192]; int n = vf_parse_schedule (argv[++i], fb, 8192); vf_sched_set_follow (fb, n); if (!replay) replay = "-"; }
    else if (!strcmp (argv[i], "--seed") && i + 1 < argc) seed = strtoul (argv[++i], NULL, 10);
    else if (!strcmp (argv[i], "--spurious") && i + 1 < argc) spurious = atoi (argv[++i]);
    else if (!strcmp (argv[i], "--max-runs") && i + 1 < argc) max_runs = atol (argv[++i]);
    else if (!strcmp (argv[i], "--quiet")) quiet = 1;
    else { fprintf (stderr, "bad argument %s\n", argv[i]); return 2; }
  }
  vf_opts_default (&so); so.max_spurious = spurious; so.max_steps = 20000; so.pct_depth = depth; so.pct_steps = 150;
  if (replay) {
    uint8_t buf[4096]; int n = strcmp (replay, "-") ? vf_parse_schedule (replay, buf, 4096) : 0;
    vf_run_once (scenario, NULL, VF_REPLAY, 1, &so, buf, n, 20, on_run, &a);
  } else if (dfs >= 0) {
    vf_explore_opts eo; vf_explore_opts_default (&eo);
    eo.bound = dfs; eo.free_switch = free_switch; eo.max_runs = max_runs; eo.sched = so; eo.shard_i = shard_i; eo.shard_n = shard_n;
    vf_explore (scenario, NULL, &eo, on_run, &a, &st);
  } else {
    long k;
    for (k = 0; k < nrandom; k++) vf_run_once (scenario, NULL, VF_RANDOM, seed * 1000003UL + (unsigned long) k, &so, NULL, 0, 20, on_run, &a);
    for (k = 0; k < npct; k++) vf_run_once (scenario, NULL, VF_PCT, seed * 7000003UL + (unsigned long) k, &so, NULL, 0, 20, on_run, &a);
  }
  fflush (stdout);
  fprintf (stderr, "c06_pool: script=%s runs=%ld bad=%ld max_decisions=%ld truncated=%ld\n", script, a.runs, a.bad, st.max_decisions, st.truncated);
  return 0;
}
