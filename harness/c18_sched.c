/* c18_sched.c -- C18: the REAL mps_mpsolve_async + mps_context_abort under the deterministic scheduler shim
 * (vf_sched), with the abort request placed at a chosen scheduling point.
 *
 * Build: libmps in mode shimsan with -include harness/c18_hooks.h -DVF_C18_TRACE=1 (every access to
 * s->exit_required calls vf_c18_poll, defined here), linked with -Wl,--wrap=... (see WRAP in checks/C18.py).
 *
 * Scheduling points = every intercepted pthread call of libmps (counted in the --wrap wrappers of the shim's
 * entry points) + every READ of exit_required (vf_c18_poll yields right before the read).  They are numbered
 * 0,1,2,... from the call of mps_mpsolve_async on; with --abort-at N the thread that reaches point N first calls
 * the real mps_context_abort (g_ctx) and goes on: this is the interleaving in which the aborting client thread
 * runs between point N-1 and point N (only the baton holder runs, so the store cannot race with anything else).
 *
 * One run (forked child) prints
 *     # result <seq>
 *     <export of vf_solve.c, with mps_mpsolve replaced by: mps_mpsolve_async, wait for the callback on a condition
 *      variable, free the private pool (join), re-read the callback counter>
 *     # result-end
 *     # run <seq> abort_at <N> mode <m> seed <s> status <st> rc <rc> what <w> trace <lines>
 *     <tid> <tag> <arg>          the user events of the scheduler trace (see below), in trace order
 *     # end
 * Events: async 0 | solve_begin a | solve_end err | packet jr | join r | apacket k | regen 0 | regen_end r | copy 0
 *   | improve 0 | improve_end 0 | task_begin i | task_end i | next i (-1 = EXCEP) | lock i | crit 2*i+newton | newton k
 *   | pollF 2*line+value (F = 1 secular-ga.c, 2 secular-iteration.c, 3 secular-regeneration.c, 4 context.c, 9 other)
 *   | abort N | callback n | cb_early n | sp_total n | cb_total n | err_final e
 *
 * usage: c18_sched FILE [vf_solve options] -j N (--abort-at a,b,c | --abort-range lo:hi:step) [--random (--seed S | --run-seed R)]
 *                  [--timeout s] [--max-steps n]
 */
#define _GNU_SOURCE
#include <stdio.h>
#include <stdlib.h>
#include <string.h>
#include <stdint.h>
#include <unistd.h>
#include <pthread.h>
#include "vf_sched.h"

void c18_run_async (mps_context *s);
#define main vf_solve_main
#define mps_mpsolve c18_run_async
#include "vf_solve.c"
#undef main
#undef mps_mpsolve

int vf_mutex_init (pthread_mutex_t *m, const pthread_mutexattr_t *a);
int vf_cond_init (pthread_cond_t *c, const pthread_condattr_t *a);
int vf_mutex_lock (pthread_mutex_t *m);
int vf_mutex_unlock (pthread_mutex_t *m);
int vf_cond_wait (pthread_cond_t *c, pthread_mutex_t *m);
int vf_cond_signal (pthread_cond_t *c);
int vf_yield (void);

static mps_context *g_ctx = NULL;
static long sp_count = 0, abort_at = -1;
static int armed = 0, in_abort = 0, cb_count = 0, cb_done = 0, solve_running = 0, solve_returned = 0;
static int in_packet = 0, task_idx = 0;
static pthread_mutex_t hm; static pthread_cond_t hc;
static __thread int my_task = -1, tl_in_next = 0, tl_expect_lock = 0, tl_job_i = -1, tl_newton = 0;
static __thread void *tl_root_mutex = NULL;

/* a scheduling point is about to be executed by the calling thread */
static void sp (void)
{
  if (!armed || !g_ctx || vf_self () < 0 || in_abort) return;
  if (sp_count++ == abort_at) {
    in_abort = 1;
    vf_event ("abort", sp_count - 1);
    mps_context_abort (g_ctx);
    in_abort = 0;
  }
}

static int file_id (const char *file)
{
  const char *b = strrchr (file, '/'); b = b ? b + 1 : file;
  if (!strcmp (b, "secular-ga.c")) return 1;
  if (!strcmp (b, "secular-iteration.c")) return 2;
  if (!strcmp (b, "secular-regeneration.c")) return 3;
  if (!strcmp (b, "context.c")) return 4;
  return 9;
}
int vf_c18_poll (const char *file, int line)
{
  static const char *const tag[10] = { "poll0", "poll1", "poll2", "poll3", "poll4", "poll9", "poll9", "poll9", "poll9", "poll9" };
  if (!armed || !g_ctx || vf_self () < 0 || in_abort) return 0;
  vf_yield ();                        /* scheduling point right before the access (counted by __wrap_vf_yield) */
  vf_event (tag[file_id (file)], 2L * line + (g_ctx->exit_required_vf[0] ? 1 : 0));
  return 0;
}

/* ---- scheduling points of libmps: the shim's entry points ---- */
#define SPWRAP(ret, name, params, args) ret __real_##name params; ret __wrap_##name params { sp (); return __real_##name args; }
SPWRAP (int, vf_mutex_trylock, (pthread_mutex_t *m), (m))
SPWRAP (int, vf_cond_wait, (pthread_cond_t *c, pthread_mutex_t *m), (c, m))
SPWRAP (int, vf_cond_signal, (pthread_cond_t *c), (c))
SPWRAP (int, vf_cond_broadcast, (pthread_cond_t *c), (c))
SPWRAP (int, vf_create, (pthread_t *t, const pthread_attr_t *a, void *(*fn)(void *), void *arg), (t, a, fn, arg))
SPWRAP (int, vf_join, (pthread_t t, void **r), (t, r))
SPWRAP (int, vf_yield, (void), ())
int __real_vf_mutex_lock (pthread_mutex_t *m);
int __wrap_vf_mutex_lock (pthread_mutex_t *m)
{
  int r;
  sp ();
  r = __real_vf_mutex_lock (m);
  if (my_task >= 0 && !tl_in_next && tl_expect_lock) {
    tl_expect_lock = 0; tl_root_mutex = m; tl_newton = 0;
    vf_event ("lock", tl_job_i);
  }
  return r;
}
int __real_vf_mutex_unlock (pthread_mutex_t *m);
int __wrap_vf_mutex_unlock (pthread_mutex_t *m)
{
  sp ();
  if (my_task >= 0 && tl_root_mutex == (void *) m) { tl_root_mutex = NULL; vf_event ("crit", 2L * tl_job_i + (tl_newton ? 1 : 0)); }
  return __real_vf_mutex_unlock (m);
}

/* ---- calls across translation units ---- */
void __real_mps_secular_ga_mpsolve (mps_context *s);
void __wrap_mps_secular_ga_mpsolve (mps_context *s)
{
  vf_event ("solve_begin", 1); solve_running = 1;
  __real_mps_secular_ga_mpsolve (s);
  solve_running = 0; solve_returned = 1; vf_event ("solve_end", mps_context_has_errors (s) ? 1 : 0);
}
void __real_mps_standard_mpsolve (mps_context *s);
void __wrap_mps_standard_mpsolve (mps_context *s)
{
  vf_event ("solve_begin", 0); solve_running = 1;
  __real_mps_standard_mpsolve (s);
  solve_running = 0; solve_returned = 1; vf_event ("solve_end", mps_context_has_errors (s) ? 1 : 0);
}
#define ITERWRAP(name) \
  int __real_##name (mps_context *s, int maxit, mps_boolean jr); \
  int __wrap_##name (mps_context *s, int maxit, mps_boolean jr) \
  { int r; vf_event ("packet", jr ? 1 : 0); in_packet = 1; task_idx = 0; r = __real_##name (s, maxit, jr); in_packet = 0; vf_event ("join", r); return r; }
ITERWRAP (mps_secular_ga_fiterate)
ITERWRAP (mps_secular_ga_diterate)
ITERWRAP (mps_secular_ga_miterate)
#define APKWRAP(name, k) \
  int __real_##name (mps_context *s, mps_polynomial *p, mps_boolean jr); \
  int __wrap_##name (mps_context *s, mps_polynomial *p, mps_boolean jr) { vf_event ("apacket", k); return __real_##name (s, p, jr); }
APKWRAP (mps_faberth_packet, 0)
APKWRAP (mps_daberth_packet, 1)
APKWRAP (mps_maberth_packet, 2)
mps_boolean __real_mps_secular_ga_regenerate_coefficients (mps_context *s);
mps_boolean __wrap_mps_secular_ga_regenerate_coefficients (mps_context *s)
{
  mps_boolean r; vf_event ("regen", 0); r = __real_mps_secular_ga_regenerate_coefficients (s); vf_event ("regen_end", r ? 1 : 0); return r;
}
void __real_mps_copy_roots (mps_context *s);
void __wrap_mps_copy_roots (mps_context *s) { vf_event ("copy", 0); __real_mps_copy_roots (s); }
void __real_mps_improve (mps_context *s);
void __wrap_mps_improve (mps_context *s) { vf_event ("improve", 0); __real_mps_improve (s); vf_event ("improve_end", 0); }

void __real_mps_secular_fnewton (mps_context *s, mps_polynomial *p, mps_approximation *root, cplx_t corr);
void __wrap_mps_secular_fnewton (mps_context *s, mps_polynomial *p, mps_approximation *root, cplx_t corr)
{ tl_newton = 1; vf_event ("newton", 0); __real_mps_secular_fnewton (s, p, root, corr); }
void __real_mps_secular_dnewton (mps_context *s, mps_polynomial *p, mps_approximation *root, cdpe_t corr);
void __wrap_mps_secular_dnewton (mps_context *s, mps_polynomial *p, mps_approximation *root, cdpe_t corr)
{ tl_newton = 1; vf_event ("newton", 1); __real_mps_secular_dnewton (s, p, root, corr); }
void __real_mps_secular_mnewton (mps_context *s, mps_polynomial *p, mps_approximation *root, mpc_t corr, long int wp);
void __wrap_mps_secular_mnewton (mps_context *s, mps_polynomial *p, mps_approximation *root, mpc_t corr, long int wp)
{ tl_newton = 1; vf_event ("newton", 2); __real_mps_secular_mnewton (s, p, root, corr, wp); }
/* Newton steps of the classic algorithm and of mps_improve go through the polynomial's method table */
void __real_mps_polynomial_fnewton (mps_context *s, mps_polynomial *p, mps_approximation *root, cplx_t corr);
void __wrap_mps_polynomial_fnewton (mps_context *s, mps_polynomial *p, mps_approximation *root, cplx_t corr)
{ vf_event ("pnewton", 0); __real_mps_polynomial_fnewton (s, p, root, corr); }
void __real_mps_polynomial_dnewton (mps_context *s, mps_polynomial *p, mps_approximation *root, cdpe_t corr);
void __wrap_mps_polynomial_dnewton (mps_context *s, mps_polynomial *p, mps_approximation *root, cdpe_t corr)
{ vf_event ("pnewton", 1); __real_mps_polynomial_dnewton (s, p, root, corr); }
void __real_mps_polynomial_mnewton (mps_context *s, mps_polynomial *p, mps_approximation *root, mpc_t corr, long int wp);
void __wrap_mps_polynomial_mnewton (mps_context *s, mps_polynomial *p, mps_approximation *root, mpc_t corr, long int wp)
{ vf_event ("pnewton", 2); __real_mps_polynomial_mnewton (s, p, root, corr, wp); }

mps_thread_job __real_mps_thread_job_queue_next (mps_context *s, mps_thread_job_queue *q);
mps_thread_job __wrap_mps_thread_job_queue_next (mps_context *s, mps_thread_job_queue *q)
{
  mps_thread_job j;
  tl_in_next = 1; j = __real_mps_thread_job_queue_next (s, q); tl_in_next = 0;
  if (my_task >= 0) {
    tl_job_i = j.i; tl_expect_lock = (j.iter != MPS_THREAD_JOB_EXCEP);
    vf_event ("next", j.iter == MPS_THREAD_JOB_EXCEP ? -1 : j.i);
  }
  return j;
}

/* tasks of an iteration packet are bracketed by a trampoline */
typedef struct { mps_thread_work work; void *args; int idx; } box;
static void *tramp (void *p)
{
  box *b = (box *) p; void *r;
  my_task = b->idx; tl_expect_lock = 0; tl_root_mutex = NULL;
  vf_event ("task_begin", b->idx);
  r = b->work (b->args);
  vf_event ("task_end", b->idx);
  my_task = -1;
  free (b);
  return r;
}
void __real_mps_thread_pool_assign (mps_context *s, mps_thread_pool *pool, mps_thread_work work, void *args);
void __wrap_mps_thread_pool_assign (mps_context *s, mps_thread_pool *pool, mps_thread_work work, void *args)
{
  if (in_packet && vf_self () >= 0 && pool == s->pool) {
    box *b = (box *) malloc (sizeof (box)); b->work = work; b->args = args; b->idx = task_idx++;
    __real_mps_thread_pool_assign (s, pool, tramp, b);
  } else
    __real_mps_thread_pool_assign (s, pool, work, args);
}

/* ---- the asynchronous solve ---- */
static void *on_done (mps_context *s, void *ud)
{
  (void) ud;
  cb_count++;
  if (solve_running || (!solve_returned && !mps_context_has_errors (s))) vf_event ("cb_early", cb_count);
  vf_event ("callback", cb_count);
  vf_mutex_lock (&hm); cb_done = 1; vf_cond_signal (&hc); vf_mutex_unlock (&hm);
  return NULL;
}
void c18_run_async (mps_context *s)
{
  g_ctx = s;
  vf_mutex_init (&hm, NULL); vf_cond_init (&hc, NULL);
  vf_event ("async", 0);
  armed = 1;
  mps_mpsolve_async (s, on_done, NULL);
  vf_mutex_lock (&hm);
  while (!cb_done) vf_cond_wait (&hc, &hm);
  vf_mutex_unlock (&hm);
  armed = 0;
  /* join the private pool's thread, so that everything mps_caller does has happened before the counter is read
   * (mps_context_free does not free self_thread_pool: C15's finding) */
  if (s->self_thread_pool) { mps_thread_pool_free (s, s->self_thread_pool); s->self_thread_pool = NULL; }
  vf_event ("sp_total", sp_count);
  vf_event ("cb_total", cb_count);
  vf_event ("err_final", mps_context_has_errors (s) ? 1 : 0);
  g_ctx = NULL;
}

/* ---- runs ---- */
static int s_argc; static char **s_argv; static long cur_seq = 0; static const char *cur_mode = "default"; static unsigned long cur_seed = 0;
static int scenario (void *unused)
{
  int rc;
  (void) unused;
  printf ("# result %ld\n", cur_seq); fflush (stdout);
  rc = vf_solve_main (s_argc, s_argv);
  fflush (stdout);
  printf ("# result-end\n"); fflush (stdout);
  return rc;
}
static int on_run (const vf_run *r, void *user)
{
  const char *p = r->trace, *e; long lines = 0;
  (void) user;
  printf ("# run %ld abort_at %ld mode %s seed %lu status %d rc %d what %s", cur_seq, abort_at, cur_mode, cur_seed, r->status, r->rc,
          (r->what && r->what[0]) ? r->what : "-");
  for (e = p; e && *e; e++) if (*e == '\n') lines++;
  printf (" trace %ld\n", lines);
  while (p && *p) {
    const char *nl = strchr (p, '\n'); size_t len = nl ? (size_t) (nl - p) : strlen (p);
    const char *sp1 = memchr (p, ' ', len);
    if (sp1 && len > (size_t) (sp1 - p) + 3 && !strncmp (sp1 + 1, "ev ", 3)) { fwrite (p, 1, (size_t) (sp1 - p), stdout); fwrite (sp1 + 3, 1, len - (size_t) (sp1 + 3 - p), stdout); fputc ('\n', stdout); }
    else if (p[0] == '#') { fwrite (p, 1, len, stdout); fputc ('\n', stdout); }
    p = nl ? nl + 1 : NULL;
  }
  printf ("# end\n");
  cur_seq++;
  return 0;
}

int main (int argc, char **argv)
{
  int i, timeout_s = 60, nthreads = 0, random_mode = 0, have_run_seed = 0; long max_steps = 400000; unsigned long seed = 1, run_seed = 0;
  long list[4096]; int n_list = 0; vf_opts so;
  char **sv = (char **) calloc ((size_t) argc + 1, sizeof (char *)); int sc = 0;
  sv[sc++] = argv[0];
  for (i = 1; i < argc; i++) {
    if (!strcmp (argv[i], "--abort-at") && i + 1 < argc) {
      char *t = strdup (argv[++i]), *save, *tok;
      for (tok = strtok_r (t, ",", &save); tok && n_list < 4096; tok = strtok_r (NULL, ",", &save)) list[n_list++] = atol (tok);
    } else if (!strcmp (argv[i], "--abort-range") && i + 1 < argc) {
      long lo = 0, hi = 0, st = 1, k; sscanf (argv[++i], "%ld:%ld:%ld", &lo, &hi, &st); if (st < 1) st = 1;
      for (k = lo; k < hi && n_list < 4096; k += st) list[n_list++] = k;
    } else if (!strcmp (argv[i], "--random")) random_mode = 1;
    else if (!strcmp (argv[i], "--seed") && i + 1 < argc) seed = strtoul (argv[++i], NULL, 10);
    else if (!strcmp (argv[i], "--run-seed") && i + 1 < argc) { run_seed = strtoul (argv[++i], NULL, 10); have_run_seed = 1; }
    else if (!strcmp (argv[i], "--timeout") && i + 1 < argc) timeout_s = atoi (argv[++i]);
    else if (!strcmp (argv[i], "--max-steps") && i + 1 < argc) max_steps = atol (argv[++i]);
    else {
      if (!strcmp (argv[i], "-j") && i + 1 < argc) nthreads = atoi (argv[i + 1]);
      sv[sc++] = argv[i];
    }
  }
  s_argc = sc; s_argv = sv;
  if (nthreads > 0) { char b[16]; snprintf (b, sizeof b, "%d", nthreads); setenv ("MPS_JOBS", b, 1); }
  if (n_list == 0) list[n_list++] = -1;
  vf_opts_default (&so); so.max_steps = max_steps;
  for (i = 0; i < n_list; i++) {
    abort_at = list[i];
    if (random_mode) { cur_mode = "random"; cur_seed = have_run_seed ? run_seed : seed * 1000003UL + (unsigned long) i; vf_run_once (scenario, NULL, VF_RANDOM, cur_seed, &so, NULL, 0, timeout_s, on_run, NULL); }
    else { cur_mode = "default"; cur_seed = 0; vf_run_once (scenario, NULL, VF_REPLAY, 1, &so, NULL, 0, timeout_s, on_run, NULL); }
  }
  fflush (stdout);
  return 0;
}
