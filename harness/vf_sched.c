/* vf_sched.c -- deterministic scheduler shim.  API and semantics: vf_sched.h. */
#define VF_SHIM_IMPL 1
#ifndef _GNU_SOURCE
#define _GNU_SOURCE 1
#endif
#ifndef ROBOL_MPSOLVE_VERIF
#define ROBOL_MPSOLVE_VERIF 1
#endif
#ifndef VF_SHIM
#define VF_SHIM 1
#endif
#include <pthread.h>
#include <sched.h>
#include <semaphore.h>
#include <stdio.h>
#include <stdlib.h>
#include <string.h>
#include <stdint.h>
#include <errno.h>
#include <unistd.h>
#include <signal.h>
#include <sys/types.h>
#include <sys/wait.h>
#include "vf_hooks.h"
#include "vf_sched.h"
/* the build force-includes vf_hooks.h before VF_SHIM_IMPL is seen: drop the redirections here */
#undef pthread_mutex_init
#undef pthread_mutex_destroy
#undef pthread_mutex_lock
#undef pthread_mutex_trylock
#undef pthread_mutex_unlock
#undef pthread_cond_init
#undef pthread_cond_destroy
#undef pthread_cond_wait
#undef pthread_cond_signal
#undef pthread_cond_broadcast
#undef pthread_create
#undef pthread_join
#undef pthread_exit
#undef sched_yield

#define MAXT 64
#define MAXOBJ 4096
#define HSZ 16384
#define MAXOPT 24
#define MAXDEC 65536

enum { E_BEGIN, E_CREATE, E_JOIN, E_EXIT, E_LOCK, E_TRYLOCK, E_UNLOCK, E_CONT, E_CWAIT, E_CWAKE,
       E_SIGNAL, E_BCAST, E_YIELD, E_MINIT, E_MDESTROY, E_CINIT, E_CDESTROY, E_NAME_M, E_NAME_C, E_EV };
static const char *opname[] = { "begin", "create", "join", "exit", "lock", "trylock", "unlock", "cont", "cwait", "cwake",
       "signal", "bcast", "yield", "minit", "mdestroy", "cinit", "cdestroy", "name", "name", "ev" };

enum { P_NONE, P_ANY, P_BEGIN, P_LOCK, P_CWAKE, P_JOIN, P_CONT };
enum { T_UNUSED = 0, T_READY, T_RUNNING, T_FINISHED };

typedef struct {
  int state, pend, pobj, pobj2;
  int signalled;                 /* for P_CWAKE: 0 still waiting, 1 signalled, 2 spurious */
  pthread_t pt;
  sem_t sem;
  void *(*fn)(void *); void *arg; void *ret;
  uint64_t prio;
} vthread;

typedef struct { int16_t tid; uint8_t op; int32_t a, b, c; } event;
typedef struct { uint8_t kind, chosen, deflt, cur_enabled, nopts; uint8_t opts[MAXOPT]; } decision;

static int active = 0;
static vf_mode g_mode; static vf_opts g_o; static uint64_t g_rng;
static vthread T[MAXT]; static int nT = 0; static int cur = -1;
static __thread int my_tid = -1;
static int m_owner[MAXOBJ]; static int n_mutex = 0, n_cond = 0;
static int c_wait[MAXOBJ][MAXT]; static int c_nwait[MAXOBJ];
static const void *hkey[HSZ]; static int hval[HSZ];   /* val: id*2 + (0 mutex | 1 cond) */
static const char *pending_name_ptr[64]; static const char *pending_name_cls[64]; static int n_pending_name = 0;
static event *ev = NULL; static long n_ev = 0, cap_ev = 0;
static char *tags[1024]; static int n_tags = 0;
static decision *dec = NULL; static long n_dec = 0;
static uint8_t *prefix = NULL; static int n_prefix = 0;
static int spurious_left = 0;
static int g_status = 0; static const char *g_what = "";
static void (*abort_handler)(int, const char *) = NULL;
static long pct_change[16]; static int pct_nchange = 0;
static int diverged = 0;
static uint8_t *follow = NULL; static int n_follow = 0, k_follow = 0; static int forced = -1;

static uint64_t rnd (void) { uint64_t x = g_rng; x ^= x << 13; x ^= x >> 7; x ^= x << 17; g_rng = x; return x * 0x2545F4914F6CDD1DULL; }

void vf_opts_default (vf_opts *o) { o->post_unlock = 1; o->max_spurious = 0; o->max_steps = 200000; o->pct_depth = 3; o->pct_steps = 200; }

/* ---- object table ---- */
static unsigned hslot (const void *p) { uintptr_t x = (uintptr_t) p; x ^= x >> 17; x *= 0x9E3779B97F4A7C15ULL; return (unsigned) (x >> 20) & (HSZ - 1); }
#define TOMB ((const void *) (uintptr_t) 1)
static int hfind (const void *p) { unsigned i = hslot (p); while (hkey[i]) { if (hkey[i] == p) return hval[i]; i = (i + 1) & (HSZ - 1); } return -1; }
static void hput (const void *p, int v) { unsigned i = hslot (p); while (hkey[i] && hkey[i] != TOMB && hkey[i] != p) i = (i + 1) & (HSZ - 1); hkey[i] = p; hval[i] = v; }
static void hdel (const void *p) { unsigned i = hslot (p); while (hkey[i]) { if (hkey[i] == p) { hkey[i] = TOMB; return; } i = (i + 1) & (HSZ - 1); } }

static void do_abort (int st, const char *what) __attribute__((noreturn));
static void record (int op, int a, int b, int c)
{
  if (n_ev == cap_ev) { cap_ev = cap_ev ? cap_ev * 2 : 4096; ev = (event *) realloc (ev, cap_ev * sizeof (event)); }
  ev[n_ev].tid = (int16_t) my_tid; ev[n_ev].op = (uint8_t) op; ev[n_ev].a = a; ev[n_ev].b = b; ev[n_ev].c = c; n_ev++;
  if (n_ev > g_o.max_steps && g_status == 0) do_abort (VF_ST_STEPLIMIT, "steplimit");
}
static int intern (const char *s) { int i; for (i = 0; i < n_tags; i++) if (!strcmp (tags[i], s)) return i; if (n_tags == 1024) return 0; tags[n_tags] = strdup (s); return n_tags++; }

static int new_mutex (const void *p)
{
  int id = n_mutex++, i;
  if (id >= MAXOBJ) do_abort (VF_ST_MISUSE, "too-many-mutexes");
  m_owner[id] = -1; hput (p, id * 2);
  for (i = 0; i < n_pending_name; i++) if (pending_name_ptr[i] == p) record (E_NAME_M, id, intern (pending_name_cls[i]), 0);
  return id;
}
static int new_cond (const void *p)
{
  int id = n_cond++, i;
  if (id >= MAXOBJ) do_abort (VF_ST_MISUSE, "too-many-conds");
  c_nwait[id] = 0; hput (p, id * 2 + 1);
  for (i = 0; i < n_pending_name; i++) if (pending_name_ptr[i] == p) record (E_NAME_C, id, intern (pending_name_cls[i]), 0);
  return id;
}
static int mid (const void *p) { int v = hfind (p); if (v < 0) { int id = new_mutex (p); record (E_MINIT, id, 1, 0); return id; } return v >> 1; }
static int cid (const void *p) { int v = hfind (p); if (v < 0) { int id = new_cond (p); record (E_CINIT, id, 1, 0); return id; } return v >> 1; }

/* ---- trace ---- */
static void dump_event (FILE *f, const event *e)
{
  switch (e->op) {
    case E_BEGIN: case E_EXIT: case E_CONT: case E_YIELD: fprintf (f, "%d %s\n", e->tid, opname[e->op]); break;
    case E_CREATE: case E_JOIN: fprintf (f, "%d %s %d\n", e->tid, opname[e->op], e->a); break;
    case E_LOCK: case E_UNLOCK: case E_MINIT: case E_MDESTROY: fprintf (f, "%d %s m%d\n", e->tid, opname[e->op], e->a); break;
    case E_TRYLOCK: fprintf (f, "%d trylock m%d %d\n", e->tid, e->a, e->b); break;
    case E_CWAIT: fprintf (f, "%d cwait c%d m%d\n", e->tid, e->a, e->b); break;
    case E_CWAKE: fprintf (f, "%d cwake c%d m%d %d\n", e->tid, e->a, e->b, e->c); break;
    case E_SIGNAL: case E_BCAST: fprintf (f, "%d %s c%d %d\n", e->tid, opname[e->op], e->a, e->b); break;
    case E_CINIT: case E_CDESTROY: fprintf (f, "%d %s c%d\n", e->tid, opname[e->op], e->a); break;
    case E_NAME_M: fprintf (f, "%d name m%d %s\n", e->tid, e->a, tags[e->b]); break;
    case E_NAME_C: fprintf (f, "%d name c%d %s\n", e->tid, e->a, tags[e->b]); break;
    case E_EV: fprintf (f, "%d ev %s %ld\n", e->tid, tags[e->a], (long) e->b); break;
  }
}
void vf_sched_trace_dump (FILE *f)
{
  long i; for (i = 0; i < n_ev; i++) dump_event (f, &ev[i]);
  if (g_status == VF_ST_DEADLOCK) fprintf (f, "# deadlock\n");
  else if (g_status == VF_ST_STEPLIMIT) fprintf (f, "# steplimit\n");
  else if (g_status == VF_ST_MISUSE) fprintf (f, "# misuse %s\n", g_what);
  else if (g_status == VF_ST_ASSERT) fprintf (f, "# assert %s\n", g_what);
}
long vf_sched_trace_len (void) { return n_ev; }
int vf_sched_get_schedule (uint8_t *buf, int cap) { long i; for (i = 0; i < n_dec && i < cap; i++) buf[i] = dec[i].chosen; return (int) n_dec; }
void vf_sched_print_schedule (FILE *f) { long i; for (i = 0; i < n_dec; i++) fprintf (f, "%s%d", i ? "," : "", dec[i].chosen); }
int vf_parse_schedule (const char *s, uint8_t *buf, int cap)
{
  int n = 0;
  while (*s && n < cap) { char *e; long v = strtol (s, &e, 10); if (e == s) break; buf[n++] = (uint8_t) v; s = e; while (*s == ',' || *s == ' ') s++; }
  return n;
}
void vf_sched_set_schedule (const uint8_t *c, int n) { free (prefix); prefix = (uint8_t *) malloc (n > 0 ? n : 1); if (n > 0) memcpy (prefix, c, n); n_prefix = n; }
void vf_sched_set_follow (const uint8_t *c, int n) { free (follow); follow = (uint8_t *) malloc (n > 0 ? n : 1); if (n > 0) memcpy (follow, c, n); n_follow = n; k_follow = 0; }
int vf_sched_diverged (void) { return diverged; }
int vf_self (void) { return active ? my_tid : -1; }
int vf_sched_deadlocked (void) { return g_status == VF_ST_DEADLOCK; }
int vf_sched_status (void) { return g_status; }
void vf_sched_on_abort (void (*h)(int, const char *)) { abort_handler = h; }

static void do_abort (int st, const char *what)
{
  g_status = st; g_what = what;
  if (abort_handler) abort_handler (st, what);
  fprintf (stderr, "vf_sched: abort status %d (%s)\nschedule: ", st, what);
  vf_sched_print_schedule (stderr); fprintf (stderr, "\n");
  vf_sched_trace_dump (stderr);
  _exit (3);
}
void vf_fail (const char *what) { do_abort (VF_ST_ASSERT, what); }

void vf_event (const char *tag, long a) { if (!active || my_tid < 0) return; record (E_EV, intern (tag), (int) a, 0); }
void vf_name_object (const void *p, const char *cls)
{
  int v = hfind (p);
  if (active && v >= 0) { record ((v & 1) ? E_NAME_C : E_NAME_M, v >> 1, intern (cls), 0); return; }
  if (n_pending_name < 64) { pending_name_ptr[n_pending_name] = p; pending_name_cls[n_pending_name] = strdup (cls); n_pending_name++; }
}

/* ---- scheduling ---- */
static int enabled (int t)
{
  vthread *x = &T[t];
  if (x->state != T_READY && x->state != T_RUNNING) return 0;
  switch (x->pend) {
    case P_ANY: case P_BEGIN: case P_CONT: return 1;
    case P_LOCK: return m_owner[x->pobj] < 0;
    case P_CWAKE: return x->signalled && m_owner[x->pobj2] < 0;
    case P_JOIN: return T[x->pobj].state == T_FINISHED;
    default: return 0;
  }
}
static int spurious_ok (int t)
{
  vthread *x = &T[t];
  return x->state == T_READY && x->pend == P_CWAKE && !x->signalled && m_owner[x->pobj2] < 0;
}
static void cond_remove (int c, int t)
{
  int i, j = 0; for (i = 0; i < c_nwait[c]; i++) if (c_wait[c][i] != t) c_wait[c][j++] = c_wait[c][i]; c_nwait[c] = j;
}
static int decide (int kind, const uint8_t *opts, int nopts, int deflt, int cur_enabled)
{
  int chosen = deflt, i;
  if (forced >= 0) {
    int ok = 0; for (i = 0; i < nopts; i++) if (opts[i] == forced) ok = 1;
    if (!ok) { diverged++; forced = -1; }
  }
  if (nopts == 1) { forced = -1; return opts[0]; }
  if (forced >= 0) { chosen = forced; forced = -1; }
  else if (g_mode == VF_REPLAY) {
    if (n_dec < n_prefix) {
      int v = prefix[n_dec], ok = 0;
      for (i = 0; i < nopts; i++) if (opts[i] == v) ok = 1;
      if (ok) chosen = v; else diverged++;
    }
  } else if (g_mode == VF_RANDOM) {
    int nn = 0, ns = 0; uint8_t no[MAXOPT], so[MAXOPT];
    for (i = 0; i < nopts; i++) if (opts[i] >= 64) so[ns++] = opts[i]; else no[nn++] = opts[i];
    if (ns > 0 && (rnd () & 15) == 0) chosen = so[rnd () % ns]; else chosen = no[rnd () % nn];
  } else { /* PCT */
    if (kind == 1) chosen = opts[rnd () % nopts];
    else { uint64_t best = 0; for (i = 0; i < nopts; i++) if (opts[i] < 64 && T[opts[i]].prio >= best) { best = T[opts[i]].prio; chosen = opts[i]; } }
  }
  if (n_dec < MAXDEC) {
    decision *d = &dec[n_dec++];
    d->kind = (uint8_t) kind; d->chosen = (uint8_t) chosen; d->deflt = (uint8_t) deflt; d->cur_enabled = (uint8_t) cur_enabled;
    d->nopts = (uint8_t) nopts; memcpy (d->opts, opts, nopts);
  }
  return chosen;
}
/* choose the thread that runs next; never returns if none can */
static int pick (void)
{
  uint8_t opts[MAXOPT]; int n = 0, t, deflt = -1, cur_en, v, i;
  if (g_mode == VF_PCT) for (i = 0; i < pct_nchange; i++) if (pct_change[i] == n_ev && cur >= 0) T[cur].prio = (uint64_t) (pct_nchange - i);
  for (t = 0; t < nT && n < MAXOPT; t++) if (enabled (t)) opts[n++] = (uint8_t) t;
  if (n == 0) {
    int unfinished = 0; for (t = 0; t < nT; t++) if (T[t].state != T_FINISHED) unfinished++;
    do_abort (VF_ST_DEADLOCK, unfinished ? "deadlock" : "all-finished");
  }
  cur_en = (cur >= 0 && enabled (cur));
  if (cur_en) deflt = cur;
  else { for (i = 1; i <= nT; i++) { t = (cur + i) % nT; if (enabled (t)) { deflt = t; break; } } }
  if (spurious_left > 0) for (t = 0; t < nT && n < MAXOPT; t++) if (spurious_ok (t)) opts[n++] = (uint8_t) (64 + t);
  forced = (k_follow < n_follow) ? follow[k_follow++] : -1;
  v = decide (0, opts, n, deflt, cur_en);
  if (v >= 64) { v -= 64; spurious_left--; T[v].signalled = 2; cond_remove (T[v].pobj, v); }
  return v;
}
static void handoff (int next, int self_continues)
{
  int self = my_tid;
  cur = next;
  if (next == self) return;
  sem_post (&T[next].sem);
  if (self_continues) { while (sem_wait (&T[self].sem) != 0) ; }
}
/* announce pending op and wait to be chosen */
static void point (int pend, int a, int b)
{
  vthread *x = &T[my_tid];
  x->pend = pend; x->pobj = a; x->pobj2 = b; x->state = T_READY;
  handoff (pick (), 1);
  x->state = T_RUNNING; x->pend = P_NONE;
}

static void init_common (vf_mode mode, uint64_t seed, const vf_opts *o)
{
  int i;
  if (o) g_o = *o; else vf_opts_default (&g_o);
  g_mode = mode; g_rng = seed * 0x9E3779B97F4A7C15ULL + 0x1234567ULL; if (!g_rng) g_rng = 1; rnd (); rnd ();
  memset (T, 0, sizeof T); nT = 1; cur = 0; my_tid = 0;
  T[0].state = T_RUNNING; T[0].pt = pthread_self (); sem_init (&T[0].sem, 0, 0); T[0].prio = 1000 + (rnd () >> 8);
  memset (hkey, 0, sizeof hkey); n_mutex = n_cond = 0; n_ev = 0; n_dec = 0; g_status = 0; diverged = 0;
  if (!dec) dec = (decision *) malloc (MAXDEC * sizeof (decision));
  spurious_left = g_o.max_spurious; k_follow = 0; forced = -1;
  pct_nchange = 0;
  if (mode == VF_PCT) { pct_nchange = g_o.pct_depth - 1; if (pct_nchange > 16) pct_nchange = 16; if (pct_nchange < 0) pct_nchange = 0;
    for (i = 0; i < pct_nchange; i++) pct_change[i] = (long) (rnd () % (uint64_t) (g_o.pct_steps > 0 ? g_o.pct_steps : 1)); }
  active = 1;
}
void vf_sched_init (vf_mode mode, uint64_t seed, const vf_opts *o) { init_common (mode, seed, o); }
void vf_register_main (void) { if (!active) init_common (VF_REPLAY, 1, NULL); }
int vf_sched_fini (void)
{
  int t; for (t = 1; t < nT; t++) if (T[t].state != T_FINISHED) return -1;
  active = 0; return 0;
}

int vf_sched_unfinished (void) { int t, n = 0; for (t = 1; t < nT; t++) if (T[t].state != T_FINISHED) n++; return n; }

/* ---- intercepted calls ---- */
int vf_mutex_init (pthread_mutex_t *m, const pthread_mutexattr_t *a)
{
  int r = pthread_mutex_init (m, a);
  if (active && my_tid >= 0) { if (hfind (m) >= 0) hdel (m); record (E_MINIT, new_mutex (m), 0, 0); }
  return r;
}
int vf_mutex_destroy (pthread_mutex_t *m)
{
  if (active && my_tid >= 0) { int v = hfind (m); if (v >= 0) { if (m_owner[v >> 1] >= 0) do_abort (VF_ST_MISUSE, "destroy-locked-mutex"); record (E_MDESTROY, v >> 1, 0, 0); hdel (m); } }
  return pthread_mutex_destroy (m);
}
int vf_mutex_lock (pthread_mutex_t *m)
{
  int id;
  if (!active || my_tid < 0) return pthread_mutex_lock (m);
  id = mid (m);
  point (P_LOCK, id, 0);
  m_owner[id] = my_tid; record (E_LOCK, id, 0, 0);
  return 0;
}
int vf_mutex_trylock (pthread_mutex_t *m)
{
  int id, r;
  if (!active || my_tid < 0) return pthread_mutex_trylock (m);
  id = mid (m);
  point (P_ANY, 0, 0);
  if (m_owner[id] < 0) { m_owner[id] = my_tid; r = 0; } else r = EBUSY;
  record (E_TRYLOCK, id, r, 0);
  return r;
}
int vf_mutex_unlock (pthread_mutex_t *m)
{
  int id;
  if (!active || my_tid < 0) return pthread_mutex_unlock (m);
  id = mid (m);
  if (m_owner[id] != my_tid) do_abort (VF_ST_MISUSE, "unlock-not-owner");
  m_owner[id] = -1; record (E_UNLOCK, id, 0, 0);
  if (g_o.post_unlock) point (P_CONT, 0, 0);
  record (E_CONT, 0, 0, 0);
  return 0;
}
int vf_cond_init (pthread_cond_t *c, const pthread_condattr_t *a)
{
  int r = pthread_cond_init (c, a);
  if (active && my_tid >= 0) { if (hfind (c) >= 0) hdel (c); record (E_CINIT, new_cond (c), 0, 0); }
  return r;
}
int vf_cond_destroy (pthread_cond_t *c)
{
  if (active && my_tid >= 0) { int v = hfind (c); if (v >= 0) { if (c_nwait[v >> 1] > 0) do_abort (VF_ST_MISUSE, "destroy-cond-with-waiters"); record (E_CDESTROY, v >> 1, 0, 0); hdel (c); } }
  return pthread_cond_destroy (c);
}
int vf_cond_wait (pthread_cond_t *c, pthread_mutex_t *m)
{
  int ci, mi; vthread *x;
  if (!active || my_tid < 0) return pthread_cond_wait (c, m);
  ci = cid (c); mi = mid (m); x = &T[my_tid];
  point (P_ANY, 0, 0);
  if (m_owner[mi] != my_tid) do_abort (VF_ST_MISUSE, "cond_wait-without-mutex");
  m_owner[mi] = -1; c_wait[ci][c_nwait[ci]++] = my_tid; x->signalled = 0;
  record (E_CWAIT, ci, mi, 0);
  point (P_CWAKE, ci, mi);
  m_owner[mi] = my_tid;
  record (E_CWAKE, ci, mi, x->signalled == 2 ? 1 : 0);
  x->signalled = 0;
  return 0;
}
int vf_cond_signal (pthread_cond_t *c)
{
  int ci, w = -1;
  if (!active || my_tid < 0) return pthread_cond_signal (c);
  ci = cid (c);
  point (P_ANY, 0, 0);
  if (c_nwait[ci] > 0) {
    uint8_t opts[MAXOPT]; int i, n = 0;
    for (i = 0; i < c_nwait[ci] && n < MAXOPT; i++) opts[n++] = (uint8_t) c_wait[ci][i];
    w = decide (1, opts, n, opts[0], 0);
    cond_remove (ci, w); T[w].signalled = 1;
  }
  record (E_SIGNAL, ci, w, 0);
  return 0;
}
int vf_cond_broadcast (pthread_cond_t *c)
{
  int ci, i, n;
  if (!active || my_tid < 0) return pthread_cond_broadcast (c);
  ci = cid (c);
  point (P_ANY, 0, 0);
  n = c_nwait[ci];
  for (i = 0; i < n; i++) T[c_wait[ci][i]].signalled = 1;
  c_nwait[ci] = 0;
  record (E_BCAST, ci, n, 0);
  return 0;
}
static void *tramp (void *p)
{
  vthread *x = (vthread *) p; void *r;
  my_tid = (int) (x - T);
  while (sem_wait (&x->sem) != 0) ;
  x->state = T_RUNNING; x->pend = P_NONE;
  record (E_BEGIN, 0, 0, 0);
  r = x->fn (x->arg);
  vf_exit (r);
  return NULL;
}
int vf_create (pthread_t *t, const pthread_attr_t *a, void *(*fn)(void *), void *arg)
{
  int id, r; vthread *x;
  if (!active || my_tid < 0) return pthread_create (t, a, fn, arg);
  point (P_ANY, 0, 0);
  if (nT >= MAXT) do_abort (VF_ST_MISUSE, "too-many-threads");
  id = nT; x = &T[id];
  memset (x, 0, sizeof *x); sem_init (&x->sem, 0, 0);
  x->fn = fn; x->arg = arg; x->state = T_READY; x->pend = P_BEGIN; x->prio = 1000 + (rnd () >> 8);
  r = pthread_create (&x->pt, a, tramp, x);
  if (r != 0) do_abort (VF_ST_MISUSE, "pthread_create-failed");
  nT = id + 1;
  *t = x->pt;
  record (E_CREATE, id, 0, 0);
  return 0;
}
int vf_join (pthread_t t, void **ret)
{
  int u, found = -1;
  if (!active || my_tid < 0) return pthread_join (t, ret);
  for (u = 1; u < nT; u++) if (pthread_equal (T[u].pt, t)) found = u;
  if (found < 0) do_abort (VF_ST_MISUSE, "join-unknown-thread");
  point (P_JOIN, found, 0);
  record (E_JOIN, found, 0, 0);
  pthread_join (t, NULL);
  if (ret) *ret = T[found].ret;
  return 0;
}
void vf_exit (void *ret)
{
  if (!active || my_tid < 0) pthread_exit (ret);
  if (my_tid == 0) do_abort (VF_ST_MISUSE, "main-thread-exit");
  point (P_ANY, 0, 0);
  record (E_EXIT, 0, 0, 0);
  T[my_tid].ret = ret; T[my_tid].state = T_FINISHED; T[my_tid].pend = P_NONE;
  handoff (pick (), 0);
  pthread_exit (ret);
}
int vf_yield (void)
{
  if (!active || my_tid < 0) return sched_yield ();
  point (P_ANY, 0, 0);
  record (E_YIELD, 0, 0, 0);
  return 0;
}

/* ---- forked runs and DFS ---- */
static int res_fd = -1; static int child_rc = 0;
typedef struct { int32_t status, rc, n_dec, what_len, diverged; int64_t trace_len; } res_hdr;
static void wr (int fd, const void *p, size_t n) { const char *c = (const char *) p; while (n > 0) { ssize_t k = write (fd, c, n); if (k <= 0) { if (errno == EINTR) continue; _exit (4); } c += k; n -= (size_t) k; } }
static void child_report (int status, const char *what)
{
  char *tb = NULL; size_t tl = 0; FILE *mf = open_memstream (&tb, &tl); res_hdr h;
  vf_sched_trace_dump (mf); fclose (mf);
  h.status = status; h.rc = child_rc; h.n_dec = (int32_t) n_dec; h.what_len = (int32_t) strlen (what); h.trace_len = (int64_t) tl; h.diverged = diverged;
  wr (res_fd, &h, sizeof h); wr (res_fd, dec, (size_t) n_dec * sizeof (decision)); wr (res_fd, what, (size_t) h.what_len); wr (res_fd, tb, tl);
  _exit (0);
}
static int rd (int fd, void *p, size_t n) { char *c = (char *) p; while (n > 0) { ssize_t k = read (fd, c, n); if (k < 0 && errno == EINTR) continue; if (k <= 0) return -1; c += k; n -= (size_t) k; } return 0; }

typedef struct { int status, rc, n_dec, cost, diverged; decision *dec; char *what; char *trace; size_t trace_len; uint8_t *sched; } run_res;
static void free_res (run_res *r) { free (r->dec); free (r->what); free (r->trace); free (r->sched); }

static void forked_run (vf_scenario fn, void *arg, vf_mode mode, uint64_t seed, const vf_opts *so,
                        const uint8_t *sch, int nsch, int timeout_s, run_res *out)
{
  int pfd[2]; pid_t pid; res_hdr h; int st, i;
  memset (out, 0, sizeof *out);
  if (pipe (pfd) != 0) { perror ("pipe"); exit (2); }
  fflush (NULL);
  pid = fork ();
  if (pid < 0) { perror ("fork"); exit (2); }
  if (pid == 0) {
    close (pfd[0]); res_fd = pfd[1];
    alarm (timeout_s > 0 ? (unsigned) timeout_s : 20);
    vf_sched_on_abort (child_report);
    init_common (mode, seed, so);
    if (sch) vf_sched_set_schedule (sch, nsch); else vf_sched_set_schedule (NULL, 0);
    child_rc = fn (arg);
    child_report (VF_ST_OK, "");
  }
  close (pfd[1]);
  if (rd (pfd[0], &h, sizeof h) == 0) {
    out->status = h.status; out->rc = h.rc; out->n_dec = h.n_dec; out->diverged = h.diverged;
    out->dec = (decision *) malloc ((size_t) (h.n_dec + 1) * sizeof (decision));
    out->what = (char *) calloc ((size_t) h.what_len + 1, 1); out->trace = (char *) calloc ((size_t) h.trace_len + 1, 1); out->trace_len = (size_t) h.trace_len;
    if (rd (pfd[0], out->dec, (size_t) h.n_dec * sizeof (decision)) || rd (pfd[0], out->what, (size_t) h.what_len) || rd (pfd[0], out->trace, (size_t) h.trace_len))
      out->status = VF_ST_CRASH;
    close (pfd[0]); waitpid (pid, &st, 0);
  } else {
    close (pfd[0]); waitpid (pid, &st, 0);
    out->status = (WIFSIGNALED (st) && WTERMSIG (st) == SIGALRM) ? VF_ST_TIMEOUT : VF_ST_CRASH;
    out->what = (char *) malloc (64);
    if (WIFSIGNALED (st)) snprintf (out->what, 64, "signal-%d", WTERMSIG (st)); else snprintf (out->what, 64, "exit-%d", WEXITSTATUS (st));
    out->trace = strdup (""); out->n_dec = 0; out->dec = (decision *) malloc (sizeof (decision));
  }
  if (out->n_dec > 0) { out->sched = (uint8_t *) malloc ((size_t) out->n_dec); for (i = 0; i < out->n_dec; i++) out->sched[i] = out->dec[i].chosen; }
  else if (nsch > 0 && sch) { out->sched = (uint8_t *) malloc ((size_t) nsch); memcpy (out->sched, sch, (size_t) nsch); out->n_dec = -nsch; }
  else out->sched = (uint8_t *) malloc (1);
}
static int deliver (run_res *r, long seq, vf_on_run cb, void *user)
{
  vf_run v;
  v.run = seq; v.status = r->status; v.rc = r->rc; v.what = r->what ? r->what : ""; v.schedule = r->sched;
  v.n_schedule = r->n_dec >= 0 ? r->n_dec : -r->n_dec; v.trace = r->trace; v.trace_len = r->trace_len; v.cost = r->cost; v.diverged = r->diverged;
  return cb ? cb (&v, user) : 0;
}
int vf_run_once (vf_scenario fn, void *arg, vf_mode mode, uint64_t seed, const vf_opts *so,
                 const uint8_t *schedule, int n_schedule, int timeout_s, vf_on_run cb, void *user)
{
  run_res r; int rc;
  forked_run (fn, arg, mode, seed, so, schedule, n_schedule, timeout_s, &r);
  rc = deliver (&r, 0, cb, user);
  free_res (&r);
  return rc;
}
void vf_explore_opts_default (vf_explore_opts *o)
{
  memset (o, 0, sizeof *o); o->bound = 2; o->free_switch = 0; o->max_runs = 0; o->timeout_s = 20; vf_opts_default (&o->sched); o->shard_i = 0; o->shard_n = 1;
}
typedef struct { uint8_t *p; int n, cost; } pfx;
int vf_explore (vf_scenario fn, void *arg, const vf_explore_opts *o, vf_on_run cb, void *user, vf_explore_stats *st)
{
  pfx *stack = NULL; long ns = 0, cap = 0, seq = 0, first_level = 0; int stop = 0; vf_explore_stats s = { 0, 0, 0, 0 };
  cap = 1024; stack = (pfx *) malloc ((size_t) cap * sizeof (pfx));
  stack[0].p = (uint8_t *) malloc (1); stack[0].n = 0; stack[0].cost = 0; ns = 1;
  while (ns > 0 && !stop) {
    pfx cur_p = stack[--ns]; run_res r; int i, k; int is_root = (cur_p.n == 0);
    if (o->max_runs > 0 && s.runs >= o->max_runs) { s.truncated = 1; free (cur_p.p); break; }
    forked_run (fn, arg, VF_REPLAY, 1, &o->sched, cur_p.p, cur_p.n, o->timeout_s, &r);
    r.cost = cur_p.cost;
    if (!is_root || o->shard_i == 0) {
      s.runs++; if (r.status != VF_ST_OK || r.rc != 0) s.failed++;
      if (r.n_dec > s.max_decisions) s.max_decisions = r.n_dec;
      if (deliver (&r, seq++, cb, user)) stop = 1;
    }
    for (i = cur_p.n; i < r.n_dec && !stop; i++) {
      decision *d = &r.dec[i];
      for (k = 0; k < d->nopts; k++) {
        int alt = d->opts[k], c;
        if (alt == d->chosen) continue;
        if (alt >= 64) c = 1; else if (d->kind == 0 && d->cur_enabled) c = 1; else c = o->free_switch ? 0 : 1;
        if (cur_p.cost + c > o->bound) continue;
        if (is_root) { long j = first_level++; if (o->shard_n > 1 && (j % o->shard_n) != o->shard_i) continue; }
        if (ns == cap) { cap *= 2; stack = (pfx *) realloc (stack, (size_t) cap * sizeof (pfx)); }
        stack[ns].p = (uint8_t *) malloc ((size_t) i + 1);
        { int q; for (q = 0; q < i; q++) stack[ns].p[q] = r.dec[q].chosen; }
        stack[ns].p[i] = (uint8_t) alt; stack[ns].n = i + 1; stack[ns].cost = cur_p.cost + c; ns++;
      }
    }
    free_res (&r); free (cur_p.p);
  }
  while (ns > 0) free (stack[--ns].p);
  free (stack);
  if (st) *st = s;
  return stop;
}
