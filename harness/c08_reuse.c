/* C08 harness: SEQUENCES of solves on one mps_context with a restricted search set / property detection.
 * The classification state (root->inclusion, root->attrs) lives in the context's approximations; a second
 * mps_context_set_input_poly + mps_mpsolve must start from UNKNOWN / NONE again (mps_cluster_reset).
 *
 * stdin, one sequence per line:
 *   Q <id> <alg u|s> <set arludioRI> <goal i|a|c> <detect n|r|i|b> <outdigits> <k>  then k polynomials:  <deg> c_0 ... c_deg
 *     each coefficient  RE,IM  (decimal integers that fit a long long: set with mps_monomial_poly_set_coefficient_int)
 * stdout, one line per solve:
 *   <id> step=<j> n=<n> zr=<zero_roots> phase=<lastphase> cnt=<c0>,<c1>,<c2> [ERR=<msg>] R <inc> <att> <re> <im> <rad> ; ...
 *     re, im: the multiprecision value exactly,  [-]HEX:EXP2  (value = HEX * 2^EXP2);  rad: drad as  %a:EXP  (mantissa, long exponent)
 */
#include <mps/mps.h>
#include <stdio.h>
#include <stdlib.h>
#include <string.h>
#include <gmp.h>

static char linebuf[1 << 22];

static void
out_mpf_exact (mpf_t x)
{
  mp_size_t n = x->_mp_size;
  int neg = n < 0;
  mpz_t z;

  if (neg)
    n = -n;
  if (n == 0)
    {
      printf ("0:0");
      return;
    }
  mpz_init (z);
  mpz_import (z, (size_t)n, -1, sizeof (mp_limb_t), 0, 0, x->_mp_d);
  gmp_printf ("%s%Zx:%ld", neg ? "-" : "", z, (long)GMP_NUMB_BITS * ((long)x->_mp_exp - (long)n));
  mpz_clear (z);
}

static mps_search_set
set_of (char c)
{
  switch (c)
    {
    case 'r': return MPS_SEARCH_SET_POSITIVE_REAL_PART;
    case 'l': return MPS_SEARCH_SET_NEGATIVE_REAL_PART;
    case 'u': return MPS_SEARCH_SET_POSITIVE_IMAG_PART;
    case 'd': return MPS_SEARCH_SET_NEGATIVE_IMAG_PART;
    case 'i': return MPS_SEARCH_SET_UNITARY_DISC;
    case 'o': return MPS_SEARCH_SET_UNITARY_DISC_COMPL;
    case 'R': return MPS_SEARCH_SET_REAL;
    case 'I': return MPS_SEARCH_SET_IMAG;
    default: return MPS_SEARCH_SET_COMPLEX_PLANE;
    }
}

static void
do_sequence (char **save)
{
  char *id = strtok_r (NULL, " \n", save);
  char alg = strtok_r (NULL, " \n", save)[0];
  char setc = strtok_r (NULL, " \n", save)[0];
  char goal = strtok_r (NULL, " \n", save)[0];
  char det = strtok_r (NULL, " \n", save)[0];
  int digits = atoi (strtok_r (NULL, " \n", save));
  int k = atoi (strtok_r (NULL, " \n", save));
  mps_context *s = mps_context_new ();
  char *obuf = NULL;
  size_t olen = 0;
  FILE *ostr = open_memstream (&obuf, &olen);
  int j, i;

  mps_context_select_algorithm (s, alg == 's' ? MPS_ALGORITHM_SECULAR_GA : MPS_ALGORITHM_STANDARD_MPSOLVE);
  mps_context_set_output_goal (s, goal == 'a' ? MPS_OUTPUT_GOAL_APPROXIMATE : goal == 'c' ? MPS_OUTPUT_GOAL_COUNT : MPS_OUTPUT_GOAL_ISOLATE);
  if (digits > 0)
    mps_context_set_output_prec (s, (long)(digits * LOG2_10) + 1);
  s->output_config->search_set = set_of (setc);
  s->output_config->root_properties = det == 'r' ? MPS_OUTPUT_PROPERTY_REAL : det == 'i' ? MPS_OUTPUT_PROPERTY_IMAGINARY
    : det == 'b' ? (MPS_OUTPUT_PROPERTY_REAL | MPS_OUTPUT_PROPERTY_IMAGINARY) : MPS_OUTPUT_PROPERTY_NONE;
  s->outstr = ostr;
  mps_thread_pool_set_concurrency_limit (s, NULL, 1);

  for (j = 0; j < k; j++)
    {
      int deg = atoi (strtok_r (NULL, " \n", save));
      mps_monomial_poly *p = mps_monomial_poly_new (s, deg);

      for (i = 0; i <= deg; i++)
        {
          char *tok = strtok_r (NULL, " \n", save);
          char *comma = tok ? strchr (tok, ',') : NULL;

          if (!comma)
            {
              printf ("%s step=%d ERR=short-line\n", id, j);
              return;
            }
          *comma = 0;
          /* integer structure (the detection options are refused for rational input): the generator keeps the
           * coefficients within long long */
          mps_monomial_poly_set_coefficient_int (s, p, i, strtoll (tok, NULL, 10), strtoll (comma + 1, NULL, 10));
        }
      mps_context_set_input_poly (s, MPS_POLYNOMIAL (p));
      mps_mpsolve (s);
      if (mps_context_has_errors (s))
        {
          printf ("%s step=%d n=%d ERR=%s\n", id, j, s->n, mps_context_error_msg (s));
          break;
        }
      mps_countroots (s);
      printf ("%s step=%d n=%d zr=%d phase=%d cnt=%d,%d,%d", id, j, s->n, s->zero_roots, (int)s->lastphase,
              s->count[0], s->count[1], s->count[2]);
      for (i = 0; i < s->n; i++)
        {
          mps_approximation *r = s->root[i];

          printf (" R %d %d ", (int)r->inclusion, (int)r->attrs);
          if (s->lastphase == mp_phase)
            {
              out_mpf_exact (mpc_Re (r->mvalue));
              putchar (' ');
              out_mpf_exact (mpc_Im (r->mvalue));
              printf (" %a:%ld", rdpe_Mnt (r->drad), rdpe_Esp (r->drad));
            }
          else if (s->lastphase == dpe_phase)
            printf ("D%a:%ld D%a:%ld %a:%ld", rdpe_Mnt (cdpe_Re (r->dvalue)), rdpe_Esp (cdpe_Re (r->dvalue)),
                    rdpe_Mnt (cdpe_Im (r->dvalue)), rdpe_Esp (cdpe_Im (r->dvalue)), rdpe_Mnt (r->drad), rdpe_Esp (r->drad));
          else
            printf ("D%a:0 D%a:0 %a:0", cplx_Re (r->fvalue), cplx_Im (r->fvalue), r->frad);
          printf (" ;");
        }
      printf ("\n");
    }
  fclose (ostr);
  free (obuf);
  mps_context_free (s);
}

int
main (void)
{
  while (fgets (linebuf, sizeof (linebuf), stdin))
    {
      char *save = NULL;
      char *kind = strtok_r (linebuf, " \n", &save);

      if (kind && kind[0] == 'Q')
        do_sequence (&save);
      fflush (stdout);
    }
  return 0;
}
