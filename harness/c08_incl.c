/* C08 harness: direct calls of the touch tests (common/touch.c) and of the classification code
 * (common/inclusion.c mps_{f,d,m}update_inclusions, common/modify.c mps_cluster_detect_properties,
 * system/input-output.c mps_countroots) through the private API, on states built by hand.
 *
 * Numbers are exact dyadics  M * 2^E  (M decimal integer, E long).  Variant f: the generator keeps
 * them representable as doubles; d: |M| < 2^53, E any long in the DPE range used; m: M has at most
 * <prec> bits (value) / 53 bits (radius, which is the DPE field drad in the multiprecision phase).
 *
 * stdin, one case per line:
 *   T <id> <variant f|d|m> <factor> <prec> xM xE yM yE rM rE
 *       -> <id> T=<real><imag><unit>                      (mps_?touchreal / imag / unit (s, factor, 0))
 *   S <id> <variant> <set arludioRIC> <realstruct 0|1> <detect 0..3> <sep> <lmax> <zero_roots> <prec> <n> <clusters>
 *       then n times: xM xE yM yE rM rE <inclusion 0..2> <attrs 0..5>
 *     clusters: members ',' separated, clusters ';' separated, in linked-list order; sep, lmax: C doubles (%a or decimal)
 *       -> <id> T=<7 bits per root: unit(2n) imag(2n) real(2n) real(1) imag(1) real(n) imag(n)>
 *               SD=<6 bits per root: in_unit in_compl re_neg re_pos im_neg im_pos   (the side expressions of the
 *                   switch in mps_?update_inclusions, re-evaluated here with the same library calls)>
 *               SM=<2 bits per root: the radius tests `log r < sep - n lmax_coeff` as written in inclusion.c and modify.c>
 *               DA=<attrs after mps_cluster_detect_properties on every cluster>
 *               INC=<inclusion after mps_?update_inclusions> ATT=<attrs after it> CNT=c0,c1,c2 (mps_countroots)
 */
#include <mps/mps.h>
#include <stdio.h>
#include <stdlib.h>
#include <string.h>
#include <float.h>
#include <math.h>

#define MAXN 64
static char linebuf[1 << 20];

typedef struct { mpz_t m; long e; } num;
static num X[MAXN], Y[MAXN], R[MAXN];

static int
read_num (char **save, num *v)
{
  char *a = strtok_r (NULL, " \n", save);
  char *b = strtok_r (NULL, " \n", save);

  if (!a || !b || mpz_set_str (v->m, a, 10) != 0)
    return 0;
  v->e = atol (b);
  return 1;
}

static double
num_d (const num *v)
{
  /* exact by construction of the inputs of variant f; ldexp rounds correctly otherwise */
  long e = v->e;
  double d = mpz_get_d (v->m);

  if (e > 4000) e = 4000;
  if (e < -4000) e = -4000;
  return ldexp (d, (int)e);
}

static void
num_rdpe (rdpe_t r, const num *v)
{
  rdpe_set_2dl (r, mpz_get_d (v->m), v->e);
}

static void
num_mpf (mpf_t f, const num *v)
{
  mpf_set_z (f, v->m);
  if (v->e >= 0)
    mpf_mul_2exp (f, f, (unsigned long)v->e);
  else
    mpf_div_2exp (f, f, (unsigned long)(-v->e));
}

static mps_context *
make_ctx (int n, long prec, int real_struct)
{
  mps_context *s = mps_context_new ();
  mps_monomial_poly *p = mps_monomial_poly_new (s, n);

  mps_monomial_poly_set_coefficient_int (s, p, n, 1, 0);
  mps_monomial_poly_set_coefficient_int (s, p, 0, -1, 0);
  mps_context_set_input_poly (s, MPS_POLYNOMIAL (p));
  mps_allocate_data (s);
  mps_thread_pool_set_concurrency_limit (s, s->pool, 1);
  s->mpwp = prec;
  rdpe_set_2dl (s->mp_epsilon, 1.0, 1 - prec);
  s->active_poly->structure = real_struct ? MPS_STRUCTURE_REAL_INTEGER : MPS_STRUCTURE_COMPLEX_INTEGER;
  return s;
}

static void
set_root (mps_context *s, int i, long prec)
{
  mps_approximation *r = s->root[i];

  r->frad = num_d (&R[i]);
  num_rdpe (r->drad, &R[i]);
  cplx_set_d (r->fvalue, num_d (&X[i]), num_d (&Y[i]));
  num_rdpe (cdpe_Re (r->dvalue), &X[i]);
  num_rdpe (cdpe_Im (r->dvalue), &Y[i]);
  mpc_set_prec (r->mvalue, prec);
  num_mpf (mpc_Re (r->mvalue), &X[i]);
  num_mpf (mpc_Im (r->mvalue), &Y[i]);
}

static int
touch (mps_context *s, char v, int which, int fac, int i)
{
  switch (which)
    {
    case 0:
      return v == 'f' ? mps_ftouchreal (s, fac, i) : v == 'd' ? mps_dtouchreal (s, fac, i) : mps_mtouchreal (s, fac, i);
    case 1:
      return v == 'f' ? mps_ftouchimag (s, fac, i) : v == 'd' ? mps_dtouchimag (s, fac, i) : mps_mtouchimag (s, fac, i);
    default:
      return v == 'f' ? mps_ftouchunit (s, fac, i) : v == 'd' ? mps_dtouchunit (s, fac, i) : mps_mtouchunit (s, fac, i);
    }
}

static void
set_clusters (mps_context *s, char *spec)
{
  static int members[MAXN * 2], start[MAXN * 2], len[MAXN * 2];
  int nc = 1, nm = 0, i, k;
  char *p = spec;

  start[0] = 0; len[0] = 0;
  while (*p)
    {
      if (*p == ';')
        { start[nc] = nm; len[nc] = 0; nc++; p++; }
      else if (*p == ',')
        p++;
      else
        {
          members[nm++] = (int)strtol (p, &p, 10);
          len[nc - 1]++;
        }
    }
  mps_clusterization_free (s, s->clusterization);
  s->clusterization = mps_clusterization_empty (s);
  for (i = nc - 1; i >= 0; i--)
    {
      mps_cluster *c = mps_cluster_empty (s);
      for (k = len[i] - 1; k >= 0; k--)
        mps_cluster_insert_root (s, c, members[start[i] + k]);
      mps_clusterization_insert_cluster (s, s->clusterization, c);
    }
}

static mps_search_set
set_of (char c)
{
  switch (c)
    {
    case 'a': return MPS_SEARCH_SET_COMPLEX_PLANE;
    case 'r': return MPS_SEARCH_SET_POSITIVE_REAL_PART;
    case 'l': return MPS_SEARCH_SET_NEGATIVE_REAL_PART;
    case 'u': return MPS_SEARCH_SET_POSITIVE_IMAG_PART;
    case 'd': return MPS_SEARCH_SET_NEGATIVE_IMAG_PART;
    case 'i': return MPS_SEARCH_SET_UNITARY_DISC;
    case 'o': return MPS_SEARCH_SET_UNITARY_DISC_COMPL;
    case 'R': return MPS_SEARCH_SET_REAL;
    case 'I': return MPS_SEARCH_SET_IMAG;
    default: return MPS_SEARCH_SET_CUSTOM;
    }
}

static void
do_touch_line (char **save)
{
  char *id = strtok_r (NULL, " \n", save);
  char v = strtok_r (NULL, " \n", save)[0];
  int fac = atoi (strtok_r (NULL, " \n", save));
  long prec = atol (strtok_r (NULL, " \n", save));
  mps_context *s;

  if (!read_num (save, &X[0]) || !read_num (save, &Y[0]) || !read_num (save, &R[0]))
    { printf ("%s ERROR short line\n", id); return; }
  s = make_ctx (2, prec, 0);
  set_root (s, 0, prec);
  printf ("%s T=%d%d%d\n", id, touch (s, v, 0, fac, 0), touch (s, v, 1, fac, 0), touch (s, v, 2, fac, 0));
  mps_context_free (s);
}

static void
do_state_line (char **save)
{
  char *id = strtok_r (NULL, " \n", save);
  char v = strtok_r (NULL, " \n", save)[0];
  char setc = strtok_r (NULL, " \n", save)[0];
  int real_struct = atoi (strtok_r (NULL, " \n", save));
  int detect = atoi (strtok_r (NULL, " \n", save));
  double sep = strtod (strtok_r (NULL, " \n", save), NULL);
  double lmax = strtod (strtok_r (NULL, " \n", save), NULL);
  int zero_roots = atoi (strtok_r (NULL, " \n", save));
  long prec = atol (strtok_r (NULL, " \n", save));
  int n = atoi (strtok_r (NULL, " \n", save));
  char *clusters = strtok_r (NULL, " \n", save);
  static int inc0[MAXN], att0[MAXN];
  mps_context *s;
  mps_cluster_item *item;
  mps_phase phase = v == 'f' ? float_phase : v == 'd' ? dpe_phase : mp_phase;
  int i, nf;

  if (n < 1 || n > MAXN - 2)
    { printf ("%s ERROR bad n\n", id); return; }
  for (i = 0; i < n; i++)
    {
      char *a, *b;
      if (!read_num (save, &X[i]) || !read_num (save, &Y[i]) || !read_num (save, &R[i]))
        { printf ("%s ERROR short line\n", id); return; }
      a = strtok_r (NULL, " \n", save); b = strtok_r (NULL, " \n", save);
      if (!a || !b)
        { printf ("%s ERROR short line\n", id); return; }
      inc0[i] = atoi (a); att0[i] = atoi (b);
    }
  s = make_ctx (n, prec, real_struct);
  nf = 2 * s->n;
  s->zero_roots = zero_roots;
  s->sep = sep;
  s->lmax_coeff = lmax;
  s->output_config->search_set = set_of (setc);
  s->output_config->root_properties = (detect & 1 ? MPS_OUTPUT_PROPERTY_REAL : 0) | (detect & 2 ? MPS_OUTPUT_PROPERTY_IMAGINARY : 0);
  s->lastphase = phase;
  for (i = 0; i < n; i++)
    {
      set_root (s, i, prec);
      s->root[i]->inclusion = (mps_root_inclusion)inc0[i];
      s->root[i]->attrs = (mps_root_attrs)att0[i];
    }
  set_clusters (s, clusters);

  printf ("%s T=", id);
  for (i = 0; i < n; i++)
    printf ("%d%d%d%d%d%d%d", touch (s, v, 2, nf, i), touch (s, v, 1, nf, i), touch (s, v, 0, nf, i),
            touch (s, v, 0, 1, i), touch (s, v, 1, 1, i), touch (s, v, 0, s->n, i), touch (s, v, 1, s->n, i));
  printf (" SD=");
  for (i = 0; i < n; i++)
    {
      int b[6];
      if (v == 'f')
        {
          double ab = cplx_mod (s->root[i]->fvalue);
          b[0] = ab < 1; b[1] = ab > 1;
          b[2] = cplx_Re (s->root[i]->fvalue) < 0; b[3] = cplx_Re (s->root[i]->fvalue) > 0;
          b[4] = cplx_Im (s->root[i]->fvalue) < 0; b[5] = cplx_Im (s->root[i]->fvalue) > 0;
        }
      else if (v == 'd')
        {
          rdpe_t mod;
          cdpe_mod (mod, s->root[i]->dvalue);
          b[0] = rdpe_le (mod, rdpe_one); b[1] = rdpe_ge (mod, rdpe_one);
          rdpe_set (mod, cdpe_Re (s->root[i]->dvalue));
          b[2] = rdpe_le (mod, rdpe_zero); b[3] = rdpe_ge (mod, rdpe_zero);
          rdpe_set (mod, cdpe_Im (s->root[i]->dvalue));
          b[4] = rdpe_le (mod, rdpe_zero); b[5] = rdpe_ge (mod, rdpe_zero);
        }
      else
        {
          cdpe_t cmod;
          rdpe_t mod;
          mpf_t mmod;
          mpf_init2 (mmod, s->mpwp);
          mpc_get_cdpe (cmod, s->root[i]->mvalue);
          mpf_set_prec (mmod, MAX ((unsigned long)s->mpwp, mpc_get_prec (s->root[i]->mvalue)));
          mpc_mod (mmod, s->root[i]->mvalue);
          b[0] = mpf_cmp_ui (mmod, 1) < 0; b[1] = mpf_cmp_ui (mmod, 1) > 0;
          rdpe_set (mod, cdpe_Re (cmod));
          b[2] = rdpe_le (mod, rdpe_zero); b[3] = rdpe_ge (mod, rdpe_zero);
          rdpe_set (mod, cdpe_Im (cmod));
          b[4] = rdpe_le (mod, rdpe_zero); b[5] = rdpe_ge (mod, rdpe_zero);
          mpf_clear (mmod);
        }
      printf ("%d%d%d%d%d%d", b[0], b[1], b[2], b[3], b[4], b[5]);
    }
  printf (" SM=");
  for (i = 0; i < n; i++)
    {
      rdpe_t log_rad;
      int a, b;
      if (v == 'f')
        {
          a = log (s->root[i]->frad) < s->sep - s->n * s->lmax_coeff;
          rdpe_set_d (log_rad, s->root[i]->frad);
        }
      else
        {
          a = rdpe_log (s->root[i]->drad) < s->sep - s->n * s->lmax_coeff;
          rdpe_set (log_rad, s->root[i]->drad);
        }
      b = rdpe_log (log_rad) < s->sep - s->n * s->lmax_coeff;
      printf ("%d%d", a, b);
    }

  for (item = s->clusterization->first; item; item = item->next)
    mps_cluster_detect_properties (s, item->cluster, phase);
  printf (" DA=");
  for (i = 0; i < n; i++)
    printf ("%d", (int)s->root[i]->attrs);

  if (v == 'f')
    mps_fupdate_inclusions (s);
  else if (v == 'd')
    mps_dupdate_inclusions (s);
  else
    mps_mupdate_inclusions (s);
  printf (" INC=");
  for (i = 0; i < n; i++)
    printf ("%d", (int)s->root[i]->inclusion);
  printf (" ATT=");
  for (i = 0; i < n; i++)
    printf ("%d", (int)s->root[i]->attrs);

  mps_countroots (s);
  printf (" CNT=%d,%d,%d\n", s->count[0], s->count[1], s->count[2]);
  mps_context_free (s);
}

int
main (void)
{
  int i;

  for (i = 0; i < MAXN; i++)
    { mpz_init (X[i].m); mpz_init (Y[i].m); mpz_init (R[i].m); }
  while (fgets (linebuf, sizeof (linebuf), stdin))
    {
      char *save = NULL;
      char *kind = strtok_r (linebuf, " \n", &save);

      if (!kind)
        continue;
      if (kind[0] == 'T')
        do_touch_line (&save);
      else if (kind[0] == 'S')
        do_state_line (&save);
      fflush (stdout);
    }
  return 0;
}
